import AsynqModel.Proofs.P27DfsStep
/-
  P6 (property C04), part 12: from one step to all reachable states of yield-only programs.
-/
namespace AsynqModel.Core.P27
open AsynqModel.Core.P6
open AsynqModel.Core

/-- `ReachYO s`: `s` is reached by a run of a yield-only program (`Spec.bodyHasSync` is false for every top-level
    computation; P27: NonAsyncContexts are allowed) in which no task dereferences a reference that is out of scope
    (`StepScoped` before every step). -/
inductive ReachYO : State → Prop
  | init (cfg : Cfg) (tops : List (Conv × Body)) (choices : List (Nat × Nat))
      (h : ∀ p ∈ tops, Spec.bodyHasSync p.2 = false) :
      ReachYO (initState cfg tops choices)
  | step {s : State} : ReachYO s → StepScoped s → ReachYO (step s)

theorem ReachYO.reach {s : State} (h : ReachYO s) : Reach s := by
  induction h with
  | init cfg tops choices _ => exact Reach.init cfg tops choices
  | step _ _ ih => exact Reach.step ih

/-- P27: every step of the machine keeps a blocked task free of NonAsyncContexts: a context is registered only with
    the active task, which is a running generator and therefore awaits nothing uncomputed (`P2.CInv.actIn`, `gnb`);
    the kind of an existing context object never changes. -/
theorem naf_step {s : State} (h : Reach s) : NAF s (step s) := by
  have pin := P2.pinv_reach h
  intro u hbl hna
  have hact : s.active ≠ some u := by
    intro ha
    obtain ⟨d, hd, hcd⟩ := hbl
    rw [pin.gnb u (pin.actIn u ha) d hd] at hcd; cases hcd
  have quiet : ∀ {s' : State}, P2.QuietT s s' → P2.NAfree s' u := by
    intro s' q c hc
    rcases q.cxs u c hc with h1 | ⟨h1, _⟩
    · rw [q.na c (pin.hrange u c h1)]; exact hna c h1
    · exact absurd h1 hact
  have core : ∀ {s' : State} {t : Nat} {g : TaskSt → TaskSt} {e : Event}, P2.CoreStep s s' t g e → P2.NAfree s' u := by
    intro s' t g e c x hx
    rw [(c.ctx_self u).2] at hx
    rw [P2.nonasync_congr c.ctxs]; exact hna x hx
  cases P2.step_kind s pin.items pin.genKind pin.z with
  | quiet q _ => exact quiet q
  | push q _ _ _ _ _ _ _ _ _ _ _ _ => exact quiet q
  | run0 _ _ _ _ _ _ _ _ c _ _ => exact core c
  | run _ _ _ _ _ _ _ _ _ _ c _ _ => exact core c
  | yield _ _ _ _ _ _ _ _ _ _ c _ => exact core c

structure Inv6 (s : State) : Prop where
  a : InvA s
  b : InvB s
  c : ∃ P, InvC s P

theorem stuck_mono (s : State) (h : (step s).stuck = none) : s.stuck = none := by
  cases hs : s.stuck with
  | none => rfl
  | some m =>
    have : step s = s := P3.step_of_stuck s (by rw [hs]; simp)
    rw [this, hs] at h; cases h

/-- what `P3.Core` says about yield-only control stacks: the stack is empty outside `_execute`, the base is 0 -/
theorem core_facts {s : State} (hc : P3.Core s) (hsh : CtlShape s.ctl) :
    ((s.ctl = [] ∨ ∃ root, s.ctl = [.waitEnter root]) → s.stack = []) ∧
    (∀ root base rest, s.ctl = .waitLoop root base :: rest → base = 0) := by
  have hf := hc.frames
  refine ⟨?_, ?_⟩
  · intro h
    rcases h with h | ⟨root, h⟩
    · rw [h] at hf
      exact List.eq_nil_of_length_eq_zero (P3.chain_nil.1 (by simpa using hf))
    · rw [h] at hf
      exact List.eq_nil_of_length_eq_zero (P3.chain_nil.1 (by simpa using hf))
  · intro root base rest h
    rcases hsh with h0 | ⟨r0, h0⟩ | ⟨r0, b0, h0⟩ | ⟨t0, old0, r0, b0, h0⟩ <;> rw [h0] at h <;> cases h
    rw [h0] at hf
    have := (P3.chain_cons.1 (by simpa using hf)).2
    exact P3.chain_nil.1 this

/-- the invariants hold in every reachable state of a yield-only run that is not stuck and in which the
    MAX_TASK_STACK_SIZE guard has not fired -/
theorem inv6 (s : State) (h : ReachYO s) (hs : s.stuck = none) (hg : s.guardFired = false) : Inv6 s := by
  induction h with
  | init cfg tops choices hyo =>
    exact ⟨invA_init cfg tops choices hyo, invB_init cfg tops choices, ⟨_, invC_init cfg tops choices⟩⟩
  | @step s hr hsc ih =>
    have hs0 := stuck_mono s hs
    have hg0 := P3.guard_mono s hg
    obtain ⟨hA, hB, P, hC⟩ := ih hs0 hg0
    have hcore := (P3.reach_core s hr.reach hg0).1
    have hgen : ∀ t old rest, s.ctl = .gen t old :: rest → (view s t).kind = .task ∧ okV (view s t) :=
      fun t old rest hc => ⟨(hA.gen t old rest hc).1, hA.ok t⟩
    have d := step_desc s hs0 hcore.raising (P2.pinv_reach hr.reach).z hgen hs hg
    obtain ⟨h1, h2⟩ := core_facts hcore hA.shape
    exact ⟨invA_step hA d, invB_step hB d, invC_step hA hB hC d (naf_step hr.reach) hsc h1 h2⟩

/-- the step out of `s`, described on the level of views -/
theorem desc_of_reach (s : State) (h : ReachYO s) (hs : (step s).stuck = none) (hg : (step s).guardFired = false) :
    Desc s (step s) ∧ InvA s := by
  have hs0 := stuck_mono s hs
  have hg0 := P3.guard_mono s hg
  obtain ⟨hA, _, _⟩ := inv6 s h hs0 hg0
  have hcore := (P3.reach_core s h.reach hg0).1
  exact ⟨step_desc s hs0 hcore.raising (P2.pinv_reach h.reach).z
    (fun t old rest hc => ⟨(hA.gen t old rest hc).1, hA.ok t⟩) hs hg, hA⟩

/-- an unflushed batch stays unflushed until the next scheduler flush -/
theorem Desc.unflushed_mono {s r : State} (d : Desc s r) (hnf : ¬ IsFlush s) :
    ∀ k q b, s.batch? k q = some b → b.flushed = false → ∃ b', r.batch? k q = some b' ∧ b'.flushed = false := by
  cases d with
  | quiet e _ _ => exact batch_same e.batches
  | top conv body rest _ _ U _ _ => exact batch_same U.batches
  | ret _ _ _ e _ _ => exact batch_same e.batches
  | enterLoop _ _ _ _ e _ _ => exact batch_same e.batches
  | pop _ _ _ _ _ e _ _ => exact batch_same e.batches
  | popLazy _ top st _ lo _ _ U _ _ => exact batch_same U.batches
  | second _ top st _ _ _ _ _ _ U _ _ => exact batch_same U.batches
  | naFail _ top st _ _ _ _ _ _ U _ _ => exact batch_same U.batches
  | first _ top st _ _ _ _ _ U _ _ => exact batch_same U.batches
  | enterGen _ _ _ _ _ _ _ e _ _ _ => exact batch_same e.batches
  | gen t old rest _ d =>
    cases d with
    | loc v' hu _ _ _ _ _ _ _ _ _ _ _ _ => exact batch_same hu.batches
    | spawn child k pass _ _ hu _ hbat _ _ => exact batch_same hbat
    | item kind payload mode k seq _ _ hu _ hbat _ => exact hbat.unflushed_mono
    | other k kd out _ _ hu _ hbat _ _ => exact batch_same hbat
    | yield ry npy nd leave _ _ _ _ hu _ => exact batch_same hu.batches
    | finish o _ hu _ => exact batch_same hu.batches
  | flush root base rest hctl0 hlen hroot F hctl => exact absurd ⟨root, base, rest, hctl0, hlen, hroot⟩ hnf

/-! ### an executable check of `StepScoped`, for the examples -/

def refOKB (ts : TaskSt) : Ref → Bool
  | .own i => i < ts.own.length
  | .inh j => j < ts.inh.length

def scopedB (s : State) : Bool :=
  match s.ctl with
  | .gen t _ :: _ =>
    (s.task t).pending ||
      match (s.task t).body with
      | .yld y _ _ => y.leaves.all (refOKB (s.task t))
      | .spawn _ pass _ => pass.all (refOKB (s.task t))
      | _ => true
  | _ => true

theorem refOKB_sound (s : State) (t : Nat) (r : Ref) (h : refOKB (s.task t) r = true) : refOK (view s t) r := by
  cases r with
  | own i =>
    have h' : decide (i < (s.task t).own.length) = true := h
    have h'' : i < (s.task t).own.length := of_decide_eq_true h'
    exact h''
  | inh j =>
    have h' : decide (j < (s.task t).inh.length) = true := h
    have h'' : j < (s.task t).inh.length := of_decide_eq_true h'
    exact h''

theorem scopedB_sound (s : State) (h : scopedB s = true) : StepScoped s := by
  intro t old rest hctl hp
  have hp' : (s.task t).pending = false := hp
  unfold scopedB at h
  rw [hctl] at h
  simp only [hp', Bool.false_or] at h
  refine ⟨?_, ?_⟩
  · intro y k hh hb ref href
    have hb' : (s.task t).body = .yld y k hh := hb
    rw [hb'] at h
    exact refOKB_sound s t ref (List.all_eq_true.1 h ref href)
  · intro c pass k hb ref href
    have hb' : (s.task t).body = .spawn c pass k := hb
    rw [hb'] at h
    exact refOKB_sound s t ref (List.all_eq_true.1 h ref href)

/-- run `n` steps, stopping when a step would dereference an out-of-scope reference -/
def runChk : Nat → State → State
  | 0, s => s
  | n + 1, s => if scopedB s then runChk n (step s) else s

theorem reachYO_runChk (n : Nat) (s : State) (h : ReachYO s) : ReachYO (runChk n s) := by
  induction n generalizing s with
  | zero => exact h
  | succ n ih =>
    unfold runChk
    split
    · rename_i hsc
      exact ih _ (ReachYO.step h (scopedB_sound s hsc))
    · exact h

end AsynqModel.Core.P27
