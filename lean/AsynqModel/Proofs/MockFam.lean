import AsynqModel.Lib.Mock
import AsynqModel.Proofs.Mock
/-! helper lemmas for C19, part 3: runs, blocks, and the family "start any patches, then stopall" -/
set_option linter.unusedSimpArgs false
namespace AsynqModel.Mock

theorem observe_fst (env : Env) (st : State) (op : Op) : (observe env st op).1 = (step env st op).1 := rfl

theorem finalFrom_append (env : Env) (st : State) (a b : List Op) :
    finalFrom env st (a ++ b) = finalFrom env (finalFrom env st a) b := by
  induction a generalizing st with
  | nil => rfl
  | cons op a ih => simp only [List.cons_append, finalFrom]; exact ih _

theorem disciplinedFrom_append (env : Env) (st : State) (a b : List Op) :
    disciplinedFrom env st (a ++ b) = (disciplinedFrom env st a && disciplinedFrom env (finalFrom env st a) b) := by
  induction a generalizing st with
  | nil => simp [disciplinedFrom, finalFrom]
  | cons op a ih =>
    simp only [List.cons_append, disciplinedFrom, finalFrom, observe_fst, ih, Bool.and_assoc]

theorem inv_final (env : Env) (ops : List Op) (st : State) (h : Inv env st) (hd : disciplinedFrom env st ops = true) :
    Inv env (finalFrom env st ops) := by
  induction ops generalizing st with
  | nil => exact h
  | cons op ops ih =>
    simp only [disciplinedFrom, Bool.and_eq_true, Bool.or_eq_true] at hd
    simp only [finalFrom, observe_fst]
    exact ih _ (inv_step env st op h hd.1) hd.2

/-- `with patcher:` outside a skipped body: either `__enter__` fails (no patcher / nothing to patch) and the body
    will be skipped, or the replacement is installed on top of the stack -/
theorem step_enter_cases (env : Env) (st : State) (p : Nat) (hsk : st.skip = none) :
    (∃ pat, (step env st (.enter p)).1 = { st with skip := some (p, 0), patchers := pat }) ∨
    ∃ pt0, st.patchers p = some pt0 ∧ ∃ pt, pt = resolveP st.bind pt0 ∧
      (step env st (.enter p)).1 =
        { st with patchers := upd st.patchers p (some pt),
                  store := upd st.store pt.spec.target (some (installedObj pt p (st.entries p))),
                  saved := upd st.saved p (some (getOriginal env st pt.spec.target)),
                  entries := upd st.entries p (match pt.new with | some _ => st.entries p | none => st.entries p + 1),
                  stack := { p := p, t := pt.spec.target, o := installedObj pt p (st.entries p) } :: st.stack } := by
  unfold step
  simp only [hsk]
  cases hpt : st.patchers p with
  | none => left; exact ⟨_, rfl⟩
  | some pt0 =>
    simp only []
    generalize hpt' : resolveP st.bind pt0 = pt
    unfold enter
    simp only []
    have hgo : getOriginal env (setPatcher st p pt) pt.spec.target = getOriginal env st pt.spec.target := rfl
    rw [hgo]
    by_cases hc : (!pt.spec.create && (getOriginal env st pt.spec.target).1.isNone) = true
    · left; simp only [hc, if_true]; exact ⟨_, rfl⟩
    · right; simp only [hc, Bool.false_eq_true, if_false]
      exact ⟨pt0, rfl, pt, hpt'.symm, by simp only [setPatcher, hsk]; rfl⟩

/-- the block `with p: body` puts back whatever the store held before it, provided the body closed what it opened -/
theorem block_restores (env : Env) (st : State) (p : Nat) (exc : Bool) (body : List Op) (h : Inv env st)
    (hsk : st.skip = none) (hopen : isOpen p st.stack = false)
    (hent : (step env st (.enter p)).1.skip = none)
    (hbody : disciplinedFrom env (step env st (.enter p)).1 body = true)
    (hbal : (finalFrom env (step env st (.enter p)).1 body).stack = (step env st (.enter p)).1.stack)
    (hsk2 : (finalFrom env (step env st (.enter p)).1 body).skip = none) :
    (finalFrom env st (.enter p :: body ++ [.exit p exc])).store = st.store ∧
    (finalFrom env st (.enter p :: body ++ [.exit p exc])).stack = st.stack := by
  have hok : opOk env st (.enter p) = true := by simp [opOk, hopen]
  have h1 := inv_step env st (.enter p) h (Or.inr hok)
  have h2 := inv_final env body _ h1 hbody
  simp only [finalFrom, observe_fst, finalFrom_append]
  cases step_enter_cases env st p hsk with
  | inl hs => obtain ⟨pat, hs⟩ := hs; rw [hs] at hent; cases hent
  | inr hs =>
    obtain ⟨pt0, hpt, pt, _, hs⟩ := hs
    generalize hst2 : finalFrom env (step env st (.enter p)).1 body = st2 at *
    rw [hs] at hbal
    simp only [] at hbal
    have hsaved := h2.saved
    rw [hbal] at hsaved
    obtain ⟨⟨pt2, sv, n, hp2, ht2, _, hsv, hrv⟩, _⟩ := hsaved
    simp only [] at hp2 ht2 hsv hrv
    have hst2store := h2.store
    rw [hbal] at hst2store
    unfold step
    simp only [hsk2, hp2]
    unfold exit
    simp only [hsv]
    refine ⟨?_, ?_⟩
    · funext x
      simp only [upd]
      by_cases hx : x = pt2.spec.target
      · simp only [hx, if_true, hrv, ht2]
        rw [h.store]
      · simp only [hx, if_false, hst2store x, expectAt]
        have : ¬ pt.spec.target = x := by rw [ht2] at hx; exact fun hh => hx hh.symm
        simp only [this, if_false]
        rw [h.store]
    · simp only [hbal, eraseP, if_true]

/-! ### start any patches, then stopall -/

/-- every open patch is a started one, most recently started first -/
def AllStarted (st : State) : Prop := st.stack.map Entry.p = st.active.reverse

theorem stopall_all_started (env : Env) (r : List Nat) : ∀ (st : State), Inv env st → st.active = r.reverse →
    st.stack.map Entry.p = r →
    stopallOk env r.length st = true ∧ (stopallLoop env r.length st).1.stack = [] ∧
      (stopallLoop env r.length st).1.active = [] := by
  induction r with
  | nil =>
    intro st _ ha hs
    simp only [List.map_eq_nil_iff] at hs
    exact ⟨rfl, hs, by simp only [List.reverse_nil] at ha; exact ha⟩
  | cons p ps ih =>
    intro st h hact hstk
    simp only [List.reverse_cons] at hact
    cases hst : st.stack with
    | nil => rw [hst] at hstk; cases hstk
    | cons e rest =>
      rw [hst] at hstk
      simp only [List.map_cons, List.cons.injEq] at hstk
      obtain ⟨hep, hrest⟩ := hstk
      have hsaved := h.saved
      rw [hst] at hsaved
      obtain ⟨⟨pt, sv, n, hpt, htt, _, hsv, _⟩, _⟩ := hsaved
      rw [hep] at hpt hsv
      have htop : isTop pt.spec.target p st.stack = true := by
        rw [hst]; simp [isTop, htt, hep]
      have hin : p ∈ st.active := by rw [hact]; simp
      have hnd : p ∉ ps.reverse := by
        have := h.nodup
        rw [hst] at this
        have h1 := (isOpen_false_iff e.p rest).1 this.1
        intro hmem
        rw [List.mem_reverse, ← hrest, List.mem_map] at hmem
        obtain ⟨x, hx, hxp⟩ := hmem
        exact h1 x hx (by rw [hxp, hep])
      have hstop : stop env pt p st =
          ({ st with active := ps.reverse, store := upd st.store pt.spec.target (restoredVal env pt.spec sv),
                     saved := upd st.saved p none, stack := rest }, .stopped) := by
        unfold stop
        simp only [hin, if_true]
        unfold exit
        simp only [hsv, hst, eraseP, hep, if_true, hact, List.erase_append_right _ hnd]
        simp
      have hinv1 := inv_stop env st pt p h hpt (Or.inr htop)
      rw [hstop] at hinv1
      have hidx : st.active[ps.length]? = some p := by
        rw [hact]; simp [List.getElem?_append_right]
      obtain ⟨i1, i2, i3⟩ := ih _ hinv1 rfl hrest
      refine ⟨?_, ?_, ?_⟩
      · simp only [List.length_cons]
        unfold stopallOk
        simp only [hidx, hpt, htop, hstop, Bool.true_and]
        exact i1
      · simp only [List.length_cons]
        conv => lhs; unfold stopallLoop
        simp only [hidx, hpt, hstop]
        exact i2
      · simp only [List.length_cons]
        conv => lhs; unfold stopallLoop
        simp only [hidx, hpt, hstop]
        exact i3


theorem step_start_cases (env : Env) (st : State) (p : Nat) (hsk : st.skip = none) :
    (∃ pat, (step env st (.start p)).1 = { st with patchers := pat }) ∨
    ∃ pt0, st.patchers p = some pt0 ∧ ∃ pt, pt = resolveP st.bind pt0 ∧
      (step env st (.start p)).1 =
        { st with patchers := upd st.patchers p (some pt),
                  store := upd st.store pt.spec.target (some (installedObj pt p (st.entries p))),
                  saved := upd st.saved p (some (getOriginal env st pt.spec.target)),
                  entries := upd st.entries p (match pt.new with | some _ => st.entries p | none => st.entries p + 1),
                  stack := { p := p, t := pt.spec.target, o := installedObj pt p (st.entries p) } :: st.stack,
                  active := st.active ++ [p] } := by
  unfold step
  simp only [hsk]
  cases hpt : st.patchers p with
  | none => left; exact ⟨st.patchers, by cases st; simp only [] at hsk; subst hsk; rfl⟩
  | some pt0 =>
    simp only []
    generalize hpt' : resolveP st.bind pt0 = pt
    unfold start enter
    simp only []
    have hgo : getOriginal env (setPatcher st p pt) pt.spec.target = getOriginal env st pt.spec.target := rfl
    rw [hgo]
    by_cases hc : (!pt.spec.create && (getOriginal env st pt.spec.target).1.isNone) = true
    · left; simp only [hc, if_true]; exact ⟨upd st.patchers p (some pt), by simp only [setPatcher, hsk]⟩
    · right; simp only [hc, Bool.false_eq_true, if_false]
      exact ⟨pt0, rfl, pt, hpt'.symm, by simp only [setPatcher, hsk]; rfl⟩

/-- what a run of `asynq.mock.patch(...)` constructions leaves untouched -/
theorem constructs_state (env : Env) (cs : List (Nat × PSpec)) : ∀ (st : State), st.skip = none →
    let st' := finalFrom env st (cs.map fun c => Op.construct c.1 c.2)
    st'.store = st.store ∧ st'.stack = st.stack ∧ st'.active = st.active ∧ st'.skip = none ∧
      disciplinedFrom env st (cs.map fun c => Op.construct c.1 c.2) = true := by
  induction cs with
  | nil => intro st hsk; exact ⟨rfl, rfl, rfl, hsk, rfl⟩
  | cons c cs ih =>
    intro st hsk
    simp only [List.map_cons, finalFrom, observe_fst, disciplinedFrom, opOk, Bool.or_true, Bool.true_and]
    have hst : (step env st (.construct c.1 c.2)).1.store = st.store ∧ (step env st (.construct c.1 c.2)).1.stack = st.stack ∧
        (step env st (.construct c.1 c.2)).1.active = st.active ∧ (step env st (.construct c.1 c.2)).1.skip = none := by
      unfold step
      simp only [hsk]
      cases st.patchers c.1 with
      | some _ => exact ⟨rfl, rfl, rfl, hsk⟩
      | none =>
        simp only []
        cases construct env.defaults c.1 (retarget st.bind c.2) with
        | ok _ => exact ⟨rfl, rfl, rfl, rfl⟩
        | error _ => exact ⟨rfl, rfl, rfl, hsk⟩
    obtain ⟨h1, h2, h3, h4, h5⟩ := ih _ hst.2.2.2
    exact ⟨h1.trans hst.1, h2.trans hst.2.1, h3.trans hst.2.2.1, h4, h5⟩

theorem starts_state (env : Env) (ps : List Nat) : ∀ (st : State), Inv env st → st.skip = none → AllStarted st →
    ps.Nodup → (∀ q ∈ ps, isOpen q st.stack = false) →
    let st' := finalFrom env st (ps.map Op.start)
    Inv env st' ∧ st'.skip = none ∧ AllStarted st' ∧ disciplinedFrom env st (ps.map Op.start) = true := by
  induction ps with
  | nil => intro st h hsk ha _ _; exact ⟨h, hsk, ha, rfl⟩
  | cons p ps ih =>
    intro st h hsk ha hnd hopen
    simp only [List.nodup_cons] at hnd
    have hp : isOpen p st.stack = false := hopen p List.mem_cons_self
    have hok : opOk env st (.start p) = true := by simp [opOk, hp]
    have hinv := inv_step env st (.start p) h (Or.inr hok)
    simp only [List.map_cons, finalFrom, observe_fst, disciplinedFrom, hok, Bool.or_true, Bool.true_and]
    have key : (step env st (.start p)).1.skip = none ∧ AllStarted (step env st (.start p)).1 ∧
        ∀ q ∈ ps, isOpen q (step env st (.start p)).1.stack = false := by
      cases step_start_cases env st p hsk with
      | inl hs =>
        obtain ⟨pat, hs⟩ := hs
        rw [hs]; exact ⟨hsk, ha, fun q hq => hopen q (List.mem_cons_of_mem _ hq)⟩
      | inr hs =>
        obtain ⟨pt0, _, pt, _, hs⟩ := hs
        rw [hs]
        refine ⟨hsk, ?_, fun q hq => ?_⟩
        · unfold AllStarted at *
          simp only [List.map_cons, List.reverse_append, List.reverse_cons, List.reverse_nil, List.nil_append,
            List.singleton_append, ha]
        · have hq' := hopen q (List.mem_cons_of_mem _ hq)
          have hne : p ≠ q := fun hpq => hnd.1 (hpq ▸ hq)
          simp [isOpen, hq', hne]
    exact ih _ hinv key.1 key.2.1 hnd.2 key.2.2

theorem starts_stopall (env : Env) (cs : List (Nat × PSpec)) (ps : List Nat) (hnd : ps.Nodup) :
    let ops := (cs.map fun c => Op.construct c.1 c.2) ++ ps.map Op.start ++ [Op.stopall]
    (final env ops).store = env.initStore ∧ (final env ops).stack = [] ∧ (final env ops).active = [] ∧
      disciplined env ops = true := by
  simp only [final, disciplined, finalFrom_append, disciplinedFrom_append]
  obtain ⟨c1, c2, c3, c4, c5⟩ := constructs_state env cs (init env) rfl
  generalize hstc : finalFrom env (init env) (cs.map fun c => Op.construct c.1 c.2) = stc at *
  have hinvc : Inv env stc := by rw [← hstc]; exact inv_final env _ _ (inv_init env) c5
  have hall : AllStarted stc := by unfold AllStarted; rw [c2, c3]; rfl
  have hopen : ∀ q ∈ ps, isOpen q stc.stack = false := by intro q _; rw [c2]; rfl
  obtain ⟨s1, s2, s3, s4⟩ := starts_state env ps stc hinvc c4 hall hnd hopen
  generalize hsts : finalFrom env stc (ps.map Op.start) = sts at *
  obtain ⟨k1, k2, k3⟩ := stopall_all_started env sts.active.reverse sts s1 (by simp) (by rw [s3])
  simp only [List.length_reverse] at k1 k2 k3
  have hok : opOk env sts .stopall = true := k1
  have hfin : (step env sts .stopall).1 = (stopallLoop env sts.active.length sts).1 := by
    unfold step; simp only [s2]
  have hinvf := inv_step env sts .stopall s1 (Or.inr hok)
  simp only [finalFrom, observe_fst, disciplinedFrom, c5, s4, hok, Bool.or_true, Bool.and_self]
  rw [hfin] at hinvf ⊢
  refine ⟨?_, k2, k3, trivial⟩
  funext t
  rw [hinvf.store t, k2]
  rfl


/-! ### arbitrarily deep nesting of blocks -/

def enters (bs : List (Nat × Bool)) : List Op := bs.map fun b => Op.enter b.1
def exits (bs : List (Nat × Bool)) : List Op := bs.map fun b => Op.exit b.1 b.2

/-- inside a skipped block body nothing happens until the block's own end -/
theorem skipped_ops (env : Env) (q : Nat) (ops : List Op) :
    ∀ (st : State), st.skip = some (q, 0) →
    (∀ op ∈ ops, op ≠ .enter q ∧ ∀ e, op ≠ .exit q e) →
    finalFrom env st ops = st ∧ disciplinedFrom env st ops = true := by
  induction ops with
  | nil => intro st _ _; exact ⟨rfl, rfl⟩
  | cons op ops ih =>
    intro st hsk hne
    have hop := hne op List.mem_cons_self
    have hstep : (step env st op).1 = st := by
      unfold step
      simp only [hsk]
      cases op with
      | enter p =>
        have : p ≠ q := fun h => hop.1 (h ▸ rfl)
        simp [this]
      | exit p e =>
        have : p ≠ q := fun h => hop.2 e (h ▸ rfl)
        simp [this]
      | _ => rfl
    simp only [finalFrom, observe_fst, disciplinedFrom, hstep, hsk, Option.isSome_some, Bool.true_or, Bool.true_and]
    exact ih st hsk (fun o ho => hne o (List.mem_cons_of_mem _ ho))

theorem finalFrom_block (env : Env) (st : State) (op x : Op) (body : List Op) :
    finalFrom env st (op :: body ++ [x]) = (step env (finalFrom env (step env st op).1 body) x).1 := by
  simp only [List.cons_append, finalFrom, observe_fst, finalFrom_append]

theorem disciplinedFrom_block (env : Env) (st : State) (op x : Op) (body : List Op) :
    disciplinedFrom env st (op :: body ++ [x]) =
      ((st.skip.isSome || opOk env st op) &&
        (disciplinedFrom env (step env st op).1 body &&
          ((finalFrom env (step env st op).1 body).skip.isSome || opOk env (finalFrom env (step env st op).1 body) x))) := by
  simp only [List.cons_append, disciplinedFrom, disciplinedFrom_append, Bool.and_true]

theorem nested_blocks (env : Env) (bs : List (Nat × Bool)) :
    ∀ (st : State), Inv env st → st.skip = none → (bs.map Prod.fst).Nodup →
    (∀ b ∈ bs, isOpen b.1 st.stack = false ∧ st.active.contains b.1 = false) →
    (finalFrom env st (enters bs ++ exits bs.reverse)).store = st.store ∧
    (finalFrom env st (enters bs ++ exits bs.reverse)).stack = st.stack ∧
    (finalFrom env st (enters bs ++ exits bs.reverse)).skip = none ∧
    (finalFrom env st (enters bs ++ exits bs.reverse)).active = st.active ∧
      disciplinedFrom env st (enters bs ++ exits bs.reverse) = true := by
  induction bs with
  | nil => intro st _ hsk _ _; exact ⟨rfl, rfl, hsk, rfl, rfl⟩
  | cons b rest ih =>
    intro st h hsk hnd hfree
    simp only [List.map_cons, List.nodup_cons] at hnd
    have hb := hfree b List.mem_cons_self
    have hok : opOk env st (.enter b.1) = true := by simp [opOk, hb.1]
    have hshape : enters (b :: rest) ++ exits (b :: rest).reverse =
        .enter b.1 :: (enters rest ++ exits rest.reverse) ++ [.exit b.1 b.2] := by
      simp [enters, exits, List.append_assoc]
    have hne : ∀ op ∈ enters rest ++ exits rest.reverse, op ≠ .enter b.1 ∧ ∀ e, op ≠ .exit b.1 e := by
      intro op hop
      simp only [enters, exits, List.mem_append, List.mem_map, List.mem_reverse] at hop
      have hnotin : ∀ x ∈ rest, x.1 ≠ b.1 := fun x hx hxb => hnd.1 (List.mem_map.2 ⟨x, hx, hxb⟩)
      rcases hop with ⟨x, hx, rfl⟩ | ⟨x, hx, rfl⟩
      · exact ⟨fun h => hnotin x hx (by injection h), fun e h => (by cases h)⟩
      · exact ⟨fun h => (by cases h), fun e h => hnotin x hx (by injection h)⟩
    rw [hshape, finalFrom_block, disciplinedFrom_block]
    generalize hbody : enters rest ++ exits rest.reverse = body at *
    cases step_enter_cases env st b.1 hsk with
    | inl hs =>
      -- `__enter__` raised: the body is skipped, the end of the block ends the skipping
      obtain ⟨pat, hs⟩ := hs
      obtain ⟨k1, k2⟩ := skipped_ops env b.1 body (step env st (.enter b.1)).1 (by rw [hs]) hne
      rw [k1, k2, hs]
      have hexit : (step env { st with skip := some (b.1, 0), patchers := pat } (.exit b.1 b.2)).1 =
          { st with skip := none, patchers := pat } := by
        unfold step; simp
      rw [hexit]
      simp only [hok, Option.isSome_some, Bool.true_or, Bool.or_true, Bool.and_self, and_self]
    | inr hs =>
      obtain ⟨pt0, hpt, pt, _, hs⟩ := hs
      have hinv1 := inv_step env st (.enter b.1) h (Or.inr hok)
      have hsk1 : (step env st (.enter b.1)).1.skip = none := by rw [hs]; exact hsk
      have hfree1 : ∀ x ∈ rest, isOpen x.1 (step env st (.enter b.1)).1.stack = false ∧
          (step env st (.enter b.1)).1.active.contains x.1 = false := by
        intro x hx
        have hx' := hfree x (List.mem_cons_of_mem _ hx)
        have hne' : b.1 ≠ x.1 := fun hbx => hnd.1 (List.mem_map.2 ⟨x, hx, hbx.symm⟩)
        rw [hs]
        exact ⟨by simp [isOpen, hx'.1, hne'], hx'.2⟩
      obtain ⟨_, i2, i3, i4, i5⟩ := ih _ hinv1 hsk1 hnd.2 hfree1
      obtain ⟨r1, r2⟩ := block_restores env st b.1 b.2 body h hsk hb.1 hsk1 i5 i2 i3
      rw [finalFrom_block] at r1 r2
      have hinv2 := inv_final env _ _ hinv1 i5
      generalize hst2 : finalFrom env (step env st (.enter b.1)).1 body = st2 at *
      have hstack2 : st2.stack = { p := b.1, t := pt.spec.target, o := installedObj pt b.1 (st.entries b.1) } :: st.stack := by
        rw [i2, hs]
      have hact2 : st2.active = st.active := by rw [i4, hs]
      have hsaved := hinv2.saved
      rw [hstack2] at hsaved
      obtain ⟨⟨pt2, sv, n, hp2, ht2, _, hsv, _⟩, _⟩ := hsaved
      simp only [] at hp2 ht2 hsv
      have hokx : opOk env st2 (.exit b.1 b.2) = true := by
        simp only [opOk, hp2, hstack2, isTop, ht2, if_true, beq_self_eq_true, hact2, hb.2, Bool.not_false, Bool.and_self]
      have hfinal : (step env st2 (.exit b.1 b.2)).1.skip = none ∧ (step env st2 (.exit b.1 b.2)).1.active = st.active := by
        unfold step
        simp only [i3, hp2]
        unfold exit
        simp only [hsv]
        exact ⟨i3, hact2⟩
      simp only [hok, i5, hokx, Bool.or_true, Bool.and_self]
      exact ⟨r1, r2, hfinal.1, hfinal.2, trivial⟩

theorem nested_blocks_restore (env : Env) (cs : List (Nat × PSpec)) (bs : List (Nat × Bool))
    (hnd : (bs.map Prod.fst).Nodup) :
    let ops := (cs.map fun c => Op.construct c.1 c.2) ++ (enters bs ++ exits bs.reverse)
    (final env ops).store = env.initStore ∧ (final env ops).stack = [] ∧ disciplined env ops = true := by
  obtain ⟨c1, c2, c3, c4, c5⟩ := constructs_state env cs (init env) rfl
  have hinvc := inv_final env _ _ (inv_init env) c5
  have hfree : ∀ b ∈ bs, isOpen b.1 (finalFrom env (init env) (cs.map fun c => Op.construct c.1 c.2)).stack = false ∧
      (finalFrom env (init env) (cs.map fun c => Op.construct c.1 c.2)).active.contains b.1 = false := by
    intro b _; rw [c2, c3]; exact ⟨rfl, rfl⟩
  obtain ⟨n1, n2, _, _, n5⟩ := nested_blocks env bs _ hinvc c4 hnd hfree
  show (finalFrom env (init env) _).store = _ ∧ (finalFrom env (init env) _).stack = _ ∧ disciplinedFrom env (init env) _ = true
  rw [finalFrom_append, disciplinedFrom_append, c5, n5]
  exact ⟨n1.trans c1, n2.trans c2, rfl⟩

end AsynqModel.Mock
