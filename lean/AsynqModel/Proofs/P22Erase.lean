import AsynqModel.Proofs.P22SeqL
/-!
# P22, part 1c: `SeqSV.runBody` is a conservative extension of the frozen reference evaluator `Seq.evalBody`
(it makes the same decisions and returns the same result; it only adds the environment and the actions)
-/
namespace AsynqModel.Core.P22.SeqSV
open AsynqModel.Core

def eraseRes : Res → SRes
  | .done o => .done o
  | .fall l => .fall l.env l.own l.caught l.prev

/-- forgetting the scoped-value environment, the table of tasks that have not run and the log, `runBody` IS
    `Seq.evalBody` -/
theorem runBody_erase (cfg : Cfg) : ∀ (b : Body) (E : SvEnv) (inh : List Outcome) (l : Loc),
    eraseRes (runBody cfg b E inh l).2 = evalBody cfg b l.env l.own inh l.caught l.prev
  | .ret _, _, _, _ => rfl
  | .res _, _, _, _ => rfl
  | .raise _, _, _, _ => rfl
  | .reraise, _, _, _ => rfl
  | .endwith, _, _, _ => rfl
  | .syncret _ _ _, _, _, _ => rfl
  | .spawn c p k, E, inh, l => by
    simp only [runBody, evalBody]
    exact runBody_erase cfg k E inh _
  | .item _ _ _ k, E, inh, l => by simp only [runBody, evalBody]; exact runBody_erase cfg k E inh _
  | .const _ k, E, inh, l => by simp only [runBody, evalBody]; exact runBody_erase cfg k E inh _
  | .errfut _ k, E, inh, l => by simp only [runBody, evalBody]; exact runBody_erase cfg k E inh _
  | .lazy _ k, E, inh, l => by simp only [runBody, evalBody]; exact runBody_erase cfg k E inh _
  | .read _ k, E, inh, l => by simp only [runBody, evalBody]; exact runBody_erase cfg k E inh _
  | .active k, E, inh, l => by simp only [runBody, evalBody]; exact runBody_erase cfg k E inh _
  | .yld y k h, E, inh, l => by
    simp only [runBody, evalBody]
    cases unwrap (resolveO l.own inh) y with
    | ok v => exact runBody_erase cfg k E inh _
    | error e => exact runBody_erase cfg h E inh _
  | .reyld k h, E, inh, l => by
    simp only [runBody, evalBody]
    cases unwrap (resolveO l.own inh) l.prev with
    | ok v => exact runBody_erase cfg k E inh _
    | error e => exact runBody_erase cfg h E inh _
  | .sync c p k h, E, inh, l => by
    simp only [runBody, evalBody]
    cases (evalBody cfg c [] [] (p.map fun r => (resolveO l.own inh r).getD (.err .other)) none .none).outcome with
    | ok v => exact runBody_erase cfg k E inh _
    | err e => exact runBody_erase cfg h E inh _
  | .syncfut r k h, E, inh, l => by
    simp only [runBody, evalBody]
    cases (resolveO l.own inh r).getD (.err .other) with
    | ok v => exact runBody_erase cfg k E inh _
    | err e => exact runBody_erase cfg h E inh _
  | .withCtx c b k, E, inh, l => by
    have ih := runBody_erase cfg b (push E c) inh l
    simp only [runBody, evalBody]
    cases hr : (runBody cfg b (push E c) inh l).2 with
    | done o =>
      rw [hr] at ih
      simp only [eraseRes] at ih
      rw [← ih]
      rfl
    | fall l' =>
      rw [hr] at ih
      simp only [eraseRes] at ih
      rw [← ih]
      exact runBody_erase cfg k E inh l'

/-- the outcome of a whole task body -/
theorem runBody_outcome (cfg : Cfg) (b : Body) (E : SvEnv) (inh : List Outcome) :
    (eraseRes (runBody cfg b E inh {}).2).outcome = (evalBody cfg b [] [] inh none .none).outcome := by
  rw [runBody_erase]

end AsynqModel.Core.P22.SeqSV
