import AsynqModel.Proofs.P6TFlush
/-
  P6T (termination, property C03), part 11: every started, uncompleted task is awaited by an uncompleted task or is
  the root of the `wait_for` in progress (`InvL`); since the awaits relation is acyclic, a finished run leaves no
  started task uncompleted.
-/
namespace AsynqModel.Core.P6T
open AsynqModel.Core AsynqModel.Core.P6

/-- the uncompleted task `u` awaits `x` -/
def Aw (s : State) (u x : Nat) : Prop := (view s u).kind = .task ∧ (view s u).out = none ∧ x ∈ (view s u).deps

def StartedU (s : State) (t : Nat) : Prop :=
  (view s t).kind = .task ∧ (view s t).started = true ∧ (view s t).out = none

def RootIn (s : State) (x : Nat) : Prop := ∃ c ∈ s.ctl, ctlRoot c = some x

structure InvL (s : State) : Prop where
  aw : ∀ t, StartedU s t → RootIn s t ∨ ∃ u, Aw s u t
  sup : ∀ above x below, s.stack = above ++ x :: below → (view s x).out = none →
    (∃ y ∈ below, Aw s y x) ∨ (below = [] ∧ RootIn s x)
  run : ∀ t old rest, s.ctl = .gen t old :: rest → ∃ st, s.stack = t :: st
  items : ITEMS s

theorem invL_init (cfg : Cfg) (tops : List (Conv × Body)) (choices : List (Nat × Nat)) :
    InvL (initState cfg tops choices) := by
  refine ⟨?_, ?_, ?_, items_init cfg tops choices⟩
  · intro t ht
    have := ht.1
    rw [view_ge _ t (Nat.zero_le _)] at this; cases this
  · intro above x below h; cases above <;> cases h
  · intro t old rest h; cases h

theorem append_split {x : Nat} : ∀ {l1 l2 a b : List Nat}, l1 ++ l2 = a ++ x :: b →
    (∃ b', l1 = a ++ x :: b' ∧ b = b' ++ l2) ∨ (∃ a', a = l1 ++ a' ∧ l2 = a' ++ x :: b)
  | [], l2, a, b, h => Or.inr ⟨a, rfl, h⟩
  | y :: l1, l2, [], b, h => by
    simp at h
    exact Or.inl ⟨l1, by rw [h.1]; rfl, h.2.symm⟩
  | y :: l1, l2, z :: a, b, h => by
    simp at h
    obtain ⟨rfl, h⟩ := h
    rcases append_split h with ⟨b', e1, e2⟩ | ⟨a', e1, e2⟩
    · exact Or.inl ⟨b', by rw [e1]; rfl, e2⟩
    · exact Or.inr ⟨a', by rw [e1]; rfl, e2⟩

/-- the root of a `wait_for` frame that the step removes is computed -/
theorem ret_root (s : State) (hs : s.stuck = none) (hr : s.raising = none) (hg : (step s).guardFired = false)
    {c : Ctl} {rest : List Ctl} (hctl : s.ctl = c :: rest) {root : Nat} (hc : ctlRoot c = some root)
    (htl : (step s).ctl = rest) : s.computed root = true := by
  cases c with
  | waitEnter r0 =>
    simp [ctlRoot] at hc; subst hc
    cases hcomp : s.computed r0 with
    | true => rfl
    | false =>
      rw [step_waitEnter_loop s hs hr hctl hcomp] at htl
      have := congrArg List.length htl
      simp [hctl] at this
  | waitLoop r0 base =>
    simp [ctlRoot] at hc; subst hc
    by_cases hl : s.stack.length > base
    · rw [step_waitLoop_iter s hs hr hctl hl] at htl hg
      rcases P3.executeIter_trans s with ⟨_, e⟩ | ⟨st, h, _⟩ | ⟨t, h⟩
      · rw [e] at hg; cases hg
      · have := h.ctl; rw [htl, hctl] at this
        have := congrArg List.length this; simp at this
      · have := h.ctl; rw [htl, hctl] at this
        have := congrArg List.length this; simp at this; omega
    · cases hcomp : s.computed r0 with
      | true => rfl
      | false =>
        rw [step_waitLoop_flush s hs hr hctl (by omega) hcomp, (P3.schedulerFlush_trans s r0).ctl, hctl] at htl
        have := congrArg List.length htl
        simp at this
  | gen t old => cases hc

theorem uncomputed_back {s r : State} (d : Desc s r) {x : Nat} (h : (view r x).out = none) : (view s x).out = none := by
  cases hx : (view s x).out with
  | none => rfl
  | some o =>
    have : s.computed x = true := by rw [computed_eq_view, hx]; rfl
    have := d.computed_mono this
    rw [uncomputed_of_out_none h] at this; cases this

/-- an awaiting edge towards a future that stays uncomputed is kept -/
theorem aw_keep {s : State} (hA : InvA s) (hI : ITEMS s) (hs : s.stuck = none) (hr : s.raising = none)
    (d : Desc s (step s)) : ∀ u x, Aw s u x → (view (step s) x).out = none → Aw (step s) u x := by
  have same : ∀ {r : State}, (∀ f, view r f = view s f) → ∀ u x, Aw s u x → Aw r u x := by
    intro r hv u x h; unfold Aw; rw [hv u]; exact h
  have hcm : ∀ f, s.computed f = true → (step s).computed f = true := fun f hf => d.computed_mono hf
  have upd1 : ∀ {t : Nat} {v' : FV}, Upd1S s (step s) t v' →
      ((view s t).kind ≠ .task ∨ (v'.kind = (view s t).kind ∧ v'.out = (view s t).out ∧ v'.deps = (view s t).deps) ∨
        (∀ x, x ∈ (view s t).deps → s.computed x = true)) →
      ∀ u x, Aw s u x → (view (step s) x).out = none → Aw (step s) u x := by
    intro t v' U ht u x h hx
    by_cases e : u = t
    · subst e
      rcases ht with h0 | ⟨h1, h2, h3⟩ | h4
      · exact absurd h.1 h0
      · unfold Aw; rw [U.viewT, h1, h2, h3]; exact h
      · have := hcm x (h4 x h.2.2)
        rw [uncomputed_of_out_none hx] at this; cases this
    · unfold Aw; rw [U.viewO u e]; exact h
  have upd2 : ∀ {t : Nat} {v' nv : FV}, Upd2 s (step s) t v' nv →
      (v'.kind = (view s t).kind ∧ v'.out = (view s t).out ∧ v'.deps = (view s t).deps) →
      ∀ u x, Aw s u x → (view (step s) x).out = none → Aw (step s) u x := by
    intro t v' nv U ⟨h1, h2, h3⟩ u x h _
    have hu : u < s.futs.length := lt_of_view_task s u h.1
    rcases U.view_cases u with ⟨rfl, e⟩ | ⟨rfl, _⟩ | ⟨_, _, e⟩
    · unfold Aw; rw [e, h1, h2, h3]; exact h
    · exact absurd hu (Nat.lt_irrefl _)
    · unfold Aw; rw [e]; exact h
  cases d with
  | quiet e _ _ => exact fun u x h _ => same e.view u x h
  | top conv body rest _ _ U _ _ =>
    intro u x h _
    have hu : u < s.futs.length := lt_of_view_task s u h.1
    unfold Aw; rw [U.viewO u (Nat.ne_of_lt hu)]; exact h
  | ret _ _ _ e _ _ => exact fun u x h _ => same e.view u x h
  | enterLoop _ _ _ _ e _ _ => exact fun u x h _ => same e.view u x h
  | pop _ _ _ _ _ e _ _ => exact fun u x h _ => same e.view u x h
  | popLazy _ top st _ lo hk _ U _ _ =>
    exact upd1 U (Or.inl (by rw [hk]; simp))
  | second _ top st _ _ _ _ _ U _ _ => exact upd1 U (Or.inr (Or.inl ⟨rfl, rfl, rfl⟩))
  | first _ top st _ _ _ _ _ U _ _ => exact upd1 U (Or.inr (Or.inl ⟨rfl, rfl, rfl⟩))
  | enterGen _ _ _ _ _ _ _ e _ _ _ => exact fun u x h _ => same e.view u x h
  | gen t old rest hctl0 d =>
    obtain ⟨_, _, hgd⟩ := hA.gen t old rest hctl0
    cases d with
    | loc v' hu _ _ _ _ _ _ _ _ _ _ _ _ => exact upd1 hu.toS (Or.inr (Or.inr hgd))
    | spawn child k pass _ _ hu _ _ _ _ => exact upd2 hu ⟨rfl, rfl, rfl⟩
    | item kind payload mode k seq _ _ hu _ _ _ => exact upd2 hu ⟨rfl, rfl, rfl⟩
    | other k kd out _ _ hu _ _ _ _ => exact upd2 hu ⟨rfl, rfl, rfl⟩
    | yield ry npy nd leave _ _ _ _ hu _ => exact upd1 hu.toS (Or.inr (Or.inr hgd))
    | finish o _ hu _ => exact upd1 hu.toS (Or.inr (Or.inr hgd))
  | flush root base rest hctl0 hlen hroot F _ =>
    have e := step_waitLoop_flush s hs hr hctl0 hlen hroot
    intro u x h _
    have hv : view (step s) u = view s u := by
      rw [e]
      refine (schedulerFlush_only s root).1 u ?_
      intro b hb hm
      exact (hI b hb u hm).1 h.1
    unfold Aw; rw [hv]; exact h

/-- a started uncompleted task was started and uncompleted before, or it is the running task -/
theorem su_back {s r : State} (d : Desc s r) : ∀ t, StartedU r t →
    StartedU s t ∨ ∃ old rest, s.ctl = .gen t old :: rest := by
  have upd1 : ∀ {t0 : Nat} {v' : FV}, Upd1S s r t0 v' →
      (v'.out ≠ none ∨ (v'.kind = (view s t0).kind ∧ v'.out = (view s t0).out ∧ v'.started = (view s t0).started) ∨
        ∃ old rest, s.ctl = .gen t0 old :: rest) →
      ∀ t, StartedU r t → StartedU s t ∨ ∃ old rest, s.ctl = .gen t old :: rest := by
    intro t0 v' U h t ht
    rcases U.view_cases t with ⟨rfl, e⟩ | ⟨_, e⟩
    · rcases h with h | ⟨h1, h2, h3⟩ | h
      · have := ht.2.2; rw [e] at this; exact absurd this h
      · left; unfold StartedU at ht ⊢; rw [e, h1, h2, h3] at ht; exact ht
      · exact Or.inr h
    · left; unfold StartedU at ht ⊢; rw [e] at ht; exact ht
  have upd2 : ∀ {t0 : Nat} {v' nv : FV}, Upd2 s r t0 v' nv → (∃ old rest, s.ctl = .gen t0 old :: rest) →
      (nv.kind ≠ .task ∨ nv.started = false) →
      ∀ t, StartedU r t → StartedU s t ∨ ∃ old rest, s.ctl = .gen t old :: rest := by
    intro t0 v' nv U h hn t ht
    rcases U.view_cases t with ⟨rfl, _⟩ | ⟨rfl, e⟩ | ⟨_, _, e⟩
    · exact Or.inr h
    · unfold StartedU at ht; rw [e] at ht
      rcases hn with hn | hn
      · exact absurd ht.1 hn
      · rw [hn] at ht; cases ht.2.1
    · left; unfold StartedU at ht ⊢; rw [e] at ht; exact ht
  cases d with
  | quiet e _ _ => intro t ht; left; unfold StartedU at ht ⊢; rw [e.view] at ht; exact ht
  | top conv body rest _ _ U _ _ =>
    intro t ht
    by_cases e : t = s.futs.length
    · subst e; unfold StartedU at ht; rw [U.viewN] at ht; cases ht.2.1
    · left; unfold StartedU at ht ⊢; rw [U.viewO t e] at ht; exact ht
  | ret _ _ _ e _ _ => intro t ht; left; unfold StartedU at ht ⊢; rw [e.view] at ht; exact ht
  | enterLoop _ _ _ _ e _ _ => intro t ht; left; unfold StartedU at ht ⊢; rw [e.view] at ht; exact ht
  | pop _ _ _ _ _ e _ _ => intro t ht; left; unfold StartedU at ht ⊢; rw [e.view] at ht; exact ht
  | popLazy _ top st _ lo _ _ U _ _ => exact upd1 U (Or.inl (by simp [doneView]))
  | second _ top st _ _ _ _ _ U _ _ => exact upd1 U (Or.inr (Or.inl ⟨rfl, rfl, rfl⟩))
  | first _ top st _ _ _ _ _ U _ _ => exact upd1 U (Or.inr (Or.inl ⟨rfl, rfl, rfl⟩))
  | enterGen _ _ _ _ _ _ _ e _ _ _ => intro t ht; left; unfold StartedU at ht ⊢; rw [e.view] at ht; exact ht
  | gen t0 old rest hctl0 d =>
    have hrun : ∃ old rest, s.ctl = .gen t0 old :: rest := ⟨old, rest, hctl0⟩
    cases d with
    | loc v' hu _ _ _ _ _ _ _ _ _ _ _ _ => exact upd1 hu.toS (Or.inr (Or.inr hrun))
    | spawn child k pass _ _ hu _ _ _ _ => exact upd2 hu hrun (Or.inr rfl)
    | item kind payload mode k seq _ _ hu _ _ _ => exact upd2 hu hrun (Or.inl (by simp [plainView]))
    | other k kd out _ _ hu _ _ _ hkd =>
      refine upd2 hu hrun (Or.inl ?_)
      rcases hkd with ⟨e, _⟩ | ⟨e, _⟩ | ⟨⟨o, e⟩, _⟩ <;> rw [e] <;> simp [plainView]
    | yield ry npy nd leave _ _ _ _ hu _ => exact upd1 hu.toS (Or.inr (Or.inr hrun))
    | finish o _ hu _ => exact upd1 hu.toS (Or.inr (Or.inr hrun))
  | flush _ _ _ _ _ _ F _ =>
    intro t ht
    rcases F.view t with e | ⟨_, o, e⟩
    · left; unfold StartedU at ht ⊢; rw [e] at ht; exact ht
    · have := ht.2.2; rw [e] at this; simp [doneView] at this

/-- the root of a `wait_for` in progress stays one as long as it is uncomputed -/
theorem root_keep {s : State} (hs : s.stuck = none) (hr : s.raising = none)
    (hg : (step s).guardFired = false) (d : Desc s (step s)) :
    ∀ x, RootIn s x → (view (step s) x).out = none → RootIn (step s) x := by
  have same : (step s).ctl = s.ctl → ∀ x, RootIn s x → RootIn (step s) x := by
    intro h x ⟨c, hc, hx⟩; exact ⟨c, by rw [h]; exact hc, hx⟩
  have hcm : ∀ f, s.computed f = true → (step s).computed f = true := fun f hf => d.computed_mono hf
  have tail : (step s).ctl = s.ctl.tail → ∀ x, RootIn s x → (view (step s) x).out = none → RootIn (step s) x := by
    intro h x ⟨c, hc, hx⟩ hox
    cases hctl : s.ctl with
    | nil => rw [hctl] at hc; cases hc
    | cons c0 rest =>
      rw [hctl] at hc h
      rcases List.mem_cons.1 hc with e | e
      · subst e
        have := hcm x (ret_root s hs hr hg hctl hx h)
        rw [uncomputed_of_out_none hox] at this; cases this
      · exact ⟨c, by rw [h]; exact e, hx⟩
  cases d with
  | quiet e _ hctl => exact fun x h _ => same hctl x h
  | top conv body rest _ hctl0 U _ _ => intro x ⟨c, hc, _⟩; rw [hctl0] at hc; cases hc
  | ret _ _ _ e _ hctl => exact tail hctl
  | enterLoop root rest hctl0 _ e _ hctl =>
    intro x ⟨c, hc, hx⟩ _
    rw [hctl0] at hc
    rcases List.mem_cons.1 hc with e' | e'
    · subst e'
      exact ⟨.waitLoop root s.stack.length, by rw [hctl]; exact List.mem_cons_self, hx⟩
    · exact ⟨c, by rw [hctl]; exact List.mem_cons_of_mem _ e', hx⟩
  | pop _ _ _ _ _ e _ hctl => exact fun x h _ => same hctl x h
  | popLazy _ top st _ lo _ _ U _ hctl => exact fun x h _ => same hctl x h
  | second _ top st _ _ _ _ _ U _ hctl => exact fun x h _ => same hctl x h
  | first _ top st _ _ _ _ _ U _ hctl => exact fun x h _ => same hctl x h
  | enterGen _ _ _ _ _ _ _ e _ _ hctl =>
    intro x ⟨c, hc, hx⟩ _
    exact ⟨c, by rw [hctl]; exact List.mem_cons_of_mem _ hc, hx⟩
  | gen t0 old rest hctl0 d =>
    have htl : (step s).ctl = s.ctl.tail → ∀ x, RootIn s x → RootIn (step s) x := by
      intro h x ⟨c, hc, hx⟩
      rw [hctl0] at hc
      rcases List.mem_cons.1 hc with e | e
      · subst e; cases hx
      · exact ⟨c, by rw [h, hctl0]; exact e, hx⟩
    cases d with
    | loc v' hu hctl _ _ _ _ _ _ _ _ _ _ _ => exact fun x h _ => same hctl x h
    | spawn child k pass _ _ hu hctl _ _ _ => exact fun x h _ => same hctl x h
    | item kind payload mode k seq _ _ hu hctl _ _ => exact fun x h _ => same hctl x h
    | other k kd out _ _ hu hctl _ _ _ => exact fun x h _ => same hctl x h
    | yield ry npy nd leave _ _ _ _ hu hctl =>
      cases leave
      · exact fun x h _ => same (by simpa using hctl) x h
      · exact fun x h _ => htl (by simpa using hctl) x h
    | finish o _ hu hctl => exact fun x h _ => htl hctl x h
  | flush root base rest hctl0 _ _ F hctl =>
    intro x ⟨c, hc, hx⟩ _
    rw [hctl0] at hc
    rcases List.mem_cons.1 hc with e' | e'
    · subst e'
      exact ⟨.waitEnter root, by rw [hctl]; exact List.mem_cons_self, hx⟩
    · exact ⟨c, by rw [hctl]; exact List.mem_cons_of_mem _ e', hx⟩

/-- how the task stack changes -/
theorem stack_cases {s r : State} (hstk0 : (s.ctl = [] ∨ ∃ root, s.ctl = [.waitEnter root]) → s.stack = [])
    (hsh : CtlShape s.ctl) (d : Desc s r) :
    r.stack = s.stack ∨ (∃ top st, s.stack = top :: st ∧ r.stack = st) ∨
    (∃ top st, s.stack = top :: st ∧ (view s top).kind = .task ∧ s.computed top = false ∧
      view r top = flagView true (view s top) ∧
      r.stack = ((view s top).deps.filter fun d => !s.computed d).reverse ++ s.stack) ∨
    (∃ root, s.stack = [] ∧ r.stack = [root] ∧ r.ctl = [.waitLoop root 0]) := by
  cases d with
  | quiet e hst _ => exact Or.inl hst
  | top conv body rest _ _ U _ _ => exact Or.inl U.stack
  | ret _ _ _ e hst _ => exact Or.inl hst
  | enterLoop root rest hctl0 _ e hst hctl =>
    have hrest : rest = [] := by
      rcases hsh with h0 | ⟨r0, h0⟩ | ⟨r0, b0, h0⟩ | ⟨t0, old0, r0, b0, h0⟩ <;> rw [h0] at hctl0 <;> cases hctl0
      rfl
    subst hrest
    have hs0 := hstk0 (Or.inr ⟨root, hctl0⟩)
    exact Or.inr (Or.inr (Or.inr ⟨root, hs0, by rw [hst, hs0], by rw [hctl, hs0]; rfl⟩))
  | pop _ top st hstk _ e hst _ => exact Or.inr (Or.inl ⟨top, st, hstk, hst⟩)
  | popLazy _ top st hstk lo _ _ U hst _ => exact Or.inr (Or.inl ⟨top, st, hstk, hst⟩)
  | second _ top st hstk _ _ _ _ U hst _ => exact Or.inr (Or.inl ⟨top, st, hstk, hst⟩)
  | first _ top st hstk hk hc _ _ U hst _ => exact Or.inr (Or.inr (Or.inl ⟨top, st, hstk, hk, hc, U.viewT, hst⟩))
  | enterGen _ _ _ _ _ _ _ e hst _ _ => exact Or.inl hst
  | gen t old rest _ d =>
    cases d with
    | loc v' hu _ _ _ _ _ _ _ _ _ _ _ _ => exact Or.inl hu.stack
    | spawn child k pass _ _ hu _ _ _ _ => exact Or.inl hu.stack
    | item kind payload mode k seq _ _ hu _ _ _ => exact Or.inl hu.stack
    | other k kd out _ _ hu _ _ _ _ => exact Or.inl hu.stack
    | yield ry npy nd leave _ _ _ _ hu _ => exact Or.inl hu.stack
    | finish o _ hu _ => exact Or.inl hu.stack
  | flush _ _ _ _ _ _ F _ => exact Or.inl F.stack

/-- the generator frame on top of the control stack belongs to the task on top of the task stack -/
theorem run_keep {s r : State} (hsh : CtlShape s.ctl) (hrun : ∀ t old rest, s.ctl = .gen t old :: rest → ∃ st, s.stack = t :: st)
    (d : Desc s r) : ∀ t old rest, r.ctl = .gen t old :: rest → ∃ st, r.stack = t :: st := by
  have keep : r.ctl = s.ctl → r.stack = s.stack → ∀ t old rest, r.ctl = .gen t old :: rest → ∃ st, r.stack = t :: st := by
    intro h1 h2 t old rest h
    rw [h1] at h; rw [h2]; exact hrun t old rest h
  have nogen : (∃ root base rest, s.ctl = .waitLoop root base :: rest) → r.ctl = s.ctl →
      ∀ t old rest, r.ctl = .gen t old :: rest → ∃ st, r.stack = t :: st := by
    intro ⟨root, base, rest', hw⟩ h1 t old rest h
    rw [h1, hw] at h; cases h
  cases d with
  | quiet e hst hctl => exact keep hctl hst
  | top conv body rest _ _ U _ hctl => intro t old rest' h; rw [hctl] at h; cases h
  | ret root hw _ e hst hctl =>
    intro t old rest h
    rw [hctl] at h
    rcases hsh with h0 | ⟨r0, h0⟩ | ⟨r0, b0, h0⟩ | ⟨t0, old0, r0, b0, h0⟩
    · rw [h0] at h; cases h
    · rw [h0] at h; cases h
    · rw [h0] at h; cases h
    · exact absurd h0 (hw t0 old0 _)
  | enterLoop root rest hctl0 _ e hst hctl => intro t old rest' h; rw [hctl] at h; cases h
  | pop hw top st hstk _ e hst hctl => exact nogen hw hctl
  | popLazy hw top st hstk lo _ _ U hst hctl => exact nogen hw hctl
  | second hw top st hstk _ _ _ _ U hst hctl => exact nogen hw hctl
  | first hw top st hstk hk hc _ _ U hst hctl => exact nogen hw hctl
  | enterGen _ top st hstk _ _ _ e hst a hctl =>
    intro t old rest h
    rw [hctl] at h
    injection h with h1 _
    injection h1 with h1 _
    subst h1
    exact ⟨st, by rw [hst, hstk]⟩
  | gen t0 old0 rest0 hctl0 d =>
    obtain ⟨r0, b0, hrest⟩ : ∃ r0 b0, rest0 = [.waitLoop r0 b0] := by
      rcases hsh with h0 | ⟨r0, h0⟩ | ⟨r0, b0, h0⟩ | ⟨t1, old1, r0, b0, h0⟩ <;> rw [h0] at hctl0 <;> cases hctl0
      exact ⟨r0, b0, rfl⟩
    have tl : r.ctl = s.ctl.tail → ∀ t old rest, r.ctl = .gen t old :: rest → ∃ st, r.stack = t :: st := by
      intro h1 t old rest h
      rw [h1, hctl0, hrest] at h; cases h
    cases d with
    | loc v' hu hctl _ _ _ _ _ _ _ _ _ _ _ => exact keep hctl hu.stack
    | spawn child k pass _ _ hu hctl _ _ _ => exact keep hctl hu.stack
    | item kind payload mode k seq _ _ hu hctl _ _ => exact keep hctl hu.stack
    | other k kd out _ _ hu hctl _ _ _ => exact keep hctl hu.stack
    | yield ry npy nd leave _ _ _ _ hu hctl =>
      cases leave
      · exact keep (by simpa using hctl) hu.stack
      · exact tl (by simpa using hctl)
    | finish o _ hu hctl => exact tl hctl
  | flush _ _ _ _ _ _ F hctl => intro t old rest h; rw [hctl] at h; cases h

theorem invL_step {s : State} {P : Nat → List Nat} (hT : InvT s P) (hL : InvL s) (hs : s.stuck = none)
    (hst : (step s).stuck = none) (hg : (step s).guardFired = false) : InvL (step s) := by
  obtain ⟨hA, hB, hC, hS, hW, hcore⟩ := hT
  have hr := hcore.raising
  have hgen : ∀ t old rest, s.ctl = .gen t old :: rest → (view s t).kind = .task ∧ okV (view s t) :=
    fun t old rest hc => ⟨(hA.gen t old rest hc).1, hA.ok t⟩
  have d := step_desc s hs hr hA.noNA hgen hst hg
  obtain ⟨hstk0, hbase⟩ := core_facts hcore hA.shape
  have hk := aw_keep hA hL.items hs hr d
  have hrk := root_keep hs hr hg d
  have hub : ∀ x, (view (step s) x).out = none → (view s x).out = none := fun x h => uncomputed_back d h
  -- support in `s` gives support in `step s`
  have lift : ∀ x (below : List Nat), (view (step s) x).out = none →
      ((∃ y ∈ below, Aw s y x) ∨ (below = [] ∧ RootIn s x)) →
      ((∃ y ∈ below, Aw (step s) y x) ∨ (below = [] ∧ RootIn (step s) x)) := by
    intro x below hx h
    rcases h with ⟨y, hy, h⟩ | ⟨h1, h2⟩
    · exact Or.inl ⟨y, hy, hk y x h hx⟩
    · exact Or.inr ⟨h1, hrk x h2 hx⟩
  refine ⟨?_, ?_, run_keep hA.shape hL.run d, items_step hL.items hs hr d⟩
  · intro t ht
    rcases su_back d t ht with h | ⟨old, rest, hctl⟩
    · rcases hL.aw t h with h1 | ⟨u, h1⟩
      · exact Or.inl (hrk t h1 ht.2.2)
      · exact Or.inr ⟨u, hk u t h1 ht.2.2⟩
    · obtain ⟨st, hstk⟩ := hL.run t old rest hctl
      rcases hL.sup [] t st (by rw [hstk]; rfl) (hub t ht.2.2) with ⟨y, _, h1⟩ | ⟨_, h1⟩
      · exact Or.inr ⟨y, hk y t h1 ht.2.2⟩
      · exact Or.inl (hrk t h1 ht.2.2)
  · intro above x below hstk hx
    rcases stack_cases hstk0 hA.shape d with h | ⟨top, st, h1, h2⟩ | ⟨top, st, h1, hkt, hct, hvt, h2⟩ |
        ⟨root, h1, h2, h3⟩
    · rw [h] at hstk
      exact lift x below hx (hL.sup above x below hstk (hub x hx))
    · rw [h2] at hstk
      exact lift x below hx (hL.sup (top :: above) x below (by rw [h1, hstk]; rfl) (hub x hx))
    · rw [h2, h1] at hstk
      rcases append_split hstk with ⟨b', e1, e2⟩ | ⟨a', e1, e2⟩
      · -- a freshly pushed dependency: awaited by `top`
        left
        refine ⟨top, by rw [e2]; simp, ?_⟩
        have hxd : x ∈ (view s top).deps := by
          have : x ∈ ((view s top).deps.filter fun d => !s.computed d).reverse := by rw [e1]; simp
          exact (List.mem_filter.1 (List.mem_reverse.1 this)).1
        unfold Aw
        rw [hvt]
        exact ⟨hkt, out_none_of_uncomputed hct, hxd⟩
      · exact lift x below hx (hL.sup a' x below (by rw [h1]; exact e2) (hub x hx))
    · rw [h2] at hstk
      have hab : above = [] ∧ x = root ∧ below = [] := by
        cases above with
        | nil => simp at hstk; exact ⟨rfl, hstk.1.symm, hstk.2⟩
        | cons a above => simp at hstk
      obtain ⟨_, rfl, rfl⟩ := hab
      exact Or.inr ⟨rfl, .waitLoop x 0, by rw [h3]; exact List.mem_cons_self, rfl⟩

/-- the invariants hold in every reachable state of a well-scoped yield-only run (not stuck, guard not fired) -/
theorem invTL_reach (s : State) (h : ReachWS s) (hs : s.stuck = none) (hg : s.guardFired = false) :
    ∃ P, InvT s P ∧ InvL s := by
  induction h with
  | init cfg tops choices hyo => exact ⟨_, invT_init cfg tops choices hyo, invL_init cfg tops choices⟩
  | @step s _ ih =>
    have hs0 := stuck_mono s hs
    have hg0 := P3.guard_mono s hg
    obtain ⟨P, hT, hL⟩ := ih hs0 hg0
    obtain ⟨P', hT', _⟩ := invT_step hT hs0 hs hg
    exact ⟨P', hT', invL_step hT hL hs0 hs hg⟩

open Classical in
theorem rank_le (P : Nat → List Nat) (n x : Nat) : rank P n x ≤ n := by
  unfold rank
  have := List.length_filter_le (fun y => decide (PLt (P y) (P x))) (List.range n)
  simpa using this

/-- outside `wait_for` no started task is left uncompleted -/
theorem no_started_left {s : State} {P : Nat → List Nat} (hT : InvT s P) (hL : InvL s) (hctl : s.ctl = []) :
    ∀ t, ¬ StartedU s t := by
  have key : ∀ k t, StartedU s t → s.futs.length - rank P s.futs.length t ≤ k → False := by
    intro k
    induction k with
    | zero =>
      intro t ht hk
      rcases hL.aw t ht with ⟨c, hc, _⟩ | ⟨u, hu⟩
      · rw [hctl] at hc; cases hc
      · have hlt : rank P s.futs.length t < rank P s.futs.length u :=
          rank_lt P (hT.c.paths.depsLt u t hu.2.2) (hT.c.paths.edge u t hu.2.2 ht.1)
        have := rank_le P s.futs.length u
        omega
    | succ k ih =>
      intro t ht hk
      rcases hL.aw t ht with ⟨c, hc, _⟩ | ⟨u, hu⟩
      · rw [hctl] at hc; cases hc
      · have hlt : rank P s.futs.length t < rank P s.futs.length u :=
          rank_lt P (hT.c.paths.depsLt u t hu.2.2) (hT.c.paths.edge u t hu.2.2 ht.1)
        have hne : (view s u).deps ≠ [] := by
          intro e; have := hu.2.2; rw [e] at this; cases this
        exact ih u ⟨hu.1, hT.a.sOfD u hne, hu.2.1⟩ (by omega)
  intro t ht
  exact key _ t ht (Nat.le_refl _)

end AsynqModel.Core.P6T
