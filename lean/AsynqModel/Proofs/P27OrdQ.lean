import AsynqModel.Proofs.P27OrdDS
import AsynqModel.Proofs.P15OrdQR
import AsynqModel.Proofs.P16J
/-!
  P27, C03 (start-order clause) part 2: the heap-and-trace invariant `P15.Q` of the start-order clause on every state of
  a well-scoped run in which the stack guard has not fired - `P15.Q_reach` without the hypothesis that no
  NonAsyncContext exists.  The new case: `_pause_contexts` fails the blocked task on top of the stack; by `DS` all its
  dependencies have started, so no mention by it is the last live witness of an unstarted task.
-/
namespace AsynqModel.Core.P27
open AsynqModel.Core AsynqModel.Core.Spec AsynqModel.Core.P2 AsynqModel.Core.P14 AsynqModel.Core.P15

theorem FQ_resumeContexts' (s : State) (t : Nat) (hz : (s.task t).ctxActive = false → P2.NAfree s t) :
    FQ s (s.resumeContexts t) := by
  by_cases hact : (s.task t).ctxActive = true
  · rw [P7.nf_resume_active s t hact]; exact FQ.refl s
  · have hact' : (s.task t).ctxActive = false := by simpa using hact
    rw [P16.nf_resume' s t (hz hact') hact']
    refine FQ.trans ?_ (FQ_foldl _ (FQ_flipOne true) _ _)
    fq_keep

theorem FQ_pauseContexts' (s : State) (t : Nat) (hn : P2.NAfree s t) : FQ s (s.pauseContexts t) := by
  by_cases hact : (s.task t).ctxActive = true
  · rw [P16.nf_pause' s t hn hact]
    refine FQ.trans ?_ (FQ_foldl _ (FQ_flipOne false) _ _)
    fq_keep
  · rw [P5.pauseContexts_eq]
    have : (s.task t).ctxActive = false := by simpa using hact
    simp only [this, Bool.not_false, if_true]
    exact FQ.refl s

/-- a suspended task `t` all of whose task-dependencies have started is completed from outside its generator -/
theorem Q_failT {s : State} (t : Nat) (g : TaskSt → TaskSt) (x : Outcome) (hlt : t < s.futs.length)
    (hp : (s.task t).pending = true)
    (hds : ∀ d ∈ (s.task t).deps, (s.fut d).kind = .task → (s.task d).started = true)
    (g1 : (g (s.task t)).started = true) (g3 : (g (s.task t)).body = (s.task t).body) (h : Q s) :
    Q ((s.updTask t g).complete t x) := by
  obtain ⟨f1, f0, f2, a1, _, a3, a4, a5⟩ := task_upd_complete s t g x hlt
  obtain ⟨w1, w2, w3⟩ := watch_inert s ((s.updTask t g).complete t x) (.done t x) rfl rfl
  refine Q_task t w1 w2 w3 f1 f0 f2 ?_ ?_ ?_ ?_ ?_ ?_ ?_ ?_ ?_ h
  · intro _; exact a4
  · intro _ _; rw [a1]; exact g1
  · intro _; rw [a1]; exact g1
  · intro _; rw [a5]; intro hx; cases hx
  · rw [a4]; intro d hd; cases hd
  · intro f k hh hb'; rw [a3, g3] at hb'; exact hb'
  · intro _ _ hx; rw [a5] at hx; cases hx
  · intro l _ _; left; rw [a5]; intro hx; cases hx
  · intro t' hk hw
    rcases hw with ⟨_, _, hin⟩ | ⟨_, a2, _⟩
    · exact Or.inl (hds t' hin hk)
    · rw [hp] at a2; cases a2

/-- `_pause_contexts` of a suspended task all of whose task-dependencies have started: whether or not it fails the task
    (a registered NonAsyncContext), `Q` is kept -/
theorem Q_pauseContexts' {s : State} (t : Nat) (hlt : t < s.futs.length) (hk : (s.fut t).kind = .task)
    (hst : (s.task t).started = true) (hp : (s.task t).pending = true)
    (hds : ∀ d ∈ (s.task t).deps, (s.fut d).kind = .task → (s.task d).started = true)
    (h : Q s) : Q (s.pauseContexts t) := by
  rw [P5.pauseContexts_eq]
  split
  · exact h
  · dsimp only
    have F2 : FQ s ((s.task t).ctxs.reverse.foldl (P5.flipOne false)
        (s.updTask t fun ts => { ts with ctxActive := false })) := by
      refine FQ.trans ?_ (FQ_foldl _ (FQ_flipOne false) _ _)
      fq_keep
    generalize (s.task t).ctxs.reverse.foldl (P5.flipOne false)
        (s.updTask t fun ts => { ts with ctxActive := false }) = s2 at F2
    split
    · unfold State.failSuspended
      split
      · exact Q_of_FQ F2 h
      · have F := F2.trans (FQ_exitAll s2 t)
        obtain ⟨a1, a2, a3, a4⟩ := F.ts t
        have hdeps : ((s2.exitAll t).task t).deps = (s.task t).deps := by
          rcases a4 with ⟨_, c2⟩ | ⟨c0, _, _⟩
          · exact c2
          · exact absurd hk c0
        refine Q_failT t _ _ (by rw [F.len]; exact hlt) (by rw [a1]; exact hp) ?_
          (by show ((s2.exitAll t).task t).started = true; rw [a2]; exact hst) rfl (Q_of_FQ F h)
        intro d hd hkd
        rw [hdeps] at hd
        rw [F.kind] at hkd
        rw [(F.ts d).2.1]
        exact hds d hd hkd
    · exact Q_of_FQ F2 h

theorem Q_handleTask' {s : State} (t : Nat) (stk : List Nat) (hstk : s.stack = t :: stk) (hk : (s.fut t).kind = .task)
    (hnc : s.out t = none) (hz : (s.task t).ctxActive = false → P2.NAfree s t) (hp : (s.task t).pending = true)
    (hds : DS s) (h : Q s) : Q (s.handleTask t) := by
  have hlt : t < s.futs.length := P5.lt_of_kind_task s t hk
  unfold State.handleTask
  simp only []
  split
  · rename_i hbl
    split
    · rename_i hfl
      -- second visit: `_pause_contexts` may fail the task; all its dependencies have started (`DS`)
      refine Q_of_FQ (FQ_popStack _) ?_
      have F1 : FQ s (s.updTask t fun ts => { ts with depsSched := false }) := by fq_keep
      have hts : (s.updTask t fun ts => { ts with depsSched := false }).task t = { s.task t with depsSched := false } :=
        P5.task_updTask_self _ _ _ hlt
      have hst : (s.task t).started = true := by
        cases hq : (s.task t).started with
        | true => rfl
        | false =>
          rw [h.q1 t hq] at hbl
          simp at hbl
      have hcomp : s.computed t = false := by unfold State.computed; rw [hnc]; rfl
      refine Q_pauseContexts' t (by simpa using hlt) (by rw [F1.kind]; exact hk) (by rw [hts]; exact hst)
        (by rw [hts]; exact hp) ?_ (Q_of_FQ F1 h)
      intro d hd hkd
      rw [hts] at hd
      rw [F1.kind] at hkd
      rw [(F1.ts d).2.1]
      rcases hds [] t stk (by rw [hstk]; rfl) hfl hcomp d hd hkd with h1 | h1
      · exact h1
      · cases h1
    · refine Q_of_FQ ?_ h
      refine FQ.trans ?_ (FQ_mk _ ..)
      have hts : (s.updTask t fun ts => { ts with depsSched := true }).task t = { s.task t with depsSched := true } :=
        P5.task_updTask_self _ _ _ hlt
      refine FQ.trans ?_ (FQ_resumeContexts' _ t (by
        rw [hts]
        intro hact c hc
        rw [hts] at hc
        exact hz hact c hc))
      fq_keep
  · split
    · exact Q_of_FQ (FQ_fail s _) h
    · exact Q_of_FQ ((FQ_resumeContexts' s t hz).trans (FQ_mk _ ..)) h

theorem Q_executeIter' {s : State} (h : Q s)
    (hz : ∀ t, s.out t = none → (s.task t).ctxActive = false → P2.NAfree s t)
    (hpend : ∀ top stk, s.stack = top :: stk → (s.fut top).kind = .task → s.out top = none →
      (s.task top).pending = true)
    (hds : DS s) : Q s.executeIter := by
  unfold State.executeIter
  split
  · exact Q_of_FQ (FQ_fail s _) h
  · rename_i top stk hstk
    split
    · exact Q_of_FQ (s := s) (FQ_of_eq rfl rfl) h
    · split
      · exact Q_of_FQ (FQ_popStack s) h
      · rename_i hc
        have hnc : s.out top = none := computed_false hc
        split
        · rename_i hk
          exact Q_handleTask' top stk hstk hk hnc (hz top hnc) (hpend top stk hstk hk hnc) hds h
        · refine Q_of_FQ ?_ h
          refine FQ.trans ?_ (FQ_popStack _)
          split
          · split
            · exact FQ.refl s
            · exact FQ_of_eq rfl rfl
          · exact FQ.refl s
        · rename_i lo hk
          exact Q_of_FQ ((FQ_complete s _ _ (by rw [hk]; intro h; cases h) hnc).trans (FQ_popStack _)) h
        · exact Q_of_FQ (FQ_fail s _) h

theorem Q_step' {s : State} (h : Q s) (hi : ItemsOk s)
    (hz : ∀ t, s.out t = none → (s.task t).ctxActive = false → P2.NAfree s t)
    (hpend : ∀ root base rest top stk, s.ctl = .waitLoop root base :: rest → s.stack = top :: stk →
      base < s.stack.length → (s.fut top).kind = .task → s.out top = none → (s.task top).pending = true)
    (hds : DS s)
    (htops : ∀ p ∈ s.tops, isSyncret p.2 = false)
    (hgen : ∀ t old rest, s.stuck = none → s.ctl = .gen t old :: rest → GenQ s t) : Q (step s) := by
  unfold step
  split
  · exact h
  · rename_i hst
    have hst' : s.stuck = none := by simpa using hst
    split
    · split
      · exact Q_of_FQ (FQ_finishTop s _) h
      · split
        · exact h
        · rename_i conv body rest' htp
          simp only []
          refine Q_of_FQ (FQ_mk _ ..) ?_
          unfold State.newTask
          refine Q_alloc _ _ rfl rfl ?_ (fun _ _ => rfl) (fun _ => rfl) ?_
          · exact htops (conv, body) (by rw [htp]; exact List.mem_cons_self)
          · refine Q_of_FQ (FQ_emit _ _ rfl) ?_
            exact Q_of_FQ (FQ_of_eq (s := s) rfl rfl) h
    · split
      · exact Q_of_eq (s := s) rfl rfl h
      · split
        · exact Q_of_eq (s := s) rfl rfl h
        · exact Q_of_eq (s := s) rfl rfl h
    · split
      · exact Q_of_eq (s := s) rfl rfl h
      · split
        · rename_i root base rest hctl _ hlen
          exact Q_executeIter' h hz (fun top stk hst => hpend root base rest top stk hctl hst hlen) hds
        · split
          · exact Q_of_eq (s := s) rfl rfl h
          · exact Q_of_FQ (FQ_schedulerFlush s _ hi) h
    · rename_i t old rest hctl
      exact Q_ite (Q_of_FQ (FQ_fail s _) h) (Q_genStep t old hi (hgen t old rest hst' hctl) h)


/-! ### all reachable states -/

theorem genQ_reach' {s : State} (h : P10.WSReach s) (hg : s.guardFired = false) {t : Nat}
    {old : Option Nat} {rest : List Ctl} (hctl : s.ctl = .gen t old :: rest) : GenQ s t := by
  have hr := h.reach
  have pin := pinv_reach hr
  have hi := (P10.ws_hinv h).1
  have r := R_reach hr
  have htg : t ∈ gens s.ctl := by rw [hctl]; simp [gens]
  refine ⟨pin.genKind t htg, pin.live t htg, fun _ _ d hd => ?_, fun hs => (r.ns t hs).1, fun hp => r.np hp, hi.ws t,
    fun d hd => hi.named_bound hd, fun d hd => hi.named_bound (hi.prevY t d hd),
    (P16.lib'_of_ws h hg).raising⟩
  have := pin.gnb t htg d hd
  intro ho
  unfold State.computed at this
  rw [ho] at this; cases this

/-- `Q` and `DS` on every state of a well-scoped run in which the stack guard has not fired - NonAsyncContexts allowed -/
theorem QD_reach {s : State} (h : P10.WSReach s) (hg : s.guardFired = false) : Q s ∧ DS s := by
  induction h with
  | init cfg tops choices _ => exact ⟨Q_init cfg tops choices, DS_init cfg tops choices⟩
  | @step s hs ih =>
    have hg0 := P3.guard_mono s hg
    obtain ⟨q, ds⟩ := ih hg0
    have pin := pinv_reach hs.reach
    have lb := P16.lib'_of_ws hs hg0
    have j := P16.J_reach' hs hg0
    have q' : Q (step s) := by
      refine Q_step' q pin.items pin.z ?_ ds ?_ (fun t old rest _ hctl => genQ_reach' hs hg0 hctl)
      · intro root base rest top stk hctl hst hlen hk hnc
        have hnin := lb.notIn root base rest top stk hctl hlen hst
        exact j.pend top hk (by unfold State.computed; rw [hnc]; rfl) hnin
      · intro p hp
        exact wsB_notSync ((P10.ws_hinv hs).2 p hp)
    exact ⟨q', DS_step hs hg q q' ds⟩

theorem Q_reach' {s : State} (h : P10.WSReach s) (hg : s.guardFired = false) : Q s := (QD_reach h hg).1

end AsynqModel.Core.P27
