import AsynqModel.Core.Seq
/-
  P19 (the flush-count clause of C04), part 1: pure facts about `Seq.roundsBody` / `awaitLeaves`:
  * the result does not depend on `env` / `caught`;
  * shifting the start round by `c` shifts the result by `c` (tables related by `FR c r`); with `c = 0` this is
    "entries that are complete by now are interchangeable";
  * `awaitLeaves` when an awaited task has started meanwhile, when everything awaited is complete, when nothing
    awaited is unstarted.
-/
namespace AsynqModel.Core.P19
open AsynqModel.Core

/-- the rounds of the rest of a task: its current block, then the continuations of its open with-blocks -/
def contR (cfg : Cfg) (x : RRes) : List (Nat × Body) → RRes
  | [] => x
  | (_, k) :: rest =>
    if x.fell then contR cfg (roundsBody cfg k x.round x.own x.outs x.env x.caught x.pv) rest else x

/-- descriptors that agree up to a shift of `c` rounds, seen from round `r` (entries complete by round `r` resp.
    `r + c` are interchangeable) -/
def FR (c r : Nat) : FutR → FutR → Prop
  | .ready q, .ready q' => q' = q + c ∨ (q ≤ r ∧ q' ≤ r + c)
  | .unstarted d, .unstarted d' => d = d'
  | _, _ => False

def TR (c r : Nat) (own own' : List FutR) : Prop :=
  own.length = own'.length ∧ ∀ (i : Nat) (x x' : FutR), own[i]? = some x → own'[i]? = some x' → FR c r x x'

theorem FR.mono {c r r2 : Nat} {x x' : FutR} (h : FR c r x x') (hr : r ≤ r2) : FR c r2 x x' := by
  cases x <;> cases x' <;> simp only [FR] at h ⊢
  · rcases h with h | h
    · exact Or.inl h
    · exact Or.inr (by omega)
  · exact h

theorem FR.refl0 (r : Nat) (x : FutR) : FR 0 r x x := by
  cases x <;> simp [FR]

theorem TR.mono {c r r2 : Nat} {own own' : List FutR} (h : TR c r own own') (hr : r ≤ r2) : TR c r2 own own' :=
  ⟨h.1, fun i x x' a b => (h.2 i x x' a b).mono hr⟩

theorem TR.refl0 (r : Nat) (own : List FutR) : TR 0 r own own :=
  ⟨rfl, fun i x x' a b => by rw [a] at b; cases b; exact FR.refl0 r x⟩

theorem TR.nil (c r : Nat) : TR c r [] [] := ⟨rfl, fun i x x' a _ => by simp at a⟩

theorem TR.get {c r : Nat} {own own' : List FutR} (h : TR c r own own') {i : Nat} {x : FutR} (hx : own[i]? = some x) :
    ∃ x', own'[i]? = some x' ∧ FR c r x x' := by
  have hi : i < own.length := by
    rcases Nat.lt_or_ge i own.length with h1 | h1
    · exact h1
    · rw [List.getElem?_eq_none h1] at hx; cases hx
  have hi' : i < own'.length := h.1 ▸ hi
  exact ⟨own'[i], List.getElem?_eq_getElem hi', h.2 i x _ hx (List.getElem?_eq_getElem hi')⟩

theorem TR.none {c r : Nat} {own own' : List FutR} (h : TR c r own own') {i : Nat} (hx : own[i]? = none) :
    own'[i]? = none := by
  rw [List.getElem?_eq_none_iff] at hx ⊢
  rw [← h.1]; exact hx

theorem TR.set {c r : Nat} {own own' : List FutR} (h : TR c r own own') (i : Nat) {y y' : FutR} (hy : FR c r y y') :
    TR c r (own.set i y) (own'.set i y') := by
  refine ⟨by simp [h.1], fun j x x' a b => ?_⟩
  rw [List.getElem?_set] at a b
  by_cases hij : i = j
  · subst hij
    simp only [if_true] at a b
    split at a
    · split at b
      · cases a; cases b; exact hy
      · cases b
    · cases a
  · simp only [hij, if_false] at a b
    exact h.2 j x x' a b

theorem TR.append1 {c r : Nat} {own own' : List FutR} (h : TR c r own own') {y y' : FutR} (hy : FR c r y y') :
    TR c r (own ++ [y]) (own' ++ [y']) := by
  refine ⟨by simp [h.1], fun j x x' a b => ?_⟩
  rcases Nat.lt_or_ge j own.length with hj | hj
  · rw [List.getElem?_append_left hj] at a
    rw [List.getElem?_append_left (h.1 ▸ hj)] at b
    exact h.2 j x x' a b
  · rw [List.getElem?_append_right hj] at a
    rw [List.getElem?_append_right (h.1 ▸ hj)] at b
    rw [← h.1] at b
    cases hk : j - own.length with
    | zero => rw [hk] at a b; simp at a b; rw [← a, ← b]; exact hy
    | succ k => rw [hk] at a; simp at a

/-! ### `awaitLeaves` -/

theorem awaitLeaves_shift (c r : Nat) : ∀ (is : List Nat) (own own' : List FutR) (acc : Nat), TR c r own own' → r ≤ acc →
    (awaitLeaves (r + c) own' is (acc + c)).2 = (awaitLeaves r own is acc).2 + c ∧ acc ≤ (awaitLeaves r own is acc).2 ∧
    TR c r (awaitLeaves r own is acc).1 (awaitLeaves (r + c) own' is (acc + c)).1 := by
  intro is
  induction is with
  | nil => intro own own' acc h _; exact ⟨rfl, Nat.le_refl _, h⟩
  | cons i is ih =>
    intro own own' acc h hacc
    cases hx : own[i]? with
    | none =>
      have hx' := h.none hx
      simp only [awaitLeaves, hx, hx']
      exact ih own own' acc h hacc
    | some x =>
      obtain ⟨x', hx', hf⟩ := h.get hx
      cases x with
      | ready q =>
        cases x' with
        | unstarted d => simp [FR] at hf
        | ready q' =>
          simp only [awaitLeaves, hx, hx']
          have hf' : q' = q + c ∨ (q ≤ r ∧ q' ≤ r + c) := hf
          have e : max (acc + c) q' = max acc q + c := by omega
          rw [e]
          obtain ⟨h1, h2, h3⟩ := ih own own' (max acc q) h (by omega)
          exact ⟨h1, by omega, h3⟩
      | unstarted d =>
        cases x' with
        | ready q' => simp [FR] at hf
        | unstarted d' =>
          have hd : d = d' := hf
          subst hd
          simp only [awaitLeaves, hx, hx']
          have e : max (acc + c) (r + c + d) = max acc (r + d) + c := by omega
          rw [e]
          have hs : TR c r (own.set i (.ready (r + d))) (own'.set i (.ready (r + c + d))) :=
            h.set i (show FR c r (.ready (r + d)) (.ready (r + c + d)) from Or.inl (by omega))
          obtain ⟨h1, h2, h3⟩ := ih _ _ (max acc (r + d)) hs (by omega)
          exact ⟨h1, by omega, h3⟩

/-- the maximum of the completion rounds of the awaited entries -/
def mx (tbl : List FutR) : List Nat → Nat
  | [] => 0
  | i :: is => match tbl[i]? with
    | some (.ready q) => max q (mx tbl is)
    | _ => mx tbl is

/-- nothing awaited is an unstarted task: the table is unchanged, the result is the maximum -/
theorem awaitLeaves_nounst (r : Nat) (tbl : List FutR) : ∀ (is : List Nat) (acc : Nat),
    (∀ i ∈ is, ∀ d, tbl[i]? ≠ some (.unstarted d)) → awaitLeaves r tbl is acc = (tbl, max acc (mx tbl is)) := by
  intro is
  induction is with
  | nil => intro acc _; simp [awaitLeaves, mx]
  | cons i is ih =>
    intro acc h
    have ht : ∀ j ∈ is, ∀ d, tbl[j]? ≠ some (.unstarted d) := fun j hj => h j (List.mem_cons_of_mem _ hj)
    cases hx : tbl[i]? with
    | none => simp only [awaitLeaves, hx, mx]; exact ih acc ht
    | some x =>
      cases x with
      | ready q =>
        simp only [awaitLeaves, hx, mx]
        rw [ih (max acc q) ht]
        congr 1
        omega
      | unstarted d => exact absurd hx (h i List.mem_cons_self d)

/-- an awaited unstarted task has started meanwhile (at the same round): nothing changes -/
theorem awaitLeaves_started (r : Nat) (i d : Nat) : ∀ (is : List Nat) (tbl : List FutR) (acc : Nat), i ∈ is →
    tbl[i]? = some (.unstarted d) →
    awaitLeaves r (tbl.set i (.ready (r + d))) is acc = awaitLeaves r tbl is acc := by
  intro is
  induction is with
  | nil => intro tbl acc h; cases h
  | cons j is ih =>
    intro tbl acc hmem hx
    have hi : i < tbl.length := by
      rcases Nat.lt_or_ge i tbl.length with h1 | h1
      · exact h1
      · rw [List.getElem?_eq_none h1] at hx; cases hx
    by_cases hij : j = i
    · subst hij
      have h1 : (tbl.set j (.ready (r + d)))[j]? = some (.ready (r + d)) := by
        rw [List.getElem?_set]; simp [hi]
      simp only [awaitLeaves, hx, h1]
    · have hmem' : i ∈ is := by
        rcases List.mem_cons.1 hmem with h | h
        · exact absurd h.symm hij
        · exact h
      have h1 : (tbl.set i (.ready (r + d)))[j]? = tbl[j]? := by
        rw [List.getElem?_set, if_neg (fun h => hij h.symm)]
      cases hy : tbl[j]? with
      | none =>
        simp only [awaitLeaves, h1, hy]
        exact ih tbl acc hmem' hx
      | some y =>
        cases y with
        | ready q =>
          simp only [awaitLeaves, h1, hy]
          exact ih tbl _ hmem' hx
        | unstarted d' =>
          simp only [awaitLeaves, h1, hy]
          have hc : (tbl.set i (.ready (r + d))).set j (.ready (r + d')) =
              (tbl.set j (.ready (r + d'))).set i (.ready (r + d)) := List.set_comm _ _ (fun h => hij h.symm)
          rw [hc]
          refine ih _ _ hmem' ?_
          rw [List.getElem?_set]; simp [hij, hx]

/-! ### `roundsBody` under a shift of the start round -/

/-- the results of the shifted run -/
structure RR (c : Nat) (x x' : RRes) : Prop where
  round : x'.round = x.round + c
  own : TR c x.round x.own x'.own
  fell : x'.fell = x.fell
  outs : x.fell = true → x'.outs = x.outs
  pv : x.fell = true → x'.pv = x.pv

theorem roundsBody_shift (cfg : Cfg) (c : Nat) : ∀ (b : Body) (r : Nat) (own own' : List FutR) (outs : List Outcome)
    (env env' : List Val) (caught caught' : Option Err) (pv : Y), TR c r own own' →
    RR c (roundsBody cfg b r own outs env caught pv) (roundsBody cfg b (r + c) own' outs env' caught' pv) ∧
    r ≤ (roundsBody cfg b r own outs env caught pv).round := by
  intro b
  induction b with
  | ret tag => intro r own own' outs env env' caught caught' pv h; exact ⟨⟨rfl, h, rfl, nofun, nofun⟩, Nat.le_refl _⟩
  | res tag => intro r own own' outs env env' caught caught' pv h; exact ⟨⟨rfl, h, rfl, nofun, nofun⟩, Nat.le_refl _⟩
  | raise e => intro r own own' outs env env' caught caught' pv h; exact ⟨⟨rfl, h, rfl, nofun, nofun⟩, Nat.le_refl _⟩
  | reraise => intro r own own' outs env env' caught caught' pv h; exact ⟨⟨rfl, h, rfl, nofun, nofun⟩, Nat.le_refl _⟩
  | spawn child pass k _ ihk =>
    intro r own own' outs env env' caught caught' pv h
    simp only [roundsBody]
    exact ihk r _ _ _ env env' caught caught' pv (h.append1 (show FR c r (.unstarted _) (.unstarted _) from rfl))
  | item kind payload mode k ihk =>
    intro r own own' outs env env' caught caught' pv h
    simp only [roundsBody]
    exact ihk r _ _ _ env env' caught caught' pv
      (h.append1 (show FR c r (.ready (r + 1)) (.ready (r + c + 1)) from Or.inl (by omega)))
  | const v k ihk =>
    intro r own own' outs env env' caught caught' pv h
    simp only [roundsBody]
    exact ihk r _ _ _ env env' caught caught' pv
      (h.append1 (show FR c r (.ready 0) (.ready 0) from Or.inr ⟨Nat.zero_le _, Nat.zero_le _⟩))
  | errfut e k ihk =>
    intro r own own' outs env env' caught caught' pv h
    simp only [roundsBody]
    exact ihk r _ _ _ env env' caught caught' pv
      (h.append1 (show FR c r (.ready 0) (.ready 0) from Or.inr ⟨Nat.zero_le _, Nat.zero_le _⟩))
  | lazy o k ihk =>
    intro r own own' outs env env' caught caught' pv h
    simp only [roundsBody]
    exact ihk r _ _ _ env env' caught caught' pv
      (h.append1 (show FR c r (.ready 0) (.ready 0) from Or.inr ⟨Nat.zero_le _, Nat.zero_le _⟩))
  | yld y k hb ihk ihh =>
    intro r own own' outs env env' caught caught' pv h
    simp only [roundsBody]
    generalize List.filterMap _ y.leaves = is
    obtain ⟨a1, a2, a3⟩ := awaitLeaves_shift c r is own own' r h (Nat.le_refl _)
    have a3' := a3.mono a2
    rw [a1]
    split
    · obtain ⟨h1, h2⟩ := ihk _ _ _ outs (env ++ [_]) (env' ++ [_]) caught caught' y a3'
      exact ⟨h1, by omega⟩
    · obtain ⟨h1, h2⟩ := ihh _ _ _ outs env env' (some _) (some _) y a3'
      exact ⟨h1, by omega⟩
  | reyld k hb ihk ihh =>
    intro r own own' outs env env' caught caught' pv h
    simp only [roundsBody]
    split
    · exact ihk r _ _ outs _ _ caught caught' pv h
    · exact ihh r _ _ outs env env' _ _ pv h
  | sync child pass k hb _ _ _ =>
    intro r own own' outs env env' caught caught' pv h; exact ⟨⟨rfl, h, rfl, nofun, nofun⟩, Nat.le_refl _⟩
  | syncfut rf k hb _ _ =>
    intro r own own' outs env env' caught caught' pv h; exact ⟨⟨rfl, h, rfl, nofun, nofun⟩, Nat.le_refl _⟩
  | syncret f k hb _ _ =>
    intro r own own' outs env env' caught caught' pv h; exact ⟨⟨rfl, h, rfl, nofun, nofun⟩, Nat.le_refl _⟩
  | withCtx cx b k ihb ihk =>
    intro r own own' outs env env' caught caught' pv h
    simp only [roundsBody]
    obtain ⟨h1, h2⟩ := ihb r own own' outs env env' caught caught' pv h
    rw [h1.fell]
    split
    · rename_i hf
      rw [h1.round, h1.outs hf, h1.pv hf]
      obtain ⟨g1, g2⟩ := ihk _ _ _ (roundsBody cfg b r own outs env caught pv).outs
        (roundsBody cfg b r own outs env caught pv).env (roundsBody cfg b (r + c) own' outs env' caught' pv).env
        (roundsBody cfg b r own outs env caught pv).caught (roundsBody cfg b (r + c) own' outs env' caught' pv).caught
        (roundsBody cfg b r own outs env caught pv).pv h1.own
      exact ⟨g1, by omega⟩
    · exact ⟨h1, h2⟩
  | endwith =>
    intro r own own' outs env env' caught caught' pv h
    exact ⟨⟨rfl, h, rfl, fun _ => rfl, fun _ => rfl⟩, Nat.le_refl _⟩
  | read var k ihk =>
    intro r own own' outs env env' caught caught' pv h
    simp only [roundsBody]
    exact ihk r _ _ outs env env' caught caught' pv h
  | active k ihk =>
    intro r own own' outs env env' caught caught' pv h
    simp only [roundsBody]
    exact ihk r _ _ outs env env' caught caught' pv h

/-- the own-indices awaited by `yield y` -/
def idxOf (y : Y) : List Nat := y.leaves.filterMap fun | .own i => some i | .inh _ => none

theorem roundsBody_yld (cfg : Cfg) (y : Y) (k h : Body) (r : Nat) (own : List FutR) (outs : List Outcome)
    (env : List Val) (caught : Option Err) (pv : Y) :
    roundsBody cfg (.yld y k h) r own outs env caught pv =
      match unwrap (resolveO outs []) y with
      | .ok v => roundsBody cfg k (awaitLeaves r own (idxOf y) r).2 (awaitLeaves r own (idxOf y) r).1 outs (env ++ [v]) caught y
      | .error e => roundsBody cfg h (awaitLeaves r own (idxOf y) r).2 (awaitLeaves r own (idxOf y) r).1 outs env (some e) y := by
  simp only [roundsBody]
  rfl

theorem mem_idxOf {y : Y} {i : Nat} : i ∈ idxOf y ↔ Ref.own i ∈ y.leaves := by
  unfold idxOf
  rw [List.mem_filterMap]
  constructor
  · rintro ⟨a, ha, h⟩
    cases a with
    | own j => simp at h; subst h; exact ha
    | inh j => simp at h
  · intro h
    exact ⟨.own i, h, rfl⟩

/-! ### the continuations of the open with-blocks -/

theorem contR_notfell (cfg : Cfg) (x : RRes) (l : List (Nat × Body)) (h : x.fell = false) : contR cfg x l = x := by
  cases l with
  | nil => rfl
  | cons p rest => obtain ⟨c, k⟩ := p; simp [contR, h]

theorem contR_shift (cfg : Cfg) (c : Nat) : ∀ (l : List (Nat × Body)) (x x' : RRes), RR c x x' →
    RR c (contR cfg x l) (contR cfg x' l) ∧ x.round ≤ (contR cfg x l).round := by
  intro l
  induction l with
  | nil => intro x x' h; exact ⟨h, Nat.le_refl _⟩
  | cons p rest ih =>
    intro x x' h
    obtain ⟨cid, k⟩ := p
    simp only [contR]
    rw [h.fell]
    split
    · rename_i hf
      rw [h.round, h.outs hf, h.pv hf]
      obtain ⟨g1, g2⟩ := roundsBody_shift cfg c k x.round x.own x'.own x.outs x.env x'.env x.caught x'.caught x.pv h.own
      obtain ⟨e1, e2⟩ := ih _ _ g1
      exact ⟨e1, by omega⟩
    · exact ⟨h, Nat.le_refl _⟩

/-- the predicted completion round of the rest of a task -/
def pr (cfg : Cfg) (b : Body) (conts : List (Nat × Body)) (n : Nat) (tbl : List FutR) (outs : List Outcome) (pv : Y) : Nat :=
  (contR cfg (roundsBody cfg b n tbl outs [] none pv) conts).round

theorem pr_shift (cfg : Cfg) (c : Nat) (b : Body) (conts : List (Nat × Body)) (n : Nat) (tbl tbl' : List FutR)
    (outs : List Outcome) (pv : Y) (h : TR c n tbl tbl') :
    pr cfg b conts (n + c) tbl' outs pv = pr cfg b conts n tbl outs pv + c ∧ n ≤ pr cfg b conts n tbl outs pv := by
  obtain ⟨g1, g2⟩ := roundsBody_shift cfg c b n tbl tbl' outs [] [] none none pv h
  obtain ⟨e1, e2⟩ := contR_shift cfg c conts _ _ g1
  exact ⟨e1.round, by unfold pr; omega⟩

/-- entries that are complete by now are interchangeable -/
theorem pr_congr (cfg : Cfg) (b : Body) (conts : List (Nat × Body)) (n : Nat) (tbl tbl' : List FutR)
    (outs : List Outcome) (pv : Y) (h : TR 0 n tbl tbl') :
    pr cfg b conts n tbl' outs pv = pr cfg b conts n tbl outs pv := (pr_shift cfg 0 b conts n tbl tbl' outs pv h).1

/-- a task started at round `n` finishes `roundsTop` rounds later -/
theorem pr_start (cfg : Cfg) (b : Body) (n : Nat) : pr cfg b [] n [] [] .none = n + roundsTop cfg b := by
  have := (pr_shift cfg n b [] 0 [] [] [] .none (TR.nil n 0)).1
  rw [Nat.zero_add] at this
  rw [this, Nat.add_comm]
  rfl

/-- `env` and `caught` do not influence the rounds -/
theorem roundsBody_env (cfg : Cfg) (b : Body) (conts : List (Nat × Body)) (n : Nat) (tbl : List FutR) (outs : List Outcome)
    (env : List Val) (caught : Option Err) (pv : Y) :
    (contR cfg (roundsBody cfg b n tbl outs env caught pv) conts).round = pr cfg b conts n tbl outs pv := by
  obtain ⟨g1, _⟩ := roundsBody_shift cfg 0 b n tbl tbl outs env [] caught none pv (TR.refl0 n tbl)
  exact ((contR_shift cfg 0 conts _ _ g1).1.round).symm

/-! ### the instructions -/

theorem mx_le (tbl : List FutR) (n : Nat) : ∀ (is : List Nat),
    (∀ i ∈ is, ∀ q, tbl[i]? = some (.ready q) → q ≤ n) → mx tbl is ≤ n := by
  intro is
  induction is with
  | nil => intro _; exact Nat.zero_le _
  | cons i is ih =>
    intro h
    have h' := ih (fun j hj => h j (List.mem_cons_of_mem _ hj))
    unfold mx
    split
    · rename_i q hq
      have := h i List.mem_cons_self q hq
      omega
    · exact h'

theorem mx_ge (tbl : List FutR) : ∀ (is : List Nat) (i q : Nat), i ∈ is → tbl[i]? = some (.ready q) → q ≤ mx tbl is := by
  intro is
  induction is with
  | nil => intro i q h; cases h
  | cons j is ih =>
    intro i q hm hq
    unfold mx
    rcases List.mem_cons.1 hm with h | h
    · subst h
      rw [hq]
      simp only
      omega
    · have := ih i q h hq
      split <;> omega

/-- resuming at a `yield`: everything awaited is complete -/
theorem pr_resume (cfg : Cfg) (y : Y) (k h : Body) (conts : List (Nat × Body)) (n : Nat) (tbl : List FutR)
    (outs : List Outcome) (pv : Y)
    (hall : ∀ i ∈ idxOf y, ∀ x, tbl[i]? = some x → ∃ q, q ≤ n ∧ x = .ready q) :
    pr cfg (.yld y k h) conts n tbl outs pv =
      match unwrap (resolveO outs []) y with
      | .ok _ => pr cfg k conts n tbl outs y
      | .error _ => pr cfg h conts n tbl outs y := by
  have hno : ∀ i ∈ idxOf y, ∀ d, tbl[i]? ≠ some (.unstarted d) := by
    intro i hi d hd
    obtain ⟨q, _, e⟩ := hall i hi _ hd
    cases e
  have hm : mx tbl (idxOf y) ≤ n := mx_le tbl n _ (fun i hi q hq => by
    obtain ⟨q', h1, e⟩ := hall i hi _ hq
    cases e; exact h1)
  unfold pr
  rw [roundsBody_yld, awaitLeaves_nounst n tbl _ n hno]
  have : max n (mx tbl (idxOf y)) = n := by omega
  simp only [this]
  split
  · exact roundsBody_env cfg k conts n tbl outs _ _ y
  · exact roundsBody_env cfg h conts n tbl outs _ _ y

/-- a scheduler flush does not change the prediction of a task that is blocked on a `yield` with everything it
    awaits started -/
theorem pr_flush (cfg : Cfg) (y : Y) (k h : Body) (conts : List (Nat × Body)) (n : Nat) (tbl : List FutR)
    (outs : List Outcome) (pv : Y)
    (hno : ∀ i ∈ idxOf y, ∀ d, tbl[i]? ≠ some (.unstarted d))
    (hbl : ∃ i ∈ idxOf y, ∃ q, tbl[i]? = some (.ready q) ∧ n + 1 ≤ q) :
    pr cfg (.yld y k h) conts (n + 1) tbl outs pv = pr cfg (.yld y k h) conts n tbl outs pv := by
  obtain ⟨i, hi, q, hq, hle⟩ := hbl
  have := mx_ge tbl _ i q hi hq
  unfold pr
  rw [roundsBody_yld, roundsBody_yld, awaitLeaves_nounst n tbl _ n hno, awaitLeaves_nounst (n + 1) tbl _ (n + 1) hno]
  have e : max (n + 1) (mx tbl (idxOf y)) = max n (mx tbl (idxOf y)) := by omega
  rw [e]

/-- a task blocked at a `yield` finishes no earlier than what it awaits -/
theorem pr_yld_ge (cfg : Cfg) (y : Y) (k h : Body) (conts : List (Nat × Body)) (n : Nat) (tbl : List FutR)
    (outs : List Outcome) (pv : Y) (hno : ∀ i ∈ idxOf y, ∀ d, tbl[i]? ≠ some (.unstarted d)) :
    mx tbl (idxOf y) ≤ pr cfg (.yld y k h) conts n tbl outs pv := by
  unfold pr
  rw [roundsBody_yld, awaitLeaves_nounst n tbl _ n hno]
  simp only []
  split
  · rename_i v _
    have h1 := (roundsBody_shift cfg 0 k (max n (mx tbl (idxOf y))) tbl tbl outs ([] ++ [v]) [] none none y
      (TR.refl0 _ tbl)).2
    have h2 := (contR_shift cfg 0 conts _ _ (roundsBody_shift cfg 0 k (max n (mx tbl (idxOf y))) tbl tbl outs
      ([] ++ [v]) [] none none y (TR.refl0 _ tbl)).1).2
    omega
  · rename_i e _
    have h1 := (roundsBody_shift cfg 0 h (max n (mx tbl (idxOf y))) tbl tbl outs [] [] (some e) none y
      (TR.refl0 _ tbl)).2
    have h2 := (contR_shift cfg 0 conts _ _ (roundsBody_shift cfg 0 h (max n (mx tbl (idxOf y))) tbl tbl outs
      [] [] (some e) none y (TR.refl0 _ tbl)).1).2
    omega

/-- an awaited child starts (at the current round) -/
theorem pr_started (cfg : Cfg) (y : Y) (k h : Body) (conts : List (Nat × Body)) (n : Nat) (tbl : List FutR)
    (outs : List Outcome) (pv : Y) (i d : Nat) (hi : i ∈ idxOf y) (hx : tbl[i]? = some (.unstarted d)) :
    pr cfg (.yld y k h) conts n (tbl.set i (.ready (n + d))) outs pv = pr cfg (.yld y k h) conts n tbl outs pv := by
  unfold pr
  rw [roundsBody_yld, roundsBody_yld, awaitLeaves_started n i d _ tbl n hi hx]

theorem pr_yld_pv (cfg : Cfg) (y : Y) (k h : Body) (conts : List (Nat × Body)) (n : Nat) (tbl : List FutR)
    (outs : List Outcome) (pv pv' : Y) :
    pr cfg (.yld y k h) conts n tbl outs pv = pr cfg (.yld y k h) conts n tbl outs pv' := by
  unfold pr
  rw [roundsBody_yld, roundsBody_yld]

theorem pr_reyld (cfg : Cfg) (k h : Body) (conts : List (Nat × Body)) (n : Nat) (tbl : List FutR)
    (outs : List Outcome) (pv : Y) :
    pr cfg (.reyld k h) conts n tbl outs pv =
      match unwrap (resolveO outs []) pv with
      | .ok _ => pr cfg k conts n tbl outs pv
      | .error _ => pr cfg h conts n tbl outs pv := by
  cases hu : unwrap (resolveO outs []) pv with
  | ok v =>
    simp only []
    unfold pr
    simp only [roundsBody, hu]
    exact roundsBody_env cfg k conts n tbl outs _ _ pv
  | error e =>
    simp only []
    unfold pr
    simp only [roundsBody, hu]
    exact roundsBody_env cfg h conts n tbl outs _ _ pv

theorem pr_spawn (cfg : Cfg) (child k : Body) (pass : List Ref) (conts : List (Nat × Body)) (n : Nat) (tbl : List FutR)
    (outs : List Outcome) (pv : Y) :
    pr cfg (.spawn child pass k) conts n tbl outs pv =
      pr cfg k conts n (tbl ++ [.unstarted (roundsTop cfg child)])
        (outs ++ [(evalBody cfg child [] [] [] none .none).outcome]) pv := by
  unfold pr; simp only [roundsBody]; rfl

theorem pr_item (cfg : Cfg) (kind payload : Nat) (mode : ItemMode) (k : Body) (conts : List (Nat × Body)) (n : Nat)
    (tbl : List FutR) (outs : List Outcome) (pv : Y) :
    pr cfg (.item kind payload mode k) conts n tbl outs pv =
      pr cfg k conts n (tbl ++ [.ready (n + 1)]) (outs ++ [itemOutcome cfg kind payload mode]) pv := by
  unfold pr; simp only [roundsBody]

theorem pr_const (cfg : Cfg) (v : Nat) (k : Body) (conts : List (Nat × Body)) (n : Nat)
    (tbl : List FutR) (outs : List Outcome) (pv : Y) :
    pr cfg (.const v k) conts n tbl outs pv = pr cfg k conts n (tbl ++ [.ready 0]) (outs ++ [.ok (.a v)]) pv := by
  unfold pr; simp only [roundsBody]

theorem pr_errfut (cfg : Cfg) (e : Nat) (k : Body) (conts : List (Nat × Body)) (n : Nat)
    (tbl : List FutR) (outs : List Outcome) (pv : Y) :
    pr cfg (.errfut e k) conts n tbl outs pv = pr cfg k conts n (tbl ++ [.ready 0]) (outs ++ [.err (.u e)]) pv := by
  unfold pr; simp only [roundsBody]

theorem pr_lazy (cfg : Cfg) (o : LazyOut) (k : Body) (conts : List (Nat × Body)) (n : Nat)
    (tbl : List FutR) (outs : List Outcome) (pv : Y) :
    pr cfg (.lazy o k) conts n tbl outs pv = pr cfg k conts n (tbl ++ [.ready 0]) (outs ++ [lazyOutcome o]) pv := by
  unfold pr; simp only [roundsBody]

theorem pr_read (cfg : Cfg) (var : Nat) (k : Body) (conts : List (Nat × Body)) (n : Nat)
    (tbl : List FutR) (outs : List Outcome) (pv : Y) :
    pr cfg (.read var k) conts n tbl outs pv = pr cfg k conts n tbl outs pv := by
  unfold pr; simp only [roundsBody]

theorem pr_active (cfg : Cfg) (k : Body) (conts : List (Nat × Body)) (n : Nat)
    (tbl : List FutR) (outs : List Outcome) (pv : Y) :
    pr cfg (.active k) conts n tbl outs pv = pr cfg k conts n tbl outs pv := by
  unfold pr; simp only [roundsBody]

theorem pr_withCtx (cfg : Cfg) (c : CtxKind) (b k : Body) (cid : Nat) (conts : List (Nat × Body)) (n : Nat)
    (tbl : List FutR) (outs : List Outcome) (pv : Y) :
    pr cfg (.withCtx c b k) conts n tbl outs pv = pr cfg b ((cid, k) :: conts) n tbl outs pv := by
  unfold pr
  simp only [roundsBody, contR]
  split
  · rfl
  · rename_i hf
    exact congrArg RRes.round (contR_notfell cfg _ conts (by simpa using hf))

theorem pr_endwith (cfg : Cfg) (cid : Nat) (k : Body) (conts : List (Nat × Body)) (n : Nat)
    (tbl : List FutR) (outs : List Outcome) (pv : Y) :
    pr cfg .endwith ((cid, k) :: conts) n tbl outs pv = pr cfg k conts n tbl outs pv := by
  unfold pr
  simp only [roundsBody, contR]
  rfl

/-- the last instruction of a task -/
def terminal : Body → Prop
  | .ret _ => True
  | .res _ => True
  | .raise _ => True
  | .reraise => True
  | _ => False

theorem pr_terminal (cfg : Cfg) (b : Body) (hb : terminal b) (conts : List (Nat × Body)) (n : Nat)
    (tbl : List FutR) (outs : List Outcome) (pv : Y) : pr cfg b conts n tbl outs pv = n := by
  unfold pr
  cases b <;> simp only [terminal] at hb <;> simp only [roundsBody] <;> rw [contR_notfell _ _ _ rfl]

theorem pr_endwith_nil (cfg : Cfg) (n : Nat) (tbl : List FutR) (outs : List Outcome) (pv : Y) :
    pr cfg .endwith [] n tbl outs pv = n := rfl

end AsynqModel.Core.P19
