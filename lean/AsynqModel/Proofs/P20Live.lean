import AsynqModel.Proofs.P20Term
import AsynqModel.Proofs.P6TLive
/-
  P20 (termination with synchronous re-entry), part 8: every started, uncompleted task is awaited by an uncompleted
  task or is the root of a `wait_for` in progress (`InvL`; nested `wait_for` frames allowed); since every await edge goes
  down in the post-order rank of the creation forest, a finished run leaves no started task uncompleted.
-/
namespace AsynqModel.Core.P20
open AsynqModel.Core AsynqModel.Core.P6 AsynqModel.Core.P6T

structure InvL (s : State) : Prop where
  aw : ∀ t, StartedU s t → RootIn s t ∨ ∃ u, Aw s u t
  sup : ∀ x ∈ s.stack, (view s x).out = none → RootIn s x ∨ ∃ u, Aw s u x

theorem invL_init (cfg : Cfg) (tops : List (Conv × Body)) (choices : List (Nat × Nat)) :
    InvL (initState cfg tops choices) := by
  refine ⟨?_, ?_⟩
  · intro t ht
    have := ht.1
    rw [view_ge _ t (Nat.zero_le _)] at this; cases this
  · intro x hx; cases hx

/-- what a step must do to preserve `InvL` -/
structure LStep (s r : State) : Prop where
  comp : ∀ f, s.computed f = true → r.computed f = true
  aw : ∀ u x, Aw s u x → (view r x).out = none → Aw r u x
  root : ∀ x, RootIn s x → (view r x).out = none → RootIn r x
  started : ∀ t, StartedU r t → StartedU s t ∨ (t ∈ s.stack ∧ (view s t).out = none)
  stack : ∀ x ∈ r.stack, x ∈ s.stack ∨ RootIn r x ∨ ∃ u, Aw r u x

theorem invL_of {s r : State} (h : InvL s) (l : LStep s r) : InvL r := by
  have out_back : ∀ x, (view r x).out = none → (view s x).out = none := by
    intro x hx
    cases hh : (view s x).out with
    | none => rfl
    | some o =>
      have : s.computed x = true := by rw [computed_eq_view, hh]; rfl
      have := l.comp x this
      rw [uncomputed_of_out_none hx] at this; cases this
  have transfer : ∀ x, (RootIn s x ∨ ∃ u, Aw s u x) → (view r x).out = none → RootIn r x ∨ ∃ u, Aw r u x := by
    intro x h1 hx
    rcases h1 with h1 | ⟨u, h1⟩
    · exact Or.inl (l.root x h1 hx)
    · exact Or.inr ⟨u, l.aw u x h1 hx⟩
  refine ⟨?_, ?_⟩
  · intro t ht
    rcases l.started t ht with h1 | ⟨h1, h2⟩
    · exact transfer t (h.aw t h1) ht.2.2
    · exact transfer t (h.sup t h1 h2) ht.2.2
  · intro x hx hox
    rcases l.stack x hx with h1 | h1
    · exact transfer x (h.sup x h1 (out_back x hox)) hox
    · exact h1

/-- an awaiting edge survives when the awaiting task keeps kind, outcome and dependencies -/
theorem aw_of_tasks {s r : State} (hv : ∀ u, (view s u).kind = .task → SEq3 (view s u) (view r u)) :
    ∀ u x, Aw s u x → Aw r u x := by
  intro u x h
  obtain ⟨h1, h2, h3⟩ := hv u h.1
  unfold Aw
  rw [h1, h2, h3]
  exact h

theorem itemsOk_not_task {s : State} (hi : P2.ItemsOk s) {u : Nat} (hk : (view s u).kind = .task) :
    ∀ b ∈ s.batches, u ∉ b.items := by
  intro b hb hm
  have := hi b hb u hm
  have hk' : (s.fut u).kind = .task := hk
  rw [hk'] at this
  cases this

/-! ### scheduler-side steps -/

theorem lstep_desc {s : State} (h : Good s) (hng : ∀ t old rest, s.ctl ≠ .gen t old :: rest)
    (d : Desc s (step s)) (hg : (step s).guardFired = false) : LStep s (step s) := by
  have hs := h.stuck
  have hr := h.raising
  have hI : P2.ItemsOk s := (P2.pinv_reach h.ws.reach).items
  have hcm : ∀ f, s.computed f = true → (step s).computed f = true := fun f hf => d.computed_mono hf
  refine ⟨hcm, ?_, root_keep hs hr hg d, ?_, ?_⟩
  · -- awaiting edges
    intro u x hux _
    refine aw_of_tasks ?_ u x hux
    intro u hk
    have same : view (step s) u = view s u → SEq3 (view s u) (view (step s) u) := fun e => by
      rw [e]; exact ⟨rfl, rfl, rfl⟩
    have hlt : u < s.futs.length := lt_of_view_task s u hk
    cases d with
    | quiet e _ _ => exact same (e.view u)
    | top conv body rest _ _ U _ _ => exact same (U.viewO u (Nat.ne_of_lt hlt))
    | ret _ _ _ e _ _ => exact same (e.view u)
    | enterLoop _ _ _ _ e _ _ => exact same (e.view u)
    | pop _ _ _ _ _ e _ _ => exact same (e.view u)
    | popLazy _ top st _ lo hkl _ U _ _ =>
      rcases U.view_cases u with ⟨rfl, e⟩ | ⟨_, e⟩
      · rw [hkl] at hk; cases hk
      · exact same e
    | second _ top st _ _ _ _ _ U _ _ =>
      rcases U.view_cases u with ⟨rfl, e⟩ | ⟨_, e⟩
      · rw [e]; exact ⟨rfl, rfl, rfl⟩
      · exact same e
    | first _ top st _ _ _ _ _ U _ _ =>
      rcases U.view_cases u with ⟨rfl, e⟩ | ⟨_, e⟩
      · rw [e]; exact ⟨rfl, rfl, rfl⟩
      · exact same e
    | enterGen _ _ _ _ _ _ _ e _ _ _ => exact same (e.view u)
    | gen t old rest hctl0 _ => exact absurd hctl0 (hng t old rest)
    | flush root base rest hctl0 hlen hroot F _ =>
      have e := step_waitLoop_flush s hs hr hctl0 hlen hroot
      refine same ?_
      rw [e]
      exact (schedulerFlush_only s root).1 u (itemsOk_not_task hI hk)
  · -- started tasks
    intro t ht
    rcases su_back d t ht with h1 | ⟨old, rest, h1⟩
    · exact Or.inl h1
    · exact absurd h1 (hng t old rest)
  · -- the stack
    intro x hx
    cases d with
    | quiet e hst _ => rw [hst] at hx; exact Or.inl hx
    | top conv body rest _ _ U _ _ => rw [U.stack] at hx; exact Or.inl hx
    | ret _ _ _ e hst _ => rw [hst] at hx; exact Or.inl hx
    | enterLoop root rest hctl0 _ e hst hctl =>
      rw [hst] at hx
      rcases List.mem_cons.1 hx with e1 | e1
      · subst e1
        exact Or.inr (Or.inl ⟨.waitLoop x s.stack.length, by rw [hctl]; exact List.mem_cons_self, rfl⟩)
      · exact Or.inl e1
    | pop _ top st hstk _ e hst _ => rw [hst] at hx; rw [hstk]; exact Or.inl (List.mem_cons_of_mem _ hx)
    | popLazy _ top st hstk lo _ _ U hst _ => rw [hst] at hx; rw [hstk]; exact Or.inl (List.mem_cons_of_mem _ hx)
    | second _ top st hstk _ _ _ _ U hst _ => rw [hst] at hx; rw [hstk]; exact Or.inl (List.mem_cons_of_mem _ hx)
    | first _ top st hstk hk hc _ _ U hst _ =>
      rw [hst] at hx
      rcases List.mem_append.1 hx with e1 | e1
      · have hxd : x ∈ (view s top).deps := (List.mem_filter.1 (List.mem_reverse.1 e1)).1
        refine Or.inr (Or.inr ⟨top, ?_⟩)
        unfold Aw
        rw [U.viewT]
        exact ⟨hk, out_none_of_uncomputed hc, hxd⟩
      · exact Or.inl e1
    | enterGen _ _ _ _ _ _ _ e hst _ _ => rw [hst] at hx; exact Or.inl hx
    | gen t old rest hctl0 _ => exact absurd hctl0 (hng t old rest)
    | flush _ _ _ _ _ _ F _ => rw [F.stack] at hx; exact Or.inl hx

/-! ### instructions -/

theorem upd1_comp {s r : State} {t : Nat} {v' : FV} (U : Upd1 s r t v')
    (ho : (view s t).out ≠ none → v'.out ≠ none) {f : Nat} (h : s.computed f = true) : r.computed f = true := by
  rcases U.toS.view_cases f with ⟨rfl, e⟩ | ⟨_, e⟩
  · rw [computed_eq_view, e]
    have : (view s f).out ≠ none := by
      intro hn; rw [computed_eq_view, hn] at h; cases h
    cases hv : v'.out with
    | none => exact absurd hv (ho this)
    | some _ => rfl
  · rw [computed_of_view e]; exact h

theorem upd2_comp {s r : State} {t : Nat} {v' nv : FV} (U : Upd2 s r t v' nv)
    (ho : v'.out = (view s t).out) {f : Nat} (h : s.computed f = true) : r.computed f = true := by
  have hlt : f < s.futs.length := computed_lt h
  rcases U.view_cases f with ⟨rfl, e⟩ | ⟨rfl, _⟩ | ⟨_, _, e⟩
  · rw [computed_eq_view, e, ho]; exact h
  · exact absurd hlt (Nat.lt_irrefl _)
  · rw [computed_of_view e]; exact h

theorem GD.comp {s r : State} {t : Nat} (d : GD s r t) {f : Nat} (h : s.computed f = true) : r.computed f = true := by
  cases d with
  | start hp hs hu => exact upd1_comp hu (fun hn => hn) h
  | loc v' hu hkind hout hpend hstart hnf hbs hsame hdeps => exact upd1_comp hu (fun hn => by rw [hout]; exact hn) h
  | spawn child k pass hb hp hu hbat hnc hnk => exact upd2_comp hu rfl h
  | item kind payload mode k seq hb hp hu hbat hnk => exact upd2_comp hu rfl h
  | other k kd out hb hp hu hbat hnk hkd => exact upd2_comp hu rfl h
  | yield npy nd leave hp hu => exact upd1_comp hu (fun hn => hn) h
  | finish o hp hu => exact upd1_comp hu (fun _ => by simp [finishView]) h
  | sync child k hh pass hb hp hu hbat hnc hnk hnh => exact upd2_comp hu rfl h
  | syncfut rf k hh s1 hb hp hu F hnk hnh hT => exact F.computed_mono (upd1_comp hu (fun hn => hn) h)

theorem lstep_gd {s : State} (h : Good s) {t : Nat} {old : Option Nat} {rest : List Ctl}
    (hctl : s.ctl = .gen t old :: rest) (d : GD s (s.genStep t old) t) : LStep s (s.genStep t old) := by
  have pin := P2.pinv_reach h.ws.reach
  have hI : P2.ItemsOk s := pin.items
  have htm : t ∈ P2.gens s.ctl := by rw [hctl]; simp [P2.gens]
  have hgnb : ∀ x ∈ (view s t).deps, s.computed x = true := pin.gnb t htm
  have hcm : ∀ f, s.computed f = true → (s.genStep t old).computed f = true := fun f hf => d.comp hf
  have hgs := P3.genStep_trans s t old
  have hstack : (s.genStep t old).stack = s.stack := by
    rcases hgs with h1 | h1 | ⟨f, h1⟩ <;> exact h1.stack
  have htstack : t ∈ s.stack := by
    have := h.cinv.disc
    rw [hctl] at this
    have h1 := this.1
    cases hst : s.stack with
    | nil => rw [hst] at h1; cases h1
    | cons a as =>
      rw [hst] at h1
      simp at h1
      rw [h1]
      exact List.mem_cons_self
  have htout := (h.gen hctl).2
  refine ⟨hcm, ?_, ?_, ?_, ?_⟩
  · -- awaiting edges
    intro u x hux hox
    by_cases e : u = t
    · subst e
      exfalso
      have := hcm x (hgnb x hux.2.2)
      rw [uncomputed_of_out_none hox] at this; cases this
    · have hlt : u < s.futs.length := lt_of_view_task s u hux.1
      have same : view (s.genStep t old) u = view s u → Aw (s.genStep t old) u x := fun e1 => by
        unfold Aw; rw [e1]; exact hux
      cases d with
      | start hp hs hu => exact same (hu.viewO u e)
      | loc v' hu hkind hout hpend hstart hnf hbs hsame hdeps => exact same (hu.viewO u e)
      | spawn child k pass hb hp hu hbat hnc hnk => exact same (hu.viewO u e (Nat.ne_of_lt hlt))
      | item kind payload mode k seq hb hp hu hbat hnk => exact same (hu.viewO u e (Nat.ne_of_lt hlt))
      | other k kd out hb hp hu hbat hnk hkd => exact same (hu.viewO u e (Nat.ne_of_lt hlt))
      | yield npy nd leave hp hu => exact same (hu.viewO u e)
      | finish o hp hu => exact same (hu.viewO u e)
      | sync child k hh pass hb hp hu hbat hnc hnk hnh => exact same (hu.viewO u e (Nat.ne_of_lt hlt))
      | syncfut rf k hh s1 hb hp hu F hnk hnh hT =>
        have hv1 : ∀ g, (view s1 g).kind = (view s g).kind := by
          intro g
          rcases hu.toS.view_cases g with ⟨rfl, e1⟩ | ⟨_, e1⟩
          · rw [e1]; rfl
          · rw [e1]
        have hI1 : P2.ItemsOk s1 := by
          intro b hb i hi
          rw [hu.batches] at hb
          have := hI b hb i hi
          have hk1 : (s1.fut i).kind = (s.fut i).kind := hv1 i
          rw [hk1]; exact this
        have e1 : view s1 u = view s u := hu.viewO u e
        exact same ((hT hI1 u (by rw [e1]; exact hux.1)).trans e1)
  · -- roots
    intro x ⟨c, hc, hx⟩ _
    rcases hgs with h1 | h1 | ⟨f, h1⟩
    · exact ⟨c, by rw [h1.ctl]; exact hc, hx⟩
    · rw [hctl] at hc
      rcases List.mem_cons.1 hc with e | e
      · subst e; cases hx
      · exact ⟨c, by rw [h1.ctl, hctl]; exact e, hx⟩
    · exact ⟨c, by rw [h1.ctl]; exact List.mem_cons_of_mem _ hc, hx⟩
  · -- started tasks
    intro t' ht'
    by_cases e : t' = t
    · subst e; exact Or.inr ⟨htstack, htout⟩
    · left
      have same : view (s.genStep t old) t' = view s t' → StartedU s t' := fun e1 => by
        unfold StartedU at ht' ⊢; rw [e1] at ht'; exact ht'
      have new : ∀ {v' nv : FV}, Upd2 s (s.genStep t old) t v' nv → (nv.kind ≠ .task ∨ nv.started = false) →
          StartedU s t' := by
        intro v' nv U hn
        rcases U.view_cases t' with ⟨e1, _⟩ | ⟨rfl, e1⟩ | ⟨_, _, e1⟩
        · exact absurd e1 e
        · exfalso
          unfold StartedU at ht'; rw [e1] at ht'
          rcases hn with hn | hn
          · exact hn ht'.1
          · rw [hn] at ht'; cases ht'.2.1
        · exact same e1
      cases d with
      | start hp hs hu => exact same (hu.viewO t' e)
      | loc v' hu hkind hout hpend hstart hnf hbs hsame hdeps => exact same (hu.viewO t' e)
      | spawn child k pass hb hp hu hbat hnc hnk => exact new hu (Or.inr rfl)
      | item kind payload mode k seq hb hp hu hbat hnk => exact new hu (Or.inl (by simp [plainView]))
      | other k kd out hb hp hu hbat hnk hkd =>
        refine new hu (Or.inl ?_)
        rcases hkd with ⟨e1, _⟩ | ⟨e1, _⟩ | ⟨⟨o, e1⟩, _⟩ <;> rw [e1] <;> simp [plainView]
      | yield npy nd leave hp hu => exact same (hu.viewO t' e)
      | finish o hp hu => exact same (hu.viewO t' e)
      | sync child k hh pass hb hp hu hbat hnc hnk hnh => exact new hu (Or.inr rfl)
      | syncfut rf k hh s1 hb hp hu F hnk hnh hT =>
        rcases F.view t' with e1 | ⟨_, o, e1⟩
        · exact same (e1.trans (hu.viewO t' e))
        · exfalso
          have := ht'.2.2
          rw [e1] at this
          simp [doneView] at this
  · -- the stack
    intro x hx
    rw [hstack] at hx
    exact Or.inl hx

/-! ### the run -/

structure GoodL (s : State) : Prop where
  good : Good s
  live : InvL s

theorem goodL_step {s : State} (h : GoodL s) (hst : (step s).stuck = none) (hg : (step s).guardFired = false) :
    GoodL (step s) := by
  refine ⟨good_step h.good hst hg, ?_⟩
  have hG := h.good
  by_cases hng : ∀ t old rest, s.ctl ≠ .gen t old :: rest
  · have d := step_desc s hG.stuck hG.raising hG.o.noNA (fun t old rest hc => absurd hc (hng t old rest)) hst hg
    exact invL_of h.live (lstep_desc hG hng d hg)
  · have : ∃ t old rest, s.ctl = .gen t old :: rest := by
      apply Classical.byContradiction
      intro hn
      exact hng (fun t old rest hc => hn ⟨t, old, rest, hc⟩)
    obtain ⟨t, old, rest, hctl⟩ := this
    have e := step_gen s hG.stuck hG.raising hctl
    rw [e] at hst ⊢
    exact invL_of h.live (lstep_gd hG hctl (genStep_gd s t old (hG.gen hctl).1 (hG.o.nf t) (hG.hinv.ws t) hst))

theorem goodL_runFuel {s : State} (h : GoodL s) (hg : ∀ n, (runFuel n s).guardFired = false) :
    ∀ n, (runFuel n s).stuck = none → GoodL (runFuel n s) := by
  intro n
  induction n with
  | zero => intro _; exact h
  | succ n ih =>
    intro hst
    rw [runFuel_succ'] at hst ⊢
    split
    · rename_i hd; rw [if_pos hd] at hst; exact ih hst
    · rename_i hd
      rw [if_neg hd] at hst
      have hs : (runFuel n s).stuck = none := P1.stuck_of_step _ hst
      have hg' : (step (runFuel n s)).guardFired = false := by
        have := hg (n + 1)
        rw [runFuel_succ', if_neg hd] at this
        exact this
      exact goodL_step (ih hs) hst hg'

theorem rankOf_le (s : State) (p : Nat → List Nat) (x : Nat) : P10.rankOf s p x ≤ s.futs.length := by
  unfold P10.rankOf
  have := List.countP_le_length (p := fun z => P10.plt (p z) (p x)) (l := List.range s.futs.length)
  simpa using this

/-- when no `wait_for` is in progress, no started task is uncompleted -/
theorem no_started_left {s : State} (h : GoodL s) (hctl : s.ctl = []) : ∀ t, ¬ StartedU s t := by
  obtain ⟨p, hp⟩ := h.good.hinv.path
  have hH := h.good.hinv
  have key : ∀ k t, s.futs.length - P10.rankOf s p t ≤ k → ¬ StartedU s t := by
    intro k
    induction k with
    | zero =>
      intro t hk ht
      rcases h.live.aw t ht with ⟨c, hc, _⟩ | ⟨u, hu⟩
      · rw [hctl] at hc; cases hc
      · have hn := hH.deps u t hu.2.2
        have hlt := P10.rankOf_lt hp (hH.named_lt hn) (hH.named_bound hn)
        have := rankOf_le s p u
        omega
    | succ k ih =>
      intro t hk ht
      rcases h.live.aw t ht with ⟨c, hc, _⟩ | ⟨u, hu⟩
      · rw [hctl] at hc; cases hc
      · have hn := hH.deps u t hu.2.2
        have hlt := P10.rankOf_lt hp (hH.named_lt hn) (hH.named_bound hn)
        have hsu : StartedU s u := by
          refine ⟨hu.1, h.good.o.sOfD u ?_, hu.2.1⟩
          intro e
          have := hu.2.2
          rw [e] at this; cases this
        exact ih u (by have := rankOf_le s p u; omega) hsu
  intro t
  exact key _ t (Nat.le_refl _)

end AsynqModel.Core.P20
