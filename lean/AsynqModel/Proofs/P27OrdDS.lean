import AsynqModel.Proofs.P27Step
import AsynqModel.Proofs.P5Frame
import AsynqModel.Proofs.P10Flag
import AsynqModel.Proofs.P15OrdB
/-!
  P27, C03 (start-order clause) part 1: the invariant `DS` - every task-dependency of a flagged (`_dependencies_scheduled`)
  uncomputed entry of the task stack has STARTED or lies ABOVE that entry.  In particular, when a blocked task is visited for
  the second time (it is on top of the stack) all its dependencies have started: this is what keeps the mentions of the
  start-order observer live (`P15.Q.q9`) when the task is failed by `NonAsyncContext.pause()`.
-/
namespace AsynqModel.Core.P27
open AsynqModel.Core P5

theorem leaveGen_flag (a : State) (t : Nat) (old : Option Nat) (ht : t < a.futs.length) :
    ((a.leaveGen t old).task t).depsSched = false := by
  have e : (a.leaveGen t old).task t = (a.updTask t fun ts => { ts with depsSched := false }).task t := rfl
  rw [e, task_updTask_self _ _ _ ht]

theorem finishTask_flag (s : State) (t : Nat) (old : Option Nat) (o : Outcome) (ht : t < s.futs.length)
    (h : (s.finishTask t old o).ctl ≠ s.ctl) : ((s.finishTask t old o).task t).depsSched = false := by
  revert h
  unfold State.finishTask
  split
  · intro h; exact absurd rfl h
  · intro _
    refine leaveGen_flag _ t old ?_
    have h1 := (mono_exitAll s t).len
    simp only [State.complete, State.setFut, State.emit, List.length_set, updTask_len]
    omega

/-- whenever an instruction of the running task pops its generator frame, the task's `_dependencies_scheduled` flag
    is reset -/
theorem genStep_leave_flag (s : State) (t : Nat) (old : Option Nat) (rest : List Ctl) (hctl : s.ctl = .gen t old :: rest)
    (ht : t < s.futs.length) (hl : (s.genStep t old).ctl = rest) : ((s.genStep t old).task t).depsSched = false := by
  have hne : ∀ a : State, a.ctl = s.ctl → a.ctl ≠ rest := by
    intro a ha h
    rw [ha, hctl] at h
    have := congrArg List.length h
    simp at this
  have hne2 : ∀ (a : State) (c : Ctl), a.ctl = c :: s.ctl → a.ctl ≠ rest := by
    intro a c ha h
    rw [ha, hctl] at h
    have := congrArg List.length h
    simp at this
    omega
  have fin : ∀ o, (s.finishTask t old o).ctl = rest → ((s.finishTask t old o).task t).depsSched = false := by
    intro o h
    exact finishTask_flag s t old o ht (by rw [h, hctl]; intro e; have := congrArg List.length e; simp at this)
  revert hl
  unfold State.genStep
  dsimp only
  split
  · split
    · intro hl; exact absurd hl (hne _ rfl)
    · split <;> intro hl <;> exact absurd hl (hne _ rfl)
  · split
    · exact fin _
    · exact fin _
    · exact fin _
    · exact fin _
    · intro hl; exact absurd hl (hne _ rfl)
    · -- item
      rename_i kind payload mode k hb
      cases hcb : s.curBatch? kind with
      | none =>
        dsimp only
        split
        · intro hl; exact absurd hl (hne _ rfl)
        · intro hl; exact absurd hl (hne _ rfl)
      | some b0 =>
        dsimp only
        split
        · intro hl; exact absurd hl (hne _ rfl)
        · intro hl; exact absurd hl (hne _ rfl)
    · intro hl; exact absurd hl (hne _ rfl)
    · intro hl; exact absurd hl (hne _ rfl)
    · intro hl; exact absurd hl (hne _ rfl)
    · -- yld
      rename_i y k h hb
      generalize (if s.cfg.keepDeps = true then (s.task t).deps else []) ++
        extractFutures (YS.mapLeaves (s.task t).resolve y) = nd
      split
      · intro hl; exact absurd hl (hne _ rfl)
      · intro _; exact leaveGen_flag _ t old (by simpa using ht)
    · -- reyld
      rename_i k h hb
      generalize (if s.cfg.keepDeps = true then (s.task t).deps else []) ++
        extractFutures (s.task t).prevY = nd
      split
      · intro hl; exact absurd hl (hne _ rfl)
      · intro _; exact leaveGen_flag _ t old (by simpa using ht)
    · intro hl; exact absurd hl (hne2 _ _ rfl)
    · -- syncfut
      split
      · intro hl; exact absurd hl (hne _ rfl)
      · split
        · intro hl; exact absurd hl (hne2 _ _ rfl)
        · split
          · split
            · intro hl; exact absurd hl (hne _ rfl)
            · intro hl
              exact absurd hl (hne _ (by rw [(same_flushBatch _ _ _).ctl]; rfl))
          · intro hl; exact absurd hl (hne _ rfl)
        · intro hl; exact absurd hl (hne _ rfl)
        · intro hl; exact absurd hl (hne _ rfl)
    · -- syncret
      split
      · intro hl; exact absurd hl (hne _ rfl)
      · intro hl; exact absurd hl (hne _ rfl)
      · intro hl; exact absurd hl (hne _ rfl)
    · -- withCtx
      intro hl
      rename_i c b k hb
      refine absurd hl (hne _ ?_)
      rw [updTask_ctl]
      exact (eqvK_withCtx s t c).ctl
    · -- endwith
      split
      · exact fin _
      · intro hl
        exact absurd hl (hne _ (by show (s.ctxExit _).ctl = s.ctl; exact (same_ctxExit s _).ctl))
    · intro hl
      exact absurd hl (hne _ (by show (s.svTouch _).ctl = s.ctl; exact (same_svTouch s _).ctl))
    · intro hl; exact absurd hl (hne _ rfl)

/-! ### `_dependencies` of a flagged task only shrink -/

theorem step_gen_cases (s : State) {t : Nat} {old : Option Nat} {rest : List Ctl} (hctl : s.ctl = .gen t old :: rest) :
    (step s).ctl = .gen t old :: rest ∨ step s = s.genStep t old := by
  by_cases hs : s.stuck.isSome = true
  · left
    rw [P3.step_of_stuck s (by intro e; rw [e] at hs; cases hs)]; exact hctl
  · unfold step
    rw [if_neg hs]
    simp only [hctl]
    generalize (s.raising.isSome && !(match (s.task t).body with
      | .syncret _ _ _ => !(s.task t).pending | _ => false)) = cnd
    cases cnd with
    | true => left; simp only [if_true]; exact hctl
    | false => right; simp

/-- the dependencies of a task whose flag is set after the step were its dependencies before the step (a yield that
    installs new dependencies resets the flag: `leaveGen`) -/
theorem deps_step {s : State} (h : Reach s) (f : Nat) (hf : ((step s).task f).depsSched = true) :
    ∀ d ∈ ((step s).task f).deps, d ∈ (s.task f).deps := by
  have pin := P2.pinv_reach h
  have quiet : P2.QuietF s (step s) → ∀ d ∈ ((step s).task f).deps, d ∈ (s.task f).deps := by
    intro q d hd
    rcases (q.fut f).ly with ⟨_, e⟩ | ⟨_, e, _⟩
    · have : ((step s).task f).deps = (s.task f).deps := e
      rw [this] at hd; exact hd
    · have : ((step s).task f).deps = [] := e
      rw [this] at hd; cases hd
  cases P2.step_kind s pin.items pin.genKind pin.z with
  | quiet q _ => exact quiet q.toQuietF
  | push q _ _ _ _ _ _ _ _ _ _ _ _ => exact quiet q.toQuietF
  | run0 t old rest g h1 _ _ hg c _ _ =>
    intro d hd
    have ht : t < s.futs.length := P2.lt_of_kind s t (by rw [pin.genKind t (by rw [h1]; simp [P2.gens])]; intro e; cases e)
    by_cases e : f = t
    · subst e
      rw [c.task_self ht] at hd
      exact (hg _).2.2.2.2 d hd
    · rw [c.task_ne e] at hd; exact hd
  | run t old rest g o h1 _ _ _ hg c _ _ =>
    intro d hd
    have ht : t < s.futs.length := P2.lt_of_kind s t (by rw [pin.genKind t (by rw [h1]; simp [P2.gens])]; intro e; cases e)
    by_cases e : f = t
    · subst e
      rw [c.task_self ht] at hd
      exact (hg _).2.2.2.2 d hd
    · rw [c.task_ne e] at hd; exact hd
  | yield t old rest g ry deps h1 hp hg _ c hc =>
    intro d hd
    have ht : t < s.futs.length := P2.lt_of_kind s t (by rw [pin.genKind t (by rw [h1]; simp [P2.gens])]; intro e; cases e)
    by_cases e : f = t
    · subst e
      rcases hc with ⟨_, _, h0⟩ | ⟨hcl, _⟩
      · rw [c.task_self ht, (hg _).2.2.2.2, h0] at hd; cases hd
      · exfalso
        rcases step_gen_cases s h1 with e1 | e1
        · rw [e1] at hcl
          have := congrArg List.length hcl
          simp at this
        · rw [e1] at hf hcl
          rw [genStep_leave_flag s f old rest h1 ht hcl] at hf
          cases hf
    · rw [c.task_ne e] at hd; exact hd

/-! ### the invariant -/

/-- every task-dependency of a flagged uncomputed stack entry has started or lies above the entry -/
def DS (s : State) : Prop :=
  ∀ pre x post, s.stack = pre ++ x :: post → (s.task x).depsSched = true → s.computed x = false →
    ∀ d ∈ (s.task x).deps, (s.fut d).kind = .task → (s.task d).started = true ∨ d ∈ pre

theorem DS_init (cfg : Cfg) (tops : List (Conv × Body)) (choices : List (Nat × Nat)) :
    DS (initState cfg tops choices) := by
  intro pre x post h
  cases pre <;> cases h

/-- what every step does to the fields `DS` reads -/
structure U (s r : State) : Prop where
  st : ∀ f, (s.task f).started = true → (r.task f).started = true
  comp : ∀ f, s.computed f = true → r.computed f = true
  kind : ∀ f, f < s.futs.length → (r.fut f).kind = (s.fut f).kind
  deps : ∀ f, (r.task f).depsSched = true → ∀ d ∈ (r.task f).deps, d ∈ (s.task f).deps
  dlt : ∀ f d, d ∈ (s.task f).deps → d < s.futs.length

/-- the stack is kept or grows at the top by entries that are not flagged; no flag is set, except possibly that of `t0`,
    for which the claim is shown separately -/
theorem DS_grow' {s r : State} (u : U s r) (ds : List Nat) (hst : r.stack = ds ++ s.stack) (t0 : Option Nat)
    (hfl : ∀ f, t0 ≠ some f → (r.task f).depsSched = true → (s.task f).depsSched = true)
    (hnew : ∀ x ∈ ds, (s.task x).depsSched = true → s.computed x = false → False)
    (htop : ∀ x, t0 = some x → ∀ pre post, r.stack = pre ++ x :: post → (r.task x).depsSched = true →
      r.computed x = false → ∀ d ∈ (r.task x).deps, (r.fut d).kind = .task → (r.task d).started = true ∨ d ∈ pre)
    (h : DS s) : DS r := by
  intro pre x post hs hx hcx d hd hk
  by_cases hxt : t0 = some x
  · exact htop x hxt pre post hs hx hcx d hd hk
  have hx0 := hfl x hxt hx
  have hcx0 : s.computed x = false := by
    cases hh : s.computed x
    · rfl
    · rw [u.comp x hh] at hcx; cases hcx
  have hd0 := u.deps x hx d hd
  have hk0 : (s.fut d).kind = .task := by rw [← u.kind d (u.dlt x d hd0)]; exact hk
  rw [hst] at hs
  have hxd : x ∉ ds := fun hm => hnew x hm hx0 hcx0
  obtain ⟨pre0, e1, e2⟩ := P6.split_append hs hxd
  rcases h pre0 x post e2 hx0 hcx0 d hd0 hk0 with h1 | h1
  · exact Or.inl (u.st d h1)
  · exact Or.inr (by rw [e1]; exact List.mem_append_right _ h1)

theorem DS_grow {s r : State} (u : U s r) (ds : List Nat) (hst : r.stack = ds ++ s.stack)
    (hfl : ∀ f, (r.task f).depsSched = true → (s.task f).depsSched = true)
    (hnew : ∀ x ∈ ds, (s.task x).depsSched = true → s.computed x = false → False) (h : DS s) : DS r :=
  DS_grow' u ds hst none (fun f _ => hfl f) hnew (fun x hx => by cases hx) h

/-- the top of the stack is popped; if it is a task it has started -/
theorem DS_pop {s r : State} (u : U s r) {top : Nat} {stk : List Nat} (hst : s.stack = top :: stk) (hst' : r.stack = stk)
    (hfl : ∀ f, (r.task f).depsSched = true → (s.task f).depsSched = true)
    (htop : (s.fut top).kind = .task → (r.task top).started = true) (h : DS s) : DS r := by
  intro pre x post hs hx hcx d hd hk
  have hx0 := hfl x hx
  have hcx0 : s.computed x = false := by
    cases hh : s.computed x
    · rfl
    · rw [u.comp x hh] at hcx; cases hcx
  have hd0 := u.deps x hx d hd
  have hk0 : (s.fut d).kind = .task := by rw [← u.kind d (u.dlt x d hd0)]; exact hk
  rw [hst'] at hs
  rcases h (top :: pre) x post (by rw [hst, hs]; rfl) hx0 hcx0 d hd0 hk0 with h1 | h1
  · exact Or.inl (u.st d h1)
  · rcases List.mem_cons.1 h1 with e | e
    · left; rw [e]; exact htop (e ▸ hk0)
    · exact Or.inr e

/-! ### one step -/

theorem U_step {s : State} (h : P10.WSReach s) : U s (step s) := by
  have hi := (P10.ws_hinv h).1
  have base := (P10.ws_step_sh h).base (P10.ws_hinv h).2
  exact ⟨(P15.stepW_reach h.reach).st, base.comp, base.kind, fun f hf => deps_step h.reach f hf,
    fun f d hd => hi.named_bound (hi.deps f d hd)⟩

theorem executeIter_computed (s : State) {top : Nat} {stk : List Nat} (hst : s.stack = top :: stk)
    (hmax : ¬ s.stack.length > s.cfg.maxStack) (hc : s.computed top = true) : s.executeIter = s.popStack := by
  unfold State.executeIter
  rw [hst] at hmax ⊢
  dsimp only
  rw [if_neg hmax, if_pos hc]

theorem DS_fail {s : State} (m : String) (h : DS s) : DS (s.fail m) := h

theorem ne_cons_self {α : Type} (x : α) (l : List α) : l ≠ x :: l := by
  intro h
  have := congrArg List.length h
  simp at this

/-- the first visit of a blocked task, as an equation -/
theorem handleTask_first_eq (s : State) (t : Nat)
    (hbl : ((s.task t).deps.any fun d => !s.computed d) = true) (hfl : (s.task t).depsSched = false) :
    s.handleTask t =
      { ((s.updTask t fun ts => { ts with depsSched := true }).resumeContexts t) with
        stack := (((s.task t).deps.filter fun d =>
          !((s.updTask t fun ts => { ts with depsSched := true }).resumeContexts t).computed d).reverse) ++
            ((s.updTask t fun ts => { ts with depsSched := true }).resumeContexts t).stack } := by
  unfold State.handleTask
  simp only [hbl, hfl, if_true, Bool.false_eq_true, if_false]

/-- a task that is not blocked is continued (or the model gives up): the stack is kept, no flag is set -/
theorem handleTask_nb_facts (s : State) (t : Nat) (hb : ((s.task t).deps.any fun d => !s.computed d) = false) :
    (s.handleTask t).stack = s.stack ∧ ∀ f, ((s.handleTask t).task f).depsSched = true → (s.task f).depsSched = true := by
  unfold State.handleTask
  simp only [hb, Bool.false_eq_true, if_false]
  split
  · exact ⟨rfl, fun f h => h⟩
  · exact ⟨(same_resumeContexts s t).stack, fun f h => sched_resumeContexts s t f h⟩

theorem DS_step {s : State} (h : P10.WSReach s) (hg : (step s).guardFired = false) (q : P15.Q s)
    (qr : P15.Q (step s)) (ds0 : DS s) : DS (step s) := by
  by_cases hs : s.stuck = none
  case neg => rw [P3.step_of_stuck s hs]; exact ds0
  have hg0 := P3.guard_mono s hg
  have hi := (P10.ws_hinv h).1
  have ci := P10.ws_cinv h hg0
  have u := U_step h
  have keep : P10.HP s (step s) → DS (step s) := fun hp =>
    DS_grow u [] (by rw [hp.stack]; rfl) hp.sched (fun x hx => by cases hx) ds0
  cases P10.ws_step_sh h with
  | same hp c => exact keep hp
  | top f hc hp c hf => exact keep (hp (P10.ws_hinv h).2)
  | popRaise hr hp c => exact keep hp
  | popEnter root rest hc hp c => exact keep hp
  | enterLoop root rest hc hr hp sched c st =>
    refine DS_grow u [root] (by rw [st]; rfl) sched ?_ ds0
    intro x hx h1 h2
    simp only [List.mem_singleton] at hx
    subst hx
    exact hi.irrefl x (ci.enter x rest hc x ⟨h1, h2⟩)
  | guard root base rest hc e =>
    rw [e] at hg
    simp [P3.guardReset, State.raiseOutOfWait] at hg
  | popStack root base rest top st hc hr hlen hst hp sched c st' hpop =>
    refine DS_pop u hst st' sched ?_ ds0
    intro hk
    -- the popped task has started: it is computed, or it was visited for the second time
    cases hcs : s.computed top with
    | true =>
      exact u.st top (q.q2 top hk (by unfold State.computed at hcs; intro ho; rw [ho] at hcs; cases hcs))
    | false =>
      have e := P15.step_exec_task hs hr hc hlen hst hg hg0 hk hcs
      cases hb : ((s.task top).deps.any fun d => !s.computed d) with
      | false =>
        rw [e, P15.handle_stack_nb s top hb, hst] at st'
        exact absurd st'.symm (ne_cons_self top st)
      | true =>
        rw [List.any_eq_true] at hb
        obtain ⟨d, hd, _⟩ := hb
        cases hq : (s.task top).started with
        | true => exact u.st top hq
        | false => rw [q.q1 top hq] at hd; cases hd
  | pushDeps root base rest top st ds hc hr hlen hst hp hk hflag sched hds c st' =>
    -- the top of the stack is an uncomputed task at its first visit
    have hnc : s.computed top = false := by
      cases hcs : s.computed top with
      | false => rfl
      | true =>
        exfalso
        have e1 := P6T.step_waitLoop_iter s hs hr hc hlen
        by_cases hmax : s.stack.length > s.cfg.maxStack
        · rw [e1, P3.executeIter_guard s hmax] at hg
          simp [P3.guardReset, State.raiseOutOfWait] at hg
        · rw [e1, executeIter_computed s hst hmax hcs] at st'
          have := congrArg List.length st'
          simp [State.popStack, hst] at this
          omega
    have e := P15.step_exec_task hs hr hc hlen hst hg hg0 hk hnc
    cases hb : ((s.task top).deps.any fun d => !s.computed d) with
    | false =>
      -- not blocked: continued (or given up), no flag is set
      obtain ⟨h1, h2⟩ := handleTask_nb_facts s top hb
      rw [← e] at h1 h2
      exact DS_grow u [] (by rw [h1]; rfl) h2 (fun x hx => by cases hx) ds0
    | true =>
      have e2 := handleTask_first_eq s top hb hflag
      rw [← e] at e2
      generalize hs2 : (s.updTask top fun ts => { ts with depsSched := true }).resumeContexts top = s2 at e2
      have hs2stack : s2.stack = s.stack := by
        rw [← hs2, (same_resumeContexts _ top).stack]; rfl
      have hrstack : (step s).stack = ((s.task top).deps.filter fun d => !s2.computed d).reverse ++ s.stack := by
        rw [e2, hs2stack]
      have hrcomp : ∀ d, (step s).computed d = s2.computed d := by intro d; rw [e2]; rfl
      have hds' : ds = ((s.task top).deps.filter fun d => !s2.computed d).reverse :=
        List.append_cancel_right (st'.symm.trans hrstack)
      -- no pushed entry is flagged: it precedes `top`, which is above every flagged entry's first occurrence
      have hnew : ∀ x ∈ ds, (s.task x).depsSched = true → s.computed x = false → False := by
        intro x hx h1 h2
        have hxt : P10.lt s x top := hi.named_lt (hi.deps top x (hds x hx))
        obtain ⟨pre, post, hp1, hp2⟩ := ci.pos x ⟨h1, h2⟩
        rw [hst] at hp1
        cases pre with
        | nil =>
          simp at hp1
          rw [hp1.1] at hxt
          exact hi.irrefl x hxt
        | cons a pre' =>
          simp at hp1
          have : P10.lt s top x := by rw [hp1.1]; exact hp2 a List.mem_cons_self
          exact hi.irrefl x (P10.lt_trans hxt this)
      refine DS_grow' u ds st' (some top) (fun f hne => sched f (fun e' => hne (by rw [e']))) hnew ?_ ds0
      intro x hx pre post hsx hfx hcx d hd hk
      injection hx with hx
      subst hx
      have hd0 := u.deps top hfx d hd
      cases hcd : (step s).computed d with
      | true =>
        left
        exact qr.q2 d hk (by unfold State.computed at hcd; intro ho; rw [ho] at hcd; cases hcd)
      | false =>
        right
        have hdin : d ∈ ds := by
          rw [hds', List.mem_reverse, List.mem_filter]
          refine ⟨hd0, ?_⟩
          rw [← hrcomp d, hcd]; rfl
        have hxnd : top ∉ ds := by
          intro hm
          exact hi.irrefl top (hi.named_lt (hi.deps top top (hds top hm)))
        rw [st', hst] at hsx
        obtain ⟨pre0, e1, _⟩ := P6.split_append hsx hxnd
        rw [e1]; exact List.mem_append_left _ hdin
  | enterGen root base rest top st old hc hr hlen hst hp c => exact keep hp
  | reentrant root base rest top st hc hr hlen hst hin e => rw [e]; exact DS_fail _ ds0
  | popLoop root base rest hc hr hlen hp c => exact keep hp
  | flush root base rest hc hr hlen hp c => exact keep hp
  | genLeave t old rest hc hp c => exact keep hp
  | genCall t old rest f hc hp c n => exact keep hp

end AsynqModel.Core.P27
