import AsynqModel.Proofs.P10Heap
import AsynqModel.Proofs.P3Base
import AsynqModel.Proofs.P1Flush
/-
  P10, part 4: the heap-side helpers of the machine are "noise" for the acyclicity argument.

  `NZ s s'`: no future is created, every task keeps `own`, `inh`, `body`, `prevY`; `conts`, `deps`, `lastY` stay or are
  cleared; `depsSched` / `pending` are only reset; computed futures stay computed; control stack, task stack,
  `guardFired`, `raising`, `tops`, `stuck` do not change.
-/
namespace AsynqModel.Core.P10
open AsynqModel.Core

/-! ### the `fail` messages other than "re-entrant task" -/

/-- the `fail`s that are NOT excluded here: both concern the return from a synchronous `value()` call and need
    invariants of their own (the frame under a nested `wait_for` is a generator stopped at `syncret`; a flushed batch
    leaves its items computed); neither was ever seen in the pre-validation runs.
    Proved impossible for well-scoped programs: "re-entrant task", "flush of unknown batch", "no admissible batch",
    "unknown batch", "empty stack", "task completed twice", "no batch", "suspended task is not at a yield",
    "uncomputed constant future". -/
def benignMsgs : List String :=
  ["value() returned without an outcome", "exception reached a generator that is not in a synchronous call"]

def Benign (m : String) : Prop := m ∈ benignMsgs ∨ ∃ a b : Nat, m = s!"choice-not-allowed ({a} {b})"

theorem Benign.ne_reentrant {m : String} (h : Benign m) : m ≠ "re-entrant task" := by
  rcases h with h | ⟨a, b, rfl⟩
  · intro e; subst e; revert h; decide
  · intro h
    have := congrArg String.length h
    simp only [String.length_append] at this
    have h1 : (toString "choice-not-allowed (").length = 20 := by decide
    have h2 : ("re-entrant task" : String).length = 15 := by decide
    omega

theorem benign_of_mem {m : String} (h : m ∈ benignMsgs) : Benign m := Or.inl h

structure NZ (s s' : State) : Prop where
  len : s'.futs.length = s.futs.length
  ts : ∀ f, TsKeep (s.task f) (s'.task f)
  comp : ∀ f, s.computed f = true → s'.computed f = true
  kind : ∀ f, (s'.fut f).kind = (s.fut f).kind
  ctl : s'.ctl = s.ctl
  stack : s'.stack = s.stack
  guard : s'.guardFired = s.guardFired
  raising : s'.raising = s.raising
  tops : s'.tops = s.tops
  stuck : s'.stuck = s.stuck

theorem NZ.refl (s : State) : NZ s s :=
  ⟨rfl, fun _ => TsKeep.refl _, fun _ h => h, fun _ => rfl, rfl, rfl, rfl, rfl, rfl, rfl⟩

theorem NZ.trans {a b c : State} (h1 : NZ a b) (h2 : NZ b c) : NZ a c where
  len := h2.len.trans h1.len
  ts := fun f => (h1.ts f).trans (h2.ts f)
  comp := fun f h => h2.comp f (h1.comp f h)
  kind := fun f => (h2.kind f).trans (h1.kind f)
  ctl := h2.ctl.trans h1.ctl
  stack := h2.stack.trans h1.stack
  guard := h2.guard.trans h1.guard
  raising := h2.raising.trans h1.raising
  tops := h2.tops.trans h1.tops
  stuck := h2.stuck.trans h1.stuck

theorem nz_of_futs {s s' : State} (hf : s'.futs = s.futs) (hc : s'.ctl = s.ctl) (hs : s'.stack = s.stack)
    (hg : s'.guardFired = s.guardFired) (hr : s'.raising = s.raising) (ht : s'.tops = s.tops)
    (hst : s'.stuck = s.stuck) : NZ s s' := by
  have hfut : ∀ f, s'.fut f = s.fut f := fun f => by unfold State.fut; rw [hf]
  refine ⟨by rw [hf], fun f => ?_, fun f h => ?_, fun f => by rw [hfut], hc, hs, hg, hr, ht, hst⟩
  · unfold State.task; rw [hfut]; exact TsKeep.refl _
  · unfold State.computed State.out at h ⊢; rw [hfut]; exact h

theorem nz_emit (s : State) (e : Event) : NZ s (s.emit e) := nz_of_futs rfl rfl rfl rfl rfl rfl rfl

theorem nz_updBatch (s : State) (k q : Nat) (g : Batch → Batch) : NZ s (s.updBatch k q g) :=
  nz_of_futs rfl rfl rfl rfl rfl rfl rfl

theorem nz_svSet (s : State) (var val : Nat) : NZ s (s.svSet var val) := by
  unfold State.svSet
  split <;> exact nz_of_futs rfl rfl rfl rfl rfl rfl rfl

theorem nz_svTouch (s : State) (var : Nat) : NZ s (s.svTouch var) := by
  unfold State.svTouch
  split
  · exact NZ.refl _
  · exact nz_of_futs rfl rfl rfl rfl rfl rfl rfl

theorem task_updTask (s : State) (t f : Nat) (g : TaskSt → TaskSt) :
    (s.updTask t g).task f = if f = t ∧ t < s.futs.length then g (s.task t) else s.task f := by
  unfold State.task
  rw [P2.fut_updTask]
  split <;> rfl

theorem task_updTask_ne (s : State) (t f : Nat) (g : TaskSt → TaskSt) (h : f ≠ t) :
    (s.updTask t g).task f = s.task f := by
  rw [task_updTask]; simp [h]

theorem task_updTask_self (s : State) (t : Nat) (g : TaskSt → TaskSt) (h : t < s.futs.length) :
    (s.updTask t g).task t = g (s.task t) := by
  rw [task_updTask]; simp [h]

theorem nz_updTask (s : State) (t : Nat) (g : TaskSt → TaskSt) (hg : ∀ ts, TsKeep ts (g ts)) :
    NZ s (s.updTask t g) := by
  refine ⟨by simp, fun f => ?_, fun f h => by simpa using h, fun f => by simp, rfl, rfl, rfl, rfl, rfl, rfl⟩
  rw [task_updTask]
  split
  · rename_i h; rw [h.1]; exact hg _
  · exact TsKeep.refl _

theorem task_complete (s : State) (f g : Nat) (o : Outcome) :
    (s.complete f o).task g =
      if g = f ∧ f < s.futs.length then
        { (if s.cfg.keepDeps then (s.task f) else { (s.task f) with deps := [] }) with lastY := .none, deps := [] }
      else s.task g := by
  unfold State.task
  rw [P2.fut_complete]
  split <;> rfl

theorem computed_complete (s : State) (f g : Nat) (o : Outcome) :
    (s.complete f o).computed g = if g = f ∧ f < s.futs.length then true else s.computed g := by
  unfold State.computed
  rw [P2.out_complete]
  split <;> rfl

theorem nz_complete (s : State) (f : Nat) (o : Outcome) : NZ s (s.complete f o) := by
  refine ⟨by simp [State.complete], fun g => ?_, fun g h => ?_, fun g => ?_, rfl, rfl, rfl, rfl, rfl, rfl⟩
  · rw [task_complete]
    split
    · rename_i h; rw [h.1]
      split <;> exact ⟨rfl, rfl, rfl, .inl rfl, .inr rfl, .inr rfl, rfl, id, id, rfl⟩
    · exact TsKeep.refl _
  · rw [computed_complete]; split
    · rfl
    · exact h
  · rw [P2.fut_complete]; split
    · rename_i h; rw [h.1]
    · rfl

theorem nz_ctxSetResumed (s : State) (c : Nat) (r : Bool) : NZ s (s.ctxSetResumed c r) := by
  unfold State.ctxSetResumed
  split
  · exact nz_of_futs rfl rfl rfl rfl rfl rfl rfl
  · exact NZ.refl _

theorem nz_ctxResumeOne (s : State) (c : Nat) : NZ s (s.ctxResumeOne c) := by
  unfold State.ctxResumeOne
  have h0 : NZ s ((s.emit (.ctx true c)).ctxSetResumed c true) := (nz_emit s _).trans (nz_ctxSetResumed _ _ _)
  refine h0.trans ?_
  generalize (s.emit (.ctx true c)).ctxSetResumed c true = s1
  dsimp only
  split
  · split
    · exact NZ.trans (nz_svSet s1 _ _) (nz_of_futs rfl rfl rfl rfl rfl rfl rfl)
    · exact NZ.refl _
  · exact NZ.refl _

theorem nz_ctxPauseOne (s : State) (c : Nat) : NZ s (s.ctxPauseOne c) := by
  unfold State.ctxPauseOne
  have h0 : NZ s ((s.emit (.ctx false c)).ctxSetResumed c false) := (nz_emit s _).trans (nz_ctxSetResumed _ _ _)
  refine h0.trans ?_
  generalize (s.emit (.ctx false c)).ctxSetResumed c false = s1
  dsimp only
  split
  · split
    · exact nz_svSet s1 _ _
    · exact NZ.refl _
  · exact NZ.refl _

theorem keep_ctxs (l : List Nat) (ts : TaskSt) : TsKeep ts { ts with ctxs := l } :=
  ⟨rfl, rfl, rfl, .inl rfl, .inl rfl, .inl rfl, rfl, id, id, rfl⟩

theorem keep_conts_nil (ts : TaskSt) : TsKeep ts { ts with conts := [] } :=
  ⟨rfl, rfl, rfl, .inr rfl, .inl rfl, .inl rfl, rfl, id, id, rfl⟩

theorem keep_pending_false (ts : TaskSt) : TsKeep ts { ts with pending := false } :=
  ⟨rfl, rfl, rfl, .inl rfl, .inl rfl, .inl rfl, rfl, id, (fun h => by cases h), rfl⟩

theorem keep_ctxActive (b : Bool) (ts : TaskSt) : TsKeep ts { ts with ctxActive := b } :=
  ⟨rfl, rfl, rfl, .inl rfl, .inl rfl, .inl rfl, rfl, id, id, rfl⟩

theorem keep_sched_false (ts : TaskSt) : TsKeep ts { ts with depsSched := false } :=
  ⟨rfl, rfl, rfl, .inl rfl, .inl rfl, .inl rfl, rfl, (fun h => by cases h), id, rfl⟩

theorem nz_ctxExitAux (s : State) (c : Nat) (owner : Option Nat) : NZ s (P3.ctxExitAux s c owner) := by
  unfold P3.ctxExitAux
  refine NZ.trans ?_ (nz_emit _ _)
  cases owner <;> dsimp only
  · split
    · exact NZ.refl _
    · exact nz_ctxPauseOne _ _
  · split
    · exact nz_updTask _ _ _ (fun ts => keep_ctxs _ ts)
    · exact (nz_updTask _ _ _ (fun ts => keep_ctxs _ ts)).trans (nz_ctxPauseOne _ _)

theorem nz_ctxExit (s : State) (c : Nat) : NZ s (s.ctxExit c) := by
  rw [P3.ctxExit_eq]
  exact nz_ctxExitAux _ _ _

theorem nz_foldl {α : Type} (g : State → α → State) (hg : ∀ s a, NZ s (g s a)) (l : List α) (s : State) :
    NZ s (l.foldl g s) := by
  induction l generalizing s with
  | nil => exact NZ.refl _
  | cons a l ih => exact (hg s a).trans (ih _)

theorem nz_exitAll (s : State) (t : Nat) : NZ s (s.exitAll t) := by
  unfold State.exitAll
  exact (nz_foldl (fun s (p : Nat × Body) => s.ctxExit p.1) (fun s p => nz_ctxExit s p.1) _ s).trans
    (nz_updTask _ _ _ keep_conts_nil)

theorem nz_failSuspended (s : State) (t : Nat) (e : Err) : NZ s (s.failSuspended t e) := by
  unfold State.failSuspended
  split
  · exact NZ.refl _
  · exact ((nz_exitAll s t).trans (nz_updTask _ _ _ keep_pending_false)).trans (nz_complete _ _ _)

theorem nz_resumeContexts (s : State) (t : Nat) : NZ s (s.resumeContexts t) := by
  unfold State.resumeContexts
  dsimp only
  split
  · exact NZ.refl _
  · have h : NZ s ((s.task t).ctxs.foldl (fun s c => if s.ctxIsNonAsync c then s else s.ctxResumeOne c)
        (s.updTask t fun ts => { ts with ctxActive := true })) :=
      (nz_updTask s t _ (keep_ctxActive true)).trans (nz_foldl _ (fun s c => by
        split
        · exact NZ.refl _
        · exact nz_ctxResumeOne _ _) _ _)
    split
    · exact h.trans (nz_failSuspended _ _ _)
    · exact h

theorem nz_pauseContexts (s : State) (t : Nat) : NZ s (s.pauseContexts t) := by
  unfold State.pauseContexts
  dsimp only
  split
  · exact NZ.refl _
  · have h : NZ s ((s.task t).ctxs.reverse.foldl (fun s c => if s.ctxIsNonAsync c then s else s.ctxPauseOne c)
        (s.updTask t fun ts => { ts with ctxActive := false })) :=
      (nz_updTask s t _ (keep_ctxActive false)).trans (nz_foldl _ (fun s c => by
        split
        · exact NZ.refl _
        · exact nz_ctxPauseOne _ _) _ _)
    split
    · exact h.trans (nz_failSuspended _ _ _)
    · exact h

theorem nz_switchActive (s : State) (k q : Nat) : NZ s (s.switchActive k q) := by
  unfold State.switchActive
  split
  · split
    · exact nz_of_futs rfl rfl rfl rfl rfl rfl rfl
    · exact NZ.refl _
  · exact NZ.refl _

theorem nz_flushItems (s : State) (kind : Nat) (l : List Nat) : NZ s (s.flushItems kind l) := by
  induction l generalizing s with
  | nil => exact NZ.refl _
  | cons i is ih =>
    unfold State.flushItems
    refine NZ.trans ?_ (ih _)
    split
    · exact NZ.refl _
    · split
      · exact nz_complete _ _ _
      · exact nz_complete _ _ _
      · exact NZ.refl _

theorem nz_finishItems (s : State) (e : Err) (l : List Nat) : NZ s (s.finishItems e l) := by
  induction l generalizing s with
  | nil => exact NZ.refl _
  | cons i is ih =>
    unfold State.finishItems
    refine NZ.trans ?_ (ih _)
    split
    · exact NZ.refl _
    · exact nz_complete _ _ _

/-- `BatchBase.flush()` of a batch that exists -/
theorem nz_flushBatch (s : State) (k q : Nat) (b : Batch) (hb : s.batch? k q = some b) : NZ s (s.flushBatch k q) := by
  unfold State.flushBatch
  rw [hb]
  dsimp only
  exact ((((nz_switchActive s k q).trans (nz_emit _ _)).trans (nz_flushItems _ _ _)).trans
    (nz_finishItems _ _ _)).trans ((nz_emit _ _).trans (nz_updBatch _ _ _ _))

end AsynqModel.Core.P10
