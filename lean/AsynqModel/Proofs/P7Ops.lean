import AsynqModel.Proofs.P7Lifo
/-!
  P7: what the context operations of the machine do when no NonAsyncContext exists (`NA`): exact normal forms of
  `resumeContexts`, `pauseContexts`, `ctxExit`, and the relation `Op s s' t cs b` ("only task `t` and the context
  objects `cs` changed; the flags of `cs` are now `b`").
-/
namespace AsynqModel.Core.P7
open AsynqModel.Core P5

theorem na_isNonAsync {s : State} (h : NA s) (c : Nat) : s.ctxIsNonAsync c = false := by
  unfold State.ctxIsNonAsync
  cases hx : s.ctxs[c]? with
  | none => rfl
  | some x => simpa using h c x hx

theorem na_of_isNonAsync {s : State} (h : ∀ c, s.ctxIsNonAsync c = false) : NA s := by
  intro c x hx hk
  have := h c
  unfold State.ctxIsNonAsync at this
  rw [hx] at this
  simp [hk] at this

theorem na_congr {s s' : State} (h : ∀ c, s'.ctxIsNonAsync c = s.ctxIsNonAsync c) (hna : NA s) : NA s' :=
  na_of_isNonAsync fun c => by rw [h]; exact na_isNonAsync hna c

theorem na_of_ctxs {s s' : State} (h : s'.ctxs = s.ctxs) (hna : NA s) : NA s' := by
  intro c x hx; rw [h] at hx; exact hna c x hx

theorem any_na {s : State} (h : NA s) (l : List Nat) : l.any s.ctxIsNonAsync = false := by
  rw [List.any_eq_false]
  intro c _
  simp [na_isNonAsync h c]

/-! ### `Op` -/

structure Op (s s' : State) (t : Nat) (cs : List Nat) (b : Bool) : Prop where
  stack : s'.stack = s.stack
  len : s'.futs.length = s.futs.length
  tne : ∀ u, u ≠ t → s'.task u = s.task u
  kind : ∀ f, (s'.fut f).kind = (s.fut f).kind
  cne : ∀ f, f ≠ t → s'.computed f = s.computed f
  clen : s.ctxs.length ≤ s'.ctxs.length
  ene : ∀ c, c ∉ cs → c < s.ctxs.length → s'.ctxs[c]? = s.ctxs[c]?
  eb : ∀ c ∈ cs, ∀ x', s'.ctxs[c]? = some x' → x'.resumed = b
  new : ∀ c, s.ctxs.length ≤ c → c < s'.ctxs.length → c ∈ cs
  ko : ∀ (c : Nat) (x : CtxSt), s.ctxs[c]? = some x → ∃ x', s'.ctxs[c]? = some x' ∧ x'.kind = x.kind ∧ x'.owner = x.owner
  tr : ∃ evs, s'.trace = evs ++ s.trace ∧ ∀ e ∈ evs, nosv e = true

theorem Op.trans {s s1 s2 : State} {t : Nat} {cs1 cs2 : List Nat} {b : Bool} (h1 : Op s s1 t cs1 b)
    (h2 : Op s1 s2 t cs2 b) : Op s s2 t (cs1 ++ cs2) b := by
  refine ⟨h2.stack.trans h1.stack, h2.len.trans h1.len, fun u hu => (h2.tne u hu).trans (h1.tne u hu),
    fun f => (h2.kind f).trans (h1.kind f), fun f hf => (h2.cne f hf).trans (h1.cne f hf),
    Nat.le_trans h1.clen h2.clen, ?_, ?_, ?_, ?_, ?_⟩
  rotate_right
  · obtain ⟨e1, he1, hs1⟩ := h1.tr
    obtain ⟨e2, he2, hs2⟩ := h2.tr
    refine ⟨e2 ++ e1, by rw [he2, he1, List.append_assoc], ?_⟩
    intro e he
    rcases List.mem_append.1 he with h | h
    · exact hs2 e h
    · exact hs1 e h
  · intro c hc hlt
    have hc1 : c ∉ cs1 := fun h => hc (List.mem_append_left _ h)
    have hc2 : c ∉ cs2 := fun h => hc (List.mem_append_right _ h)
    rw [h2.ene c hc2 (Nat.lt_of_lt_of_le hlt h1.clen), h1.ene c hc1 hlt]
  · intro c hc x' hx'
    by_cases hc2 : c ∈ cs2
    · exact h2.eb c hc2 x' hx'
    · have hc1 : c ∈ cs1 := by
        rcases List.mem_append.1 hc with h | h
        · exact h
        · exact absurd h hc2
      have hlt : c < s1.ctxs.length := by
        rcases Nat.lt_or_ge c s1.ctxs.length with h | h
        · exact h
        · exact absurd (h2.new c h (lt_of_getElem?_some hx')) hc2
      rw [h2.ene c hc2 hlt] at hx'
      exact h1.eb c hc1 x' hx'
  · intro c hge hlt
    rcases Nat.lt_or_ge c s1.ctxs.length with h | h
    · exact List.mem_append_left _ (h1.new c hge h)
    · exact List.mem_append_right _ (h2.new c h hlt)
  · intro c x hx
    obtain ⟨x1, hx1, k1, o1⟩ := h1.ko c x hx
    obtain ⟨x2, hx2, k2, o2⟩ := h2.ko c x1 hx1
    exact ⟨x2, hx2, k2.trans k1, o2.trans o1⟩

/-- a change of the futures that keeps the other tasks, the kinds, the other `computed` flags -/
theorem Op.of_heap {s s' : State} (t : Nat) (b : Bool) (hst : s'.stack = s.stack) (hlen : s'.futs.length = s.futs.length)
    (htne : ∀ u, u ≠ t → s'.task u = s.task u) (hk : ∀ f, (s'.fut f).kind = (s.fut f).kind)
    (hc : ∀ f, f ≠ t → s'.computed f = s.computed f) (hx : s'.ctxs = s.ctxs)
    (htr : ∃ evs, s'.trace = evs ++ s.trace ∧ ∀ e ∈ evs, nosv e = true) : Op s s' t [] b :=
  ⟨hst, hlen, htne, hk, hc, by rw [hx]; exact Nat.le_refl _, fun c _ _ => by rw [hx], fun c hc => (by cases hc),
    fun c h1 h2 => (by rw [hx] at h2; omega), fun c x h => ⟨x, by rw [hx]; exact h, rfl, rfl⟩, htr⟩

theorem Op.of_futs {s s' : State} (t : Nat) (b : Bool) (hst : s'.stack = s.stack) (hf : s'.futs = s.futs)
    (hx : s'.ctxs = s.ctxs) (htr : ∃ evs, s'.trace = evs ++ s.trace ∧ ∀ e ∈ evs, nosv e = true) : Op s s' t [] b :=
  Op.of_heap t b hst (by rw [hf]) (fun u _ => by simp [State.task, State.fut, hf])
    (fun f => by simp [State.fut, hf]) (fun f _ => by simp [State.computed, State.out, State.fut, hf]) hx htr

theorem op_updTask (s : State) (t : Nat) (g : TaskSt → TaskSt) (b : Bool) : Op s (s.updTask t g) t [] b :=
  Op.of_heap t b rfl (by simp) (fun u hu => task_updTask_ne s t u g hu) (fun f => kind_updTask s t f g)
    (fun f _ => computed_updTask s t f g) rfl ⟨[], rfl, by simp⟩

theorem op_emit (s : State) (e : Event) (t : Nat) (b : Bool) (he : nosv e = true) : Op s (s.emit e) t [] b :=
  Op.of_futs t b rfl rfl rfl ⟨[e], rfl, by simpa using he⟩

theorem op_flag {s s' : State} {c : Nat} {b : Bool} (h : FlagOp s s' c b) (hs : Same s s') (t : Nat) :
    Op s s' t [c] b := by
  refine ⟨hs.stack, by rw [h.futs], fun u _ => h.task u, fun f => by simp [State.fut, h.futs],
    fun f _ => h.computed f, by rw [h.len]; exact Nat.le_refl _, fun c' hc' _ => h.ne c' (by simpa using hc'), ?_,
    fun c' h1 h2 => by rw [h.len] at h2; omega, ?_, ⟨[.ctx b c], h.trace, by simp [nosv]⟩⟩
  · intro c' hc' x' hx'
    simp only [List.mem_singleton] at hc'
    subst hc'
    have hlt : c' < s.ctxs.length := by rw [← h.len]; exact lt_of_getElem?_some hx'
    obtain ⟨x, hx⟩ := entry_of_lt hlt
    obtain ⟨y, hy, _, _, hr⟩ := h.eq x hx
    rw [hy] at hx'; cases hx'; exact hr
  · intro c' x hx
    by_cases hc : c' = c
    · subst hc
      obtain ⟨y, hy, hk, ho, _⟩ := h.eq x hx
      exact ⟨y, hy, hk, ho⟩
    · exact ⟨x, by rw [h.ne c' hc]; exact hx, rfl, rfl⟩

theorem op_flipOne (b : Bool) (s : State) (c t : Nat) (hna : s.ctxIsNonAsync c = false) :
    Op s (flipOne b s c) t [c] b := by
  rw [flipOne_na b s c hna]
  cases b with
  | true => exact op_flag (flagOp_resume s c) (same_resumeOne s c) t
  | false => exact op_flag (flagOp_pause s c) (same_pauseOne s c) t

theorem op_nil_refl (s : State) (t : Nat) (b : Bool) : Op s s t [] b := Op.of_futs t b rfl rfl rfl ⟨[], rfl, by simp⟩

theorem op_foldFlip (b : Bool) (t : Nat) (l : List Nat) : ∀ (s : State), (∀ c ∈ l, s.ctxIsNonAsync c = false) →
    Op s (l.foldl (flipOne b) s) t l b := by
  induction l with
  | nil => intro s _; exact op_nil_refl s t b
  | cons c l ih =>
    intro s h
    rw [List.foldl_cons]
    have := (op_flipOne b s c t (h c (by simp))).trans
      (ih (flipOne b s c) (fun c' hc' => by rw [isNonAsync_flipOne]; exact h c' (by simp [hc'])))
    simpa using this

/-- weakening of the list of touched contexts (flags as claimed for the new members) -/
theorem Op.perm {s s' : State} {t : Nat} {cs cs' : List Nat} {b : Bool} (h : Op s s' t cs b)
    (hp : ∀ c, c ∈ cs ↔ c ∈ cs') : Op s s' t cs' b :=
  ⟨h.stack, h.len, h.tne, h.kind, h.cne, h.clen, fun c hc => h.ene c (fun hm => hc ((hp c).1 hm)),
    fun c hc => h.eb c ((hp c).2 hc), fun c h1 h2 => (hp c).1 (h.new c h1 h2), h.ko, h.tr⟩

/-! ### `_resume_contexts` / `_pause_contexts` -/

theorem nf_resume (s : State) (t : Nat) (hna : NA s) (hact : (s.task t).ctxActive = false) :
    s.resumeContexts t =
      (s.task t).ctxs.foldl (flipOne true) (s.updTask t fun ts => { ts with ctxActive := true }) := by
  rw [resumeContexts_eq]
  simp only [hact, Bool.false_eq_true, if_false]
  have hany : (s.task t).ctxs.any ((s.task t).ctxs.foldl (flipOne true)
      (s.updTask t fun ts => { ts with ctxActive := true })).ctxIsNonAsync = false := by
    rw [List.any_eq_false]
    intro c _
    rw [isNonAsync_foldFlip]
    simp [show (s.updTask t fun ts => { ts with ctxActive := true }).ctxIsNonAsync c = s.ctxIsNonAsync c from rfl,
      na_isNonAsync hna c]
  rw [hany]; rfl

theorem nf_resume_active (s : State) (t : Nat) (hact : (s.task t).ctxActive = true) : s.resumeContexts t = s := by
  rw [resumeContexts_eq]; simp [hact]

theorem nf_pause (s : State) (t : Nat) (hna : NA s) (hact : (s.task t).ctxActive = true) :
    s.pauseContexts t =
      (s.task t).ctxs.reverse.foldl (flipOne false) (s.updTask t fun ts => { ts with ctxActive := false }) := by
  rw [pauseContexts_eq]
  simp only [hact, Bool.not_true, Bool.false_eq_true, if_false]
  have hany : (s.task t).ctxs.any ((s.task t).ctxs.reverse.foldl (flipOne false)
      (s.updTask t fun ts => { ts with ctxActive := false })).ctxIsNonAsync = false := by
    rw [List.any_eq_false]
    intro c _
    rw [isNonAsync_foldFlip]
    simp [show (s.updTask t fun ts => { ts with ctxActive := false }).ctxIsNonAsync c = s.ctxIsNonAsync c from rfl,
      na_isNonAsync hna c]
  rw [hany]; rfl

/-- what `_resume_contexts` / `_pause_contexts` of task `t` does when the flag `ctxActive` really flips -/
structure Flip (s s' : State) (t : Nat) (b : Bool) : Prop where
  op : Op s s' t (s.task t).ctxs b
  tctxs : (s'.task t).ctxs = (s.task t).ctxs
  tconts : (s'.task t).conts = (s.task t).conts
  tact : (s'.task t).ctxActive = b
  comp : ∀ f, s'.computed f = s.computed f
  na : NA s'
  ctl : s'.ctl = s.ctl
  guard : s'.guardFired = s.guardFired

theorem flip_resume (s : State) (t : Nat) (g : TaskSt → TaskSt) (hg1 : ∀ x, (g x).ctxs = x.ctxs)
    (hg2 : ∀ x, (g x).ctxActive = x.ctxActive) (hg3 : ∀ x, (g x).conts = x.conts) (hna : NA s)
    (ht : t < s.futs.length) (hact : (s.task t).ctxActive = false) :
    Flip s ((s.updTask t g).resumeContexts t) t true ∧
    ∀ R, M s R → (s.task t).ctxs.Nodup → (∀ c ∈ (s.task t).ctxs, c ∉ R ∧ c < s.ctxs.length) →
      M ((s.updTask t g).resumeContexts t) ((s.task t).ctxs.reverse ++ R) := by
  have hts : (s.updTask t g).task t = g (s.task t) := task_updTask_self _ _ _ ht
  have hna1 : NA (s.updTask t g) := na_of_ctxs rfl hna
  rw [nf_resume _ t hna1 (by rw [hts, hg2]; exact hact), hts, hg1]
  have hna2 : ∀ c, ((s.updTask t g).updTask t fun ts => { ts with ctxActive := true }).ctxIsNonAsync c = false :=
    fun c => na_isNonAsync (na_of_ctxs rfl hna1) c
  have o1 : Op s ((s.updTask t g).updTask t fun ts => { ts with ctxActive := true }) t [] true := by
    have := (op_updTask s t g true).trans (op_updTask (s.updTask t g) t (fun ts => { ts with ctxActive := true }) true)
    simpa using this
  have o2 := op_foldFlip true t (s.task t).ctxs _ (fun c _ => hna2 c)
  have hts2 : ((s.updTask t g).updTask t fun ts => { ts with ctxActive := true }).task t =
      { g (s.task t) with ctxActive := true } := by
    rw [task_updTask_self _ _ _ (by simpa using ht), hts]
  refine ⟨⟨by simpa using o1.trans o2, ?_, ?_, ?_, ?_, ?_, ?_, ?_⟩, ?_⟩
  · rw [task_foldFlip, hts2]; exact hg1 _
  · rw [task_foldFlip, hts2]; exact hg3 _
  · rw [task_foldFlip, hts2]
  · intro f
    simp only [State.computed, State.out, State.fut, futs_foldFlip]
    show ((s.updTask t g).updTask t _).computed f = s.computed f
    rw [computed_updTask, computed_updTask]
  · exact na_of_isNonAsync fun c => by rw [isNonAsync_foldFlip]; exact hna2 c
  · rw [(same_foldFlip true _ _).ctl]; rfl
  · rw [(same_foldFlip true _ _).guardFired]; rfl
  · intro R m hn hc
    have m0 : M ((s.updTask t g).updTask t fun ts => { ts with ctxActive := true }) R :=
      M_frame m (fun _ _ => rfl) (Nat.le_refl _) (fun _ => rfl) id rfl
    exact M_foldResume _ _ R m0 hn (fun c hm => ⟨(hc c hm).1, (hc c hm).2, hna2 c⟩)

theorem flip_pause (s : State) (t : Nat) (g : TaskSt → TaskSt) (hg1 : ∀ x, (g x).ctxs = x.ctxs)
    (hg2 : ∀ x, (g x).ctxActive = x.ctxActive) (hg3 : ∀ x, (g x).conts = x.conts) (hna : NA s)
    (ht : t < s.futs.length) (hact : (s.task t).ctxActive = true) :
    Flip s ((s.updTask t g).pauseContexts t) t false ∧
    ∀ R, M s ((s.task t).ctxs.reverse ++ R) → M ((s.updTask t g).pauseContexts t) R := by
  have hts : (s.updTask t g).task t = g (s.task t) := task_updTask_self _ _ _ ht
  have hna1 : NA (s.updTask t g) := na_of_ctxs rfl hna
  rw [nf_pause _ t hna1 (by rw [hts, hg2]; exact hact), hts, hg1]
  have hna2 : ∀ c, ((s.updTask t g).updTask t fun ts => { ts with ctxActive := false }).ctxIsNonAsync c = false :=
    fun c => na_isNonAsync (na_of_ctxs rfl hna1) c
  have o1 : Op s ((s.updTask t g).updTask t fun ts => { ts with ctxActive := false }) t [] false := by
    have := (op_updTask s t g false).trans (op_updTask (s.updTask t g) t (fun ts => { ts with ctxActive := false }) false)
    simpa using this
  have o2 := op_foldFlip false t (s.task t).ctxs.reverse _ (fun c _ => hna2 c)
  have hts2 : ((s.updTask t g).updTask t fun ts => { ts with ctxActive := false }).task t =
      { g (s.task t) with ctxActive := false } := by
    rw [task_updTask_self _ _ _ (by simpa using ht), hts]
  refine ⟨⟨?_, ?_, ?_, ?_, ?_, ?_, ?_, ?_⟩, ?_⟩
  · have := o1.trans o2
    exact (by simpa using this : Op s _ t (s.task t).ctxs.reverse false).perm (fun c => List.mem_reverse)
  · rw [task_foldFlip, hts2]; exact hg1 _
  · rw [task_foldFlip, hts2]; exact hg3 _
  · rw [task_foldFlip, hts2]
  · intro f
    simp only [State.computed, State.out, State.fut, futs_foldFlip]
    show ((s.updTask t g).updTask t _).computed f = s.computed f
    rw [computed_updTask, computed_updTask]
  · exact na_of_isNonAsync fun c => by rw [isNonAsync_foldFlip]; exact hna2 c
  · rw [(same_foldFlip false _ _).ctl]; rfl
  · rw [(same_foldFlip false _ _).guardFired]; rfl
  · intro R m
    have m0 : M ((s.updTask t g).updTask t fun ts => { ts with ctxActive := false }) ((s.task t).ctxs.reverse ++ R) :=
      M_frame m (fun _ _ => rfl) (Nat.le_refl _) (fun _ => rfl) id rfl
    exact M_foldPause _ _ R m0 (fun c _ => hna2 c)

end AsynqModel.Core.P7
