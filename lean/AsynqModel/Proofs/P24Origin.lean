import AsynqModel.Proofs.P24Step
import AsynqModel.Theorems.C03b
/-!
  P24, part 6 (audit items 12 and 4b): strict origins of errors.

  `P11.Origin s f e` holds for every `f` when `e` is the TypeError of `unwrap` or the AssertionError of a
  NonAsyncContext.  `OriginS R s f e` replaces these two clauses by what really happened:
  * `typeerr`: task `f` itself yielded a structure with a non-future in it (`yield f i y ∈ s.trace`, `hasJunk y`);
  * `nonasync`: task `f` was failed while it was suspended - on top of the scheduler's task stack, blocked on an
    uncomputed dependency - with a NonAsyncContext registered with it (`FailedSuspended`: there is an earlier state
    `s0` of the run, with `R s0`, whose step completes `f` with that error and in which `SuspNA s0 f` holds).
  `ChainS R s e t` is `P11.Chain` with strict origins; `sinv_step` shows that every failed future has a strict chain.
-/
namespace AsynqModel.Core.P24
open AsynqModel.Core AsynqModel.Core.P2 AsynqModel.Core.P11

/-- `b` is reached from `a` by zero or more steps of the machine -/
inductive StepsTo (a : State) : State → Prop
  | refl : StepsTo a a
  | next {b : State} : StepsTo a b → StepsTo a (step b)

/-- the structure holds a non-future (`unwrap` raises TypeError at that position) -/
def hasJunk {α : Type} (y : YS α) : Prop := Option.none ∈ y.slots

instance {α : Type} [DecidableEq α] (y : YS α) : Decidable (hasJunk y) := by unfold hasJunk; infer_instance

/-- task `t` was failed with the NonAsyncContext assertion error in an earlier step of the run, out of a state `s0`
    in which it was on top of the task stack, blocked, with a NonAsyncContext registered with it -/
def FailedSuspended (R : State → Prop) (s : State) (t : Nat) : Prop :=
  ∃ s0, R s0 ∧ StepsTo (step s0) s ∧ s0.out t = none ∧ (step s0).out t = some (.err .nonasync) ∧ SuspNA s0 t

/-- `f` failed with `e` on its own account (strict form of `P11.Origin`) -/
def OriginS (R : State → Prop) (s : State) (f : Nat) (e : Err) : Prop :=
  (s.fut f).kind ≠ .task ∨ (e = .nonasync ∧ FailedSuspended R s f) ∨
  (e = .typeerr ∧ ∃ i y, Event.yield f i y ∈ s.trace ∧ hasJunk y) ∨
  (e = .stackguard ∧ s.guardFired = true) ∨
  (∃ n, e = .u n ∧ (s.task f).body = .raise n) ∨
  (e = .u 0 ∧ (s.task f).body = .reraise ∧ (s.task f).caught = none)

theorem OriginS.origin {R : State → Prop} {s : State} {f : Nat} {e : Err} (h : OriginS R s f e) : Origin s f e := by
  rcases h with h | ⟨h, _⟩ | ⟨h, _⟩ | h | h | h
  · exact .inl h
  · exact .inr (.inl h)
  · exact .inr (.inr (.inl h))
  · exact .inr (.inr (.inr (.inl h)))
  · exact .inr (.inr (.inr (.inr (.inl h))))
  · exact .inr (.inr (.inr (.inr (.inr h))))

/-- `P11.Chain` with strict origins -/
inductive ChainS (R : State → Prop) (s : State) (e : Err) : Nat → Prop
  | origin {f : Nat} : s.out f = some (.err e) → OriginS R s f e → ChainS R s e f
  | link {t f : Nat} : (s.fut t).kind = .task → s.out t = some (.err e) → AwaitedBy s.trace t f → ChainS R s e f →
      ChainS R s e t

theorem ChainS.out {R : State → Prop} {s : State} {e : Err} {t : Nat} (h : ChainS R s e t) : s.out t = some (.err e) := by
  cases h with
  | origin h _ => exact h
  | link _ h _ _ => exact h

theorem ChainS.chain {R : State → Prop} {s : State} {e : Err} {t : Nat} (h : ChainS R s e t) : Chain s e t := by
  induction h with
  | origin ho hor => exact .origin ho hor.origin
  | link hk ho ha _ ih => exact .step hk ho ha ih

/-! ### one step keeps what is known about computed futures -/

theorem frame_step {s : State} (hr : Reach s) : Frame s (step s) := by
  have inv := inv_reach hr
  obtain ⟨s0, q, d⟩ := step_desc_reach hr inv.2.raising inv.1.tracked
  exact (frame_pre q).trans (frame_desc d)

theorem kind_task_step {s : State} (hr : Reach s) {f : Nat} (hk : (s.fut f).kind = .task) :
    ((step s).fut f).kind = .task := by
  have inv := inv_reach hr
  obtain ⟨s0, q, d⟩ := step_desc_reach hr inv.2.raising inv.1.tracked
  obtain ⟨p, s1, b, futs, _⟩ := d
  have h0 : (s0.fut f).kind = .task := by unfold State.fut; rw [q.futs]; exact hk
  have h1 := b.kind_task h0
  unfold State.fut at h1 ⊢
  rw [futs]; exact h1

theorem OriginS.next {R : State → Prop} {s : State} (hr : Reach s) {f : Nat} {e : Err} {o : Outcome}
    (ho : s.out f = some o) (h : OriginS R s f e) : OriginS R (step s) f e := by
  have fr := frame_step hr
  obtain ⟨pre, e1⟩ := fr.trace
  by_cases hk : (s.fut f).kind = .task
  · unfold OriginS at *
    rw [fr.body f o ho hk, fr.caught f o ho]
    rcases h with h | ⟨h1, s0, h2, h3, h4⟩ | ⟨h1, i, y, h2, h3⟩ | ⟨h1, h2⟩ | h | h
    · exact absurd hk h
    · exact .inr (.inl ⟨h1, s0, h2, .next h3, h4⟩)
    · exact .inr (.inr (.inl ⟨h1, i, y, by rw [e1]; exact List.mem_append_right _ h2, h3⟩))
    · exact .inr (.inr (.inr (.inl ⟨h1, fr.guard h2⟩)))
    · exact .inr (.inr (.inr (.inr (.inl h))))
    · exact .inr (.inr (.inr (.inr (.inr h))))
  · left; rw [fr.kind f o ho]; exact hk

theorem ChainS.next {R : State → Prop} {s : State} (hr : Reach s) {e : Err} {t : Nat} (h : ChainS R s e t) :
    ChainS R (step s) e t := by
  have fr := frame_step hr
  induction h with
  | origin ho hor => exact .origin (fr.out _ _ ho) (hor.next hr ho)
  | link hk ho ha _ ih =>
    exact .link (by rw [fr.kind _ _ ho]; exact hk) (fr.out _ _ ho) (ha.frame fr) ih

/-! ### where the TypeError of `unwrap` comes from -/

theorem unwrap_error_srcS {α : Type} (look : α → Option Outcome) (y : YS α) (e : Err)
    (h : unwrap look y = .error e) :
    (e = .typeerr ∧ hasJunk y) ∨ (∃ f ∈ y.leaves, look f = some (.err e)) ∨ (∃ f ∈ y.leaves, look f = none) := by
  have h1 := (unwrap_error_iff look y e).1 h
  unfold firstFailure at h1
  obtain ⟨p, hp, hs⟩ := List.exists_of_findSome?_eq_some h1
  cases p with
  | none =>
    simp only [slotErr] at hs
    injection hs with hs
    exact .inl ⟨hs.symm, hp⟩
  | some r =>
    have hr := mem_slots y r hp
    simp only [slotErr] at hs
    cases hl : look r with
    | none => exact .inr (.inr ⟨r, hr, hl⟩)
    | some o =>
      rw [hl] at hs
      cases o with
      | ok v => simp at hs
      | err e' =>
        simp at hs
        subst hs
        exact .inr (.inl ⟨r, hr, hl⟩)

/-- a resume that throws `e` into task `t`: `t` yielded a structure with a non-future (`e` is the TypeError), or a leaf
    of a structure it yielded failed with `e` -/
theorem run_err_srcS {s : State} (h : Reach s) {t i : Nat} {dc : Bool} {e : Err}
    (hm : Event.run t i dc (.out (.err e)) ∈ s.trace) :
    ∃ j y, Event.yield t j y ∈ s.trace ∧
      ((e = .typeerr ∧ hasJunk y) ∨ ∃ f ∈ y.leaves, s.out f = some (.err e)) := by
  obtain ⟨j, y, _, hy, hcomp, hu, _⟩ := run_err_src h hm
  refine ⟨j, y, hy, ?_⟩
  rcases unwrap_error_srcS s.out y e hu with h1 | h1 | ⟨f, hf, h1⟩
  · exact .inl h1
  · exact .inr h1
  · have := hcomp f hf
    unfold State.computed at this
    rw [h1] at this; cases this

/-! ### the invariant -/

/-- every failed future has a strict error chain -/
def SInv (R : State → Prop) (s : State) : Prop := ∀ t e, s.out t = some (.err e) → ChainS R s e t

theorem sinv_init (R : State → Prop) (cfg : Cfg) (tops : List (Conv × Body)) (choices : List (Nat × Nat)) :
    SInv R (initState cfg tops choices) := by
  intro t e h
  unfold State.out at h; rw [fut_init] at h; cases h

theorem trace_step_mem {s : State} (hr : Reach s) {ev : Event} (h : ev ∈ s.trace) : ev ∈ (step s).trace := by
  obtain ⟨pre, e1⟩ := (frame_step hr).trace
  rw [e1]; exact List.mem_append_right _ h

theorem sinv_step {R : State → Prop} {s : State} (hr : Reach s) (hRs : R s) (h : SInv R s) : SInv R (step s) := by
  have fr := frame_step hr
  have pin := pinv_reach hr
  have einv := (inv_reach hr).2
  intro t e ho
  cases hs : s.out t with
  | some o =>
    have := fr.out t o hs
    rw [ho] at this; injection this with this; subst this
    exact (h t e hs).next hr
  | none =>
    by_cases hk : ¬ ((step s).fut t).kind = .task
    · exact .origin ho (.inl hk)
    have hk : ((step s).fut t).kind = .task := Classical.not_not.1 hk
    rcases step_compl s pin.items pin.z t (.err e) hs ho with ⟨h1, _⟩ | ⟨old, rest, hctl, hp, hf, hb, hc⟩ | ⟨h1, h2⟩
    · exact absurd hk h1
    · -- the running task ends at its current statement
      unfold FinOut at hf
      cases hbody : (s.task t).body with
      | raise n =>
        rw [hbody] at hf hb
        injection hf with hf
        exact .origin ho (.inr (.inr (.inr (.inr (.inl ⟨n, hf, hb⟩)))))
      | reraise =>
        rw [hbody] at hf hb
        injection hf with hf
        cases hcaught : (s.task t).caught with
        | none =>
          rw [hcaught] at hf hc
          exact .origin ho (.inr (.inr (.inr (.inr (.inr ⟨hf, hb, hc⟩)))))
        | some e' =>
          rw [hcaught] at hf
          have hf : e = e' := hf
          subst hf
          rcases einv.caught t e hcaught with ⟨i, dc, hm⟩ | ⟨f, hm⟩
          · obtain ⟨j, y, hy, hsrc⟩ := run_err_srcS hr hm
            rcases hsrc with hj | ⟨f, hfl, hfo⟩
            · exact .origin ho (.inr (.inr (.inl ⟨hj.1, j, y, trace_step_mem hr hy, hj.2⟩)))
            · exact .link hk ho (.inl ⟨j, y, trace_step_mem hr hy, hfl⟩) ((h f e hfo).next hr)
          · rcases einv.syncx t f _ hm with h2 | ⟨h2, h3⟩
            · exact .link hk ho (.inr (.inr ⟨_, trace_step_mem hr hm⟩)) ((h f e h2).next hr)
            · injection h2 with h2
              exact .origin ho (.inr (.inr (.inr (.inl ⟨h2, fr.guard h3⟩))))
      | ret tag => rw [hbody] at hf; cases hf
      | res tag => rw [hbody] at hf; cases hf
      | endwith => rw [hbody] at hf; cases hf.2
      | _ => rw [hbody] at hf; exact hf.elim
    · -- the task is failed while it is suspended
      injection h1 with h1
      exact .origin ho (.inr (.inl ⟨h1, s, hRs, .refl, hs, by rw [ho, h1], h2⟩))

theorem sinv_reach {s : State} (h : Reach s) : SInv Reach s := by
  induction h with
  | init cfg tops choices => exact sinv_init _ _ _ _
  | @step s hr ih => exact sinv_step hr hr ih

theorem sinv_wsreach {s : State} (h : P10.WSReach s) : SInv P10.WSReach s := by
  induction h with
  | init cfg tops choices _ => exact sinv_init _ _ _ _
  | @step s hr ih => exact sinv_step hr.reach hr ih

/-- a strict chain ends at a strict origin -/
theorem chainS_origin {R : State → Prop} {s : State} {e : Err} {t : Nat} (h : ChainS R s e t) :
    ∃ g, DependsOn s.trace t g ∧ s.out g = some (.err e) ∧ OriginS R s g e := by
  induction h with
  | @origin f ho hor => exact ⟨f, .refl f, ho, hor⟩
  | link _ _ ha _ ih =>
    obtain ⟨g, h1, h2, h3⟩ := ih
    exact ⟨g, .step ha h1, h2, h3⟩

/-! ### only tasks fail with the NonAsyncContext assertion error -/

theorem na_task {s : State} (h : Reach s) : ∀ f, s.out f = some (.err .nonasync) → (s.fut f).kind = .task := by
  induction h with
  | init cfg tops choices => intro f h; unfold State.out at h; rw [fut_init] at h; cases h
  | @step s hr ih =>
    intro f ho
    have pin := pinv_reach hr
    cases hs : s.out f with
    | some o =>
      have := (frame_step hr).out f o hs
      rw [ho] at this; injection this with this; subst this
      exact kind_task_step hr (ih f hs)
    | none =>
      rcases step_compl s pin.items pin.z f _ hs ho with ⟨_, h1⟩ | ⟨old, rest, hctl, _⟩ | ⟨_, _, h2, _⟩
      · exact absurd rfl h1
      · exact kind_task_step hr (pin.genKind f (by rw [hctl]; simp [gens]))
      · exact kind_task_step hr h2

theorem guard_of_stepsTo {a b : State} (h : StepsTo a b) (hg : b.guardFired = false) : a.guardFired = false := by
  induction h with
  | refl => exact hg
  | next _ ih => exact ih (P3.guard_mono _ hg)

end AsynqModel.Core.P24
