import AsynqModel.Proofs.P20Clean
/-
  P20 (termination with synchronous re-entry), part 6: the potential of a scheduler pass (`P6T.Phi`) with respect to
  an arbitrary rank function `R` (later: the post-order rank `P10.rankOf` of the creation forest, along which every
  await edge - including the edges of synchronous calls - decreases).  The lemmas are those of `P6TPhi.lean`; what was
  drawn there from the yield-only invariant `InvC` is a hypothesis here.
-/
namespace AsynqModel.Core.P20
open AsynqModel.Core AsynqModel.Core.P6 AsynqModel.Core.P6T

def ewR (R : Nat → Nat) (s : State) (A : List Nat) (x : Nat) : Nat := ewp (Bof s) R (view s x) A x

def PhiR (R : Nat → Nat) (s : State) : Nat := phiGo (ewR R s) [] s.stack

theorem Bof_of_dep {s r : State} (hl : r.futs.length = s.futs.length) (hv : ∀ f, depTerm r f = depTerm s f) :
    Bof r = Bof s := by
  unfold Bof
  rw [Dsum_same hl hv]

theorem Bof_of_views {s r : State} (hl : r.futs.length = s.futs.length) (hv : ∀ f, view r f = view s f) :
    Bof r = Bof s :=
  Bof_of_dep hl (fun f => by unfold depTerm; rw [hv f])

/-- the stack and all views are kept: the potential is unchanged -/
theorem PhiR_same {R : Nat → Nat} {s r : State} (e : Same s r) (hst : r.stack = s.stack) : PhiR R r = PhiR R s := by
  have hB : Bof r = Bof s := Bof_of_views e.len e.view
  unfold PhiR
  rw [hst]
  refine phiGo_congr _ _ Eq (fun _ _ _ h => by rw [h]) _ _ _ rfl ?_
  intro x _ A A' hA
  subst hA
  unfold ewR
  rw [hB, e.view]

/-- the top of the stack is popped; the other entries keep their weight -/
theorem PhiR_pop {R : Nat → Nat} {s r : State} (hB : Bof r = Bof s)
    {top : Nat} {st : List Nat} (hstk : s.stack = top :: st) (hst : r.stack = st)
    (hvo : ∀ x, x ≠ top → view r x = view s x)
    (htop : ∀ A A', top ∈ A → ewR R r A' top = ewR R s A top) : PhiR R r < PhiR R s := by
  unfold PhiR
  rw [hstk, hst]
  show phiGo (ewR R r) [] st < ewR R s [] top + phiGo (ewR R s) [top] st
  have hpos : 0 < ewR R s [] top := ewp_pos _ (Bof_pos s) _ _ _ _
  have : phiGo (ewR R r) [] st = phiGo (ewR R s) [top] st := by
    refine phiGo_congr _ _ (fun A A' => top ∈ A ∧ ∀ y, y ≠ top → (y ∈ A ↔ y ∈ A')) ?_ st [top] [] ?_ ?_
    · intro A A' x ⟨h1, h2⟩
      refine ⟨List.mem_cons_of_mem _ h1, fun y hy => ?_⟩
      simp [h2 y hy]
    · exact ⟨List.mem_cons_self, fun y hy => by simp [hy]⟩
    · intro x _ A A' ⟨h1, h2⟩
      by_cases hx : x = top
      · subst hx; exact htop A A' h1
      · unfold ewR
        rw [hB, hvo x hx]
        exact ewp_congr rfl rfl (fun _ _ => by rw [h2 x hx])
  omega

/-- first visit of a blocked task: its entry loses half of its weight, its dependencies weigh less than that -/
theorem PhiR_first {R : Nat → Nat} {s r : State} (hB : Bof r = Bof s) {top : Nat} {st : List Nat}
    (hstk : s.stack = top :: st) (htl : top < s.futs.length)
    (hk : (view s top).kind = .task) (hc : s.computed top = false) (hfl : (view s top).flag = false)
    (hvt : view r top = flagView true (view s top)) (hvo : ∀ x, x ≠ top → view r x = view s x)
    (hst : r.stack = ((view s top).deps.filter fun d => !s.computed d).reverse ++ s.stack)
    (hrk : ∀ d ∈ (view s top).deps, R d < R top)
    (hnfd : ∀ d ∈ (view s top).deps, ¬ Flagged s d) :
    PhiR R r < PhiR R s := by
  have ho := out_none_of_uncomputed hc
  generalize hds : ((view s top).deps.filter fun d => !s.computed d) = ds at hst
  have hdsmem : ∀ d, d ∈ ds → d ∈ (view s top).deps := by
    intro d hd; rw [← hds] at hd; exact (List.mem_filter.1 hd).1
  have htopds : top ∉ ds := fun h => Nat.lt_irrefl _ (hrk top (hdsmem top h))
  have hBpos : 0 < Bof s := Bof_pos s
  -- the number of pushed entries is small compared to `B`
  have hlen : 2 * ds.length + 1 ≤ Bof s := by
    have h1 : ds.length ≤ (view s top).deps.length := by rw [← hds]; exact List.length_filter_le _ _
    have h2 : depTerm s top ≤ Dsum s := le_rsum htl
    have h3 : depTerm s top = (view s top).deps.length := by unfold depTerm; rw [if_pos hk]
    show 2 * ds.length + 1 ≤ 2 * Dsum s + 1
    omega
  unfold PhiR
  rw [hstk, hst, hstk, phiGo_append]
  show phiGo (ewR R r) [] ds.reverse + (ewR R r (ds.reverse.reverse ++ []) top +
    phiGo (ewR R r) (top :: (ds.reverse.reverse ++ [])) st) < ewR R s [] top + phiGo (ewR R s) [top] st
  -- the old entry
  have h1 : ewR R s [] top = 2 * Bof s ^ (R top + 1) := by
    unfold ewR ewp
    rw [if_pos ⟨hk, ho⟩, if_neg (by rw [hfl]; simp)]
  -- the flagged entry
  have h2 : ewR R r (ds.reverse.reverse ++ []) top = Bof s ^ (R top + 1) := by
    unfold ewR ewp
    rw [hB, hvt]
    rw [if_pos ⟨hk, ho⟩, if_pos ⟨rfl, by simpa using htopds⟩]
  -- the entries below keep their weight
  have h3 : phiGo (ewR R r) (top :: (ds.reverse.reverse ++ [])) st = phiGo (ewR R s) [top] st := by
    refine phiGo_congr _ _ (fun A A' => top ∈ A ∧ top ∈ A' ∧ ∀ y, (y ∈ A' ↔ y ∈ A ∨ y ∈ ds)) ?_ st _ _ ?_ ?_
    · intro A A' x ⟨h1, h2, h3⟩
      refine ⟨List.mem_cons_of_mem _ h1, List.mem_cons_of_mem _ h2, fun y => ?_⟩
      simp [h3 y, or_assoc]
    · refine ⟨List.mem_cons_self, List.mem_cons_self, fun y => ?_⟩
      simp
    · intro x _ A A' ⟨hA, hA', hmem⟩
      unfold ewR
      rw [hB]
      by_cases hx : x = top
      · subst hx
        rw [hvt]
        refine ewp_congr rfl rfl (fun _ _ => ?_)
        constructor
        · intro h; exact absurd hA' h.2
        · intro h; rw [hfl] at h; cases h.1
      · rw [hvo x hx]
        refine ewp_congr rfl rfl (fun hkx hox => ?_)
        constructor
        · intro ⟨hf, hn⟩
          exact ⟨hf, fun hm => hn ((hmem x).2 (Or.inl hm))⟩
        · intro ⟨hf, hn⟩
          refine ⟨hf, fun hm => ?_⟩
          rcases (hmem x).1 hm with h | h
          · exact hn h
          · exact hnfd x (hdsmem x h) ⟨hkx, hf, hox⟩
  -- the pushed entries
  have h4 : phiGo (ewR R r) [] ds.reverse ≤ ds.reverse.length * (2 * Bof s ^ (R top)) := by
    apply phiGo_le
    intro x hx A
    have hxds : x ∈ ds := List.mem_reverse.1 hx
    have hxne : x ≠ top := fun e => htopds (e ▸ hxds)
    unfold ewR ewp
    rw [hB, hvo x hxne]
    have hone : 1 ≤ 2 * Bof s ^ (R top) := by
      have := Nat.pow_pos (n := R top) hBpos
      omega
    split
    · have hlt : R x < R top := hrk x (hdsmem x hxds)
      have hp : Bof s ^ (R x + 1) ≤ Bof s ^ (R top) := pow_mono hBpos hlt
      split <;> omega
    · exact hone
  rw [h1, h2, h3]
  rw [List.length_reverse] at h4
  have hX : 0 < Bof s ^ (R top) := Nat.pow_pos hBpos
  have hpow : Bof s ^ (R top + 1) = Bof s ^ (R top) * Bof s := Nat.pow_succ _ _
  have hmul : (2 * ds.length) * Bof s ^ (R top) < Bof s * Bof s ^ (R top) :=
    Nat.mul_lt_mul_of_pos_right (by omega) hX
  have e1 : ds.length * (2 * Bof s ^ (R top)) = (2 * ds.length) * Bof s ^ (R top) := by
    rw [Nat.mul_comm 2 ds.length, Nat.mul_assoc]
  have e2 : Bof s ^ (R top) * Bof s = Bof s * Bof s ^ (R top) := Nat.mul_comm _ _
  rw [hpow, e2]
  rw [e1] at h4
  omega

end AsynqModel.Core.P20
