import AsynqModel.Proofs.P19Flush
/-
  P19, part 11: the prediction invariant and the steps of a task body, part A: the common frame, the first step of
  a task (`start`: its description changes from `unstarted d` to `ready (n + d)`; the prediction of the task that
  awaits it is unchanged because `awaitLeaves` would have started it at this very round).
-/
namespace AsynqModel.Core.P19
open AsynqModel.Core AsynqModel.Core.P6

/-- what the case lemmas share: `t` is the running task, `r` the state after its step -/
structure GenCtx (k0 : Nat) (s r : State) (t root : Nat) : Prop where
  hV : VInv s
  hS : SInv k0 s
  hA : InvA s
  hx : XF s r
  kind : (view s t).kind = .task
  out : (view s t).out = none
  stk : t ∈ s.stack
  stack : r.stack = s.stack
  lt : t < s.futs.length
  rootT : (view s root).kind = .task
  rootOwn : ∀ x, root ∉ (view s x).own

theorem GenCtx.not_idle {k0 : Nat} {s r : State} {t root : Nat} (C : GenCtx k0 s r t root) : ¬ Idle s t := by
  rintro (h | ⟨k, q, p, m, h⟩ | ⟨lo, h⟩ | ⟨_, _, h⟩)
  · exact h C.out
  · rw [C.kind] at h; cases h
  · rw [C.kind] at h; cases h
  · exact h C.stk

/-- a future that is neither the running task nor a new one -/
theorem Loc.other {k0 : Nat} {s r : State} {t root fn : Nat} (C : GenCtx k0 s r t root) {n : Nat}
    {fin fin' : Nat → FutR} {f : Nat} (L : Loc s n fin f)
    (hfn : s.futs.length ≤ fn) (hft : f ≠ t) (hffn : f ≠ fn)
    (hvo : ∀ x, x ≠ t → x ≠ fn → view r x = view s x)
    (hfin : ∀ x, x ≠ t → x ≠ fn → fin' x = fin x)
    (hfint : Live s f → t ∈ (view s f).own → fin' t = fin t) : Loc r n fin' f := by
  have hne : ∀ d ∈ (view s f).own, d ≠ fn := fun d hd e => by
    have := C.hV.ownLt f d hd
    rw [e] at this; omega
  refine L.congr ⟨(view s f).flag, by rw [hvo f hft hffn]; rfl⟩ C.hx.cfg C.hx.len
    (fun d hd => C.hx.den d (C.hV.ownLt f d hd)) (hfin f hft hffn) ?_ ?_
  · intro hl d hd
    by_cases hdt : d = t
    · subst hdt; exact hfint hl hd
    · exact hfin d hdt (hne d hd)
  · intro d hd _ hid
    by_cases hdt : d = t
    · subst hdt; exact absurd hid C.not_idle
    · exact hid.of_view ⟨(view s d).flag, by rw [hvo d hdt (hne d hd)]; rfl⟩ (by rw [C.stack]; exact id)

theorem map_set_of_nodup (fin : Nat → FutR) (t : Nat) (a : FutR) :
    ∀ (l : List Nat) (i : Nat), l.Nodup → l[i]? = some t →
      l.map (fun x => if x = t then a else fin x) = (l.map fin).set i a := by
  intro l
  induction l with
  | nil => intro i _ h; simp at h
  | cons x l ih =>
    intro i hnd hi
    rw [List.nodup_cons] at hnd
    cases i with
    | zero =>
      simp at hi
      subst hi
      simp only [List.map_cons, if_true, List.set_cons_zero]
      congr 1
      apply List.map_congr_left
      intro y hy
      have : y ≠ x := fun e => hnd.1 (e ▸ hy)
      simp [this]
    | succ j =>
      simp at hi
      have hxt : x ≠ t := by
        intro e
        have := List.mem_of_getElem? hi
        rw [← e] at this
        exact hnd.1 this
      simp only [List.map_cons, hxt, if_false, List.set_cons_succ]
      rw [ih j hnd.2 hi]

/-- tracked futures after a step of `t` that creates no future -/
theorem trk_upd1 {s r : State} {t root : Nat} (hvo : ∀ x, x ≠ t → view r x = view s x)
    (ht : ∀ f, Live r t → f ∈ (view r t).own → Live s t ∧ f ∈ (view s t).own) :
    ∀ {f : Nat}, Trk r root f → Trk s root f :=
  Trk.of_sub (fun x f hl hf => by
    by_cases hxt : x = t
    · subst hxt; exact ht f hl hf
    · rw [Live, hvo x hxt] at hl
      rw [hvo x hxt] at hf
      exact ⟨hl, hf⟩)

/-- the first step of a task -/
theorem E_start {k0 : Nat} {s r : State} {t root R : Nat} (C : GenCtx k0 s r t root)
    (hp : (view s t).pending = true) (hst : (view s t).started = false)
    (hvo : ∀ x, x ≠ t → view r x = view s x) (hlen : r.futs.length = s.futs.length)
    (rk : (view r t).kind = .task) (ro : (view r t).out = none) (rs : (view r t).started = true)
    (rp : (view r t).pending = false) (rown : (view r t).own = (view s t).own)
    (rprev : (view r t).prevY = (view s t).prevY) (rbody : (view r t).body = (view s t).body)
    (rconts : (view r t).conts = (view s t).conts)
    (hc : s.computed root = false) (fin : Nat → FutR)
    (hfr : fin root = .ready R ∨
      ((view s root).started = false ∧ fcount s.trace = 0 ∧ roundsTop s.cfg (view s root).body = R))
    (hloc : ∀ f, Trk s root f → Loc s (fcount s.trace) fin f) : E r root R := by
  obtain ⟨fown, fconts, fprev, _⟩ := C.hV.fresh t hst
  have hfc : fcount r.trace = fcount s.trace := C.hx.fcount
  let n := fcount s.trace
  let d := roundsTop s.cfg (view s t).body
  let fin' : Nat → FutR := fun x => if x = t then .ready (n + d) else fin x
  have hfin'o : ∀ x, x ≠ t → fin' x = fin x := fun x hx => by show (if x = t then _ else _) = _; rw [if_neg hx]
  have hfin't : fin' t = .ready (n + d) := by show (if t = t then _ else _) = _; rw [if_pos rfl]
  have hcr : r.computed root = false := by
    by_cases hrt : root = t
    · rw [hrt, computed_eq_view, ro]; rfl
    · rw [computed_of_view (hvo root hrt)]; exact hc
  have htrk : ∀ {f : Nat}, Trk r root f → Trk s root f := trk_upd1 hvo (fun f _ hf => by
    rw [rown, fown] at hf; cases hf)
  refine Or.inr ⟨hcr, fin', ?_, ?_⟩
  · by_cases hrt : root = t
    · left
      rw [hrt, hfin't]
      rcases hfr with h | ⟨_, h2, h3⟩
      · have := (hloc root .root).fresh (by rw [hrt]; exact C.out) (by rw [hrt]; exact C.kind) (by rw [hrt]; exact hst)
        rw [h] at this; cases this
      · rw [hrt] at h3
        show FutR.ready (fcount s.trace + roundsTop s.cfg (view s t).body) = _
        rw [h2, h3, Nat.zero_add]
    · rw [hfin'o root hrt]
      rcases hfr with h | ⟨h1, h2, h3⟩
      · exact Or.inl h
      · right
        rw [hvo root hrt, hfc, C.hx.cfg]
        exact ⟨h1, h2, h3⟩
  · intro f hf
    rw [hfc]
    have hfs := htrk hf
    have L := hloc f hfs
    by_cases hft : f = t
    · subst hft
      refine ⟨by rw [hlen]; exact C.lt, fun h => absurd ro h, ?_, ?_, ?_, ?_, ?_⟩
      · intro k q p m _ h; rw [rk] at h; cases h
      · intro lo _ h; rw [rk] at h; cases h
      · intro _; rw [rk]; exact ⟨by simp, by simp⟩
      · intro _ _ h; rw [rs] at h; cases h
      · intro _
        refine ⟨.none, n + d, hfin't, ⟨by rw [rprev, fprev]; rfl, by intro r hr; simp [YS.leaves] at hr⟩, ?_, ?_, ?_⟩
        · rw [rbody, rconts, rown, fconts, fown, C.hx.cfg]
          exact (pr_start s.cfg (view s f).body n).symm
        · intro x hx; rw [rown, fown] at hx; cases hx
        · intro y k h hp'; rw [rp] at hp'; cases hp'
    · by_cases hpar : Live s f ∧ t ∈ (view s f).own
      · -- the task that awaits `t`
        obtain ⟨hl, hm⟩ := hpar
        obtain ⟨pv, q, LL⟩ := L.live hl
        have hpd : (view s f).pending = true ∧ t ∈ (view s f).deps := by
          refine Classical.byContradiction fun hn => ?_
          have hob : (view s f).pending = false ∨ t ∉ (view s f).deps := by
            cases hpf : (view s f).pending with
            | false => exact Or.inl rfl
            | true => right; intro hh; exact hn ⟨hpf, hh⟩
          exact C.not_idle (LL.hidle t hm hob)
        have htl : t ∈ (view s f).prevY.leaves := by
          rcases C.hV.dD f hl hpd.1 t hpd.2 with h | h
          · exact h
          · have := uncomputed_of_out_none C.out
            rw [h] at this; cases this
        obtain ⟨y, k, h, hb⟩ : ∃ y k h, (view s f).body = .yld y k h := by
          rcases C.hV.pendShape f hl hpd.1 with h | ⟨k, h, hb⟩
          · exact h
          · exfalso
            have := C.hV.dD2 f hl (Or.inr ⟨k, h, hb⟩) t htl
            have h2 := uncomputed_of_out_none C.out
            rw [this] at h2; cases h2
        have hpvy : pv = y := LL.hyld y k h hpd.1 hb
        subst hpvy
        obtain ⟨i, hi, _, hie⟩ := leaf_index LL.hpv htl
        have htt : Trk s root t := .own hfs hl hm
        have hft' : fin t = .unstarted d := (hloc t htt).fresh C.out C.kind hst
        have e := hvo f hft
        refine ⟨by rw [hlen]; exact L.lt, ?_, ?_, ?_, ?_, ?_, ?_⟩
        · intro ho; rw [e] at ho; exact absurd hl.2.1 ho
        · intro k' q' p m _ hk; rw [e, hl.1] at hk; cases hk
        · intro lo _ hk; rw [e, hl.1] at hk; cases hk
        · intro _; rw [e, hl.1]; exact ⟨by simp, by simp⟩
        · intro _ _ hs; rw [e, hl.2.2] at hs; cases hs
        · intro _
          refine ⟨pv, q, (hfin'o f hft).trans LL.hfin, by rw [e]; exact LL.hpv, ?_, ?_, ?_⟩
          · rw [e, C.hx.cfg, dens_congr (fun x hx => C.hx.den x (C.hV.ownLt f x hx))]
            have hm' : (view s f).own.map fin' = ((view s f).own.map fin).set i (.ready (n + d)) :=
              map_set_of_nodup fin t _ _ i (C.hV.ownND f) hie
            rw [hm', hb]
            rw [pr_started s.cfg pv k h (view s f).conts n _ _ pv i d hi (by rw [tbl_get fin _ i t hie, hft'])]
            have := LL.hpr
            rw [hb] at this
            exact this
          · intro x hx hob
            rw [e] at hx hob
            by_cases hxt : x = t
            · subst hxt
              rcases hob with hob | hob
              · rw [hpd.1] at hob; cases hob
              · exact absurd hpd.2 hob
            · exact (LL.hidle x hx hob).of_view ⟨(view s x).flag, by rw [hvo x hxt]; rfl⟩ (by rw [C.stack]; exact id)
          · intro y' k' h' hp' hb'
            rw [e] at hp' hb'
            exact LL.hyld y' k' h' hp' hb'
      · refine L.other C (Nat.le_refl _) hft (fun e => ?_) (fun x hx _ => hvo x hx) (fun x hx _ => hfin'o x hx) ?_
        · have := L.lt; rw [e] at this; exact Nat.lt_irrefl _ this
        · intro hl hm; exact absurd ⟨hl, hm⟩ hpar

end AsynqModel.Core.P19
