import AsynqModel.Proofs.P6TMeasure
/-
  P6T (termination, property C03), part 7: the potential `Phi` of a scheduler pass.
  `rank P n x` = number of futures that precede `x` in the post-order of the creation tree (so every awaited task has
  a smaller rank than the awaiting one); with `B` larger than twice the number of dependencies of any task, a stack
  entry `x` weighs `1` (computed / not a task), `B^(rank x + 1)` (the topmost entry of a flagged task) or
  `2·B^(rank x + 1)`.  Every iteration of `_execute` that stays in the loop decreases the sum.
-/
namespace AsynqModel.Core.P6T
open AsynqModel.Core AsynqModel.Core.P6

/-! ### rank -/

open Classical in
noncomputable def rank (P : Nat → List Nat) (n x : Nat) : Nat :=
  ((List.range n).filter fun y => decide (PLt (P y) (P x))).length

theorem filter_length_lt {α : Type} (p q : α → Bool) : ∀ (l : List α), (∀ a ∈ l, p a = true → q a = true) →
    (∃ a ∈ l, q a = true ∧ p a = false) → (l.filter p).length < (l.filter q).length
  | [], _, ⟨a, ha, _⟩ => by cases ha
  | b :: l, h, ⟨a, ha, hq, hp⟩ => by
    have hle : (l.filter p).length ≤ (l.filter q).length := by
      clear ha
      induction l with
      | nil => exact Nat.le_refl _
      | cons c l ih =>
        have ih' := ih (fun x hx hpx => h x (by
          rcases List.mem_cons.1 hx with e | e
          · exact e ▸ List.mem_cons_self
          · exact List.mem_cons_of_mem _ (List.mem_cons_of_mem _ e)) hpx)
        rw [List.filter_cons, List.filter_cons]
        by_cases hpc : p c = true
        · rw [if_pos hpc, if_pos (h c (List.mem_cons_of_mem _ List.mem_cons_self) hpc)]
          simp; exact ih'
        · rw [if_neg hpc]
          split
          · simp; omega
          · exact ih'
    rw [List.filter_cons, List.filter_cons]
    rcases List.mem_cons.1 ha with e | e
    · subst e
      rw [if_pos hq, if_neg (by rw [hp]; simp)]
      simp; omega
    · have := filter_length_lt p q l (fun x hx => h x (List.mem_cons_of_mem _ hx)) ⟨a, e, hq, hp⟩
      by_cases hpb : p b = true
      · rw [if_pos hpb, if_pos (h b List.mem_cons_self hpb)]
        simp; exact this
      · rw [if_neg hpb]
        split
        · simp; omega
        · exact this

open Classical in
theorem rank_lt (P : Nat → List Nat) {n d x : Nat} (hd : d < n) (h : PLt (P d) (P x)) : rank P n d < rank P n x := by
  unfold rank
  apply filter_length_lt
  · intro a _ ha
    have ha' : PLt (P a) (P d) := of_decide_eq_true ha
    exact decide_eq_true (ha'.trans h)
  · refine ⟨d, List.mem_range.2 hd, decide_eq_true h, ?_⟩
    exact decide_eq_false (PLt.irrefl _)

/-! ### the potential -/

def depTerm (s : State) (f : Nat) : Nat := if (view s f).kind = .task then (view s f).deps.length else 0
def Dsum (s : State) : Nat := rsum (depTerm s) s.futs.length
def Bof (s : State) : Nat := 2 * Dsum s + 1

/-- weight of a stack entry `x` with view `v` below the entries `A` -/
def ewp (B : Nat) (R : Nat → Nat) (v : FV) (A : List Nat) (x : Nat) : Nat :=
  if v.kind = .task ∧ v.out = none then
    (if v.flag = true ∧ x ∉ A then B ^ (R x + 1) else 2 * B ^ (R x + 1))
  else 1

noncomputable def ew (s : State) (P : Nat → List Nat) (A : List Nat) (x : Nat) : Nat :=
  ewp (Bof s) (rank P s.futs.length) (view s x) A x

def phiGo (e : List Nat → Nat → Nat) : List Nat → List Nat → Nat
  | _, [] => 0
  | A, x :: rest => e A x + phiGo e (x :: A) rest

noncomputable def Phi (s : State) (P : Nat → List Nat) : Nat := phiGo (ew s P) [] s.stack

theorem phiGo_congr (e1 e2 : List Nat → Nat → Nat) (Rel : List Nat → List Nat → Prop)
    (hcons : ∀ A A' x, Rel A A' → Rel (x :: A) (x :: A')) :
    ∀ (l : List Nat) (A A' : List Nat), Rel A A' → (∀ x ∈ l, ∀ A A', Rel A A' → e1 A' x = e2 A x) →
      phiGo e1 A' l = phiGo e2 A l
  | [], _, _, _, _ => rfl
  | x :: rest, A, A', hr, h => by
    unfold phiGo
    rw [h x List.mem_cons_self A A' hr,
      phiGo_congr e1 e2 Rel hcons rest (x :: A) (x :: A') (hcons A A' x hr)
        (fun y hy => h y (List.mem_cons_of_mem _ hy))]

theorem phiGo_append (e : List Nat → Nat → Nat) : ∀ (l1 l2 A : List Nat),
    phiGo e A (l1 ++ l2) = phiGo e A l1 + phiGo e (l1.reverse ++ A) l2
  | [], l2, A => by simp [phiGo]
  | x :: l1, l2, A => by
    show e A x + phiGo e (x :: A) (l1 ++ l2) = (e A x + phiGo e (x :: A) l1) + _
    rw [phiGo_append e l1 l2 (x :: A)]
    simp [Nat.add_assoc]

theorem phiGo_le (e : List Nat → Nat → Nat) (M : Nat) : ∀ (l A : List Nat), (∀ x ∈ l, ∀ A, e A x ≤ M) →
    phiGo e A l ≤ l.length * M
  | [], _, _ => by simp [phiGo]
  | x :: rest, A, h => by
    unfold phiGo
    have h1 := h x List.mem_cons_self A
    have h2 := phiGo_le e M rest (x :: A) (fun y hy => h y (List.mem_cons_of_mem _ hy))
    simp only [List.length_cons, Nat.succ_mul]
    omega

theorem Bof_pos (s : State) : 0 < Bof s := by unfold Bof; omega

theorem ewp_pos (B : Nat) (hB : 0 < B) (R : Nat → Nat) (v : FV) (A : List Nat) (x : Nat) : 0 < ewp B R v A x := by
  unfold ewp
  have := Nat.pow_pos (n := R x + 1) hB
  split
  · split <;> omega
  · omega

/-- entries that agree on kind / out and on being the fresh flagged entry have the same weight -/
theorem ewp_congr {B : Nat} {R : Nat → Nat} {v v' : FV} {A A' : List Nat} {x : Nat}
    (hk : v'.kind = v.kind) (ho : v'.out = v.out)
    (hf : v.kind = .task → v.out = none → ((v'.flag = true ∧ x ∉ A') ↔ (v.flag = true ∧ x ∉ A))) :
    ewp B R v' A' x = ewp B R v A x := by
  unfold ewp
  rw [hk, ho]
  by_cases h : v.kind = .task ∧ v.out = none
  · rw [if_pos h, if_pos h]
    have := hf h.1 h.2
    by_cases h2 : v.flag = true ∧ x ∉ A
    · rw [if_pos h2, if_pos (this.2 h2)]
    · rw [if_neg h2, if_neg (fun h3 => h2 (this.1 h3))]
  · rw [if_neg h, if_neg h]

theorem Dsum_same {s r : State} (hl : r.futs.length = s.futs.length) (h : ∀ f, depTerm r f = depTerm s f) :
    Dsum r = Dsum s := by
  unfold Dsum; rw [hl]; exact rsum_congr _ (fun f _ => h f)

/-- the stack and all views are kept: the potential is unchanged -/
theorem Phi_same {s r : State} {P : Nat → List Nat} (e : Same s r) (hst : r.stack = s.stack) : Phi r P = Phi s P := by
  have hB : Bof r = Bof s := by
    unfold Bof; rw [Dsum_same e.len (fun f => by unfold depTerm; rw [e.view])]
  unfold Phi
  rw [hst]
  refine phiGo_congr _ _ Eq (fun _ _ _ h => by rw [h]) _ _ _ rfl ?_
  intro x _ A A' hA
  subst hA
  unfold ew
  rw [hB, e.len, e.view]

/-- the top of the stack is popped; the other entries keep their weight -/
theorem Phi_pop {s r : State} {P : Nat → List Nat} (hl : r.futs.length = s.futs.length) (hB : Bof r = Bof s)
    {top : Nat} {st : List Nat} (hstk : s.stack = top :: st) (hst : r.stack = st)
    (hvo : ∀ x, x ≠ top → view r x = view s x)
    (htop : ∀ A A', top ∈ A → ew r P A' top = ew s P A top) : Phi r P < Phi s P := by
  unfold Phi
  rw [hstk, hst]
  show phiGo (ew r P) [] st < ew s P [] top + phiGo (ew s P) [top] st
  have hpos : 0 < ew s P [] top := ewp_pos _ (Bof_pos s) _ _ _ _
  have : phiGo (ew r P) [] st = phiGo (ew s P) [top] st := by
    refine phiGo_congr _ _ (fun A A' => top ∈ A ∧ ∀ y, y ≠ top → (y ∈ A ↔ y ∈ A')) ?_ st [top] [] ?_ ?_
    · intro A A' x ⟨h1, h2⟩
      refine ⟨List.mem_cons_of_mem _ h1, fun y hy => ?_⟩
      simp [h2 y hy]
    · exact ⟨List.mem_cons_self, fun y hy => by simp [hy]⟩
    · intro x _ A A' ⟨h1, h2⟩
      by_cases hx : x = top
      · subst hx; exact htop A A' h1
      · unfold ew
        rw [hB, hl, hvo x hx]
        exact ewp_congr rfl rfl (fun _ _ => by rw [h2 x hx])
  omega

theorem pow_mono {B a b : Nat} (hB : 0 < B) (h : a ≤ b) : B ^ a ≤ B ^ b := Nat.pow_le_pow_right hB h

/-- first visit of a blocked task: its entry loses half of its weight, its dependencies weigh less than that -/
theorem Phi_first {s r : State} {P : Nat → List Nat} (hC : InvC s P) (hl : r.futs.length = s.futs.length)
    (hB : Bof r = Bof s) {top : Nat} {st : List Nat} (hstk : s.stack = top :: st)
    (hk : (view s top).kind = .task) (hc : s.computed top = false) (hfl : (view s top).flag = false)
    (hvt : view r top = flagView true (view s top)) (hvo : ∀ x, x ≠ top → view r x = view s x)
    (hst : r.stack = ((view s top).deps.filter fun d => !s.computed d).reverse ++ s.stack) :
    Phi r P < Phi s P := by
  have ho := out_none_of_uncomputed hc
  have htl : top < s.futs.length := hC.paths.stackLt top (by rw [hstk]; exact List.mem_cons_self)
  generalize hds : ((view s top).deps.filter fun d => !s.computed d) = ds at hst
  have hdsmem : ∀ d, d ∈ ds → d ∈ (view s top).deps := by
    intro d hd; rw [← hds] at hd; exact (List.mem_filter.1 hd).1
  have htopds : top ∉ ds := fun h => PLt.irrefl _ (hC.paths.edge top top (hdsmem top h) hk)
  have hBpos : 0 < Bof s := Bof_pos s
  -- the number of pushed entries is small compared to `B`
  have hlen : 2 * ds.length + 1 ≤ Bof s := by
    have h1 : ds.length ≤ (view s top).deps.length := by rw [← hds]; exact List.length_filter_le _ _
    have h2 : depTerm s top ≤ Dsum s := le_rsum htl
    have h3 : depTerm s top = (view s top).deps.length := by unfold depTerm; rw [if_pos hk]
    show 2 * ds.length + 1 ≤ 2 * Dsum s + 1
    omega
  unfold Phi
  rw [hstk, hst, hstk, phiGo_append]
  show phiGo (ew r P) [] ds.reverse + (ew r P (ds.reverse.reverse ++ []) top +
    phiGo (ew r P) (top :: (ds.reverse.reverse ++ [])) st) < ew s P [] top + phiGo (ew s P) [top] st
  -- the old entry
  have h1 : ew s P [] top = 2 * Bof s ^ (rank P s.futs.length top + 1) := by
    unfold ew ewp
    rw [if_pos ⟨hk, ho⟩, if_neg (by rw [hfl]; simp)]
  -- the flagged entry
  have h2 : ew r P (ds.reverse.reverse ++ []) top = Bof s ^ (rank P s.futs.length top + 1) := by
    unfold ew ewp
    rw [hB, hl, hvt]
    rw [if_pos ⟨hk, ho⟩, if_pos ⟨rfl, by simpa using htopds⟩]
  -- the entries below keep their weight
  have h3 : phiGo (ew r P) (top :: (ds.reverse.reverse ++ [])) st = phiGo (ew s P) [top] st := by
    refine phiGo_congr _ _ (fun A A' => top ∈ A ∧ top ∈ A' ∧ ∀ y, (y ∈ A' ↔ y ∈ A ∨ y ∈ ds)) ?_ st _ _ ?_ ?_
    · intro A A' x ⟨h1, h2, h3⟩
      refine ⟨List.mem_cons_of_mem _ h1, List.mem_cons_of_mem _ h2, fun y => ?_⟩
      simp [h3 y, or_assoc]
    · refine ⟨List.mem_cons_self, List.mem_cons_self, fun y => ?_⟩
      simp
    · intro x _ A A' ⟨hA, hA', hmem⟩
      unfold ew
      rw [hB, hl]
      by_cases hx : x = top
      · subst hx
        rw [hvt]
        refine ewp_congr rfl rfl (fun _ _ => ?_)
        constructor
        · intro h; exact absurd hA' h.2
        · intro h; rw [hfl] at h; cases h.1
      · rw [hvo x hx]
        refine ewp_congr rfl rfl (fun hkx hox => ?_)
        constructor
        · intro ⟨hf, hn⟩
          exact ⟨hf, fun hm => hn ((hmem x).2 (Or.inl hm))⟩
        · intro ⟨hf, hn⟩
          refine ⟨hf, fun hm => ?_⟩
          rcases (hmem x).1 hm with h | h
          · exact hn h
          · exact no_flagged_dep hC hstk hk hfl (hdsmem x h) ⟨hkx, hf, hox⟩
  -- the pushed entries
  have h4 : phiGo (ew r P) [] ds.reverse ≤ ds.reverse.length * (2 * Bof s ^ (rank P s.futs.length top)) := by
    apply phiGo_le
    intro x hx A
    have hxds : x ∈ ds := List.mem_reverse.1 hx
    have hxne : x ≠ top := fun e => htopds (e ▸ hxds)
    unfold ew ewp
    rw [hB, hl, hvo x hxne]
    have hone : 1 ≤ 2 * Bof s ^ (rank P s.futs.length top) := by
      have := Nat.pow_pos (n := rank P s.futs.length top) hBpos
      omega
    split
    · rename_i hkx
      have hlt : rank P s.futs.length x < rank P s.futs.length top :=
        rank_lt P (hC.paths.depsLt top x (hdsmem x hxds)) (hC.paths.edge top x (hdsmem x hxds) hkx.1)
      have hp : Bof s ^ (rank P s.futs.length x + 1) ≤ Bof s ^ (rank P s.futs.length top) := pow_mono hBpos hlt
      split <;> omega
    · exact hone
  rw [h1, h2, h3]
  rw [List.length_reverse] at h4
  have hX : 0 < Bof s ^ (rank P s.futs.length top) := Nat.pow_pos hBpos
  have hpow : Bof s ^ (rank P s.futs.length top + 1) = Bof s ^ (rank P s.futs.length top) * Bof s := Nat.pow_succ _ _
  have hmul : (2 * ds.length) * Bof s ^ (rank P s.futs.length top) < Bof s * Bof s ^ (rank P s.futs.length top) :=
    Nat.mul_lt_mul_of_pos_right (by omega) hX
  have e1 : ds.length * (2 * Bof s ^ (rank P s.futs.length top)) = (2 * ds.length) * Bof s ^ (rank P s.futs.length top) := by
    rw [Nat.mul_comm 2 ds.length, Nat.mul_assoc]
  have e2 : Bof s ^ (rank P s.futs.length top) * Bof s = Bof s * Bof s ^ (rank P s.futs.length top) := Nat.mul_comm _ _
  rw [hpow, e2]
  rw [e1] at h4
  omega

end AsynqModel.Core.P6T
