import AsynqModel.Proofs.P9InvGen
import AsynqModel.Proofs.P3Main
/-
  P9 (property C20), part 11: `J` holds initially and is preserved by every step in which the guard does not fire.
-/
namespace AsynqModel.Core.P9
open AsynqModel.Core

theorem J_init (cfg : Cfg) (tops : List (Conv × Body)) (choices : List (Nat × Nat)) : J (initState cfg tops choices) := by
  refine ⟨P3.core_init _ _ _, trivial, fun t h => by simp [initState] at h, fun t => ⟨[], ?_, by simp⟩, ?_⟩
  · simp [initState, State.task, State.fut]
  · intro k b hb
    simp [initState, State.curBatch?] at hb

theorem core_step (s : State) (hc : P3.Core s) (hg : (step s).guardFired = false) : P3.Core (step s) := by
  rcases P3.step_core s with ⟨_, _, e⟩ | ⟨_, h2⟩
  · rw [e, P3.guardReset_guardFired] at hg; cases hg
  · exact (h2 hc).1

theorem J_genStep (s : State) (hj : J s) (t : Nat) (old : Option Nat) (rest : List Ctl)
    (hctl : s.ctl = .gen t old :: rest) (hcore : P3.Core (s.genStep t old)) : J (s.genStep t old) := by
  have hstk : StackOK s.cfg.maxStack (.gen t old :: rest) s.stack := by rw [← hctl]; exact hj.stk
  obtain ⟨_, _, hnotin, _, hrest⟩ := hstk
  have hfrt : FrOK s t := hj.fr t (inFrame_head hctl)
  obtain ⟨hk, hdep', hfr'⟩ := res_genStep s t old hfrt (hj.dep t)
  have hshape : ((s.genStep t old).ctl = s.ctl ∨ (s.genStep t old).ctl = s.ctl.tail ∨
      ∃ f, (s.genStep t old).ctl = .waitEnter f :: s.ctl) ∧ (s.genStep t old).stack = s.stack ∧
      (s.genStep t old).cfg = s.cfg := by
    rcases P3.genStep_trans s t old with h | h | ⟨f, h⟩
    · exact ⟨Or.inl h.ctl, h.stack, h.cfg⟩
    · exact ⟨Or.inr (Or.inl h.ctl), h.stack, h.cfg⟩
    · exact ⟨Or.inr (Or.inr ⟨f, h.ctl⟩), h.stack, h.cfg⟩
  obtain ⟨hc, hs, hcfg⟩ := hshape
  refine J_build hj hk hcore (congrArg Cfg.maxStack hcfg) ?_ ?_ (fun u hu => by rw [hu]; exact hdep')
  · rw [hs]
    rcases hc with h | h | ⟨f, h⟩
    · rw [h]; exact hj.stk
    · rw [h, hctl]; exact hrest
    · rw [h]; exact hj.stk
  · intro u hu
    have hsub : inFrame s.ctl u = true := by
      rcases hc with h | h | ⟨f, h⟩
      · rw [h] at hu; exact hu
      · rw [h, hctl] at hu
        rw [hctl]
        simp only [List.tail_cons] at hu
        simp [hu]
      · rw [h] at hu; simpa using hu
    by_cases hut : u = t
    · subst hut
      rcases hfr' with h | h
      · exact Or.inr h
      · exfalso
        rw [h, hctl] at hu
        simp only [List.tail_cons] at hu
        rw [hnotin] at hu; cases hu
    · exact Or.inl ⟨hsub, fun h => h, hut⟩

theorem J_step (s : State) (hj : J s) (hg : (step s).guardFired = false) : J (step s) := by
  have hcore := core_step s hj.core hg
  have hr : s.raising = none := hj.core.raising
  cases hst : s.stuck with
  | some m => rw [step_stuck s (by simp [hst])]; exact hj
  | none =>
    cases hctl : s.ctl with
    | nil =>
      cases hc : s.curTop with
      | some f =>
        rw [step_nil_top s f hst hctl hc] at hcore ⊢
        exact J_same hj rfl rfl rfl rfl rfl hcore
      | none =>
        cases ht : s.tops with
        | nil => rw [step_nil_done s hst hctl hc ht]; exact hj
        | cons p rest =>
          obtain ⟨conv, body⟩ := p
          rw [step_nil_start s conv body rest hst hctl hc ht] at hcore ⊢
          unfold topStart at hcore ⊢
          simp only at hcore ⊢
          have hk : Keep0 s (({ s with tops := rest, topIdx := s.topIdx + 1 } : State).emit (.top s.topIdx conv)) :=
            Keep.trans (s1 := { s with tops := rest, topIdx := s.topIdx + 1 }) (Keep.of_futs rfl rfl) (k_emit _ _)
          generalize hs1 : (({ s with tops := rest, topIdx := s.topIdx + 1 } : State).emit (.top s.topIdx conv)) = s1
            at hk hcore ⊢
          have hk2 : Keep0 s { (s1.newTask body []).1 with curTop := some (s1.newTask body []).2, ctl := [.waitEnter (s1.newTask body []).2] } :=
            (hk.trans (k_newTask _ _ _)).trans (Keep.of_futs rfl rfl)
          refine J_build hj hk2 hcore ?_ trivial (fun u hu => by simp at hu) (fun _ h => h.elim)
          rw [← hs1]; rfl
    | cons c rest =>
      cases c with
      | waitEnter root =>
        rw [step_waitEnter s root rest hst hctl] at hcore ⊢
        unfold weCore at hcore ⊢
        simp only [hr, Option.isSome_none, Bool.false_eq_true, if_false] at hcore ⊢
        have hstk : StackOK s.cfg.maxStack (.waitEnter root :: rest) s.stack := by rw [← hctl]; exact hj.stk
        cases hc : s.computed root with
        | true =>
          simp only [hc, if_true] at hcore ⊢
          refine J_build (A := none1) (D := none1) hj (Keep.of_futs rfl rfl) hcore rfl ?_ ?_ (fun _ h => h.elim)
          · show StackOK _ s.ctl.tail s.stack
            rw [hctl]; exact hstk
          · intro u hu
            have : inFrame s.ctl.tail u = true := hu
            rw [hctl] at this ⊢
            exact Or.inl ⟨by simpa using this, fun h => h, fun h => h⟩
        | false =>
          simp only [hc, Bool.false_eq_true, if_false] at hcore ⊢
          refine J_build (A := none1) (D := none1) hj (Keep.of_futs rfl rfl) hcore rfl ?_ ?_ (fun _ h => h.elim)
          · show StackOK _ (.waitLoop root s.stack.length :: s.ctl.tail) (root :: s.stack)
            rw [hctl]; exact stackOK_enter hstk root
          · intro u hu
            have : inFrame (.waitLoop root s.stack.length :: s.ctl.tail) u = true := hu
            rw [hctl] at this ⊢
            exact Or.inl ⟨by simpa using this, fun h => h, fun h => h⟩
      | waitLoop root base =>
        rw [step_waitLoop s root base rest hst hctl] at hcore hg ⊢
        unfold wlCore at hcore hg ⊢
        simp only [hr, Option.isSome_none, Bool.false_eq_true, if_false] at hcore hg ⊢
        have hstk : StackOK s.cfg.maxStack (.waitLoop root base :: rest) s.stack := by rw [← hctl]; exact hj.stk
        by_cases hab : s.stack.length > base
        · simp only [hab, decide_true, if_true] at hcore hg ⊢
          exact J_executeIter s hj root base rest hctl hab hg hcore
        · simp only [hab, decide_false, Bool.false_eq_true, if_false] at hcore hg ⊢
          have hle : s.stack.length ≤ base := by omega
          cases hc : s.computed root with
          | true =>
            simp only [hc, if_true] at hcore ⊢
            refine J_build (A := none1) (D := none1) hj (Keep.of_futs rfl rfl) hcore rfl ?_ ?_ (fun _ h => h.elim)
            · show StackOK _ s.ctl.tail s.stack
              rw [hctl]; exact stackOK_pop hstk hle
            · intro u hu
              have : inFrame s.ctl.tail u = true := hu
              rw [hctl] at this ⊢
              exact Or.inl ⟨by simpa using this, fun h => h, fun h => h⟩
          | false =>
            simp only [hc, Bool.false_eq_true, if_false] at hcore ⊢
            have ht := P3.schedulerFlush_trans s root
            refine J_build hj (k_schedulerFlush (A := none1) (D := none1) s root) hcore (congrArg Cfg.maxStack ht.cfg)
              ?_ ?_ (fun _ h => h.elim)
            · rw [ht.ctl, ht.stack, hctl]
              show StackOK _ rest s.stack
              exact stackOK_pop hstk hle
            · intro u hu
              rw [ht.ctl, hctl] at hu
              rw [hctl]
              exact Or.inl ⟨by simpa using hu, fun h => h, fun h => h⟩
      | gen t old =>
        rw [step_gen s t old rest hst hctl] at hcore ⊢
        have hb : genBad s t = false := by simp [genBad, hr]
        unfold genCore at hcore ⊢
        simp only [hb, Bool.false_eq_true, if_false] at hcore ⊢
        exact J_genStep s hj t old rest hctl hcore

end AsynqModel.Core.P9
