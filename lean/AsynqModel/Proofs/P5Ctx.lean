import AsynqModel.Proofs.P5Ext
/-!
  P5: the context primitives (`ctxResumeOne`, `ctxPauseOne`) and the context invariant `J`.
-/
namespace AsynqModel.Core.P5
open AsynqModel.Core

/-! ### the resume/pause word of a context -/

/-- the resume (`true`) / pause (`false`) events of context `c` in a trace, NEWEST first (like the trace) -/
def word (tr : List Event) (c : Nat) : List Bool :=
  tr.filterMap fun e => match e with
    | .ctx b c' => if c' = c then some b else none
    | _ => none

/-- the same, oldest first -/
def ctxWord (tr : List Event) (c : Nat) : List Bool := (word tr c).reverse

/-- on a newest-first word: adjacent events differ and the oldest one is a resume -/
def goodRev : List Bool → Bool
  | [] => true
  | [b] => b
  | b :: b' :: r => (b != b') && goodRev (b' :: r)

theorem word_cons (e : Event) (tr : List Event) (c : Nat) :
    word (e :: tr) c = (match e with | .ctx b c' => if c' = c then [b] else [] | _ => []) ++ word tr c := by
  cases e <;> simp [word, List.filterMap_cons]
  split <;> simp_all

theorem word_silent (e : Event) (tr : List Event) (c : Nat) (h : silent e = true) : word (e :: tr) c = word tr c := by
  rw [word_cons]; cases e <;> simp_all [silent]

theorem word_silents (evs tr : List Event) (c : Nat) (h : ∀ e ∈ evs, silent e = true) : word (evs ++ tr) c = word tr c := by
  induction evs with
  | nil => rfl
  | cons e evs ih =>
    rw [List.cons_append, word_silent _ _ _ (h e (by simp)), ih (fun e he => h e (by simp [he]))]

theorem word_ctx_self (b : Bool) (c : Nat) (tr : List Event) : word (.ctx b c :: tr) c = b :: word tr c := by
  simp [word_cons]

theorem word_ctx_ne (b : Bool) (c c' : Nat) (tr : List Event) (h : c' ≠ c) : word (.ctx b c' :: tr) c = word tr c := by
  simp [word_cons, h]

theorem goodRev_cons (b : Bool) (w : List Bool) (h : goodRev w = true) (hh : w.head?.getD false = !b) :
    goodRev (b :: w) = true := by
  cases w with
  | nil => simp at hh; simp [goodRev, hh]
  | cons b' r => simp at hh; subst hh; simp [goodRev, h]

/-- every resume/pause event of `c` in the trace has the creation event of `c` below (before) it -/
def afterNew (c : Nat) : List Event → Prop
  | [] => True
  | e :: pre => (∀ b, e = .ctx b c → ∃ t k, Event.ctxN c t k ∈ pre) ∧ afterNew c pre

/-- below (before) every exit event of `c` the newest resume/pause event of `c`, if any, is a pause -/
def exitOK (c : Nat) : List Event → Prop
  | [] => True
  | e :: pre => (e = .ctxX c → (word pre c).head? ≠ some true) ∧ exitOK c pre

theorem afterNew_silents (c : Nat) (evs tr : List Event) (h : ∀ e ∈ evs, silent e = true) (h' : afterNew c tr) :
    afterNew c (evs ++ tr) := by
  induction evs with
  | nil => exact h'
  | cons e evs ih =>
    refine ⟨?_, ih (fun e he => h e (by simp [he]))⟩
    intro b hb
    have := h e (by simp)
    rw [hb] at this; simp [silent] at this

theorem exitOK_silents (c : Nat) (evs tr : List Event) (h : ∀ e ∈ evs, silent e = true) (h' : exitOK c tr) :
    exitOK c (evs ++ tr) := by
  induction evs with
  | nil => exact h'
  | cons e evs ih =>
    refine ⟨?_, ih (fun e he => h e (by simp [he]))⟩
    intro hb
    have := h e (by simp)
    rw [hb] at this; simp [silent] at this

/-! ### scoped values -/

@[simp] theorem svSet_futs (s : State) (v a : Nat) : (s.svSet v a).futs = s.futs := by unfold State.svSet; split <;> rfl
@[simp] theorem svSet_ctxs (s : State) (v a : Nat) : (s.svSet v a).ctxs = s.ctxs := by unfold State.svSet; split <;> rfl
@[simp] theorem svSet_trace (s : State) (v a : Nat) : (s.svSet v a).trace = s.trace := by unfold State.svSet; split <;> rfl
@[simp] theorem svSet_cfg (s : State) (v a : Nat) : (s.svSet v a).cfg = s.cfg := by unfold State.svSet; split <;> rfl
@[simp] theorem svSet_ctl (s : State) (v a : Nat) : (s.svSet v a).ctl = s.ctl := by unfold State.svSet; split <;> rfl
@[simp] theorem svSet_active (s : State) (v a : Nat) : (s.svSet v a).active = s.active := by unfold State.svSet; split <;> rfl
@[simp] theorem svSet_stack (s : State) (v a : Nat) : (s.svSet v a).stack = s.stack := by unfold State.svSet; split <;> rfl
@[simp] theorem svSet_stuck (s : State) (v a : Nat) : (s.svSet v a).stuck = s.stuck := by unfold State.svSet; split <;> rfl
@[simp] theorem svSet_raising (s : State) (v a : Nat) : (s.svSet v a).raising = s.raising := by unfold State.svSet; split <;> rfl
@[simp] theorem svSet_guardFired (s : State) (v a : Nat) : (s.svSet v a).guardFired = s.guardFired := by
  unfold State.svSet; split <;> rfl
@[simp] theorem svTouch_futs (s : State) (v : Nat) : (s.svTouch v).futs = s.futs := by unfold State.svTouch; split <;> rfl
@[simp] theorem svTouch_ctxs (s : State) (v : Nat) : (s.svTouch v).ctxs = s.ctxs := by unfold State.svTouch; split <;> rfl
@[simp] theorem svTouch_trace (s : State) (v : Nat) : (s.svTouch v).trace = s.trace := by unfold State.svTouch; split <;> rfl
@[simp] theorem svTouch_cfg (s : State) (v : Nat) : (s.svTouch v).cfg = s.cfg := by unfold State.svTouch; split <;> rfl
@[simp] theorem svTouch_ctl (s : State) (v : Nat) : (s.svTouch v).ctl = s.ctl := by unfold State.svTouch; split <;> rfl
@[simp] theorem svTouch_active (s : State) (v : Nat) : (s.svTouch v).active = s.active := by unfold State.svTouch; split <;> rfl
@[simp] theorem svTouch_stack (s : State) (v : Nat) : (s.svTouch v).stack = s.stack := by unfold State.svTouch; split <;> rfl
@[simp] theorem svTouch_stuck (s : State) (v : Nat) : (s.svTouch v).stuck = s.stuck := by unfold State.svTouch; split <;> rfl
@[simp] theorem svTouch_raising (s : State) (v : Nat) : (s.svTouch v).raising = s.raising := by
  unfold State.svTouch; split <;> rfl
@[simp] theorem svTouch_guardFired (s : State) (v : Nat) : (s.svTouch v).guardFired = s.guardFired := by
  unfold State.svTouch; split <;> rfl

/-! ### resume / pause of one context -/

/-- `s'` is `s` with the flag of context `c` set to `b` and the event `.ctx b c` logged (scoped values may differ) -/
structure FlagOp (s s' : State) (c : Nat) (b : Bool) : Prop where
  futs : s'.futs = s.futs
  cfg : s'.cfg = s.cfg
  trace : s'.trace = .ctx b c :: s.trace
  ne : ∀ c', c' ≠ c → s'.ctxs[c']? = s.ctxs[c']?
  eq : ∀ x, s.ctxs[c]? = some x →
    ∃ x', s'.ctxs[c]? = some x' ∧ x'.kind = x.kind ∧ x'.owner = x.owner ∧ x'.resumed = b
  len : s'.ctxs.length = s.ctxs.length

theorem flagOp_resume (s : State) (c : Nat) : FlagOp s (s.ctxResumeOne c) c true := by
  unfold State.ctxResumeOne State.ctxSetResumed
  cases h : s.ctxs[c]? with
  | none => simp only [emit_ctxs, h]; exact ⟨rfl, rfl, rfl, fun _ _ => rfl, fun x hx => by simp [h] at hx, rfl⟩
  | some x =>
    have hc : c < s.ctxs.length := by
      rcases Nat.lt_or_ge c s.ctxs.length with h' | h'
      · exact h'
      · rw [List.getElem?_eq_none h'] at h; cases h
    simp only [emit_ctxs, h, List.getElem?_set_self hc]
    cases hk : x.kind with
    | override var val =>
      simp only
      refine ⟨by simp, by simp, by simp, ?_, ?_, by simp⟩
      · intro c' hc'; simp [Ne.symm hc']
      · intro y hy; rw [h] at hy; cases hy; exact ⟨_, List.getElem?_set_self (by simpa using hc), by simp [hk], rfl, rfl⟩
    | plain =>
      simp only
      refine ⟨rfl, rfl, rfl, ?_, ?_, by simp⟩
      · intro c' hc'; simp [Ne.symm hc']
      · intro y hy; rw [h] at hy; cases hy; exact ⟨_, List.getElem?_set_self (by simpa using hc), by simp [hk], rfl, rfl⟩
    | nonasync =>
      simp only
      refine ⟨rfl, rfl, rfl, ?_, ?_, by simp⟩
      · intro c' hc'; simp [Ne.symm hc']
      · intro y hy; rw [h] at hy; cases hy; exact ⟨_, List.getElem?_set_self (by simpa using hc), by simp [hk], rfl, rfl⟩

theorem flagOp_pause (s : State) (c : Nat) : FlagOp s (s.ctxPauseOne c) c false := by
  unfold State.ctxPauseOne State.ctxSetResumed
  cases h : s.ctxs[c]? with
  | none => simp only [emit_ctxs, h]; exact ⟨rfl, rfl, rfl, fun _ _ => rfl, fun x hx => by simp [h] at hx, rfl⟩
  | some x =>
    have hc : c < s.ctxs.length := by
      rcases Nat.lt_or_ge c s.ctxs.length with h' | h'
      · exact h'
      · rw [List.getElem?_eq_none h'] at h; cases h
    simp only [emit_ctxs, h, List.getElem?_set_self hc]
    cases hk : x.kind with
    | override var val =>
      simp only
      refine ⟨by simp, by simp, by simp, ?_, ?_, by simp⟩
      · intro c' hc'; simp [Ne.symm hc']
      · intro y hy; rw [h] at hy; cases hy; refine ⟨_, by rw [svSet_ctxs]; exact List.getElem?_set_self (by simpa using hc), ?_, ?_, ?_⟩ <;> simp [hk]
    | plain =>
      simp only
      refine ⟨rfl, rfl, rfl, ?_, ?_, by simp⟩
      · intro c' hc'; simp [Ne.symm hc']
      · intro y hy; rw [h] at hy; cases hy; exact ⟨_, List.getElem?_set_self (by simpa using hc), by simp [hk], rfl, rfl⟩
    | nonasync =>
      simp only
      refine ⟨rfl, rfl, rfl, ?_, ?_, by simp⟩
      · intro c' hc'; simp [Ne.symm hc']
      · intro y hy; rw [h] at hy; cases hy; exact ⟨_, List.getElem?_set_self (by simpa using hc), by simp [hk], rfl, rfl⟩

theorem FlagOp.task {s s' : State} {c : Nat} {b : Bool} (h : FlagOp s s' c b) (t : Nat) : s'.task t = s.task t := by
  simp [State.task, State.fut, h.futs]

theorem FlagOp.computed {s s' : State} {c : Nat} {b : Bool} (h : FlagOp s s' c b) (t : Nat) :
    s'.computed t = s.computed t := by
  simp [State.computed, State.out, State.fut, h.futs]

/-! ### the context invariant -/

def resumedD (s : State) (c : Nat) : Bool :=
  match s.ctxs[c]? with
  | some x => x.resumed
  | none => false

/-- the context invariant.  `done`: contexts whose `__exit__` has run but which are still listed in `conts`
    (inside `exitAll`); `pend`: registered contexts whose flag still has to be flipped (inside
    `resumeContexts` / `pauseContexts`, after `ctxActive` was switched). -/
structure J (s : State) (done pend : List Nat) : Prop where
  reg : ∀ t c, c ∈ (s.task t).ctxs → ∃ x : CtxSt, s.ctxs[c]? = some x ∧ x.owner = some t ∧
    (x.kind = .nonasync ∨ x.resumed = ((s.task t).ctxActive != decide (c ∈ pend)))
  nodup : ∀ t, (s.task t).ctxs.Nodup
  cnodup : ∀ t, ((s.task t).conts.map (·.1)).Nodup
  cdisj : ∀ t u c, c ∈ (s.task t).conts.map (·.1) → c ∈ (s.task u).conts.map (·.1) → t = u
  cbound : ∀ t c, c ∈ (s.task t).conts.map (·.1) → c < s.ctxs.length
  opn : ∀ t c, c ∈ (s.task t).conts.map (·.1) → c ∉ done → ∀ x : CtxSt, s.ctxs[c]? = some x → x.kind ≠ .nonasync →
    match x.owner with
    | some o => c ∈ (s.task o).ctxs
    | none => x.resumed = true
  na : ∀ (c : Nat) (x : CtxSt), s.ctxs[c]? = some x → x.kind = .nonasync → x.resumed = false
  good : ∀ c, goodRev (word s.trace c) = true
  head : ∀ c, (word s.trace c).head?.getD false = resumedD s c
  newOK : ∀ c, c < s.ctxs.length → ∃ t k, Event.ctxN c t k ∈ s.trace
  after : ∀ c, afterNew c s.trace
  exit : ∀ c, exitOK c s.trace

theorem J_neutral {s s' : State} {d p : List Nat} (h : Neutral s s') (j : J s d p) : J s' d p := by
  obtain ⟨evs, htr, hsil⟩ := h.trace
  have hw : ∀ c, word s'.trace c = word s.trace c := fun c => by rw [htr, word_silents _ _ _ hsil]
  refine ⟨?_, ?_, ?_, ?_, ?_, ?_, ?_, ?_, ?_, ?_, ?_, ?_⟩
  · intro t c hc
    rw [h.tctxs] at hc; rw [h.ctxs, h.tact]; exact j.reg t c hc
  · intro t; rw [h.tctxs]; exact j.nodup t
  · intro t; rw [h.tconts]; exact j.cnodup t
  · intro t u c; rw [h.tconts, h.tconts]; exact j.cdisj t u c
  · intro t c; rw [h.tconts, h.ctxs]; exact j.cbound t c
  · intro t c hc hd x hx hk
    rw [h.tconts] at hc; rw [h.ctxs] at hx
    have := j.opn t c hc hd x hx hk
    cases ho : x.owner with
    | none => simpa [ho] using this
    | some o => simp only [ho] at this ⊢; rw [h.tctxs]; exact this
  · intro c x hx; rw [h.ctxs] at hx; exact j.na c x hx
  · intro c; rw [hw]; exact j.good c
  · intro c; rw [hw]; unfold resumedD; rw [h.ctxs]; exact j.head c
  · intro c hc; rw [h.ctxs] at hc
    obtain ⟨t, k, hm⟩ := j.newOK c hc
    exact ⟨t, k, by rw [htr]; exact List.mem_append_right _ hm⟩
  · intro c; rw [htr]; exact afterNew_silents c _ _ hsil (j.after c)
  · intro c; rw [htr]; exact exitOK_silents c _ _ hsil (j.exit c)

theorem J_ext {s s' : State} {d p : List Nat} (h : Ext s s') (j : J s d p) : J s' d p := J_neutral h.neutral j

/-- `J` only looks at the futures, the contexts and the trace -/
theorem J_congr {s s' : State} {d p : List Nat} (h1 : s'.futs = s.futs) (h2 : s'.ctxs = s.ctxs)
    (h3 : s'.trace = s.trace) (j : J s d p) : J s' d p := by
  have ht : ∀ t, s'.task t = s.task t := fun t => by simp [State.task, State.fut, h1]
  have hr : ∀ c, resumedD s' c = resumedD s c := fun c => by simp [resumedD, h2]
  obtain ⟨a1, a2, a3, a4, a5, a6, a7, a8, a9, a10, a11, a12⟩ := j
  refine ⟨?_, ?_, ?_, ?_, ?_, ?_, ?_, ?_, ?_, ?_, ?_, ?_⟩ <;> simp only [ht, h2, h3, hr] <;> assumption

theorem J.congr {s s' : State} {d p : List Nat} (j : J s d p) (h1 : s'.futs = s.futs) (h2 : s'.ctxs = s.ctxs)
    (h3 : s'.trace = s.trace) : J s' d p := J_congr h1 h2 h3 j

/-- weakening: contexts may be added to `done` -/
theorem J_done_mono {s : State} {d d' p : List Nat} (h : ∀ c, c ∈ d → c ∈ d') (j : J s d p) : J s d' p :=
  { j with opn := fun t c hc hd => j.opn t c hc (fun hd' => hd (h c hd')) }

/-- flipping the flag of one context which is not `NonAsync` and whose flag has the other value -/
theorem J_flag {s s' : State} {c : Nat} {b : Bool} {d p : List Nat} (h : FlagOp s s' c b) (j : J s d p)
    (x : CtxSt) (hx : s.ctxs[c]? = some x) (hk : x.kind ≠ .nonasync) (hr : x.resumed = !b)
    (hp : ∀ t, c ∈ (s.task t).ctxs → c ∈ p)
    (ho : c ∈ d ∨ x.owner ≠ none ∨ b = true ∨ ∀ t, c ∉ (s.task t).conts.map (·.1)) :
    J s' d (p.filter (· != c)) := by
  obtain ⟨x', hx', hk', ho', hr'⟩ := h.eq x hx
  have hw : ∀ c', c' ≠ c → word s'.trace c' = word s.trace c' := fun c' hc' => by
    rw [h.trace, word_ctx_ne _ _ _ _ (Ne.symm hc')]
  have hwc : word s'.trace c = b :: word s.trace c := by rw [h.trace, word_ctx_self]
  refine ⟨?_, ?_, ?_, ?_, ?_, ?_, ?_, ?_, ?_, ?_, ?_, ?_⟩
  · intro t c' hc'
    rw [h.task] at hc' ⊢
    obtain ⟨y, hy, hyo, hyr⟩ := j.reg t c' hc'
    by_cases hcc : c' = c
    · subst hcc
      rw [hx] at hy; cases hy
      refine ⟨x', hx', ho'.trans hyo, .inr ?_⟩
      have hin := hp t hc'
      rcases hyr with hyr | hyr
      · exact absurd hyr hk
      · rw [hr'] ; rw [hr] at hyr
        simp [hin] at hyr ⊢
        cases hb : b <;> simp_all
    · refine ⟨y, by rw [h.ne c' hcc]; exact hy, hyo, ?_⟩
      rcases hyr with hyr | hyr
      · exact .inl hyr
      · refine .inr ?_
        rw [hyr]
        by_cases hin : c' ∈ p <;> simp [hin, hcc]
  · intro t; rw [h.task]; exact j.nodup t
  · intro t; rw [h.task]; exact j.cnodup t
  · intro t u c'; rw [h.task, h.task]; exact j.cdisj t u c'
  · intro t c'; rw [h.task, h.len]; exact j.cbound t c'
  · intro t c' hc' hd y hy hyk
    rw [h.task] at hc'
    by_cases hcc : c' = c
    · subst hcc
      rw [hx'] at hy; cases hy
      have := j.opn t c' hc' hd x hx hk
      rw [ho']
      cases hxo : x.owner with
      | some o => simp only [hxo] at this ⊢; rw [h.task]; exact this
      | none =>
        simp only
        rcases ho with ho | ho | ho | ho
        · exact absurd ho hd
        · exact absurd hxo ho
        · rw [hr', ho]
        · exact absurd hc' (ho t)
    · rw [h.ne c' hcc] at hy
      have := j.opn t c' hc' hd y hy hyk
      cases hyo : y.owner with
      | some o => simp only [hyo] at this ⊢; rw [h.task]; exact this
      | none => simpa [hyo] using this
  · intro c' y hy hyk
    by_cases hcc : c' = c
    · subst hcc; rw [hx'] at hy; cases hy; rw [hk'] at hyk; exact absurd hyk hk
    · rw [h.ne c' hcc] at hy; exact j.na c' y hy hyk
  · intro c'
    by_cases hcc : c' = c
    · subst hcc; rw [hwc]
      refine goodRev_cons _ _ (j.good c') ?_
      rw [j.head c']; simp [resumedD, hx, hr]
    · rw [hw c' hcc]; exact j.good c'
  · intro c'
    by_cases hcc : c' = c
    · subst hcc; rw [hwc]; simp [resumedD, hx', hr']
    · rw [hw c' hcc]; unfold resumedD; rw [h.ne c' hcc]; exact j.head c'
  · intro c' hc'; rw [h.len] at hc'
    obtain ⟨t, k, hm⟩ := j.newOK c' hc'
    exact ⟨t, k, by rw [h.trace]; exact List.mem_cons_of_mem _ hm⟩
  · intro c'; rw [h.trace]
    refine ⟨?_, j.after c'⟩
    intro b' hb'
    cases hb'
    have hc : c < s.ctxs.length := by
      rcases Nat.lt_or_ge c s.ctxs.length with h' | h'
      · exact h'
      · rw [List.getElem?_eq_none h'] at hx; cases hx
    exact j.newOK c hc
  · intro c'; rw [h.trace]
    exact ⟨fun he => (by cases he), j.exit c'⟩

end AsynqModel.Core.P5
