import AsynqModel.Lib.CacheKw
import AsynqModel.Proofs.Cache
/-! helper lemmas for C13, open signatures (`**opts`, tuple-valued positional arguments): the key as written is the
    reference key of every valid call; the reference key is an injective image of the normalised arguments -/
namespace AsynqModel.Cache

theorem argElem_injective {a b : Nat} (h : argElem a = argElem b) : a = b := by
  unfold argElem at h
  by_cases ha : a < 1000 <;> by_cases hb : b < 1000 <;> simp [ha, hb] at h
  · exact h
  · obtain ⟨h1, h2⟩ := h
    have ea := Nat.div_add_mod (a - 1000) 100
    have eb := Nat.div_add_mod (b - 1000) 100
    rw [h1, h2] at ea
    have : a - 1000 = b - 1000 := ea.symm.trans eb
    omega

theorem map_argElem_inj {a b : List Nat} (h : a.map argElem = b.map argElem) : a = b := by
  induction a generalizing b with
  | nil => cases b with
    | nil => rfl
    | cons y ys => simp at h
  | cons x xs ih => cases b with
    | nil => simp at h
    | cons y ys =>
      simp only [List.map_cons, List.cons.injEq] at h
      rw [argElem_injective h.1, ih h.2]

theorem map_pairElem_inj {a b : List (Name × Nat)} (h : a.map pairElem = b.map pairElem) : a = b := by
  induction a generalizing b with
  | nil => cases b with
    | nil => rfl
    | cons y ys => simp at h
  | cons x xs ih => cases b with
    | nil => simp at h
    | cons y ys =>
      simp only [List.map_cons, List.cons.injEq, pairElem, KeyElem.pair.injEq] at h
      have : x = y := Prod.ext h.1.1 h.1.2
      rw [this, ih h.2]

/-- the model of the tuple pair is injective -/
theorem pairKey_inj {t1 t2 u1 u2 : Key} (h : pairKey t1 t2 = pairKey u1 u2) : t1 = u1 ∧ t2 = u2 := by
  simp only [pairKey, List.cons.injEq, KeyElem.val.injEq] at h
  exact List.append_inj h.2 h.1

theorem bindRest_length (kwargs dflts : List (Name × Nat)) (names : List Name) (vs : List Nat)
    (h : bindRest kwargs dflts names = some vs) : vs.length = names.length := by
  induction names generalizing vs with
  | nil => simp [bindRest] at h; subst h; rfl
  | cons n ns ih =>
    simp only [bindRest] at h
    split at h
    · rename_i v vs' _ hvs
      simp at h; subst h
      simp [ih vs' hvs]
    · contradiction

/-- every valid call binds every named parameter: the number of named values is fixed by the signature -/
theorem openNorm0_named_length (v : Bool) (pos kwonly : List Name) (dflts : List (Name × Nat)) (c : Call) (n : Norm)
    (h : openNorm0 v pos kwonly dflts c = some n) : n.named.length = pos.length + kwonly.length := by
  unfold openNorm0 at h
  split at h
  · contradiction
  · split at h
    · contradiction
    · cases hb : bindRest c.kwargs dflts (pos.drop c.args.length ++ kwonly) with
      | none => simp [hb] at h
      | some vs =>
        simp [hb] at h
        subst h
        have := bindRest_length _ _ _ _ hb
        simp only [List.length_append, List.length_take, List.length_drop] at this ⊢
        omega

/-- the reference key determines the normalised arguments (among calls of ONE signature) -/
theorem normKey_inj (v : Bool) (n1 n2 : Norm) (hl : n1.named.length = n2.named.length)
    (hr : v = false → n1.rest = n2.rest) (h : normKey v n1 = normKey v n2) : n1 = n2 := by
  have split1 : ∀ (r1 r2 : List Nat),
      n1.named.map argElem ++ n1.opts.map pairElem = n2.named.map argElem ++ n2.opts.map pairElem →
      r1 = r2 → n1.rest = r1 → n2.rest = r2 → n1 = n2 := by
    intro r1 r2 ht hrr h1 h2
    have := List.append_inj ht (by simp [hl])
    have hn := map_argElem_inj this.1
    have ho := map_pairElem_inj this.2
    cases n1; cases n2
    simp only at hn ho h1 h2
    subst hn ho h1 h2 hrr
    rfl
  cases v with
  | true =>
    simp only [normKey, if_true] at h
    have := pairKey_inj h
    exact split1 _ _ this.1 (map_argElem_inj this.2) rfl rfl
  | false =>
    simp only [normKey, Bool.false_eq_true, if_false] at h
    exact split1 _ _ h (hr rfl) rfl rfl

/-- the key AS WRITTEN is the reference key of every valid call, however it is spelled -/
theorem openKey_of_norm (s : Sig) (pos : List Name) (c : Call) (n : Norm)
    (h : openNorm0 s.varargs pos s.kwonly (kwargsDefaults s) c = some n) :
    openKey s pos c = some (normKey s.varargs n) := by
  unfold openNorm0 at h
  split at h
  · contradiction
  · rename_i h1
    split at h
    · contradiction
    · cases hb : bindRest c.kwargs (kwargsDefaults s) (pos.drop c.args.length ++ s.kwonly) with
      | none => simp [hb] at h
      | some vs =>
        simp [hb] at h
        subst h
        unfold openKey
        cases hv : s.varargs with
        | false =>
          simp only [hv, Bool.not_false, Bool.true_and, decide_eq_true_eq] at h1
          have hle : c.args.length ≤ pos.length := by omega
          have h2 : c.args.take pos.length = c.args := List.take_of_length_le hle
          have h3 : c.args.drop pos.length = [] := List.drop_of_length_le hle
          have hdrop : (pos ++ s.kwonly).drop c.args.length = pos.drop c.args.length ++ s.kwonly :=
            List.drop_append_of_le_length hle
          simp [getArgsTupleE, hdrop, fillRest_eq_bindRest, hb, normKey, h2]
        | true =>
          have hlen : (c.args.take pos.length).length = min pos.length c.args.length := List.length_take
          have hdrop : (pos ++ s.kwonly).drop (min pos.length c.args.length) = pos.drop c.args.length ++ s.kwonly := by
            by_cases hle : pos.length ≤ c.args.length
            · rw [Nat.min_eq_left hle, List.drop_of_length_le hle, List.drop_left]
              rfl
            · rw [Nat.min_eq_right (by omega)]
              exact List.drop_append_of_le_length (by omega)
          simp [getArgsTupleE, hlen, hdrop, fillRest_eq_bindRest, hb, normKey]

/-- a call without a keyword named like a positional-only parameter binds as if there were no such parameters -/
theorem openNorm_of_clean (v : Bool) (po : Nat) (pos kwonly : List Name) (dflts : List (Name × Nat)) (c : Call)
    (h : poClean po pos c = true) : openNorm v po pos kwonly dflts c = openNorm0 v pos kwonly dflts c := by
  have hall : ∀ p ∈ c.kwargs, (!(pos.take po).contains p.1) = true := List.all_eq_true.mp h
  have hk : kwBinding po pos c.kwargs = c.kwargs := List.filter_eq_self.mpr hall
  have ho : optsOf (pos.drop po ++ kwonly) c.kwargs = optsOf (pos ++ kwonly) c.kwargs := by
    unfold optsOf
    congr 1
    apply List.filter_congr
    intro p hp
    have h1 := hall p hp
    have hsplit : pos = pos.take po ++ pos.drop po := (List.take_append_drop po pos).symm
    have : (pos ++ kwonly).contains p.1 = (pos.drop po ++ kwonly).contains p.1 := by
      conv => lhs; rw [hsplit]
      simp only [Bool.not_eq_true', List.contains_eq_mem, List.mem_append, decide_eq_false_iff_not] at h1 ⊢
      simp [h1]
    rw [this]
  unfold openNorm openNorm0
  simp only [hk, ho]

theorem openNorm_named_length (v : Bool) (po : Nat) (pos kwonly : List Name) (dflts : List (Name × Nat)) (c : Call) (n : Norm)
    (h : openNorm v po pos kwonly dflts c = some n) : n.named.length = pos.length + kwonly.length := by
  unfold openNorm at h
  simp only at h
  split at h
  · contradiction
  · split at h
    · contradiction
    · cases hb : bindRest (kwBinding po pos c.kwargs) dflts (pos.drop c.args.length ++ kwonly) with
      | none => simp [hb] at h
      | some vs =>
        simp [hb] at h
        subst h
        have := bindRest_length _ _ _ _ hb
        simp only [List.length_append, List.length_take, List.length_drop] at this ⊢
        omega

/-- without `*rest` a valid call has no overflow -/
theorem openNorm_rest_nil (po : Nat) (pos kwonly : List Name) (dflts : List (Name × Nat)) (c : Call) (n : Norm)
    (h : openNorm false po pos kwonly dflts c = some n) : n.rest = [] := by
  unfold openNorm at h
  simp only at h
  split at h
  · contradiction
  · rename_i hlt
    split at h
    · contradiction
    · cases hb : bindRest (kwBinding po pos c.kwargs) dflts (pos.drop c.args.length ++ kwonly) with
      | none => simp [hb] at h
      | some vs =>
        simp [hb] at h
        subst h
        simp only [Bool.not_false, Bool.true_and, decide_eq_true_eq] at hlt
        exact List.drop_of_length_le (by omega)

/-- every call the refinement theorems cover has the reference key as its key -/
theorem open_agree (s : Sig) (po : Nat) (pos : List Name) (c : Call) (h : openCallOK s po pos c = true) :
    openKey s pos c = openRefKey s po pos c := by
  unfold openCallOK at h
  cases hn : openNorm s.varargs po pos s.kwonly (kwargsDefaults s) c with
  | some n =>
    simp only [hn] at h
    have hn0 := hn
    rw [openNorm_of_clean _ _ _ _ _ _ h] at hn0
    simp [openRefKey, hn, openKey_of_norm s pos c n hn0]
  | none =>
    simp only [hn, Option.isNone_iff_eq_none] at h
    simp [openRefKey, hn, h]

theorem alru_open_agree (s : Sig) (po : Nat) (c : Call) (h : openCallOK s po s.args c = true) :
    alruOpenKey s c = alruOpenRefKey s po c := by
  unfold alruOpenKey alruOpenRefKey
  split
  · rfl
  · exact open_agree s po s.args c h

theorem perInst_open_agree (s : Sig) (po : Nat) (c : Call) (h : openCallOK s po (s.args.drop 1) c = true) :
    perInstOpenKey s c = perInstOpenRefKey s po c := by
  unfold perInstOpenKey perInstOpenRefKey
  split
  · rfl
  · exact open_agree s po (s.args.drop 1) c h

namespace PerInst

/-- the per-instance observer accepts the model whenever every call's key is its reference key and no value refers to
    its instance (the plain form of `watchRun_ok'`) -/
theorem watchRun_ok_eq (mk rk : Call → Option Key) (bd : Call → Option (List Nat))
    (ops : List Op) (w : Watch) (st : St) (h : Rel w st)
    (hk : ∀ i c r sr, Op.call i c r sr ∈ ops → mk c = rk c ∧ sr = false) :
    ∃ w', watchRun rk bd w ops (run mk bd st ops) = .ok w' := by
  induction ops generalizing w st with
  | nil => exact ⟨w, rfl⟩
  | cons op ops ih =>
    obtain ⟨w', h1, h2⟩ := rel_step mk rk bd w st op h
      (fun i c r sr e => hk i c r sr (by rw [e]; exact List.mem_cons_self))
    simp only [run, watchRun, h1]
    exact ih _ _ h2 (fun i c r sr ho => hk i c r sr (List.mem_cons_of_mem _ ho))

end PerInst

end AsynqModel.Cache
