import AsynqModel.Proofs.P2Basic
/-!
  P2: every helper of the machine (contexts, batches, flushes, task completion) is `Quiet`.
-/
namespace AsynqModel.Core.P2
open AsynqModel.Core

/-! ### operations that touch neither futures, trace, batches, control stack nor active task -/

/-- is the context object at index `c` of the list a NonAsyncContext -/
def naList (l : List CtxSt) (c : Nat) : Bool :=
  match l[c]? with
  | some x => x.kind == .nonasync
  | none => false

theorem ctxIsNonAsync_eq (s : State) (c : Nat) : s.ctxIsNonAsync c = naList s.ctxs c := rfl

theorem naList_set (l : List CtxSt) (c d : Nat) (x x' : CtxSt) (h : l[c]? = some x) (hk : x'.kind = x.kind) :
    naList (l.set c x') d = naList l d := by
  unfold naList
  rw [List.getElem?_set]
  by_cases hcd : c = d
  · subst hcd
    have hl : c < l.length := by
      apply Classical.byContradiction; intro hn
      rw [List.getElem?_eq_none (by omega)] at h; cases h
    simp only [hl, if_true, h, hk]
  · simp only [hcd, if_false]

structure SameC (s s' : State) : Prop where
  futs : s'.futs = s.futs
  trace : s'.trace = s.trace
  batches : s'.batches = s.batches
  ctl : s'.ctl = s.ctl
  active : s'.active = s.active
  na : ∀ c, s'.ctxIsNonAsync c = s.ctxIsNonAsync c
  clen : s'.ctxs.length = s.ctxs.length

theorem SameC.refl (s : State) : SameC s s := ⟨rfl, rfl, rfl, rfl, rfl, fun _ => rfl, rfl⟩
theorem SameC.trans {a b c : State} (h1 : SameC a b) (h2 : SameC b c) : SameC a c :=
  ⟨h2.futs.trans h1.futs, h2.trace.trans h1.trace, h2.batches.trans h1.batches, h2.ctl.trans h1.ctl,
   h2.active.trans h1.active, fun d => (h2.na d).trans (h1.na d), h2.clen.trans h1.clen⟩
theorem SameC.fut {s s' : State} (h : SameC s s') (f : Nat) : s'.fut f = s.fut f := by
  unfold State.fut; rw [h.futs]
theorem SameC.quiet {s s' : State} (h : SameC s s') : Quiet s s' where
  toQuietF := quietF_of_eq h.futs h.trace h.batches
  active := h.active
  ca := fun f hh => by unfold State.task at hh ⊢; rw [h.fut]; exact hh
  cxs := fun f c hh => by unfold State.task at hh ⊢; rw [h.fut] at hh; exact hh
  na := h.na
  clen := h.clen
  ctl := h.ctl
  tf := tf_of_eq h.futs

theorem sameC_of_ctxs_eq {s s' : State} (hf : s'.futs = s.futs) (ht : s'.trace = s.trace)
    (hb : s'.batches = s.batches) (hc : s'.ctl = s.ctl) (ha : s'.active = s.active) (hx : s'.ctxs = s.ctxs) :
    SameC s s' :=
  ⟨hf, ht, hb, hc, ha, nonasync_congr hx, by rw [hx]⟩

theorem sameC_ctxSetResumed (s : State) (c : Nat) (r : Bool) : SameC s (s.ctxSetResumed c r) := by
  unfold State.ctxSetResumed
  split
  · rename_i x hx
    refine ⟨rfl, rfl, rfl, rfl, rfl, fun d => ?_, by simp⟩
    exact naList_set s.ctxs c d x _ hx rfl
  · exact SameC.refl _

theorem sameC_svSet (s : State) (var val : Nat) : SameC s (s.svSet var val) := by
  unfold State.svSet; split <;> exact sameC_of_ctxs_eq rfl rfl rfl rfl rfl rfl

theorem sameC_svTouch (s : State) (var : Nat) : SameC s (s.svTouch var) := by
  unfold State.svTouch; split <;> exact sameC_of_ctxs_eq rfl rfl rfl rfl rfl rfl

theorem sameC_ctxResumeOne (s : State) (c : Nat) : SameC (s.emit (.ctx true c)) (s.ctxResumeOne c) := by
  unfold State.ctxResumeOne
  have h1 := sameC_ctxSetResumed (s.emit (.ctx true c)) c true
  simp only []
  split
  · rename_i x hx
    split
    · rename_i var val hkind
      refine h1.trans ((sameC_svSet _ var val).trans ?_)
      have hxs : (State.svSet ((s.emit (.ctx true c)).ctxSetResumed c true) var val).ctxs =
          ((s.emit (.ctx true c)).ctxSetResumed c true).ctxs := by
        unfold State.svSet; split <;> rfl
      refine ⟨rfl, rfl, rfl, rfl, rfl, fun d => ?_, ?_⟩
      rotate_left
      · show (List.set _ c _).length = (State.svSet _ var val).ctxs.length
        rw [List.length_set, hxs]
      show naList (List.set _ c _) d = naList (State.svSet _ var val).ctxs d
      rw [hxs]
      exact naList_set _ c d x _ hx rfl
    · exact h1
  · exact h1

theorem sameC_ctxPauseOne (s : State) (c : Nat) : SameC (s.emit (.ctx false c)) (s.ctxPauseOne c) := by
  unfold State.ctxPauseOne
  have h1 := sameC_ctxSetResumed (s.emit (.ctx false c)) c false
  simp only []
  split
  · split
    · exact h1.trans (sameC_svSet _ _ _)
    · exact h1
  · exact h1

theorem quiet_ctxResumeOne (s : State) (c : Nat) : Quiet s (s.ctxResumeOne c) :=
  (quiet_emit s _ rfl).trans (sameC_ctxResumeOne s c).quiet

theorem quiet_ctxPauseOne (s : State) (c : Nat) : Quiet s (s.ctxPauseOne c) :=
  (quiet_emit s _ rfl).trans (sameC_ctxPauseOne s c).quiet

@[simp] theorem fut_ctxResumeOne (s : State) (c f : Nat) : (s.ctxResumeOne c).fut f = s.fut f :=
  (sameC_ctxResumeOne s c).fut f
@[simp] theorem fut_ctxPauseOne (s : State) (c f : Nat) : (s.ctxPauseOne c).fut f = s.fut f :=
  (sameC_ctxPauseOne s c).fut f

/-! ### task updates that are quiet -/

theorem taskOk_ctxs (h : List Nat → List Nat) (hh : ∀ l c, c ∈ h l → c ∈ l) :
    TaskOk fun ts => { ts with ctxs := h ts.ctxs } :=
  ⟨fun _ => by simp, fun ts => ⟨fun h => h, fun c hc => hh _ c hc⟩⟩
theorem taskOk_erase (c : Nat) : TaskOk fun ts => { ts with ctxs := ts.ctxs.erase c } :=
  taskOk_ctxs (·.erase c) (fun _ _ h => List.mem_of_mem_erase h)
theorem taskOk_conts (c : List (Nat × Body)) : TaskOk fun ts => { ts with conts := c } :=
  ⟨fun _ => by simp, fun _ => by simp⟩
theorem taskOk_pendingFalse : TaskOk fun ts => { ts with pending := false } := ⟨fun _ => by simp, fun _ => by simp⟩
theorem taskOk_depsSched (b : Bool) : TaskOk fun ts => { ts with depsSched := b } :=
  ⟨fun _ => by simp, fun _ => by simp⟩
theorem taskOk_ctxActiveTrue : TaskOk fun ts => { ts with ctxActive := true } := ⟨fun _ => by simp, fun _ => by simp⟩
theorem taskOkF_ctxActive (b : Bool) : TaskOkF fun ts => { ts with ctxActive := b } := fun _ => by simp

/-! ### contexts -/

theorem quiet_ite {s a b : State} {c : Prop} [Decidable c] (ha : Quiet s a) (hb : Quiet s b) :
    Quiet s (if c then a else b) := by
  split <;> assumption

theorem out_ctxPauseOne (s : State) (c f : Nat) : (s.ctxPauseOne c).out f = s.out f := by
  unfold State.out; rw [fut_ctxPauseOne]

theorem out_ctxResumeOne (s : State) (c f : Nat) : (s.ctxResumeOne c).out f = s.out f := by
  unfold State.out; rw [fut_ctxResumeOne]

theorem ctxExit_cases (s : State) (c : Nat) :
    (s.ctxExit c = (if s.ctxIsNonAsync c || !true then s else s.ctxPauseOne c).emit (.ctxX c)) ∨
    ∃ o, let s1 := s.updTask o fun ts => { ts with ctxs := ts.ctxs.erase c }
      s.ctxExit c = (if s1.ctxIsNonAsync c || !(s1.task o).ctxActive then s1 else s1.ctxPauseOne c).emit (.ctxX c) := by
  unfold State.ctxExit
  cases h : s.ctxs[c]? with
  | none => left; rfl
  | some x =>
    cases ho : x.owner with
    | none => left; simp only [ho]
    | some o => right; exact ⟨o, by simp only [ho]⟩

theorem quiet_ctxExit (s : State) (c : Nat) : Quiet s (s.ctxExit c) := by
  rcases ctxExit_cases s c with h | ⟨o, h⟩
  · rw [h]
    exact Quiet.trans (quiet_ite (Quiet.refl _) (quiet_ctxPauseOne _ _)) (quiet_emit _ _ rfl)
  · rw [h]
    have q1 : Quiet s (s.updTask o fun ts => { ts with ctxs := ts.ctxs.erase c }) :=
      quiet_updTask _ _ _ (taskOk_erase c)
    exact (q1.trans (quiet_ite (Quiet.refl _) (quiet_ctxPauseOne _ _))).trans (quiet_emit _ _ rfl)

theorem out_ctxExit (s : State) (c f : Nat) : (s.ctxExit c).out f = s.out f := by
  rcases ctxExit_cases s c with h | ⟨o, h⟩
  · rw [h]
    simp only [emit_out, apply_ite (fun x : State => x.out f), out_ctxPauseOne, ite_self]
  · rw [h]
    simp only [emit_out, apply_ite (fun x : State => x.out f), out_ctxPauseOne, ite_self, out_updTask]

theorem foldl_quiet {α : Type} (g : State → α → State) (hg : ∀ s a, Quiet s (g s a)) (l : List α) (s : State) :
    Quiet s (l.foldl g s) := by
  induction l generalizing s with
  | nil => exact Quiet.refl _
  | cons a l ih => exact (hg s a).trans (ih _)

theorem foldl_out {α : Type} (g : State → α → State) (hg : ∀ s a f, (g s a).out f = s.out f) (l : List α)
    (s : State) (f : Nat) : (l.foldl g s).out f = s.out f := by
  induction l generalizing s with
  | nil => rfl
  | cons a l ih => simp only [List.foldl_cons]; rw [ih, hg]

theorem foldl_fut {α : Type} (g : State → α → State) (hg : ∀ s a f, (g s a).fut f = s.fut f) (l : List α)
    (s : State) (f : Nat) : (l.foldl g s).fut f = s.fut f := by
  induction l generalizing s with
  | nil => rfl
  | cons a l ih => simp only [List.foldl_cons]; rw [ih, hg]

theorem quiet_exitAll (s : State) (t : Nat) : Quiet s (s.exitAll t) := by
  unfold State.exitAll
  exact (foldl_quiet (fun (s : State) (p : Nat × Body) => s.ctxExit p.1) (fun s p => quiet_ctxExit s p.1)
    (s.task t).conts s).trans (quiet_updTask _ _ _ (taskOk_conts _))

theorem out_exitAll (s : State) (t f : Nat) : (s.exitAll t).out f = s.out f := by
  unfold State.exitAll
  simp only [out_updTask]
  exact foldl_out (fun (s : State) (p : Nat × Body) => s.ctxExit p.1) (fun s p f => out_ctxExit s p.1 f)
    (s.task t).conts s f

theorem computed_false {s : State} {f : Nat} (h : ¬ s.computed f = true) : s.out f = none := by
  unfold State.computed at h
  cases h' : s.out f with
  | none => rfl
  | some o => simp [h'] at h

theorem lt_of_task' {s : State} {t : Nat} (hk : (s.fut t).kind = .task) : t < s.futs.length :=
  lt_of_kind s t (by rw [hk]; intro h; cases h)

/-- `_accept_error` on a suspended task that is blocked; afterwards the task is computed -/
theorem quiet_failSuspended (s : State) (t : Nat) (hk : (s.fut t).kind = .task) (hb : Blocked s t) :
    Quiet s (s.failSuspended t .nonasync) ∧ (s.failSuspended t .nonasync).out t ≠ none := by
  unfold State.failSuspended
  split
  · rename_i hc
    refine ⟨Quiet.refl _, ?_⟩
    unfold State.computed at hc
    intro h; rw [h] at hc; cases hc
  · rename_i hc
    have q1 : Quiet s ((s.exitAll t).updTask t fun ts => { ts with pending := false }) :=
      (quiet_exitAll s t).trans (quiet_updTask _ _ _ taskOk_pendingFalse)
    have hk1 := q1.kind_task hk
    have hl1 := lt_of_task' hk1
    have h0 : (State.updTask (s.exitAll t) t fun ts => { ts with pending := false }).out t = none := by
      rw [out_updTask, out_exitAll]; exact computed_false hc
    have hp : (State.task (State.updTask (s.exitAll t) t fun ts => { ts with pending := false }) t).pending = false := by
      have hk2 := (quiet_exitAll s t).kind_task hk
      rw [task_updTask_self _ _ _ (lt_of_task' hk2)]
    constructor
    · refine ⟨q1.toQuietF.trans (quietF_complete _ t _ (by rw [hk1]; intro h; cases h) h0 (Or.inl hp)),
        q1.toCtxSame.trans (ctxSame_complete _ _ _), q1.ctl, ?_⟩
      intro f o hkf hn ho
      rw [out_complete] at ho
      split at ho
      · rename_i h; rw [h.1]; exact hb
      · exact q1.tf f o hkf hn ho
    · have hl2 : t < (s.exitAll t).futs.length := by simpa using hl1
      rw [out_complete]; simp [hl2]

theorem blocked_forward {s s' : State} {t : Nat} (hb : Blocked s t) (hd : (s'.task t).deps = (s.task t).deps)
    (hc : ∀ d, s'.computed d = s.computed d) : Blocked s' t := by
  obtain ⟨d, h1, h2⟩ := hb
  exact ⟨d, by rw [hd]; exact h1, by rw [hc]; exact h2⟩

/-- the state after the first half of `_resume_contexts` / `_pause_contexts`: the flag is set and every context that
    is not a NonAsyncContext is resumed / paused -/
theorem foldl_ctx_facts (s : State) (t : Nat) (b : Bool) (op : State → Nat → State) (l : List Nat)
    (hop : ∀ s c f, (op s c).fut f = s.fut f) (f : Nat) :
    (l.foldl (fun s c => if s.ctxIsNonAsync c then s else op s c)
      (s.updTask t fun ts => { ts with ctxActive := b })).fut f =
    (s.updTask t fun ts => { ts with ctxActive := b }).fut f :=
  foldl_fut _ (fun s c f => by split <;> simp [hop]) l _ f

theorem quiet_resumeContexts (s : State) (t : Nat) (hk : (s.fut t).kind = .task) (hb : Blocked s t) :
    Quiet s (s.resumeContexts t) := by
  unfold State.resumeContexts
  simp only []
  split
  · exact Quiet.refl _
  · have q1 : Quiet s ((s.task t).ctxs.foldl (fun s c => if s.ctxIsNonAsync c then s else s.ctxResumeOne c)
        (s.updTask t fun ts => { ts with ctxActive := true })) :=
      (quiet_updTask _ _ _ taskOk_ctxActiveTrue).trans
        (foldl_quiet _ (fun s c => by split; exact Quiet.refl _; exact quiet_ctxResumeOne _ _) _ _)
    split
    · refine q1.trans (quiet_failSuspended _ _ (q1.kind_task hk) (blocked_forward hb ?_ ?_)).1
      · unfold State.task
        rw [foldl_ctx_facts s t true State.ctxResumeOne _ fut_ctxResumeOne, fut_updTask_self _ _ _ (lt_of_task' hk)]
      · intro d
        unfold State.computed State.out
        rw [foldl_ctx_facts s t true State.ctxResumeOne _ fut_ctxResumeOne]
        exact congrArg Option.isSome (out_updTask s t d _)
    · exact q1

/-- absence of NonAsyncContexts among the contexts registered with a task -/
def NAfree (s : State) (t : Nat) : Prop := ∀ c ∈ (s.task t).ctxs, s.ctxIsNonAsync c = false

/-- `_resume_contexts` of a task whose contexts are active or free of NonAsyncContexts completes nothing -/
theorem quiet_resumeContexts_nofail (s : State) (t : Nat)
    (hz : (s.task t).ctxActive = false → NAfree s t) : Quiet s (s.resumeContexts t) := by
  unfold State.resumeContexts
  simp only []
  split
  · exact Quiet.refl _
  · rename_i hca
    have q1 : Quiet s ((s.task t).ctxs.foldl (fun s c => if s.ctxIsNonAsync c then s else s.ctxResumeOne c)
        (s.updTask t fun ts => { ts with ctxActive := true })) :=
      (quiet_updTask _ _ _ taskOk_ctxActiveTrue).trans
        (foldl_quiet _ (fun s c => by split; exact Quiet.refl _; exact quiet_ctxResumeOne _ _) _ _)
    split
    · rename_i hany
      exfalso
      rw [List.any_eq_true] at hany
      obtain ⟨c, hc, hn⟩ := hany
      rw [q1.na c] at hn
      have := hz (by simpa using hca) c hc
      rw [this] at hn; cases hn
    · exact q1

theorem ctxSame_failSuspended (s : State) (t : Nat) (e : Err) : CtxSame s (s.failSuspended t e) := by
  unfold State.failSuspended
  split
  · exact CtxSame.refl _
  · exact ((quiet_exitAll s t).trans (quiet_updTask (s.exitAll t) t _ taskOk_pendingFalse)).toCtxSame.trans
      (ctxSame_complete _ t (.err e))

/-- after `_resume_contexts` the contexts of the task are active -/
theorem resumeContexts_active (s : State) (t : Nat) (hk : (s.fut t).kind = .task) :
    ((s.resumeContexts t).task t).ctxActive = true := by
  unfold State.resumeContexts
  simp only []
  split
  · assumption
  · have q1 : Quiet (s.updTask t fun ts => { ts with ctxActive := true })
        ((s.task t).ctxs.foldl (fun s c => if s.ctxIsNonAsync c then s else s.ctxResumeOne c)
          (s.updTask t fun ts => { ts with ctxActive := true })) :=
      foldl_quiet _ (fun s c => by split; exact Quiet.refl _; exact quiet_ctxResumeOne _ _) _ _
    have h1 : ((s.updTask t fun ts => { ts with ctxActive := true }).task t).ctxActive = true := by
      rw [task_updTask_self _ _ _ (lt_of_task' hk)]
    have h2 := q1.ca t h1
    split
    · exact (ctxSame_failSuspended _ t _).ca t h2
    · exact h2

/-- `_pause_contexts` of a blocked task, after its flag has been reset: quiet from there on, and the task ends up
    computed (failed) or without NonAsyncContexts -/
theorem pauseContexts_facts (s : State) (t : Nat) (hk : (s.fut t).kind = .task) (hb : Blocked s t) :
    (s.pauseContexts t = s ∧ (s.task t).ctxActive = false) ∨
    ((s.task t).ctxActive = true ∧
      Quiet (s.updTask t fun ts => { ts with ctxActive := false }) (s.pauseContexts t) ∧
      ((s.pauseContexts t).out t ≠ none ∨ NAfree (s.pauseContexts t) t)) := by
  unfold State.pauseContexts
  simp only []
  split
  · rename_i hca; left; exact ⟨rfl, by simpa using hca⟩
  · rename_i hca
    right
    have hl := lt_of_task' hk
    have q1 : Quiet (s.updTask t fun ts => { ts with ctxActive := false })
        ((s.task t).ctxs.reverse.foldl (fun s c => if s.ctxIsNonAsync c then s else s.ctxPauseOne c)
          (s.updTask t fun ts => { ts with ctxActive := false })) :=
      foldl_quiet _ (fun s c => by split; exact Quiet.refl _; exact quiet_ctxPauseOne _ _) _ _
    have hk1 : ((s.updTask t fun ts => { ts with ctxActive := false }).fut t).kind = .task := by
      rw [kind_updTask]; exact hk
    refine ⟨by simpa using hca, ?_⟩
    split
    · have hb2 : Blocked ((s.task t).ctxs.reverse.foldl
          (fun s c => if s.ctxIsNonAsync c then s else s.ctxPauseOne c)
          (s.updTask t fun ts => { ts with ctxActive := false })) t := by
        refine blocked_forward hb ?_ ?_
        · unfold State.task
          rw [foldl_ctx_facts s t false State.ctxPauseOne _ fut_ctxPauseOne, fut_updTask_self _ _ _ hl]
        · intro d
          unfold State.computed State.out
          rw [foldl_ctx_facts s t false State.ctxPauseOne _ fut_ctxPauseOne]
          exact congrArg Option.isSome (out_updTask s t d _)
      have qf := quiet_failSuspended _ t (q1.kind_task hk1) hb2
      exact ⟨q1.trans qf.1, Or.inl qf.2⟩
    · rename_i hany
      refine ⟨q1, Or.inr ?_⟩
      intro c hc
      have hc' : c ∈ (s.task t).ctxs := by
        have := q1.cxs t c hc
        rw [task_updTask_self _ _ _ hl] at this
        exact this
      cases hn : State.ctxIsNonAsync _ c with
      | false => rfl
      | true =>
        exfalso; apply hany
        rw [List.any_eq_true]
        exact ⟨c, hc', hn⟩

/-! ### batches -/

theorem quiet_switchActive (s : State) (kind seq : Nat) : Quiet s (s.switchActive kind seq) := by
  unfold State.switchActive
  split
  · split
    · refine ⟨⟨fun f => FutLe.refl _, ⟨[], rfl, by simp⟩, ?_⟩, ctxSame_of_eq rfl rfl rfl, rfl, tf_of_eq rfl⟩
      intro b hb i hi
      simp only [List.mem_append, List.mem_singleton] at hb
      cases hb with
      | inl hb => exact Or.inl ⟨b, hb, hi⟩
      | inr hb => subst hb; simp at hi
    · exact Quiet.refl _
  · exact Quiet.refl _

/-- shrinking (or keeping) the item lists of batches -/
theorem quiet_updBatch (s : State) (kind seq : Nat) (g : Batch → Batch) (hg : ∀ b i, i ∈ (g b).items → i ∈ b.items) :
    Quiet s (s.updBatch kind seq g) := by
  refine ⟨⟨fun f => FutLe.refl _, ⟨[], rfl, by simp⟩, ?_⟩, ctxSame_of_eq rfl rfl rfl, rfl, tf_of_eq rfl⟩
  intro b' hb' i hi
  simp only [State.updBatch, List.mem_map] at hb'
  obtain ⟨b, hb, rfl⟩ := hb'
  split at hi
  · exact Or.inl ⟨b, hb, hg b i hi⟩
  · exact Or.inl ⟨b, hb, hi⟩

theorem quiet_flushItems (s : State) (kind : Nat) (l : List Nat) : Quiet s (s.flushItems kind l) := by
  induction l generalizing s with
  | nil => exact Quiet.refl _
  | cons i is ih =>
    unfold State.flushItems
    refine Quiet.trans ?_ (ih _)
    split
    · exact Quiet.refl _
    · rename_i hc
      split
      · rename_i hk
        exact quiet_complete _ _ _ (by rw [hk]; intro h; cases h) (computed_false hc)
          (Or.inr (by rw [hk]; intro h; cases h)) (Or.inl (by rw [hk]; intro h; cases h))
      · rename_i hk
        exact quiet_complete _ _ _ (by rw [hk]; intro h; cases h) (computed_false hc)
          (Or.inr (by rw [hk]; intro h; cases h)) (Or.inl (by rw [hk]; intro h; cases h))
      · exact Quiet.refl _

theorem kind_of_isItem {k : FKind} (h : isItemKind k = true) : k ≠ .const ∧ k ≠ .task := by
  cases k <;> simp_all [isItemKind]

theorem quiet_finishItems (s : State) (e : Err) (l : List Nat) (hl : ∀ i ∈ l, isItemKind (s.fut i).kind = true) :
    Quiet s (s.finishItems e l) := by
  induction l generalizing s with
  | nil => exact Quiet.refl _
  | cons i is ih =>
    unfold State.finishItems
    have hi := kind_of_isItem (hl i (by simp))
    have q : Quiet s (if s.computed i then s else s.complete i (.err e)) := by
      split
      · exact Quiet.refl _
      · rename_i hc
        exact quiet_complete _ _ _ hi.1 (computed_false hc) (Or.inr hi.2) (Or.inl hi.2)
    exact q.trans (ih _ (fun j hj => q.kind_item (hl j (by simp [hj]))))

/-- the items of every batch are batch items -/
def ItemsOk (s : State) : Prop := ∀ b ∈ s.batches, ∀ i ∈ b.items, isItemKind (s.fut i).kind = true

theorem QuietF.itemsOk {s s' : State} (h : QuietF s s') (hi : ItemsOk s) : ItemsOk s' := by
  intro b' hb' i hi'
  rcases h.batches b' hb' i hi' with ⟨b, hb, hib⟩ | hk
  · exact h.kind_item (hi b hb i hib)
  · exact hk

theorem quiet_flushBatch (s : State) (kind seq : Nat) (hi : ItemsOk s) : Quiet s (s.flushBatch kind seq) := by
  unfold State.flushBatch
  split
  · exact quiet_fail _ _
  · rename_i b hb
    have hb' : b ∈ s.batches := List.mem_of_find?_eq_some hb
    simp only []
    have q1 : Quiet s (((s.switchActive kind seq).emit (.flushI kind seq b.items)).flushItems kind b.items) :=
      ((quiet_switchActive s kind seq).trans (quiet_emit _ _ rfl)).trans (quiet_flushItems _ _ _)
    refine ((q1.trans (quiet_finishItems _ _ _ ?_)).trans (quiet_emit _ _ rfl)).trans
      (quiet_updBatch _ _ _ _ ?_)
    · intro i hib; exact q1.kind_item (hi b hb' i hib)
    · intro b i hi
      have aux : ∀ (c : Bool), i ∈ (if c = true then b.items else []) → i ∈ b.items := by
        intro c; cases c <;> simp
      exact aux _ hi

/-! ### allocation of tasks -/

theorem quiet_newTask (s : State) (child : Body) (inh : List Nat) : Quiet s (s.newTask child inh).1 := by
  unfold State.newTask
  exact quiet_alloc _ _ _ rfl rfl rfl rfl rfl

@[simp] theorem newTask_snd (s : State) (child : Body) (inh : List Nat) : (s.newTask child inh).2 = s.futs.length := rfl

end AsynqModel.Core.P2
