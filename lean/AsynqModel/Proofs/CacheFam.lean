import AsynqModel.Lib.CacheFam
import AsynqModel.Proofs.Cache
/-! helper lemmas for C13, families (one decorator object applied to several functions): the invariant of the
    single-function proofs holds component by component -/
namespace AsynqModel.Cache

theorem setAt_same {α : Type} (g : Nat → α) (f : Nat) (a : α) : setAt g f a f = a := by simp [setAt]

theorem setAt_other {α : Type} (g : Nat → α) (f j : Nat) (a : α) (h : j ≠ f) : setAt g f a j = g j := by
  simp [setAt, h]

theorem sumOver_congr (n : Nat) (g h : Nat → Nat) (e : ∀ f, g f = h f) : sumOver n g = sumOver n h := by
  have : g = h := funext e
  rw [this]

namespace Alru

/-- one step of the single-function proof with both invariants -/
theorem inv_step (mk rk : Call → Option Key) (bd : Call → Option (List Nat)) (cap : Nat) (hcap : 1 ≤ cap)
    (w : Watch) (st : St) (op : Op) (h : Rel cap w st) (hgood : GoodInv st) (ha : Agree mk rk bd op.c) :
    ∃ w', watchStep rk bd cap w op (observe mk bd st op).2 = .ok w' ∧ Rel cap w' (observe mk bd st op).1 ∧
      GoodInv (observe mk bd st op).1 := by
  have hstep : ∃ w', watchStep rk bd cap w op (observe mk bd st op).2 = .ok w' ∧ Rel cap w' (observe mk bd st op).1 := by
    rcases ha with ⟨h1, _⟩ | ⟨h1, h2, k, h3, h4⟩
    · exact rel_step mk rk bd cap hcap w st op h h1
    · exact rel_step_bad mk rk bd cap w st op k h hgood h1 h2 h3 h4
  have hg' : GoodInv (observe mk bd st op).1 := by
    apply good_step mk bd st op _ hgood
    intro k b hmk hb
    rcases ha with ⟨_, h2⟩ | ⟨_, h2, _⟩
    · exact h2 k b hmk hb
    · rw [h2] at hb; contradiction
  obtain ⟨w', h1, h2⟩ := hstep
  exact ⟨w', h1, h2, hg'⟩

namespace Fam

theorem watchRun_ok (mk rk : Nat → Call → Option Key) (bd : Nat → Call → Option (List Nat)) (cap : Nat) (hcap : 1 ≤ cap)
    (ops : List Op) (ws : W) (sts : St) (h : ∀ f, Rel cap (ws f) (sts f)) (hg : ∀ f, GoodInv (sts f))
    (hk : ∀ o ∈ ops, Agree (mk o.fn) (rk o.fn) (bd o.fn) o.op.c) :
    ∃ ws', watchRun rk bd cap ws ops (run mk bd sts ops) = .ok ws' := by
  induction ops generalizing ws sts with
  | nil => exact ⟨ws, rfl⟩
  | cons o ops ih =>
    obtain ⟨w', h1, h2, h3⟩ := inv_step (mk o.fn) (rk o.fn) (bd o.fn) cap hcap (ws o.fn) (sts o.fn) o.op (h o.fn) (hg o.fn)
      (hk o List.mem_cons_self)
    simp only [run, watchRun, observe, h1]
    apply ih
    · intro f
      by_cases hf : f = o.fn
      · subst hf; simpa [setAt_same] using h2
      · simpa [setAt_other _ _ _ _ hf] using h f
    · intro f
      by_cases hf : f = o.fn
      · subst hf; simpa [setAt_same] using h3
      · simpa [setAt_other _ _ _ _ hf] using hg f
    · exact fun o' ho => hk o' (List.mem_cons_of_mem _ ho)

/-- the same with the implementation's own key as reference key (custom key functions): no invariant on the keys needed -/
theorem watchRun_ok_eq (mk : Nat → Call → Option Key) (bd : Nat → Call → Option (List Nat)) (cap : Nat) (hcap : 1 ≤ cap)
    (ops : List Op) (ws : W) (sts : St) (h : ∀ f, Rel cap (ws f) (sts f)) :
    ∃ ws', watchRun mk bd cap ws ops (run mk bd sts ops) = .ok ws' := by
  induction ops generalizing ws sts with
  | nil => exact ⟨ws, rfl⟩
  | cons o ops ih =>
    obtain ⟨w', h1, h2⟩ := rel_step (mk o.fn) (mk o.fn) (bd o.fn) cap hcap (ws o.fn) (sts o.fn) o.op (h o.fn) rfl
    simp only [run, watchRun, observe, h1]
    apply ih
    intro f
    by_cases hf : f = o.fn
    · subst hf; simpa [setAt_same] using h2
    · simpa [setAt_other _ _ _ _ hf] using h f

/-- the observations made on function `f` in a family history are those of `f`'s own history, run on its own -/
theorem obsOf_run (mk : Nat → Call → Option Key) (bd : Nat → Call → Option (List Nat)) (f : Nat) (ops : List Op)
    (sts : St) :
    obsOf f ops (run mk bd sts ops) = Alru.run (mk f) (bd f) (sts f) (opsOf f ops) := by
  induction ops generalizing sts with
  | nil => simp [obsOf, opsOf, Alru.run]
  | cons o ops ih =>
    by_cases hf : o.fn = f
    · subst hf
      have e : opsOf o.fn (o :: ops) = o.op :: opsOf o.fn ops := by simp [opsOf]
      rw [e]
      simp only [run, obsOf, beq_self_eq_true, if_true, Alru.run]
      rw [ih]
      simp [observe, setAt_same]
    · have hb : (o.fn == f) = false := by simpa using hf
      have e : opsOf f (o :: ops) = opsOf f ops := by simp [opsOf, hb]
      rw [e]
      simp only [run, obsOf, hb, Bool.false_eq_true, if_false]
      rw [ih]
      have hne : f ≠ o.fn := fun e => hf e.symm
      simp [observe, setAt_other _ _ _ _ hne]

theorem finalState_at (mk : Nat → Call → Option Key) (bd : Nat → Call → Option (List Nat)) (f : Nat) (ops : List Op)
    (sts : St) :
    finalState mk bd sts ops f = Alru.finalState (mk f) (bd f) (sts f) (opsOf f ops) := by
  induction ops generalizing sts with
  | nil => simp [finalState, opsOf, Alru.finalState]
  | cons o ops ih =>
    by_cases hf : o.fn = f
    · subst hf
      have e : opsOf o.fn (o :: ops) = o.op :: opsOf o.fn ops := by simp [opsOf]
      rw [e]
      simp only [finalState, Alru.finalState]
      rw [ih]
      simp [observe, setAt_same]
    · have hb : (o.fn == f) = false := by simpa using hf
      have e : opsOf f (o :: ops) = opsOf f ops := by simp [opsOf, hb]
      rw [e]
      simp only [finalState]
      rw [ih]
      have hne : f ≠ o.fn := fun e => hf e.symm
      simp [observe, setAt_other _ _ _ _ hne]

end Fam
end Alru

namespace PerInst

/-- one step of the single-method proof with both invariants -/
theorem inv_step (mk rk : Call → Option Key) (bd : Call → Option (List Nat)) (w : Watch) (st : St)
    (i : Nat) (c : Call) (r : Bool) (h : Rel w st) (hgood : GoodInv st) (ha : Agree mk rk bd c) :
    ∃ w', watchStep rk bd w (.call i c r false) (observe mk bd st (.call i c r false)).2 = .ok w' ∧
      Rel w' (observe mk bd st (.call i c r false)).1 ∧ GoodInv (observe mk bd st (.call i c r false)).1 := by
  have hstep : ∃ w', watchStep rk bd w (.call i c r false) (observe mk bd st (.call i c r false)).2 = .ok w' ∧
      Rel w' (observe mk bd st (.call i c r false)).1 := by
    rcases ha with ⟨h1, _⟩ | ⟨h1, h2, k, h3, h4⟩
    · exact rel_step mk rk bd w st _ h (fun i' c' r' sr' e => by cases e; exact ⟨h1, rfl⟩)
    · exact rel_step_bad mk rk bd w st i c r false k h hgood h1 h2 h3 h4
  have hg' : GoodInv (observe mk bd st (.call i c r false)).1 := by
    apply good_step mk bd st (.call i c r false) _ hgood
    intro i' c' r' sr' e k b hmk hb
    cases e
    rcases ha with ⟨_, h2⟩ | ⟨_, h2, _⟩
    · exact h2 k b hmk hb
    · rw [h2] at hb; contradiction
  obtain ⟨w', h1, h2⟩ := hstep
  exact ⟨w', h1, h2, hg'⟩

/-- giving up an instance keeps both invariants of one method's dict (no cached value refers to an instance) -/
theorem drop_inv (w : Watch) (st : St) (i : Nat) (h : Rel w st) (hgood : GoodInv st) :
    Rel (Fam.dropW w i) (Fam.dropIn false st i) ∧ GoodInv (Fam.dropIn false st i) ∧
      Fam.entries (Fam.dropIn false st i) = (Fam.dropW w i).live.length := by
  have hst : Fam.dropIn false st i = { st with insts := st.insts.filter fun p => p.1 != i } := by simp [Fam.dropIn]
  rw [hst]
  refine ⟨⟨fun j k => ?_, ?_, h.runs, h.pin, h.zomb⟩, ?_, ?_⟩
  · simp only [Fam.dropW, cacheOf, lookup_filter_ne]
    by_cases hj : j = i
    · simp [hj]
    · have := h.ref j k
      simp [hj, this, cacheOf]
  · simp [Fam.dropW, h.live, map_fst_filter]
  · intro j k v hl
    simp only [cacheOf, lookup_filter_ne] at hl
    by_cases hj : j = i
    · simp [hj] at hl
    · simp only [hj, if_false] at hl
      exact hgood j k v hl
  · have := congrArg List.length (map_fst_filter st.insts i)
    simp only [List.length_map] at this
    simp [Fam.entries, Fam.dropW, h.live, h.zomb, this]

namespace Fam

theorem pinnedAny_false (nfn : Nat) (sts : St) (i : Nat) (h : ∀ f, (sts f).pinned = []) : pinnedAny nfn sts i = false := by
  simp [pinnedAny, h]

theorem watchRun_ok (nfn : Nat) (mk rk : Nat → Call → Option Key) (bd : Nat → Call → Option (List Nat))
    (ops : List Op) (ws : W) (sts : St) (h : ∀ f, Rel (ws f) (sts f)) (hg : ∀ f, GoodInv (sts f))
    (hk : ∀ f i c r sr, Op.call f i c r sr ∈ ops → Agree (mk f) (rk f) (bd f) c ∧ sr = false) :
    ∃ ws', watchRun nfn rk bd ws ops (run nfn mk bd sts ops) = .ok ws' := by
  induction ops generalizing ws sts with
  | nil => exact ⟨ws, rfl⟩
  | cons o ops ih =>
    cases o with
    | call f i c r sr =>
      obtain ⟨ha, hsr⟩ := hk f i c r sr List.mem_cons_self
      subst hsr
      obtain ⟨w', h1, h2, h3⟩ := inv_step (mk f) (rk f) (bd f) (ws f) (sts f) i c r (h f) (hg f) ha
      simp only [run, watchRun, observe, watchStep, h1]
      apply ih
      · intro g
        by_cases hf : g = f
        · subst hf; simpa [setAt_same] using h2
        · simpa [setAt_other _ _ _ _ hf] using h g
      · intro g
        by_cases hf : g = f
        · subst hf; simpa [setAt_same] using h3
        · simpa [setAt_other _ _ _ _ hf] using hg g
      · exact fun f' i' c' r' sr' ho => hk f' i' c' r' sr' (List.mem_cons_of_mem _ ho)
    | drop i =>
      have hp : pinnedAny nfn sts i = false := pinnedAny_false nfn sts i (fun f => (h f).pin)
      have hruns : sumOver nfn (fun f => (dropIn false (sts f) i).runs) = sumOver nfn (fun f => (ws f).runs) :=
        sumOver_congr _ _ _ (fun f => by simp [dropIn, (h f).runs])
      have hent : sumOver nfn (fun f => entries (dropIn false (sts f) i)) = sumOver nfn (fun f => (dropW (ws f) i).live.length) :=
        sumOver_congr _ _ _ (fun f => (drop_inv (ws f) (sts f) i (h f) (hg f)).2.2)
      simp only [run, watchRun, observe, watchStep, hp, hruns, hent]
      simp only [bne_self_eq_false, Bool.or_self, Bool.false_eq_true, if_false]
      apply ih
      · exact fun f => (drop_inv (ws f) (sts f) i (h f) (hg f)).1
      · exact fun f => (drop_inv (ws f) (sts f) i (h f) (hg f)).2.1
      · exact fun f' i' c' r' sr' ho => hk f' i' c' r' sr' (List.mem_cons_of_mem _ ho)

end Fam
end PerInst

namespace Lazy

/-- the clock never goes backwards -/
theorem now_mono (ttl : Nat) (st : St) (op : Op) : st.now ≤ (observe ttl st op).1.now := by
  cases op with
  | tick d => simp [observe, step]
  | dirty => simp [observe, step]
  | call r d =>
    simp only [observe, step]
    split
    · split <;> simp
    · simp

/-- looking at the clock later: the relation between the reference and the wrapper's attributes is kept -/
theorem rel_advance (ttl : Nat) (w : Watch) (st : St) (n : Nat) (h : Rel ttl w st) (hn : st.now ≤ n) :
    Rel ttl { w with now := n } { st with now := n } := by
  refine ⟨rfl, h.runs, by have := h.pos; simp; omega, ?_⟩
  have hs := h.stored
  cases hw : w.stored with
  | none =>
    simp only [hw] at hs ⊢
    rcases hs with hs | hs
    · exact Or.inl hs
    · exact Or.inr ⟨hs.1, by omega⟩
  | some p => simpa [hw] using hs

namespace Fam

theorem watchRun_ok (ttl : Nat) (ops : List Op) (ws : W) (s : St) (hnow : ws.now = s.now)
    (h : ∀ f, Rel ttl (ws.comps f) (s.comps f)) (hle : ∀ f, (s.comps f).now ≤ s.now) :
    ∃ ws', watchRun ttl ws ops (run ttl s ops) = .ok ws' := by
  induction ops generalizing ws s with
  | nil => exact ⟨ws, rfl⟩
  | cons o ops ih =>
    have hadv := rel_advance ttl (ws.comps o.fn) (s.comps o.fn) s.now (h o.fn) (hle o.fn)
    obtain ⟨w', h1, h2⟩ := rel_step ttl _ _ o.op hadv
    have hm := now_mono ttl { (s.comps o.fn) with now := s.now } o.op
    simp only [run, watchRun, observe, hnow, h1]
    apply ih
    · exact h2.now
    · intro f
      by_cases hf : f = o.fn
      · subst hf; simpa [setAt_same] using h2
      · simpa [setAt_other _ _ _ _ hf] using h f
    · intro f
      by_cases hf : f = o.fn
      · subst hf; simp [setAt_same]
      · simp only [setAt_other _ _ _ _ hf]
        exact Nat.le_trans (hle f) hm

end Fam
end Lazy

end AsynqModel.Cache
