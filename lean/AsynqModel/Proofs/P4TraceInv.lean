import AsynqModel.Proofs.P4Trace
/-! P4: primitives of `Irr`, the trace invariant `TI`, the bottom-frame invariant `BI` -/
namespace AsynqModel.Core.P4
open AsynqModel.Core

theorem irrEv_of_okEv' {s s' : State} (c : Comp s s') {e : Event} (h : okEv s e) : irrEv s' e := by
  cases e with
  | done f o =>
    simp only [okEv, irrEv] at h ⊢
    exact ⟨c.len ▸ h.1, by rw [(c.fut f).den]; exact h.2⟩
  | run t i dc r => simp [okEv] at h
  | _ => simp_all [okEv, irrEv]

theorem Quiet.irr {s s' : State} (q : Quiet s s') : Irr s s' := by
  refine ⟨q.comp.cfg, Nat.le_of_eq q.comp.len.symm, fun f _ => (q.comp.fut f).den, fun f _ => (q.comp.fut f).kind,
    fun f o h => q.comp.out_mono h, ?_, ?_, q.tops, q.topIdx, q.curTop⟩
  · intro t hk ho hp hs
    obtain ⟨ho', hc⟩ := q.comp.out_none ho
    obtain ⟨_, _, _, _, _, _, h7, h8, h9, _, _, _, h13⟩ := coreA_fields hc
    exact ⟨(q.comp.fut t).kind ▸ hk, ho', h7 ▸ hp, h8 ▸ hs, h13, h9⟩
  · obtain ⟨evs, h1, h2⟩ := q.trace
    exact ⟨evs, h1, fun e he => irrEv_of_okEv' q.comp (h2 e he)⟩

theorem irr_of_eq {s s' : State} (hc : s'.cfg = s.cfg) (hf : s'.futs = s.futs) (ht : s'.trace = s.trace)
    (htops : s'.tops = s.tops) (hti : s'.topIdx = s.topIdx) (hcur : s'.curTop = s.curTop) :
    Irr s s' := by
  have hfut : ∀ f, s'.fut f = s.fut f := fun f => by simp [State.fut, hf]
  exact ⟨hc, by rw [hf]; exact Nat.le_refl _, fun f _ => by rw [hfut], fun f _ => by rw [hfut],
    fun f o h => by rw [hfut]; exact h,
    fun t h1 h2 h3 h4 => by rw [hfut] at h1 h2 h3 h4 ⊢; exact ⟨h1, h2, h3, h4, rfl, rfl⟩,
    ⟨[], by simp [ht], nofun⟩, htops, hti, hcur⟩

theorem irr_emit (s : State) (e : Event) (he : irrEv s e) : Irr s (s.emit e) :=
  ⟨rfl, Nat.le_refl _, fun _ _ => rfl, fun _ _ => rfl, fun _ _ h => h,
   fun _ h1 h2 h3 h4 => ⟨h1, h2, h3, h4, rfl, rfl⟩,
   ⟨[e], rfl, fun e' he' => by
      simp only [List.mem_singleton] at he'; subst he'
      cases e' with
      | run t i dc r => cases r <;> exact he
      | _ => exact he⟩, rfl, rfl, rfl⟩

theorem irr_updTask (s : State) (t : Nat) (g : TaskSt → TaskSt)
    (hg : (g (s.fut t).ts).pending = true → (g (s.fut t).ts).started = true →
      (s.fut t).ts.pending = true ∧ (s.fut t).ts.started = true ∧
      (g (s.fut t).ts).resumes = (s.fut t).ts.resumes ∧ (g (s.fut t).ts).lastY = (s.fut t).ts.lastY) :
    Irr s (s.updTask t g) := by
  refine ⟨rfl, by simp, fun f _ => den_updTask s t g f, fun f _ => kind_updTask s t g f,
    fun f o h => by rw [out_updTask]; exact h, ?_, ⟨[], rfl, nofun⟩, rfl, rfl, rfl⟩
  intro x hk ho hp hs
  rw [kind_updTask] at hk; rw [out_updTask] at ho
  by_cases hx : x = t
  · subst hx
    have hlt : x < s.futs.length := lt_of_kind s x (by rw [hk]; nofun)
    rw [fut_updTask_self _ _ _ hlt] at hp hs ⊢
    obtain ⟨a, b, c, d⟩ := hg hp hs
    exact ⟨hk, ho, a, b, c, d⟩
  · rw [fut_updTask_ne _ _ _ _ hx] at hp hs ⊢
    exact ⟨hk, ho, hp, hs, rfl, rfl⟩

theorem irr_alloc (s : State) (x : Fut) (nk : NewKind) (hx : x.ts.started = false) : Irr s (s.alloc x nk).1 := by
  refine ⟨rfl, by simp, fun f hf => by rw [fut_alloc_lt _ _ _ _ hf], fun f hf => by rw [fut_alloc_lt _ _ _ _ hf],
    ?_, ?_, ⟨[.new s.futs.length nk], rfl, by simp [irrEv]⟩, rfl, rfl, rfl⟩
  · intro f o h
    by_cases hf : f = s.futs.length
    · subst hf; rw [fut_default s _ (Nat.le_refl _)] at h; cases h
    · rw [fut_alloc_ne _ _ _ _ hf]; exact h
  · intro t hk ho hp hs
    by_cases hf : t = s.futs.length
    · subst hf; rw [fut_alloc_self, hx] at hs; cases hs
    · rw [fut_alloc_ne _ _ _ _ hf] at hk ho hp hs ⊢; exact ⟨hk, ho, hp, hs, rfl, rfl⟩

structure TI (cfg0 : Cfg) (tops0 : List (Conv × Body)) (s : State) : Prop where
  cfg : s.cfg = cfg0
  doneEv : ∀ f o, .done f o ∈ s.trace → f < s.futs.length ∧ (s.fut f).den = o
  yieldEv : ∀ t, (s.fut t).kind = .task → (s.fut t).out = none → (s.fut t).ts.pending = true →
    (s.fut t).ts.started = true → .yield t (s.fut t).ts.resumes (s.fut t).ts.lastY ∈ s.trace
  runEv : ∀ t i dc o, .run t i dc (.out o) ∈ s.trace → ∃ ry, .yield t (i - 1) ry ∈ s.trace ∧
    (∀ g ∈ ry.leaves, g < s.futs.length) ∧ unwrap (denLook s) ry = o.toExcept
  topsEq : s.tops = tops0.drop s.topIdx
  results : ∀ x ∈ results s.trace, ∃ body, tops0[x.1]? = some (x.2.1, body) ∧ x.2.2 = evalTop cfg0 body
  cur : ∀ f, s.curTop = some f → ∃ conv body, lastTop s.trace = some (s.topIdx - 1, conv) ∧
    tops0[s.topIdx - 1]? = some (conv, body) ∧ (s.fut f).kind = .task ∧ (s.fut f).den = evalTop cfg0 body

theorem TI.irr {cfg0 : Cfg} {tops0 : List (Conv × Body)} {s s' : State} (h : TI cfg0 tops0 s) (a : Irr s s') :
    TI cfg0 tops0 s' := by
  obtain ⟨evs, htr, hev⟩ := a.trace
  constructor
  · rw [a.cfg]; exact h.cfg
  · intro f o hm
    rw [htr] at hm
    rcases List.mem_append.1 hm with hm | hm
    · exact hev _ hm
    · obtain ⟨h1, h2⟩ := h.doneEv f o hm
      exact ⟨Nat.lt_of_lt_of_le h1 a.len, by rw [a.den f h1]; exact h2⟩
  · intro t hk ho hp hs
    obtain ⟨a1, a2, a3, a4, a5, a6⟩ := a.susp t hk ho hp hs
    rw [htr, a5, a6]
    exact List.mem_append_right _ (h.yieldEv t a1 a2 a3 a4)
  · intro t i dc o hm
    rw [htr] at hm
    rcases List.mem_append.1 hm with hm | hm
    · have := hev _ hm; simp [irrEv] at this
    · obtain ⟨ry, h1, h2, h3⟩ := h.runEv t i dc o hm
      refine ⟨ry, by rw [htr]; exact List.mem_append_right _ h1,
        fun g hg => Nat.lt_of_lt_of_le (h2 g hg) a.len, ?_⟩
      rw [← h3]
      apply unwrap_congr
      intro g hg
      simp only [denLook]
      rw [a.den g (h2 g hg)]
  · rw [a.tops, a.topIdx]; exact h.topsEq
  · intro x hx
    rw [htr, results_append_irr s' evs _ hev] at hx
    exact h.results x hx
  · intro f hf
    rw [a.curTop] at hf
    obtain ⟨conv, body, h1, h2, h3, h4⟩ := h.cur f hf
    have hlt : f < s.futs.length := lt_of_kind s f (by rw [h3]; nofun)
    exact ⟨conv, body, by rw [htr, lastTop_append_irr s' evs _ hev, a.topIdx]; exact h1, by rw [a.topIdx]; exact h2,
      by rw [a.kind f hlt]; exact h3, by rw [a.den f hlt]; exact h4⟩

/-- the outermost frame waits for the current top-level task; with no frame left that task is computed -/
def botWait (ctl : List Ctl) (f : Nat) : Prop :=
  ∃ c, ctl.getLast? = some c ∧ (c = .waitEnter f ∨ ∃ b, c = .waitLoop f b)

def BI (s : State) : Prop :=
  match s.curTop with
  | none => s.ctl = []
  | some f => (s.ctl = [] ∧ (s.fut f).out ≠ none) ∨ botWait s.ctl f

/-- how a move may change the control stack, seen from the bottom frame -/
inductive CtlEff (s s' : State) : Prop
  | same : s'.ctl = s.ctl → CtlEff s s'
  | push (c : Ctl) : s.ctl ≠ [] → s'.ctl = c :: s.ctl → CtlEff s s'
  | popGen (t : Nat) (old : Option Nat) : s.ctl = .gen t old :: s'.ctl → CtlEff s s'
  | replace (r : Nat) (c c' : Ctl) (rest : List Ctl) : s.ctl = c :: rest → s'.ctl = c' :: rest →
      (c = .waitEnter r ∨ ∃ b, c = .waitLoop r b) → (c' = .waitEnter r ∨ ∃ b, c' = .waitLoop r b) → CtlEff s s'
  | popWait (r : Nat) (c : Ctl) : s.ctl = c :: s'.ctl → (c = .waitEnter r ∨ ∃ b, c = .waitLoop r b) →
      (s'.fut r).out ≠ none → CtlEff s s'

theorem BI.eff {s s' : State} (h : BI s) (hcur : s'.curTop = s.curTop)
    (hout : ∀ f o, (s.fut f).out = some o → (s'.fut f).out = some o) (e : CtlEff s s') : BI s' := by
  unfold BI at h ⊢
  rw [hcur]
  cases hc : s.curTop with
  | none =>
    rw [hc] at h
    simp only
    cases e with
    | same h1 => rw [h1]; exact h
    | push c h1 h2 => exact absurd h h1
    | popGen t old h1 => rw [h] at h1; cases h1
    | replace r c c' rest h1 h2 _ _ => rw [h] at h1; cases h1
    | popWait r c h1 _ _ => rw [h] at h1; cases h1
  | some f =>
    rw [hc] at h
    simp only
    have hout' : (s.fut f).out ≠ none → (s'.fut f).out ≠ none := by
      intro hn
      cases ho : (s.fut f).out with
      | none => exact absurd ho hn
      | some o => rw [hout f o ho]; nofun
    cases e with
    | same h1 =>
      rw [h1]
      rcases h with ⟨h1, h2⟩ | h
      · exact .inl ⟨h1, hout' h2⟩
      · exact .inr h
    | push c h1 h2 =>
      rcases h with ⟨h3, _⟩ | ⟨b, hb, hw⟩
      · exact absurd h3 h1
      · refine .inr ⟨b, ?_, hw⟩
        rw [h2, List.getLast?_cons_of_ne_nil h1]; exact hb
    | popGen t old h1 =>
      rcases h with ⟨h3, _⟩ | ⟨b, hb, hw⟩
      · rw [h3] at h1; cases h1
      · rw [h1] at hb
        cases hr : s'.ctl with
        | nil =>
          rw [hr] at hb
          simp only [List.getLast?_singleton, Option.some.injEq] at hb
          subst hb
          rcases hw with hw | ⟨_, hw⟩ <;> cases hw
        | cons c rest =>
          refine .inr ⟨b, ?_, hw⟩
          rw [hr] at hb
          rw [List.getLast?_cons_of_ne_nil (by simp)] at hb
          exact hb
    | replace r c c' rest h1 h2 hw1 hw2 =>
      rcases h with ⟨h3, _⟩ | ⟨b, hb, hw⟩
      · rw [h3] at h1; cases h1
      · rw [h1] at hb
        cases rest with
        | nil =>
          simp only [List.getLast?_singleton, Option.some.injEq] at hb
          subst hb
          have hrf : r = f := by
            rcases hw1 with rfl | ⟨_, rfl⟩ <;> rcases hw with hw | ⟨_, hw⟩ <;> cases hw <;> rfl
          subst hrf
          exact .inr ⟨c', by rw [h2]; simp, hw2⟩
        | cons c2 rest2 =>
          refine .inr ⟨b, ?_, hw⟩
          rw [h2, List.getLast?_cons_of_ne_nil (by simp)]
          rw [List.getLast?_cons_of_ne_nil (by simp)] at hb
          exact hb
    | popWait r c h1 hw1 hout1 =>
      rcases h with ⟨h3, _⟩ | ⟨b, hb, hw⟩
      · rw [h3] at h1; cases h1
      · rw [h1] at hb
        cases hr : s'.ctl with
        | nil =>
          rw [hr] at hb
          simp only [List.getLast?_singleton, Option.some.injEq] at hb
          subst hb
          have hrf : r = f := by
            rcases hw1 with rfl | ⟨_, rfl⟩ <;> rcases hw with hw | ⟨_, hw⟩ <;> cases hw <;> rfl
          subst hrf
          exact .inl ⟨rfl, hout1⟩
        | cons c2 rest2 =>
          refine .inr ⟨b, ?_, hw⟩
          rw [hr] at hb
          rw [List.getLast?_cons_of_ne_nil (by simp)] at hb
          exact hb

theorem lastTop_cons (e : Event) (tr : List Event) (h : ∀ i c, e ≠ .top i c) : lastTop (e :: tr) = lastTop tr := by
  cases e <;> simp_all [lastTop]

theorem results_cons (e : Event) (tr : List Event) (h : ∀ o, e ≠ .ret o) : results (e :: tr) = results tr := by
  cases e <;> simp_all [results]

theorem TI.emit {cfg0 : Cfg} {tops0 : List (Conv × Body)} {s : State} (h : TI cfg0 tops0 s) (e : Event)
    (h1 : ∀ o, e ≠ .ret o) (h2 : ∀ i c, e ≠ .top i c)
    (hd : ∀ f o, e = .done f o → f < s.futs.length ∧ (s.fut f).den = o)
    (hrun : ∀ t i dc o, e = .run t i dc (.out o) → ∃ ry, .yield t (i - 1) ry ∈ s.trace ∧
      (∀ g ∈ ry.leaves, g < s.futs.length) ∧ unwrap (denLook s) ry = o.toExcept) : TI cfg0 tops0 (s.emit e) := by
  constructor
  · exact h.cfg
  · intro f o hm
    simp only [trace_emit, List.mem_cons] at hm
    rcases hm with hm | hm
    · exact hd f o hm.symm
    · exact h.doneEv f o hm
  · intro t hk ho hp hs
    exact List.mem_cons_of_mem _ (h.yieldEv t hk ho hp hs)
  · intro t i dc o hm
    simp only [trace_emit, List.mem_cons] at hm
    rcases hm with hm | hm
    · obtain ⟨ry, a, b, c⟩ := hrun t i dc o hm.symm
      exact ⟨ry, List.mem_cons_of_mem _ a, b, c⟩
    · obtain ⟨ry, a, b, c⟩ := h.runEv t i dc o hm
      exact ⟨ry, List.mem_cons_of_mem _ a, b, c⟩
  · exact h.topsEq
  · intro x hx
    rw [trace_emit, results_cons e _ h1] at hx
    exact h.results x hx
  · intro f hf
    obtain ⟨conv, body, a, b, c, d⟩ := h.cur f hf
    exact ⟨conv, body, by rw [trace_emit, lastTop_cons e _ h2]; exact a, b, c, d⟩

theorem TI.updTask {cfg0 : Cfg} {tops0 : List (Conv × Body)} {s : State} (h : TI cfg0 tops0 s) (t : Nat)
    (g : TaskSt → TaskSt)
    (hy : (s.fut t).kind = .task → (s.fut t).out = none → (g (s.fut t).ts).pending = true →
      (g (s.fut t).ts).started = true → .yield t (g (s.fut t).ts).resumes (g (s.fut t).ts).lastY ∈ s.trace) :
    TI cfg0 tops0 (s.updTask t g) := by
  have hdl : denLook (s.updTask t g) = denLook s := by funext f; simp [denLook, den_updTask]
  constructor
  · exact h.cfg
  · intro f o hm
    rw [futs_len_updTask, den_updTask]; exact h.doneEv f o hm
  · intro x hk ho hp hs
    rw [kind_updTask] at hk; rw [out_updTask] at ho
    by_cases hx : x = t
    · subst hx
      have hlt : x < s.futs.length := lt_of_kind s x (by rw [hk]; nofun)
      rw [fut_updTask_self _ _ _ hlt] at hp hs ⊢
      exact hy hk ho hp hs
    · rw [fut_updTask_ne _ _ _ _ hx] at hp hs ⊢
      exact h.yieldEv x hk ho hp hs
  · intro x i dc o hm
    rw [futs_len_updTask, hdl]; exact h.runEv x i dc o hm
  · exact h.topsEq
  · exact h.results
  · intro f hf
    obtain ⟨conv, body, a, b, c, d⟩ := h.cur f hf
    exact ⟨conv, body, a, b, by rw [kind_updTask]; exact c, by rw [den_updTask]; exact d⟩

/-- both layers of the trace invariant -/
structure Tr (cfg0 : Cfg) (tops0 : List (Conv × Body)) (s : State) : Prop where
  ti : TI cfg0 tops0 s
  bi : BI s

end AsynqModel.Core.P4
