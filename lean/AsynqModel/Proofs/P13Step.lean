import AsynqModel.Proofs.P13Gen
import AsynqModel.Proofs.P2Inv
/-!
  P13, part 6: the relation between the observer's stack of open synchronous calls / top root and the control stack
  of the machine (`SR`), and the step theorem: `Inv13 c s → Inv13 c (step s)` for every reachable `s`.

  `calls ctl`: the open synchronous calls that have a nested `wait_for` frame: for every wait frame that sits directly
  on a generator frame `gen t`, the pair `(t, root)`, innermost first.  The observer's `syncStack` is `calls s.ctl`,
  possibly preceded by one more pair `(t, f)` for the running generator `t` when it is between `syncE t f` and
  `syncX t f` without a wait frame (`item.value()`, a computed future, or `wait_for` has just returned).
-/
namespace AsynqModel.Core.P13
open AsynqModel.Core AsynqModel.Core.Spec AsynqModel.Core.P1

def rootOf : Ctl → Option Nat
  | .waitEnter r => some r
  | .waitLoop r _ => some r
  | .gen _ _ => none

/-- the caller of the `wait_for` frame whose tail is `rest` -/
def callHead (r : Nat) : List Ctl → List (Nat × Nat)
  | .gen t _ :: _ => [(t, r)]
  | _ => []

def calls : List Ctl → List (Nat × Nat)
  | [] => []
  | .gen _ _ :: rest => calls rest
  | .waitEnter r :: rest => callHead r rest ++ calls rest
  | .waitLoop r _ :: rest => callHead r rest ++ calls rest

/-- what sits under a `wait_for(r)` frame: the generator that called `value()` on `r`, or nothing (then `r` is the
    root of the top-level computation) -/
def under (s : State) (r : Nat) : List Ctl → Prop
  | [] => s.curTop = some r
  | .gen t _ :: _ => ∃ k h, (s.task t).body = .syncret r k h ∧ (s.task t).pending = false
  | _ => False

def Buried (s : State) : List Ctl → Prop
  | [] => True
  | .gen _ _ :: rest => Buried s rest
  | .waitEnter r :: rest => under s r rest ∧ Buried s rest
  | .waitLoop r _ :: rest => under s r rest ∧ Buried s rest

theorem calls_wait {w : Ctl} {r : Nat} (h : rootOf w = some r) (rest : List Ctl) :
    calls (w :: rest) = callHead r rest ++ calls rest := by
  cases w <;> simp [rootOf] at h <;> subst h <;> rfl

theorem buried_wait {s : State} {w : Ctl} {r : Nat} (h : rootOf w = some r) (rest : List Ctl) :
    Buried s (w :: rest) ↔ under s r rest ∧ Buried s rest := by
  cases w <;> simp [rootOf] at h <;> subst h <;> rfl

theorem calls_mem_gens : ∀ (l : List Ctl) (a b : Nat), (a, b) ∈ calls l → a ∈ P2.gens l := by
  intro l
  induction l with
  | nil => intro a b h; cases h
  | cons w rest ih =>
    intro a b h
    have key : ∀ r, (a, b) ∈ callHead r rest ++ calls rest → a ∈ P2.gens rest := by
      intro r h
      rcases List.mem_append.1 h with h | h
      · cases rest with
        | nil => cases h
        | cons w' rest' =>
          cases w' <;> simp [callHead] at h
          simp [P2.gens, h.1]
      · exact ih a b h
    cases w with
    | gen t o => simp only [P2.gens, List.mem_cons]; exact Or.inr (ih a b h)
    | waitEnter r => exact key r h
    | waitLoop r bse => exact key r h

structure SR (c : Ctx) (s : State) : Prop where
  ss : ∃ extra, (W s).syncStack = extra ++ calls s.ctl ∧
    (extra = [] ∨ ∃ t old rest f k h, s.ctl = .gen t old :: rest ∧ (s.task t).body = .syncret f k h ∧
      (s.task t).pending = false ∧ extra = [(t, f)])
  bur : Buried s s.ctl
  top : ∀ r, s.curTop = some r → (W s).topRoot = some r

structure Inv13 (c : Ctx) (s : State) : Prop where
  li : LI c s
  sr : SR c s

/-- when the head of the control stack is not a generator frame, the observer's sync stack is exactly `calls` -/
theorem SR.ss_nogen {c : Ctx} {s : State} (h : SR c s) (hng : ∀ t old rest, s.ctl ≠ .gen t old :: rest) :
    (W s).syncStack = calls s.ctl := by
  obtain ⟨extra, h1, h2⟩ := h.ss
  rcases h2 with rfl | ⟨t, old, rest, _, _, _, hc, _⟩
  · simpa using h1
  · exact absurd hc (hng t old rest)

theorem SR.ss_gen {c : Ctx} {s : State} (h : SR c s) {t old rest} (hctl : s.ctl = .gen t old :: rest)
    (hb : ¬ runningRet (s.task t)) : (W s).syncStack = calls s.ctl := by
  obtain ⟨extra, h1, h2⟩ := h.ss
  rcases h2 with rfl | ⟨t', old', rest', f, k, h', hc, hbd, hpd, _⟩
  · simpa using h1
  · rw [hctl] at hc
    injection hc with hc _
    injection hc with e1 _
    subst e1
    exact absurd ⟨f, k, h', hbd, hpd⟩ hb

/-- the observer's target at a scheduler flush is the root of the innermost `wait_for` -/
theorem SR.target {c : Ctx} {s : State} (h : SR c s) {w : Ctl} {r : Nat} {rest : List Ctl} (hctl : s.ctl = w :: rest)
    (hw : rootOf w = some r) :
    (∃ t rest', (W s).syncStack = (t, r) :: rest') ∨ ((W s).syncStack = [] ∧ (W s).topRoot = some r) := by
  have hss := h.ss_nogen (fun t old rest' e => by rw [hctl] at e; injection e with e _; subst e; cases hw)
  have hb := h.bur
  rw [hctl, buried_wait hw] at hb
  rw [hss, hctl, calls_wait hw]
  cases rest with
  | nil => exact Or.inr ⟨rfl, h.top r hb.1⟩
  | cons w' rest' =>
    cases w' with
    | gen t o => exact Or.inl ⟨t, _, rfl⟩
    | waitEnter _ => exact hb.1.elim
    | waitLoop _ _ => exact hb.1.elim

/-! ### transfer along `T` -/

theorem buried_frame {s s' : State} (hcur : s'.curTop = s.curTop) : ∀ (l : List Ctl), Buried s l →
    (∀ t ∈ P2.gens l, (s'.task t).body = (s.task t).body ∧ ((s.task t).pending = false → (s'.task t).pending = false)) →
    Buried s' l := by
  intro l
  induction l with
  | nil => intro _ _; trivial
  | cons w rest ih =>
    intro hB hfr
    have hrest : ∀ t ∈ P2.gens rest, (s'.task t).body = (s.task t).body ∧
        ((s.task t).pending = false → (s'.task t).pending = false) := by
      intro t ht
      apply hfr
      cases w <;> simp [P2.gens, ht]
    have hunder : ∀ r, under s r rest → under s' r rest := by
      intro r hu
      cases rest with
      | nil => exact hcur.trans hu
      | cons w' rest' =>
        cases w' with
        | gen t o =>
          obtain ⟨k, h, hb, hp⟩ := hu
          have := hrest t (by simp [P2.gens])
          exact ⟨k, h, this.1.trans hb, this.2 hp⟩
        | waitEnter _ => exact hu.elim
        | waitLoop _ _ => exact hu.elim
    cases w with
    | gen t o => exact ih hB hrest
    | waitEnter r => exact ⟨hunder r hB.1, ih hB.2 hrest⟩
    | waitLoop r b => exact ⟨hunder r hB.1, ih hB.2 hrest⟩

theorem gens_lt {s : State} (hp : P2.PInv s) (t : Nat) (ht : t ∈ P2.gens s.ctl) : t < s.futs.length :=
  lt_of_kind_ne (by rw [hp.genKind t ht]; intro e; cases e)

theorem buried_of_T {c x g} {s r : State} {ctl'} (q : T c x g s r ctl') (hp : P2.PInv s) (l : List Ctl)
    (hB : Buried s l) (hsub : ∀ t ∈ P2.gens l, t ∈ P2.gens s.ctl ∧ x ≠ some t) : Buried r l :=
  buried_frame q.top l hB fun t ht => q.body t (hsub t ht).2 (gens_lt hp t (hsub t ht).1)

theorem top_of_T {c x g} {s r : State} {ctl'} (q : T c x g s r ctl') (hl : LI c s) (hs : SR c s) :
    ∀ f, r.curTop = some f → (W r).topRoot = some f := by
  intro f hf
  rw [(q.ob hl).2.2]
  exact hs.top f (by rw [← q.top]; exact hf)

/-- a failed step changes nothing the relation looks at -/
theorem inv_fail {c : Ctx} {s : State} (h : Inv13 c s) (m : String) : Inv13 c (s.fail m) :=
  ⟨h.li.congr rfl rfl rfl rfl, h.sr.ss, buried_frame (s := s) (s' := s.fail m) rfl s.ctl h.sr.bur (fun _ _ => ⟨rfl, id⟩), h.sr.top⟩

/-- the control stack stays; its head is not a generator frame -/
theorem inv_same {c : Ctx} {s r : State} (h : Inv13 c s) (hp : P2.PInv s)
    (hng : ∀ t old rest, s.ctl ≠ .gen t old :: rest) (q : Q c none s r) : Inv13 c r := by
  obtain ⟨l, ss, _⟩ := q.ob h.li
  refine ⟨l, ⟨[], ?_, Or.inl rfl⟩, ?_, top_of_T q h.li h.sr⟩
  · rw [ss, q.ctl]; exact h.sr.ss_nogen hng
  · rw [q.ctl]
    exact buried_of_T q hp _ h.sr.bur (fun t ht => ⟨ht, by simp⟩)

/-- a `wait_for` frame is popped -/
theorem inv_pop {c : Ctx} {s r : State} (h : Inv13 c s) (hp : P2.PInv s) {w : Ctl} {r0 : Nat} {rest : List Ctl}
    (hctl : s.ctl = w :: rest) (hw : rootOf w = some r0) (q : T c none id s r rest) : Inv13 c r := by
  obtain ⟨l, ss, _⟩ := q.ob h.li
  have hss := h.sr.ss_nogen (fun t old rest' e => by rw [hctl] at e; injection e with e _; subst e; cases hw)
  have hb := h.sr.bur
  rw [hctl, buried_wait hw] at hb
  rw [hctl, calls_wait hw] at hss
  have hsub : ∀ t ∈ P2.gens rest, t ∈ P2.gens s.ctl ∧ (none : Option Nat) ≠ some t := by
    intro t ht
    refine ⟨?_, by simp⟩
    rw [hctl]
    cases w <;> simp [P2.gens, ht]
  have hbur : Buried r rest := buried_of_T q hp rest hb.2 hsub
  refine ⟨l, ⟨callHead r0 rest, ?_, ?_⟩, by rw [q.ctl]; exact hbur, top_of_T q h.li h.sr⟩
  · rw [ss, q.ctl]; exact hss
  · cases rest with
    | nil => exact Or.inl rfl
    | cons w' rest' =>
      cases w' with
      | gen t o =>
        obtain ⟨k, h', hbd, hpd⟩ := hb.1
        have := q.body t (by simp) (gens_lt hp t (hsub t (by simp [P2.gens])).1)
        exact Or.inr ⟨t, o, rest', r0, k, h', q.ctl, this.1.trans hbd, this.2 hpd, rfl⟩
      | waitEnter _ => exact hb.1.elim
      | waitLoop _ _ => exact hb.1.elim

/-- a `wait_for` frame changes its phase -/
theorem inv_swap {c : Ctx} {s r : State} (h : Inv13 c s) (hp : P2.PInv s) {w w' : Ctl} {r0 : Nat} {rest : List Ctl}
    (hctl : s.ctl = w :: rest) (hw : rootOf w = some r0) (hw' : rootOf w' = some r0)
    (q : T c none id s r (w' :: rest)) : Inv13 c r := by
  obtain ⟨l, ss, _⟩ := q.ob h.li
  have hss := h.sr.ss_nogen (fun t old rest' e => by rw [hctl] at e; injection e with e _; subst e; cases hw)
  have hb := h.sr.bur
  rw [hctl, buried_wait hw] at hb
  rw [hctl, calls_wait hw] at hss
  have hsub : ∀ t ∈ P2.gens rest, t ∈ P2.gens s.ctl ∧ (none : Option Nat) ≠ some t := by
    intro t ht
    refine ⟨?_, by simp⟩
    rw [hctl]
    cases w <;> simp [P2.gens, ht]
  have hb' : Buried s (w' :: rest) := (buried_wait hw' rest).2 hb
  have hbur : Buried r (w' :: rest) := buried_of_T q hp _ hb' (by
    intro t ht
    apply hsub
    cases w' <;> simp [rootOf] at hw' <;> simpa [P2.gens] using ht)
  refine ⟨l, ⟨[], ?_, Or.inl rfl⟩, by rw [q.ctl]; exact hbur, top_of_T q h.li h.sr⟩
  rw [ss, q.ctl, calls_wait hw']
  simpa using hss

/-- `_continue_with_task(t)`: a generator frame is pushed -/
theorem inv_push {c : Ctx} {s r : State} (h : Inv13 c s) (hp : P2.PInv s) {t : Nat} {a : Option Nat}
    (hng : ∀ t old rest, s.ctl ≠ .gen t old :: rest) (q : T c none id s r (.gen t a :: s.ctl)) : Inv13 c r := by
  obtain ⟨l, ss, _⟩ := q.ob h.li
  refine ⟨l, ⟨[], ?_, Or.inl rfl⟩, ?_, top_of_T q h.li h.sr⟩
  · rw [ss, q.ctl]; exact h.sr.ss_nogen hng
  · rw [q.ctl]
    exact buried_of_T q hp s.ctl h.sr.bur (fun t ht => ⟨ht, by simp⟩)

/-- one instruction of the running generator -/
theorem inv_gen {c : Ctx} {s r : State} (h : Inv13 c s) (hp : P2.PInv s) {t : Nat} {old : Option Nat}
    {rest : List Ctl} (hctl : s.ctl = .gen t old :: rest) (o : GenOut c s t r) : Inv13 c r := by
  have hnd : t ∉ P2.gens rest := by
    have := hp.distinct
    rw [hctl] at this
    simp only [P2.gens, List.nodup_cons] at this
    exact this.1
  have hsub : ∀ u ∈ P2.gens rest, u ∈ P2.gens s.ctl ∧ some t ≠ some u := by
    intro u hu
    refine ⟨by rw [hctl]; simp [P2.gens, hu], ?_⟩
    intro e
    injection e with e
    exact hnd (e ▸ hu)
  have hbs : Buried s rest := by have := h.sr.bur; rw [hctl] at this; exact this
  have hcalls : calls s.ctl = calls rest := by rw [hctl]; rfl
  cases o with
  | stay hb q =>
    obtain ⟨l, ss, _⟩ := q.ob h.li
    refine ⟨l, ⟨[], ?_, Or.inl rfl⟩, ?_, top_of_T q h.li h.sr⟩
    · rw [ss, q.ctl]; exact h.sr.ss_gen hctl hb
    · rw [q.ctl, hctl]
      exact buried_of_T q hp rest hbs hsub
  | leave hb q =>
    obtain ⟨l, ss, _⟩ := q.ob h.li
    have hr : r.ctl = rest := by rw [q.ctl, hctl]; rfl
    refine ⟨l, ⟨[], ?_, Or.inl rfl⟩, ?_, top_of_T q h.li h.sr⟩
    · rw [ss, hr]
      simpa [hcalls] using h.sr.ss_gen hctl hb
    · rw [hr]
      exact buried_of_T q hp rest hbs hsub
  | call f k h' hb q hbody hpd =>
    obtain ⟨l, ss, _⟩ := q.ob h.li
    refine ⟨l, ⟨[], ?_, Or.inl rfl⟩, ?_, top_of_T q h.li h.sr⟩
    · rw [ss, q.ctl, h.sr.ss_gen hctl hb, hctl]
      rfl
    · rw [q.ctl, hctl]
      exact ⟨⟨k, h', hbody, hpd⟩, buried_of_T q hp rest hbs hsub⟩
  | callNow f k h' hb q hbody hpd =>
    obtain ⟨l, ss, _⟩ := q.ob h.li
    refine ⟨l, ⟨[(t, f)], ?_, Or.inr ⟨t, old, rest, f, k, h', by rw [q.ctl, hctl], hbody, hpd, rfl⟩⟩, ?_,
      top_of_T q h.li h.sr⟩
    · rw [ss, q.ctl, h.sr.ss_gen hctl hb]
      rfl
    · rw [q.ctl, hctl]
      exact buried_of_T q hp rest hbs hsub
  | ret f k h' hbody hpd q =>
    obtain ⟨l, ss, _⟩ := q.ob h.li
    refine ⟨l, ⟨[], ?_, Or.inl rfl⟩, ?_, top_of_T q h.li h.sr⟩
    · rw [ss, q.ctl]
      obtain ⟨extra, h1, h2⟩ := h.sr.ss
      rcases h2 with rfl | ⟨t', old', rest', f', k', h'', hc, hbd, _, rfl⟩
      · -- a `syncret` written in the program: nothing to erase
        simp only [List.nil_append] at h1 ⊢
        rw [h1]
        apply List.erase_of_not_mem
        intro hm
        rw [hcalls] at hm
        exact hnd (calls_mem_gens rest t f hm)
      · rw [hctl] at hc
        injection hc with hc _
        injection hc with e1 _
        subst e1
        rw [hbody] at hbd
        injection hbd with e2 _ _
        subst e2
        rw [h1]
        simp
    · rw [q.ctl, hctl]
      exact buried_of_T q hp rest hbs hsub
  | failed m e => rw [e]; exact inv_fail h m

end AsynqModel.Core.P13
