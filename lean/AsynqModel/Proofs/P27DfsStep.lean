import AsynqModel.Proofs.P27Dfs
/-
  P6 (property C04), part 11: every step preserves the DFS invariant `InvC`.
-/
namespace AsynqModel.Core.P27
open AsynqModel.Core.P6
open AsynqModel.Core

/-- what `InvC.transfer` / `InvC.pop` ask about a single future -/
def FlKeep (s r : State) (x : Nat) : Prop :=
  Flagged r x → Flagged s x ∧ ∀ d ∈ (view r x).deps, r.computed d = false → d ∈ (view s x).deps

theorem flKeep_same {s r : State} {x : Nat} (e : view r x = view s x) : FlKeep s r x := by
  intro h
  rw [Flagged, e] at h
  exact ⟨h, fun d hd _ => by rw [e] at hd; exact hd⟩

theorem not_flush_of_stack {s : State} (hbase : ∀ root base rest, s.ctl = .waitLoop root base :: rest → base = 0)
    {top : Nat} {st : List Nat} (hstk : s.stack = top :: st) : ¬ IsFlush s := by
  rintro ⟨root, base, rest, hctl, hlen, _⟩
  rw [hbase root base rest hctl, hstk] at hlen
  simp at hlen

theorem not_flush_of_ctl {s : State} (h : ∀ root base rest, s.ctl ≠ .waitLoop root base :: rest) : ¬ IsFlush s := by
  rintro ⟨root, base, rest, hctl, _, _⟩
  exact h root base rest hctl

/-- the cases in which all views, the heap and the batches are unchanged and the stack is kept -/
theorem invC_same {s r : State} {P : Nat → List Nat} (hC : InvC s P) (e : Same s r) (hN : NAF s r)
    (hst : r.stack = s.stack)
    (hctl : ∀ c ∈ r.ctl, c ∈ s.ctl ∨ ctlRoot c = none)
    (hroot : ∀ root base rest,
      (r.ctl = .waitLoop root base :: rest ∨ ∃ t old, r.ctl = .gen t old :: .waitLoop root base :: rest) →
      ∃ base' rest', (s.ctl = .waitLoop root base' :: rest' ∨
        ∃ t old, s.ctl = .gen t old :: .waitLoop root base' :: rest')) : InvC r P := by
  have hp : Paths r P := by
    refine hC.paths.transfer (Nat.le_of_eq e.len.symm) (fun t => by rw [e.view]) (fun t => by rw [e.view])
      (fun t => by rw [e.view]) (fun d _ => by rw [e.view]) (fun t d hd => by rw [e.view] at hd; exact hd) ?_ ?_
    · intro x hx; rw [hst] at hx; rw [e.len]; exact hC.paths.stackLt x hx
    · intro c hc x hx
      rcases hctl c hc with h1 | h1
      · rw [e.len]; exact hC.paths.ctlLt c h1 x hx
      · rw [h1] at hx; cases hx
  exact hC.transfer hp hst (fun f hf => by rw [e.computed]; exact hf) (fun x => flKeep_same (e.view x))
    (fun f hf => Settled.of_view (fun g => SEq.of_eq (e.view g)) e.batches hN hf) (fun _ _ => rfl)
    (fun y _ hk => by rw [e.view] at hk; exact hk) hroot

/-- `Paths` for a step that changes one view, keeping own / inh / prevY / kind and not adding dependencies -/
theorem Paths.upd1 {s r : State} {P : Nat → List Nat} {t : Nat} {v' : FV} (h : Paths s P) (U : Upd1S s r t v')
    (hown : v'.own = (view s t).own) (hinh : v'.inh = (view s t).inh) (hprev : v'.prevY = (view s t).prevY)
    (hkind : v'.kind = (view s t).kind) (hdeps : ∀ d ∈ v'.deps, d ∈ (view s t).deps)
    (hstack : ∀ x ∈ r.stack, x ∈ s.stack ∨ ∃ t', x ∈ (view s t').deps)
    (hctl : ∀ c ∈ r.ctl, c ∈ s.ctl ∨ ctlRoot c = none) : Paths r P := by
  have hv : ∀ g, (view r g).own = (view s g).own ∧ (view r g).inh = (view s g).inh ∧
      (view r g).prevY = (view s g).prevY ∧ (view r g).kind = (view s g).kind ∧
      ∀ d ∈ (view r g).deps, d ∈ (view s g).deps := by
    intro g
    rcases U.view_cases g with ⟨rfl, e⟩ | ⟨_, e⟩
    · rw [e]; exact ⟨hown, hinh, hprev, hkind, hdeps⟩
    · rw [e]; exact ⟨rfl, rfl, rfl, rfl, fun _ hd => hd⟩
  refine h.transfer (Nat.le_of_eq U.len.symm) (fun g => (hv g).1) (fun g => (hv g).2.1) (fun g => (hv g).2.2.1)
    (fun g _ => (hv g).2.2.2.1) (fun g => (hv g).2.2.2.2) ?_ ?_
  · intro x hx
    rw [U.len]
    rcases hstack x hx with h1 | ⟨t', h1⟩
    · exact h.stackLt x h1
    · exact h.depsLt t' x h1
  · intro c hc x hx
    rcases hctl c hc with h1 | h1
    · rw [U.len]; exact h.ctlLt c h1 x hx
    · rw [h1] at hx; cases hx

/-- a blocked flagged task on top of the stack is settled (S3) -/
theorem settled_second {s : State} {P : Nat → List Nat} (hA : InvA s) (hC : InvC s P) {top : Nat} {st : List Nat}
    (hstk : s.stack = top :: st) (hk : (view s top).kind = .task) (hc : s.computed top = false)
    (hbl : ∃ d ∈ (view s top).deps, s.computed d = false) (hfl : (view s top).flag = true)
    (hnaf : P2.NAfree s top)
    (hw : ∃ root base rest, s.ctl = .waitLoop root base :: rest) : Settled s top := by
  obtain ⟨root, base, rest, hw⟩ := hw
  have ho := out_none_of_uncomputed hc
  obtain ⟨d0, hd0, hcd0⟩ := hbl
  have hne : (view s top).deps ≠ [] := by
    intro e; rw [e] at hd0; cases hd0
  refine .task hk hc (hA.sOfD top hne) (hA.pOfI top hk ho (fun old rest' h => by rw [hw] at h; cases h)) ?_
    ⟨d0, hd0, hcd0⟩ hnaf
  intro d hd
  cases hcd : s.computed d
  · rcases hC.dfs [] top st (by rw [hstk]; rfl) ⟨hk, hfl, ho⟩ d hd hcd with h1 | h1
    · exact h1
    · cases h1
  · exact .computed hcd

theorem invC_step {s r : State} {P : Nat → List Nat} (hA : InvA s) (hB : InvB s) (hC : InvC s P) (d : Desc s r)
    (hN : NAF s r) (hsc : StepScoped s)
    (hstk0 : (s.ctl = [] ∨ ∃ root, s.ctl = [.waitEnter root]) → s.stack = [])
    (hbase : ∀ root base rest, s.ctl = .waitLoop root base :: rest → base = 0) : ∃ P', InvC r P' := by
  have hmono : ∀ f, s.computed f = true → r.computed f = true := fun f hf => d.computed_mono hf
  cases d with
  | quiet e hst hctl =>
    exact ⟨P, invC_same hC e hN hst (fun c hc => Or.inl (by rw [hctl] at hc; exact hc))
      (fun root base rest h => ⟨base, rest, by rw [hctl] at h; exact h⟩)⟩
  | top conv body rest htops hctl0 U htops' hctl =>
    have hnf : ¬ IsFlush s := not_flush_of_ctl (fun _ _ _ h => by rw [hctl0] at h; cases h)
    have hset : ∀ f, Settled s f → Settled r f := fun f hf =>
      settled_step hA (.top conv body rest htops hctl0 U htops' hctl) hN hnf hf
    have hv : ∀ g, (view r g).own = (view s g).own ∧ (view r g).inh = (view s g).inh ∧
        (view r g).prevY = (view s g).prevY ∧ (view r g).deps = (view s g).deps ∧ (view r g).flag = (view s g).flag := by
      intro g
      by_cases hg : g = s.futs.length
      · subst hg
        rw [U.viewN, view_ge s _ (Nat.le_refl _)]
        exact ⟨rfl, rfl, rfl, rfl, rfl⟩
      · rw [U.viewO g hg]; exact ⟨rfl, rfl, rfl, rfl, rfl⟩
    have hp : Paths r P := by
      refine hC.paths.transfer (by rw [U.len]; omega) (fun g => (hv g).1) (fun g => (hv g).2.1)
        (fun g => (hv g).2.2.1) (fun g hg => by rw [U.viewO g (Nat.ne_of_lt hg)])
        (fun g d hd => by rw [(hv g).2.2.2.1] at hd; exact hd) ?_ ?_
      · intro x hx
        rw [U.stack] at hx
        have := hC.paths.stackLt x hx
        rw [U.len]; omega
      · intro c hc x hx
        rw [hctl] at hc
        simp at hc
        subst hc
        simp [ctlRoot] at hx
        subst hx
        rw [U.len]; omega
    refine ⟨P, hC.transfer hp U.stack hmono ?_ hset (fun _ _ => rfl) ?_ ?_⟩
    · intro x hx
      by_cases hg : x = s.futs.length
      · subst hg
        have := hx.2.1
        rw [U.viewN] at this
        cases this
      · exact flKeep_same (U.viewO x hg) hx
    · intro y hy hk
      have := hC.paths.stackLt y hy
      rw [U.viewO y (Nat.ne_of_lt this)] at hk
      exact hk
    · intro root base rest' h
      rw [hctl] at h
      rcases h with h | ⟨t, old, h⟩ <;> cases h
  | ret root hw hroot e hst hctl =>
    have htail : r.ctl = [] := by
      rw [hctl]
      rcases hA.shape with h0 | ⟨r0, h0⟩ | ⟨r0, b0, h0⟩ | ⟨t0, old0, r0, b0, h0⟩
      · rw [h0]; rfl
      · rw [h0]; rfl
      · rw [h0]; rfl
      · exact absurd h0 (hw t0 old0 _)
    exact ⟨P, invC_same hC e hN hst (fun c hc => by rw [htail] at hc; cases hc)
      (fun root' base rest h => by rw [htail] at h; rcases h with h | ⟨t, old, h⟩ <;> cases h)⟩
  | enterLoop root rest hctl0 hroot e hst hctl =>
    have hrest : rest = [] := by
      rcases hA.shape with h0 | ⟨r0, h0⟩ | ⟨r0, b0, h0⟩ | ⟨t0, old0, r0, b0, h0⟩ <;> rw [h0] at hctl0 <;> cases hctl0
      rfl
    subst hrest
    have hs0 : s.stack = [] := hstk0 (Or.inr ⟨root, hctl0⟩)
    rw [hs0] at hst
    have hrl : root < s.futs.length :=
      hC.paths.ctlLt (.waitEnter root) (by rw [hctl0]; simp) root rfl
    have hfS : ∀ x, Flagged r x → False := by
      intro x hx
      have hx' : Flagged s x := by rw [Flagged, e.view] at hx; exact hx
      have := hC.flagStack x hx'
      rw [hs0] at this; cases this
    have hp : Paths r P := by
      refine hC.paths.transfer (Nat.le_of_eq e.len.symm) (fun t => by rw [e.view]) (fun t => by rw [e.view])
        (fun t => by rw [e.view]) (fun d _ => by rw [e.view]) (fun t d hd => by rw [e.view] at hd; exact hd) ?_ ?_
      · intro x hx; rw [hst] at hx; simp at hx; subst hx; rw [e.len]; exact hrl
      · intro c hc x hx
        rw [hctl] at hc; simp at hc; subst hc
        simp [ctlRoot] at hx; subst hx
        rw [e.len]; exact hrl
    refine ⟨P, hp, fun t ht => (hfS t ht).elim, fun _ x _ _ hx => (hfS x hx).elim,
      fun _ d _ _ _ hd => (hfS d hd).elim, ?_⟩
    intro root' base rest' h
    rw [hctl] at h
    rcases h with h | ⟨t, old, h⟩
    · injection h with h1 _
      injection h1 with h1 _
      subst h1
      exact Or.inl ⟨[], by rw [hst]; rfl⟩
    · cases h
  | pop hw top st hstk hcase e hst hctl =>
    have hts : Settled r top := by
      rcases hcase with hc | ⟨hc, k, q, p, m, hk⟩
      · exact .computed (by rw [e.computed]; exact hc)
      · obtain ⟨b, hb1, hb2, _⟩ := hB.item top k q p m hk (out_none_of_uncomputed hc)
        exact Settled.of_view (fun g => SEq.of_eq (e.view g)) e.batches hN (.item hk hc ⟨b, hb1, hb2⟩)
    have hnfl : ¬ Flagged r top := by
      intro hx
      rw [Flagged, e.view] at hx
      rcases hcase with hc | ⟨hc, k, q, p, m, hk⟩
      · rw [uncomputed_of_out_none hx.2.2] at hc; cases hc
      · rw [hk] at hx; cases hx.1
    have hp : Paths r P := by
      refine hC.paths.transfer (Nat.le_of_eq e.len.symm) (fun t => by rw [e.view]) (fun t => by rw [e.view])
        (fun t => by rw [e.view]) (fun d _ => by rw [e.view]) (fun t d hd => by rw [e.view] at hd; exact hd) ?_ ?_
      · intro x hx; rw [hst] at hx; rw [e.len]
        exact hC.paths.stackLt x (by rw [hstk]; exact List.mem_cons_of_mem _ hx)
      · intro c hc x hx; rw [hctl] at hc; rw [e.len]; exact hC.paths.ctlLt c hc x hx
    exact ⟨P, hC.pop hp hstk hst hmono (fun x => flKeep_same (e.view x))
      (fun f hf => Settled.of_view (fun g => SEq.of_eq (e.view g)) e.batches hN hf)
      (fun y hk => by rw [e.view] at hk; exact hk) hts hnfl hctl⟩
  | popLazy hw top st hstk lo hk hc U hst hctl =>
    have hnf : ¬ IsFlush s := not_flush_of_stack hbase hstk
    have hset : ∀ f, Settled s f → Settled r f := fun f hf =>
      settled_step hA (.popLazy hw top st hstk lo hk hc U hst hctl) hN hnf hf
    have hts : Settled r top := .computed (by rw [computed_eq_view, U.viewT]; rfl)
    have hnfl : ¬ Flagged r top := by
      intro hx
      have := hx.1
      rw [U.viewT] at this
      have h2 : (view s top).kind = .task := this
      rw [hk] at h2; cases h2
    have hp : Paths r P := by
      refine hC.paths.upd1 U rfl rfl rfl rfl (fun d hd => by cases hd) ?_ (fun c hc => Or.inl (by rw [hctl] at hc; exact hc))
      intro x hx; rw [hst] at hx
      exact Or.inl (by rw [hstk]; exact List.mem_cons_of_mem _ hx)
    refine ⟨P, hC.pop hp hstk hst hmono ?_ hset ?_ hts hnfl hctl⟩
    · intro x
      rcases U.view_cases x with ⟨rfl, e⟩ | ⟨_, e⟩
      · intro hx; exact absurd hx hnfl
      · exact flKeep_same e
    · intro y hky
      rcases U.view_cases y with ⟨rfl, e⟩ | ⟨_, e⟩
      · rw [e] at hky; exact hky
      · rw [e] at hky; exact hky
  | second hw top st hstk hk hc hbl hfl hnaf U hst hctl =>
    have hnf : ¬ IsFlush s := not_flush_of_stack hbase hstk
    have hset : ∀ f, Settled s f → Settled r f := fun f hf =>
      settled_step hA (.second hw top st hstk hk hc hbl hfl hnaf U hst hctl) hN hnf hf
    have hts : Settled r top := hset top (settled_second hA hC hstk hk hc hbl hfl hnaf hw)
    have hnfl : ¬ Flagged r top := by
      intro hx
      have := hx.2.1
      rw [U.viewT] at this
      cases this
    have hp : Paths r P := by
      refine hC.paths.upd1 U rfl rfl rfl rfl (fun d hd => hd) ?_ (fun c hc => Or.inl (by rw [hctl] at hc; exact hc))
      intro x hx; rw [hst] at hx
      exact Or.inl (by rw [hstk]; exact List.mem_cons_of_mem _ hx)
    refine ⟨P, hC.pop hp hstk hst hmono ?_ hset ?_ hts hnfl hctl⟩
    · intro x
      rcases U.view_cases x with ⟨rfl, e⟩ | ⟨_, e⟩
      · intro hx; exact absurd hx hnfl
      · exact flKeep_same e
    · intro y hky
      rcases U.view_cases y with ⟨rfl, e⟩ | ⟨_, e⟩
      · rw [e] at hky; exact hky
      · rw [e] at hky; exact hky
  | naFail hw top st hstk hk hc hbl hfl hna U hst hctl =>
    have hnf : ¬ IsFlush s := not_flush_of_stack hbase hstk
    have hset : ∀ f, Settled s f → Settled r f := fun f hf =>
      settled_step hA (.naFail hw top st hstk hk hc hbl hfl hna U hst hctl) hN hnf hf
    have hts : Settled r top := .computed (by rw [computed_eq_view, U.viewT]; rfl)
    have hnfl : ¬ Flagged r top := by
      intro hx
      have := hx.2.2
      rw [U.viewT] at this
      simp [finishView] at this
    have hp : Paths r P := by
      refine hC.paths.upd1 U rfl rfl rfl rfl (fun d hd => by cases hd) ?_ (fun c hc => Or.inl (by rw [hctl] at hc; exact hc))
      intro x hx; rw [hst] at hx
      exact Or.inl (by rw [hstk]; exact List.mem_cons_of_mem _ hx)
    refine ⟨P, hC.pop hp hstk hst hmono ?_ hset ?_ hts hnfl hctl⟩
    · intro x
      rcases U.view_cases x with ⟨rfl, e⟩ | ⟨_, e⟩
      · intro hx; exact absurd hx hnfl
      · exact flKeep_same e
    · intro y hky
      rcases U.view_cases y with ⟨rfl, e⟩ | ⟨_, e⟩
      · rw [e] at hky; exact hky
      · rw [e] at hky; exact hky
  | first hw top st hstk hk hc hbl hfl U hst hctl =>
    have hnf : ¬ IsFlush s := not_flush_of_stack hbase hstk
    have hset : ∀ f, Settled s f → Settled r f := fun f hf =>
      settled_step hA (.first hw top st hstk hk hc hbl hfl U hst hctl) hN hnf hf
    rw [hstk] at hst
    generalize hds : ((view s top).deps.filter fun d => !s.computed d) = ds at hst
    have hdsmem : ∀ d, d ∈ ds ↔ d ∈ (view s top).deps ∧ s.computed d = false := by
      intro d; rw [← hds, List.mem_filter]; simp
    have hvtop : view r top = flagView true (view s top) := U.viewT
    have hvo : ∀ x, x ≠ top → view r x = view s x := U.viewO
    have hkindr : ∀ y, (view r y).kind = (view s y).kind := by
      intro y
      by_cases hy : y = top
      · subst hy; rw [hvtop]; rfl
      · rw [hvo y hy]
    have hdepsr : ∀ y, (view r y).deps = (view s y).deps := by
      intro y
      by_cases hy : y = top
      · subst hy; rw [hvtop]; rfl
      · rw [hvo y hy]
    have hFl : ∀ x, x ≠ top → Flagged r x → Flagged s x := by
      intro x hx h; rw [Flagged, hvo x hx] at h; exact h
    -- no uncomputed dependency of `top` is a flagged task: that would close a cycle
    have hNC : ∀ x ∈ ds, ¬ Flagged s x := by
      intro x hxds hx
      have hxdeps := ((hdsmem x).1 hxds).1
      have hxne : x ≠ top := by
        intro e; rw [e] at hx
        have := hx.2.1
        rw [hfl] at this; cases this
      have hxs := hC.flagStack x hx
      rw [hstk] at hxs
      obtain ⟨a, b, e, hn⟩ := split_first hxs
      have hta : top ∈ a := by
        cases a with
        | nil => simp at e; exact absurd e.1.symm hxne
        | cons z a' => simp at e; rw [e.1]; exact List.mem_cons_self
      have h1 := hC.ord a x b (by rw [hstk]; exact e) hn hx top hta hk
      have h2 := hC.paths.edge top x hxdeps hx.1
      exact PLt.asymm h1 h2
    have htopds : top ∉ ds := by
      intro h
      exact PLt.irrefl _ (hC.paths.edge top top ((hdsmem top).1 h).1 hk)
    have hnotds : ∀ x, Flagged r x → x ∉ ds.reverse := by
      intro x hx hm
      have hm' : x ∈ ds := List.mem_reverse.1 hm
      by_cases hxt : x = top
      · subst hxt; exact htopds hm'
      · exact hNC x hm' (hFl x hxt hx)
    have hp : Paths r P := by
      refine hC.paths.upd1 U rfl rfl rfl rfl (fun d hd => hd) ?_ (fun c hc' => Or.inl (by rw [hctl] at hc'; exact hc'))
      intro x hx
      rw [hst] at hx
      rcases List.mem_append.1 hx with h1 | h1
      · exact Or.inr ⟨top, ((hdsmem x).1 (List.mem_reverse.1 h1)).1⟩
      · exact Or.inl (by rw [hstk]; exact h1)
    refine ⟨P, hp, ?_, ?_, ?_, ?_⟩
    · intro t ht
      rw [hst]
      by_cases htt : t = top
      · subst htt; simp
      · have := hC.flagStack t (hFl t htt ht)
        rw [hstk] at this
        exact List.mem_append_right _ this
    · intro above x below hs hx d hd hcd
      rw [hst] at hs
      obtain ⟨a', e1, e2⟩ := split_append hs (hnotds x hx)
      have hcd' : s.computed d = false := by
        cases hh : s.computed d
        · rfl
        · rw [hmono d hh] at hcd; cases hcd
      rw [hdepsr] at hd
      by_cases hxt : x = top
      · subst hxt
        right
        rw [e1]
        exact List.mem_append_left _ (List.mem_reverse.2 ((hdsmem d).2 ⟨hd, hcd'⟩))
      · rcases hC.dfs a' x below (by rw [hstk]; exact e2) (hFl x hxt hx) d hd hcd' with h1 | h1
        · exact Or.inl (hset d h1)
        · right; rw [e1]; exact List.mem_append_right _ h1
    · intro above d below hs hn hd y hy hyk
      rw [hst] at hs
      obtain ⟨a', e1, e2⟩ := split_append hs (hnotds d hd)
      rw [hkindr] at hyk
      have hna' : d ∉ a' := fun hm => hn (by rw [e1]; exact List.mem_append_right _ hm)
      rw [e1] at hy
      by_cases hdt : d = top
      · subst hdt
        have ha' : a' = [] := by
          cases a' with
          | nil => rfl
          | cons z a'' => simp at e2; exact absurd (by rw [e2.1]; exact List.mem_cons_self) hna'
        subst ha'
        simp at hy
        exact hC.paths.edge d y ((hdsmem y).1 hy).1 hyk
      · have hds' := hFl d hdt hd
        have hta : top ∈ a' := by
          cases a' with
          | nil => simp at e2; exact absurd e2.1.symm hdt
          | cons z a'' => simp at e2; rw [e2.1]; exact List.mem_cons_self
        have hord := hC.ord a' d below (by rw [hstk]; exact e2) hna' hds'
        rcases List.mem_append.1 hy with h1 | h1
        · have h2 := hC.paths.edge top y ((hdsmem y).1 (List.mem_reverse.1 h1)).1 hyk
          exact h2.trans (hord top hta hk)
        · exact hord y h1 hyk
    · intro root base rest h
      rw [hctl] at h
      rcases hC.root root base rest h with ⟨pre, h1⟩ | h1
      · left
        rw [hstk] at h1
        exact ⟨ds.reverse ++ pre, by rw [hst, h1]; simp⟩
      · exact Or.inr (hset root h1)
  | enterGen hw top st hstk hk hc hnb e hst a hctl =>
    refine ⟨P, invC_same hC e hN hst ?_ ?_⟩
    · intro c hc'
      rw [hctl] at hc'
      rcases List.mem_cons.1 hc' with h1 | h1
      · exact Or.inr (by rw [h1]; rfl)
      · exact Or.inl h1
    · intro root base rest h
      rw [hctl] at h
      rcases h with h | ⟨t, old, h⟩
      · cases h
      · injection h with _ h2
        exact ⟨base, rest, Or.inl h2⟩
  | gen t old rest hctl0 d =>
    have hnf : ¬ IsFlush s := not_flush_of_ctl (fun _ _ _ h => by rw [hctl0] at h; cases h)
    have hset : ∀ f, Settled s f → Settled r f := fun f hf =>
      settled_step hA (.gen t old rest hctl0 d) hN hnf hf
    obtain ⟨hgk, hgo, hgd⟩ := hA.gen t old rest hctl0
    have ht : t < s.futs.length := lt_of_view_task s t hgk
    obtain ⟨r0, b0, hrest⟩ : ∃ r0 b0, rest = [.waitLoop r0 b0] := by
      rcases hA.shape with h0 | ⟨r0, h0⟩ | ⟨r0, b0, h0⟩ | ⟨t0, old0, r0, b0, h0⟩ <;> rw [h0] at hctl0 <;> cases hctl0
      exact ⟨r0, b0, rfl⟩
    -- the control stack is kept or loses the generator frame
    have hrootK : r.ctl = s.ctl ∨ r.ctl = s.ctl.tail → ∀ root base rest',
        (r.ctl = .waitLoop root base :: rest' ∨ ∃ t' old', r.ctl = .gen t' old' :: .waitLoop root base :: rest') →
        ∃ base' rest'', (s.ctl = .waitLoop root base' :: rest'' ∨
          ∃ t' old', s.ctl = .gen t' old' :: .waitLoop root base' :: rest'') := by
      intro hc root base rest' h
      rcases hc with hc | hc
      · rw [hc] at h; exact ⟨base, rest', h⟩
      · rw [hc, hctl0, hrest] at h
        rcases h with h | ⟨t', old', h⟩
        · simp at h
          obtain ⟨⟨rfl, rfl⟩, rfl⟩ := h
          exact ⟨b0, [], Or.inr ⟨t, old, by rw [hctl0, hrest]⟩⟩
        · simp at h
    have hctlK : r.ctl = s.ctl ∨ r.ctl = s.ctl.tail → ∀ c ∈ r.ctl, c ∈ s.ctl := by
      intro hc c hcm
      rcases hc with hc | hc
      · rw [hc] at hcm; exact hcm
      · rw [hc] at hcm; exact List.mem_of_mem_tail hcm
    cases d with
    | loc v' hu hctl hkind hout hflag hown hinh hprev hpend hstart hdeps hok _ =>
      have hdeps' : ∀ d ∈ v'.deps, d ∈ (view s t).deps := by
        intro d hd
        rcases hdeps with h1 | h1
        · rw [h1] at hd; cases hd
        · rw [h1] at hd; exact hd
      have hp : Paths r P := hC.paths.upd1 hu.toS hown hinh hprev hkind hdeps'
        (fun x hx => Or.inl (by rw [hu.stack] at hx; exact hx)) (fun c hc => Or.inl (hctlK (Or.inl hctl) c hc))
      refine ⟨P, hC.transfer hp hu.stack hmono ?_ hset (fun _ _ => rfl) ?_ (hrootK (Or.inl hctl))⟩
      · intro x
        rcases hu.toS.view_cases x with ⟨rfl, e⟩ | ⟨_, e⟩
        · intro hx
          rw [Flagged, e] at hx
          refine ⟨⟨hkind ▸ hx.1, hflag ▸ hx.2.1, hout ▸ hx.2.2⟩, fun d hd _ => ?_⟩
          rw [e] at hd; exact hdeps' d hd
        · exact flKeep_same e
      · intro y _ hky
        rcases hu.toS.view_cases y with ⟨rfl, e⟩ | ⟨_, e⟩
        · rw [e, hkind] at hky; exact hky
        · rw [e] at hky; exact hky
    | spawn child k pass hb hp hu hctl hbat hokc hokk =>
      let P' : Nat → List Nat := fun x => if x = s.futs.length then P t ++ [s.futs.length] else P x
      have hP' : ∀ x, x ≠ s.futs.length → P' x = P x := fun x hx => if_neg hx
      have hPn : P' s.futs.length = P t ++ [s.futs.length] := if_pos rfl
      have hpaths : Paths r P' := by
        refine hC.paths.alloc hu ht hP' (fun _ => hPn) rfl rfl rfl ?_ hu.stack hctl
        intro d hd
        refine ⟨?_, hPn⟩
        have hd' : d ∈ pass.map (s.task t).resolve := hd
        obtain ⟨ref, href, rfl⟩ := List.mem_map.1 hd'
        exact resolve_mem s t ref ((hsc t old rest hctl0 hp).2 child pass k hb ref href)
      refine ⟨P', hC.transfer hpaths hu.stack hmono ?_ hset ?_ ?_ (hrootK (Or.inl hctl))⟩
      · intro x
        rcases hu.view_cases x with ⟨rfl, e⟩ | ⟨rfl, e⟩ | ⟨_, _, e⟩
        · intro hx
          rw [Flagged, e] at hx
          exact ⟨hx, fun d hd _ => by rw [e] at hd; exact hd⟩
        · intro hx
          have := hx.2.1
          rw [e] at this; cases this
        · exact flKeep_same e
      · intro x hx
        exact hP' x (Nat.ne_of_lt (hC.paths.stackLt x hx))
      · intro y hy hky
        have hyl := hC.paths.stackLt y hy
        rcases hu.view_cases y with ⟨rfl, e⟩ | ⟨rfl, _⟩ | ⟨_, _, e⟩
        · rw [e] at hky; exact hky
        · exact absurd hyl (Nat.lt_irrefl _)
        · rw [e] at hky; exact hky
    | item kind payload mode k seq _ hp hu hctl hbat hokk =>
      have hpaths : Paths r P := by
        refine hC.paths.alloc hu ht (fun _ _ => rfl) (fun h => by cases h) rfl rfl rfl ?_ hu.stack hctl
        intro d hd; cases hd
      refine ⟨P, hC.transfer hpaths hu.stack hmono ?_ hset (fun _ _ => rfl) ?_ (hrootK (Or.inl hctl))⟩
      · intro x
        rcases hu.view_cases x with ⟨rfl, e⟩ | ⟨rfl, e⟩ | ⟨_, _, e⟩
        · intro hx
          rw [Flagged, e] at hx
          exact ⟨hx, fun d hd _ => by rw [e] at hd; exact hd⟩
        · intro hx
          have := hx.2.1
          rw [e] at this; cases this
        · exact flKeep_same e
      · intro y hy hky
        have hyl := hC.paths.stackLt y hy
        rcases hu.view_cases y with ⟨rfl, e⟩ | ⟨rfl, _⟩ | ⟨_, _, e⟩
        · rw [e] at hky; exact hky
        · exact absurd hyl (Nat.lt_irrefl _)
        · rw [e] at hky; exact hky
    | other k kd out _ hp hu hctl hbat hokk hkd =>
      have hpaths : Paths r P := by
        refine hC.paths.alloc hu ht (fun _ _ => rfl) ?_ rfl rfl rfl ?_ hu.stack hctl
        · intro h
          have h' : kd = .task := h
          rcases hkd with ⟨h1, _⟩ | ⟨h1, _⟩ | ⟨⟨o, h1⟩, _⟩ <;> rw [h1] at h' <;> cases h'
        · intro d hd; cases hd
      refine ⟨P, hC.transfer hpaths hu.stack hmono ?_ hset (fun _ _ => rfl) ?_ (hrootK (Or.inl hctl))⟩
      · intro x
        rcases hu.view_cases x with ⟨rfl, e⟩ | ⟨rfl, e⟩ | ⟨_, _, e⟩
        · intro hx
          rw [Flagged, e] at hx
          exact ⟨hx, fun d hd _ => by rw [e] at hd; exact hd⟩
        · intro hx
          have := hx.2.1
          rw [e] at this; cases this
        · exact flKeep_same e
      · intro y hy hky
        have hyl := hC.paths.stackLt y hy
        rcases hu.view_cases y with ⟨rfl, e⟩ | ⟨rfl, _⟩ | ⟨_, _, e⟩
        · rw [e] at hky; exact hky
        · exact absurd hyl (Nat.lt_irrefl _)
        · rw [e] at hky; exact hky
    | yield ry npy nd leave hp hsrc hdeps hleave hu hctl =>
      have hctl' : r.ctl = s.ctl ∨ r.ctl = s.ctl.tail := by
        cases leave
        · exact Or.inl (by simpa using hctl)
        · exact Or.inr (by simpa using hctl)
      -- everything the task yields is one of its own or inherited futures
      have hry : ∀ d ∈ extractFutures ry, d ∈ (view s t).own ∨ d ∈ (view s t).inh := by
        intro d hd
        rcases hsrc with ⟨y, k, h, hb, e1, _⟩ | ⟨k, h, hb, e1, _⟩
        · rw [e1] at hd
          obtain ⟨ref, href, rfl⟩ := leaves_mapLeaves _ y d (leaves_of_extract _ d hd)
          exact resolve_mem s t ref ((hsc t old rest hctl0 hp).1 y k h hb ref href)
        · rw [e1] at hd
          exact hC.paths.prev t d hd
      have hnpy : ∀ d ∈ extractFutures npy, d ∈ (view s t).own ∨ d ∈ (view s t).inh := by
        intro d hd
        rcases hsrc with ⟨y, k, h, hb, _, e2⟩ | ⟨k, h, hb, _, e2⟩
        · rw [e2] at hd; exact hry d hd
        · rw [e2] at hd; exact hC.paths.prev t d hd
      have hnd : ∀ d ∈ nd, d ∈ (view s t).deps ∨ d ∈ (view s t).own ∨ d ∈ (view s t).inh := by
        intro d hd
        rw [hdeps] at hd
        rcases List.mem_append.1 hd with h1 | h1
        · left
          cases hkd : s.cfg.keepDeps
          · rw [hkd] at h1; simp at h1
          · rw [hkd] at h1; simpa using h1
        · exact Or.inr (hry d h1)
      have hpaths : Paths r P := hC.paths.yield hu.toS hnd hnpy hu.stack (hctlK hctl')
      refine ⟨P, hC.transfer hpaths hu.stack hmono ?_ hset (fun _ _ => rfl) ?_ (hrootK hctl')⟩
      · intro x
        rcases hu.toS.view_cases x with ⟨rfl, e⟩ | ⟨_, e⟩
        · intro hx
          rw [Flagged, e] at hx
          cases leave
          · have hnd0 : nd = [] := by
              have : nd.isEmpty = true := by simpa using hleave.symm
              simpa using this
            refine ⟨⟨hx.1, by simpa [yieldView] using hx.2.1, hx.2.2⟩, fun d hd _ => ?_⟩
            rw [e] at hd
            have hd' : d ∈ nd := hd
            rw [hnd0] at hd'; cases hd'
          · have := hx.2.1
            simp [yieldView] at this
        · exact flKeep_same e
      · intro y _ hky
        rcases hu.toS.view_cases y with ⟨rfl, e⟩ | ⟨_, e⟩
        · rw [e] at hky; exact hky
        · rw [e] at hky; exact hky
    | finish o hp hu hctl =>
      have hp' : Paths r P := hC.paths.upd1 hu.toS rfl rfl rfl rfl (fun d hd => by cases hd)
        (fun x hx => Or.inl (by rw [hu.stack] at hx; exact hx)) (fun c hc => Or.inl (hctlK (Or.inr hctl) c hc))
      refine ⟨P, hC.transfer hp' hu.stack hmono ?_ hset (fun _ _ => rfl) ?_ (hrootK (Or.inr hctl))⟩
      · intro x
        rcases hu.toS.view_cases x with ⟨rfl, e⟩ | ⟨_, e⟩
        · intro hx
          have := hx.2.2
          rw [e] at this
          simp [finishView] at this
        · exact flKeep_same e
      · intro y _ hky
        rcases hu.toS.view_cases y with ⟨rfl, e⟩ | ⟨_, e⟩
        · rw [e] at hky; exact hky
        · rw [e] at hky; exact hky
  | flush root base rest hctl0 hlen hroot F hctl =>
    have hs0 : s.stack = [] := by
      rw [hbase root base rest hctl0] at hlen
      exact List.eq_nil_of_length_eq_zero (Nat.le_zero.1 hlen)
    have hr0 : r.stack = [] := by rw [F.stack]; exact hs0
    have hrl : root < s.futs.length :=
      hC.paths.ctlLt (.waitLoop root base) (by rw [hctl0]; simp) root rfl
    have hv : ∀ g, (view r g).own = (view s g).own ∧ (view r g).inh = (view s g).inh ∧
        (view r g).prevY = (view s g).prevY ∧ (view r g).kind = (view s g).kind ∧
        ∀ d ∈ (view r g).deps, d ∈ (view s g).deps := by
      intro g
      rcases F.view g with e | ⟨_, o, e⟩
      · rw [e]; exact ⟨rfl, rfl, rfl, rfl, fun _ hd => hd⟩
      · rw [e]; exact ⟨rfl, rfl, rfl, rfl, fun _ hd => by cases hd⟩
    have hp : Paths r P := by
      refine hC.paths.transfer (Nat.le_of_eq F.len.symm) (fun g => (hv g).1) (fun g => (hv g).2.1)
        (fun g => (hv g).2.2.1) (fun g _ => (hv g).2.2.2.1) (fun g => (hv g).2.2.2.2) ?_ ?_
      · intro x hx; rw [hr0] at hx; cases hx
      · intro c hc x hx
        rw [hctl] at hc
        rcases List.mem_cons.1 hc with h1 | h1
        · rw [h1] at hx; simp [ctlRoot] at hx; subst hx; rw [F.len]; exact hrl
        · rw [F.len]
          exact hC.paths.ctlLt c (by rw [hctl0]; exact List.mem_cons_of_mem _ h1) x hx
    refine ⟨P, hp, ?_, ?_, ?_, ?_⟩
    · intro t ht
      exfalso
      have hts : Flagged s t := by
        rcases F.view t with e | ⟨_, o, e⟩
        · rw [Flagged, e] at ht; exact ht
        · have := ht.2.2; rw [e] at this; cases this
      have := hC.flagStack t hts
      rw [hs0] at this; cases this
    · intro above x below hs
      rw [hr0] at hs; cases above <;> cases hs
    · intro above x below hs
      rw [hr0] at hs; cases above <;> cases hs
    · intro root' base' rest' h
      rw [hctl] at h
      rcases h with h | ⟨t, old, h⟩ <;> cases h

end AsynqModel.Core.P27
