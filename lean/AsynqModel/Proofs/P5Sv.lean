import AsynqModel.Proofs.P5Ctx
/-!
  P5 (C07): scoped values under resume / pause of override contexts - pure lemmas about `ctxResumeOne`, `ctxPauseOne`.
-/
namespace AsynqModel.Core.P5
open AsynqModel.Core

theorem lookup_cons' (v a b : Nat) (l : List (Nat × Nat)) :
    List.lookup v ((a, b) :: l) = if v = a then some b else List.lookup v l := by
  rw [List.lookup_cons]
  by_cases h : v = a
  · simp [h]
  · have : (v == a) = false := by simpa using h
    simp [h, this]

theorem lookup_map_ne (l : List (Nat × Nat)) (var val v : Nat) (h : v ≠ var) :
    (l.map fun p => if p.1 == var then (var, val) else p).lookup v = l.lookup v := by
  induction l with
  | nil => rfl
  | cons p l ih =>
    obtain ⟨a, b⟩ := p
    by_cases ha : a = var
    · subst ha; simp only [List.map_cons, beq_self_eq_true, if_true, lookup_cons', h, if_false, ih]
    · have : (a == var) = false := by simpa using ha
      simp only [List.map_cons, this, Bool.false_eq_true, if_false, lookup_cons', ih]

theorem lookup_svSet (l : List (Nat × Nat)) (var val v : Nat) :
    ((if l.any (fun p => p.1 == var) then l.map (fun p => if p.1 == var then (var, val) else p)
      else l ++ [(var, val)]).lookup v).getD 0 = if v = var then val else (l.lookup v).getD 0 := by
  induction l with
  | nil =>
    simp only [List.any_nil, Bool.false_eq_true, if_false, List.nil_append, lookup_cons', List.lookup_nil]
    by_cases h : v = var <;> simp [h]
  | cons p l ih =>
    obtain ⟨a, b⟩ := p
    by_cases ha : a = var
    · subst ha
      simp only [List.any_cons, beq_self_eq_true, Bool.true_or, if_true, List.map_cons, lookup_cons']
      by_cases h : v = a
      · simp [h]
      · simp only [h, if_false]; rw [lookup_map_ne l a val v h]
    · have hab : (a == var) = false := by simpa using ha
      simp only [List.any_cons, hab, Bool.false_or]
      by_cases hany : l.any (fun p => p.1 == var)
      · simp only [hany, if_true] at ih ⊢
        simp only [List.map_cons, hab, Bool.false_eq_true, if_false, lookup_cons']
        by_cases h : v = a
        · subst h; simp [ha]
        · simp only [h, if_false]; exact ih
      · simp only [hany, Bool.false_eq_true, if_false] at ih ⊢
        simp only [List.cons_append, lookup_cons']
        by_cases h : v = a
        · subst h; simp [ha]
        · simp only [h, if_false]; exact ih

theorem svGet_svSet (s : State) (var val v : Nat) :
    (s.svSet var val).svGet v = if v = var then val else s.svGet v := by
  have := lookup_svSet s.sv var val v
  unfold State.svSet State.svGet
  split <;> simp_all

/-- the scoped value `v` after `resume()` of context `c` -/
theorem svGet_resumeOne (s : State) (c v : Nat) :
    (s.ctxResumeOne c).svGet v =
      match s.ctxs[c]? with
      | some x => (match x.kind with
        | .override var val => if v = var then val else s.svGet v
        | _ => s.svGet v)
      | none => s.svGet v := by
  unfold State.ctxResumeOne State.ctxSetResumed
  cases h : s.ctxs[c]? with
  | none => simp only [emit_ctxs, h]; rfl
  | some x =>
    have hc := lt_of_getElem?_some h
    simp only [emit_ctxs, h, List.getElem?_set_self hc]
    cases hk : x.kind with
    | override var val =>
      simp only
      have : ∀ (s1 : State) (cs : List CtxSt), ({ s1 with ctxs := cs } : State).svGet v = s1.svGet v := fun _ _ => rfl
      rw [this, svGet_svSet]
      rfl
    | plain => rfl
    | nonasync => rfl

/-- the entry of an override context after `resume()`: the value it will restore is the one it replaced -/
theorem entry_resumeOne (s : State) (c : Nat) (x : CtxSt) (h : s.ctxs[c]? = some x) :
    (s.ctxResumeOne c).ctxs[c]? = some { x with
      old := (match x.kind with | .override var _ => s.svGet var | _ => x.old), resumed := true } := by
  have hc := lt_of_getElem?_some h
  unfold State.ctxResumeOne State.ctxSetResumed
  simp only [emit_ctxs, h, List.getElem?_set_self hc]
  cases hk : x.kind with
  | override var val =>
    simp only
    rw [List.getElem?_set_self (by simpa using hc)]
    simp
    rfl
  | plain => simp only; rw [List.getElem?_set_self hc]
  | nonasync => simp only; rw [List.getElem?_set_self hc]

/-- the scoped value `v` after `pause()` of context `c` -/
theorem svGet_pauseOne (s : State) (c v : Nat) :
    (s.ctxPauseOne c).svGet v =
      match s.ctxs[c]? with
      | some x => (match x.kind with
        | .override var _ => if v = var then x.old else s.svGet v
        | _ => s.svGet v)
      | none => s.svGet v := by
  unfold State.ctxPauseOne State.ctxSetResumed
  cases h : s.ctxs[c]? with
  | none => simp only [emit_ctxs, h]; rfl
  | some x =>
    have hc := lt_of_getElem?_some h
    simp only [emit_ctxs, h, List.getElem?_set_self hc]
    cases hk : x.kind with
    | override var val =>
      simp only
      rw [svGet_svSet]
      rfl
    | plain => rfl
    | nonasync => rfl

theorem entry_foldResume (l : List Nat) (s : State) (c : Nat) (h : c ∉ l) :
    (l.foldl State.ctxResumeOne s).ctxs[c]? = s.ctxs[c]? := by
  induction l generalizing s with
  | nil => rfl
  | cons a l ih =>
    rw [List.foldl_cons, ih _ (fun hm => h (by simp [hm])), (flagOp_resume s a).ne c (fun hc => h (by simp [hc]))]

theorem entry_foldPause (l : List Nat) (s : State) (c : Nat) (h : c ∉ l) :
    (l.foldl State.ctxPauseOne s).ctxs[c]? = s.ctxs[c]? := by
  induction l generalizing s with
  | nil => rfl
  | cons a l ih =>
    rw [List.foldl_cons, ih _ (fun hm => h (by simp [hm])), (flagOp_pause s a).ne c (fun hc => h (by simp [hc]))]

theorem kind_foldResume (l : List Nat) (s : State) (c : Nat) :
    ((l.foldl State.ctxResumeOne s).ctxs[c]?).map (fun x : CtxSt => x.kind) =
      (s.ctxs[c]?).map (fun x : CtxSt => x.kind) := by
  induction l generalizing s with
  | nil => rfl
  | cons a l ih =>
    rw [List.foldl_cons, ih]
    by_cases hc : c = a
    · subst hc
      cases h : s.ctxs[c]? with
      | none =>
        have : (s.ctxResumeOne c).ctxs.length = s.ctxs.length := (flagOp_resume s c).len
        have h1 : s.ctxs.length ≤ c := by
          rcases Nat.lt_or_ge c s.ctxs.length with h' | h'
          · rw [List.getElem?_eq_getElem h'] at h; cases h
          · exact h'
        rw [List.getElem?_eq_none (by omega)]
      | some x =>
        obtain ⟨x', hx', hk, _⟩ := (flagOp_resume s c).eq x h
        simp [hx', hk]
    · rw [(flagOp_resume s a).ne c hc]

/-- resuming contexts in entry order and pausing them in reverse order restores every scoped value -/
theorem restore (cs : List Nat) : ∀ (s : State), cs.Nodup → ∀ v,
    (cs.reverse.foldl State.ctxPauseOne (cs.foldl State.ctxResumeOne s)).svGet v = s.svGet v := by
  induction cs with
  | nil => intro s _ v; rfl
  | cons c cs ih =>
    intro s hn v
    rw [List.nodup_cons] at hn
    rw [List.reverse_cons, List.foldl_append, List.foldl_cons, List.foldl_cons, List.foldl_nil, svGet_pauseOne]
    have hent : (cs.reverse.foldl State.ctxPauseOne (cs.foldl State.ctxResumeOne (s.ctxResumeOne c))).ctxs[c]? =
        (s.ctxResumeOne c).ctxs[c]? := by
      rw [entry_foldPause _ _ _ (by simpa using hn.1), entry_foldResume _ _ _ hn.1]
    rw [hent, ih (s.ctxResumeOne c) hn.2 v, svGet_resumeOne]
    cases h : s.ctxs[c]? with
    | none =>
      have h1 : s.ctxs.length ≤ c := by
        rcases Nat.lt_or_ge c s.ctxs.length with h' | h'
        · rw [List.getElem?_eq_getElem h'] at h; cases h
        · exact h'
      rw [List.getElem?_eq_none (by rw [(flagOp_resume s c).len]; exact h1)]
    | some x =>
      rw [entry_resumeOne s c x h]
      obtain ⟨kind, owner, old, resumed⟩ := x
      cases kind with
      | override var val =>
        simp only
        by_cases hv : v = var
        · simp [hv]
        · simp [hv]
      | plain => rfl
      | nonasync => rfl

/-- what a variable reads after the contexts `cs` were resumed in this order: the last override on it wins -/
def readAfter (s : State) (cs : List Nat) (v : Nat) : Nat :=
  cs.foldl (fun acc c => match s.ctxs[c]? with
    | some x => (match x.kind with
      | .override var val => if v = var then val else acc
      | _ => acc)
    | none => acc) (s.svGet v)

theorem innermost_wins_aux (cs : List Nat) : ∀ (s s0 : State) (acc : Nat) (v : Nat),
    (∀ c : Nat, (s.ctxs[c]?).map (fun x : CtxSt => x.kind) = (s0.ctxs[c]?).map (fun x : CtxSt => x.kind)) → s.svGet v = acc →
    (cs.foldl State.ctxResumeOne s).svGet v =
      cs.foldl (fun acc c => match s0.ctxs[c]? with
        | some x => (match x.kind with
          | .override var val => if v = var then val else acc
          | _ => acc)
        | none => acc) acc := by
  induction cs with
  | nil => intro s s0 acc v _ h; exact h
  | cons c cs ih =>
    intro s s0 acc v hk h
    rw [List.foldl_cons, List.foldl_cons]
    refine ih _ s0 _ v ?_ ?_
    · intro c'
      rw [← hk c']
      exact kind_foldResume [c] s c'
    · rw [svGet_resumeOne]
      have := hk c
      cases h1 : s.ctxs[c]? with
      | none =>
        cases h2 : s0.ctxs[c]? with
        | none => exact h
        | some y => rw [h1, h2] at this; cases this
      | some x =>
        cases h2 : s0.ctxs[c]? with
        | none => rw [h1, h2] at this; cases this
        | some y =>
          rw [h1, h2] at this
          simp only [Option.map_some, Option.some.injEq] at this
          simp only [this, h]

theorem innermost_wins (cs : List Nat) (s : State) (v : Nat) :
    (cs.foldl State.ctxResumeOne s).svGet v = readAfter s cs v :=
  innermost_wins_aux cs s s (s.svGet v) v (fun _ => rfl) rfl

end AsynqModel.Core.P5
