import AsynqModel.Lib.Generator
import AsynqModel.Proofs.Generator
/-! C17, nested generators: the documented consumer loop, run as the Python generator of an outer
    `_AsyncGenerator` over the model of the inner one, yields exactly the steps `wrap b` -/
namespace AsynqModel.Generator

/-- the `for` header of the outer loop from an inner state whose previous task is computed -/
theorem outerFor_nil (pulled : Nat) (stopped : Bool) (lt : Option LastRef) (futs : List Fut)
    (hb : blockedBy lt futs = false) :
    outerFor ⟨[], pulled, stopped, lt, futs⟩ = ((⟨[], pulled, true, lt, futs⟩, .done), .error .stopIteration) := by
  cases stopped <;> simp [outerFor, send, blocked_eq, hb, getOneValue]

theorem outerFor_value (v : Nat) (r : Body) (pulled : Nat) (lt : Option LastRef) (futs : List Fut)
    (hb : blockedBy lt futs = false) :
    outerFor ⟨.value v :: r, pulled, false, lt, futs⟩ =
      ((⟨r, pulled + 1, false, lt, futs⟩, .gotConst (.val v)), .ok (.await false)) := by
  simp [outerFor, send, blocked_eq, hb, getOneValue]

theorem outerFor_valueEnd (r : Body) (pulled : Nat) (lt : Option LastRef) (futs : List Fut)
    (hb : blockedBy lt futs = false) :
    outerFor ⟨.valueEnd :: r, pulled, false, lt, futs⟩ =
      ((⟨r, pulled + 1, false, lt, futs⟩, .gotConst .endMarker), .ok (.await false)) := by
  simp [outerFor, send, blocked_eq, hb, getOneValue]

theorem outerFor_await (bb : Bool) (r : Body) (pulled : Nat) (lt : Option LastRef) (futs : List Fut)
    (hb : blockedBy lt futs = false) :
    outerFor ⟨.await bb :: r, pulled, false, lt, futs⟩ =
      ((⟨r, pulled + 1, false, some .internal, futs⟩, .gotTask), .ok (.await (bb || leadBlock r))) := by
  have hp := startTask_parks ⟨r, pulled + 1, false, some .internal, futs⟩ bb
  simp only at hp
  simp [outerFor, send, blocked_eq, hb, getOneValue, hp]

theorem wrapAux_true_skip (b : Body) : wrapAux true b = wrapAux true (skipAwaits b) := by
  induction b with
  | nil => rfl
  | cons x r ih => cases x <;> simp [wrapAux, skipAwaits, ih]

theorem skipAwaits_length_le (b : Body) : (skipAwaits b).length ≤ b.length := by
  induction b with
  | nil => simp [skipAwaits]
  | cons x r ih => cases x <;> simp [skipAwaits] <;> omega

theorem outerBody_atFor (n : Nat) (i : St) :
    outerBody (n + 1) i .atFor =
      match outerFor i with
      | ((i1, ph1), .ok st) => st :: outerBody n i1 ph1
      | (_, .error _) => [] := rfl

/-- `if value is END_OF_GENERATOR: continue` goes back to the `for` header -/
theorem outerBody_continue (n : Nat) (i : St) :
    outerBody (n + 1) i (.gotConst .endMarker) = outerBody (n + 1) i .atFor := rfl

theorem outerBody_gotTask_end (n : Nat) (i i1 : St) (h : sendInner i = (i1, .endMarker)) :
    outerBody (n + 1) i .gotTask = outerBody (n + 1) i1 .atFor := by
  simp only [outerBody, outerResume, h]

/-- both suspension points of the outer loop, by induction on the length of what the inner generator has left -/
theorem outerBody_spec (m : Nat) : ∀ (rest : Body), rest.length ≤ m →
    ∀ (pulled : Nat) (stopped : Bool) (futs : List Fut) (n : Nat), (stopped = true → rest = []) →
      2 * rest.length + 1 ≤ n →
    (∀ lt, blockedBy lt futs = false →
      outerBody n ⟨rest, pulled, stopped, lt, futs⟩ .atFor = wrapAux false rest) ∧
    outerBody n ⟨rest, pulled, stopped, some .internal, futs⟩ .gotTask = wrapAux true rest := by
  induction m with
  | zero =>
    intro rest hl pulled stopped futs n hw hn
    have : rest = [] := by cases rest <;> simp_all
    subst this
    cases n with
    | zero => omega
    | succ n' =>
      refine ⟨fun lt hb => ?_, ?_⟩
      · rw [outerBody_atFor, outerFor_nil _ _ _ _ hb]; rfl
      · simp [outerBody, outerResume, sendInner_spec, drainRest, drainItem, drainStop, skipAwaits,
          outerFor_nil _ _ _ _ (blockedBy_internal futs), wrapAux]
  | succ m ih =>
    intro rest hl pulled stopped futs n hw hn
    cases n with
    | zero => omega
    | succ n' =>
      refine ⟨fun lt hb => ?_, ?_⟩
      · -- at the `for` header
        cases rest with
        | nil => rw [outerBody_atFor, outerFor_nil _ _ _ _ hb]; rfl
        | cons x r =>
          have hst : stopped = false := by cases stopped <;> simp_all
          subst hst
          simp only [List.length_cons] at hl hn
          cases x with
          | value v =>
            rw [outerBody_atFor, outerFor_value _ _ _ _ _ hb]
            cases n' with
            | zero => omega
            | succ n'' =>
              have := (ih r (by omega) (pulled + 1) false futs n'' (by simp) (by omega)).1 lt hb
              simp [outerBody, outerResume, wrapAux, this]
          | valueEnd =>
            rw [outerBody_atFor, outerFor_valueEnd _ _ _ _ hb]
            cases n' with
            | zero => omega
            | succ n'' =>
              have := (ih r (by omega) (pulled + 1) false futs (n'' + 1) (by simp) (by omega)).1 lt hb
              simp only [wrapAux, outerBody_continue, this]
          | await bb =>
            rw [outerBody_atFor, outerFor_await _ _ _ _ _ hb]
            have := (ih r (by omega) (pulled + 1) false futs n' (by simp) (by omega)).2
            simp [wrapAux, this]
      · -- suspended at `value = yield task` with an inner task
        have hsl := skipAwaits_length_le rest
        have hdl := drainRest_length_le rest
        rw [wrapAux_true_skip]
        rcases skipAwaits_cases rest with h0 | ⟨v, r, h1⟩ | ⟨r, h1⟩
        · simp [outerBody, outerResume, sendInner_spec, drainRest, drainItem, drainStop, h0,
            outerFor_nil _ _ _ _ (blockedBy_internal futs), wrapAux]
        · have hr : r.length < rest.length := by rw [h1] at hsl; simp only [List.length_cons] at hsl; omega
          have hwf : stopped = true → r = [] := by
            intro h; have := hw h; subst this; simp [skipAwaits] at h1
          have := (ih r (by omega) (pulled + (rest.length - r.length)) stopped futs n' hwf (by omega)).1
            (some .internal) (blockedBy_internal futs)
          simp [outerBody, outerResume, sendInner_spec, drainRest, drainItem, drainStop, h1, wrapAux, this]
        · have hr : r.length < rest.length := by rw [h1] at hsl; simp only [List.length_cons] at hsl; omega
          have hwf : stopped = true → r = [] := by
            intro h; have := hw h; subst this; simp [skipAwaits] at h1
          have := (ih r (by omega) (pulled + (rest.length - r.length)) stopped futs (n' + 1) hwf (by omega)).1
            (some .internal) (blockedBy_internal futs)
          rw [outerBody_gotTask_end n' _ ⟨r, pulled + (rest.length - r.length), stopped, some .internal, futs⟩
            (by simp [sendInner_spec, drainRest, drainItem, drainStop, h1])]
          simp only [h1, wrapAux, this]

end AsynqModel.Generator
