import AsynqModel.Lib.Dedup
import AsynqModel.Proofs.Dedup
import AsynqModel.Proofs.DedupSim
import AsynqModel.Proofs.DedupInv
/-! C12: the `.asynq()` call is accepted by the observer and keeps the simulation relation -/
namespace AsynqModel.Dedup
set_option linter.unusedSimpArgs false
set_option linter.unusedVariables false

theorem pt_append (fns : List FnDecl) (s : St) (w : Watch) (h : Rel fns s w) (task' : Task) (x' : WTask)
    (hr : TRel fns task' x') :
    (w.info ++ [x']).length = (s.tasks ++ [task']).length ∧
    ∀ (i : Nat) (a : Task) (y : WTask), (s.tasks ++ [task'])[i]? = some a → (w.info ++ [x'])[i]? = some y → TRel fns a y := by
  refine ⟨by simp [h.len], ?_⟩
  intro i a y ha hy
  simp only [List.getElem?_append, h.len] at ha hy
  split at ha
  · rename_i hlt
    simp only [hlt, ↓reduceIte] at hy
    exact h.pt i a y ha hy
  · rename_i hge
    simp only [hge, ↓reduceIte] at hy
    have : i - s.tasks.length = 0 := by
      cases hi : i - s.tasks.length with
      | zero => rfl
      | succ n => simp [hi] at ha
    simp only [this, List.getElem?_cons_zero] at ha hy
    injection ha with ha; injection hy with hy
    subst ha; subst hy; exact hr

theorem wf_append (fns : List FnDecl) (s : St) (w : Watch) (h : Rel fns s w) (task' : Task) (k : Key) (t : Nat)
    (hm : mget s.table k = some t) :
    ∃ task, (s.tasks ++ [task'])[t]? = some task ∧ task.key = k ∧ task.reg = true ∧ task.out = none := by
  obtain ⟨a, ha, hka, hra, hoa⟩ := h.wf k t hm
  have hlt : t < s.tasks.length := (List.getElem?_eq_some_iff.mp ha).1
  exact ⟨a, by rw [List.getElem?_append_left hlt]; exact ha, hka, hra, hoa⟩

theorem contains_of_mem (P : List (Option Nat)) (o : Option Nat) (h : o ∈ P) : P.contains o = true := by
  simpa using h

theorem sim_call (fns : List FnDecl) (s : St) (w : Watch) (c : Spell) (hop : opOk fns (.call c) = true)
    (h : Rel fns s w) :
    ∃ w', watchStep fns w (observe fns s (.call c)).2 = .ok w' ∧ Rel fns (observe fns s (.call c)).1 w' := by
  simp only [watchStep, observe_op, observe_res, observe_fst]
  cases hd : fns[c.fn]? with
  | none =>
    simp only [step, hd]
    exact ⟨w, rfl, h⟩
  | some d =>
    simp only [step, hd]
    simp only [opOk, hd] at hop
    cases hb : d.sig.bind (effArgs d c) c.kw with
    | error e =>
      -- not a well-formed call: the model creates nothing
      cases hk : d.sig.key (effArgs d c) c.kw with
      | error n => exact ⟨w, rfl, h⟩
      | ok tup =>
        simp only []
        cases hm : mget s.table { tup := tup, th := c.th, fn := c.fn } with
        | none =>
          simp only [create, hb]
          exact ⟨w, rfl, h⟩
        | some t0 =>
          obtain ⟨task0, ht0, hk0, _, ho0⟩ := h.wf _ t0 hm
          simp only [ht0]
          cases hrun : task0.running with
          | true =>
            simp only [↓reduceIte, create, hb]
            exact ⟨w, rfl, h⟩
          | false =>
            -- the task stored under the key computed from the ill-formed arguments: a live task of this function on
            -- this thread, and the in-flight task of its own call
            obtain ⟨x0, hx0, hr0⟩ := rel_info fns s w h t0 task0 ht0
            have hfn : x0.rk.fn = c.fn := by rw [← hr0.key.1, hk0]
            have hth : x0.rk.th = c.th := by rw [← hr0.key.2.1, hk0]
            have hdn : x0.done = false := by rw [hr0.done, ho0]; rfl
            have hag0 := h.agree _ _ hr0.key
            rw [hk0, hm] at hag0
            have hcn := contains_of_mem _ _ hag0
            simp only [Bool.false_eq_true, ↓reduceIte, hx0, hfn, hth, hdn, hcn, beq_self_eq_true, Bool.not_false,
              Bool.and_self]
            exact ⟨w, rfl, h⟩
    | ok b =>
      obtain ⟨tup, hk⟩ := key_ok_of_bind d.sig _ _ b hb
      have hkr : KeyRel fns { tup := tup, th := c.th, fn := c.fn } { fn := c.fn, th := c.th, b := b } :=
        ⟨rfl, rfl, d, _, _, hd, hop, hb, hk⟩
      have hag := h.agree _ _ hkr
      simp only [hk]
      cases hm : mget s.table { tup := tup, th := c.th, fn := c.fn } with
      | none =>
        rw [hm] at hag
        have hcn := contains_of_mem _ _ hag
        simp only [create, hb, ↓reduceIte, h.len, bne_self_eq_false, Bool.false_eq_true, hcn,
          List.cons_append, List.nil_append, List.isEmpty_cons]
        refine ⟨_, rfl, ?_⟩
        have hrel' : TRel fns { key := { tup := tup, th := c.th, fn := c.fn }, b := b, reg := true, started := false, running := false, out := none }
            { rk := { fn := c.fn, th := c.th, b := b }, started := false, running := false, done := false } :=
          ⟨fun z => by simp at z, rfl, rfl, rfl, hkr, rfl⟩
        obtain ⟨hlen, hpt⟩ := pt_append fns s w h _ _ hrel'
        constructor
        · exact hlen
        · exact hpt
        · intro k rk hr
          simp only [mget_mset, pget_pset]
          have := keyrel_inj fns _ _ _ _ hr hkr
          by_cases e : k = { tup := tup, th := c.th, fn := c.fn }
          · simp [e, this.mp e]
          · have e' : ¬ rk = { fn := c.fn, th := c.th, b := b } := fun z => e (this.mpr z)
            simp only [e, e', ↓reduceIte]
            exact h.agree k rk hr
        · intro k t hm0
          simp only [mget_mset] at hm0
          split at hm0
          · rename_i e
            injection hm0 with hm0
            subst hm0
            exact ⟨_, List.getElem?_concat_length, e.symm, rfl, rfl⟩
          · exact wf_append fns s w h _ k t hm0
      | some t0 =>
        rw [hm] at hag
        obtain ⟨task0, ht0, _, _, _⟩ := h.wf _ t0 hm
        obtain ⟨x0, hx0, hr0⟩ := rel_info fns s w h t0 task0 ht0
        simp only [ht0]
        cases hrun : task0.running with
        | true =>
          -- issued while the body of the in-flight task is executing: a private task, the entry stays
          have hmr : w.mayRun t0 = true := by simp [Watch.mayRun, hx0, hr0.running hrun]
          have hin : some t0 ∈ (if (pget w.poss { fn := c.fn, th := c.th, b := b }).contains none = true
                then [some s.tasks.length] else []) ++
              (pget w.poss { fn := c.fn, th := c.th, b := b }).filter w.runningCand := by
            apply List.mem_append_right
            exact List.mem_filter.mpr ⟨hag, by simp [Watch.runningCand, hmr]⟩
          have hne : ((if (pget w.poss { fn := c.fn, th := c.th, b := b }).contains none = true
                then [some s.tasks.length] else []) ++
              (pget w.poss { fn := c.fn, th := c.th, b := b }).filter w.runningCand).isEmpty = false := by
            cases hl : ((if (pget w.poss { fn := c.fn, th := c.th, b := b }).contains none = true
                then [some s.tasks.length] else []) ++
              (pget w.poss { fn := c.fn, th := c.th, b := b }).filter w.runningCand) with
            | nil => rw [hl] at hin; contradiction
            | cons _ _ => rfl
          simp only [↓reduceIte, create, hb, h.len, bne_self_eq_false, Bool.false_eq_true, hne]
          refine ⟨_, rfl, ?_⟩
          have hrel' : TRel fns { key := { tup := tup, th := c.th, fn := c.fn }, b := b, reg := false, started := false, running := false, out := none }
              { rk := { fn := c.fn, th := c.th, b := b }, started := false, running := false, done := false } :=
            ⟨fun z => by simp at z, rfl, rfl, rfl, hkr, rfl⟩
          obtain ⟨hlen, hpt⟩ := pt_append fns s w h _ _ hrel'
          constructor
          · exact hlen
          · exact hpt
          · intro k rk hr
            simp only [pget_pset]
            have := keyrel_inj fns _ _ _ _ hr hkr
            by_cases e : k = { tup := tup, th := c.th, fn := c.fn }
            · simp only [this.mp e, ↓reduceIte, e, hm]
              exact hin
            · have e' : ¬ rk = { fn := c.fn, th := c.th, b := b } := fun z => e (this.mpr z)
              simp only [e', ↓reduceIte]
              exact h.agree k rk hr
          · intro k t hm0
            exact wf_append fns s w h _ k t hm0
        | false =>
          -- that very task
          have hc := contains_of_mem _ _ hag
          simp only [Bool.false_eq_true, ↓reduceIte, hc]
          refine ⟨_, rfl, ?_⟩
          constructor
          · exact h.len
          · exact h.pt
          · intro k rk hr
            simp only [pget_pset]
            have := keyrel_inj fns _ _ _ _ hr hkr
            by_cases e : k = { tup := tup, th := c.th, fn := c.fn }
            · simp [this.mp e, e, hm]
            · have e' : ¬ rk = { fn := c.fn, th := c.th, b := b } := fun z => e (this.mpr z)
              simp only [e', ↓reduceIte]
              exact h.agree k rk hr
          · exact h.wf

theorem run_cons (fns : List FnDecl) (s : St) (op : Op) (ops : List Op) :
    run fns s (op :: ops) = (observe fns s op).2 :: run fns (observe fns s op).1 ops := rfl

theorem sim_step (fns : List FnDecl) (s : St) (w : Watch) (op : Op) (hop : opOk fns op = true)
    (h : Rel fns s w) :
    ∃ w', watchStep fns w (observe fns s op).2 = .ok w' ∧ Rel fns (observe fns s op).1 w' := by
  cases op with
  | call c => exact sim_call fns s w c hop h
  | dirty c => exact sim_dirty fns s w c hop h
  | start t => exact sim_start fns s w t h
  | resume t b => exact sim_resume fns s w t b h
  | suspend t => exact sim_suspend fns s w t h
  | complete t o => exact sim_complete fns s w t o h
  | threadEnd th => exact ⟨w, by simp [watchStep, observe, step], by simpa [observe, step] using h⟩
  | outside n => exact ⟨w, by simp [watchStep, observe, step], by simpa [observe, step] using h⟩
  | await t => exact sim_await fns s w t h
  | aioCall c => exact ⟨w, by simp [watchStep, observe, step], by simpa [observe, step] using h⟩

/-- where the observer knows the state of the entry, the model's table grows / stays exactly as `sizeExact` says -/
theorem step_sizeExact (fns : List FnDecl) (s : St) (w : Watch) (op : Op) (hop : opOk fns op = true) (h : Rel fns s w)
    (hn : TableNodup s) :
    sizeExact fns w s.table.length (observe fns s op).2 = true := by
  cases op with
  | call c =>
    cases hd : fns[c.fn]? with
    | none => simp [sizeExact, observe, step, hd]
    | some d =>
      simp only [opOk, hd] at hop
      cases hb : d.sig.bind (effArgs d c) c.kw with
      | error e =>
        have hek : entryKnown fns w c = none := by simp [entryKnown, hd, hb]
        simp only [sizeExact, observe_op, observe_res, hek]
        split <;> rfl
      | ok b =>
        obtain ⟨tup, hk⟩ := key_ok_of_bind d.sig _ _ b hb
        have hkr : KeyRel fns { tup := tup, th := c.th, fn := c.fn } { fn := c.fn, th := c.th, b := b } :=
          ⟨rfl, rfl, d, _, _, hd, hop, hb, hk⟩
        have hag := h.agree _ _ hkr
        have hek : entryKnown fns w c =
            if (pget w.poss { fn := c.fn, th := c.th, b := b }).all (· == none) then some true
            else if !(pget w.poss { fn := c.fn, th := c.th, b := b }).contains none then some false else none := by
          simp [entryKnown, hd, hb]
        cases hm : mget s.table { tup := tup, th := c.th, fn := c.fn } with
        | none =>
          rw [hm] at hag
          have hcn := contains_of_mem _ _ hag
          have hres : (observe fns s (.call c)).2.res = .ret s.tasks.length true ∧
              (observe fns s (.call c)).2.size = s.table.length + 1 := by
            simp [observe, step, hd, hk, hm, create, hb, mset, merase_absent _ _ hm]
          simp only [sizeExact, observe_op, hres.1, hres.2, hek]
          by_cases hall : (pget w.poss { fn := c.fn, th := c.th, b := b }).all (· == none) = true
          · simp only [hall, ↓reduceIte, beq_self_eq_true]
          · have hall' : (pget w.poss { fn := c.fn, th := c.th, b := b }).all (· == none) = false := by simpa using hall
            simp only [hall', hcn, Bool.false_eq_true, Bool.not_true, ↓reduceIte]
        | some t0 =>
          rw [hm] at hag
          obtain ⟨task0, ht0, _, _, _⟩ := h.wf _ t0 hm
          have hnall : (pget w.poss { fn := c.fn, th := c.th, b := b }).all (· == none) = false := by
            apply Bool.eq_false_iff.mpr
            intro hall
            have := List.all_eq_true.mp hall _ hag
            simp at this
          cases hrun : task0.running with
          | true =>
            have hres : (observe fns s (.call c)).2.res = .ret s.tasks.length true ∧
                (observe fns s (.call c)).2.size = s.table.length := by
              simp [observe, step, hd, hk, hm, ht0, hrun, create, hb]
            simp only [sizeExact, observe_op, hres.1, hres.2, hek]
            by_cases hc : (pget w.poss { fn := c.fn, th := c.th, b := b }).contains none = true
            · simp only [hnall, hc, Bool.false_eq_true, Bool.not_true, ↓reduceIte]
            · have hc' : (pget w.poss { fn := c.fn, th := c.th, b := b }).contains none = false := by simpa using hc
              simp only [hnall, hc', Bool.false_eq_true, Bool.not_false, ↓reduceIte, beq_self_eq_true]
          | false =>
            have hres : (observe fns s (.call c)).2.res = .ret t0 false := by
              simp [observe, step, hd, hk, hm, ht0, hrun]
            simp only [sizeExact, observe_op, hres]
  | dirty c =>
    cases hd : fns[c.fn]? with
    | none => simp [sizeExact, observe, step, hd]
    | some d =>
      simp only [opOk, hd] at hop
      cases hb : d.sig.bind (effArgs d c) c.kw with
      | error e =>
        have hek : entryKnown fns w c = none := by simp [entryKnown, hd, hb]
        simp only [sizeExact, observe_op, observe_res, hek]
        split <;> rfl
      | ok b =>
        obtain ⟨tup, hk⟩ := key_ok_of_bind d.sig _ _ b hb
        have hkr : KeyRel fns { tup := tup, th := c.th, fn := c.fn } { fn := c.fn, th := c.th, b := b } :=
          ⟨rfl, rfl, d, _, _, hd, hop, hb, hk⟩
        have hag := h.agree _ _ hkr
        have hek : entryKnown fns w c =
            if (pget w.poss { fn := c.fn, th := c.th, b := b }).all (· == none) then some true
            else if !(pget w.poss { fn := c.fn, th := c.th, b := b }).contains none then some false else none := by
          simp [entryKnown, hd, hb]
        have hres : (observe fns s (.dirty c)).2.res = .unit := by simp [observe, step, hd, hk]
        by_cases hall : (pget w.poss { fn := c.fn, th := c.th, b := b }).all (· == none) = true
        · have := List.all_eq_true.mp hall _ hag
          have hm : mget s.table { tup := tup, th := c.th, fn := c.fn } = none := by simpa using this
          have hsz : (observe fns s (.dirty c)).2.size = s.table.length := by
            simp [observe, step, hd, hk, merase_absent _ _ hm]
          simp only [sizeExact, observe_op, hres, hsz, hek, hall, ↓reduceIte, beq_self_eq_true]
        · have hall' : (pget w.poss { fn := c.fn, th := c.th, b := b }).all (· == none) = false := by simpa using hall
          by_cases hc : (pget w.poss { fn := c.fn, th := c.th, b := b }).contains none = true
          · simp only [sizeExact, observe_op, hres, hek, hall', hc, Bool.false_eq_true, Bool.not_true, ↓reduceIte]
          · have hc' : (pget w.poss { fn := c.fn, th := c.th, b := b }).contains none = false := by simpa using hc
            have hm : ∃ t0, mget s.table { tup := tup, th := c.th, fn := c.fn } = some t0 := by
              cases hmm : mget s.table { tup := tup, th := c.th, fn := c.fn } with
              | none =>
                rw [hmm] at hag
                have := contains_of_mem _ _ hag
                rw [hc'] at this; contradiction
              | some t0 => exact ⟨t0, rfl⟩
            obtain ⟨t0, hm⟩ := hm
            have hsz : (observe fns s (.dirty c)).2.size + 1 = s.table.length := by
              simp only [observe, step, hd, hk]
              exact merase_length_present _ _ t0 hn hm
            simp only [sizeExact, observe_op, hres, hek, hall', hc', Bool.false_eq_true, Bool.not_false, ↓reduceIte, hsz,
              beq_self_eq_true]
  | start t => simp only [sizeExact, observe_op]
  | resume t b => simp only [sizeExact, observe_op]
  | suspend t => simp only [sizeExact, observe_op]
  | complete t o =>
    simp only [sizeExact, observe_op]
    cases ht : s.tasks[t]? with
    | none =>
      have hres : (observe fns s (.complete t o)).2.res = .bad := by simp [observe, step, ht]
      simp only [hres]
    | some task =>
      obtain ⟨x, hx, hr⟩ := rel_info fns s w h t task ht
      by_cases hd : task.out.isSome = true
      · have hres : (observe fns s (.complete t o)).2.res = .bad := by simp [observe, step, ht, hd]
        simp only [hres]
      · have hd' : task.out.isSome = false := by simpa using hd
        have hres : (observe fns s (.complete t o)).2.res = .unit := by simp [observe, step, ht, hd']
        have hag := h.agree _ _ hr.key
        simp only [hres, hx]
        by_cases hall : (pget w.poss x.rk).all (· == some t) = true
        · have := List.all_eq_true.mp hall _ hag
          have hm : mget s.table task.key = some t := by simpa using this
          obtain ⟨a, ha, _, hra, _⟩ := h.wf _ _ hm
          rw [ht] at ha; injection ha with ha; subst ha
          have hsz : (observe fns s (.complete t o)).2.size + 1 = s.table.length := by
            simp only [observe, step, ht, hd', Bool.false_eq_true, ↓reduceIte, setTask, hra, hm, beq_self_eq_true,
              Bool.and_self]
            exact merase_length_present _ _ t hn hm
          simp only [hall, ↓reduceIte, hsz, beq_self_eq_true]
        · have hall' : (pget w.poss x.rk).all (· == some t) = false := by simpa using hall
          by_cases hc : (pget w.poss x.rk).contains (some t) = true
          · simp only [hall', hc, Bool.false_eq_true, Bool.not_true, ↓reduceIte]
          · have hc' : (pget w.poss x.rk).contains (some t) = false := by simpa using hc
            have hm : ¬ mget s.table task.key = some t := by
              intro hm
              rw [hm] at hag
              have := contains_of_mem _ _ hag
              rw [hc'] at this; contradiction
            have hm' : (mget s.table task.key == some t) = false := by simpa using hm
            have hsz : (observe fns s (.complete t o)).2.size = s.table.length := by
              simp [observe, step, ht, hd', setTask, hm']
            simp only [hall', hc', Bool.false_eq_true, Bool.not_false, ↓reduceIte, hsz, beq_self_eq_true]
  | threadEnd th => simp only [sizeExact, observe_op]
  | outside n => simp only [sizeExact, observe_op]
  | await t => simp only [sizeExact, observe_op]
  | aioCall c => simp only [sizeExact, observe_op]

theorem watchRun_ok (fns : List FnDecl) (ops : List Op) (hs : histOk fns ops = true) (s : St) (w : Watch)
    (h : Rel fns s w) (hn : TableNodup s) :
    ∃ w', watchRun fns w s.table.length (run fns s ops) = .ok w' := by
  induction ops generalizing s w with
  | nil => exact ⟨w, rfl⟩
  | cons op ops ih =>
    rw [run_cons]
    simp only [histOk, List.all_cons, Bool.and_eq_true] at hs
    obtain ⟨w', h1, h2⟩ := sim_step fns s w op hs.1 h
    simp only [watchRun, h1, sizeOk, step_size fns s op hn, step_sizeExact fns s w op hs.1 h hn, Bool.and_self, ↓reduceIte]
    exact ih (by simpa [histOk] using hs.2) _ w' h2 (nodup_step fns s op hn)

theorem histOk_of_sigsOk (fns : List FnDecl) (hs : sigsOk fns = true) (ops : List Op) : histOk fns ops = true := by
  simp only [histOk, List.all_eq_true]
  intro op _
  have hd : ∀ (c : Spell), (match fns[c.fn]? with
      | none => true
      | some d => callOk d.sig (effArgs d c) c.kw) = true := by
    intro c
    cases hf : fns[c.fn]? with
    | none => rfl
    | some d =>
      simp only [sigsOk, List.all_eq_true] at hs
      exact callOk_of_ok _ _ _ (hs d (List.mem_of_getElem? hf))
  cases op <;> simp only [opOk] <;> first | exact hd _ | rfl

end AsynqModel.Dedup
