import AsynqModel.Lib.Dedup
import AsynqModel.Proofs.Dedup
import AsynqModel.Proofs.DedupSim
/-! C12: the `.asynq()` call is accepted by the observer and keeps the simulation relation -/
namespace AsynqModel.Dedup
set_option linter.unusedSimpArgs false

theorem pt_append (fns : List FnDecl) (s : St) (w : Watch) (h : Rel fns s w) (task' : Task) (x' : WTask)
    (hr : TRel fns task' x') :
    (w.info ++ [x']).length = (s.tasks ++ [task']).length ∧
    ∀ (i : Nat) (a : Task) (y : WTask), (s.tasks ++ [task'])[i]? = some a → (w.info ++ [x'])[i]? = some y → TRel fns a y := by
  refine ⟨by simp [h.len], ?_⟩
  intro i a y ha hy
  simp only [List.getElem?_append, h.len] at ha hy
  split at ha
  · rename_i hlt
    simp only [hlt, ↓reduceIte] at hy
    exact h.pt i a y ha hy
  · rename_i hge
    simp only [hge, ↓reduceIte] at hy
    have : i - s.tasks.length = 0 := by
      cases hi : i - s.tasks.length with
      | zero => rfl
      | succ n => simp [hi] at ha
    simp only [this, List.getElem?_cons_zero] at ha hy
    injection ha with ha; injection hy with hy
    subst ha; subst hy; exact hr

theorem wf_append (fns : List FnDecl) (s : St) (w : Watch) (h : Rel fns s w) (task' : Task) (k : Key) (t : Nat)
    (hm : mget s.table k = some t) :
    ∃ task, (s.tasks ++ [task'])[t]? = some task ∧ task.key = k ∧ task.reg = true ∧ task.out = none := by
  obtain ⟨a, ha, hka, hra, hoa⟩ := h.wf k t hm
  have hlt : t < s.tasks.length := (List.getElem?_eq_some_iff.mp ha).1
  exact ⟨a, by rw [List.getElem?_append_left hlt]; exact ha, hka, hra, hoa⟩

theorem sim_call (fns : List FnDecl) (hs : sigsOk fns = true) (s : St) (w : Watch) (c : Spell) (h : Rel fns s w) :
    ∃ w', watchStep fns w (observe fns s (.call c)).2 = .ok w' ∧ Rel fns (observe fns s (.call c)).1 w' := by
  simp only [watchStep, h.live, Bool.false_eq_true, ↓reduceIte, observe_op, observe_res, observe_fst]
  cases hd : fns[c.fn]? with
  | none =>
    simp only [step, hd]
    exact ⟨w, rfl, h⟩
  | some d =>
    simp only [step, hd]
    cases hb : d.sig.bind (effArgs d c) c.kw with
    | error e =>
      -- not a well-formed call: the model creates nothing
      cases hk : d.sig.key (effArgs d c) c.kw with
      | error n => exact ⟨w, rfl, h⟩
      | ok tup =>
        simp only []
        cases hm : mget s.table { tup := tup, th := c.th, fn := c.fn } with
        | none =>
          simp only [create, hb]
          exact ⟨w, rfl, h⟩
        | some t0 =>
          obtain ⟨task0, ht0, _, _, _⟩ := h.wf _ t0 hm
          simp only [ht0]
          cases hrun : task0.running with
          | true =>
            simp only [↓reduceIte, create, hb]
            exact ⟨w, rfl, h⟩
          | false =>
            have hlt : t0 < w.info.length := by rw [h.len]; exact (List.getElem?_eq_some_iff.mp ht0).1
            simp only [Bool.false_eq_true, ↓reduceIte, hlt]
            exact ⟨w, rfl, h⟩
    | ok b =>
      obtain ⟨tup, hk⟩ := key_ok_of_bind d.sig _ _ b hb
      have hkr : KeyRel fns { tup := tup, th := c.th, fn := c.fn } { fn := c.fn, th := c.th, b := b } :=
        ⟨rfl, rfl, d, _, _, hd, hb, hk⟩
      have hag := h.agree _ _ hkr
      simp only [hk]
      cases hm : mget s.table { tup := tup, th := c.th, fn := c.fn } with
      | none =>
        rw [hm] at hag
        simp only [← hag, create, hb, ↓reduceIte, h.len]
        refine ⟨_, rfl, ?_⟩
        have hrel' : TRel fns { key := { tup := tup, th := c.th, fn := c.fn }, b := b, reg := true, running := false, out := none }
            { rk := { fn := c.fn, th := c.th, b := b }, reg := true, running := false, done := false } :=
          ⟨fun z => by simp at z, rfl, rfl, rfl, hkr⟩
        obtain ⟨hlen, hpt⟩ := pt_append fns s w h _ _ hrel'
        constructor
        · exact hlen
        · exact hpt
        · intro k rk hr
          simp only [mget_mset]
          have := keyrel_inj fns hs _ _ _ _ hr hkr
          by_cases e : k = { tup := tup, th := c.th, fn := c.fn }
          · simp [e, this.mp e, h.len]
          · have e' : ¬ rk = { fn := c.fn, th := c.th, b := b } := fun z => e (this.mpr z)
            simp only [e, e', ↓reduceIte]
            exact h.agree k rk hr
        · intro k t hm0
          simp only [mget_mset] at hm0
          split at hm0
          · rename_i e
            injection hm0 with hm0
            subst hm0
            exact ⟨_, List.getElem?_concat_length, e.symm, rfl, rfl⟩
          · exact wf_append fns s w h _ k t hm0
        · rfl
      | some t0 =>
        rw [hm] at hag
        obtain ⟨task0, ht0, _, _, _⟩ := h.wf _ t0 hm
        obtain ⟨x0, hx0, hr0⟩ := rel_info fns s w h t0 task0 ht0
        have hlt0 : t0 < w.info.length := by rw [h.len]; exact (List.getElem?_eq_some_iff.mp ht0).1
        simp only [← hag, ht0, hx0, Option.map_some, Option.getD_some]
        cases hrun : task0.running with
        | true =>
          simp only [hr0.running hrun, ↓reduceIte, create, hb, h.len, Bool.false_eq_true]
          refine ⟨_, rfl, ?_⟩
          have hrel' : TRel fns { key := { tup := tup, th := c.th, fn := c.fn }, b := b, reg := false, running := false, out := none }
              { rk := { fn := c.fn, th := c.th, b := b }, reg := false, running := false, done := false } :=
            ⟨fun z => by simp at z, rfl, rfl, rfl, hkr⟩
          obtain ⟨hlen, hpt⟩ := pt_append fns s w h _ _ hrel'
          constructor
          · exact hlen
          · exact hpt
          · exact h.agree
          · intro k t hm0
            exact wf_append fns s w h _ k t hm0
          · rfl
        | false =>
          -- the body may still be executing after a `throw` resumption: then the observer does not constrain the call
          by_cases hxr : x0.running = true
          · simp only [hxr, Bool.false_eq_true, ↓reduceIte, hlt0]
            exact ⟨w, rfl, h⟩
          · simp only [hxr, Bool.false_eq_true, ↓reduceIte]
            exact ⟨w, rfl, h⟩

theorem run_cons (fns : List FnDecl) (s : St) (op : Op) (ops : List Op) :
    run fns s (op :: ops) = (observe fns s op).2 :: run fns (observe fns s op).1 ops := rfl

theorem sim_step (fns : List FnDecl) (hs : sigsOk fns = true) (s : St) (w : Watch) (op : Op)
    (h : Rel fns s w) :
    ∃ w', watchStep fns w (observe fns s op).2 = .ok w' ∧ (w'.gaveUp = true ∨ Rel fns (observe fns s op).1 w') := by
  cases op with
  | call c => obtain ⟨w', h1, h2⟩ := sim_call fns hs s w c h; exact ⟨w', h1, Or.inr h2⟩
  | dirty c => exact sim_dirty fns hs s w c h
  | start t => obtain ⟨w', h1, h2⟩ := sim_start fns s w t h; exact ⟨w', h1, Or.inr h2⟩
  | resume t b => obtain ⟨w', h1, h2⟩ := sim_resume fns s w t b h; exact ⟨w', h1, Or.inr h2⟩
  | suspend t => obtain ⟨w', h1, h2⟩ := sim_suspend fns s w t h; exact ⟨w', h1, Or.inr h2⟩
  | complete t o => obtain ⟨w', h1, h2⟩ := sim_complete fns hs s w t o h; exact ⟨w', h1, Or.inr h2⟩
  | threadEnd th => exact ⟨w, by simp [watchStep, h.live, observe, step], Or.inr (by simpa [observe, step] using h)⟩

theorem watchRun_ok (fns : List FnDecl) (hs : sigsOk fns = true) (ops : List Op) (s : St) (w : Watch)
    (h : w.gaveUp = true ∨ Rel fns s w) :
    ∃ w', watchRun fns w (run fns s ops) = .ok w' := by
  induction ops generalizing s w with
  | nil => exact ⟨w, rfl⟩
  | cons op ops ih =>
    rw [run_cons]
    cases h with
    | inl hg =>
      simp only [watchRun, watch_gaveUp fns w _ hg]
      exact ih _ w (Or.inl hg)
    | inr hr =>
      obtain ⟨w', h1, h2⟩ := sim_step fns hs s w op hr
      simp only [watchRun, h1]
      exact ih _ w' h2

end AsynqModel.Dedup
