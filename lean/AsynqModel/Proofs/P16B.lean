import AsynqModel.Proofs.P16Exit
import AsynqModel.Proofs.P12Gen
import AsynqModel.Proofs.P7K
import AsynqModel.Proofs.P5NonAsync
/-!
  P16, part 6: three machine invariants about registrations, valid while the MAX_TASK_STACK_SIZE guard has not
  fired - also in the presence of NonAsyncContexts (`P7.KH` has them only without):

  * `k1w` : a context registered with task `t` belongs to an open with-block of `t`;
  * `ck`  : a task with an open with-block is an uncomputed task;
  * `cown`: the context of an open with-block of `t` is owned by `t`.
  Consequence (`B.live`): a task with a registered context is an uncomputed task.
-/
namespace AsynqModel.Core.P16
open AsynqModel.Core AsynqModel.Core.P5

structure B (s : State) : Prop where
  k1w : ∀ t c, c ∈ (s.task t).ctxs → c ∈ (s.task t).conts.map (·.1)
  ck : ∀ t, (s.task t).conts ≠ [] → (s.fut t).kind = .task ∧ s.computed t = false
  cown : ∀ t c, c ∈ (s.task t).conts.map (·.1) → ∃ x, s.ctxs[c]? = some x ∧ x.owner = some t

theorem B.live {s : State} (b : B s) {t : Nat} (h : (s.task t).ctxs ≠ []) : (s.fut t).kind = .task ∧ s.computed t = false := by
  apply b.ck t
  intro h0
  cases hc : (s.task t).ctxs with
  | nil => exact h hc
  | cons c l =>
    have := b.k1w t c (by rw [hc]; simp)
    rw [h0] at this; cases this

theorem B_init (cfg : Cfg) (tops : List (Conv × Body)) (choices : List (Nat × Nat)) : B (initState cfg tops choices) := by
  have ht : ∀ t, (initState cfg tops choices).task t = {} := fun t => by simp [State.task, State.fut, initState]
  refine ⟨fun t c h => ?_, fun t h => ?_, fun t c h => ?_⟩
  · rw [ht] at h; cases h
  · rw [ht] at h; exact absurd rfl h
  · rw [ht] at h; cases h

theorem owner_of_ko {s r : State} (hko : ∀ c : Nat, (r.ctxs[c]?).map ko = (s.ctxs[c]?).map ko) {c t : Nat}
    (h : ∃ x, s.ctxs[c]? = some x ∧ x.owner = some t) : ∃ x, r.ctxs[c]? = some x ∧ x.owner = some t := by
  obtain ⟨x, hx, ho⟩ := h
  have := hko c
  rw [hx] at this
  cases hy : r.ctxs[c]? with
  | none => rw [hy] at this; cases this
  | some y =>
    rw [hy] at this
    simp only [Option.map_some, Option.some.injEq, ko, Prod.mk.injEq] at this
    exact ⟨y, rfl, by rw [this.2]; exact ho⟩

/-- a change that keeps the with-blocks, the registrations, tasks and the owners of the contexts -/
theorem B.frame {s r : State} (b : B s) (hc : ∀ u, (r.task u).conts = (s.task u).conts)
    (ht : ∀ u, (r.task u).ctxs = (s.task u).ctxs) (hk : ∀ f, (s.fut f).kind = .task → (r.fut f).kind = .task)
    (hcomp : ∀ f, (s.fut f).kind = .task → r.computed f = s.computed f)
    (hko : ∀ c : Nat, (r.ctxs[c]?).map ko = (s.ctxs[c]?).map ko) : B r := by
  refine ⟨fun t c h => ?_, fun t h => ?_, fun t c h => ?_⟩
  · rw [hc]; rw [ht] at h; exact b.k1w t c h
  · rw [hc] at h
    obtain ⟨h1, h2⟩ := b.ck t h
    exact ⟨hk t h1, by rw [hcomp t h1]; exact h2⟩
  · rw [hc] at h
    exact owner_of_ko hko (b.cown t c h)

theorem B.ofQ {P : Event → Bool} {s r : State} (b : B s) (q : P7.Q P s r) : B r :=
  b.frame q.tconts q.tctxs (fun f hf => q.kind_task f hf) q.tcomp (fun c => by rw [q.ctxs])

theorem B.of_eq {s r : State} (b : B s) (hf : r.futs = s.futs) (hc : r.ctxs = s.ctxs) : B r := by
  have e1 : ∀ u, r.task u = s.task u := fun u => by simp [State.task, State.fut, hf]
  have e2 : ∀ u, r.fut u = s.fut u := fun u => by simp [State.fut, hf]
  exact b.frame (fun u => by rw [e1]) (fun u => by rw [e1]) (fun f h => by rw [e2]; exact h)
    (fun f _ => by simp [State.computed, State.out, e2]) (fun c => by rw [hc])

theorem B.updTask {s : State} (b : B s) (t : Nat) (g : TaskSt → TaskSt) (h1 : ∀ x, (g x).ctxs = x.ctxs)
    (h3 : ∀ x, (g x).conts = x.conts) : B (s.updTask t g) :=
  b.frame (fun u => task_updTask_field s t u g (·.conts) h3) (fun u => task_updTask_field s t u g (·.ctxs) h1)
    (fun f h => by rw [kind_updTask]; exact h) (fun f _ => computed_updTask s t f g) (fun _ => rfl)

/-! ### `_resume_contexts` / `_pause_contexts` without failure -/

theorem ko_flipOne (b : Bool) (s : State) (c c' : Nat) : ((flipOne b s c).ctxs[c']?).map ko = (s.ctxs[c']?).map ko := by
  unfold flipOne
  split
  · rfl
  · split
    · exact ko_flag (flagOp_resume s c) c'
    · exact ko_flag (flagOp_pause s c) c'

theorem ko_foldFlip (b : Bool) (l : List Nat) : ∀ (s : State) (c' : Nat),
    ((l.foldl (flipOne b) s).ctxs[c']?).map ko = (s.ctxs[c']?).map ko := by
  induction l with
  | nil => intro s c'; rfl
  | cons c l ih => intro s c'; rw [List.foldl_cons, ih, ko_flipOne]

theorem B.flips {s : State} (b : B s) (v : Bool) (t : Nat) (l : List Nat) :
    B (l.foldl (flipOne v) (s.updTask t fun ts => { ts with ctxActive := v })) := by
  have b1 : B (s.updTask t fun ts => { ts with ctxActive := v }) := b.updTask t _ (fun _ => rfl) (fun _ => rfl)
  have hf := futs_foldFlip v l (s.updTask t fun ts => { ts with ctxActive := v })
  have e1 : ∀ u, (l.foldl (flipOne v) (s.updTask t fun ts => { ts with ctxActive := v })).task u =
      (s.updTask t fun ts => { ts with ctxActive := v }).task u := fun u => task_foldFlip v l _ u
  have e2 : ∀ u, (l.foldl (flipOne v) (s.updTask t fun ts => { ts with ctxActive := v })).fut u =
      (s.updTask t fun ts => { ts with ctxActive := v }).fut u := fun u => by simp [State.fut, hf]
  exact b1.frame (fun u => by rw [e1]) (fun u => by rw [e1]) (fun f h => by rw [e2]; exact h)
    (fun f _ => by simp [State.computed, State.out, e2]) (fun c => ko_foldFlip v l _ c)

/-! ### the task fails or finishes: all its with-blocks are left, then it is completed -/

theorem B.exitComplete {x : State} (b : B x) (t : Nat) (ht : t < x.futs.length) (hn : (x.task t).ctxs.Nodup)
    (o : Outcome) : B (((x.exitAll t).updTask t fun ts => { ts with pending := false }).complete t o) := by
  have hp : P12.Hp (P12.O t) x (((x.exitAll t).updTask t fun ts => { ts with pending := false }).complete t o) :=
    (((P12.Hp.start t x ht).exitAll t).updT _).completeT o
  -- registrations and with-blocks of the result
  have hconts : ∀ u, ((((x.exitAll t).updTask t fun ts => { ts with pending := false }).complete t o).task u).conts =
      if u = t then [] else (x.task u).conts := by
    intro u
    rw [(ext_complete _ t o).tconts, task_updTask_field _ t u (fun ts => { ts with pending := false }) (·.conts) (fun _ => rfl), conts_exitAll]
    by_cases hu : u = t
    · simp [hu, ht]
    · simp [hu]
  have hctxs : ∀ u, ((((x.exitAll t).updTask t fun ts => { ts with pending := false }).complete t o).task u).ctxs =
      (((x.task t).conts.foldl (fun s p => s.ctxExit p.1) x).task u).ctxs := by
    intro u
    rw [(ext_complete _ t o).tctxs, task_updTask_field _ t u (fun ts => { ts with pending := false }) (·.ctxs) (fun _ => rfl), task_exitAll]
  have hsub : ∀ u c, c ∈ ((((x.exitAll t).updTask t fun ts => { ts with pending := false }).complete t o).task u).ctxs →
      c ∈ (x.task u).ctxs := fun u c h => by rw [hctxs] at h; exact ctxs_foldExit_sub _ x u c h
  have hko : ∀ c : Nat, ((((x.exitAll t).updTask t fun ts => { ts with pending := false }).complete t o).ctxs[c]?).map ko =
      (x.ctxs[c]?).map ko := by
    intro c
    show ((x.exitAll t).ctxs[c]?).map ko = _
    unfold State.exitAll
    exact ko_foldExit _ x c
  refine ⟨fun u c h => ?_, fun u h => ?_, fun u c h => ?_⟩
  · by_cases hu : u = t
    · subst hu
      exfalso
      have h0 := hsub u c h
      have hm := b.k1w u c h0
      obtain ⟨p, hp', rfl⟩ := List.mem_map.1 hm
      rw [hctxs] at h
      exact ctxs_foldExit_gone u (x.task u).conts x (fun q hq => b.cown u q.1 (List.mem_map_of_mem hq)) hn p hp' h
    · rw [hconts, if_neg hu]; exact b.k1w u c (hsub u c h)
  · rw [hconts] at h
    by_cases hu : u = t
    · rw [if_pos hu] at h; exact absurd rfl h
    · rw [if_neg hu] at h
      obtain ⟨h1, h2⟩ := b.ck u h
      obtain ⟨_, hc⟩ := hp.task u hu h1
      exact ⟨by rw [hp.kind u (lt_of_kind_task x u h1)]; exact h1, by rw [hc]; exact h2⟩
  · rw [hconts] at h
    by_cases hu : u = t
    · rw [if_pos hu] at h; cases h
    · rw [if_neg hu] at h
      exact owner_of_ko hko (b.cown u c h)

theorem B.failSuspended {x : State} (b : B x) (t : Nat) (ht : t < x.futs.length) (hn : (x.task t).ctxs.Nodup) (e : Err) :
    B (x.failSuspended t e) := by
  unfold State.failSuspended
  split
  · exact b
  · exact b.exitComplete t ht hn _

theorem B.resumeContexts {s : State} (b : B s) (t : Nat) (ht : t < s.futs.length) (hn : (s.task t).ctxs.Nodup) :
    B (s.resumeContexts t) := by
  rw [resumeContexts_eq]
  split
  · exact b
  · simp only
    have b1 := b.flips true t (s.task t).ctxs
    have hlen : ((s.task t).ctxs.foldl (flipOne true) (s.updTask t fun ts => { ts with ctxActive := true })).futs.length =
        s.futs.length := by rw [futs_foldFlip]; simp
    have hn1 : (((s.task t).ctxs.foldl (flipOne true) (s.updTask t fun ts => { ts with ctxActive := true })).task t).ctxs.Nodup := by
      rw [task_foldFlip, task_updTask_field s t t (fun ts => { ts with ctxActive := true }) (·.ctxs) (fun _ => rfl)]; exact hn
    split
    · exact b1.failSuspended t (by rw [hlen]; exact ht) hn1 _
    · exact b1

theorem B.pauseContexts {s : State} (b : B s) (t : Nat) (ht : t < s.futs.length) (hn : (s.task t).ctxs.Nodup) :
    B (s.pauseContexts t) := by
  rw [pauseContexts_eq]
  split
  · exact b
  · simp only
    have b1 := b.flips false t (s.task t).ctxs.reverse
    have hlen : ((s.task t).ctxs.reverse.foldl (flipOne false) (s.updTask t fun ts => { ts with ctxActive := false })).futs.length =
        s.futs.length := by rw [futs_foldFlip]; simp
    have hn1 : (((s.task t).ctxs.reverse.foldl (flipOne false) (s.updTask t fun ts => { ts with ctxActive := false })).task t).ctxs.Nodup := by
      rw [task_foldFlip, task_updTask_field s t t (fun ts => { ts with ctxActive := false }) (·.ctxs) (fun _ => rfl)]; exact hn
    split
    · exact b1.failSuspended t (by rw [hlen]; exact ht) hn1 _
    · exact b1

end AsynqModel.Core.P16
