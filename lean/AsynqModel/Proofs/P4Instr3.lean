import AsynqModel.Proofs.P4Instr2
/-! P4: starting and resuming a task, `yld`, `reyld` -/
namespace AsynqModel.Core.P4
open AsynqModel.Core

theorem good_emit {s : State} (G : Good s) (e : Event) : Good (s.emit e) :=
  ⟨⟨G.fi.agree, G.fi.taskOK, G.fi.ownLt, G.fi.inhLt, G.fi.syncLt, G.fi.wsc, G.fi.prevScoped, G.fi.prevEq, G.fi.lastEq,
    G.fi.yldEq, G.fi.depsOK, G.fi.itemDen, G.fi.lazyDen, G.fi.batchItems⟩,
   ⟨G.ci.distinct, G.ci.bnp, G.ci.ready, G.ci.genTask, G.ci.genOut, G.ci.raising⟩, G.tops⟩

/-- the first `_continue` of a task -/
theorem good_start {s : State} (G : Good s) {t : Nat} {old : Option Nat} {rest : List Ctl}
    (hctl : s.ctl = .gen t old :: rest) (e : Event) :
    Good ((s.updTask t fun ts => { ts with pending := false, started := true, lastY := .none, deps := [] }).emit e) := by
  apply good_emit
  apply good_selfUpd G hctl
  · exact ⟨rfl, rfl, rfl, rfl, rfl⟩
  · intro _ f k b hb
    exact G.fi.syncLt t f k b (G.top hctl).2.1 hb
  · intro hw; exact hw
  · intro _; rfl

/-- when a suspended task is resumed, what it receives is what sequential evaluation computes for the yielded
    structure as written in the program -/
theorem resume_unwrap {s : State} (G : Good s) {t : Nat} {old : Option Nat} {rest : List Ctl}
    (hctl : s.ctl = .gen t old :: rest) (hp : (s.fut t).ts.pending = true) (hs : (s.fut t).ts.started = true) :
    unwrap s.out (s.fut t).ts.lastY =
      unwrap (resolveO (Inv.dens s (s.fut t).ts.own) (Inv.dens s (s.fut t).ts.inh)) (s.fut t).ts.prevYRef := by
  obtain ⟨_, ho, _⟩ := G.top hctl
  have hl := G.fi.lastEq t ho hp hs
  rw [hl, G.fi.prevEq t, unwrap_mapLeaves]
  apply unwrap_congr
  intro r hr
  have hsc := G.fi.prevScoped t r hr
  rw [resolveO_dens s _ r hsc]
  have hmem : (s.fut t).ts.resolve r ∈ (s.fut t).ts.lastY.leaves := by
    rw [hl, G.fi.prevEq t, leaves_mapLeaves]; exact List.mem_map_of_mem hr
  have hd := G.fi.depsOK t hp hs _ hmem
  have hc := G.ci.ready t old rest hctl hp hs _ hd
  cases hout : (s.fut ((s.fut t).ts.resolve r)).out with
  | none => exact absurd hout hc
  | some o => simp only [State.out, hout]; rw [G.fi.agree _ o hout]

/-- resuming a task suspended at `yld` / `reyld` with the unwrapped value (or exception) -/
theorem good_resume {s : State} (G : Good s) {t : Nat} {old : Option Nat} {rest : List Ctl}
    (hctl : s.ctl = .gen t old :: rest) (hp : (s.fut t).ts.pending = true) (hs : (s.fut t).ts.started = true)
    (k h : Body) (hb : (∃ y, (s.fut t).ts.body = .yld y k h) ∨ (s.fut t).ts.body = .reyld k h)
    (i : Nat) (e : Event) (d : TaskSt → List Nat) :
    Good (match unwrap s.out (s.fut t).ts.lastY with
      | .ok v => (s.updTask t fun ts =>
          ({ ts with pending := false, lastY := .none, deps := d ts, resumes := i,
                     env := ts.env ++ [v], body := k } : TaskSt)).emit e
      | .error x => (s.updTask t fun ts =>
          ({ ts with pending := false, lastY := .none, deps := d ts, resumes := i,
                     caught := some x, body := h } : TaskSt)).emit e) := by
  obtain ⟨_, ho, _⟩ := G.top hctl
  have hu := resume_unwrap G hctl hp hs
  have hns : ∀ g k' b', (s.fut t).ts.body ≠ .syncret g k' b' := by
    rcases hb with ⟨y, hb⟩ | hb <;> rw [hb] <;> intro _ _ _ <;> nofun
  have hw : wsTask (s.fut t).ts = true →
      ws k (s.fut t).ts.own.length (s.fut t).ts.inh.length (contsK (s.fut t).ts.inh.length (s.fut t).ts.conts) = true ∧
      ws h (s.fut t).ts.own.length (s.fut t).ts.inh.length (contsK (s.fut t).ts.inh.length (s.fut t).ts.conts) = true := by
    intro hw; rw [wsTask_plain _ hns] at hw
    rcases hb with ⟨y, hb⟩ | hb <;> rw [hb] at hw <;> simp only [ws, Bool.and_eq_true] at hw
    · exact ⟨hw.1.2, hw.2⟩
    · exact hw
  -- the sequential reading of the suspended body
  have hev : evalBody s.cfg (s.fut t).ts.body (s.fut t).ts.env (Inv.dens s (s.fut t).ts.own)
        (Inv.dens s (s.fut t).ts.inh) (s.fut t).ts.caught (s.fut t).ts.prevYRef =
      match unwrap s.out (s.fut t).ts.lastY with
      | .ok v => evalBody s.cfg k ((s.fut t).ts.env ++ [v]) (Inv.dens s (s.fut t).ts.own)
          (Inv.dens s (s.fut t).ts.inh) (s.fut t).ts.caught (s.fut t).ts.prevYRef
      | .error x => evalBody s.cfg h (s.fut t).ts.env (Inv.dens s (s.fut t).ts.own)
          (Inv.dens s (s.fut t).ts.inh) (some x) (s.fut t).ts.prevYRef := by
    rw [hu]
    rcases hb with ⟨y, hb⟩ | hb
    · have hy := G.fi.yldEq t y k h ho hp hs hb
      rw [hb, hy]; simp only [evalBody]
      generalize unwrap _ y = u; cases u <;> rfl
    · rw [hb]; simp only [evalBody]
      generalize unwrap _ (s.fut t).ts.prevYRef = u; cases u <;> rfl
  cases hr : unwrap s.out (s.fut t).ts.lastY with
  | ok v =>
    rw [hr] at hev
    apply good_emit
    apply good_selfUpd G hctl
    · exact ⟨rfl, rfl, rfl, rfl, rfl⟩
    · intro hw' g k' b' hb'; exact absurd hb' (ws_not_syncret (hw hw').1 g k' b')
    · intro hw'; rw [wsTask_plain _ (ws_not_syncret (hw hw').1)]; exact (hw hw').1
    · intro hw'
      rw [tden_plain _ _ _ _ _ (ws_not_syncret (hw hw').1), tden_plain _ _ _ _ _ hns, hev]
  | error x =>
    rw [hr] at hev
    apply good_emit
    apply good_selfUpd G hctl
    · exact ⟨rfl, rfl, rfl, rfl, rfl⟩
    · intro hw' g k' b' hb'; exact absurd hb' (ws_not_syncret (hw hw').2 g k' b')
    · intro hw'; rw [wsTask_plain _ (ws_not_syncret (hw hw').2)]; exact (hw hw').2
    · intro hw'
      rw [tden_plain _ _ _ _ _ (ws_not_syncret (hw hw').2), tden_plain _ _ _ _ _ hns, hev]

theorem FI.setCtl {s : State} (h : FI s) (c : List Ctl) (a : Option Nat) : FI { s with ctl := c, active := a } :=
  ⟨h.agree, h.taskOK, h.ownLt, h.inhLt, h.syncLt, h.wsc, h.prevScoped, h.prevEq, h.lastEq, h.yldEq, h.depsOK,
   h.itemDen, h.lazyDen, h.batchItems⟩

theorem FI.leaveGen {s : State} (h : FI s) (t : Nat) (old : Option Nat) : FI (s.leaveGen t old) := by
  unfold State.leaveGen
  exact (h.comp (still_updTask s t _ (fun ts => coreA_depsSched ts _)).1.comp).setCtl _ _

theorem fut_leaveGen (s : State) (t : Nat) (old : Option Nat) (f : Nat) :
    (s.leaveGen t old).fut f = (s.updTask t fun ts => { ts with depsSched := false }).fut f := rfl

@[simp] theorem futs_len_leaveGen (s : State) (t : Nat) (old : Option Nat) :
    (s.leaveGen t old).futs.length = s.futs.length := by
  unfold State.leaveGen
  simp
@[simp] theorem ctl_leaveGen (s : State) (t : Nat) (old : Option Nat) : (s.leaveGen t old).ctl = s.ctl.tail := rfl
@[simp] theorem raising_leaveGen (s : State) (t : Nat) (old : Option Nat) : (s.leaveGen t old).raising = s.raising := rfl
@[simp] theorem tops_leaveGen (s : State) (t : Nat) (old : Option Nat) : (s.leaveGen t old).tops = s.tops := rfl
@[simp] theorem cfg_leaveGen (s : State) (t : Nat) (old : Option Nat) : (s.leaveGen t old).cfg = s.cfg := rfl
@[simp] theorem batches_leaveGen (s : State) (t : Nat) (old : Option Nat) : (s.leaveGen t old).batches = s.batches := rfl
@[simp] theorem stuck_leaveGen (s : State) (t : Nat) (old : Option Nat) : (s.leaveGen t old).stuck = s.stuck := rfl
@[simp] theorem trace_leaveGen (s : State) (t : Nat) (old : Option Nat) : (s.leaveGen t old).trace = s.trace := rfl
@[simp] theorem topIdx_leaveGen (s : State) (t : Nat) (old : Option Nat) : (s.leaveGen t old).topIdx = s.topIdx := rfl
@[simp] theorem curTop_leaveGen (s : State) (t : Nat) (old : Option Nat) : (s.leaveGen t old).curTop = s.curTop := rfl

theorem fut_leaveGen_ne (s : State) (t : Nat) (old : Option Nat) (f : Nat) (h : f ≠ t) :
    (s.leaveGen t old).fut f = s.fut f := by rw [fut_leaveGen, fut_updTask_ne _ _ _ _ h]

theorem core_leaveGen (s : State) (t : Nat) (old : Option Nat) (f : Nat) :
    ((s.leaveGen t old).fut f).kind = (s.fut f).kind ∧ ((s.leaveGen t old).fut f).out = (s.fut f).out ∧
    coreA ((s.leaveGen t old).fut f).ts = coreA (s.fut f).ts := by
  have q := still_updTask s t _ (fun ts => coreA_depsSched ts false)
  rw [fut_leaveGen]
  exact ⟨(q.1.comp.fut f).kind, q.2 f, q.core f⟩

/-- the running task changes only itself (possibly suspending) and either stays in its frame or leaves it -/
theorem CI.selfSuspend {s s' : State} (h : CI s) {t : Nat} {old : Option Nat} {rest : List Ctl}
    (hctl : s.ctl = .gen t old :: rest) (hfut : ∀ f, f ≠ t → s'.fut f = s.fut f)
    (hk : (s'.fut t).kind = .task) (ho : (s'.fut t).out = none) (hr : s'.raising = none)
    (hc : (s'.ctl = s.ctl ∧ ((s'.fut t).ts.pending = true → (s'.fut t).ts.started = true →
            ∀ d ∈ (s'.fut t).ts.deps, (s'.fut d).out ≠ none)) ∨ s'.ctl = rest) : CI s' := by
  have hd := h.distinct
  rw [hctl] at hd
  simp only [Inv.gensOf, List.filterMap_cons, List.map_cons, List.nodup_cons] at hd
  have hne : ∀ p ∈ Inv.gensOf rest, p.1 ≠ t := by
    intro p hp heq
    apply hd.1
    rw [← heq]
    exact List.mem_map_of_mem (f := (·.1)) hp
  rcases hc with ⟨hc, hrd⟩ | hc
  · constructor
    · rw [hc]; exact h.distinct
    · intro c rest' hcr p hp
      rw [hc, hctl] at hcr; cases hcr
      rw [hfut _ (hne p hp)]; exact h.bnp _ _ hctl p hp
    · intro t' old' rest' hcr
      rw [hc, hctl] at hcr; cases hcr
      exact hrd
    · intro p hp
      rw [hc, hctl] at hp
      simp only [Inv.gensOf, List.filterMap_cons, List.mem_cons] at hp
      rcases hp with rfl | hp
      · exact hk
      · rw [hfut _ (hne p hp)]; exact h.genTask p (by rw [hctl]; exact gensOf_tail_sub _ _ p hp)
    · intro p hp
      rw [hc, hctl] at hp
      simp only [Inv.gensOf, List.filterMap_cons, List.mem_cons] at hp
      rcases hp with rfl | hp
      · exact ho
      · rw [hfut _ (hne p hp)]; exact h.genOut p (by rw [hctl]; exact gensOf_tail_sub _ _ p hp)
    · exact hr
  · apply h.pop (by rw [hc, hctl]; rfl) hr
    intro c rest' hcr p hp
    rw [hctl] at hcr; cases hcr
    have hm : p ∈ Inv.gensOf s.ctl := by rw [hctl]; exact gensOf_tail_sub _ _ p hp
    rw [hfut _ (hne p hp)]
    exact ⟨h.genTask p hm, h.genOut p hm, h.bnp _ _ hctl p hp⟩

/-- a task yields (`yld`: a new structure; `reyld`: the previous one again) -/
theorem good_yield {s : State} (G : Good s) {t : Nat} {old : Option Nat} {rest : List Ctl}
    (hctl : s.ctl = .gen t old :: rest) (e : Event)
    (g : TaskSt → TaskSt) (deps : List Nat)
    (hcore : (g (s.fut t).ts).body = (s.fut t).ts.body ∧ (g (s.fut t).ts).conts = (s.fut t).ts.conts ∧
      (g (s.fut t).ts).env = (s.fut t).ts.env ∧ (g (s.fut t).ts).own = (s.fut t).ts.own ∧
      (g (s.fut t).ts).inh = (s.fut t).ts.inh ∧ (g (s.fut t).ts).caught = (s.fut t).ts.caught ∧
      (g (s.fut t).ts).deps = deps)
    (hbody : ∃ y k h, ((s.fut t).ts.body = .yld y k h ∧ (g (s.fut t).ts).prevYRef = y ∧
        (g (s.fut t).ts).prevY = y.mapLeaves (s.fut t).ts.resolve ∧ (g (s.fut t).ts).lastY = (g (s.fut t).ts).prevY) ∨
      ((s.fut t).ts.body = .reyld k h ∧ (g (s.fut t).ts).prevYRef = (s.fut t).ts.prevYRef ∧
        (g (s.fut t).ts).prevY = (s.fut t).ts.prevY ∧ (g (s.fut t).ts).lastY = (s.fut t).ts.prevY))
    (hdeps : ∀ d ∈ extractFutures (g (s.fut t).ts).lastY, d ∈ deps) :
    Good (if deps.isEmpty then (s.emit e).updTask t g else ((s.emit e).updTask t g).leaveGen t old) := by
  obtain ⟨hk, ho, hlt⟩ := G.top hctl
  obtain ⟨c1, c2, c3, c4, c5, c6, c7⟩ := hcore
  have hns : ∀ g' k' b', (s.fut t).ts.body ≠ .syncret g' k' b' := by
    obtain ⟨y, k, h, hb | hb⟩ := hbody <;> rw [hb.1] <;> intro _ _ _ <;> nofun
  have G0 := good_emit G e
  have hw := G.fi.wsc t ho
  rw [wsTask_plain _ hns] at hw
  have F1 : FI ((s.emit e).updTask t g) := by
    apply G0.fi.updSelf t g hlt
    · show ∀ i ∈ (g (s.fut t).ts).own, _; rw [c4]; exact G.fi.ownLt t
    · show ∀ i ∈ (g (s.fut t).ts).inh, _; rw [c5]; exact G.fi.inhLt t
    · intro f k b _ hb
      have : (g (s.fut t).ts).body = .syncret f k b := hb
      rw [c1] at this; exact absurd this (hns f k b)
    · intro _
      show wsTask (g (s.fut t).ts) = true
      rw [wsTask_plain _ (by rw [c1]; exact hns), c1, c2, c4, c5]; exact hw
    · intro _ _
      show tden s.cfg (g (s.fut t).ts) (Inv.dens s (g (s.fut t).ts).own) (Inv.dens s (g (s.fut t).ts).inh)
        (fun f => (s.fut f).den) = (s.fut t).den
      rw [← G.fi.taskOK t hk ho, taskDen_eq, tden_plain _ _ _ _ _ (by rw [c1]; exact hns), tden_plain _ _ _ _ _ hns,
        c1, c2, c3, c4, c5, c6]
      obtain ⟨y, k, h, hb | hb⟩ := hbody
      · rw [hb.1]; simp only [evalBody]
      · rw [hb.1, hb.2.1]
    · show ∀ r ∈ (g (s.fut t).ts).prevYRef.leaves, refOK (g (s.fut t).ts).own.length (g (s.fut t).ts).inh.length r = true
      rw [c4, c5]
      obtain ⟨y, k, h, hb | hb⟩ := hbody
      · rw [hb.2.1]
        rw [hb.1] at hw
        simp only [ws, Bool.and_eq_true] at hw
        exact fun r hr => List.all_eq_true.1 hw.1.1 r hr
      · rw [hb.2.1]; exact G.fi.prevScoped t
    · show (g (s.fut t).ts).prevY = (g (s.fut t).ts).prevYRef.mapLeaves (g (s.fut t).ts).resolve
      rw [TaskSt.resolve_congr c4 c5]
      obtain ⟨y, k, h, hb | hb⟩ := hbody
      · rw [hb.2.2.1, hb.2.1]
      · rw [hb.2.2.1, hb.2.1]; exact G.fi.prevEq t
    · intro _ _ _
      show (g (s.fut t).ts).lastY = (g (s.fut t).ts).prevY
      obtain ⟨y, k, h, hb | hb⟩ := hbody
      · exact hb.2.2.2
      · rw [hb.2.2.2, hb.2.2.1]
    · intro y' k' b' _ _ _ hb'
      have hb'' : (g (s.fut t).ts).body = .yld y' k' b' := hb'
      show (g (s.fut t).ts).prevYRef = y'
      rw [c1] at hb''
      obtain ⟨y, k, h, hb | hb⟩ := hbody
      · rw [hb.1] at hb''; cases hb''; exact hb.2.1
      · rw [hb.1] at hb''; cases hb''
    · intro _ _ d hd
      show d ∈ (g (s.fut t).ts).deps
      rw [c7]
      exact hdeps d ((mem_extractFutures _ d).2 hd)
  have hself : ((s.emit e).updTask t g).fut t = { s.fut t with ts := g (s.fut t).ts } := fut_updTask_self _ _ _ hlt
  split
  · rename_i hemp
    refine ⟨F1, ?_, G.tops⟩
    apply G0.ci.selfSuspend (s' := (s.emit e).updTask t g) (show (s.emit e).ctl = _ from hctl)
      (fun f hf => fut_updTask_ne _ _ _ _ hf) (by rw [hself]; exact hk)
      (by rw [hself]; exact ho) G.ci.raising
    refine .inl ⟨rfl, ?_⟩
    intro _ _ d hd
    rw [hself] at hd
    have : d ∈ deps := c7 ▸ hd
    rw [List.isEmpty_iff] at hemp
    rw [hemp] at this; cases this
  · refine ⟨F1.leaveGen t old, ?_, G.tops⟩
    obtain ⟨l1, l2, l3⟩ := core_leaveGen ((s.emit e).updTask t g) t old t
    apply G0.ci.selfSuspend (s' := ((s.emit e).updTask t g).leaveGen t old) (show (s.emit e).ctl = _ from hctl)
      (fun f hf => (fut_leaveGen_ne _ _ _ _ hf).trans (fut_updTask_ne _ _ _ _ hf))
      (by rw [l1, hself]; exact hk) (by rw [l2, hself]; exact ho) G.ci.raising
    exact .inr (by show ((s.emit e).updTask t g).ctl.tail = rest; rw [ctl_updTask, ctl_emit, hctl]; rfl)

end AsynqModel.Core.P4
