import AsynqModel.Proofs.P19Main
/-
  P19, part 9: the prediction invariant `E` is preserved by the steps that run no task and flush nothing, and
  established by the start of a top-level computation.
-/
namespace AsynqModel.Core.P19
open AsynqModel.Core AsynqModel.Core.P6

theorem MildAt.body {s r : State} {f : Nat} (h : MildAt s r f) : (view r f).body = (view s f).body := by
  rcases h with e | ⟨b, e⟩ | ⟨_, o, e⟩ <;> rw [e] <;> rfl

theorem MildAt.flag_or_done {s r : State} {f : Nat} (h : MildAt s r f) :
    (∃ b, view r f = flagView b (view s f)) ∨ ((view s f).out = none ∧ (view r f).out ≠ none) := by
  rcases h with e | ⟨b, e⟩ | ⟨hn, o, e⟩
  · exact Or.inl ⟨(view s f).flag, e⟩
  · exact Or.inl ⟨b, e⟩
  · exact Or.inr ⟨hn, by rw [e]; simp [doneView]⟩

theorem E_mild {s r : State} {root R : Nat} (hE : E s root R) (hV : VInv s)
    (hlen : r.futs.length = s.futs.length) (hm : ∀ f, MildAt s r f)
    (hdone : ∀ f, (view s f).out = none → (view r f).out ≠ none → ∃ lo, (view s f).kind = .lazy lo)
    (hx : XF s r)
    (hstk : ∀ d, d ∈ r.stack → d ∉ s.stack → (∀ t, d ∉ (view s t).own) ∨
      ∃ top, (view s top).pending = true ∧ d ∈ (view s top).deps)
    (hroot : (view s root).kind = .task) : E r root R := by
  have hfc : fcount r.trace = fcount s.trace := hx.fcount
  rcases hE with ⟨hc, hn⟩ | ⟨hc, fin, hfr, hloc⟩
  · exact Or.inl ⟨(hm root).computed hc, hfc.trans hn⟩
  · have hc' : r.computed root = false := by
      cases hh : r.computed root with
      | false => rfl
      | true =>
        have h1 : (view s root).out = none := out_none_of_uncomputed hc
        have h2 : (view r root).out ≠ none := by
          intro h3
          have := uncomputed_of_out_none h3
          rw [hh] at this; cases this
        obtain ⟨lo, hlo⟩ := hdone root h1 h2
        rw [hroot] at hlo; cases hlo
    refine Or.inr ⟨hc', fin, ?_, ?_⟩
    · rcases hfr with h1 | ⟨h1, h2, h3⟩
      · exact Or.inl h1
      · exact Or.inr ⟨by rw [(hm root).started]; exact h1, hfc.trans h2, by rw [hx.cfg, (hm root).body]; exact h3⟩
    · intro f hf
      rw [hfc]
      have hfs : Trk s root f := Trk.of_sub (fun t x hl hx' => by
        obtain ⟨h1, _, _, _, _, h6, _⟩ := (hm t).live hl
        exact ⟨h1, h6 ▸ hx'⟩) hf
      have L := hloc f hfs
      rcases (hm f).flag_or_done with hv | ⟨h1, h2⟩
      · refine L.congr hv hx.cfg (Nat.le_of_eq hlen.symm) (fun d hd => hx.den d (hV.ownLt f d hd)) rfl (fun _ _ _ => rfl) ?_
        intro d hd hob hid
        rcases (hm d).flag_or_done with hvd | ⟨_, h2d⟩
        · refine hid.of_view hvd ?_
          intro hns hrs
          rcases hstk d hrs hns with h3 | ⟨top, hp, hdt⟩
          · exact h3 f hd
          · have := hV.ownU top f d (hV.depsOwn top d hdt) hd
            subst this
            rcases hob with hob | hob
            · rw [hp] at hob; cases hob
            · exact hob hdt
        · exact Idle.of_done h2d
      · obtain ⟨lo, hlo⟩ := hdone f h1 h2
        exact Loc.of_done (by rw [hlen]; exact L.lt) h2 (L.lazy lo h1 hlo)

/-- the start of a top-level computation -/
theorem E_top {s r : State} {body : Body} (U : UpdN s r (taskView body []))
    (hfc : fcount r.trace = 0) : E r s.futs.length (roundsTop r.cfg body) := by
  have hvr : view r s.futs.length = taskView body [] := U.viewN
  have hc : r.computed s.futs.length = false := by rw [computed_eq_view, hvr]; rfl
  refine Or.inr ⟨hc, fun _ => .unstarted (roundsTop r.cfg body), Or.inr ⟨by rw [hvr]; rfl, hfc, by rw [hvr]; rfl⟩, ?_⟩
  intro f hf
  have hfr : f = s.futs.length := by
    induction hf with
    | root => rfl
    | @own t f _ hl _ ih =>
      rw [ih, Live, hvr] at hl; cases hl.2.2
  subst hfr
  refine ⟨by rw [U.len]; omega, ?_, ?_, ?_, ?_, ?_, ?_⟩
  · intro h; rw [hvr] at h; exact absurd rfl h
  · intro k q p m _ h; rw [hvr] at h; cases h
  · intro lo _ h; rw [hvr] at h; cases h
  · intro _; rw [hvr]; exact ⟨by simp [taskView], by simp [taskView]⟩
  · intro _ _ _; rw [hvr]; rfl
  · intro hl; rw [Live, hvr] at hl; cases hl.2.2

end AsynqModel.Core.P19
