import AsynqModel.Lib.Threads
/-! helper lemmas for C16:
    * generic: if the global step of a thread SIMULATES a local step through an abstraction (`hc`) and leaves the
      abstraction of every other thread alone (`hf`), then every schedule / every family of adaptive computations gives
      each thread the records of running alone.  `hc` and `hf` are hypotheses here - for `gStep` they are the theorems
      `gStep_commutes` / `gStep_frame` below, and they are FALSE for the broken keyings (Theorems/C16.lean);
    * association lists, slices of the thread-keyed dict, the carriers map;
    * `gStep` versus `localStep`. -/
namespace AsynqModel.Threads

/-! ## lists -/
section lists
variable {ω ρ : Type}

theorem opsOf_cons_same (t : ThreadId) (op : ω) (sch : List (ThreadId × ω)) :
    opsOf t ((t, op) :: sch) = op :: opsOf t sch := by
  simp [opsOf]

theorem opsOf_cons_other (t u : ThreadId) (op : ω) (sch : List (ThreadId × ω)) (h : u ≠ t) :
    opsOf t ((u, op) :: sch) = opsOf t sch := by
  simp [opsOf, h]

theorem proj_cons_same (t : ThreadId) (r : ρ) (l : List (ThreadId × ρ)) :
    proj t ((t, r) :: l) = r :: proj t l := by
  simp [proj]

theorem proj_cons_other (t u : ThreadId) (r : ρ) (l : List (ThreadId × ρ)) (h : u ≠ t) :
    proj t ((u, r) :: l) = proj t l := by
  simp [proj, h]

theorem proj_append (t : ThreadId) (a b : List (ThreadId × ρ)) : proj t (a ++ b) = proj t a ++ proj t b := by
  simp [proj, List.filterMap_append]

theorem proj_snoc_same (t : ThreadId) (r : ρ) (l : List (ThreadId × ρ)) :
    proj t (l ++ [(t, r)]) = proj t l ++ [r] := by
  rw [proj_append]; simp [proj]

theorem proj_snoc_other (t u : ThreadId) (r : ρ) (l : List (ThreadId × ρ)) (h : u ≠ t) :
    proj t (l ++ [(u, r)]) = proj t l := by
  rw [proj_append]; simp [proj, h]

/-- the schedule "`t` alone" contains exactly `t`'s operations -/
theorem opsOf_only (t : ThreadId) (sch : List (ThreadId × ω)) : opsOf t (only t sch) = opsOf t sch := by
  unfold only
  induction opsOf t sch with
  | nil => rfl
  | cons op ops ih => rw [List.map_cons, opsOf_cons_same, ih]

theorem opsOf_map_same (t : ThreadId) (ops : List ω) : opsOf t (ops.map fun op => (t, op)) = ops := by
  induction ops with
  | nil => rfl
  | cons op ops ih => rw [List.map_cons, opsOf_cons_same, ih]

end lists

/-! ## generic simulation argument -/
section generic
variable {Γ Λ ω ο : Type} (gstep : ThreadId → ω → Γ → Γ × ο) (lstep : Λ → ω → Λ × ο) (ab : ThreadId → Γ → Λ)
  (ok : ω → Bool)

/-- all of `t`'s operations are `ok`: final view and projected records of thread `t` are those of running alone -/
theorem sim_run
    (hc : ∀ t op g, ok op = true → lstep (ab t g) op = (ab t (gstep t op g).1, (gstep t op g).2))
    (hf : ∀ t u op g, u ≠ t → ab u (gstep t op g).1 = ab u g)
    (sch : List (ThreadId × ω)) (g : Γ) (t : ThreadId) (hok : ∀ op ∈ opsOf t sch, ok op = true) :
    ab t (runGlobal gstep g sch).1 = (runAlone lstep (ab t g) (opsOf t sch)).1 ∧
    proj t (runGlobal gstep g sch).2 = (runAlone lstep (ab t g) (opsOf t sch)).2 := by
  induction sch generalizing g with
  | nil => simp [runGlobal, runAlone, opsOf, proj]
  | cons p sch ih =>
    obtain ⟨u, op⟩ := p
    by_cases h : u = t
    · subst h
      rw [opsOf_cons_same] at hok
      have hop : ok op = true := hok op (List.mem_cons_self ..)
      have := ih (gstep u op g).1 (fun o ho => hok o (List.mem_cons_of_mem _ ho))
      simp only [runGlobal, opsOf_cons_same, runAlone, proj_cons_same, hc u op g hop]
      exact ⟨this.1, by rw [this.2]⟩
    · rw [opsOf_cons_other _ _ _ _ h] at hok
      have := ih (gstep u op g).1 hok
      simp only [runGlobal, opsOf_cons_other _ _ _ _ h, proj_cons_other _ _ _ _ h]
      rw [hf u t op g (Ne.symm h)] at this
      exact this

/-- without any assumption on `t`'s operations: the records agree up to `t`'s first operation that is not `ok` -/
theorem sim_run_prefix
    (hc : ∀ t op g, ok op = true → lstep (ab t g) op = (ab t (gstep t op g).1, (gstep t op g).2))
    (hf : ∀ t u op g, u ≠ t → ab u (gstep t op g).1 = ab u g)
    (sch : List (ThreadId × ω)) (g : Γ) (t : ThreadId) :
    (proj t (runGlobal gstep g sch).2).takeWhile (fun r => ok r.1) =
    ((runAlone lstep (ab t g) (opsOf t sch)).2).takeWhile (fun r => ok r.1) := by
  induction sch generalizing g with
  | nil => simp [runGlobal, runAlone, opsOf, proj]
  | cons p sch ih =>
    obtain ⟨u, op⟩ := p
    by_cases h : u = t
    · subst h
      simp only [runGlobal, opsOf_cons_same, runAlone, proj_cons_same]
      by_cases hop : ok op = true
      · rw [hc u op g hop]
        simp only [List.takeWhile_cons, hop, if_true]
        rw [ih (gstep u op g).1]
      · simp [List.takeWhile_cons, hop]
    · have := ih (gstep u op g).1
      simp only [runGlobal, opsOf_cons_other _ _ _ _ h, proj_cons_other _ _ _ _ h]
      rw [hf u t op g (Ne.symm h)] at this
      exact this

end generic

/-! ## association lists -/
section alist
variable {α β : Type} [DecidableEq α]

theorem alookup_aerase_same (k : α) (l : List (α × β)) : alookup k (aerase k l) = none := by
  induction l with
  | nil => rfl
  | cons e r ih =>
    obtain ⟨k', v⟩ := e
    by_cases h : k' = k <;> simp [aerase, alookup, h, ih]

theorem alookup_aerase_other (k k' : α) (l : List (α × β)) (h : k' ≠ k) :
    alookup k' (aerase k l) = alookup k' l := by
  induction l with
  | nil => rfl
  | cons e r ih =>
    obtain ⟨k'', v⟩ := e
    by_cases h1 : k'' = k
    · subst h1
      have : ¬ (k'' = k') := fun h2 => h h2.symm
      simp [aerase, alookup, this, ih]
    · by_cases h2 : k'' = k'
      · subst h2; simp [aerase, alookup, h1]
      · simp [aerase, alookup, h1, h2, ih]

theorem alookup_ainsert_same (k : α) (v : β) (l : List (α × β)) : alookup k (ainsert k v l) = some v := by
  simp [ainsert, alookup]

theorem alookup_ainsert_other (k k' : α) (v : β) (l : List (α × β)) (h : k' ≠ k) :
    alookup k' (ainsert k v l) = alookup k' l := by
  have : ¬ (k = k') := fun h2 => h h2.symm
  simp [ainsert, alookup, this, alookup_aerase_other k k' l h]

end alist

/-! ## the carriers map -/

theorem getL_set_same (g : GState) (s : Nat) (v : TL) (tb : SharedTbl) (sh : Shared) :
    getL { locals := ainsert s v g.locals, tasks := tb, sh := sh } s = v := by
  simp [getL, alookup_ainsert_same]

theorem getL_set_other (g : GState) (s s' : Nat) (v : TL) (tb : SharedTbl) (sh : Shared) (h : s' ≠ s) :
    getL { locals := ainsert s v g.locals, tasks := tb, sh := sh } s' = getL g s' := by
  simp [getL, alookup_ainsert_other s s' v g.locals h]

/-! ## slices of the thread-keyed dedup table -/

theorem slice_lookup (t : Nat) (f k : Nat) (tbl : SharedTbl) :
    alookup (k, t, f) tbl = alookup (f, k) (slice t tbl) := by
  induction tbl with
  | nil => rfl
  | cons e r ih =>
    obtain ⟨⟨k', u, f'⟩, v⟩ := e
    by_cases hu : u = t
    · subst hu
      by_cases hk : k' = k <;> by_cases hf : f' = f <;> simp [alookup, slice, hk, hf, ih]
    · have : ¬ ((k', u, f') = (k, t, f)) := by
        intro h; injection h with _ h2; injection h2 with h3 _; exact hu h3
      simp [alookup, slice, hu, this, ih]

theorem slice_erase_same (t : Nat) (f k : Nat) (tbl : SharedTbl) :
    slice t (aerase (k, t, f) tbl) = aerase (f, k) (slice t tbl) := by
  induction tbl with
  | nil => rfl
  | cons e r ih =>
    obtain ⟨⟨k', u, f'⟩, v⟩ := e
    by_cases hu : u = t
    · subst hu
      by_cases hk : k' = k <;> by_cases hf : f' = f <;> simp [aerase, slice, hk, hf, ih]
    · have : ¬ ((k', u, f') = (k, t, f)) := by
        intro h; injection h with _ h2; injection h2 with h3 _; exact hu h3
      simp [aerase, slice, hu, this, ih]

theorem slice_erase_other (t u : Nat) (f k : Nat) (tbl : SharedTbl) (h : u ≠ t) :
    slice u (aerase (k, t, f) tbl) = slice u tbl := by
  induction tbl with
  | nil => rfl
  | cons e r ih =>
    obtain ⟨⟨k', w, f'⟩, v⟩ := e
    by_cases hw : w = u
    · subst hw
      have : ¬ ((k', w, f') = (k, t, f)) := by
        intro h'; injection h' with _ h2; injection h2 with h3 _; exact h h3
      simp only [aerase, this, if_false, slice, if_true, ih]
    · by_cases he : (k', w, f') = (k, t, f)
      · simp only [aerase, he, if_true, slice, hw, if_false, ih]
      · simp only [aerase, he, if_false, slice, hw, ih]

theorem slice_insert_same (t : Nat) (f k v : Nat) (tbl : SharedTbl) :
    slice t (ainsert (k, t, f) v tbl) = ainsert (f, k) v (slice t tbl) := by
  simp [ainsert, slice, slice_erase_same]

theorem slice_insert_other (t u : Nat) (f k v : Nat) (tbl : SharedTbl) (h : u ≠ t) :
    slice u (ainsert (k, t, f) v tbl) = slice u tbl := by
  have : ¬ (t = u) := fun h' => h h'.symm
  simp [ainsert, slice, this, slice_erase_other t u f k tbl h]

/-- a table action applied to the one dict with thread component `tk` is the same action on `tk`'s slice -/
theorem slice_applyG_same (tk : Nat) (act : TblAct) (tbl : SharedTbl) :
    slice tk (applyG tk act tbl) = applyL act (slice tk tbl) := by
  cases act with
  | none => rfl
  | insert fk v => obtain ⟨f, k⟩ := fk; exact slice_insert_same tk f k v tbl
  | erase fk => obtain ⟨f, k⟩ := fk; exact slice_erase_same tk f k tbl

/-- ... and leaves every other slice as it was -/
theorem slice_applyG_other (tk tk' : Nat) (act : TblAct) (tbl : SharedTbl) (h : tk' ≠ tk) :
    slice tk' (applyG tk act tbl) = slice tk' tbl := by
  cases act with
  | none => rfl
  | insert fk v => obtain ⟨f, k⟩ := fk; exact slice_insert_other tk tk' f k v tbl h
  | erase fk => obtain ⟨f, k⟩ := fk; exact slice_erase_other tk tk' f k tbl h

/-! ## `coreStep` -/

theorem sharedStep_none (perf : Bool) (sh : Shared) (l : TL) (op : Op) (h : op.isShared = false) :
    sharedStep perf sh l op = none := by
  cases op <;> first | rfl | (simp [Op.isShared] at h)

/-- an operation that is not on a shared-by-design object neither reads nor writes `sh` -/
theorem coreStep_priv (perf : Bool) (look : Nat × Nat → Option Nat) (sh : Shared) (l : TL) (op : Op)
    (h : op.isShared = false) :
    coreStep perf look sh l op =
      { tl := (privStep perf look l op).1, act := (privStep perf look l op).2.1, sh := sh,
        obs := (privStep perf look l op).2.2 } := by
  simp [coreStep, sharedStep_none perf sh l op h]

/-! ## `gStep` simulates `localStep` on the view of the acting thread, and frames the view of the others -/

/-- **simulation**: for an operation that touches no shared-by-design object, what thread `t` observes and what
    becomes of `t`'s view is `localStep` on `t`'s view - whatever the rest of the state is.  (Any keying.) -/
theorem gStep_commutes (kg : Keying) (perf : Bool) (t : ThreadId) (op : Op) (g : GState) (h : op.isShared = false) :
    localStep perf (abs kg t g) op = (abs kg t (gStep kg perf t op g).1, (gStep kg perf t op g).2) := by
  have hl : (fun fk : Nat × Nat => alookup fk (slice (kg.key t) g.tasks)) =
      (fun fk : Nat × Nat => alookup (fk.2, kg.key t, fk.1) g.tasks) := by
    funext fk; obtain ⟨f, k⟩ := fk; exact (slice_lookup (kg.key t) f k g.tasks).symm
  simp only [localStep, gStep, abs, hl, coreStep_priv _ _ _ _ _ h, getL_set_same, slice_applyG_same]

/-- **frame**: if the keying separates the threads, an operation of thread `t` (ANY operation, also one on a shared
    object) leaves the view of every other thread exactly as it was -/
theorem gStep_frame (kg : Keying) (hs : kg.Separates) (perf : Bool) (t u : ThreadId) (op : Op) (g : GState)
    (h : u ≠ t) : abs kg u (gStep kg perf t op g).1 = abs kg u g := by
  have h1 : kg.slot u ≠ kg.slot t := fun e => h (hs.1 u t e)
  have h2 : kg.key u ≠ kg.key t := fun e => h (hs.2 u t e)
  simp only [gStep, abs, getL_set_other _ _ _ _ _ _ h1, slice_applyG_other _ _ _ _ h2]

/-! ## what the model never records -/

theorem privStep_obs_ne_foreign (perf : Bool) (look : Nat × Nat → Option Nat) (l : TL) (op : Op) :
    (privStep perf look l op).2.2 ≠ Obs.foreign := by
  cases op <;> simp only [privStep] <;> (repeat' split) <;> simp

theorem sharedStep_obs_ne_foreign (perf : Bool) (sh : Shared) (l : TL) (op : Op) (r : TL × Shared × Obs)
    (h : sharedStep perf sh l op = some r) : r.2.2 ≠ Obs.foreign := by
  cases op <;> simp only [sharedStep] at h <;> (repeat' split at h) <;>
    first | (cases h; simp) | (simp at h)

theorem coreStep_obs_ne_foreign (perf : Bool) (look : Nat × Nat → Option Nat) (sh : Shared) (l : TL) (op : Op) :
    (coreStep perf look sh l op).obs ≠ Obs.foreign := by
  unfold coreStep
  split
  · next l' sh' o h => exact sharedStep_obs_ne_foreign perf sh l op (l', sh', o) h
  · exact privStep_obs_ne_foreign perf look l op

theorem gStep_obs_ne_foreign (kg : Keying) (perf : Bool) (t : ThreadId) (op : Op) (g : GState) :
    (gStep kg perf t op g).2 ≠ Obs.foreign := by
  exact coreStep_obs_ne_foreign perf _ g.sh _ op


/-! ## records that no shared-by-design object can influence

    `svSaved` (the `_old_value`s of the override contexts a thread is inside of) is the only carrier component that an
    operation on a shared object writes when the profiler is off or the operation is not a cached call, and no other
    operation reads or writes it.  So modulo `svSaved` the view of a thread evolves through its private operations
    alone, whatever the shared objects hold. -/

/-- forget the saved scoped values -/
def forgetTL (l : TL) : TL := { l with svSaved := [], nfHeld := false }
def forgetL (L : Local) : Local := { L with tl := forgetTL L.tl }

/-- an operation on a shared object - other than a cached call under COLLECT_PERF_STATS - changes nothing of the
    caller's carriers except `svSaved` -/
theorem sharedStep_forget (perf : Bool) (sh : Shared) (l : TL) (op : Op) (r : TL × Shared × Obs)
    (h : sharedStep perf sh l op = some r) (hc : (perf && isLru op) = false) : forgetTL r.1 = forgetTL l := by
  cases op <;> simp only [sharedStep] at h <;> try (simp at h)
  case svGet => cases h; rfl
  case svSet v => cases h; rfl
  case svEnter v => cases h; rfl
  case svExit =>
    cases hs : l.svSaved <;> simp only [hs] at h <;> cases h <;> simp [forgetTL]
  case nfRepr => cases h; rfl
  case nfEnter => split at h <;> cases h <;> rfl
  case nfExit => split at h <;> cases h <;> rfl
  case lruCall k =>
    have hp : perf = false := by simpa [isLru] using hc
    subst hp
    cases ha : l.amode <;> simp [ha] at h
    · split at h <;> cases h <;> rfl
    · cases h; rfl

/-- a private operation neither reads nor writes `svSaved` -/
theorem privStep_forget (perf : Bool) (look : Nat × Nat → Option Nat) (l : TL) (op : Op) (h : op.isShared = false) :
    (privStep perf look (forgetTL l) op).2 = (privStep perf look l op).2 ∧
    forgetTL (privStep perf look (forgetTL l) op).1 = forgetTL (privStep perf look l op).1 := by
  cases op <;> simp [Op.isShared] at h
  case schedFlush n => cases hd : alookup n l.dbg <;> cases perf <;> simp [privStep, forgetTL, flushName, hd]
  case directFlush n => cases hd : alookup n l.dbg <;> simp [privStep, forgetTL, flushName, hd]
  case schedBatch n =>
    cases hd : alookup n l.dbg <;> simp [privStep, forgetTL, hd]
    split <;> simp
  case taskStop => cases hd : l.sched.saved <;> simp [privStep, forgetTL, hd]
  case amExit => cases hd : l.amodeSaved <;> simp [privStep, forgetTL, hd]
  case taskDone t => cases perf <;> simp [privStep, forgetTL]
  case newTask => cases ha : l.amode <;> cases perf <;> simp [privStep, forgetTL, freshTask, perfId, ha]
  case mkItem a b => cases perf <;> simp [privStep, forgetTL, perfId]
  case dedupCall f k =>
    cases ha : l.amode <;> cases hl : look (f, k) <;> cases perf <;>
      simp [privStep, forgetTL, freshTask, perfId, ha, hl, TL.running]
    all_goals (split <;> simp [ha])
  all_goals simp [privStep, forgetTL]

theorem localStep_forget (perf : Bool) (L : Local) (op : Op) (h : op.isShared = false) :
    (localStep perf (forgetL L) op).2 = (localStep perf L op).2 ∧
    forgetL (localStep perf (forgetL L) op).1 = forgetL (localStep perf L op).1 := by
  have a := privStep_forget perf (fun fk => alookup fk L.dedup) L.tl op h
  simp only [localStep, coreStep_priv _ _ _ _ _ h, forgetL]
  refine ⟨congrArg Prod.snd a.1, ?_⟩
  rw [a.2, congrArg Prod.fst a.1]

/-- the view of the calling thread, modulo `svSaved`, survives its operations on shared objects -/
theorem gStep_shared_forget (kg : Keying) (perf : Bool) (t : ThreadId) (op : Op) (g : GState)
    (h : op.isShared = true) (hc : (perf && isLru op) = false) :
    forgetL (abs kg t (gStep kg perf t op g).1) = forgetL (abs kg t g) := by
  cases hs : sharedStep perf g.sh (getL g (kg.slot t)) op with
  | none => cases op <;> simp [Op.isShared] at h <;> simp [sharedStep] at hs <;> (repeat' split at hs) <;> simp at hs
  | some r =>
    have := sharedStep_forget perf g.sh _ op r hs hc
    simp only [gStep, coreStep, hs, abs, forgetL, getL_set_same, applyG, this]

/-- the reference for the records of a thread that no shared object can influence: its private operations executed by
    `localStep` on its own view modulo `svSaved`; operations on shared objects are skipped; under COLLECT_PERF_STATS
    the list ends at the first cached call -/
def strictRef (perf : Bool) : Local → List Op → List Rec
  | _, [] => []
  | L, op :: ops =>
    if op.isShared then
      if perf && isLru op then [] else strictRef perf L ops
    else
      (op, (localStep perf L op).2) :: strictRef perf (forgetL (localStep perf L op).1) ops

theorem strictPart_cons_priv (perf : Bool) (r : Rec) (l : List Rec) (h : r.1.isShared = false) :
    strictPart perf (r :: l) = r :: strictPart perf l := by
  have hl : isLru r.1 = false := by
    cases hr : r.1 <;> simp [hr, Op.isShared] at h <;> rfl
  cases perf <;> simp [strictPart, cut, priv, h, hl]

theorem strictPart_cons_shared (perf : Bool) (r : Rec) (l : List Rec) (h : r.1.isShared = true)
    (hc : (perf && isLru r.1) = false) : strictPart perf (r :: l) = strictPart perf l := by
  cases perf
  · simp [strictPart, cut, priv, h]
  · have hl : isLru r.1 = false := by simpa using hc
    simp [strictPart, cut, priv, h, hl]

theorem strictPart_cons_cut (r : Rec) (l : List Rec) (hl : isLru r.1 = true) : strictPart true (r :: l) = [] := by
  simp [strictPart, cut, priv, hl]

/-- **every schedule, every thread, no hypothesis on its operations**: the records of thread `t` that no shared object
    can influence are those of `strictRef` on `t`'s initial view - whatever the other threads do and whatever the
    shared objects hold -/
theorem sim_strict (kg : Keying) (hs : kg.Separates) (perf : Bool) (sch : List (ThreadId × Op)) (g : GState)
    (t : ThreadId) :
    strictPart perf (proj t (runGlobal (gStep kg perf) g sch).2) = strictRef perf (forgetL (abs kg t g)) (opsOf t sch) := by
  induction sch generalizing g with
  | nil => simp [runGlobal, opsOf, proj, strictRef, strictPart, cut, priv]
  | cons p sch ih =>
    obtain ⟨u, op⟩ := p
    by_cases h : u = t
    · subst h
      simp only [runGlobal, opsOf_cons_same, proj_cons_same]
      cases hsh : op.isShared with
      | false =>
        have hc := gStep_commutes kg perf u op g hsh
        have hf := localStep_forget perf (abs kg u g) op hsh
        rw [strictPart_cons_priv perf _ _ hsh, ih (gStep kg perf u op g).1]
        simp only [strictRef, hsh, Bool.false_eq_true, if_false]
        rw [hf.1, hf.2, hc]
      | true =>
        cases hcut : (perf && isLru op) with
        | false =>
          rw [strictPart_cons_shared perf _ _ hsh hcut, ih (gStep kg perf u op g).1,
            gStep_shared_forget kg perf u op g hsh hcut]
          simp [strictRef, hsh, hcut]
        | true =>
          have hp : perf = true := by cases perf <;> simp_all
          have hl : isLru op = true := by cases perf <;> simp_all
          subst hp
          rw [strictPart_cons_cut _ _ hl]
          simp [strictRef, hsh, hl]
    · simp only [runGlobal, opsOf_cons_other _ _ _ _ h, proj_cons_other _ _ _ _ h]
      rw [ih (gStep kg perf u op g).1, gStep_frame kg hs perf u t op g (Ne.symm h)]

/-! ## the thread component of the deduplicate key under CPython's `current_thread()` -/

theorem alookup_mem {α β : Type} [DecidableEq α] (k : α) (v : β) (l : List (α × β)) (h : alookup k l = some v) :
    (k, v) ∈ l := by
  induction l with
  | nil => simp [alookup] at h
  | cons e r ih =>
    obtain ⟨k', v'⟩ := e
    by_cases hk : k' = k
    · simp [alookup, hk] at h; subst hk; subst h; exact List.mem_cons_self ..
    · simp [alookup, hk] at h; exact List.mem_cons_of_mem _ (ih h)

/-- if no two threads that were not created through `threading.Thread` had the same OS thread ident, CPython's
    `current_thread()` objects keep all threads apart -/
theorem cpython_separates (aliens : List (ThreadId × Nat)) (h : identsDistinct aliens = true) :
    (Keying.cpython aliens).Separates := by
  refine ⟨fun _ _ e => e, ?_⟩
  intro t u e
  have e' : (match alookup t aliens with | some i => 2 * i + 1 | none => 2 * t) =
      (match alookup u aliens with | some i => 2 * i + 1 | none => 2 * u) := e
  clear e
  have m1 := fun i => alookup_mem t i aliens
  have m2 := fun i => alookup_mem u i aliens
  revert e' m1 m2
  generalize alookup t aliens = a
  generalize alookup u aliens = b
  intro e' m1 m2
  cases a with
  | none =>
    cases b with
    | none => exact Nat.eq_of_mul_eq_mul_left (by decide : 0 < 2) e'
    | some j => simp only at e'; omega
  | some i =>
    cases b with
    | none => simp only at e'; omega
    | some j =>
      simp only at e'
      have hij : i = j := by omega
      subst hij
      simp only [identsDistinct, List.all_eq_true] at h
      have := h (t, i) (m1 i rfl) (u, i) (m2 i rfl)
      simpa using this

section runs
variable {Γ ω ο : Type} (gstep : ThreadId → ω → Γ → Γ × ο)

/-- the records of a run carry the threads of the schedule, in order -/
theorem runGlobal_threads (g : Γ) (sch : List (ThreadId × ω)) :
    (runGlobal gstep g sch).2.map (·.1) = sch.map (·.1) := by
  induction sch generalizing g with
  | nil => rfl
  | cons p sch ih => obtain ⟨u, op⟩ := p; simp [runGlobal, ih]

/-- the operations a thread is recorded with are its operations in the schedule -/
theorem runGlobal_ops (g : Γ) (sch : List (ThreadId × ω)) (t : ThreadId) :
    (proj t (runGlobal gstep g sch).2).map (·.1) = opsOf t sch := by
  induction sch generalizing g with
  | nil => rfl
  | cons p sch ih =>
    obtain ⟨u, op⟩ := p
    by_cases h : u = t
    · subst h; simp only [runGlobal, proj_cons_same, opsOf_cons_same, List.map_cons, ih]
    · simp only [runGlobal, proj_cons_other _ _ _ _ h, opsOf_cons_other _ _ _ _ h, ih]

/-- every observation of a run satisfies what every single step's observation satisfies -/
theorem runGlobal_obs (P : ο → Prop) (hP : ∀ t op g, P (gstep t op g).2) (g : Γ) (sch : List (ThreadId × ω)) :
    ∀ r ∈ (runGlobal gstep g sch).2, P r.2.2 := by
  induction sch generalizing g with
  | nil => intro r hr; simp [runGlobal] at hr
  | cons p sch ih =>
    obtain ⟨u, op⟩ := p
    intro r hr
    simp only [runGlobal, List.mem_cons] at hr
    rcases hr with rfl | hr
    · exact hP u op g
    · exact ih _ r hr

end runs

/-! ## adaptive computations -/

/-- strategies: the records of thread `t` (and its view) after any list of turns are those of its computation running
    alone for as many turns as `t` got -/
theorem sim_strat (gstep : ThreadId → Op → GState → GState × Obs) (lstep : Local → Op → Local × Obs)
    (ab : ThreadId → GState → Local) (ok : Op → Bool)
    (hc : ∀ t op g, ok op = true → lstep (ab t g) op = (ab t (gstep t op g).1, (gstep t op g).2))
    (hf : ∀ t u op g, u ≠ t → ab u (gstep t op g).1 = ab u g)
    (ss : ThreadId → Strategy) (t : ThreadId) (hok : ∀ h op, ss t h = some op → ok op = true)
    (turns : List ThreadId) (g : GState) (recs : List (ThreadId × Rec)) :
    ab t (stratGlobal gstep ss turns g recs).1 = (stratAlone lstep (ss t) (turns.count t) (ab t g) (proj t recs)).1 ∧
    proj t (stratGlobal gstep ss turns g recs).2 = (stratAlone lstep (ss t) (turns.count t) (ab t g) (proj t recs)).2 := by
  induction turns generalizing g recs with
  | nil => simp [stratGlobal, stratAlone]
  | cons u turns ih =>
    by_cases h : u = t
    · subst h
      rw [List.count_cons_self]
      cases hs : ss u (proj u recs) with
      | none => simp only [stratGlobal, stratAlone, hs]; exact ih g recs
      | some op =>
        have := ih (gstep u op g).1 (recs ++ [(u, (op, (gstep u op g).2))])
        simp only [stratGlobal, stratAlone, hs, hc u op g (hok _ _ hs)]
        rw [proj_snoc_same] at this
        exact this
    · have hne : (u == t) = false := by simp [h]
      rw [List.count_cons, hne]
      simp only [Bool.false_eq_true, if_false, Nat.add_zero]
      cases hs : ss u (proj u recs) with
      | none => simp only [stratGlobal, hs]; exact ih g recs
      | some op =>
        have := ih (gstep u op g).1 (recs ++ [(u, (op, (gstep u op g).2))])
        simp only [stratGlobal, hs]
        rw [proj_snoc_other _ _ _ _ h, hf u t op g (Ne.symm h)] at this
        exact this

end AsynqModel.Threads
