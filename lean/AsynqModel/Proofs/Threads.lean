import AsynqModel.Lib.Threads
/-! helper lemmas for C16: locality of `stepOf`, induction over schedules, slices of a thread-keyed table -/
namespace AsynqModel.Threads

section generic
variable {σ ω ο : Type}

theorem update_same (g : ThreadId → σ) (t : ThreadId) (v : σ) : update g t v t = v := by
  simp [update]

theorem update_other (g : ThreadId → σ) (t u : ThreadId) (v : σ) (h : u ≠ t) : update g t v u = g u := by
  simp [update, h]

theorem opsOf_cons_same (t : ThreadId) (op : ω) (sch : List (ThreadId × ω)) :
    opsOf t ((t, op) :: sch) = op :: opsOf t sch := by
  simp [opsOf]

theorem opsOf_cons_other (t u : ThreadId) (op : ω) (sch : List (ThreadId × ω)) (h : u ≠ t) :
    opsOf t ((u, op) :: sch) = opsOf t sch := by
  simp [opsOf, h]

theorem proj_cons_same {ρ : Type} (t : ThreadId) (r : ρ) (l : List (ThreadId × ρ)) :
    proj t ((t, r) :: l) = r :: proj t l := by
  simp [proj]

theorem proj_cons_other {ρ : Type} (t u : ThreadId) (r : ρ) (l : List (ThreadId × ρ)) (h : u ≠ t) :
    proj t ((u, r) :: l) = proj t l := by
  simp [proj, h]

/-- the induction over the schedule: final slot and projected records of thread `t` are those of running alone -/
theorem inter_eq_alone (step : σ → ω → σ × ο) (sch : List (ThreadId × ω)) (g : ThreadId → σ) (t : ThreadId) :
    (runInterleaved step g sch).1 t = (runAlone step (g t) (opsOf t sch)).1 ∧
    proj t (runInterleaved step g sch).2 = (runAlone step (g t) (opsOf t sch)).2 := by
  induction sch generalizing g with
  | nil => simp [runInterleaved, runAlone, opsOf, proj]
  | cons p sch ih =>
    obtain ⟨u, op⟩ := p
    by_cases h : u = t
    · subst h
      have := ih (update g u (step (g u) op).1)
      simp only [runInterleaved, stepOf, opsOf_cons_same, runAlone, proj_cons_same, update_same] at this ⊢
      exact ⟨this.1, by rw [this.2]⟩
    · have := ih (update g u (step (g u) op).1)
      simp only [runInterleaved, stepOf, opsOf_cons_other _ _ _ _ h, proj_cons_other _ _ _ _ h,
        update_other _ _ _ _ (Ne.symm h)] at this ⊢
      exact this

end generic

/-! ## slices of the thread-keyed dedup table -/

theorem slice_lookup (t : ThreadId) (f k : Nat) (tbl : SharedTbl) :
    alookup (k, t, f) tbl = alookup (f, k) (slice t tbl) := by
  induction tbl with
  | nil => rfl
  | cons e r ih =>
    obtain ⟨⟨k', u, f'⟩, v⟩ := e
    by_cases hu : u = t
    · subst hu
      by_cases hk : k' = k <;> by_cases hf : f' = f <;> simp [alookup, slice, hk, hf, ih]
    · have : ¬ ((k', u, f') = (k, t, f)) := by
        intro h; injection h with _ h2; injection h2 with h3 _; exact hu h3
      simp [alookup, slice, hu, this, ih]

theorem slice_erase_same (t : ThreadId) (f k : Nat) (tbl : SharedTbl) :
    slice t (aerase (k, t, f) tbl) = aerase (f, k) (slice t tbl) := by
  induction tbl with
  | nil => rfl
  | cons e r ih =>
    obtain ⟨⟨k', u, f'⟩, v⟩ := e
    by_cases hu : u = t
    · subst hu
      by_cases hk : k' = k <;> by_cases hf : f' = f <;> simp [aerase, slice, hk, hf, ih]
    · have : ¬ ((k', u, f') = (k, t, f)) := by
        intro h; injection h with _ h2; injection h2 with h3 _; exact hu h3
      simp [aerase, slice, hu, this, ih]

theorem slice_erase_other (t u : ThreadId) (f k : Nat) (tbl : SharedTbl) (h : u ≠ t) :
    slice u (aerase (k, t, f) tbl) = slice u tbl := by
  induction tbl with
  | nil => rfl
  | cons e r ih =>
    obtain ⟨⟨k', w, f'⟩, v⟩ := e
    by_cases hw : w = u
    · subst hw
      have : ¬ ((k', w, f') = (k, t, f)) := by
        intro h'; injection h' with _ h2; injection h2 with h3 _; exact h h3
      simp only [aerase, this, if_false, slice, if_true, ih]
    · by_cases he : (k', w, f') = (k, t, f)
      · simp only [aerase, he, if_true, slice, hw, if_false, ih]
      · simp only [aerase, he, if_false, slice, hw, ih]

end AsynqModel.Threads
