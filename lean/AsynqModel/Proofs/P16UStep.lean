import AsynqModel.Proofs.P16UOps
/-!
  P16, part 11: the relation `U` is preserved by every helper of the machine and by `step` (`U_step`).

  The side conditions are the clauses of `chkB` for the events a step may emit:
  * `hrun`  : the resume / start of the task whose generator is on top of the Python stack;
  * `hflush`: a scheduler flush;
  * `hret`  : the end of a top-level computation;
  * `hsusp` : the second visit of a blocked task with a registered NonAsyncContext (the task fails);
  * `hz`    : `_resume_contexts` never meets a NonAsyncContext.
  They are about the state at the beginning of the step and are discharged from the machine invariants later.
-/
namespace AsynqModel.Core.P16
open AsynqModel.Core AsynqModel.Core.Spec AsynqModel.Core.P13 AsynqModel.Core.P5

variable {cx : Ctx}

theorem U.mk' (s : State) (cfg batches stack sbatches active ctl ctxs sv tops topIdx curTop raising choices stuck guardFired)
    {ex} (h : U cx s ex) :
    U cx { cfg := cfg, futs := s.futs, batches := batches, stack := stack, sbatches := sbatches, active := active,
           ctl := ctl, ctxs := ctxs, sv := sv, trace := s.trace, tops := tops, topIdx := topIdx, curTop := curTop,
           raising := raising, choices := choices, stuck := stuck, guardFired := guardFired } ex :=
  U.of_eq (s := s) h rfl rfl

theorem U.ite {s1 s2 : State} {p : Prop} [Decidable p] {ex} (h1 : U cx s1 ex) (h2 : U cx s2 ex) :
    U cx (if p then s1 else s2) ex := by
  split <;> assumption

theorem U.fail {s : State} {ex} (h : U cx s ex) (m : String) : U cx (s.fail m) ex := U.of_eq (s := s) h rfl rfl

/-- `U` alone through the context operations (no failure in sight) -/
theorem U.toUD {s : State} (h : U cx s none) (t : Nat) : UD cx False t s := ⟨h, fun f => f.elim⟩

theorem U.svTouch {s : State} {ex} (h : U cx s ex) (var : Nat) : U cx (s.svTouch var) ex :=
  h.of_eq (P2.sameC_svTouch s var).futs (P2.sameC_svTouch s var).trace

theorem U.ctxResumeOne {s : State} (h : U cx s none) (c : Nat) : U cx (s.ctxResumeOne c) none :=
  ((h.toUD 0).ctxResumeOne c).u

theorem U.ctxExit {s : State} (h : U cx s none) (c : Nat) : U cx (s.ctxExit c) none := ((h.toUD 0).ctxExit c).u

/-! ### batches -/

theorem U.switchActive {s : State} {ex} (h : U cx s ex) (kind seq : Nat) : U cx (s.switchActive kind seq) ex := by
  unfold State.switchActive
  split
  · split
    · exact U.of_eq (s := s) h rfl rfl
    · exact h
  · exact h

theorem U.updBatch {s : State} {ex} (h : U cx s ex) (kind seq : Nat) (g : Batch → Batch) :
    U cx (s.updBatch kind seq g) ex := U.of_eq (s := s) h rfl rfl

theorem U.flushItems (kind : Nat) (l : List Nat) {s : State} (h : U cx s none) : U cx (s.flushItems kind l) none := by
  induction l generalizing s with
  | nil => exact h
  | cons i l ih =>
    unfold State.flushItems
    simp only []
    apply ih
    split
    · exact h
    · split
      · exact h.complete _ _ (.inl rfl) (chkB_done_ne _ _ _ (by intro hh; cases hh))
      · exact h.complete _ _ (.inl rfl) (chkB_done_ne _ _ _ (by intro hh; cases hh))
      · exact h

theorem U.finishItems (e : Err) (he : e ≠ .nonasync) (l : List Nat) {s : State} (h : U cx s none) :
    U cx (s.finishItems e l) none := by
  induction l generalizing s with
  | nil => exact h
  | cons i l ih =>
    unfold State.finishItems
    apply ih
    split
    · exact h
    · exact h.complete _ _ (.inl rfl) (chkB_done_ne _ _ _ (by intro hh; injection hh with hh; exact he hh))

theorem U.flushBatch {s : State} (h : U cx s none) (kind seq : Nat) : U cx (s.flushBatch kind seq) none := by
  unfold State.flushBatch
  split
  · exact h.fail _
  · simp only []
    refine U.updBatch ?_ _ _ _
    refine U.emit ?_ _ rfl
    refine U.finishItems _ ?_ _ ?_
    · split <;> intro hh <;> cases hh
    refine U.flushItems _ _ ?_
    refine U.emit ?_ _ rfl
    exact h.switchActive _ _

theorem U.schedulerFlush {s : State} (h : U cx s none) (root : Nat)
    (hflush : ∀ k q its p pd, chkB cx (W s) (.flushB k q its p pd) = none) : U cx (s.schedulerFlush root) none := by
  unfold State.schedulerFlush
  simp only []
  have h0 : U cx { s with sbatches := s.flushable, ctl := .waitEnter root :: s.ctl.tail } none := U.of_eq (s := s) h rfl rfl
  split
  · exact h0
  · split
    · exact h0.fail _
    · split
      · exact h0.fail _
      · split
        · exact h0.fail _
        · refine U.emit ?_ _ rfl
          refine U.flushBatch ?_ _ _
          refine U.emitC ?_ _ rfl (hflush _ _ _ _ _)
          exact U.of_eq (s := s) h rfl rfl

/-! ### the scheduler loop -/

theorem U.popStack {s : State} {ex} (h : U cx s ex) : U cx s.popStack ex := U.of_eq (s := s) h rfl rfl

theorem U.handleTask {s : State} (h : U cx s none) (t : Nat)
    (hsusp : (s.task t).deps.any (fun d => !s.computed d) = true → (s.task t).depsSched = true →
      (s.task t).ctxs.any s.ctxIsNonAsync = true → DoneOK cx (W s) t)
    (hz : (s.task t).ctxActive = false → (s.task t).ctxs.any s.ctxIsNonAsync = false) : U cx (s.handleTask t) none := by
  have hres : ∀ g : TaskSt → TaskSt, (∀ x, (g x).ctxs = x.ctxs) → (∀ x, (g x).ctxActive = x.ctxActive) →
      ((s.updTask t g).task t).ctxActive = false → ((s.updTask t g).task t).ctxs.any (s.updTask t g).ctxIsNonAsync = true →
      DoneOK cx (W (s.updTask t g)) t := by
    intro g g1 g2 ha hn
    rw [task_updTask_field s t t g (·.ctxActive) g2] at ha
    rw [task_updTask_field s t t g (·.ctxs) g1] at hn
    have : (s.task t).ctxs.any s.ctxIsNonAsync = true := hn
    rw [hz ha] at this; cases this
  unfold State.handleTask
  simp only []
  split
  · next hb =>
    split
    · next hs =>
      refine U.popStack ?_
      refine U.pauseContexts ?_ t ?_
      · exact h.updTask _ _ (fun _ => rfl) (fun _ => rfl) (fun _ => rfl) (fun _ => rfl)
      · intro hn
        rw [task_updTask_field s t t (fun ts => { ts with depsSched := false }) (·.ctxs) (fun _ => rfl)] at hn
        exact hsusp hb hs hn
    · apply U.mk'
      refine U.resumeContexts ?_ t (hres _ (fun _ => rfl) (fun _ => rfl))
      exact h.updTask _ _ (fun _ => rfl) (fun _ => rfl) (fun _ => rfl) (fun _ => rfl)
  · split
    · exact h.fail _
    · apply U.mk'
      refine U.resumeContexts h t ?_
      intro ha hn
      rw [hz ha] at hn; cases hn

theorem lazyOutcome_ne (o : LazyOut) : lazyOutcome o ≠ .err .nonasync := by
  cases o <;> intro h <;> cases h

theorem U.executeIter {s : State} (h : U cx s none)
    (hsusp : ∀ t, s.computed t = false → (s.task t).deps.any (fun d => !s.computed d) = true →
      (s.task t).depsSched = true → (s.task t).ctxs.any s.ctxIsNonAsync = true → DoneOK cx (W s) t)
    (hz : ∀ t, s.computed t = false → (s.task t).ctxActive = false → (s.task t).ctxs.any s.ctxIsNonAsync = false) :
    U cx s.executeIter none := by
  unfold State.executeIter
  split
  · exact h.fail _
  · next top rest hst =>
    split
    · exact U.of_eq (s := s) h rfl rfl
    · split
      · exact h.popStack
      · next hc =>
        split
        · exact h.handleTask _ (hsusp top (by simpa using hc)) (hz top (by simpa using hc))
        · refine U.popStack ?_
          split
          · split
            · exact h
            · exact U.of_eq (s := s) h rfl rfl
          · exact h
        · exact U.popStack (h.complete _ _ (.inl rfl) (chkB_done_ne _ _ _ (lazyOutcome_ne _)))
        · exact h.fail _

/-! ### one instruction of a task body -/

theorem U.leaveGen {s : State} (h : U cx s none) (t : Nat) (old : Option Nat) : U cx (s.leaveGen t old) none := by
  unfold State.leaveGen
  apply U.mk'
  exact h.updTask _ _ (fun _ => rfl) (fun _ => rfl) (fun _ => rfl) (fun _ => rfl)

theorem U.finishTask {s : State} (h : U cx s none) (t : Nat) (old : Option Nat) (o : Outcome)
    (hp : (s.task t).pending = false) : U cx (s.finishTask t old o) none := by
  unfold State.finishTask
  split
  · exact h.fail _
  · have hd : DoneOK cx (W s) t := by
      apply doneOK_of_none
      cases hl : (W s).lastYield.lookup t with
      | none => rfl
      | some p =>
        have := (h.lyc t p (by simp) hl).1
        rw [hp] at this; cases this
    have h0 : UD cx True t s := ⟨h, fun _ => hd⟩
    exact U.leaveGen (h0.exitComplete trivial o) t old

theorem U.newTask {s : State} {ex} (h : U cx s ex) (child : Body) (inh : List Nat) : U cx (s.newTask child inh).1 ex := by
  unfold State.newTask
  exact h.alloc _ _ rfl rfl rfl rfl (fun _ => ⟨_, rfl⟩)

theorem U.regCtx {s1 : State} (h : U cx s1 none) (cid : Nat) :
    U cx (match s1.active with
      | some a => s1.updTask a fun ts => { ts with ctxs := ts.ctxs ++ [cid] }
      | none => s1) none := by
  split
  · exact h.updTask _ _ (fun _ => rfl) (fun _ => rfl) (fun _ => rfl) (fun _ => rfl)
  · exact h

theorem U.svTouchMatch {s : State} (h : U cx s none) (c : CtxKind) :
    U cx (match c with | .override var _ => s.svTouch var | _ => s) none := by
  split
  · exact h.svTouch _
  · exact h

theorem U.withCtxTail {s0 : State} (h : U cx s0 none) (cid t : Nat) (c : CtxKind) :
    U cx (
      let s := s0.emit (.ctxN cid t c)
      let s := { s with ctxs := s.ctxs ++ [({ kind := c, owner := s.active } : CtxSt)] }
      let s := match s.active with
        | some a => s.updTask a fun ts => { ts with ctxs := ts.ctxs ++ [cid] }
        | none => s
      if c == .nonasync then s else s.ctxResumeOne cid) none := by
  have h1 : U cx (s0.emit (.ctxN cid t c)) none := h.emit _ rfl
  have h2 : U cx { (s0.emit (.ctxN cid t c)) with
      ctxs := (s0.emit (.ctxN cid t c)).ctxs ++ [({ kind := c, owner := (s0.emit (.ctxN cid t c)).active } : CtxSt)] } none :=
    U.of_eq (s := s0.emit (.ctxN cid t c)) h1 rfl rfl
  have h3 := U.regCtx h2 cid
  exact U.ite h3 (h3.ctxResumeOne _)

theorem U.genStep {s : State} (h : U cx s none) (t : Nat) (old : Option Nat) (hk : (s.fut t).kind = .task)
    (hnc : s.computed t = false) (hd : ∀ d ∈ (s.task t).deps, s.computed d = true)
    (hrun : (s.task t).pending = true → ∀ i dc r, chkB cx (W s) (.run t i dc r) = none) :
    U cx (s.genStep t old) none := by
  unfold State.genStep
  simp only []
  split
  · rename_i hp
    split
    · exact h.run _ _ _ _ _ (fun _ => rfl) rfl (fun _ => rfl) (fun _ => .inr rfl) hd (hrun hp _ _ _)
    · rename_i hs
      have hs' : (s.task t).started = true := by simpa using hs
      have hdeps : ∀ x : TaskSt, (if s.cfg.keepDeps = true then x.deps else []) = x.deps ∨
          (if s.cfg.keepDeps = true then x.deps else []) = [] := by
        intro x; split
        · exact .inl rfl
        · exact .inr rfl
      split
      · exact h.run _ _ _ _ _ (fun _ => rfl) hs' (fun _ => rfl) hdeps hd (hrun hp _ _ _)
      · exact h.run _ _ _ _ _ (fun _ => rfl) hs' (fun _ => rfl) hdeps hd (hrun hp _ _ _)
      · exact h.run _ _ _ _ _ (fun _ => rfl) hs' (fun _ => rfl) hdeps hd (hrun hp _ _ _)
      · exact h.run _ _ _ _ _ (fun _ => rfl) hs' (fun _ => rfl) hdeps hd (hrun hp _ _ _)
      · exact h.fail _
  · rename_i hp
    have hp' : (s.task t).pending = false := by simpa using hp
    have hst : (s.task t).started = true := by
      rcases h.ps t (by simp) hp' with h1 | h1
      · exact h1
      · rw [hnc] at h1; cases h1
    have hdy : ∀ ry : RY, ((if s.cfg.keepDeps = true then (s.task t).deps else []) ++ extractFutures ry =
        (s.task t).deps ++ extractFutures ry) ∨
        ((if s.cfg.keepDeps = true then (s.task t).deps else []) ++ extractFutures ry = extractFutures ry) := by
      intro ry; split
      · exact .inl rfl
      · exact .inr rfl
    split
    · exact h.finishTask _ _ _ hp'
    · exact h.finishTask _ _ _ hp'
    · exact h.finishTask _ _ _ hp'
    · exact h.finishTask _ _ _ hp'
    · -- spawn
      exact U.updTask (h.newTask _ _) _ _ (fun _ => rfl) (fun _ => rfl) (fun _ => rfl) (fun _ => rfl)
    · -- item
      rename_i kind payload mode k heq
      have h0 : U cx (match s.curBatch? kind with
          | some _ => s
          | none => { s with batches := s.batches ++ [({ kind := kind, seq := 0 } : Batch)] }) none := by
        split
        · exact h
        · exact U.of_eq (s := s) h rfl rfl
      split
      · exact h0.fail _
      · refine U.updTask ?_ _ _ (fun _ => rfl) (fun _ => rfl) (fun _ => rfl) (fun _ => rfl)
        refine U.updBatch ?_ _ _ _
        exact h0.alloc _ _ rfl rfl rfl rfl (fun hh => by cases hh)
    · -- const
      refine U.updTask ?_ _ _ (fun _ => rfl) (fun _ => rfl) (fun _ => rfl) (fun _ => rfl)
      exact h.alloc _ _ rfl rfl rfl rfl (fun hh => by cases hh)
    · -- errfut
      refine U.updTask ?_ _ _ (fun _ => rfl) (fun _ => rfl) (fun _ => rfl) (fun _ => rfl)
      exact h.alloc _ _ rfl rfl rfl rfl (fun hh => by cases hh)
    · -- lazy
      refine U.updTask ?_ _ _ (fun _ => rfl) (fun _ => rfl) (fun _ => rfl) (fun _ => rfl)
      exact h.alloc _ _ rfl rfl rfl rfl (fun hh => by cases hh)
    · -- yld
      refine U.ite ?_ (U.leaveGen ?_ _ _)
      · exact h.yield t _ _ _ (fun _ => rfl) (fun _ => rfl) (fun _ => rfl) (hdy _) hk hst hd
      · exact h.yield t _ _ _ (fun _ => rfl) (fun _ => rfl) (fun _ => rfl) (hdy _) hk hst hd
    · -- reyld
      refine U.ite ?_ (U.leaveGen ?_ _ _)
      · exact h.yield t _ _ _ (fun _ => rfl) (fun _ => rfl) (fun _ => rfl) (hdy _) hk hst hd
      · exact h.yield t _ _ _ (fun _ => rfl) (fun _ => rfl) (fun _ => rfl) (hdy _) hk hst hd
    · -- sync
      apply U.mk'
      refine U.emit ?_ _ rfl
      exact U.updTask (h.newTask _ _) _ _ (fun _ => rfl) (fun _ => rfl) (fun _ => rfl) (fun _ => rfl)
    · -- syncfut
      rename_i r k hh heq
      have h1 : U cx ((s.updTask t fun ts => { ts with body := .syncret ((s.task t).resolve r) k hh }).emit
          (.syncE t ((s.task t).resolve r))) none := by
        refine U.emit ?_ _ rfl
        exact h.updTask _ _ (fun _ => rfl) (fun _ => rfl) (fun _ => rfl) (fun _ => rfl)
      split
      · exact h1
      · split
        · apply U.mk'; exact h1
        · split
          · split
            · exact h1
            · exact h1.flushBatch _ _
          · exact h1
        · exact h1.complete _ _ (.inl rfl) (chkB_done_ne _ _ _ (lazyOutcome_ne _))
        · exact h1
    · -- syncret
      split
      · exact h.fail _
      · refine U.emit ?_ _ rfl
        refine U.updTask ?_ _ _ (fun _ => rfl) (fun _ => rfl) (fun _ => rfl) (fun _ => rfl)
        exact U.of_eq (s := s) h rfl rfl
      · refine U.emit ?_ _ rfl
        refine U.updTask ?_ _ _ (fun _ => rfl) (fun _ => rfl) (fun _ => rfl) (fun _ => rfl)
        exact U.of_eq (s := s) h rfl rfl
    · -- withCtx
      rename_i c bd k heq
      refine U.updTask ?_ _ _ (fun _ => rfl) (fun _ => rfl) (fun _ => rfl) (fun _ => rfl)
      exact U.withCtxTail (h.svTouchMatch c) _ _ _
    · -- endwith
      split
      · exact h.finishTask _ _ _ hp'
      · exact U.updTask (h.ctxExit _) _ _ (fun _ => rfl) (fun _ => rfl) (fun _ => rfl) (fun _ => rfl)
    · -- read
      refine U.updTask ?_ _ _ (fun _ => rfl) (fun _ => rfl) (fun _ => rfl) (fun _ => rfl)
      exact U.emit (h.svTouch _) _ rfl
    · -- active
      exact U.updTask (h.emit _ rfl) _ _ (fun _ => rfl) (fun _ => rfl) (fun _ => rfl) (fun _ => rfl)

/-! ### the transition function -/

theorem U.finishTop {s : State} (h : U cx s none) (f : Nat) (hret : ∀ o, chkB cx (W s) (.ret o) = none) :
    U cx (s.finishTop f) none := by
  unfold State.finishTop
  simp only []
  refine U.emit ?_ _ rfl
  refine U.emit ?_ _ rfl
  refine U.emitC ?_ _ rfl (hret _)
  exact U.of_eq (s := s) h rfl rfl

theorem U_step {s : State} (h : U cx s none)
    (hgen : ∀ t old rest, s.ctl = .gen t old :: rest →
      (s.fut t).kind = .task ∧ s.computed t = false ∧ ∀ d ∈ (s.task t).deps, s.computed d = true)
    (hrun : ∀ t old rest, s.ctl = .gen t old :: rest → (s.task t).pending = true →
      ∀ i dc r, chkB cx (W s) (.run t i dc r) = none)
    (hflush : ∀ root base rest, s.ctl = .waitLoop root base :: rest → s.stack.length ≤ base →
      ∀ k q its p pd, chkB cx (W s) (.flushB k q its p pd) = none)
    (hret : s.ctl = [] → ∀ o, chkB cx (W s) (.ret o) = none)
    (hsusp : ∀ t, s.computed t = false → (s.task t).deps.any (fun d => !s.computed d) = true →
      (s.task t).depsSched = true → (s.task t).ctxs.any s.ctxIsNonAsync = true → DoneOK cx (W s) t)
    (hz : ∀ t, s.computed t = false → (s.task t).ctxActive = false → (s.task t).ctxs.any s.ctxIsNonAsync = false) :
    U cx (step s) none := by
  unfold step
  split
  · exact h
  · split
    · rename_i hctl
      split
      · rename_i f hcur
        exact h.finishTop f (hret hctl)
      · split
        · exact h
        · simp only []
          apply U.mk'
          refine U.newTask ?_ _ _
          refine U.emit ?_ _ rfl
          exact U.of_eq (s := s) h rfl rfl
    · split
      · exact U.of_eq (s := s) h rfl rfl
      · split
        · exact U.of_eq (s := s) h rfl rfl
        · exact U.of_eq (s := s) h rfl rfl
    · rename_i root base rest hctl
      split
      · exact U.of_eq (s := s) h rfl rfl
      · split
        · exact h.executeIter hsusp hz
        · rename_i hlen
          split
          · exact U.of_eq (s := s) h rfl rfl
          · exact h.schedulerFlush _ (hflush root base rest hctl (Nat.le_of_not_lt hlen))
    · rename_i t old rest hctl
      obtain ⟨hk, hnc, hd⟩ := hgen t old rest hctl
      exact U.ite (h.fail _) (h.genStep t old hk hnc hd (hrun t old rest hctl))

end AsynqModel.Core.P16
