import AsynqModel.Proofs.P1Step
/-!
  Invariants of reachable states used by C05: a flush body in the trace is paid for by a flushed batch (`FI`),
  batch items are allocated futures (`heapB`).
-/
namespace AsynqModel.Core.P1
open AsynqModel.Core

/-- the flush body of `(k, q)` occurs at most once in the trace, and only if batch `(k, q)` exists and is flushed -/
def FI (s : State) : Prop := ∀ k q, cntI k q s.trace ≤ fl s k q

theorem fi_init (cfg : Cfg) (tops : List (Conv × Body)) (choices : List (Nat × Nat)) :
    FI (initState cfg tops choices) := by
  intro k q
  simp [initState, cntI]

theorem fi_mild {be : Bool} {s s' : State} (hm : Mild be s s') (h : FI s) : FI s' := by
  obtain ⟨es, ht, _, hc⟩ := hm.tr
  intro k q
  have := h k q
  have := hc k q
  rw [ht, cntI_append]
  omega

theorem fi_step (s : State) (h : FI s) : FI (step s) := fi_mild (mild_step s) h

theorem fi_reach (s : State) (h : Reach s) : FI s := by
  induction h with
  | init cfg tops choices => exact fi_init cfg tops choices
  | step _ ih => exact fi_step _ ih

theorem heapB_init (cfg : Cfg) (tops : List (Conv × Body)) (choices : List (Nat × Nat)) :
    heapB (initState cfg tops choices) := by
  intro b hb
  simp [initState] at hb

theorem heapB_reach (s : State) (h : Reach s) : heapB s := by
  induction h with
  | init cfg tops choices => exact heapB_init cfg tops choices
  | step _ ih => exact (mild_step _).heap ih

theorem bseq_init (cfg : Cfg) (tops : List (Conv × Body)) (choices : List (Nat × Nat)) :
    BSeq (initState cfg tops choices) := by
  intro k
  simp [initState, kseqs]

theorem bseq_reach (s : State) (h : Reach s) : BSeq s := by
  induction h with
  | init cfg tops choices => exact bseq_init cfg tops choices
  | step _ ih => exact (mild_step _).bseq ih

theorem isI_eq (k q : Nat) :
    (fun e : Event => match e with | .flushI k' q' _ => k' == k && q' == q | _ => false) = isI k q := by
  funext e
  cases e <;> rfl

theorem mem_of_batch? {s : State} {k q : Nat} {b : Batch} (h : s.batch? k q = some b) : b ∈ s.batches :=
  List.mem_of_find?_eq_some h

/-- new events of a step are determined by the two traces -/
theorem new_events_unique {α : Type} {es es' tr : List α} (h : es ++ tr = es' ++ tr) : es = es' :=
  List.append_cancel_right h

end AsynqModel.Core.P1
