import AsynqModel.Proofs.P5Ctx
/-!
  P5: what the context operations leave alone.  `Same`: the control state; `Mono`: futures only grow / complete and
  `ctxActive` flags stay.
-/
namespace AsynqModel.Core.P5
open AsynqModel.Core

structure Same (s s' : State) : Prop where
  ctl : s'.ctl = s.ctl
  active : s'.active = s.active
  stack : s'.stack = s.stack
  raising : s'.raising = s.raising
  guardFired : s'.guardFired = s.guardFired

theorem Same.refl (s : State) : Same s s := ⟨rfl, rfl, rfl, rfl, rfl⟩
theorem Same.trans {s s' s'' : State} (h : Same s s') (h' : Same s' s'') : Same s s'' :=
  ⟨h'.ctl.trans h.ctl, h'.active.trans h.active, h'.stack.trans h.stack, h'.raising.trans h.raising,
    h'.guardFired.trans h.guardFired⟩

structure Mono (s s' : State) : Prop where
  cfg : s'.cfg = s.cfg
  len : s.futs.length ≤ s'.futs.length
  tdeps : ∀ t, (s'.task t).deps = (s.task t).deps ∨ (s'.task t).deps = []
  comp : ∀ f, s.computed f = true → s'.computed f = true
  kind : ∀ f, f < s.futs.length → (s'.fut f).kind = (s.fut f).kind
  tact : ∀ t, (s'.task t).ctxActive = (s.task t).ctxActive
  tsched : ∀ t, (s'.task t).depsSched = true → (s.task t).depsSched = true

theorem Ext.mono {s s' : State} (h : Ext s s') : Mono s s' :=
  ⟨h.cfg, h.len, h.tdeps, h.comp, h.kind, h.tact, h.tsched⟩

theorem Mono.refl (s : State) : Mono s s := (Ext.refl s).mono

theorem Mono.trans {s s' s'' : State} (h : Mono s s') (h' : Mono s' s'') : Mono s s'' := by
  refine ⟨h'.cfg.trans h.cfg, Nat.le_trans h.len h'.len, ?_, fun f hf => h'.comp f (h.comp f hf), ?_,
    fun t => (h'.tact t).trans (h.tact t), fun t ht => h.tsched t (h'.tsched t ht)⟩
  · intro t
    rcases h'.tdeps t with h1 | h1
    · rw [h1]; exact h.tdeps t
    · exact .inr h1
  · intro f hf
    rw [h'.kind f (Nat.lt_of_lt_of_le hf h.len), h.kind f hf]

/-- states with the same futures and configuration -/
theorem Mono.of_eq {s s' : State} (h1 : s'.futs = s.futs) (h2 : s'.cfg = s.cfg) : Mono s s' := by
  have hf : ∀ f, s'.fut f = s.fut f := fun f => by simp [State.fut, h1]
  have ht : ∀ f, s'.task f = s.task f := fun f => by simp [State.task, hf]
  exact ⟨h2, by rw [h1]; exact Nat.le_refl _, fun t => .inl (by rw [ht]),
    fun f hc => by simpa [State.computed, State.out, hf] using hc, fun f _ => by rw [hf], fun t => by rw [ht],
    fun t => by rw [ht]; exact id⟩

theorem mono_updTask (s : State) (t : Nat) (g : TaskSt → TaskSt) (h2 : ∀ x, (g x).ctxActive = x.ctxActive)
    (h4 : ∀ x, (g x).deps = x.deps ∨ (g x).deps = [])
    (h5 : ∀ x, (g x).depsSched = true → x.depsSched = true) : Mono s (s.updTask t g) := by
  refine ⟨rfl, by simp, ?_, fun f hf => by rw [computed_updTask]; exact hf, fun f _ => kind_updTask s t f g,
    fun u => task_updTask_field s t u g (·.ctxActive) h2, ?_⟩
  · intro u
    rw [task_updTask]
    split
    · next h' => rw [h'.1]; exact h4 _
    · exact .inl rfl
  · intro u
    rw [task_updTask]
    split
    · next h' => rw [h'.1]; exact h5 _
    · exact id

/-! ### Same for the helpers -/

theorem same_emit (s : State) (e : Event) : Same s (s.emit e) := ⟨rfl, rfl, rfl, rfl, rfl⟩
theorem same_updTask (s : State) (t : Nat) (g : TaskSt → TaskSt) : Same s (s.updTask t g) := ⟨rfl, rfl, rfl, rfl, rfl⟩
theorem same_complete (s : State) (f : Nat) (o : Outcome) : Same s (s.complete f o) := ⟨rfl, rfl, rfl, rfl, rfl⟩
theorem same_alloc (s : State) (x : Fut) (nk : NewKind) : Same s (s.alloc x nk).1 := ⟨rfl, rfl, rfl, rfl, rfl⟩
theorem same_svSet (s : State) (v a : Nat) : Same s (s.svSet v a) := ⟨by simp, by simp, by simp, by simp, by simp⟩
theorem same_svTouch (s : State) (v : Nat) : Same s (s.svTouch v) := ⟨by simp, by simp, by simp, by simp, by simp⟩
theorem same_fail (s : State) (m : String) : Same s (s.fail m) := ⟨rfl, rfl, rfl, rfl, rfl⟩
theorem same_updBatch (s : State) (k q : Nat) (g : Batch → Batch) : Same s (s.updBatch k q g) := ⟨rfl, rfl, rfl, rfl, rfl⟩

theorem same_switchActive (s : State) (k q : Nat) : Same s (s.switchActive k q) := by
  unfold State.switchActive
  split
  · split
    · exact ⟨rfl, rfl, rfl, rfl, rfl⟩
    · exact Same.refl s
  · exact Same.refl s

theorem same_flushItems (s : State) (kind : Nat) (l : List Nat) : Same s (s.flushItems kind l) := by
  induction l generalizing s with
  | nil => exact Same.refl s
  | cons i is ih =>
    unfold State.flushItems
    refine Same.trans ?_ (ih _)
    split
    · exact Same.refl s
    · split
      · exact same_complete ..
      · exact same_complete ..
      · exact Same.refl s

theorem same_finishItems (s : State) (e : Err) (l : List Nat) : Same s (s.finishItems e l) := by
  induction l generalizing s with
  | nil => exact Same.refl s
  | cons i is ih =>
    unfold State.finishItems
    refine Same.trans ?_ (ih _)
    split
    · exact Same.refl s
    · exact same_complete ..

theorem same_flushBatch (s : State) (k q : Nat) : Same s (s.flushBatch k q) := by
  unfold State.flushBatch
  split
  · exact same_fail ..
  · refine Same.trans ?_ (same_updBatch ..)
    refine Same.trans ?_ (same_emit _ _)
    refine Same.trans ?_ (same_finishItems _ _ _)
    refine Same.trans ?_ (same_flushItems _ _ _)
    refine Same.trans ?_ (same_emit _ _)
    exact same_switchActive s k q

theorem same_setResumed (s : State) (c : Nat) (r : Bool) : Same s (s.ctxSetResumed c r) := by
  unfold State.ctxSetResumed; split <;> exact ⟨rfl, rfl, rfl, rfl, rfl⟩

theorem same_resumeOne (s : State) (c : Nat) : Same s (s.ctxResumeOne c) := by
  unfold State.ctxResumeOne
  have h1 : Same s ((s.emit (.ctx true c)).ctxSetResumed c true) := (same_emit _ _).trans (same_setResumed _ _ _)
  simp only
  split
  · split
    · exact h1.trans ((same_svSet _ _ _).trans ⟨rfl, rfl, rfl, rfl, rfl⟩)
    · exact h1
  · exact h1

theorem same_pauseOne (s : State) (c : Nat) : Same s (s.ctxPauseOne c) := by
  unfold State.ctxPauseOne
  have h1 : Same s ((s.emit (.ctx false c)).ctxSetResumed c false) := (same_emit _ _).trans (same_setResumed _ _ _)
  simp only
  split
  · split
    · exact h1.trans (same_svSet _ _ _)
    · exact h1
  · exact h1

theorem mono_flag {s s' : State} {c : Nat} {b : Bool} (h : FlagOp s s' c b) : Mono s s' := Mono.of_eq h.futs h.cfg

/-! ### ctxExit, exitAll, failSuspended -/

/-- `leave_context`: unregister `c` from task `o` -/
def eraseReg (s : State) (c o : Nat) : State := s.updTask o fun ts => { ts with ctxs := ts.ctxs.erase c }

theorem ctxExit_some (s : State) (c o : Nat) (x : CtxSt) (h : s.ctxs[c]? = some x) (ho : x.owner = some o) :
    s.ctxExit c = (if (x.kind == .nonasync || !(s.task o).ctxActive) then eraseReg s c o
                   else (eraseReg s c o).ctxPauseOne c).emit (.ctxX c) := by
  have ha : ((s.updTask o fun ts => { ts with ctxs := ts.ctxs.erase c }).task o).ctxActive = (s.task o).ctxActive :=
    task_updTask_field s o o _ (·.ctxActive) (fun _ => rfl)
  unfold State.ctxExit State.ctxIsNonAsync eraseReg
  simp only [h, ho, updTask_ctxs, ha]

theorem ctxExit_none (s : State) (c : Nat) (x : CtxSt) (h : s.ctxs[c]? = some x) (ho : x.owner = none) :
    s.ctxExit c = (if x.kind == .nonasync then s else s.ctxPauseOne c).emit (.ctxX c) := by
  unfold State.ctxExit State.ctxIsNonAsync
  simp [h, ho]

theorem ctxExit_missing (s : State) (c : Nat) (h : s.ctxs[c]? = none) :
    s.ctxExit c = (s.ctxPauseOne c).emit (.ctxX c) := by
  unfold State.ctxExit State.ctxIsNonAsync
  simp [h]

theorem same_ctxExit (s : State) (c : Nat) : Same s (s.ctxExit c) := by
  cases h : s.ctxs[c]? with
  | none => rw [ctxExit_missing s c h]; exact (same_pauseOne _ _).trans (same_emit _ _)
  | some x =>
    cases ho : x.owner with
    | none =>
      rw [ctxExit_none s c x h ho]
      refine Same.trans ?_ (same_emit _ _)
      split
      · exact Same.refl s
      · exact same_pauseOne _ _
    | some o =>
      rw [ctxExit_some s c o x h ho]
      refine Same.trans ?_ (same_emit _ _)
      split
      · exact same_updTask ..
      · exact (same_updTask ..).trans (same_pauseOne _ _)

theorem mono_eraseReg (s : State) (c o : Nat) : Mono s (eraseReg s c o) :=
  mono_updTask _ _ _ (fun _ => rfl) (fun _ => .inl rfl) (fun _ h => h)

theorem mono_emit (s : State) (e : Event) : Mono s (s.emit e) := Mono.of_eq rfl rfl

theorem mono_ctxExit (s : State) (c : Nat) : Mono s (s.ctxExit c) := by
  cases h : s.ctxs[c]? with
  | none => rw [ctxExit_missing s c h]; exact (mono_flag (flagOp_pause _ _)).trans (mono_emit _ _)
  | some x =>
    cases ho : x.owner with
    | none =>
      rw [ctxExit_none s c x h ho]
      refine Mono.trans ?_ (mono_emit _ _)
      split
      · exact Mono.refl s
      · exact mono_flag (flagOp_pause _ _)
    | some o =>
      rw [ctxExit_some s c o x h ho]
      refine Mono.trans ?_ (mono_emit _ _)
      split
      · exact mono_eraseReg ..
      · exact (mono_eraseReg ..).trans (mono_flag (flagOp_pause _ _))

theorem same_foldExit (l : List (Nat × Body)) (s : State) : Same s (l.foldl (fun s p => s.ctxExit p.1) s) := by
  induction l generalizing s with
  | nil => exact Same.refl s
  | cons p l ih => exact (same_ctxExit s p.1).trans (ih _)

theorem mono_foldExit (l : List (Nat × Body)) (s : State) : Mono s (l.foldl (fun s p => s.ctxExit p.1) s) := by
  induction l generalizing s with
  | nil => exact Mono.refl s
  | cons p l ih => exact (mono_ctxExit s p.1).trans (ih _)

theorem same_exitAll (s : State) (t : Nat) : Same s (s.exitAll t) := by
  unfold State.exitAll
  exact (same_foldExit _ s).trans (same_updTask ..)

theorem mono_exitAll (s : State) (t : Nat) : Mono s (s.exitAll t) := by
  unfold State.exitAll
  refine Mono.trans ?_ (mono_updTask _ _ _ (fun _ => rfl) (fun _ => .inl rfl) (fun _ h => h))
  exact mono_foldExit _ s

theorem same_failSuspended (s : State) (t : Nat) (e : Err) : Same s (s.failSuspended t e) := by
  unfold State.failSuspended
  split
  · exact Same.refl s
  · exact ((same_exitAll s t).trans (same_updTask ..)).trans (same_complete ..)

theorem mono_failSuspended (s : State) (t : Nat) (e : Err) : Mono s (s.failSuspended t e) := by
  unfold State.failSuspended
  split
  · exact Mono.refl s
  · refine Mono.trans ?_ (ext_complete ..).mono
    refine Mono.trans ?_ (mono_updTask _ _ _ (fun _ => rfl) (fun _ => .inl rfl) (fun _ h => h))
    exact mono_exitAll s t

/-! ### resumeContexts / pauseContexts -/

/-- one round of the loops in `_resume_contexts` (`b = true`) and `_pause_contexts` (`b = false`) -/
def flipOne (b : Bool) (s : State) (c : Nat) : State :=
  if s.ctxIsNonAsync c then s else if b then s.ctxResumeOne c else s.ctxPauseOne c

theorem same_flipOne (b : Bool) (s : State) (c : Nat) : Same s (flipOne b s c) := by
  unfold flipOne
  split
  · exact Same.refl s
  · split
    · exact same_resumeOne ..
    · exact same_pauseOne ..

theorem mono_flipOne (b : Bool) (s : State) (c : Nat) : Mono s (flipOne b s c) := by
  unfold flipOne
  split
  · exact Mono.refl s
  · split
    · exact mono_flag (flagOp_resume ..)
    · exact mono_flag (flagOp_pause ..)

theorem same_foldFlip (b : Bool) (l : List Nat) (s : State) : Same s (l.foldl (flipOne b) s) := by
  induction l generalizing s with
  | nil => exact Same.refl s
  | cons p l ih => exact (same_flipOne b s p).trans (ih _)

theorem mono_foldFlip (b : Bool) (l : List Nat) (s : State) : Mono s (l.foldl (flipOne b) s) := by
  induction l generalizing s with
  | nil => exact Mono.refl s
  | cons p l ih => exact (mono_flipOne b s p).trans (ih _)

theorem resumeContexts_eq (s : State) (t : Nat) :
    s.resumeContexts t =
      if (s.task t).ctxActive then s
      else
        let s1 := (s.task t).ctxs.foldl (flipOne true) (s.updTask t fun ts => { ts with ctxActive := true })
        if (s.task t).ctxs.any s1.ctxIsNonAsync then s1.failSuspended t .nonasync else s1 := by
  unfold State.resumeContexts flipOne
  simp

theorem pauseContexts_eq (s : State) (t : Nat) :
    s.pauseContexts t =
      if !(s.task t).ctxActive then s
      else
        let s1 := (s.task t).ctxs.reverse.foldl (flipOne false) (s.updTask t fun ts => { ts with ctxActive := false })
        if (s.task t).ctxs.any s1.ctxIsNonAsync then s1.failSuspended t .nonasync else s1 := by
  unfold State.pauseContexts flipOne
  simp

theorem same_resumeContexts (s : State) (t : Nat) : Same s (s.resumeContexts t) := by
  rw [resumeContexts_eq]
  split
  · exact Same.refl s
  · simp only
    have h1 := (same_updTask s t fun ts => { ts with ctxActive := true }).trans (same_foldFlip true (s.task t).ctxs _)
    split
    · exact h1.trans (same_failSuspended ..)
    · exact h1

theorem same_pauseContexts (s : State) (t : Nat) : Same s (s.pauseContexts t) := by
  rw [pauseContexts_eq]
  split
  · exact Same.refl s
  · simp only
    have h1 := (same_updTask s t fun ts => { ts with ctxActive := false }).trans
      (same_foldFlip false (s.task t).ctxs.reverse _)
    split
    · exact h1.trans (same_failSuspended ..)
    · exact h1

/-- everything but the `ctxActive` flag of `t` itself -/
structure MonoX (t : Nat) (s s' : State) : Prop where
  cfg : s'.cfg = s.cfg
  len : s.futs.length ≤ s'.futs.length
  tdeps : ∀ u, u ≠ t → (s'.task u).deps = (s.task u).deps ∨ (s'.task u).deps = []
  comp : ∀ f, s.computed f = true → s'.computed f = true
  kind : ∀ f, f < s.futs.length → (s'.fut f).kind = (s.fut f).kind
  tact : ∀ u, u ≠ t → (s'.task u).ctxActive = (s.task u).ctxActive
  tsched : ∀ u, u ≠ t → (s'.task u).depsSched = true → (s.task u).depsSched = true

theorem Mono.monoX {s s' : State} (t : Nat) (h : Mono s s') : MonoX t s s' :=
  ⟨h.cfg, h.len, fun u _ => h.tdeps u, h.comp, h.kind, fun u _ => h.tact u, fun u _ => h.tsched u⟩

theorem monoX_setActive (s : State) (t : Nat) (b : Bool) {s' : State}
    (h : Mono (s.updTask t fun ts => { ts with ctxActive := b }) s') : MonoX t s s' := by
  have h0 : MonoX t s (s.updTask t fun ts => { ts with ctxActive := b }) := by
    refine ⟨rfl, by simp, ?_, fun f hf => by rw [computed_updTask]; exact hf, fun f _ => kind_updTask .., ?_, ?_⟩
    · intro u _; exact .inl (task_updTask_field s t u _ (·.deps) (fun _ => rfl))
    · intro u hu; rw [task_updTask_ne _ _ _ _ hu]
    · intro u hu; rw [task_updTask_ne _ _ _ _ hu]; exact id
  refine ⟨h.cfg.trans h0.cfg, Nat.le_trans h0.len h.len, ?_, fun f hf => h.comp f (h0.comp f hf), ?_, ?_,
    fun u hu hs => h0.tsched u hu (h.tsched u hs)⟩
  · intro u hu
    rcases h.tdeps u with h1 | h1
    · rw [h1]; exact h0.tdeps u hu
    · exact .inr h1
  · intro f hf; rw [h.kind f (Nat.lt_of_lt_of_le hf h0.len), h0.kind f hf]
  · intro u hu; rw [h.tact u, h0.tact u hu]

theorem monoX_resumeContexts (s : State) (t : Nat) : MonoX t s (s.resumeContexts t) := by
  rw [resumeContexts_eq]
  split
  · exact (Mono.refl s).monoX t
  · simp only
    refine monoX_setActive s t true ?_
    have h1 := mono_foldFlip true (s.task t).ctxs (s.updTask t fun ts => { ts with ctxActive := true })
    split
    · exact h1.trans (mono_failSuspended ..)
    · exact h1

theorem monoX_pauseContexts (s : State) (t : Nat) : MonoX t s (s.pauseContexts t) := by
  rw [pauseContexts_eq]
  split
  · exact (Mono.refl s).monoX t
  · simp only
    refine monoX_setActive s t false ?_
    have h1 := mono_foldFlip false (s.task t).ctxs.reverse (s.updTask t fun ts => { ts with ctxActive := false })
    split
    · exact h1.trans (mono_failSuspended ..)
    · exact h1

/-- after `resumeContexts t` the contexts of `t` are active -/
theorem resumeContexts_active (s : State) (t : Nat) (ht : t < s.futs.length) :
    ((s.resumeContexts t).task t).ctxActive = true := by
  rw [resumeContexts_eq]
  split
  · next h => exact h
  · simp only
    have h0 : ((s.updTask t fun ts => { ts with ctxActive := true }).task t).ctxActive = true := by
      rw [task_updTask_self _ _ _ ht]
    have h1 := mono_foldFlip true (s.task t).ctxs (s.updTask t fun ts => { ts with ctxActive := true })
    split
    · rw [(mono_failSuspended ..).tact, h1.tact, h0]
    · rw [h1.tact, h0]

theorem deps_setActive (s : State) (t : Nat) (b : Bool) {s' : State}
    (h : Mono (s.updTask t fun ts => { ts with ctxActive := b }) s') (u : Nat) :
    (s'.task u).deps = (s.task u).deps ∨ (s'.task u).deps = [] := by
  rcases h.tdeps u with h1 | h1
  · rw [h1]; exact .inl (task_updTask_field s t u _ (·.deps) (fun _ => rfl))
  · exact .inr h1

theorem sched_setActive (s : State) (t : Nat) (b : Bool) {s' : State}
    (h : Mono (s.updTask t fun ts => { ts with ctxActive := b }) s') (u : Nat)
    (hs : (s'.task u).depsSched = true) : (s.task u).depsSched = true := by
  have h1 := h.tsched u hs
  have h2 : ((s.updTask t fun ts => { ts with ctxActive := b }).task u).depsSched = (s.task u).depsSched :=
    task_updTask_field s t u _ (·.depsSched) (fun _ => rfl)
  rw [h2] at h1; exact h1

theorem sched_resumeContexts (s : State) (t u : Nat) (hs : ((s.resumeContexts t).task u).depsSched = true) :
    (s.task u).depsSched = true := by
  rw [resumeContexts_eq] at hs
  split at hs
  · exact hs
  · simp only at hs
    refine sched_setActive s t true ?_ u hs
    have h1 := mono_foldFlip true (s.task t).ctxs (s.updTask t fun ts => { ts with ctxActive := true })
    split
    · exact h1.trans (mono_failSuspended ..)
    · exact h1

theorem sched_pauseContexts (s : State) (t u : Nat) (hs : ((s.pauseContexts t).task u).depsSched = true) :
    (s.task u).depsSched = true := by
  rw [pauseContexts_eq] at hs
  split at hs
  · exact hs
  · simp only at hs
    refine sched_setActive s t false ?_ u hs
    have h1 := mono_foldFlip false (s.task t).ctxs.reverse (s.updTask t fun ts => { ts with ctxActive := false })
    split
    · exact h1.trans (mono_failSuspended ..)
    · exact h1

theorem deps_resumeContexts (s : State) (t u : Nat) :
    ((s.resumeContexts t).task u).deps = (s.task u).deps ∨ ((s.resumeContexts t).task u).deps = [] := by
  rw [resumeContexts_eq]
  split
  · exact .inl rfl
  · simp only
    refine deps_setActive s t true ?_ u
    have h1 := mono_foldFlip true (s.task t).ctxs (s.updTask t fun ts => { ts with ctxActive := true })
    split
    · exact h1.trans (mono_failSuspended ..)
    · exact h1

end AsynqModel.Core.P5
