import AsynqModel.Proofs.P27OrdQ
import AsynqModel.Proofs.P27Read
/-!
  P27, C03 (start-order clause) part 3: `P15.stack_mention` and `P15.root_no_obl` without the hypothesis that no
  NonAsyncContext exists.  The root of the outermost `wait_for` is the task of the top-level computation, which nobody
  can name (`P17.G1.rn`) - this replaces the appeal to `P15.aw_reach`, which does need the hypothesis.
-/
namespace AsynqModel.Core.P27
open AsynqModel.Core AsynqModel.Core.Spec AsynqModel.Core.P2 AsynqModel.Core.P14 AsynqModel.Core.P15

/-- a stack entry that has not started is mentioned by a task that is suspended or in a synchronous call -/
theorem stack_mention' {s : State} (h : P10.WSReach s) (hg : s.guardFired = false)
    {p t : Nat} (hp : s.stack[p]? = some t) (hts : (s.task t).started = false)
    {t0 : Nat} {old : Option Nat} {rest : List Ctl} (hc : s.ctl = .gen t0 old :: rest)
    (hp0 : (s.task t0).pending = false) :
    ∃ pa, pa ≠ t0 ∧ (t, pa) ∈ (wOf s.trace).mentions := by
  have pin := pinv_reach h.reach
  have lb := P16.lib'_of_ws h hg
  have j := P16.J_reach' h hg
  have qs := Q_reach' h hg
  have rs := R_reach h.reach
  obtain ⟨L, hL, hlab, _⟩ := j.lab
  have hlen : L.length = s.stack.length := by rw [← hL]; simp
  have hplt : p < s.stack.length := by
    rcases Nat.lt_or_ge p s.stack.length with h1 | h1
    · exact h1
    · rw [List.getElem?_eq_none h1] at hp; cases hp
  -- the label of position `p`
  have hLp : ∃ pa, L[p]? = some (t, pa) := by
    have h1 : (L.map Prod.fst)[p]? = some t := by rw [hL]; exact hp
    rw [List.getElem?_map] at h1
    cases hq : L[p]? with
    | none => rw [hq] at h1; cases h1
    | some x =>
      rw [hq] at h1
      simp only [Option.map_some, Option.some.injEq] at h1
      exact ⟨x.2, by rw [← h1]⟩
  obtain ⟨pa, hpa⟩ := hLp
  have hlink_contra : ∀ b, P12.Link s t b → False := by
    intro b hl
    rcases hl.2 with ⟨_, _, h3⟩ | h3
    · rw [qs.q1 t hts] at h3; cases h3
    · have := rs.np h3.2.1
      rw [hts] at this; cases this
  by_cases hlast : p + 1 = s.stack.length
  · -- bottom entry: the head of the stack is `t0` (started), so there is an entry above it
    have hpat : pa = t := lab_last L hlab p t pa hpa (by rw [hlen]; exact hlast.symm)
    have hd := lb.disc
    rw [hc] at hd
    have hhead : s.stack.head? = some t0 := hd.1
    have hne : t ≠ t0 := by
      intro e
      have := rs.np hp0
      rw [← e, hts] at this; cases this
    have hp1 : 1 ≤ p := by
      rcases Nat.eq_zero_or_pos p with e | e
      · subst e
        cases hs : s.stack with
        | nil => rw [hs] at hp; cases hp
        | cons x xs =>
          rw [hs] at hp hhead
          simp at hp hhead
          exact absurd (hp.symm.trans hhead) hne
      · exact e
    obtain ⟨p0, rfl⟩ : ∃ p0, p = p0 + 1 := ⟨p - 1, by omega⟩
    have : ∃ x, L[p0]? = some x := by
      cases hq : L[p0]? with
      | none => rw [List.getElem?_eq_none_iff] at hq; omega
      | some x => exact ⟨x, rfl⟩
    obtain ⟨⟨b, pb⟩, hb⟩ := this
    obtain ⟨hl, hor⟩ := lab_pos L hlab p0 b pb t pa hb hpa
    rw [hpat] at hor
    have : pb = t := by rcases hor with e | e <;> exact e
    rw [this] at hl
    exact (hlink_contra b hl).elim
  · -- an entry with a parent
    have : ∃ x, L[p + 1]? = some x := by
      cases hq : L[p + 1]? with
      | none => rw [List.getElem?_eq_none_iff] at hq; omega
      | some x => exact ⟨x, rfl⟩
    obtain ⟨⟨b, pb⟩, hb⟩ := this
    obtain ⟨hl, _⟩ := lab_pos L hlab p t pa b pb hpa hb
    refine ⟨pa, ?_, ?_⟩
    · intro e
      rw [e] at hl
      rcases hl.2 with ⟨_, h2, _⟩ | h3
      · rw [hp0] at h2; cases h2
      · have hnd := pin.distinct
        have he := h3.2.2
        rw [hc] at hnd he
        exact P12.not_edgeIn_head hnd he
    · rcases hl.2 with ⟨_, _, h3⟩ | ⟨⟨k, hh, h3⟩, _, _⟩
      · exact qs.q5 pa t h3
      · exact qs.q6 pa t k hh h3

/-- the root `_execute` pushes is under no start-order obligation -/
theorem root_no_obl' {s : State} (h : P10.WSReach s) (hg : s.guardFired = false)
    {root : Nat} {rest : List Ctl} (hc : s.ctl = .waitEnter root :: rest)
    (hts : (s.task root).started = false) {u : Nat} {l : List Nat} (hm : (u, l) ∈ (wOf s.trace).orderObl)
    (hl : root ∈ l) (hse : ¬ elsewhere (wOf s.trace) root) : False := by
  have lb := P16.lib'_of_ws h hg
  have j := P16.J_reach' h hg
  have qs := Q_reach' h hg
  have hmen := obl_mentions s.trace u l hm root hl
  have hkr := qs.q4 u l hm root hl
  -- the mentioner `u` is suspended with `root` among its dependencies
  have hu : s.out u = none ∧ (s.task u).pending = true ∧ root ∈ (s.task u).deps := by
    rcases qs.q9 root u hmen hkr with h1 | h1 | ⟨h1, h2, h3⟩
    · rw [hts] at h1; cases h1
    · exact h1
    · rcases qs.q8 u l hm with c1 | c1 | c1
      · exact absurd h1 c1
      · have := c1 root hl; rw [hts] at this; cases this
      · rw [c1.1] at h2; cases h2
  have hd := lb.disc
  rw [hc] at hd
  rcases hd.1 with e | ⟨v, o, rest', e⟩
  · -- the outermost call: the root of a top-level computation can be named by nobody
    subst e
    have sr := (P13.inv13_of_reach h.reach { (default : Spec.Ctx) with cfg := s.cfg } rfl).sr
    have hb := sr.bur
    rw [hc] at hb
    have htop : (P13.W s).topRoot = some root := sr.top root hb.1
    have g1 := (RA_reach' h hg default).g1
    exact (g1.rn root htop).2 u root ((P10.ws_hinv h).1.deps u root hu.2.2) rfl
  · -- a synchronous call of `v`: then `v` mentions the root too, and `v` is not suspended
    subst e
    have hedge : P12.edgeIn s.ctl v root := by
      rw [hc]; exact P12.edgeIn_head o rest' (P12.isWait_enter root)
    obtain ⟨_, ⟨k, hh, hb⟩, hpv, _⟩ := j.sync v root hedge
    have hmv := qs.q6 v root k hh hb
    have := single_unique hse hmen hmv
    subst this
    rw [hu.2.1] at hpv; cases hpv

end AsynqModel.Core.P27
