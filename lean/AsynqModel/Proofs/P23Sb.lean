import AsynqModel.Proofs.P23Fresh
import AsynqModel.Proofs.P9Max
/-
  P23 (property C08, "the next computation behaves as on a fresh scheduler"), part 5: the set of scheduled batches is
  read only by `_execute` when it meets a batch item (`schedItem`), by `_select_batch_to_flush` (`flushable`) and by
  the snapshot of `finishTop`.  `Q x s` replaces `sbatches` by `x` and erases the `nbatches` count in the snapshots of
  the trace; every other helper of the machine commutes with it.  (Ported from `Proofs/P9Max.lean`, where the same is
  done for `cfg.maxStack`.)
-/
namespace AsynqModel.Core.P23
open AsynqModel.Core AsynqModel.Core.P9

/-- erase the `nbatches` count of a scheduler snapshot -/
def nb0 : Event → Event
  | .sched same n _ live a => .sched same n 0 live a
  | e => e

def Q (sb : List (Nat × Nat)) (s : State) : State := { s with sbatches := sb, trace := s.trace.map nb0 }

section
variable (sb : List (Nat × Nat))

@[simp] theorem Q_fut (s : State) (f : Nat) : (Q sb s).fut f = s.fut f := id rfl
@[simp] theorem Q_task (s : State) (t : Nat) : (Q sb s).task t = s.task t := id rfl
@[simp] theorem Q_out (s : State) : (Q sb s).out = s.out := id rfl
@[simp] theorem Q_computed (s : State) : (Q sb s).computed = s.computed := id rfl
@[simp] theorem Q_batch? (s : State) (k q : Nat) : (Q sb s).batch? k q = s.batch? k q := id rfl
@[simp] theorem Q_curBatch? (s : State) (k : Nat) : (Q sb s).curBatch? k = s.curBatch? k := id rfl
@[simp] theorem Q_ctxs (s : State) : (Q sb s).ctxs = s.ctxs := id rfl
@[simp] theorem Q_sv (s : State) : (Q sb s).sv = s.sv := id rfl
@[simp] theorem Q_ctl (s : State) : (Q sb s).ctl = s.ctl := id rfl
@[simp] theorem Q_stack (s : State) : (Q sb s).stack = s.stack := id rfl
@[simp] theorem Q_active (s : State) : (Q sb s).active = s.active := id rfl
@[simp] theorem Q_choices (s : State) : (Q sb s).choices = s.choices := id rfl
@[simp] theorem Q_raising (s : State) : (Q sb s).raising = s.raising := id rfl
@[simp] theorem Q_stuck (s : State) : (Q sb s).stuck = s.stuck := id rfl
@[simp] theorem Q_curTop (s : State) : (Q sb s).curTop = s.curTop := id rfl
@[simp] theorem Q_tops (s : State) : (Q sb s).tops = s.tops := id rfl
@[simp] theorem Q_topIdx (s : State) : (Q sb s).topIdx = s.topIdx := id rfl
@[simp] theorem Q_keepDeps (s : State) : (Q sb s).cfg.keepDeps = s.cfg.keepDeps := id rfl
@[simp] theorem Q_kind (s : State) (k : Nat) : (Q sb s).cfg.kind k = s.cfg.kind k := id rfl
@[simp] theorem Q_ctxIsNonAsync (s : State) : (Q sb s).ctxIsNonAsync = s.ctxIsNonAsync := id rfl
@[simp] theorem Q_batchPrio (s : State) : (Q sb s).batchPrio = s.batchPrio := id rfl
@[simp] theorem Q_pendingOf (s : State) : (Q sb s).pendingOf = s.pendingOf := id rfl
@[simp] theorem Q_svGet (s : State) : (Q sb s).svGet = s.svGet := id rfl

theorem Q_emit (s : State) (e : Event) (he : nb0 e = e) : Q sb (s.emit e) = (Q sb s).emit e := by
  unfold Q State.emit
  simp only [List.map_cons, he]
theorem Q_fail (s : State) (m : String) : Q sb (s.fail m) = (Q sb s).fail m := rfl
theorem Q_setFut (s : State) (f : Nat) (x : Fut) : Q sb (s.setFut f x) = (Q sb s).setFut f x := rfl
theorem Q_updTask (s : State) (t : Nat) (g : TaskSt → TaskSt) : Q sb (s.updTask t g) = (Q sb s).updTask t g := rfl
theorem Q_updBatch (s : State) (k q : Nat) (g : Batch → Batch) : Q sb (s.updBatch k q g) = (Q sb s).updBatch k q g := rfl
theorem Q_popStack (s : State) : Q sb s.popStack = (Q sb s).popStack := rfl
theorem Q_alloc_fst (s : State) (x : Fut) (nk : NewKind) : Q sb (s.alloc x nk).1 = ((Q sb s).alloc x nk).1 := rfl
theorem Q_alloc_snd (s : State) (x : Fut) (nk : NewKind) : ((Q sb s).alloc x nk).2 = (s.alloc x nk).2 := rfl
theorem Q_complete (s : State) (f : Nat) (o : Outcome) : Q sb (s.complete f o) = (Q sb s).complete f o := rfl
theorem Q_leaveGen (s : State) (t : Nat) (old : Option Nat) : Q sb (s.leaveGen t old) = (Q sb s).leaveGen t old := rfl
theorem Q_raiseOut (s : State) (e : Err) : Q sb (s.raiseOutOfWait e) = (Q sb s).raiseOutOfWait e := rfl
theorem Q_returnFromWait (s : State) : Q sb s.returnFromWait = (Q sb s).returnFromWait := rfl

theorem Q_svSet (s : State) (var val : Nat) : Q sb (s.svSet var val) = (Q sb s).svSet var val := by
  unfold State.svSet
  rw [apply_ite (Q sb)]; rfl

theorem Q_svTouch (s : State) (var : Nat) : Q sb (s.svTouch var) = (Q sb s).svTouch var := by
  unfold State.svTouch
  rw [apply_ite (Q sb)]; rfl

theorem Q_ctxSetResumed (s : State) (c : Nat) (r : Bool) : Q sb (s.ctxSetResumed c r) = (Q sb s).ctxSetResumed c r := by
  unfold State.ctxSetResumed
  simp only [Q_ctxs]
  cases s.ctxs[c]? <;> rfl

theorem Q_ctxResumeOne (s : State) (c : Nat) : Q sb (s.ctxResumeOne c) = (Q sb s).ctxResumeOne c := by
  unfold State.ctxResumeOne
  have h : Q sb ((s.emit (.ctx true c)).ctxSetResumed c true) = ((Q sb s).emit (.ctx true c)).ctxSetResumed c true := by
    rw [Q_ctxSetResumed]; rfl
  dsimp only
  rw [← h]
  generalize (s.emit (.ctx true c)).ctxSetResumed c true = s1
  simp only [Q_ctxs]
  cases s1.ctxs[c]? with
  | none => rfl
  | some x =>
    simp only
    cases x.kind with
    | override var val =>
      simp only
      rw [← Q_svSet]
      rfl
    | plain => rfl
    | nonasync => rfl

theorem Q_ctxPauseOne (s : State) (c : Nat) : Q sb (s.ctxPauseOne c) = (Q sb s).ctxPauseOne c := by
  unfold State.ctxPauseOne
  have h : Q sb ((s.emit (.ctx false c)).ctxSetResumed c false) = ((Q sb s).emit (.ctx false c)).ctxSetResumed c false := by
    rw [Q_ctxSetResumed]; rfl
  dsimp only
  rw [← h]
  generalize (s.emit (.ctx false c)).ctxSetResumed c false = s1
  simp only [Q_ctxs]
  cases s1.ctxs[c]? with
  | none => rfl
  | some x =>
    simp only
    cases x.kind with
    | override var val =>
      simp only
      rw [← Q_svSet]
    | plain => rfl
    | nonasync => rfl

theorem Q_ctxExitAux (s : State) (c : Nat) (owner : Option Nat) :
    Q sb (P3.ctxExitAux s c owner) = P3.ctxExitAux (Q sb s) c owner := by
  unfold P3.ctxExitAux
  cases owner with
  | none =>
    dsimp only
    rw [Q_emit]; rotate_left; exact rfl
    simp only [Q_ctxIsNonAsync]
    rw [apply_ite (Q sb), Q_ctxPauseOne]
  | some o =>
    dsimp only
    rw [← Q_updTask]
    generalize (s.updTask o fun ts => { ts with ctxs := ts.ctxs.erase c }) = s1
    rw [Q_emit]; rotate_left; exact rfl
    simp only [Q_ctxIsNonAsync, Q_task]
    rw [apply_ite (Q sb), Q_ctxPauseOne]

theorem Q_ctxExit (s : State) (c : Nat) : Q sb (s.ctxExit c) = (Q sb s).ctxExit c := by
  rw [P3.ctxExit_eq, P3.ctxExit_eq, Q_ctxExitAux]; rfl

theorem Q_foldl {α : Type} (g : State → α → State) (hg : ∀ s a, Q sb (g s a) = g (Q sb s) a) (l : List α) (s : State) :
    Q sb (l.foldl g s) = l.foldl g (Q sb s) := by
  induction l generalizing s with
  | nil => rfl
  | cons a l ih => simp only [List.foldl_cons]; rw [ih, hg]

theorem Q_exitAll (s : State) (t : Nat) : Q sb (s.exitAll t) = (Q sb s).exitAll t := by
  unfold State.exitAll
  simp only [Q_task]
  rw [Q_updTask, Q_foldl _ _ (fun s p => Q_ctxExit sb s p.1)]

theorem Q_failSuspended (s : State) (t : Nat) (e : Err) : Q sb (s.failSuspended t e) = (Q sb s).failSuspended t e := by
  unfold State.failSuspended
  simp only [Q_computed]
  rw [apply_ite (Q sb), Q_complete, Q_updTask, Q_exitAll]

theorem Q_resumeContexts (s : State) (t : Nat) : Q sb (s.resumeContexts t) = (Q sb s).resumeContexts t := by
  unfold State.resumeContexts
  simp only [Q_task]
  rw [apply_ite (Q sb)]
  congr 1
  have h : Q sb ((s.task t).ctxs.foldl (fun s c => if s.ctxIsNonAsync c then s else s.ctxResumeOne c)
        (s.updTask t fun ts => { ts with ctxActive := true })) =
      (s.task t).ctxs.foldl (fun s c => if s.ctxIsNonAsync c then s else s.ctxResumeOne c)
        ((Q sb s).updTask t fun ts => { ts with ctxActive := true }) := by
    rw [Q_foldl, Q_updTask]
    intro s c
    simp only [Q_ctxIsNonAsync]
    rw [apply_ite (Q sb), Q_ctxResumeOne]
  rw [← h]
  generalize ((s.task t).ctxs.foldl (fun s c => if s.ctxIsNonAsync c then s else s.ctxResumeOne c)
        (s.updTask t fun ts => { ts with ctxActive := true })) = s1
  simp only [Q_ctxIsNonAsync]
  rw [apply_ite (Q sb), Q_failSuspended]

theorem Q_pauseContexts (s : State) (t : Nat) : Q sb (s.pauseContexts t) = (Q sb s).pauseContexts t := by
  unfold State.pauseContexts
  simp only [Q_task]
  rw [apply_ite (Q sb)]
  congr 1
  have h : Q sb ((s.task t).ctxs.reverse.foldl (fun s c => if s.ctxIsNonAsync c then s else s.ctxPauseOne c)
        (s.updTask t fun ts => { ts with ctxActive := false })) =
      (s.task t).ctxs.reverse.foldl (fun s c => if s.ctxIsNonAsync c then s else s.ctxPauseOne c)
        ((Q sb s).updTask t fun ts => { ts with ctxActive := false }) := by
    rw [Q_foldl, Q_updTask]
    intro s c
    simp only [Q_ctxIsNonAsync]
    rw [apply_ite (Q sb), Q_ctxPauseOne]
  rw [← h]
  generalize ((s.task t).ctxs.reverse.foldl (fun s c => if s.ctxIsNonAsync c then s else s.ctxPauseOne c)
        (s.updTask t fun ts => { ts with ctxActive := false })) = s1
  simp only [Q_ctxIsNonAsync]
  rw [apply_ite (Q sb), Q_failSuspended]


/-! ### batches and the scheduler -/

theorem Q_switchActive (s : State) (k q : Nat) : Q sb (s.switchActive k q) = (Q sb s).switchActive k q := by
  unfold State.switchActive
  simp only [Q_curBatch?]
  cases s.curBatch? k with
  | none => rfl
  | some b =>
    simp only
    rw [apply_ite (Q sb)]; rfl

theorem Q_flushItems (s : State) (kind : Nat) (l : List Nat) : Q sb (s.flushItems kind l) = (Q sb s).flushItems kind l := by
  induction l generalizing s with
  | nil => rfl
  | cons i is ih =>
    unfold State.flushItems
    rw [ih]
    congr 1
    simp only [Q_computed, Q_fut]
    rw [apply_ite (Q sb)]
    congr 1
    split <;> rfl

theorem Q_finishItems (s : State) (e : Err) (l : List Nat) : Q sb (s.finishItems e l) = (Q sb s).finishItems e l := by
  induction l generalizing s with
  | nil => rfl
  | cons i is ih =>
    unfold State.finishItems
    rw [ih]
    congr 1
    simp only [Q_computed]
    rw [apply_ite (Q sb), Q_complete]

theorem Q_flushBody (s : State) (kind seq : Nat) (b : Batch) (raises kd : Bool) :
    Q sb (flushBody s kind seq b raises kd) = flushBody (Q sb s) kind seq b raises kd := by
  unfold flushBody
  dsimp only
  rw [Q_updBatch, Q_emit, Q_finishItems, Q_flushItems, Q_emit, Q_switchActive]
  all_goals rfl

theorem Q_flushBatch (s : State) (kind seq : Nat) : Q sb (s.flushBatch kind seq) = (Q sb s).flushBatch kind seq := by
  rw [flushBatch_eq, flushBatch_eq]
  simp only [Q_batch?, Q_kind, Q_keepDeps]
  cases s.batch? kind seq with
  | none => rfl
  | some b => exact Q_flushBody sb _ _ _ _ _ _

theorem Q_newTask_fst (s : State) (child : Body) (inh : List Nat) :
    Q sb (s.newTask child inh).1 = ((Q sb s).newTask child inh).1 := by
  unfold State.newTask
  simp only [Q_fut, Q_active]
  rw [evalBody_cfg (Q sb s).cfg s.cfg rfl]
  rfl

theorem Q_newTask_snd (s : State) (child : Body) (inh : List Nat) :
    ((Q sb s).newTask child inh).2 = (s.newTask child inh).2 := rfl

theorem Q_finishTask (s : State) (t : Nat) (old : Option Nat) (o : Outcome) :
    Q sb (s.finishTask t old o) = (Q sb s).finishTask t old o := by
  unfold State.finishTask
  simp only [Q_computed]
  rw [apply_ite (Q sb), Q_leaveGen, Q_complete, Q_updTask, Q_exitAll]
  rfl

theorem Q_handleCore (s : State) (t : Nat) (blocked dS inF : Bool) (deps : List Nat) :
    Q sb (handleCore s t blocked dS inF deps) = handleCore (Q sb s) t blocked dS inF deps := by
  unfold handleCore
  cases blocked with
  | true =>
    simp only [if_true]
    cases dS with
    | true =>
      simp only [if_true]
      rw [Q_popStack, Q_pauseContexts, Q_updTask]
    | false =>
      simp only [Bool.false_eq_true, if_false]
      rw [← Q_updTask, ← Q_resumeContexts]
      generalize ((s.updTask t fun ts => { ts with depsSched := true }).resumeContexts t) = s1
      rfl
  | false =>
    simp only [Bool.false_eq_true, if_false]
    cases inF with
    | true => rfl
    | false =>
      simp only [Bool.false_eq_true, if_false]
      rw [← Q_resumeContexts]
      rfl

theorem Q_handleTask (s : State) (t : Nat) : Q sb (s.handleTask t) = (Q sb s).handleTask t := by
  rw [handleTask_eq, handleTask_eq]
  exact Q_handleCore sb s t _ _ _ _
/-! ### the instructions of a task body -/

theorem Q_gStart (s : State) (t : Nat) : Q sb (gStart s t) = gStart (Q sb s) t := rfl

theorem Q_gResume (s : State) (t : Nat) (kd : Bool) (i : Nat) (dc : Bool) (r : Except Err Val) (k h : Body) :
    Q sb (gResume s t kd i dc r k h) = gResume (Q sb s) t kd i dc r k h := by
  unfold gResume
  cases r <;> rfl

theorem Q_gSpawn (s : State) (t : Nat) (child : Body) (inh : List Nat) (k : Body) :
    Q sb (gSpawn s t child inh k) = gSpawn (Q sb s) t child inh k := by
  unfold gSpawn
  rw [Q_updTask, Q_newTask_fst, Q_newTask_snd]

theorem Q_gAlloc (s : State) (t : Nat) (x : Fut) (nk : NewKind) (k : Body) :
    Q sb (gAlloc s t x nk k) = gAlloc (Q sb s) t x nk k := rfl

theorem Q_ensureBatch (s : State) (kind : Nat) : Q sb (ensureBatch s kind) = ensureBatch (Q sb s) kind := by
  unfold ensureBatch
  simp only [Q_curBatch?]
  cases s.curBatch? kind <;> rfl

theorem Q_gItem (s : State) (t : Nat) (kind payload : Nat) (mode : ItemMode) (k : Body) :
    Q sb (gItem s t kind payload mode k) = gItem (Q sb s) t kind payload mode k := by
  unfold gItem
  simp only
  rw [← Q_ensureBatch]
  generalize ensureBatch s kind = s1
  simp only [Q_curBatch?]
  cases s1.curBatch? kind with
  | none => rfl
  | some b =>
    simp only
    rw [itemOutcome_cfg (Q sb s1).cfg s1.cfg rfl]
    rfl

theorem Q_gYield (s : State) (t : Nat) (old : Option Nat) (i : Nat) (deps : List Nat) (ry : RY) (g : TaskSt → TaskSt) :
    Q sb (gYield s t old i deps ry g) = gYield (Q sb s) t old i deps ry g := by
  unfold gYield
  simp only
  rw [apply_ite (Q sb)]; rfl

theorem Q_gSync (s : State) (t : Nat) (child : Body) (inh : List Nat) (k h : Body) :
    Q sb (gSync s t child inh k h) = gSync (Q sb s) t child inh k h := by
  unfold gSync
  simp only
  rw [Q_newTask_snd, ← Q_newTask_fst]
  rfl

theorem Q_sfCore (s : State) (f : Nat) (comp : Bool) (k : FKind) (fl : Nat → Nat → Option Bool) :
    Q sb (sfCore s f comp k fl) = sfCore (Q sb s) f comp k fl := by
  unfold sfCore
  cases comp with
  | true => rfl
  | false =>
    simp only [Bool.false_eq_true, if_false]
    cases k with
    | task => rfl
    | item kind seq pl md =>
      simp only
      cases fl kind seq with
      | none => rfl
      | some b =>
        cases b with
        | true => rfl
        | false =>
          simp only [Bool.false_eq_true, if_false]
          exact Q_flushBatch sb _ _ _
    | «lazy» o => rfl
    | const => rfl
    | errfut => rfl

theorem Q_gSyncfut (s : State) (t f : Nat) (k h : Body) :
    Q sb (gSyncfut s t f k h) = gSyncfut (Q sb s) t f k h := by
  rw [gSyncfut_eq, gSyncfut_eq]
  exact Q_sfCore sb _ _ _ _ _

theorem Q_gSyncret (s : State) (t f : Nat) (k h : Body) (o : Option Outcome) :
    Q sb (gSyncret s t f k h o) = gSyncret (Q sb s) t f k h o := by
  unfold gSyncret
  cases o with
  | none => rfl
  | some o => cases o <;> rfl

theorem Q_gWith (s : State) (t : Nat) (c : CtxKind) (b k : Body) :
    Q sb (gWith s t c b k) = gWith (Q sb s) t c b k := by
  unfold gWith
  simp only [Q_ctxs]
  rw [Q_updTask]
  congr 1
  have h1 : Q sb (P3.wc1 s c) = P3.wc1 (Q sb s) c := by
    unfold P3.wc1
    cases c <;> first | rfl | exact Q_svTouch sb _ _
  have h3 : ∀ x : State, Q sb (P3.wc3 x s.ctxs.length t c) = P3.wc3 (Q sb x) s.ctxs.length t c := fun _ => rfl
  have h4 : ∀ x : State, Q sb (P3.wc4 x s.ctxs.length) = P3.wc4 (Q sb x) s.ctxs.length := fun x => by
    unfold P3.wc4
    simp only [Q_active]
    cases x.active <;> rfl
  have h5 : ∀ x : State, Q sb (P3.wc5 x c s.ctxs.length) = P3.wc5 (Q sb x) c s.ctxs.length := fun x => by
    unfold P3.wc5
    rw [apply_ite (Q sb), Q_ctxResumeOne]
  rw [h5, h4, h3, h1]

theorem Q_gEndwith (s : State) (t : Nat) (old : Option Nat) (conts : List (Nat × Body)) :
    Q sb (gEndwith s t old conts) = gEndwith (Q sb s) t old conts := by
  unfold gEndwith
  cases conts with
  | nil => exact Q_finishTask sb _ _ _ _
  | cons p rest =>
    obtain ⟨cid, k⟩ := p
    simp only
    rw [Q_updTask, Q_ctxExit]

theorem Q_gRead (s : State) (t var : Nat) (k : Body) : Q sb (gRead s t var k) = gRead (Q sb s) t var k := by
  unfold gRead
  simp only
  rw [← Q_svTouch]
  rfl

theorem Q_gActive (s : State) (t : Nat) (k : Body) : Q sb (gActive s t k) = gActive (Q sb s) t k := rfl

theorem Q_genStep (s : State) (t : Nat) (old : Option Nat) :
    Q sb (s.genStep t old) = (Q sb s).genStep t old := by
  cases hp : (s.task t).pending with
  | true =>
    cases hs : (s.task t).started with
    | false => rw [genStep_start s t old hp hs, genStep_start (Q sb s) t old hp hs]; rfl
    | true =>
      cases hb : (s.task t).body with
      | yld y k h =>
        rw [genStep_resume_yld s t old y k h hp hs hb, genStep_resume_yld (Q sb s) t old y k h hp hs hb]
        exact Q_gResume sb _ _ _ _ _ _ _ _
      | reyld k h =>
        rw [genStep_resume_reyld s t old k h hp hs hb, genStep_resume_reyld (Q sb s) t old k h hp hs hb]
        exact Q_gResume sb _ _ _ _ _ _ _ _
      | _ =>
        rw [genStep_resume_bad s t old hp hs (by rw [hb]; intros; simp) (by rw [hb]; intros; simp),
          genStep_resume_bad (Q sb s) t old hp hs (by rw [Q_task, hb]; intros; simp) (by rw [Q_task, hb]; intros; simp)]
        rfl
  | false =>
    cases hb : (s.task t).body with
    | ret tag => rw [genStep_ret s t old tag hp hb, genStep_ret (Q sb s) t old tag hp hb]; exact Q_finishTask sb _ _ _ _
    | res tag => rw [genStep_res s t old tag hp hb, genStep_res (Q sb s) t old tag hp hb]; exact Q_finishTask sb _ _ _ _
    | raise e => rw [genStep_raise s t old e hp hb, genStep_raise (Q sb s) t old e hp hb]; exact Q_finishTask sb _ _ _ _
    | reraise => rw [genStep_reraise s t old hp hb, genStep_reraise (Q sb s) t old hp hb]; exact Q_finishTask sb _ _ _ _
    | spawn child pass k =>
      rw [genStep_spawn s t old child pass k hp hb, genStep_spawn (Q sb s) t old child pass k hp hb]
      exact Q_gSpawn sb _ _ _ _ _
    | item kind payload mode k =>
      rw [genStep_item s t old kind payload mode k hp hb, genStep_item (Q sb s) t old kind payload mode k hp hb]
      exact Q_gItem sb _ _ _ _ _ _
    | const v k => rw [genStep_const s t old v k hp hb, genStep_const (Q sb s) t old v k hp hb]; rfl
    | errfut e k => rw [genStep_errfut s t old e k hp hb, genStep_errfut (Q sb s) t old e k hp hb]; rfl
    | «lazy» o k => rw [genStep_lazy s t old o k hp hb, genStep_lazy (Q sb s) t old o k hp hb]; rfl
    | yld y k h =>
      rw [genStep_yld s t old y k h hp hb, genStep_yld (Q sb s) t old y k h hp hb]
      exact Q_gYield sb _ _ _ _ _ _ _
    | reyld k h =>
      rw [genStep_reyld s t old k h hp hb, genStep_reyld (Q sb s) t old k h hp hb]
      exact Q_gYield sb _ _ _ _ _ _ _
    | sync child pass k h =>
      rw [genStep_sync s t old child pass k h hp hb, genStep_sync (Q sb s) t old child pass k h hp hb]
      exact Q_gSync sb _ _ _ _ _ _
    | syncfut r k h =>
      rw [genStep_syncfut s t old r k h hp hb, genStep_syncfut (Q sb s) t old r k h hp hb]
      exact Q_gSyncfut sb _ _ _ _ _
    | syncret f k h =>
      rw [genStep_syncret s t old f k h hp hb, genStep_syncret (Q sb s) t old f k h hp hb]
      exact Q_gSyncret sb _ _ _ _ _ _
    | withCtx c b k =>
      rw [genStep_withCtx s t old c b k hp hb, genStep_withCtx (Q sb s) t old c b k hp hb]
      exact Q_gWith sb _ _ _ _ _
    | endwith =>
      rw [genStep_endwith s t old hp hb, genStep_endwith (Q sb s) t old hp hb]
      exact Q_gEndwith sb _ _ _ _
    | read var k =>
      rw [genStep_read s t old var k hp hb, genStep_read (Q sb s) t old var k hp hb]
      exact Q_gRead sb _ _ _ _
    | active k => rw [genStep_active s t old k hp hb, genStep_active (Q sb s) t old k hp hb]; rfl



end

end AsynqModel.Core.P23
