import AsynqModel.Proofs.P22Seq
/-!
# P22, part 1b: elementary facts about `SeqSV` (`reads`, `await`)
-/
namespace AsynqModel.Core.P22.SeqSV
open AsynqModel.Core

theorem reads_append (a b : List Act) : reads (a ++ b) = reads a ++ reads b := by
  induction a with
  | nil => rfl
  | cons x a ih => cases x <;> simp [reads, ih]

@[simp] theorem reads_nil : reads [] = [] := rfl
@[simp] theorem reads_read (var val : Nat) (l : List Act) : reads (.read var val :: l) = (var, val) :: reads l := rfl
@[simp] theorem reads_call (i : Nat) (c : Body) (ci : List Outcome) (E : SvEnv) (l : List Act) :
    reads (.call i c ci E :: l) = reads l := rfl

theorem await_nil (E : SvEnv) (kids : List (Option (Body × List Outcome))) : await E kids [] = ([], kids) := rfl

theorem await_cons (E : SvEnv) (kids : List (Option (Body × List Outcome))) (i : Nat) (is : List Nat) :
    await E kids (i :: is) =
      match kids[i]? with
      | some (some (b, inh)) => (.call i b inh E :: (await E (kids.set i none) is).1, (await E (kids.set i none) is).2)
      | _ => await E kids is := by
  rw [await]
  split <;> simp_all

/-- an await only calls -/
theorem await_reads (E : SvEnv) : ∀ (is : List Nat) (kids : List (Option (Body × List Outcome))),
    reads (await E kids is).1 = []
  | [], _ => rfl
  | i :: is, kids => by
    rw [await_cons]
    split
    · simp only [reads_call]; exact await_reads E is _
    · exact await_reads E is _

theorem await_length (E : SvEnv) : ∀ (is : List Nat) (kids : List (Option (Body × List Outcome))),
    (await E kids is).2.length = kids.length
  | [], _ => rfl
  | i :: is, kids => by
    rw [await_cons]
    split
    · simp only; rw [await_length E is]; simp
    · exact await_length E is _

/-- after an await the awaited entries have nothing left to run, the others are untouched -/
theorem await_get (E : SvEnv) : ∀ (is : List Nat) (kids : List (Option (Body × List Outcome))) (j : Nat),
    (await E kids is).2[j]? = if j ∈ is then kids[j]?.map (fun _ => none) else kids[j]?
  | [], _, _ => by simp [await_nil]
  | i :: is, kids, j => by
    rw [await_cons]
    split
    · next b inh hk =>
      simp only
      rw [await_get E is]
      by_cases hji : j = i
      · subst hji
        have hlt : j < kids.length := by
          rcases Nat.lt_or_ge j kids.length with h | h
          · exact h
          · rw [List.getElem?_eq_none h] at hk; cases hk
        simp [hk, List.getElem?_set_self hlt]
      · have : (kids.set i none)[j]? = kids[j]? := by rw [List.getElem?_set_ne (fun h => hji h.symm)]
        simp [hji, this]
    · next hk =>
      rw [await_get E is]
      by_cases hji : j = i
      · subst hji
        simp only [List.mem_cons, true_or, if_true]
        split
        · rfl
        · -- kids[j]? is none or some none
          cases hkj : kids[j]? with
          | none => rfl
          | some x =>
            cases x with
            | none => rfl
            | some p => obtain ⟨b, inh⟩ := p; exact absurd hkj (hk b inh)
      · simp [hji]

/-- every awaited entry that still had something to run is called, in the environment of the await -/
theorem await_mem (E : SvEnv) : ∀ (is : List Nat) (kids : List (Option (Body × List Outcome))) (i : Nat) (b : Body)
    (inh : List Outcome), i ∈ is → kids[i]? = some (some (b, inh)) → Act.call i b inh E ∈ (await E kids is).1
  | [], _, _, _, _, h, _ => by cases h
  | i0 :: is, kids, i, b, inh, hm, hk => by
    rw [await_cons]
    by_cases hi : i = i0
    · subst hi
      simp [hk]
    · have hm' : i ∈ is := by
        rcases List.mem_cons.1 hm with h | h
        · exact absurd h hi
        · exact h
      split
      · simp only
        refine List.mem_cons_of_mem _ (await_mem E is _ i b inh hm' ?_)
        rw [List.getElem?_set_ne (fun h => hi h.symm)]; exact hk
      · exact await_mem E is kids i b inh hm' hk

/-- every call of an await: its index was awaited, the entry had that body, the environment is that of the await -/
theorem await_call (E : SvEnv) : ∀ (is : List Nat) (kids : List (Option (Body × List Outcome))) (a : Act),
    a ∈ (await E kids is).1 → ∃ i b inh, a = .call i b inh E ∧ i ∈ is ∧ kids[i]? = some (some (b, inh))
  | [], _, _, h => by cases h
  | i0 :: is, kids, a, h => by
    rw [await_cons] at h
    split at h
    · next b inh hk =>
      simp only [List.mem_cons] at h
      rcases h with rfl | h
      · exact ⟨i0, b, inh, rfl, List.mem_cons_self, hk⟩
      · obtain ⟨i, b', inh', rfl, hi, hk'⟩ := await_call E is _ a h
        have hne : i ≠ i0 := by
          intro e; subst e
          have hlt : i < kids.length := by
            rcases Nat.lt_or_ge i kids.length with h | h
            · exact h
            · rw [List.getElem?_eq_none h] at hk; cases hk
          rw [List.getElem?_set_self hlt] at hk'; cases hk'
        rw [List.getElem?_set_ne (fun h => hne h.symm)] at hk'
        exact ⟨i, b', inh', rfl, List.mem_cons_of_mem _ hi, hk'⟩
    · obtain ⟨i, b', inh', rfl, hi, hk'⟩ := await_call E is _ a h
      exact ⟨i, b', inh', rfl, List.mem_cons_of_mem _ hi, hk'⟩

/-- awaiting the same futures again runs nothing (`reyld`) -/
theorem await_again (E E' : SvEnv) (is : List Nat) (kids : List (Option (Body × List Outcome))) :
    (await E' (await E kids is).2 is).1 = [] := by
  cases h : (await E' (await E kids is).2 is).1 with
  | nil => rfl
  | cons a l =>
    have hm : a ∈ (await E' (await E kids is).2 is).1 := by rw [h]; exact List.mem_cons_self
    obtain ⟨i, b, inh, _, hi, hk⟩ := await_call E' is _ a hm
    rw [await_get E is kids i, if_pos hi] at hk
    cases hkk : kids[i]? with
    | none => rw [hkk] at hk; cases hk
    | some x => rw [hkk] at hk; cases hk

end AsynqModel.Core.P22.SeqSV
