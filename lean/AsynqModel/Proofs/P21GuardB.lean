import AsynqModel.Proofs.P21GuardA
/-
  P21, part 9 (static bound of the scheduler stack, 2): the scheduler stack is a concatenation of SEGMENTS.
  A segment is what one push has left on the stack: the root pushed by `_execute`, or the uncomputed dependencies
  pushed at the first visit of a blocked task.  Every segment has at most `M` entries, and every entry of a segment
  strictly precedes (`P10.lt`: post-order of the creation forest) the topmost entry of the segment below - the task
  that pushed it, or the task whose generator called `wait_for`.  So the heads of the segments form a strictly
  decreasing chain of existing futures, there are at most `futs.length` segments, and the stack has at most
  `futs.length * M` entries.
-/
namespace AsynqModel.Core.P21
open AsynqModel.Core

/-- segments, topmost first -/
def WF (s : State) (M : Nat) : List (List Nat) → Prop
  | [] => True
  | [e] => e ≠ [] ∧ e.length ≤ M
  | e1 :: e2 :: rest =>
    e1 ≠ [] ∧ e1.length ≤ M ∧ (∀ d ∈ e1, ∀ x, e2.head? = some x → P10.lt s d x) ∧ WF s M (e2 :: rest)

def SegInv (s : State) (M : Nat) : Prop := ∃ segs, s.stack = segs.flatten ∧ WF s M segs

theorem wf_head_ne {s : State} {M : Nat} {e : List Nat} {rest : List (List Nat)} (h : WF s M (e :: rest)) :
    e ≠ [] ∧ e.length ≤ M := by
  cases rest with
  | nil => exact h
  | cons e2 rest => exact ⟨h.1, h.2.1⟩

theorem wf_tail {s : State} {M : Nat} {e : List Nat} {rest : List (List Nat)} (h : WF s M (e :: rest)) :
    WF s M rest := by
  cases rest with
  | nil => trivial
  | cons e2 rest => exact h.2.2.2

theorem wf_mono {s r : State} {M : Nat} (g : ∀ a b, P10.lt s a b → P10.lt r a b) :
    ∀ segs, WF s M segs → WF r M segs
  | [], _ => trivial
  | [_], h => h
  | e1 :: e2 :: rest, h => ⟨h.1, h.2.1, fun d hd x hx => g _ _ (h.2.2.1 d hd x hx), wf_mono g (e2 :: rest) h.2.2.2⟩

/-- the head of the flattened stack is the head of the first segment -/
theorem head_flatten {s : State} {M : Nat} {e : List Nat} {rest : List (List Nat)} (h : WF s M (e :: rest)) :
    (e :: rest).flatten.head? = e.head? := by
  have := (wf_head_ne h).1
  cases e with
  | nil => exact absurd rfl this
  | cons a e => simp

/-- a new segment is pushed -/
theorem wf_push {s : State} {M : Nat} {segs : List (List Nat)} (h : WF s M segs) {ds : List Nat} (hne : ds ≠ [])
    (hlen : ds.length ≤ M) (hlt : ∀ d ∈ ds, ∀ x, segs.flatten.head? = some x → P10.lt s d x) : WF s M (ds :: segs) := by
  cases segs with
  | nil => exact ⟨hne, hlen⟩
  | cons e rest =>
    refine ⟨hne, hlen, ?_, h⟩
    intro d hd x hx
    exact hlt d hd x (by rw [head_flatten h]; exact hx)

/-- the top of the stack is popped -/
theorem seg_pop {s : State} {M : Nat} {segs : List (List Nat)} (h : WF s M segs) {top : Nat} {st : List Nat}
    (hst : segs.flatten = top :: st) : ∃ segs', st = segs'.flatten ∧ WF s M segs' := by
  cases segs with
  | nil => simp at hst
  | cons e rest =>
    have hne := (wf_head_ne h).1
    cases e with
    | nil => exact absurd rfl hne
    | cons a e =>
      simp only [List.flatten_cons, List.cons_append] at hst
      injection hst with _ hst
      cases e with
      | nil => exact ⟨rest, by simpa using hst.symm, wf_tail h⟩
      | cons b e =>
        refine ⟨(b :: e) :: rest, by simpa using hst.symm, ?_⟩
        cases rest with
        | nil => exact ⟨by simp, by have := h.2; simp at this ⊢; omega⟩
        | cons e2 rest =>
          refine ⟨by simp, by have := h.2.1; simp at this ⊢; omega, ?_, h.2.2.2⟩
          intro d hd x hx
          exact h.2.2.1 d (List.mem_cons_of_mem _ hd) x hx

/-- the number of entries -/
theorem flatten_length_le {s : State} {M : Nat} : ∀ segs, WF s M segs → segs.flatten.length ≤ segs.length * M
  | [], _ => by simp
  | e :: rest, h => by
    have h1 := (wf_head_ne h).2
    have h2 := flatten_length_le rest (wf_tail h)
    simp only [List.flatten_cons, List.length_append, List.length_cons, Nat.succ_mul]
    omega

/-- the number of segments: their heads are a strictly increasing chain (towards the bottom) of existing futures -/
theorem segs_length_le {s : State} {M N : Nat} (rank : Nat → Nat) (hr : ∀ x y, P10.lt s y x → y < N → rank y < rank x)
    (hN : ∀ x, x < N → rank x < N) :
    ∀ segs, WF s M segs → (∀ e ∈ segs.flatten, e < N) →
      segs.length ≤ N ∧ ∀ e rest, segs = e :: rest → ∀ x, e.head? = some x → rank x + segs.length ≤ N
  | [], _, _ => ⟨Nat.zero_le _, fun _ _ h => by cases h⟩
  | [e], h, hb => by
    have key : ∀ x, e.head? = some x → rank x + 1 ≤ N := by
      intro x hx
      have : x ∈ [e].flatten := by
        cases e with
        | nil => cases hx
        | cons a e => simp at hx; subst hx; simp
      have := hN x (hb x this)
      omega
    refine ⟨?_, fun e' rest he x hx => ?_⟩
    · cases e with
      | nil => exact absurd rfl h.1
      | cons a e => have := key a rfl; simp; omega
    · injection he with he1 he2
      subst he1
      simpa using key x hx
  | e1 :: e2 :: rest, h, hb => by
    have ih := segs_length_le rank hr hN (e2 :: rest) h.2.2.2
      (fun e he => hb e (by simp only [List.flatten_cons, List.mem_append] at he ⊢; exact .inr he))
    have hne2 := (wf_head_ne h.2.2.2).1
    obtain ⟨y, hy⟩ : ∃ y, e2.head? = some y := by
      cases e2 with
      | nil => exact absurd rfl hne2
      | cons a e => exact ⟨a, rfl⟩
    have h2 := ih.2 e2 rest rfl y hy
    have key : ∀ x, e1.head? = some x → rank x + (e1 :: e2 :: rest).length ≤ N := by
      intro x hx
      have hxm : x ∈ e1 := by
        cases e1 with
        | nil => cases hx
        | cons a e => simp at hx; subst hx; simp
      have hlt := h.2.2.1 x hxm y hy
      have hxN : x < N := hb x (by simp only [List.flatten_cons, List.mem_append]; exact .inl hxm)
      have := hr y x hlt hxN
      simp only [List.length_cons] at h2 ⊢
      omega
    refine ⟨?_, fun e' rest' he x hx => ?_⟩
    · cases e1 with
      | nil => exact absurd rfl h.1
      | cons a e => have := key a rfl; omega
    · injection he with he1 he2
      subst he1
      exact key x hx

end AsynqModel.Core.P21
