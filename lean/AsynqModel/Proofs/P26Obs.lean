import AsynqModel.Proofs.P26Main
import AsynqModel.Proofs.P26Strict
/-!
  P26, part 7: from the observer's await relation to paths of names in the machine.

  * `ly_mem`      : an entry of the observer's `lastYield` comes from a `yield` event of the trace;
  * `YN s`        : every future in a structure a task has yielded (a `yield` event of the trace) can be named by that
                    task - an invariant of the runs of well-scoped programs;
  * `edgeIn_of_calls` : the open synchronous calls the observer computes from the control stack are `wait_for` frames on
                    generator frames;
  * `obs_nstar`   : every path the bounded search `Watch.awaitsStar` of the observer finds is a path of names
                    (`NStar`) of the machine.
-/
namespace AsynqModel.Core.P26
open AsynqModel.Core AsynqModel.Core.Spec P5 P7 P12 P16 P17
open AsynqModel.Core.P13 (obs W)
open AsynqModel.Core.P10 (Named)

/-! ### the observer alone -/

theorem ly_mem : ∀ (tr : List Event) (t i : Nat) (y : RY), (obs tr).lastYield.lookup t = some (i, y) →
    Event.yield t i y ∈ tr
  | [], _, _, _, h => by simp [P13.obs] at h
  | e :: tr, t, i, y, h => by
    have ih := ly_mem tr t i y
    rw [P13.obs_cons] at h
    cases e with
    | run f j dc r =>
      rw [lookup_run] at h
      split at h
      · cases h
      · exact List.mem_cons_of_mem _ (ih h)
    | done f o =>
      rw [lookup_done] at h
      split at h
      · cases h
      · exact List.mem_cons_of_mem _ (ih h)
    | yield t' i' y' =>
      rw [P14.yield_lastYield] at h
      by_cases ht : t = t'
      · subst ht
        rw [P14.lookup_insertKV_self] at h
        simp only [Option.some.injEq, Prod.mk.injEq] at h
        obtain ⟨rfl, rfl⟩ := h
        exact List.mem_cons_self
      · rw [P14.lookup_insertKV_ne _ _ _ _ ht] at h
        exact List.mem_cons_of_mem _ (ih h)
    | new f k =>
      rw [P14.new_lastYield] at h
      exact List.mem_cons_of_mem _ (ih h)
    | top _ _ => exact List.mem_cons_of_mem _ (ih (by rwa [quiet_lastYield _ _ rfl] at h))
    | bdone _ _ _ => exact List.mem_cons_of_mem _ (ih (by rwa [quiet_lastYield _ _ rfl] at h))
    | flushB _ _ _ _ _ => exact List.mem_cons_of_mem _ (ih (by rwa [quiet_lastYield _ _ rfl] at h))
    | flushI _ _ _ => exact List.mem_cons_of_mem _ (ih (by rwa [quiet_lastYield _ _ rfl] at h))
    | flushE _ _ => exact List.mem_cons_of_mem _ (ih (by rwa [quiet_lastYield _ _ rfl] at h))
    | ctx _ _ => exact List.mem_cons_of_mem _ (ih (by rwa [quiet_lastYield _ _ rfl] at h))
    | ctxN _ _ _ => exact List.mem_cons_of_mem _ (ih (by rwa [quiet_lastYield _ _ rfl] at h))
    | ctxX _ => exact List.mem_cons_of_mem _ (ih (by rwa [quiet_lastYield _ _ rfl] at h))
    | active _ _ => exact List.mem_cons_of_mem _ (ih (by rwa [quiet_lastYield _ _ rfl] at h))
    | read _ _ _ => exact List.mem_cons_of_mem _ (ih (by rwa [quiet_lastYield _ _ rfl] at h))
    | syncE _ _ => exact List.mem_cons_of_mem _ (ih (by rwa [quiet_lastYield _ _ rfl] at h))
    | syncX _ _ _ => exact List.mem_cons_of_mem _ (ih (by rwa [quiet_lastYield _ _ rfl] at h))
    | ret _ => exact List.mem_cons_of_mem _ (ih (by rwa [quiet_lastYield _ _ rfl] at h))
    | sched _ _ _ _ _ => exact List.mem_cons_of_mem _ (ih (by rwa [quiet_lastYield _ _ rfl] at h))
    | svals _ => exact List.mem_cons_of_mem _ (ih (by rwa [quiet_lastYield _ _ rfl] at h))
    | bad _ => exact List.mem_cons_of_mem _ (ih (by rwa [quiet_lastYield _ _ rfl] at h))

/-! ### names are kept by every step -/

theorem named_step {s : State} (h : P10.WSReach s) {x y : Nat} (hn : Named s x y) : Named (step s) x y := by
  have ht := (P10.ws_hinv h).2
  cases P10.ws_step_sh h with
  | same h _ => exact h.named x y hn
  | top f _ h _ _ => exact (h ht).named x y hn
  | popRaise _ h _ => exact h.named x y hn
  | popEnter _ _ _ h _ => exact h.named x y hn
  | enterLoop _ _ _ _ h _ _ _ => exact h.named x y hn
  | guard _ _ _ _ e => rw [e]; exact hn
  | popStack _ _ _ _ _ _ _ _ _ h _ _ _ _ => exact h.named x y hn
  | pushDeps _ _ _ _ _ _ _ _ _ _ h _ _ _ _ _ _ => exact h.named x y hn
  | enterGen _ _ _ _ _ _ _ _ _ _ h _ => exact h.named x y hn
  | reentrant _ _ _ _ _ _ _ _ _ _ e => rw [e]; exact hn
  | popLoop _ _ _ _ _ _ h _ => exact h.named x y hn
  | flush _ _ _ _ _ _ h _ => exact h.named x y hn
  | genLeave _ _ _ _ h _ => exact h.named x y hn
  | genCall _ _ _ _ _ h _ _ => exact h.named x y hn

/-! ### what was yielded can be named -/

def YN (s : State) : Prop := ∀ t i y, Event.yield t i y ∈ s.trace → ∀ d ∈ y.leaves, Named s t d

theorem stepKind_of_ws {s : State} (h : P10.WSReach s) : P2.StepKind s (step s) := by
  have inv := P2.pinv_reach h.reach
  exact P2.step_kind s inv.items inv.genKind inv.z

theorem YN_step {s : State} (h : P10.WSReach s) (yn : YN s) : YN (step s) := by
  have hir : P10.HInv (step s) := (P10.ws_hinv (.step h)).1
  have old : ∀ t i y, Event.yield t i y ∈ s.trace → ∀ d ∈ y.leaves, Named (step s) t d :=
    fun t i y hm d hd => named_step h (yn t i y hm d hd)
  intro t i y hm d hd
  cases stepKind_of_ws h with
  | quiet q c =>
    obtain ⟨n, e1, e2⟩ := q.trace
    rw [e1] at hm
    rcases List.mem_append.1 hm with hm | hm
    · have := (e2 _ hm).1; simp [P2.isRunYield] at this
    · exact old t i y hm d hd
  | push q t' r b rest h1 h2 ha hca hk hn ho hd' =>
    obtain ⟨n, e1, e2⟩ := q.trace
    rw [e1] at hm
    rcases List.mem_append.1 hm with hm | hm
    · have := (e2 _ hm).1; simp [P2.isRunYield] at this
    · exact old t i y hm d hd
  | run0 t' old' rest g h1 hp hs hg c hc ha =>
    rw [c.trace] at hm
    rcases List.mem_cons.1 hm with hm | hm
    · cases hm
    · exact old t i y hm d hd
  | run t' old' rest g o' h1 hp hs ho hg c hc ha =>
    rw [c.trace] at hm
    rcases List.mem_cons.1 hm with hm | hm
    · cases hm
    · exact old t i y hm d hd
  | yield t' old' rest g ry deps h1 hp hg hsub c hc =>
    rw [c.trace] at hm
    rcases List.mem_cons.1 hm with hm | hm
    · injection hm with e1 e2 e3
      subst e1; subst e3
      have hlt : t < s.futs.length :=
        lt_of_kind_task s t ((P2.pinv_reach h.reach).genKind t (by rw [h1]; simp [P2.gens]))
      have hts : (step s).task t = g (s.task t) := by
        rw [P26.task_of_futs c.futs, P10.task_updTask_self _ _ _ hlt]
      refine hir.lastY t d ?_
      rw [hts, (hg (s.task t)).2.2.2.1]
      exact hd
    · exact old t i y hm d hd

theorem YN_reach {s : State} (h : P10.WSReach s) : YN s := by
  induction h with
  | init cfg tops choices _ => intro t i y hm; simp [initState] at hm
  | @step s hs ih => exact YN_step hs ih

/-- the observer's `lastYield` edges are names -/
theorem ly_named {s : State} (yn : YN s) {t i : Nat} {y : RY} (hl : (W s).lastYield.lookup t = some (i, y))
    {d : Nat} (hd : d ∈ y.leaves) : Named s t d :=
  yn t i y (ly_mem s.trace t i y hl) d hd

/-! ### open synchronous calls -/

theorem edgeIn_of_calls : ∀ (c : List Ctl) (p u : Nat), (p, u) ∈ P13.calls c → edgeIn c p u
  | [], _, _, h => by cases h
  | w :: rest, p, u, h => by
    have ih := edgeIn_of_calls rest p u
    have key : ∀ r, isWait w r → (p, u) ∈ P13.callHead r rest ++ P13.calls rest → edgeIn (w :: rest) p u := by
      intro r hw h
      rcases List.mem_append.1 h with h | h
      · cases rest with
        | nil => cases h
        | cons w' rest' =>
          cases w' with
          | gen t o =>
            simp only [P13.callHead, List.mem_singleton, Prod.mk.injEq] at h
            obtain ⟨rfl, rfl⟩ := h
            exact edgeIn_head o rest' hw
          | waitEnter _ => cases h
          | waitLoop _ _ => cases h
      · exact edgeIn_cons _ (ih h)
    cases w with
    | gen t o => exact edgeIn_cons _ (ih h)
    | waitEnter r => exact key r (.inl rfl) h
    | waitLoop r b => exact key r (.inr ⟨b, rfl⟩) h

/-! ### the observer's search -/

theorem mem_next {w : Watch} {t x : Nat}
    (h : x ∈ (match w.lastYield.lookup t with
      | some (_, y) => y.leaves
      | none => []) ++ (w.syncStack.filterMap fun p => if p.1 == t then some p.2 else none)) :
    (∃ i y, w.lastYield.lookup t = some (i, y) ∧ x ∈ y.leaves) ∨ (t, x) ∈ w.syncStack := by
  rcases List.mem_append.1 h with h | h
  · left
    cases hl : w.lastYield.lookup t with
    | none => rw [hl] at h; cases h
    | some p => obtain ⟨i, y⟩ := p; rw [hl] at h; exact ⟨i, y, rfl, h⟩
  · right
    obtain ⟨⟨a, b⟩, hm, he⟩ := List.mem_filterMap.1 h
    simp only at he
    split at he
    · next hc =>
      cases he
      have : a = t := by simpa using hc
      subst this; exact hm
    · cases he

theorem direct_edge {w : Watch} {t x : Nat} (h : w.awaitsDirect t x = true) :
    (∃ i y, w.lastYield.lookup t = some (i, y) ∧ x ∈ y.leaves) ∨ (t, x) ∈ w.syncStack := by
  unfold Watch.awaitsDirect at h
  rw [Bool.or_eq_true] at h
  rcases h with h | h
  · left
    cases hl : w.lastYield.lookup t with
    | none => rw [hl] at h; cases h
    | some p =>
      obtain ⟨i, y⟩ := p
      rw [hl] at h
      exact ⟨i, y, rfl, List.contains_iff_mem.1 h⟩
  · exact .inr (List.contains_iff_mem.1 h)

/-- every path the observer finds is a path of names -/
theorem obs_nstar {s : State} {w : Watch}
    (hedge : ∀ t x, ((∃ i y, w.lastYield.lookup t = some (i, y) ∧ x ∈ y.leaves) ∨ (t, x) ∈ w.syncStack) →
      Named s t x) : ∀ (k o u : Nat), w.awaitsStar k o u = true → NStar s o u
  | 0, _, _, h => by simp [Watch.awaitsStar] at h
  | k + 1, o, u, h => by
    unfold Watch.awaitsStar at h
    rw [Bool.or_eq_true] at h
    rcases h with h | h
    · exact .tail (.refl o) (hedge o u (direct_edge h))
    · rw [List.any_eq_true] at h
      obtain ⟨x, hx, hc⟩ := h
      simp only [Bool.and_eq_true] at hc
      exact NStar.head (hedge o x (mem_next hx)) (obs_nstar hedge k x u hc.2)

end AsynqModel.Core.P26
