import AsynqModel.Proofs.P1Sched
import AsynqModel.Proofs.P1Seq
/-!
  Every transition of the machine in terms of the frame relations: `Quiet` for everything that does not touch
  batches, `Mild` (flush bodies are paid for by batches becoming flushed) for `genStep` and `step`.
-/
namespace AsynqModel.Core.P1
open AsynqModel.Core

/-! ### allocation as a state transformer -/

def allocS (s : State) (x : Fut) (nk : NewKind) : State := (s.alloc x nk).1
theorem alloc_eq (s : State) (x : Fut) (nk : NewKind) : s.alloc x nk = (allocS s x nk, s.futs.length) := rfl
def newTaskS (s : State) (child : Body) (inh : List Nat) : State := (s.newTask child inh).1
theorem newTask_eq (s : State) (child : Body) (inh : List Nat) :
    s.newTask child inh = (newTaskS s child inh, s.futs.length) := rfl

@[simp] theorem len_allocS (s : State) (x : Fut) (nk : NewKind) : (allocS s x nk).futs.length = s.futs.length + 1 :=
  len_alloc s x nk
@[simp] theorem batches_allocS (s : State) (x : Fut) (nk : NewKind) : (allocS s x nk).batches = s.batches := rfl

namespace Quiet

theorem allocS {s x : State} (h : Quiet s x) (y : Fut) (nk : NewKind) : Quiet s (allocS x y nk) := h.alloc y nk

theorem newTaskS {s x : State} (h : Quiet s x) (child : Body) (inh : List Nat) : Quiet s (newTaskS x child inh) := by
  unfold P1.newTaskS State.newTask
  exact h.alloc _ _

theorem leaveGen {s x : State} (h : Quiet s x) (t : Nat) (old : Option Nat) : Quiet s (x.leaveGen t old) := by
  unfold State.leaveGen
  quiet

theorem finishTask {s x : State} (h : Quiet s x) (t : Nat) (old : Option Nat) (o : Outcome) :
    Quiet s (x.finishTask t old o) := by
  unfold State.finishTask
  split
  · exact h.fail _
  · next hc =>
    refine Quiet.leaveGen ?_ _ _
    refine Quiet.complete ?_ _ _ (by simpa using hc)
    exact (h.exitAll t).updTask _ _

theorem handleTask {s x : State} (h : Quiet s x) (t : Nat) : Quiet s (x.handleTask t) := by
  unfold State.handleTask
  simp only []
  split
  · split
    · exact ((h.updTask _ _).pauseContexts _).popStack
    · exact ((h.updTask _ _).resumeContexts _).congr rfl rfl rfl rfl
  · split
    · exact h.fail _
    · exact (h.resumeContexts _).congr rfl rfl rfl rfl

theorem executeIter {s x : State} (h : Quiet s x) : Quiet s x.executeIter := by
  unfold State.executeIter
  split
  · exact h.fail _
  · split
    · exact h.congr rfl rfl rfl rfl
    · split
      · exact h.popStack
      · next hc =>
        split
        · exact h.handleTask _
        · refine Quiet.popStack ?_
          split
          · split
            · exact h
            · exact h.congr rfl rfl rfl rfl
          · exact h
        · exact (h.complete _ _ (by simpa using hc)).popStack
        · exact h.fail _

theorem finishTop {s x : State} (h : Quiet s x) (f : Nat) : Quiet s (x.finishTop f) := by
  unfold State.finishTop
  simp only []
  refine Quiet.emit ?_ _ (by rfl)
  refine Quiet.emit ?_ _ (by rfl)
  refine Quiet.emit ?_ _ (by rfl)
  exact h.congr rfl rfl rfl rfl

end Quiet

attribute [irreducible] allocS newTaskS

/-- `quiet`, also through the bigger helpers and through `if` / `match` -/
macro "quiet!" : tactic => `(tactic| repeat' (first
  | assumption
  | exact Quiet.refl _
  | refine Quiet.allocS ?_ _ _
  | refine Quiet.newTaskS ?_ _ _
  | refine Quiet.finishTask ?_ _ _ _
  | refine Quiet.leaveGen ?_ _ _
  | refine Quiet.ctxExit ?_ _
  | refine Quiet.ctxResumeOne ?_ _
  | refine Quiet.svSet ?_ _ _
  | refine Quiet.svTouch ?_ _
  | refine Quiet.ctxSetResumed ?_ _ _
  | refine Quiet.popStack ?_
  | refine Quiet.raiseOutOfWait ?_ _
  | refine Quiet.returnFromWait ?_
  | refine Quiet.updTask ?_ _ _
  | refine Quiet.fail ?_ _
  | refine Quiet.emit ?_ _ (by rfl)
  | split
  | refine Quiet.mk' ?_ ..))

/-! ### `Mild`: flush bodies are paid for by batches becoming flushed -/

/-- 1 if the batch `(k, q)` exists and is flushed, else 0 -/
def fl (s : State) (k q : Nat) : Nat :=
  match s.batch? k q with
  | some b => if b.flushed then 1 else 0
  | none => 0

theorem fl_of_batches {s s' : State} (h : s'.batches = s.batches) (k q : Nat) : fl s' k q = fl s k q := by
  simp only [fl, batch?_of_batches h]

theorem fl_le_one (s : State) (k q : Nat) : fl s k q ≤ 1 := by
  unfold fl; split
  · split <;> omega
  · omega

theorem fl_pos {s : State} {k q : Nat} (h : 0 < fl s k q) : ∃ b, s.batch? k q = some b ∧ b.flushed = true := by
  unfold fl at h
  split at h
  · next b hb =>
    split at h
    · next hf => exact ⟨b, hb, hf⟩
    · omega
  · omega

/-- `s'` is `s` plus new events; with `be = false` none of them is a scheduler bracket (`flushB` / `flushE`);
    every new flush body `flushI k q` comes with batch `(k, q)` going from unflushed to flushed; flushed batches stay
    flushed; computed outcomes are kept; batch items stay inside the heap -/
structure Mild (be : Bool) (s s' : State) : Prop where
  tr : ∃ es, s'.trace = es ++ s.trace ∧ (∀ e ∈ es, be = true ∨ isBE e = false) ∧
    ∀ k q, cntI k q es + fl s k q ≤ fl s' k q
  out : ∀ f o, s.out f = some o → s'.out f = some o
  len : s.futs.length ≤ s'.futs.length
  heap : heapB s → heapB s'
  bseq : BSeq s → BSeq s'

namespace Mild

theorem refl (be : Bool) (s : State) : Mild be s s :=
  ⟨⟨[], rfl, by simp, by simp [cntI]⟩, fun _ _ h => h, Nat.le_refl _, id, id⟩

theorem trans {be : Bool} {s x y : State} (h1 : Mild be s x) (h2 : Mild be x y) : Mild be s y := by
  obtain ⟨⟨es1, ht1, hn1, hc1⟩, ho1, hl1, hh1, hq1⟩ := h1
  obtain ⟨⟨es2, ht2, hn2, hc2⟩, ho2, hl2, hh2, hq2⟩ := h2
  refine ⟨⟨es2 ++ es1, by rw [ht2, ht1, List.append_assoc], ?_, ?_⟩, fun f o h => ho2 f o (ho1 f o h),
    Nat.le_trans hl1 hl2, fun h => hh2 (hh1 h), fun h => hq2 (hq1 h)⟩
  · intro e he
    rcases List.mem_append.1 he with h | h
    · exact hn2 e h
    · exact hn1 e h
  · intro k q
    have := hc1 k q
    have := hc2 k q
    rw [cntI_append]
    omega

theorem weaken {s y : State} (h : Mild false s y) (be : Bool) : Mild be s y := by
  obtain ⟨⟨es1, ht1, hn1, hc1⟩, ho1, hl1, hh1, hq1⟩ := h
  refine ⟨⟨es1, ht1, ?_, hc1⟩, ho1, hl1, hh1, hq1⟩
  intro e he
  rcases hn1 e he with h | h
  · cases h
  · exact Or.inr h

theorem ofQuiet {be : Bool} {s y : State} (h : Quiet s y) : Mild be s y := by
  obtain ⟨⟨es, ht, hn⟩, ho, hb, hl, _⟩ := h
  refine ⟨⟨es, ht, fun e he => Or.inr (NF_isBE (hn e he)), ?_⟩, ho, hl, ?_, bseq_of_batches hb⟩
  · intro k q
    rw [cntI_NF k q es hn, fl_of_batches hb]
    omega
  · intro hh b hbm i hi
    rw [hb] at hbm
    exact Nat.lt_of_lt_of_le (hh b hbm i hi) hl

theorem quiet {be : Bool} {s x y : State} (h : Mild be s x) (hq : Quiet x y) : Mild be s y := h.trans (ofQuiet hq)

end Mild

theorem cntI_single (k q k' q' : Nat) (items : List Nat) :
    cntI k' q' [.flushI k q items] = if k = k' ∧ q = q' then 1 else 0 := by
  simp only [cntI, List.filter_cons, isI, List.filter_nil]
  by_cases h : k = k' ∧ q = q'
  · simp [h]
  · have : (k == k' && q == q') = false := by simpa using h
    simp [h, this]

/-- appending the first batch of a kind -/
theorem mild_appendNew (be : Bool) (s : State) (kind : Nat) (hn : s.curBatch? kind = none) :
    Mild be s { s with batches := s.batches ++ [({ kind := kind, seq := 0 } : Batch)] } := by
  refine ⟨⟨[], rfl, by simp, ?_⟩, fun _ _ h => h, Nat.le_refl _, ?_, fun h => bseq_appendNew s kind h hn⟩
  · intro k q
    simp only [cntI, List.filter_nil, List.length_nil, Nat.zero_add]
    unfold fl
    cases hb : s.batch? k q with
    | none => simp
    | some b => rw [batch?_append_some s _ b k q hb]; exact Nat.le_refl _
  · intro hh b hb i hi
    rcases List.mem_append.1 hb with hb | hb
    · exact hh b hb i hi
    · simp only [List.mem_singleton] at hb
      subst hb
      cases hi

/-- adding an allocated item to a batch -/
theorem mild_addItem (be : Bool) (s : State) (k q f : Nat) (hf : f < s.futs.length) :
    Mild be s (s.updBatch k q fun b => { b with items := b.items ++ [f] }) := by
  refine ⟨⟨[], rfl, by simp, ?_⟩, fun _ _ h => h, Nat.le_refl _, ?_,
    bseq_updBatch s k q _ (fun _ => ⟨rfl, rfl⟩)⟩
  · intro k' q'
    simp only [cntI, List.filter_nil, List.length_nil, Nat.zero_add]
    unfold fl
    rw [batch?_updBatch s k q (fun b => { b with items := b.items ++ [f] }) (fun b => ⟨rfl, rfl⟩)]
    by_cases hkq : k' = k ∧ q' = q
    · obtain ⟨rfl, rfl⟩ := hkq
      simp only [and_self, if_true]
      cases s.batch? k' q' <;> simp
    · simp only [hkq, if_false]
      exact Nat.le_refl _
  · intro hh b hb i hi
    simp only [State.updBatch, List.mem_map] at hb
    obtain ⟨b0, hb0, rfl⟩ := hb
    show i < s.futs.length
    split at hi
    · rcases List.mem_append.1 hi with hi | hi
      · exact hh b0 hb0 i hi
      · simp only [List.mem_singleton] at hi
        subst hi
        exact hf
    · exact hh b0 hb0 i hi

/-- a flush of an existing, unflushed batch -/
theorem mild_flushBatch (be : Bool) (s : State) (k q : Nat) (b : Batch) (h : s.batch? k q = some b)
    (hf : b.flushed = false) : Mild be s (s.flushBatch k q) := by
  obtain ⟨mid, ht, hd⟩ := flushBatch_trace s k q b h
  have hmid : ∀ e ∈ mid, NF e = true := fun e he => isDone_NF (hd e he)
  refine ⟨⟨.bdone k q (!(s.cfg.kind k).raises) :: (mid ++ [.flushI k q b.items]), by rw [ht]; simp, ?_, ?_⟩,
    fun f o ho => flushBatch_out_stable s k q f o ho, by simp, flushBatch_heapB s k q, bseq_flushBatch s k q⟩
  · intro e he
    refine Or.inr ?_
    rcases List.mem_cons.1 he with rfl | he
    · rfl
    · rcases List.mem_append.1 he with he | he
      · exact NF_isBE (hmid e he)
      · simp only [List.mem_singleton] at he
        subst he
        rfl
  · intro k' q'
    have hc : cntI k' q' (.bdone k q (!(s.cfg.kind k).raises) :: (mid ++ [.flushI k q b.items])) =
        if k = k' ∧ q = q' then 1 else 0 := by
      have : (.bdone k q (!(s.cfg.kind k).raises) :: (mid ++ [.flushI k q b.items]) : List Event) =
          [.bdone k q (!(s.cfg.kind k).raises)] ++ (mid ++ [.flushI k q b.items]) := rfl
      rw [this, cntI_append, cntI_append, cntI_NF k' q' mid hmid, cntI_single]
      simp [cntI, isI]
    rw [hc]
    by_cases hkq : k = k' ∧ q = q'
    · obtain ⟨rfl, rfl⟩ := hkq
      simp only [and_self, if_true]
      unfold fl
      rw [h, flushBatch_batch?_self s k q b h]
      simp [hf, flushUpd]
    · simp only [hkq, if_false, Nat.zero_add]
      unfold fl
      cases hb' : s.batch? k' q' with
      | none => simp
      | some b' =>
        rw [flushBatch_batch?_other s k q k' q' b' (fun hh => hkq ⟨hh.1.symm, hh.2.symm⟩) hb']
        exact Nat.le_refl _

/-! ### one instruction of a task body -/

theorem mild_syncfutStep (x : State) (f : Nat) : Mild false x (
    if x.computed f then x else
    match (x.fut f).kind with
    | .task => { x with ctl := .waitEnter f :: x.ctl }
    | .item kind seq _ _ =>
      match x.batch? kind seq with
      | some b => if b.flushed then x else x.flushBatch kind seq
      | none => x
    | .lazy o => x.complete f (lazyOutcome o)
    | _ => x) := by
  split
  · exact Mild.refl _ _
  · next hc =>
    split
    · exact Mild.ofQuiet ((Quiet.refl x).congr rfl rfl rfl rfl)
    · split
      · next b hb =>
        split
        · exact Mild.refl _ _
        · next hf => exact mild_flushBatch false x _ _ b hb (by simpa using hf)
      · exact Mild.refl _ _
    · exact Mild.ofQuiet ((Quiet.refl x).complete _ _ (by simpa using hc))
    · exact Mild.refl _ _

theorem mild_itemStep (s : State) (t kind payload : Nat) (mode : ItemMode) (k : Body) : Mild false s (
    let s := match s.curBatch? kind with
      | some _ => s
      | none => { s with batches := s.batches ++ [({ kind := kind, seq := 0 } : Batch)] }
    match s.curBatch? kind with
    | none => s.fail "no batch"
    | some b =>
      let (s, f) := s.alloc { kind := .item kind b.seq payload mode, den := itemOutcome s.cfg kind payload mode } (.item kind b.seq b.items.length payload mode)
      let s := s.updBatch kind b.seq fun b => { b with items := b.items ++ [f] }
      s.updTask t fun ts => { ts with own := ts.own ++ [f], body := k }) := by
  extract_lets s0
  have h0 : Mild false s s0 := by
    simp only [s0]
    split
    · exact Mild.refl _ _
    · next hn => exact mild_appendNew _ _ _ hn
  clear_value s0
  split
  · exact h0.quiet ((Quiet.refl _).fail _)
  · next b hb =>
    simp only [alloc_eq]
    refine Mild.quiet ?_ ((Quiet.refl _).updTask _ _)
    refine Mild.trans ?_ (mild_addItem false _ _ _ _ ?_)
    · exact h0.quiet ((Quiet.refl _).allocS _ _)
    · simp

theorem mild_genStep (s : State) (t : Nat) (old : Option Nat) : Mild false s (s.genStep t old) := by
  unfold State.genStep
  simp only []
  split
  · refine Mild.ofQuiet ?_
    split
    · quiet
    · split <;> quiet
  · split
    case h_6 => exact mild_itemStep s t _ _ _ _
    all_goals try simp only [alloc_eq, newTask_eq]
    case h_1 => exact Mild.ofQuiet ((Quiet.refl s).finishTask _ _ _)
    case h_2 => exact Mild.ofQuiet ((Quiet.refl s).finishTask _ _ _)
    case h_3 => exact Mild.ofQuiet ((Quiet.refl s).finishTask _ _ _)
    case h_4 => exact Mild.ofQuiet ((Quiet.refl s).finishTask _ _ _)
    case h_5 => refine Mild.ofQuiet ?_; quiet!
    case h_7 => refine Mild.ofQuiet ?_; quiet!
    case h_8 => refine Mild.ofQuiet ?_; quiet!
    case h_9 => refine Mild.ofQuiet ?_; quiet!
    case h_10 => refine Mild.ofQuiet ?_; quiet!
    case h_11 => refine Mild.ofQuiet ?_; quiet!
    case h_12 => refine Mild.ofQuiet ?_; quiet!
    case h_13 =>
      refine (Mild.ofQuiet ?_).trans (mild_syncfutStep _ _)
      quiet
    case h_14 => refine Mild.ofQuiet ?_; quiet!
    case h_15 => refine Mild.ofQuiet ?_; quiet!
    case h_16 => refine Mild.ofQuiet ?_; quiet!
    case h_17 => refine Mild.ofQuiet ?_; quiet!
    case h_18 => refine Mild.ofQuiet ?_; quiet!

/-! ### the scheduler flush -/

theorem mem_flushable (s : State) (k q : Nat) :
    (k, q) ∈ s.flushable ↔
      (k, q) ∈ s.sbatches ∧ ∃ b, s.batch? k q = some b ∧ b.items ≠ [] ∧ b.flushed = false := by
  simp only [State.flushable, List.mem_filter]
  constructor
  · rintro ⟨hm, hp⟩
    refine ⟨hm, ?_⟩
    cases hb : s.batch? k q with
    | none => simp [hb] at hp
    | some b =>
      simp only [hb, Bool.and_eq_true, Bool.not_eq_true', List.isEmpty_eq_false_iff] at hp
      exact ⟨b, rfl, hp.1, hp.2⟩
  · rintro ⟨hm, b, hb, hi, hf⟩
    refine ⟨hm, ?_⟩
    simp [hb, hi, hf]

/-- what `admissible` says -/
theorem admissible_spec (s : State) (c : Nat × Nat) (h : s.admissible c = true) :
    c ∈ s.flushable ∧ ∃ b, s.batch? c.1 c.2 = some b ∧
      ∀ k q b', (k, q) ∈ s.flushable → s.batch? k q = some b' →
        prioLt (s.batchPrio b) (s.batchPrio b') = false := by
  simp only [State.admissible, Bool.and_eq_true, List.contains_iff_mem] at h
  obtain ⟨hc, hm⟩ := h
  refine ⟨hc, ?_⟩
  cases hb : s.batch? c.1 c.2 with
  | none => simp [hb] at hm
  | some b =>
    refine ⟨b, rfl, ?_⟩
    simp only [hb, List.all_eq_true] at hm
    intro k q b' hkq hb'
    have := hm (k, q) hkq
    simpa [hb'] using this

theorem schedulerFlush_empty (s : State) (root : Nat) (h : s.flushable = []) :
    s.schedulerFlush root = pruned s root := by
  unfold State.schedulerFlush
  simp only [h, List.isEmpty_nil, if_true]
  simp [pruned, h]

namespace Mild

/-- an event that is not a flush body may always be emitted when brackets are allowed -/
theorem emitBE {s x : State} (h : Mild true s x) (e : Event) (he : ∀ k q, isI k q e = false) :
    Mild true s (x.emit e) := by
  refine h.trans ⟨⟨[e], rfl, fun _ _ => Or.inl rfl, ?_⟩, fun _ _ h => h, Nat.le_refl _, id, id⟩
  intro k q
  simp only [cntI, List.filter_cons, he k q, Bool.false_eq_true, if_false, List.filter_nil, List.length_nil,
    Nat.zero_add]
  exact Nat.le_refl _

end Mild

theorem mild_flushWith (s : State) (root : Nat) (c : Nat × Nat) (b : Batch) (hb : s.batch? c.1 c.2 = some b)
    (hf : b.flushed = false) : Mild true s (flushWith s root c b) := by
  unfold flushWith
  refine Mild.emitBE ?_ _ (fun _ _ => rfl)
  refine Mild.trans ?_ (mild_flushBatch true _ c.1 c.2 b hb hf)
  refine Mild.emitBE ?_ _ (fun _ _ => rfl)
  exact Mild.ofQuiet ((Quiet.refl s).congr rfl rfl rfl rfl)

theorem mild_schedulerFlush (s : State) (root : Nat) : Mild true s (s.schedulerFlush root) := by
  by_cases hfl : s.flushable = []
  · rw [schedulerFlush_empty s root hfl]
    exact Mild.ofQuiet ((Quiet.refl s).congr rfl rfl rfl rfl)
  · rcases schedulerFlush_cases s root hfl with ⟨m, hm, _⟩ | ⟨c, b, _, ha, hb, he⟩
    · rw [hm]
      exact Mild.ofQuiet ((Quiet.refl s).congr rfl rfl rfl rfl)
    · rw [he]
      obtain ⟨hc, b', hb', _⟩ := admissible_spec s c ha
      rw [hb] at hb'
      cases hb'
      obtain ⟨_, b'', hb'', _, hf⟩ := (mem_flushable s c.1 c.2).1 hc
      rw [hb] at hb''
      cases hb''
      exact mild_flushWith s root c b hb hf

/-! ### the transition function -/

/-- the situation in which `step` is a scheduler flush: the innermost frame is `_execute(root)`, its stack is
    exhausted, its root is uncomputed, no exception is propagating -/
def FlushCond (s : State) (root base : Nat) : Prop :=
  (∃ rest, s.ctl = .waitLoop root base :: rest) ∧ s.stuck = none ∧ s.raising = none ∧ s.stack.length ≤ base ∧
    s.computed root = false

theorem step_flush (s : State) (root base : Nat) (h : FlushCond s root base) : step s = s.schedulerFlush root := by
  obtain ⟨⟨rest, hctl⟩, hs, hr, hst, hroot⟩ := h
  unfold step
  have : ¬ (s.stack.length > base) := by omega
  simp [hs, hctl, hr, hroot, this]

/-- every step either emits no scheduler bracket at all, or it is a scheduler flush -/
theorem step_cases (s : State) :
    Mild false s (step s) ∨ ∃ root base, FlushCond s root base ∧ step s = s.schedulerFlush root := by
  unfold step
  split
  · exact Or.inl (Mild.refl _ _)
  · next hst =>
    have hst' : s.stuck = none := by
      cases h : s.stuck <;> simp_all
    split
    · refine Or.inl (Mild.ofQuiet ?_)
      split
      · exact (Quiet.refl s).finishTop _
      · split
        · exact Quiet.refl s
        · simp only [newTask_eq]
          refine Quiet.mk' ?_ ..
          refine Quiet.newTaskS ?_ _ _
          refine Quiet.emit ?_ _ (by rfl)
          exact (Quiet.refl s).congr rfl rfl rfl rfl
    · refine Or.inl (Mild.ofQuiet ?_)
      split
      · exact (Quiet.refl s).raiseOutOfWait _
      · split
        · exact (Quiet.refl s).returnFromWait
        · exact (Quiet.refl s).congr rfl rfl rfl rfl
    · next root base rest hctl =>
      split
      · exact Or.inl (Mild.ofQuiet ((Quiet.refl s).raiseOutOfWait _))
      · next hr =>
        split
        · exact Or.inl (Mild.ofQuiet (Quiet.refl s).executeIter)
        · next hlen =>
          split
          · exact Or.inl (Mild.ofQuiet (Quiet.refl s).returnFromWait)
          · next hroot =>
            refine Or.inr ⟨root, base, ⟨⟨rest, hctl⟩, hst', ?_, by omega, by simpa using hroot⟩, rfl⟩
            cases h : s.raising <;> simp_all
    · split <;> split <;>
        first | exact Or.inl (Mild.ofQuiet ((Quiet.refl s).fail _)) | exact Or.inl (mild_genStep s _ _)

theorem mild_step (s : State) : Mild true s (step s) := by
  rcases step_cases s with h | ⟨root, base, _, he⟩
  · exact h.weaken true
  · rw [he]; exact mild_schedulerFlush s root

/-- `stuck` is sticky -/
theorem step_stuck (s : State) (m : String) (h : s.stuck = some m) : step s = s := by
  unfold step
  simp [h]

theorem stuck_of_step (s : State) (h : (step s).stuck = none) : s.stuck = none := by
  cases hs : s.stuck with
  | none => rfl
  | some m => rw [step_stuck s m hs, hs] at h; cases h

end AsynqModel.Core.P1
