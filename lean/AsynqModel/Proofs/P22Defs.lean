import AsynqModel.Proofs.P22Seq
import AsynqModel.Proofs.P4Step
import AsynqModel.Proofs.P7Defs
/-!
# P22, part 2: the simulation invariant between the machine and `SeqSV` (definitions)

* `Info` / `Ghost`: for every task that has been CALLED (first awaited; the roots of top-level computations count as
  called when they are created) the ghost map records the index of its top-level computation, its creation path, its
  body and inherited outcomes at the time of the call, and the scoped-value environment it was called in.
* `envOf s E cs`: the environment `E` extended by the overrides among the contexts `cs` (innermost first).
* `rest cfg s g t E`: the actions `SeqSV.runBody` produces for the REST of task `t` (current body, then the
  continuations of its open with-blocks), run in the environment the task was called in, extended by its open blocks.
* `mreads t tr`: the `(var, value)` pairs of the `.read t` events of a trace (stored newest first), oldest first.
* `Sim`: the invariant.
-/
namespace AsynqModel.Core.P22
open AsynqModel.Core AsynqModel.Core.P22.SeqSV

structure Info where
  k : Nat
  ρ : Path
  b : Body
  inh : List Outcome
  E : SvEnv
  deriving Inhabited

abbrev Ghost := Nat → Option Info

/-- the override context `c` holds, if it is one -/
def ovOf (s : State) (c : Nat) : Option (Nat × Nat) :=
  match P7.kindOf s c with
  | .override var val => some (var, val)
  | _ => none

def ovs (s : State) (cs : List Nat) : SvEnv := cs.filterMap (ovOf s)

/-- `E` extended by the overrides among the contexts `cs` (innermost first) -/
def envOf (s : State) (E : SvEnv) (cs : List Nat) : SvEnv := ovs s cs ++ E

/-- the ids of the open with-blocks of a task, innermost first -/
def cids (ts : TaskSt) : List Nat := ts.conts.map (·.1)

/-- own future `f` as the sequential evaluator sees it: a task that has not been called yet, or nothing to run -/
def kidOf (s : State) (g : Ghost) (f : Nat) : Option (Body × List Outcome) :=
  match g f with
  | some _ => none
  | none =>
    match (s.fut f).kind with
    | .task => some ((s.task f).body, Inv.dens s (s.task f).inh)
    | _ => none

def locOf (s : State) (g : Ghost) (ts : TaskSt) : Loc :=
  { env := ts.env, own := Inv.dens s ts.own, kids := ts.own.map (kidOf s g), caught := ts.caught, prev := ts.prevYRef }

/-- the continuations of the open with-blocks, each in the environment of the blocks around it -/
def runFrames (cfg : Cfg) (s : State) (E : SvEnv) (inh : List Outcome) : List (Nat × Body) → Res → List Act
  | _, .done _ => []
  | [], .fall _ => []
  | (_, k) :: fr, .fall l =>
    let r := runBody cfg k (envOf s E (fr.map (·.1))) inh l
    r.1 ++ runFrames cfg s E inh fr r.2

/-- the current body of the task up to the end of the innermost open with-block, on evaluated data: the current
    environment `Ec`, the denotations `den`, whether the task is suspended at a yield (`pend`), its body, the outcomes
    it inherited and its local state -/
def headD (cfg : Cfg) (Ec : SvEnv) (den : Nat → Outcome) (pend : Bool) (body : Body) (inh : List Outcome) (l : Loc) :
    List Act × Res :=
  if pend then
    -- suspended at a yield: everything in the yielded structure has been called; what remains is the resumption
    match body with
    | .yld _ k h =>
      (match unwrap (resolveO l.own inh) l.prev with
       | .ok v => runBody cfg k Ec inh { l with env := l.env ++ [v] }
       | .error e => runBody cfg h Ec inh { l with caught := some e })
    | .reyld k h =>
      (match unwrap (resolveO l.own inh) l.prev with
       | .ok v => runBody cfg k Ec inh { l with env := l.env ++ [v] }
       | .error e => runBody cfg h Ec inh { l with caught := some e })
    | _ => ([], .done (.err .other))
  else
    match body with
    | .syncret f k h =>
      (match den f with
       | .ok v => runBody cfg k Ec inh { l with env := l.env ++ [v] }
       | .err e => runBody cfg h Ec inh { l with caught := some e })
    | b => runBody cfg b Ec inh l

def headRun (cfg : Cfg) (s : State) (g : Ghost) (ts : TaskSt) (E : SvEnv) : List Act × Res :=
  headD cfg (envOf s E (cids ts)) (fun f => (s.fut f).den) (ts.pending && ts.started) ts.body (Inv.dens s ts.inh)
    (locOf s g ts)

/-- the actions of the rest of task `t`, called in environment `E` -/
def rest (cfg : Cfg) (s : State) (g : Ghost) (t : Nat) (E : SvEnv) : List Act :=
  if s.computed t then []
  else
    let r := headRun cfg s g (s.task t) E
    r.1 ++ runFrames cfg s E (Inv.dens s (s.task t).inh) (s.task t).conts r.2

/-- the reads of task `t` in a trace (newest first), oldest first -/
def rdEv (t : Nat) : Event → Option (Nat × Val)
  | .read t' var v => if t' = t then some (var, v) else none
  | _ => none

def mreads (t : Nat) (tr : List Event) : List (Nat × Val) := tr.reverse.filterMap (rdEv t)

def rdVal (p : Nat × Nat) : Nat × Val := (p.1, .a p.2)

/-- the roots of the top-level computations in a trace (newest first), oldest first -/
def rootEv : Event → Option Nat
  | .new f (.task none) => some f
  | _ => none

def roots (tr : List Event) : List Nat := tr.reverse.filterMap rootEv

/-- no future is handed to a child (`= !Spec.bodyShares`, see `ns_eq`) -/
def ns : Body → Bool
  | .spawn c p k => p.isEmpty && ns c && ns k
  | .sync c p k h => p.isEmpty && ns c && ns k && ns h
  | .syncfut _ k h => ns k && ns h
  | .item _ _ _ k => ns k
  | .const _ k => ns k
  | .errfut _ k => ns k
  | .lazy _ k => ns k
  | .yld _ k h => ns k && ns h
  | .reyld k h => ns k && ns h
  | .withCtx _ b k => ns b && ns k
  | .read _ k => ns k
  | .active k => ns k
  | _ => true

/-- the rest of a task (its body, or the two continuations of the synchronous call it is in, and the continuations
    of its open with-blocks) is `ns` -/
def nsBC (b : Body) (cs : List (Nat × Body)) : Prop :=
  (match b with
   | .syncret _ k h => ns k = true ∧ ns h = true
   | b => ns b = true) ∧ ∀ c ∈ cs, ns c.2 = true

theorem nsBC_plain {b : Body} {cs : List (Nat × Body)} (hb : ns b = true) (hn : ∀ f k c, b ≠ .syncret f k c)
    (hc : ∀ c ∈ cs, ns c.2 = true) : nsBC b cs := by
  refine ⟨?_, hc⟩
  split
  · next f k h => exact absurd rfl (hn f k h)
  · exact hb

theorem nsBC_body {b : Body} {cs : List (Nat × Body)} (h : nsBC b cs) (hn : ∀ f k c, b ≠ .syncret f k c) : ns b = true := by
  have := h.1
  split at this
  · next f k c => exact absurd rfl (hn f k c)
  · exact this

/-- the ghost only grows -/
def GExt (g g' : Ghost) : Prop := ∀ u iu, g u = some iu → g' u = some iu

theorem GExt.refl (g : Ghost) : GExt g g := fun _ _ h => h
theorem GExt.trans {a b c : Ghost} (h1 : GExt a b) (h2 : GExt b c) : GExt a c := fun u iu h => h2 u iu (h1 u iu h)

/-- a task that has not started is as `newTask` made it -/
structure Fresh (ts : TaskSt) : Prop where
  pending : ts.pending = true
  conts : ts.conts = []
  env : ts.env = []
  own : ts.own = []
  caught : ts.caught = none
  prev : ts.prevYRef = .none
  deps : ts.deps = []
  prevY : ts.prevY = .none
  nosync : ∀ f k h, ts.body ≠ .syncret f k h

/-- the simulation invariant (for the run of `tops` under `cfg`) -/
structure Sim (cfg : Cfg) (tops : List (Conv × Body)) (s : State) (g : Ghost) : Prop where
  /-- only tasks are called -/
  dom : ∀ u iu, g u = some iu → (s.fut u).kind = .task
  /-- a task that has not been called has not started; a task that has not started is fresh and has read nothing -/
  unst : ∀ u, (s.fut u).kind = .task → g u = none → (s.task u).started = false
  fresh : ∀ u, (s.fut u).kind = .task → (s.task u).started = false →
    Fresh (s.task u) ∧ s.computed u = false ∧ mreads u s.trace = []
  /-- called, not started: the recorded body is the body -/
  called : ∀ u iu, g u = some iu → (s.task u).started = false →
    iu.b = (s.task u).body ∧ iu.inh = Inv.dens s (s.task u).inh
  /-- the actions of a called task: what it has done so far, then the rest -/
  split : ∀ u iu, g u = some iu →
    ∃ pre, acts cfg iu.b iu.inh iu.E = pre ++ rest cfg s g u iu.E ∧ (reads pre).map rdVal = mreads u s.trace ∧
      ∀ i c ci E', Act.call i c ci E' ∈ pre →
        ∃ v iv, (s.task u).own[i]? = some v ∧ g v = some iv ∧ iv.b = c ∧ iv.inh = ci ∧ iv.E = E'
  /-- creation paths; the call is an action of the creator -/
  path : ∀ (p i u : Nat) (iu : Info), (s.fut p).kind = .task → (s.task p).own[i]? = some u → g u = some iu →
    ∃ ip, g p = some ip ∧ iu.k = ip.k ∧ iu.ρ = ip.ρ ++ [i] ∧ Act.call i iu.b iu.inh iu.E ∈ acts cfg ip.b ip.inh ip.E
  /-- a called task that is not finished runs in the CURRENT environment of its creator -/
  env : ∀ (p i u : Nat) (iu ip : Info), (s.fut p).kind = .task → (s.task p).own[i]? = some u → g u = some iu → g p = some ip → s.computed u = false →
    iu.E = envOf s ip.E (cids (s.task p))
  /-- ... which is waiting for it -/
  waits : ∀ (p i u : Nat), (s.fut p).kind = .task → (s.task p).own[i]? = some u → g u ≠ none → s.computed u = false →
    s.computed p = false ∧
    (((s.task p).pending = true ∧ (s.task p).started = true ∧ u ∈ (s.task p).lastY.leaves) ∨
     ((s.task p).pending = false ∧ ∃ k h, (s.task p).body = .syncret u k h))
  /-- roots -/
  root : ∀ u iu, g u = some iu → iu.ρ = [] → iu.E = [] ∧ iu.inh = [] ∧ ∃ conv, tops[iu.k]? = some (conv, iu.b)
  rootTr : ∀ (k r : Nat), (roots s.trace)[k]? = some r → ∃ iu, g r = some iu ∧ iu.k = k ∧ iu.ρ = []
  rootLen : (roots s.trace).length = s.topIdx
  cur : ∀ r, s.curTop = some r → ∃ iu, g r = some iu ∧ iu.ρ = []
  /-- own lists are disjoint -/
  ownInj : ∀ (p q i j u : Nat), (s.fut p).kind = .task → (s.fut q).kind = .task → (s.task p).own[i]? = some u → (s.task q).own[j]? = some u → p = q ∧ i = j
  /-- tree shape -/
  inh : ∀ u, (s.fut u).kind = .task → (s.task u).inh = []
  nsB : ∀ u, (s.fut u).kind = .task → nsBC (s.task u).body (s.task u).conts
  tops : s.tops = tops.drop s.topIdx
  sync : ∀ p f k h, (s.fut p).kind = .task → (s.task p).body = .syncret f k h → s.computed p = false →
    f ∈ (s.task p).own ∧ ((s.fut f).kind = .task → g f ≠ none)
  rdLt : ∀ u var v, Event.read u var v ∈ s.trace → u < s.futs.length
  /-- whatever a task has awaited has been called -/
  depsCalled : ∀ p d, (s.fut p).kind = .task → d ∈ (s.task p).deps → (s.fut d).kind = .task → g d ≠ none
  prevCalled : ∀ p d, (s.fut p).kind = .task → d ∈ (s.task p).prevY.leaves → (s.fut d).kind = .task → g d ≠ none

end AsynqModel.Core.P22
