import AsynqModel.Proofs.P23Item
import AsynqModel.Proofs.P13C08
/-
  P23 (property C08), part 2: no batch with pending items stays scheduled when an outermost call returns.

  `InvS`: every scheduled batch `(k, q)` has a witness - an item of kind `(k, q)` that is computed, or is uncomputed
  and *supported*: the root of a `wait_for` in progress or awaited (`_dependencies`) by an uncompleted task.
  (A batch is scheduled when `_execute` meets one of its items on the task stack, and stack entries are supported:
  `P20.InvL`.)  When no `wait_for` is in progress nothing is supported (`P20.no_started_left`), so the witness is
  computed, so (`K`) its batch is flushed.
-/
namespace AsynqModel.Core.P23
open AsynqModel.Core AsynqModel.Core.P6 AsynqModel.Core.P6T AsynqModel.Core.P20

/-! ### where scheduled batches come from -/

theorem sb_schedulerFlush (s : State) (root : Nat) : ∀ c ∈ (s.schedulerFlush root).sbatches, c ∈ s.sbatches := by
  have hsub : ∀ c ∈ s.flushable, c ∈ s.sbatches := fun c hc => (List.mem_filter.1 hc).1
  by_cases hfl : s.flushable = []
  · rw [P1.schedulerFlush_empty s root hfl]
    intro c hc
    exact hsub c hc
  · rcases P1.schedulerFlush_cases s root hfl with ⟨m, hm, _⟩ | ⟨c, b, _, _, _, he⟩
    · rw [hm]
      intro c hc
      exact hsub c hc
    · rw [he]
      unfold P1.flushWith
      intro c' hc'
      rw [sb_emit, sb_flushBatch, sb_emit] at hc'
      exact hsub c' (List.mem_of_mem_erase hc')

/-- a batch gets scheduled only when `_execute` finds one of its uncomputed items on top of the task stack -/
theorem sb_step_new (s : State) : ∀ c ∈ (step s).sbatches, c ∈ s.sbatches ∨
    ∃ top st p m, s.stack = top :: st ∧ s.computed top = false ∧ (s.fut top).kind = .item c.1 c.2 p m := by
  unfold step
  split
  · intro c hc; exact Or.inl hc
  · split
    · split
      · intro c hc; exact Or.inl hc
      · split
        · intro c hc; exact Or.inl hc
        · intro c hc; exact Or.inl hc
    · split
      · intro c hc; exact Or.inl hc
      · split
        · intro c hc; exact Or.inl hc
        · intro c hc; exact Or.inl hc
    · rename_i root base rest hctl
      split
      · intro c hc; exact Or.inl hc
      · split
        · unfold State.executeIter
          split
          · intro c hc; exact Or.inl hc
          · rename_i top st hstk
            split
            · intro c hc; simp [State.raiseOutOfWait] at hc
            · split
              · intro c hc; exact Or.inl hc
              · rename_i hcomp
                split
                · intro c hc; rw [sb_handleTask] at hc; exact Or.inl hc
                · rename_i kind seq p m hk
                  intro c hc
                  split at hc
                  · split at hc
                    · exact Or.inl hc
                    · simp only [State.popStack, List.mem_append, List.mem_singleton] at hc
                      rcases hc with hc | hc
                      · exact Or.inl hc
                      · subst hc
                        exact Or.inr ⟨top, st, p, m, hstk, by simpa using hcomp, hk⟩
                  · exact Or.inl hc
                · intro c hc; exact Or.inl hc
                · intro c hc; exact Or.inl hc
        · split
          · intro c hc; exact Or.inl hc
          · intro c hc; exact Or.inl (sb_schedulerFlush s root c hc)
    · intro c hc
      refine Or.inl ?_
      revert hc
      repeat' split
      all_goals first | exact id | (rw [sb_genStep]; exact id)

/-! ### the invariant -/

/-- supported: the root of a `wait_for` in progress, or awaited by an uncompleted task -/
def Sup (s : State) (x : Nat) : Prop := RootIn s x ∨ ∃ u, Aw s u x

/-- every scheduled batch has a witness item that is computed or supported -/
def InvS (s : State) : Prop :=
  ∀ k q, (k, q) ∈ s.sbatches → ∃ i p m, (view s i).kind = .item k q p m ∧ ((view s i).out ≠ none ∨ Sup s i)

theorem invS_init (cfg : Cfg) (tops : List (Conv × Body)) (choices : List (Nat × Nat)) :
    InvS (initState cfg tops choices) := by
  intro k q h
  cases h

theorem kind_step {s : State} (h : Good s) (i : Nat) (hi : i < s.futs.length) :
    (view (step s) i).kind = (view s i).kind :=
  ((P10.ws_step_sh h.ws).base (P10.ws_hinv h.ws).2).kind i hi

theorem invS_step {s : State} (h : GoodL s) (hS : InvS s) (l : LStep s (step s)) : InvS (step s) := by
  have transfer : ∀ x, Sup s x → (view (step s) x).out = none → Sup (step s) x := by
    intro x h1 hx
    rcases h1 with h1 | ⟨u, h1⟩
    · exact Or.inl (l.root x h1 hx)
    · exact Or.inr ⟨u, l.aw u x h1 hx⟩
  have keep : ∀ i k q p m, (view s i).kind = .item k q p m → ((view s i).out ≠ none ∨ Sup s i) →
      (view (step s) i).kind = .item k q p m ∧ ((view (step s) i).out ≠ none ∨ Sup (step s) i) := by
    intro i k q p m hk hw
    have hlt : i < s.futs.length := by
      refine Nat.lt_of_not_le fun hle => ?_
      rw [view_ge s i hle] at hk
      cases hk
    refine ⟨by rw [kind_step h.good i hlt]; exact hk, ?_⟩
    cases ho : (view (step s) i).out with
    | some o => exact Or.inl (by simp)
    | none =>
      refine Or.inr ?_
      rcases hw with hw | hw
      · exfalso
        have hc : s.computed i = true := by
          rw [computed_eq_view]
          cases hh : (view s i).out with
          | none => exact absurd hh hw
          | some _ => rfl
        have := l.comp i hc
        rw [uncomputed_of_out_none ho] at this
        cases this
      · exact transfer i hw ho
  intro k q hm
  rcases sb_step_new s (k, q) hm with h1 | ⟨top, st, p, m, hstk, hc, hk⟩
  · obtain ⟨i, p, m, hk, hw⟩ := hS k q h1
    exact ⟨i, p, m, keep i k q p m hk hw⟩
  · have hsup : Sup s top := h.live.sup top (by rw [hstk]; exact List.mem_cons_self) (out_none_of_uncomputed hc)
    exact ⟨top, p, m, keep top k q p m hk (Or.inr hsup)⟩

/-! ### the run -/

structure GoodS (s : State) : Prop where
  gl : GoodL s
  k : K s
  sb : InvS s

theorem lstep_of_goodL {s : State} (h : GoodL s) (hst : (step s).stuck = none) (hg : (step s).guardFired = false) :
    LStep s (step s) := by
  have hG := h.good
  by_cases hng : ∀ t old rest, s.ctl ≠ .gen t old :: rest
  · have d := step_desc s hG.stuck hG.raising hG.o.noNA (fun t old rest hc => absurd hc (hng t old rest)) hst hg
    exact lstep_desc hG hng d hg
  · have : ∃ t old rest, s.ctl = .gen t old :: rest := by
      apply Classical.byContradiction
      intro hn
      exact hng (fun t old rest hc => hn ⟨t, old, rest, hc⟩)
    obtain ⟨t, old, rest, hctl⟩ := this
    have e := step_gen s hG.stuck hG.raising hctl
    rw [e] at hst ⊢
    exact lstep_gd hG hctl (genStep_gd s t old (hG.gen hctl).1 (hG.o.nf t) (hG.hinv.ws t) hst)

theorem goodS_step {s : State} (h : GoodS s) (hst : (step s).stuck = none) (hg : (step s).guardFired = false) :
    GoodS (step s) :=
  ⟨goodL_step h.gl hst hg, K_step h.gl.good h.k hst hg, invS_step h.gl h.sb (lstep_of_goodL h.gl hst hg)⟩

theorem goodS_init (cfg : Cfg) (tops : List (Conv × Body)) (choices : List (Nat × Nat))
    (hws : ∀ p ∈ tops, P10.WellScoped p.2 0 0 = true) (hna : ∀ p ∈ tops, bNF p.2) :
    GoodS (initState cfg tops choices) :=
  ⟨⟨good_init cfg tops choices hws hna, invL_init cfg tops choices⟩, K_init cfg tops choices,
    invS_init cfg tops choices⟩

/-- STATE LEVEL: when no `wait_for` is in progress, no scheduled batch is pending (non-empty and unflushed) -/
theorem no_stale {s : State} (h : GoodS s) (hctl : s.ctl = []) : s.flushable = [] := by
  cases hf : s.flushable with
  | nil => rfl
  | cons c rest =>
    exfalso
    have hc : (c.1, c.2) ∈ s.flushable := by rw [hf]; exact List.mem_cons_self
    obtain ⟨hsb, b, hb, _, hfl⟩ := (P1.mem_flushable s c.1 c.2).1 hc
    obtain ⟨i, p, m, hk, hw⟩ := h.sb c.1 c.2 hsb
    rcases hw with hw | hw | ⟨u, hu⟩
    · have := h.k i c.1 c.2 p m hk hw
      obtain ⟨b', hb', hf'⟩ := P1.fl_pos this
      rw [hb] at hb'
      cases hb'
      rw [hfl] at hf'
      cases hf'
    · obtain ⟨x, hx, _⟩ := hw
      rw [hctl] at hx
      cases hx
    · have hsu : StartedU s u := by
        refine ⟨hu.1, h.gl.good.o.sOfD u ?_, hu.2.1⟩
        intro e
        have := hu.2.2
        rw [e] at this
        cases this
      exact no_started_left h.gl hctl u hsu

end AsynqModel.Core.P23
