import AsynqModel.Proofs.P27CtxOps
import AsynqModel.Proofs.P7K
/-!
  P27, C07 part 2: the invariant `P7.K` (open with-blocks = registered contexts, only uncomputed tasks have registered
  contexts, a resumed context is registered with its owner, hot tasks are on the stack, frame discipline) on every
  reachable state in which the stack guard has not fired - WITHOUT the hypothesis that no NonAsyncContext exists.
  `K_step'` is `P7.K_step` with the new case of a task failed by `NonAsyncContext.pause()` and with `__enter__` /
  `__exit__` of NonAsyncContexts.
-/
namespace AsynqModel.Core.P27
open AsynqModel.Core P5 P7

/-- the library facts about a reachable state (`P7.Good` without `NA`) -/
structure Good' (s : State) : Prop where
  i : I s
  co : P3.Core s
  pi : P2.PInv s

theorem good'_of_reach {s : State} (h : Reach s) (hg : s.guardFired = false) : Good' s :=
  ⟨I_reach h, (P3.reach_core s h hg).1, P2.pinv_reach h⟩

theorem Good'.running {s : State} (g : Good' s) {t : Nat} {old : Option Nat} {rest : List Ctl}
    (hctl : s.ctl = .gen t old :: rest) : Running s t := by
  have hm : (t, old) ∈ Inv.gensOf s.ctl := by rw [hctl, gensOf_cons_gen]; simp
  obtain ⟨h1, h2, _⟩ := g.i.g.gens t old hm
  have ha := g.co.active
  rw [hctl, gensOf_cons_gen] at ha
  have hg : t ∈ P2.gens s.ctl := by rw [hctl]; simp [P2.gens]
  refine ⟨h1, h2, (P3.activeChain_cons.1 ha).1, g.pi.genKind t hg, ?_⟩
  have := g.pi.live t hg
  simp [State.computed, this]

theorem out_none {s : State} {f : Nat} (h : s.computed f = false) : s.out f = none := by
  unfold State.computed at h
  cases ho : s.out f
  · rfl
  · rw [ho] at h; cases h

/-- a registered context of a task whose contexts are active: it is resumed, unless it is a NonAsyncContext (which is
    never resumed) -/
theorem exOK_of_J {s : State} (j : J s [] []) {t c : Nat} (hc : c ∈ (s.task t).ctxs)
    (hact : (s.task t).ctxActive = true) : ExOK s t c := by
  obtain ⟨x, hx, hxo, _⟩ := j.reg t c hc
  refine ⟨x, hx, hxo, fun hp => ?_⟩
  apply j.na c x hx
  unfold pz at hp
  rw [hact] at hp
  have : s.ctxIsNonAsync c = true := by simpa using hp
  unfold State.ctxIsNonAsync at this
  rw [hx] at this
  simpa using this

/-! ### one step -/

theorem K_step' (s : State) (g : Good' s) (k : K s) (hg : (step s).guardFired = false) :
    K (step s) := by
  have hreg := g.i.j.reg
  cases step_cases s g.pi.items g.co.raising with
  | neutral q hst hsf =>
    exact ⟨KH_q q k.toKH, fun o ho => by rw [hst]; exact k.stk o (by rw [← hot_q q o]; exact ho), hsf k.sf⟩
  | top f hctl e =>
    rw [e]
    have q := q_finishTop s f
    refine ⟨KH_q q k.toKH, fun o ho => ?_, ?_⟩
    · exact k.stk o (by rw [← hot_q q o]; exact ho)
    · exact k.sf
  | enterLoop root rest hctl hnc q hst hc =>
    refine ⟨KH_q q k.toKH, fun o ho => ?_, ?_⟩
    · rw [hst]; exact List.mem_cons_of_mem _ (k.stk o (by rw [← hot_q q o]; exact ho))
    · rw [hst, hc, SF_waitLoop]
      have := k.sf
      rw [hctl, SF_waitEnter] at this
      refine ⟨by simp, ?_⟩
      simpa using this
  | pop root base rest top stk hctl hst hlen hno q hst' hc =>
    refine ⟨KH_q q k.toKH, fun o ho => ?_, ?_⟩
    · have ho' : hot s o = true := by rw [← hot_q q o]; exact ho
      have hm := k.stk o ho'
      rw [hst] at hm
      rw [hst']
      rcases List.mem_cons.1 hm with h | h
      · exfalso
        subst h
        obtain ⟨h1, h2⟩ := k.live o (hot_ctxs ho').2
        rcases hno with h | h
        · rw [h2] at h; cases h
        · exact h h1
      · exact h
    · rw [hst', hc, hctl]
      have := k.sf
      rw [hctl, hst] at this
      exact SF_pop this (by rw [← hst]; exact hlen)
  | suspend root base rest t stk hctl hst hlen hk hnc hsched e =>
    have ht := lt_of_kind_task s t hk
    have hact := g.i.d t hsched
    rw [e]
    -- what both outcomes of `_pause_contexts` have in common
    have fin : ∀ s2 : State, Op s s2 t (s.task t).ctxs false → (s2.task t).ctxActive = false → s2.ctl = s.ctl →
        KH s2 → K s2.popStack := by
      intro s2 op tact ctl kh
      refine ⟨KH_congr (s := s2) rfl rfl kh, fun o ho => ?_, ?_⟩
      · show o ∈ s2.stack.tail
        rw [op.stack, hst, List.tail_cons]
        have ho2 : hot s2 o = true := ho
        by_cases hne : o = t
        · subst hne
          simp [hot, tact] at ho2
        · have : hot s o = true := by rw [← ho2]; simp [hot, op.tne o hne]
          have hm := k.stk o this
          rw [hst] at hm
          rcases List.mem_cons.1 hm with h | h
          · exact absurd h hne
          · exact h
      · show SF s2.stack.tail s2.ctl
        rw [op.stack, ctl, hst, hctl, List.tail_cons]
        have := k.sf
        rw [hctl, hst] at this
        exact SF_pop this (by rw [← hst]; exact hlen)
    by_cases hnaf : P2.NAfree s t
    · obtain ⟨fl, _⟩ := flip_pause' s t (fun ts => { ts with depsSched := false }) (fun _ => rfl) (fun _ => rfl)
        (fun _ => rfl) hnaf ht hact
      generalize (s.updTask t fun ts => { ts with depsSched := false }).pauseContexts t = s2 at fl
      exact fin s2 fl.op fl.tact fl.ctl (KH_op k.toKH fl.op (by rw [fl.tconts, fl.tctxs]; exact k.k1 t)
        (fun h => by rw [fl.tctxs] at h; rw [fl.op.kind, fl.comp]; exact k.live t h)
        (fun c _ h => by rw [fl.tctxs]; exact h) (fun h => by cases h))
    · obtain ⟨fl, _⟩ := pause_fail_spec s t (fun ts => { ts with depsSched := false }) (fun _ => rfl) (fun _ => rfl)
        (fun _ => rfl) ht hact hnaf hnc (k.k1 t) (g.i.j.nodup t) (fun c hc => by
          obtain ⟨x, hx, hxo, _⟩ := hreg t c hc
          exact ⟨x, hx, hxo, g.i.j.na c x hx⟩)
      generalize (s.updTask t fun ts => { ts with depsSched := false }).pauseContexts t = s2 at fl
      exact fin s2 fl.op fl.tact fl.ctl (KH_op k.toKH fl.op (by rw [fl.tconts, fl.tctxs]; rfl)
        (fun h => by rw [fl.tctxs] at h; exact absurd rfl h)
        (fun c hc h => absurd h hc) (fun h => by cases h))
  | visit root base rest t stk hctl hst hlen hk hnc hsched ds hds e =>
    have ht := lt_of_kind_task s t hk
    rw [e]
    by_cases hact : (s.task t).ctxActive = true
    · -- the task has just yielded: its contexts are still active
      have hts : (s.updTask t fun ts => { ts with depsSched := true }).task t = { s.task t with depsSched := true } :=
        task_updTask_self _ _ _ ht
      rw [nf_resume_active _ t (by rw [hts]; exact hact)]
      have q : Q calm s (s.updTask t fun ts => { ts with depsSched := true }) :=
        q_updTask _ _ _ (fun _ => rfl) (fun _ => rfl) (fun _ => rfl)
      refine ⟨KH_congr (s := s.updTask t fun ts => { ts with depsSched := true }) rfl rfl (KH_q q k.toKH),
        fun o ho => ?_, ?_⟩
      · show o ∈ ds.reverse ++ s.stack
        exact List.mem_append_right _ (k.stk o (by rw [← hot_q q o]; exact ho))
      · show SF (ds.reverse ++ s.stack) s.ctl
        rw [hctl]
        have := k.sf
        rw [hctl] at this
        exact SF_push _ this
    · have hact' : (s.task t).ctxActive = false := by simpa using hact
      obtain ⟨fl, _⟩ := flip_resume' s t (fun ts => { ts with depsSched := true }) (fun _ => rfl) (fun _ => rfl)
        (fun _ => rfl) (g.pi.z t (out_none hnc) hact') ht hact'
      generalize (s.updTask t fun ts => { ts with depsSched := true }).resumeContexts t = s2 at fl
      have kh : KH s2 := KH_op k.toKH fl.op (by rw [fl.tconts, fl.tctxs]; exact k.k1 t)
        (fun h => by rw [fl.tctxs] at h; rw [fl.op.kind, fl.comp]; exact k.live t h)
        (fun c _ h => by rw [fl.tctxs]; exact h) (by
          intro _ c hc x' hx'
          obtain ⟨x, hx, hxo, _⟩ := hreg t c hc
          obtain ⟨x'', hx'', _, ho''⟩ := fl.op.ko c x hx
          rw [hx''] at hx'; cases hx'
          exact ⟨ho''.trans hxo, by rw [fl.tctxs]; exact hc⟩)
      refine ⟨KH_congr (s := s2) rfl rfl kh, fun o ho => ?_, ?_⟩
      · show o ∈ ds.reverse ++ s2.stack
        rw [fl.op.stack]
        refine List.mem_append_right _ ?_
        by_cases hne : o = t
        · subst hne; rw [hst]; simp
        · have ho2 : hot s2 o = true := ho
          exact k.stk o (by rw [← ho2]; simp [hot, fl.op.tne o hne])
      · show SF (ds.reverse ++ s2.stack) s2.ctl
        rw [fl.op.stack, fl.ctl, hctl]
        have := k.sf
        rw [hctl] at this
        exact SF_push _ this
  | enterGen root base rest t stk hctl hst hlen hk hnc e =>
    have ht := lt_of_kind_task s t hk
    rw [e]
    have hsf' : ∀ (a : Option Nat), SF s.stack (.gen t a :: s.ctl) := by
      intro a
      rw [SF_gen]
      exact ⟨by rw [hst]; rfl, k.sf⟩
    by_cases hact : (s.task t).ctxActive = true
    · rw [nf_resume_active _ t hact]
      exact ⟨KH_congr (s := s) rfl rfl k.toKH, fun o ho => k.stk o ho, hsf' _⟩
    · have hact' : (s.task t).ctxActive = false := by simpa using hact
      obtain ⟨fl, _⟩ := flip_resume' s t (fun ts => ts) (fun _ => rfl) (fun _ => rfl) (fun _ => rfl)
        (g.pi.z t (out_none hnc) hact') ht hact'
      rw [updTask_id] at fl
      generalize s.resumeContexts t = s2 at fl
      have kh : KH s2 := KH_op k.toKH fl.op (by rw [fl.tconts, fl.tctxs]; exact k.k1 t)
        (fun h => by rw [fl.tctxs] at h; rw [fl.op.kind, fl.comp]; exact k.live t h)
        (fun c _ h => by rw [fl.tctxs]; exact h) (by
          intro _ c hc x' hx'
          obtain ⟨x, hx, hxo, _⟩ := hreg t c hc
          obtain ⟨x'', hx'', _, ho''⟩ := fl.op.ko c x hx
          rw [hx''] at hx'; cases hx'
          exact ⟨ho''.trans hxo, by rw [fl.tctxs]; exact hc⟩)
      refine ⟨KH_congr (s := s2) rfl rfl kh, fun o ho => ?_, ?_⟩
      · show o ∈ s2.stack
        rw [fl.op.stack]
        by_cases hne : o = t
        · subst hne; rw [hst]; simp
        · have ho2 : hot s2 o = true := ho
          exact k.stk o (by rw [← ho2]; simp [hot, fl.op.tne o hne])
      · show SF s2.stack (.gen t s2.active :: s2.ctl)
        rw [fl.op.stack, fl.ctl]
        exact hsf' _
  | gen t old rest hctl hst hsf gc =>
    have ru := g.running hctl
    have htop : t ∈ s.stack := by
      have := k.sf
      rw [hctl, SF_gen] at this
      exact List.mem_of_mem_head? this.1
    have hsf' : SF (step s).stack (step s).ctl := by rw [hst]; exact hsf k.sf
    -- the common part: an operation on `t`
    have fin : ∀ {cs : List Nat} {b : Bool} {ctxs' : List Nat} {conts' : List (Nat × Body)},
        GenOp' s (step s) t cs b ctxs' conts' → KH (step s) → K (step s) := by
      intro cs b ctxs' conts' go kh
      refine ⟨kh, fun o ho => ?_, hsf'⟩
      rw [hst]
      by_cases hne : o = t
      · subst hne; exact htop
      · exact k.stk o (by rw [← ho]; simp [hot, go.op.tne o hne])
    cases gc with
    | neutral q =>
      exact ⟨KH_q q k.toKH, fun o ho => by rw [hst]; exact k.stk o (by rw [← hot_q q o]; exact ho), hsf'⟩
    | withCtx c b kk s0 h0 e =>
      have e' : step s = enterSt s s0 t c b kk := e
      by_cases hc : c = .nonasync
      · obtain ⟨go, _, hcomp, _⟩ := enter_spec_na s s0 t c b kk hc ru.lt ru.active h0
        rw [← e'] at go hcomp
        refine fin go (KH_op k.toKH go.op ?_ ?_ ?_ (fun h => by cases h))
        · rw [go.tconts, go.tctxs, List.map_cons, k.k1 t]; simp
        · intro _; rw [go.op.kind, hcomp]; exact ⟨ru.kind, ru.nc⟩
        · intro c' _ h; rw [go.tctxs]; exact List.mem_append_left _ h
      · obtain ⟨go, hown, hcomp, _⟩ := enter_spec' s s0 t c b kk hc ru.lt ru.active h0
        rw [← e'] at go hown hcomp
        refine fin go (KH_op k.toKH go.op ?_ ?_ ?_ ?_)
        · rw [go.tconts, go.tctxs, List.map_cons, k.k1 t]; simp
        · intro _; rw [go.op.kind, hcomp]; exact ⟨ru.kind, ru.nc⟩
        · intro c' _ h; rw [go.tctxs]; exact List.mem_append_left _ h
        · intro _ c' hc' x' hx'
          simp only [List.mem_singleton] at hc'
          subst hc'
          exact ⟨hown x' hx', by rw [go.tctxs]; simp⟩
    | endwith cid kk cs hconts e =>
      have hcid : cid ∈ (s.task t).ctxs := by
        have := k.k1 t
        rw [hconts] at this
        have h2 : cid ∈ (s.task t).ctxs.reverse := by rw [← this]; simp
        exact List.mem_reverse.1 h2
      obtain ⟨go, hcomp, _⟩ := endwith_spec' s t cid kk cs ru.lt ru.act hconts (k.k1 t) (g.i.j.nodup t)
        (exOK_of_J g.i.j hcid ru.act)
      rw [← e] at go hcomp
      have hctxs : (s.task t).ctxs = (cs.map (·.1)).reverse ++ [cid] := by
        have := congrArg List.reverse (k.k1 t)
        rw [List.reverse_reverse, hconts] at this
        rw [← this]; simp
      refine fin go (KH_op k.toKH go.op ?_ ?_ ?_ (fun h => by cases h))
      · rw [go.tconts, go.tctxs]; simp
      · intro _; rw [go.op.kind, hcomp]; exact ⟨ru.kind, ru.nc⟩
      · intro c' hc' h
        rw [go.tctxs]
        rw [hctxs] at h
        rcases List.mem_append.1 h with h | h
        · exact h
        · exact absurd h hc'
    | finish o hnc e =>
      obtain ⟨go, _⟩ := finish_spec' s t old o ru.lt ru.act (k.k1 t) (g.i.j.nodup t)
        (fun c hc => exOK_of_J g.i.j hc ru.act)
      rw [← e] at go
      refine fin go (KH_op k.toKH go.op ?_ ?_ ?_ (fun h => by cases h))
      · rw [go.tconts, go.tctxs]; rfl
      · intro h; rw [go.tctxs] at h; exact absurd rfl h
      · intro c' hc' h; exact absurd h hc'
  | guard h => rw [h] at hg; cases hg


theorem K_reach' {s : State} (h : Reach s) (hg : s.guardFired = false) : K s := by
  induction h with
  | init cfg tops choices => exact K_init cfg tops choices
  | @step s h ih =>
    have hg0 := P3.guard_mono s hg
    exact K_step' s (good'_of_reach h hg0) (ih hg0) hg

/-- at the end of every top-level computation the task stack is empty and every context is paused -/
theorem all_paused' {s : State} (h : Reach s) (hg : s.guardFired = false) (hctl : s.ctl = []) :
    s.stack = [] ∧ ∀ (c : Nat) (x : CtxSt), s.ctxs[c]? = some x → x.resumed = false := by
  have k := K_reach' h hg
  have hst : s.stack = [] := by
    have := k.sf
    rw [hctl] at this
    exact this
  refine ⟨hst, ?_⟩
  intro c x hx
  cases hr : x.resumed with
  | false => rfl
  | true =>
    exfalso
    obtain ⟨o, ho, hm⟩ := k.reg c x hx hr
    obtain ⟨y, hy, _, hyr⟩ := (I_reach h).j.reg o c hm
    rw [hx] at hy; cases hy
    rcases hyr with hk | hk
    · have := (I_reach h).j.na c x hx hk
      rw [hr] at this; cases this
    · have hact : (s.task o).ctxActive = true := by simpa [hr] using hk.symm
      have hhot : hot s o = true := by
        simp only [hot, hact, Bool.true_and, Bool.not_eq_true', List.isEmpty_eq_false_iff]
        intro h0; rw [h0] at hm; cases hm
      have := k.stk o hhot
      rw [hst] at this
      cases this

end AsynqModel.Core.P27
