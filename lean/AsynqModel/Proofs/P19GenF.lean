import AsynqModel.Proofs.P19GenE
/-
  P19, part 16: `spawn`, `item`, `const` / `errfut` / `lazy`, and the dispatch over `P6.GenDesc`.
-/
namespace AsynqModel.Core.P19
open AsynqModel.Core AsynqModel.Core.P6

theorem E_spawn {k0 : Nat} {s r : State} {t root R : Nat} {old : Option Nat} (C : GenCtx k0 s r t root)
    (hr : r = s.genStep t old) (hstkLt : ∀ x ∈ s.stack, x < s.futs.length)
    (child k : Body) (pass : List Ref) (hb : (view s t).body = .spawn child pass k)
    (hp : (view s t).pending = false)
    (hu : Upd2 s r t (ownView (view s t) s.futs.length k) (taskView child (pass.map (s.task t).resolve)))
    (hE : E s root R) : E r root R := by
  have hpass : pass = [] := (SB_spawn (hb ▸ (C.hS.fut t).1)).1
  subst hpass
  have hvN : view r s.futs.length = taskView child [] := hu.viewN
  refine E_upd2 C hp k _ (.unstarted (roundsTop s.cfg child)) hu (by simp [taskView]) ?_ ?_ ?_ hE
  · intro fin' hf
    refine ⟨by rw [hu.len]; omega, ?_, ?_, ?_, ?_, ?_, ?_⟩
    · intro h; rw [hvN] at h; exact absurd rfl h
    · intro _ _ _ _ _ h; rw [hvN] at h; cases h
    · intro _ _ h; rw [hvN] at h; cases h
    · intro _; rw [hvN]; exact ⟨by simp [taskView], by simp [taskView]⟩
    · intro _ _ _; rw [hf, hvN, C.hx.cfg]; rfl
    · intro hl; rw [Live, hvN] at hl; cases hl.2.2
  · refine Or.inr (Or.inr (Or.inr ⟨by rw [hvN]; rfl, by rw [hvN]; rfl, ?_⟩))
    rw [C.stack]
    intro h
    exact Nat.lt_irrefl _ (hstkLt _ h)
  · intro tbl pv
    have hb' : (s.task t).body = .spawn child [] k := hb
    have hd := genStep_spawn_den s t old C.lt hp child k hb'
    rw [← hr] at hd
    rw [hb, hd]
    exact pr_spawn _ _ _ _ _ _ _ _ _

theorem E_item {k0 : Nat} {s r : State} {t root R : Nat} (C : GenCtx k0 s r t root) (hFI' : P4.FI r)
    (kind payload : Nat) (mode : ItemMode) (k : Body) (seq : Nat)
    (hb : (view s t).body = .item kind payload mode k) (hp : (view s t).pending = false)
    (hu : Upd2 s r t (ownView (view s t) s.futs.length k) (plainView (.item kind seq payload mode) none))
    (hE : E s root R) : E r root R := by
  have hvN : view r s.futs.length = plainView (.item kind seq payload mode) none := hu.viewN
  refine E_upd2 C hp k _ (.ready (fcount s.trace + 1)) hu (by simp [plainView]) ?_ ?_ ?_ hE
  · intro fin' hf
    refine ⟨by rw [hu.len]; omega, ?_, ?_, ?_, ?_, ?_, ?_⟩
    · intro h; rw [hvN] at h; exact absurd rfl h
    · intro _ _ _ _ _ _; exact hf
    · intro _ _ h; rw [hvN] at h; cases h
    · intro _; rw [hvN]; exact ⟨by simp [plainView], by simp [plainView]⟩
    · intro _ h; rw [hvN] at h; cases h
    · intro hl; rw [Live, hvN] at hl; cases hl.1
  · exact Or.inr (Or.inl ⟨kind, seq, payload, mode, by rw [hvN]; rfl⟩)
  · intro tbl pv
    have hk : (r.fut s.futs.length).kind = .item kind seq payload mode := by
      have := congrArg FV.kind hvN
      exact this
    rw [hb, hFI'.itemDen _ kind seq payload mode hk, C.hx.cfg]
    exact pr_item _ _ _ _ _ _ _ _ _ _

theorem E_other {k0 : Nat} {s r : State} {t root R : Nat} {old : Option Nat} (C : GenCtx k0 s r t root)
    (hr : r = s.genStep t old) (k : Body) (kd : FKind) (out : Option Outcome)
    (hb : (∃ a, (view s t).body = .const a k) ∨ (∃ a, (view s t).body = .errfut a k) ∨
      (∃ a, (view s t).body = .lazy a k))
    (hp : (view s t).pending = false)
    (hu : Upd2 s r t (ownView (view s t) s.futs.length k) (plainView kd out))
    (hkd : (kd = .const ∧ out.isSome = true) ∨ (kd = .errfut ∧ out.isSome = true) ∨ ((∃ o, kd = .lazy o) ∧ out = none))
    (hE : E s root R) : E r root R := by
  have hvN : view r s.futs.length = plainView kd out := hu.viewN
  have hkt : kd ≠ .task := by
    rcases hkd with ⟨h, _⟩ | ⟨h, _⟩ | ⟨⟨o, h⟩, _⟩ <;> rw [h] <;> simp
  have hlt : s.futs.length < r.futs.length := by rw [hu.len]; omega
  have hcases : out.isSome = true ∨ ((∃ o, kd = .lazy o) ∧ out = none) := by
    rcases hkd with ⟨_, h⟩ | ⟨_, h⟩ | h
    · exact Or.inl h
    · exact Or.inl h
    · exact Or.inr h
  refine E_upd2 C hp k _ (.ready 0) hu (by intro h; exact hkt h.1) ?_ ?_ ?_ hE
  · intro fin' hf
    rcases hcases with h | ⟨⟨o, hko⟩, ho⟩
    · refine Loc.of_done hlt ?_ ⟨0, Nat.zero_le _, hf⟩
      rw [hvN]
      show out ≠ none
      intro e; rw [e] at h; cases h
    · subst hko ho
      refine ⟨hlt, ?_, ?_, ?_, ?_, ?_, ?_⟩
      · intro h; rw [hvN] at h; exact absurd rfl h
      · intro _ _ _ _ _ h; rw [hvN] at h; cases h
      · intro _ _ _; exact ⟨0, Nat.zero_le _, hf⟩
      · intro _; rw [hvN]; exact ⟨by simp [plainView], by simp [plainView]⟩
      · intro _ h; rw [hvN] at h; cases h
      · intro hl; rw [Live, hvN] at hl; cases hl.1
  · rcases hcases with h | ⟨⟨o, hko⟩, _⟩
    · refine Idle.of_done ?_
      rw [hvN]
      show out ≠ none
      intro e; rw [e] at h; cases h
    · exact Or.inr (Or.inr (Or.inl ⟨o, by rw [hvN, hko]; rfl⟩))
  · intro tbl pv
    rcases hb with ⟨a, hb⟩ | ⟨a, hb⟩ | ⟨a, hb⟩
    · have hd := genStep_const_den s t old C.lt hp a k hb
      rw [← hr] at hd
      rw [hb, hd]; exact pr_const _ _ _ _ _ _ _ _
    · have hd := genStep_errfut_den s t old C.lt hp a k hb
      rw [← hr] at hd
      rw [hb, hd]; exact pr_errfut _ _ _ _ _ _ _ _
    · have hd := genStep_lazy_den s t old C.lt hp a k hb
      rw [← hr] at hd
      rw [hb, hd]; exact pr_lazy _ _ _ _ _ _ _ _

/-- one instruction of the running task -/
theorem E_gen {k0 : Nat} {s r : State} {t root R : Nat} {old : Option Nat} {rest : List Ctl}
    (C : GenCtx k0 s r t root) (hr : r = s.genStep t old) (hctl : s.ctl = .gen t old :: rest)
    (hFI : P4.FI s) (hFI' : P4.FI r) (hsc : StepScoped s) (hstkLt : ∀ x ∈ s.stack, x < s.futs.length)
    (d : GenDesc s r t) (hE : E s root R) : E r root R := by
  have hdepsC := (C.hA.gen t old rest hctl).2.2
  cases d with
  | loc v' hu _ hkind hout _ hown hinh hprev hpend hstart _ _ hbs =>
    exact E_loc C hr hFI hdepsC v' hu hkind hout hown hinh hprev hpend hstart hbs hE
  | spawn child k pass hb hp hu _ _ _ _ => exact E_spawn C hr hstkLt child k pass hb hp hu hE
  | item kind payload mode k seq hb hp hu _ _ _ => exact E_item C hFI' kind payload mode k seq hb hp hu hE
  | other k kd out hb hp hu _ _ _ hkd => exact E_other C hr k kd out hb hp hu hkd hE
  | yield ry npy nd leave hp hsrc _ _ hu _ => exact E_yield C hsc hctl ry npy nd leave hp hsrc hu hE
  | finish o hp hu _ => exact E_finish C hr o hp hu hE

end AsynqModel.Core.P19
