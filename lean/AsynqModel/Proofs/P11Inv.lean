import AsynqModel.Proofs.P11Base
/-!
  P11, part 2: the two invariants and the description `Desc s s'` of a transition that preserves both.

  * `Awaited t tr`: the trace `tr` contains an event that awaits `t` (`yield u i y` with `t` a leaf of `y`, or
    `syncE u t`) or `t` is the root of a top-level computation (`new t (task none)` directly after `top idx conv`).
  * `LInv` (C03 "lazy start"): every `run t 0` event is preceded by an event awaiting `t`; every id on the scheduler
    stack, every root of a `wait_for` frame, every task with a generator frame and every dependency of a task is awaited.
  * `EInv` (C02 "unaffected"): a failed task ended at a `raise` / `reraise` statement or was failed by a
    NonAsyncContext; the exception caught last was received at a resume or from a synchronous call; the outcome a
    synchronous call returns is the outcome of its target (or the stack guard's RuntimeError); only the stack guard's
    error propagates out of `wait_for`.
-/
namespace AsynqModel.Core.P11
open AsynqModel.Core
open P2

/-! ### awaiting -/

def ctlId : Ctl → Nat
  | .waitEnter r => r
  | .waitLoop r _ => r
  | .gen t _ => t

/-- event `e` awaits future `t` -/
def awaitsEv (t : Nat) : Event → Bool
  | .yield _ _ y => decide (t ∈ y.leaves)
  | .syncE _ f => f == t
  | _ => false

/-- `t` is the root of a top-level computation: `new t (task none)` was emitted directly after a `top` event -/
def TopRoot (t : Nat) (tr : List Event) : Prop :=
  ∃ l1 idx conv l2, tr = l1 ++ Event.new t (.task none) :: Event.top idx conv :: l2

def Awaited (t : Nat) (tr : List Event) : Prop := (∃ e ∈ tr, awaitsEv t e = true) ∨ TopRoot t tr

theorem Awaited.mono {t : Nat} {tr : List Event} (pre : List Event) (h : Awaited t tr) : Awaited t (pre ++ tr) := by
  rcases h with ⟨e, he, h⟩ | ⟨l1, idx, conv, l2, h⟩
  · exact Or.inl ⟨e, List.mem_append_right _ he, h⟩
  · exact Or.inr ⟨pre ++ l1, idx, conv, l2, by rw [h, List.append_assoc]⟩

theorem Awaited.cons {t : Nat} {tr : List Event} (e : Event) (h : Awaited t tr) : Awaited t (e :: tr) :=
  Awaited.mono [e] h

theorem Awaited.of_mem {t : Nat} {tr : List Event} {e : Event} (he : e ∈ tr) (h : awaitsEv t e = true) :
    Awaited t tr := Or.inl ⟨e, he, h⟩

/-- the ids the scheduler may start next: the task stack, the frames of the Python stack, the dependencies -/
def Tracked (s : State) (x : Nat) : Prop :=
  x ∈ s.stack ∨ (∃ c ∈ s.ctl, ctlId c = x) ∨ ∃ t, x ∈ (s.task t).deps

structure LInv (s : State) : Prop where
  runs : ∀ l1 l2 t dc r, s.trace = l1 ++ Event.run t 0 dc r :: l2 → Awaited t l2
  tracked : ∀ x, Tracked s x → Awaited x s.trace

/-! ### error provenance -/

/-- task `t` received exception `e`: at a resume or from a synchronous call -/
def Recvd (t : Nat) (e : Err) (tr : List Event) : Prop :=
  (∃ i dc, Event.run t i dc (.out (.err e)) ∈ tr) ∨ (∃ f, Event.syncX t f (.err e) ∈ tr)

theorem Recvd.mono {t : Nat} {e : Err} {tr : List Event} (pre : List Event) (h : Recvd t e tr) :
    Recvd t e (pre ++ tr) := by
  rcases h with ⟨i, dc, h⟩ | ⟨f, h⟩
  · exact Or.inl ⟨i, dc, List.mem_append_right _ h⟩
  · exact Or.inr ⟨f, List.mem_append_right _ h⟩

/-- task `t` awaited future `f`: `f` is a leaf of a structure `t` yielded, or the target of a synchronous call
    (`value()`) that `t` made / that returned to `t` -/
def AwaitedBy (tr : List Event) (t f : Nat) : Prop :=
  (∃ i y, Event.yield t i y ∈ tr ∧ f ∈ y.leaves) ∨ Event.syncE t f ∈ tr ∨ ∃ o, Event.syncX t f o ∈ tr

/-- how a task with final statement `body` that caught `caught` last may end with error `e` -/
def FinB (body : Body) (caught : Option Err) (e : Err) : Prop :=
  e = .nonasync ∨ (∃ n, e = .u n ∧ body = .raise n) ∨ (e = .u 0 ∧ body = .reraise ∧ caught = none) ∨
  (body = .reraise ∧ caught = some e)

def Fin (s : State) (t : Nat) (e : Err) : Prop := FinB (s.task t).body (s.task t).caught e

structure EInv (s : State) : Prop where
  fin : ∀ t e, (s.fut t).kind = .task → s.out t = some (.err e) → Fin s t e
  caught : ∀ t e, (s.task t).caught = some e → Recvd t e s.trace
  syncx : ∀ t f o, Event.syncX t f o ∈ s.trace → s.out f = some o ∨ (o = .err .stackguard ∧ s.guardFired = true)
  raising : ∀ e, s.raising = some e → e = .stackguard ∧ s.guardFired = true

/-! ### where the error of a failing `unwrap` comes from -/

mutual
theorem mem_slots {α : Type} : (y : YS α) → (r : α) → some r ∈ y.slots → r ∈ y.leaves
  | .none, r, h => by simp [YS.slots] at h
  | .junk, r, h => by simp [YS.slots] at h
  | .f r', r, h => by simpa [YS.slots, YS.leaves, eq_comm] using h
  | .tup l, r, h => by simpa [YS.leaves] using mem_slotsList l r (by simpa [YS.slots] using h)
  | .lst l, r, h => by simpa [YS.leaves] using mem_slotsList l r (by simpa [YS.slots] using h)
  | .dict _ l, r, h => by simpa [YS.leaves] using mem_slotsList l r (by simpa [YS.slots] using h)
theorem mem_slotsList {α : Type} : (l : List (YS α)) → (r : α) → some r ∈ YS.slotsList l → r ∈ YS.leavesList l
  | [], r, h => by simp [YS.slotsList] at h
  | y :: ys, r, h => by
      simp only [YS.slotsList, List.mem_append] at h
      simp only [YS.leavesList, List.mem_append]
      rcases h with h | h
      · exact Or.inl (mem_slots y r h)
      · exact Or.inr (mem_slotsList ys r h)
end

/-- the exception `unwrap` raises is the TypeError for a non-future, the error of a failed leaf, or (`other`) stands
    for an uncomputed leaf -/
theorem unwrap_error_src {α : Type} (look : α → Option Outcome) (y : YS α) (e : Err)
    (h : unwrap look y = .error e) :
    e = .typeerr ∨ (∃ f ∈ y.leaves, look f = some (.err e)) ∨ (∃ f ∈ y.leaves, look f = none) := by
  have h1 := (unwrap_error_iff look y e).1 h
  unfold firstFailure at h1
  obtain ⟨p, hp, hs⟩ := List.exists_of_findSome?_eq_some h1
  cases p with
  | none =>
    simp only [slotErr] at hs
    injection hs with hs
    exact Or.inl hs.symm
  | some r =>
    have hr := mem_slots y r hp
    simp only [slotErr] at hs
    cases hl : look r with
    | none => exact Or.inr (Or.inr ⟨r, hr, hl⟩)
    | some o =>
      rw [hl] at hs
      cases o with
      | ok v => simp at hs
      | err e' =>
        simp at hs
        subst hs
        exact Or.inr (Or.inl ⟨r, hr, hl⟩)

theorem AwaitedBy.mono {tr : List Event} {t f : Nat} (pre : List Event) (h : AwaitedBy tr t f) :
    AwaitedBy (pre ++ tr) t f := by
  rcases h with ⟨i, y, h1, h2⟩ | h | ⟨o, h⟩
  · exact Or.inl ⟨i, y, List.mem_append_right _ h1, h2⟩
  · exact Or.inr (Or.inl (List.mem_append_right _ h))
  · exact Or.inr (Or.inr ⟨o, List.mem_append_right _ h⟩)

/-- the moment task `t` catches `e` (state `s`, trace `tr` including the events of the step): `e` is the TypeError
    for a yielded non-future, the stack guard's error, or the error of a future that `t` awaited and that had failed -/
def SrcAt (s : State) (tr : List Event) (t : Nat) (e : Err) : Prop :=
  e = .typeerr ∨ (e = .stackguard ∧ s.guardFired = true) ∨ ∃ f, AwaitedBy tr t f ∧ s.out f = some (.err e)

/-! ### transitions -/

/-- a change of bookkeeping fields before the transition proper -/
structure Pre (s s0 : State) : Prop where
  futs : s0.futs = s.futs
  trace : s0.trace = s.trace
  tracked : ∀ x, Tracked s0 x → Tracked s x
  raising : s0.raising = s.raising ∨ s0.raising = none
  guard : s0.guardFired = s.guardFired

theorem Pre.refl (s : State) : Pre s s := ⟨rfl, rfl, fun _ h => h, Or.inl rfl, rfl⟩

theorem tracked_of_eq {s s0 : State} (hf : s0.futs = s.futs) (hs : s0.stack = s.stack) (hc : s0.ctl = s.ctl) :
    ∀ x, Tracked s0 x → Tracked s x := by
  intro x h
  unfold Tracked at *
  rw [hs, hc] at h
  rcases h with h | h | ⟨t, h⟩
  · exact Or.inl h
  · exact Or.inr (Or.inl h)
  · rw [task_of_futs hf] at h; exact Or.inr (Or.inr ⟨t, h⟩)

/-- `s'` is obtained from `s` by helpers and updates allowed by `p` (up to `s1`), followed by a change of the control
    stack, the task stack and bookkeeping fields; everything new that becomes startable is awaited, every new failure
    and every caught exception has a source -/
inductive Desc (s s' : State) : Prop
  | mk (p : Par) (s1 : State) (b : B p s s1) (futs : s'.futs = s1.futs) (trace : s'.trace = s1.trace)
      (stack : ∀ x ∈ s'.stack, Tracked s x ∨ Awaited x s1.trace)
      (ctl : ∀ c ∈ s'.ctl, Tracked s (ctlId c) ∨ Awaited (ctlId c) s1.trace)
      (raising : ∀ e, s'.raising = some e → s.raising = some e ∨ (e = .stackguard ∧ s'.guardFired = true))
      (guard : s'.guardFired = s1.guardFired ∨ s'.guardFired = true)
      (hE : ∀ f e, p.E f e → (s1.fut f).kind = .task → Fin s1 f e)
      (hL : ∀ f, p.L f → s.out f = none)
      (hD : ∀ d, p.D d → Awaited d s1.trace)
      (hC : ∀ f e, p.C f e → Recvd f e s1.trace ∧ SrcAt s s1.trace f e)
      (hX : ∀ e, p.X e → (∀ t dc r, e = .run t 0 dc r → Awaited t s.trace) ∧
        (∀ t f o, e = .syncX t f o → s1.out f = some o ∨ (o = .err .stackguard ∧ s.guardFired = true)))

theorem linv_pre {s s0 : State} (h : LInv s) (q : Pre s s0) : LInv s0 :=
  ⟨fun l1 l2 t dc r ht => h.runs l1 l2 t dc r (by rw [← q.trace]; exact ht),
   fun x hx => by rw [q.trace]; exact h.tracked x (q.tracked x hx)⟩

theorem einv_pre {s s0 : State} (h : EInv s) (q : Pre s s0) : EInv s0 := by
  refine ⟨fun t e hk ho => ?_, fun t e hc => ?_, fun t f o hm => ?_, fun e he => ?_⟩
  · have := h.fin t e (by unfold State.fut at hk ⊢; rw [← q.futs]; exact hk) (by rw [← out_of_futs q.futs]; exact ho)
    unfold Fin at *; rw [task_of_futs q.futs]; exact this
  · rw [q.trace]; exact h.caught t e (by rw [← task_of_futs q.futs]; exact hc)
  · rw [out_of_futs q.futs, q.guard]; exact h.syncx t f o (by rw [← q.trace]; exact hm)
  · rw [q.guard]
    rcases q.raising with hr | hr
    · exact h.raising e (by rw [← hr]; exact he)
    · rw [hr] at he; cases he

theorem plainEv_run0 {t : Nat} {dc : Bool} {r : Recv} : plainEv (.run t 0 dc r) = false := rfl
theorem plainEv_syncX {t f : Nat} {o : Outcome} : plainEv (.syncX t f o) = false := rfl

/-- splitting `pre ++ tr = l1 ++ e :: l2`: `e` lies in `tr` or in `pre` -/
theorem split_append {α : Type} {pre tr l1 l2 : List α} {e : α} (h : pre ++ tr = l1 ++ e :: l2) :
    (∃ a, l1 = pre ++ a ∧ tr = a ++ e :: l2) ∨ (∃ c, pre = l1 ++ e :: c ∧ l2 = c ++ tr) := by
  rcases List.append_eq_append_iff.1 h with ⟨a, h1, h2⟩ | ⟨c, h1, h2⟩
  · exact Or.inl ⟨a, h1, h2⟩
  · cases c with
    | nil => exact Or.inl ⟨[], by simpa using h1.symm, by simpa using h2.symm⟩
    | cons x c =>
      simp only [List.cons_append] at h2
      injection h2 with h3 h4
      subst h3
      exact Or.inr ⟨c, h1, h4⟩

theorem linv_desc {s s' : State} (h : LInv s) (d : Desc s s') : LInv s' := by
  obtain ⟨p, s1, b, futs, trace, stack, ctl, raising, guard, hE, hL, hD, hC, hX⟩ := d
  obtain ⟨pre, e1, q1⟩ := b.trace
  refine ⟨fun l1 l2 t dc r ht => ?_, fun x hx => ?_⟩
  · rw [trace, e1] at ht
    rcases split_append ht with ⟨a, _, h2⟩ | ⟨c, h1, h2⟩
    · exact h.runs a l2 t dc r h2
    · rw [h2]
      apply Awaited.mono
      have hm : Event.run t 0 dc r ∈ pre := by rw [h1]; simp
      rcases q1 _ hm with hp | hp
      · rw [plainEv_run0] at hp; cases hp
      · exact (hX _ hp).1 t dc r rfl
  · rw [trace]
    have old : ∀ y, Tracked s y → Awaited y s1.trace := fun y hy => by
      rw [e1]; exact Awaited.mono _ (h.tracked y hy)
    rcases hx with hx | ⟨c, hc, hx⟩ | ⟨t, hx⟩
    · rcases stack x hx with h1 | h1
      · exact old x h1
      · exact h1
    · subst hx
      rcases ctl c hc with h1 | h1
      · exact old _ h1
      · exact h1
    · rw [task_of_futs futs] at hx
      rcases (b.fut t).deps x hx with h1 | h1
      · exact old x (Or.inr (Or.inr ⟨t, h1⟩))
      · exact hD x h1

theorem finB_congr {b b' : Body} {c c' : Option Err} (hb : b' = b) (hc : c' = c) {e : Err} (h : FinB b c e) :
    FinB b' c' e := by rw [hb, hc]; exact h

theorem einv_desc {s s' : State} (h : EInv s) (d : Desc s s') : EInv s' := by
  obtain ⟨p, s1, b, futs, trace, stack, ctl, raising, guard, hE, hL, hD, hC, hX⟩ := d
  obtain ⟨pre, e1, q1⟩ := b.trace
  have hgm : s.guardFired = true → s'.guardFired = true := fun hg => by
    rcases guard with h4 | h4
    · rw [h4, b.guard]; exact hg
    · exact h4
  refine ⟨fun t e hk ho => ?_, fun t e hc => ?_, fun t f o hm => ?_, fun e he => ?_⟩
  · have hk1 : (s1.fut t).kind = .task := by unfold State.fut at hk ⊢; rw [← futs]; exact hk
    have ho1 : s1.out t = some (.err e) := by rw [← out_of_futs futs]; exact ho
    unfold Fin; rw [task_of_futs futs]
    cases hs : s.out t with
    | some o =>
      have h3 := (b.fut t).out o hs
      have h3' : s1.out t = some o := h3
      rw [ho1] at h3'; injection h3' with h3'; subst h3'
      have hks : (s.fut t).kind = .task := by rw [← (b.fut t).kind_of_out hs]; exact hk1
      have hnl : ¬ p.L t := fun hl => by rw [hL t hl] at hs; cases hs
      have hfin := h.fin t e hks hs
      refine finB_congr ?_ ?_ hfin
      · rcases (b.fut t).body hks with h4 | h4
        · exact absurd h4 hnl
        · exact h4
      · rcases (b.fut t).caught with h4 | ⟨h4, _⟩
        · exact h4
        · exact absurd h4 hnl
    | none =>
      rcases (b.fut t).err hk1 hs e ho1 with h4 | h4
      · exact Or.inl h4
      · exact hE t e h4 hk1
  · rw [trace]
    rw [task_of_futs futs] at hc
    rcases (b.fut t).caught with h4 | ⟨_, e', h4, h5⟩
    · rw [e1]; apply Recvd.mono
      exact h.caught t e (by
        have : (s1.task t).caught = (s.task t).caught := h4
        rw [← this]; exact hc)
    · have : (s1.task t).caught = some e' := h4
      rw [this] at hc; injection hc with hc; subst hc
      exact (hC t _ h5).1
  · rw [out_of_futs futs]
    rw [trace, e1] at hm
    rcases List.mem_append.1 hm with hm | hm
    · rcases q1 _ hm with hp | hp
      · rw [plainEv_syncX] at hp; cases hp
      · rcases (hX _ hp).2 t f o rfl with h4 | ⟨h4, h5⟩
        · exact Or.inl h4
        · exact Or.inr ⟨h4, hgm h5⟩
    · rcases h.syncx t f o hm with h4 | ⟨h4, h5⟩
      · exact Or.inl (b.out h4)
      · exact Or.inr ⟨h4, hgm h5⟩
  · rcases raising e he with h4 | h4
    · exact ⟨(h.raising e h4).1, hgm (h.raising e h4).2⟩
    · exact h4

/-! ### ways to build a `Desc` -/

theorem Desc.refl (s : State) : Desc s s :=
  .mk {} s (B.refl s) rfl rfl (fun _ hx => Or.inl (Or.inl hx)) (fun c hc => Or.inl (Or.inr (Or.inl ⟨c, hc, rfl⟩)))
    (fun _ he => Or.inl he) (Or.inl rfl) (fun _ _ h => h.elim) (fun _ h => h.elim) (fun _ h => h.elim)
    (fun _ _ h => h.elim) (fun _ h => h.elim)

theorem stack_of_eq {s s' : State} {tr : List Event} (h : s'.stack = s.stack) :
    ∀ x ∈ s'.stack, Tracked s x ∨ Awaited x tr := fun _ hx => Or.inl (Or.inl (h ▸ hx))

theorem stack_of_tail {s s' : State} {tr : List Event} (h : s'.stack = s.stack.tail) :
    ∀ x ∈ s'.stack, Tracked s x ∨ Awaited x tr :=
  fun _ hx => Or.inl (Or.inl (List.mem_of_mem_tail (h ▸ hx)))

theorem ctl_of_eq {s s' : State} {tr : List Event} (h : s'.ctl = s.ctl) :
    ∀ c ∈ s'.ctl, Tracked s (ctlId c) ∨ Awaited (ctlId c) tr :=
  fun c hc => Or.inl (Or.inr (Or.inl ⟨c, h ▸ hc, rfl⟩))

theorem ctl_of_tail {s s' : State} {tr : List Event} (h : s'.ctl = s.ctl.tail) :
    ∀ c ∈ s'.ctl, Tracked s (ctlId c) ∨ Awaited (ctlId c) tr :=
  fun c hc => Or.inl (Or.inr (Or.inl ⟨c, List.mem_of_mem_tail (h ▸ hc), rfl⟩))

/-- a frame is pushed whose id is tracked or awaited -/
theorem ctl_of_push {s s' : State} {tr : List Event} {c0 : Ctl} (h : s'.ctl = c0 :: s.ctl)
    (h0 : Tracked s (ctlId c0) ∨ Awaited (ctlId c0) tr) :
    ∀ c ∈ s'.ctl, Tracked s (ctlId c) ∨ Awaited (ctlId c) tr := by
  intro c hc
  rw [h] at hc
  rcases List.mem_cons.1 hc with hc | hc
  · rw [hc]; exact h0
  · exact Or.inl (Or.inr (Or.inl ⟨c, hc, rfl⟩))

/-- the innermost frame is replaced by one with the same id -/
theorem ctl_of_swap {s s' : State} {tr : List Event} {c0 c1 : Ctl} {rest : List Ctl} (hs : s.ctl = c0 :: rest)
    (h : s'.ctl = c1 :: s.ctl.tail) (hid : ctlId c1 = ctlId c0) :
    ∀ c ∈ s'.ctl, Tracked s (ctlId c) ∨ Awaited (ctlId c) tr := by
  intro c hc
  rw [h, hs] at hc
  rcases List.mem_cons.1 hc with hc | hc
  · rw [hc, hid]; exact Or.inl (Or.inr (Or.inl ⟨c0, by rw [hs]; simp, rfl⟩))
  · exact Or.inl (Or.inr (Or.inl ⟨c, by rw [hs]; exact List.mem_cons_of_mem _ hc, rfl⟩))

theorem raising_of_eq {s s' : State} (h : s'.raising = s.raising) :
    ∀ e, s'.raising = some e → s.raising = some e ∨ (e = .stackguard ∧ s'.guardFired = true) :=
  fun e he => Or.inl (by rw [← h]; exact he)

/-- the side conditions on the parameter `p` of a `Desc` -/
structure POk (p : Par) (s s1 : State) : Prop where
  hE : ∀ f e, p.E f e → (s1.fut f).kind = .task → Fin s1 f e
  hL : ∀ f, p.L f → s.out f = none
  hD : ∀ d, p.D d → Awaited d s1.trace
  hC : ∀ f e, p.C f e → Recvd f e s1.trace ∧ SrcAt s s1.trace f e
  hX : ∀ e, p.X e → (∀ t dc r, e = .run t 0 dc r → Awaited t s.trace) ∧
        (∀ t f o, e = .syncX t f o → s1.out f = some o ∨ (o = .err .stackguard ∧ s.guardFired = true))

theorem POk.triv {s s1 : State} : POk {} s s1 :=
  ⟨fun _ _ h => h.elim, fun _ h => h.elim, fun _ h => h.elim, fun _ _ h => h.elim, fun _ h => h.elim⟩

/-- the parameter of an instruction of the running task `t` -/
@[reducible] def parL (t : Nat) : Par := { L := fun f => f = t }

theorem POk.live {s s1 : State} {t : Nat} (ht : s.out t = none) : POk (parL t) s s1 :=
  ⟨fun _ _ h => h.elim, fun f h => by rw [h]; exact ht, fun _ h => h.elim, fun _ _ h => h.elim, fun _ h => h.elim⟩

theorem Desc.mk' {p : Par} {s s1 s' : State} (b : B p s s1) (ok : POk p s s1)
    (futs : s'.futs = s1.futs) (trace : s'.trace = s1.trace)
    (stack : ∀ x ∈ s'.stack, Tracked s x ∨ Awaited x s1.trace)
    (ctl : ∀ c ∈ s'.ctl, Tracked s (ctlId c) ∨ Awaited (ctlId c) s1.trace)
    (raising : ∀ e, s'.raising = some e → s.raising = some e ∨ (e = .stackguard ∧ s'.guardFired = true))
    (guard : s'.guardFired = s1.guardFired ∨ s'.guardFired = true := by first | exact Or.inl rfl | exact Or.inr rfl) :
    Desc s s' :=
  .mk p s1 b futs trace stack ctl raising guard ok.hE ok.hL ok.hD ok.hC ok.hX

/-- helpers and updates allowed by `p` only -/
theorem Desc.same {p : Par} {s s' : State} (b : B p s s') (ok : POk p s s') : Desc s s' :=
  .mk' b ok rfl rfl (stack_of_eq b.stack) (ctl_of_eq b.ctl) (raising_of_eq b.raising)

/-- ... then a nested `wait_for(f)` for an awaited `f` -/
theorem Desc.pushWait {p : Par} {s s1 : State} (b : B p s s1) (ok : POk p s s1) (f : Nat)
    (h : Awaited f s1.trace) : Desc s { s1 with ctl := .waitEnter f :: s1.ctl } :=
  .mk' b ok rfl rfl (stack_of_eq b.stack)
    (ctl_of_push (c0 := .waitEnter f) (by show _ :: s1.ctl = _; rw [b.ctl]) (Or.inr h)) (raising_of_eq b.raising)

/-- ... then the innermost frame is popped -/
theorem Desc.popCtl {p : Par} {s s1 : State} (b : B p s s1) (ok : POk p s s1) (a : Option Nat) :
    Desc s { s1 with ctl := s1.ctl.tail, active := a } :=
  .mk' b ok rfl rfl (stack_of_eq b.stack) (ctl_of_tail (by show s1.ctl.tail = _; rw [b.ctl])) (raising_of_eq b.raising)

theorem B.itemsOk {p : Par} {s s1 : State} (b : B p s s1) (hb : s1.batches = s.batches) (hi : ItemsOk s) :
    ItemsOk s1 := by
  intro x hx i hix
  rw [hb] at hx
  exact b.kind_item (hi x hx i hix)

end AsynqModel.Core.P11
