import AsynqModel.Proofs.P9Proj
import AsynqModel.Proofs.P3Base
/-
  P9 (property C20), part 2: `P (h s) = h (P s)` for the heap-side helpers (futures, contexts, batches).
-/
namespace AsynqModel.Core.P9
open AsynqModel.Core

/-! ### futures -/

theorem P_alloc_fst (s : State) (x : Fut) (nk : NewKind)
    (h1 : x.ts.deps = extractFutures x.ts.lastY) (h2 : x.ts.depsSched = false) :
    P (s.alloc x nk).1 = ((P s).alloc x nk).1 := by
  simp only [State.alloc, P_emit, P_futs_length]
  simp [P, append_pfs, projF_clean _ x h1 h2, State.emit, norm]

@[simp] theorem P_alloc_snd (s : State) (x : Fut) (nk : NewKind) : ((P s).alloc x nk).2 = (s.alloc x nk).2 := by
  simp [State.alloc]

theorem P_complete (s : State) (f : Nat) (o : Outcome) : P (s.complete f o) = (P s).complete f o := by
  unfold State.complete
  simp only [P_emit, P_setFut, P_fut, P_keepDeps, norm]
  congr 2
  cases s.cfg.keepDeps <;> simp [projF, projT]

/-! ### scoped values and contexts -/

theorem P_svSet (s : State) (var val : Nat) : P (s.svSet var val) = (P s).svSet var val := by
  unfold State.svSet
  simp only [P_sv]
  rw [apply_ite P]; rfl

theorem P_svTouch (s : State) (var : Nat) : P (s.svTouch var) = (P s).svTouch var := by
  unfold State.svTouch
  simp only [P_sv]
  rw [apply_ite P]; rfl

theorem P_ctxSetResumed (s : State) (c : Nat) (r : Bool) : P (s.ctxSetResumed c r) = (P s).ctxSetResumed c r := by
  unfold State.ctxSetResumed
  simp only [P_ctxs]
  split <;> rfl

theorem P_ctxResumeOne (s : State) (c : Nat) : P (s.ctxResumeOne c) = (P s).ctxResumeOne c := by
  unfold State.ctxResumeOne
  have h : P ((s.emit (.ctx true c)).ctxSetResumed c true) = ((P s).emit (.ctx true c)).ctxSetResumed c true := by
    rw [P_ctxSetResumed, P_emit]; rfl
  dsimp only
  rw [← h]
  generalize (s.emit (.ctx true c)).ctxSetResumed c true = s1
  simp only [P_ctxs]
  split
  · split
    · simp only [P_svGet]
      rw [← P_svSet]
      rfl
    · rfl
  · rfl

theorem P_ctxPauseOne (s : State) (c : Nat) : P (s.ctxPauseOne c) = (P s).ctxPauseOne c := by
  unfold State.ctxPauseOne
  have h : P ((s.emit (.ctx false c)).ctxSetResumed c false) = ((P s).emit (.ctx false c)).ctxSetResumed c false := by
    rw [P_ctxSetResumed, P_emit]; rfl
  dsimp only
  rw [← h]
  generalize (s.emit (.ctx false c)).ctxSetResumed c false = s1
  simp only [P_ctxs]
  split
  · split
    · rw [← P_svSet]
    · rfl
  · rfl

theorem comm_ctxs_erase (c : Nat) : Comm fun ts => { ts with ctxs := ts.ctxs.erase c } := fun _ _ => rfl

theorem P_ctxExitAux (s : State) (c : Nat) (owner : Option Nat) :
    P (P3.ctxExitAux s c owner) = P3.ctxExitAux (P s) c owner := by
  unfold P3.ctxExitAux
  cases owner with
  | none =>
    dsimp only
    rw [P_emit]
    simp only [P_ctxIsNonAsync]
    rw [apply_ite P, P_ctxPauseOne]; rfl
  | some o =>
    dsimp only
    rw [← P_updTask _ _ _ (comm_ctxs_erase c)]
    generalize (s.updTask o fun ts => { ts with ctxs := ts.ctxs.erase c }) = s1
    rw [P_emit]
    simp only [P_ctxIsNonAsync, P_task, projT_ctxActive]
    rw [apply_ite P, P_ctxPauseOne]; rfl

theorem P_ctxExit (s : State) (c : Nat) : P (s.ctxExit c) = (P s).ctxExit c := by
  rw [P3.ctxExit_eq, P3.ctxExit_eq, P_ctxExitAux]; rfl

theorem P_foldl {α : Type} (g : State → α → State) (hg : ∀ s a, P (g s a) = g (P s) a) (l : List α) (s : State) :
    P (l.foldl g s) = l.foldl g (P s) := by
  induction l generalizing s with
  | nil => rfl
  | cons a l ih => simp only [List.foldl_cons]; rw [ih, hg]

theorem P_exitAll (s : State) (t : Nat) : P (s.exitAll t) = (P s).exitAll t := by
  unfold State.exitAll
  simp only [P_task, projT_conts]
  rw [P_updTask _ _ _ (fun _ _ => rfl), P_foldl _ (fun s p => P_ctxExit s p.1)]

theorem P_failSuspended (s : State) (t : Nat) (e : Err) : P (s.failSuspended t e) = (P s).failSuspended t e := by
  unfold State.failSuspended
  simp only [P_computed]
  split
  · rfl
  · rw [P_complete, P_updTask _ _ _ (fun _ _ => rfl), P_exitAll]

theorem P_resumeContexts (s : State) (t : Nat) : P (s.resumeContexts t) = (P s).resumeContexts t := by
  unfold State.resumeContexts
  simp only [P_task, projT_ctxActive, projT_ctxs]
  split
  · rfl
  · have h : P ((s.task t).ctxs.foldl (fun s c => if s.ctxIsNonAsync c then s else s.ctxResumeOne c)
          (s.updTask t fun ts => { ts with ctxActive := true })) =
        (s.task t).ctxs.foldl (fun s c => if s.ctxIsNonAsync c then s else s.ctxResumeOne c)
          ((P s).updTask t fun ts => { ts with ctxActive := true }) := by
      rw [P_foldl, P_updTask _ _ _ (fun _ _ => rfl)]
      intro s c
      simp only [P_ctxIsNonAsync]
      rw [apply_ite P, P_ctxResumeOne]; rfl
    rw [← h]
    generalize ((s.task t).ctxs.foldl (fun s c => if s.ctxIsNonAsync c then s else s.ctxResumeOne c)
          (s.updTask t fun ts => { ts with ctxActive := true })) = s1
    simp only [P_ctxIsNonAsync_fun]
    rw [apply_ite P, P_failSuspended]; rfl

theorem P_pauseContexts (s : State) (t : Nat) : P (s.pauseContexts t) = (P s).pauseContexts t := by
  unfold State.pauseContexts
  simp only [P_task, projT_ctxActive, projT_ctxs]
  split
  · rfl
  · have h : P ((s.task t).ctxs.reverse.foldl (fun s c => if s.ctxIsNonAsync c then s else s.ctxPauseOne c)
          (s.updTask t fun ts => { ts with ctxActive := false })) =
        (s.task t).ctxs.reverse.foldl (fun s c => if s.ctxIsNonAsync c then s else s.ctxPauseOne c)
          ((P s).updTask t fun ts => { ts with ctxActive := false }) := by
      rw [P_foldl, P_updTask _ _ _ (fun _ _ => rfl)]
      intro s c
      simp only [P_ctxIsNonAsync]
      rw [apply_ite P, P_ctxPauseOne]; rfl
    rw [← h]
    generalize ((s.task t).ctxs.reverse.foldl (fun s c => if s.ctxIsNonAsync c then s else s.ctxPauseOne c)
          (s.updTask t fun ts => { ts with ctxActive := false })) = s1
    simp only [P_ctxIsNonAsync_fun]
    rw [apply_ite P, P_failSuspended]; rfl

end AsynqModel.Core.P9
