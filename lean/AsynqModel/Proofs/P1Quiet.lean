import AsynqModel.Proofs.P1Basic
/-!
  The frame relation `Quiet s s'`: `s'` is `s` plus some newly prepended non-flush events; computed outcomes are kept,
  the batch table and the configuration are untouched, futures are only added.  Every helper of the machine that does
  not touch batches is `Quiet`.  Lemmas are in post-composition form (`Quiet s x → Quiet s (F x)`) so that a proof is
  a sequence of `apply`s peeling the helpers off from the outside.
-/
namespace AsynqModel.Core.P1
open AsynqModel.Core

structure Quiet (s s' : State) : Prop where
  tr : ∃ es, s'.trace = es ++ s.trace ∧ ∀ e ∈ es, NF e = true
  out : ∀ f o, s.out f = some o → s'.out f = some o
  batches : s'.batches = s.batches
  len : s.futs.length ≤ s'.futs.length
  cfg : s'.cfg = s.cfg

namespace Quiet

theorem refl (s : State) : Quiet s s :=
  ⟨⟨[], rfl, by simp⟩, fun _ _ h => h, rfl, Nat.le_refl _, rfl⟩

theorem trans {s x y : State} (h1 : Quiet s x) (h2 : Quiet x y) : Quiet s y := by
  obtain ⟨⟨es1, ht1, hn1⟩, ho1, hb1, hl1, hc1⟩ := h1
  obtain ⟨⟨es2, ht2, hn2⟩, ho2, hb2, hl2, hc2⟩ := h2
  refine ⟨⟨es2 ++ es1, by rw [ht2, ht1, List.append_assoc], ?_⟩, fun f o h => ho2 f o (ho1 f o h), hb2.trans hb1,
    Nat.le_trans hl1 hl2, hc2.trans hc1⟩
  intro e he
  rcases List.mem_append.1 he with h | h
  · exact hn2 e h
  · exact hn1 e h

/-- only fields the relation does not look at differ -/
theorem congr {s x y : State} (h : Quiet s x) (ht : y.trace = x.trace) (hf : y.futs = x.futs)
    (hb : y.batches = x.batches) (hc : y.cfg = x.cfg) : Quiet s y := by
  obtain ⟨⟨es1, ht1, hn1⟩, ho1, hb1, hl1, hc1⟩ := h
  refine ⟨⟨es1, by rw [ht, ht1], hn1⟩, ?_, hb.trans hb1, by rw [hf]; exact hl1, hc.trans hc1⟩
  intro f o hfo
  have := ho1 f o hfo
  simpa [State.out, State.fut, hf] using this

/-- a record update of any of the fields the relation does not look at -/
theorem mk' {s x : State} (h : Quiet s x) (stack : List Nat) (sbatches : List (Nat × Nat)) (active : Option Nat)
    (ctl : List Ctl) (ctxs : List CtxSt) (sv : List (Nat × Nat)) (tops : List (Conv × Body)) (topIdx : Nat)
    (curTop : Option Nat) (raising : Option Err) (choices : List (Nat × Nat)) (stuck : Option String)
    (guardFired : Bool) :
    Quiet s { cfg := x.cfg, futs := x.futs, batches := x.batches, stack := stack, sbatches := sbatches,
              active := active, ctl := ctl, ctxs := ctxs, sv := sv, trace := x.trace, tops := tops, topIdx := topIdx,
              curTop := curTop, raising := raising, choices := choices, stuck := stuck, guardFired := guardFired } :=
  h.congr rfl rfl rfl rfl

theorem emit {s x : State} (h : Quiet s x) (e : Event) (he : NF e = true) : Quiet s (x.emit e) :=
  h.trans ⟨⟨[e], rfl, by simpa using he⟩, fun _ _ h => h, rfl, Nat.le_refl _, rfl⟩

theorem updTask {s x : State} (h : Quiet s x) (t : Nat) (g : TaskSt → TaskSt) : Quiet s (x.updTask t g) :=
  h.trans ⟨⟨[], rfl, by simp⟩, fun f o h => by simpa using h, rfl, by simp, rfl⟩

theorem fail {s x : State} (h : Quiet s x) (m : String) : Quiet s (x.fail m) :=
  h.congr rfl rfl rfl rfl

theorem complete {s x : State} (h : Quiet s x) (f : Nat) (o : Outcome) (hc : x.computed f = false) :
    Quiet s (x.complete f o) :=
  h.trans ⟨⟨[.done f o], rfl, by simp [NF]⟩, fun g o' h => out_complete_stable x f o hc g o' h, rfl, by simp, rfl⟩

theorem alloc {s x : State} (h : Quiet s x) (y : Fut) (nk : NewKind) : Quiet s (x.alloc y nk).1 :=
  h.trans ⟨⟨[.new x.futs.length nk], rfl, by simp [NF]⟩, fun g o' h => out_alloc_stable x y nk g o' h, rfl, by simp, rfl⟩

theorem svSet {s x : State} (h : Quiet s x) (var val : Nat) : Quiet s (x.svSet var val) := by
  unfold State.svSet
  split <;> exact h.congr rfl rfl rfl rfl

theorem svTouch {s x : State} (h : Quiet s x) (var : Nat) : Quiet s (x.svTouch var) := by
  unfold State.svTouch
  split
  · exact h
  · exact h.congr rfl rfl rfl rfl

theorem ctxSetResumed {s x : State} (h : Quiet s x) (c : Nat) (r : Bool) : Quiet s (x.ctxSetResumed c r) := by
  unfold State.ctxSetResumed
  split
  · exact h.congr rfl rfl rfl rfl
  · exact h

theorem popStack {s x : State} (h : Quiet s x) : Quiet s x.popStack := h.congr rfl rfl rfl rfl
theorem raiseOutOfWait {s x : State} (h : Quiet s x) (e : Err) : Quiet s (x.raiseOutOfWait e) := h.congr rfl rfl rfl rfl
theorem returnFromWait {s x : State} (h : Quiet s x) : Quiet s x.returnFromWait := h.congr rfl rfl rfl rfl

end Quiet

/-- peel helpers off the outside of the goal `Quiet s (F (G (... s)))` -/
macro "quiet" : tactic => `(tactic| repeat' (first
  | assumption
  | exact Quiet.refl _
  | refine Quiet.emit ?_ _ (by rfl)
  | refine Quiet.updTask ?_ _ _
  | refine Quiet.fail ?_ _
  | refine Quiet.svSet ?_ _ _
  | refine Quiet.svTouch ?_ _
  | refine Quiet.ctxSetResumed ?_ _ _
  | refine Quiet.popStack ?_
  | refine Quiet.raiseOutOfWait ?_ _
  | refine Quiet.returnFromWait ?_
  | refine Quiet.alloc ?_ _ _
  | refine Quiet.mk' ?_ ..))

/-! ### contexts -/

@[simp] theorem futs_svSet (s : State) (var val : Nat) : (s.svSet var val).futs = s.futs := by
  unfold State.svSet; split <;> rfl
@[simp] theorem futs_svTouch (s : State) (var : Nat) : (s.svTouch var).futs = s.futs := by
  unfold State.svTouch; split <;> rfl
@[simp] theorem futs_ctxSetResumed (s : State) (c : Nat) (r : Bool) : (s.ctxSetResumed c r).futs = s.futs := by
  unfold State.ctxSetResumed; split <;> rfl
@[simp] theorem futs_ctxPauseOne (s : State) (c : Nat) : (s.ctxPauseOne c).futs = s.futs := by
  unfold State.ctxPauseOne
  simp only []
  split
  · split <;> simp
  · simp

theorem out_of_futs {s s' : State} (h : s'.futs = s.futs) (f : Nat) : s'.out f = s.out f := by
  simp [State.out, State.fut, h]

@[simp] theorem out_ctxPauseOne (s : State) (c f : Nat) : (s.ctxPauseOne c).out f = s.out f :=
  out_of_futs (futs_ctxPauseOne s c) f

@[simp] theorem out_ctxExit (s : State) (c f : Nat) : (s.ctxExit c).out f = s.out f := by
  unfold State.ctxExit
  extract_lets owner s1 active s2
  clear_value owner
  have h1 : s1.out f = s.out f := by simp only [s1]; split <;> simp
  have h2 : s2.out f = s1.out f := by simp only [s2]; split <;> first | rfl | simp
  simp [h1, h2]

theorem out_foldl_ctxExit (l : List (Nat × Body)) (s : State) (f : Nat) :
    (l.foldl (fun s p => s.ctxExit p.1) s).out f = s.out f := by
  induction l generalizing s with
  | nil => rfl
  | cons p l ih => simp [List.foldl_cons, ih]

@[simp] theorem out_exitAll (s : State) (t f : Nat) : (s.exitAll t).out f = s.out f := by
  simp [State.exitAll, out_foldl_ctxExit]

@[simp] theorem computed_exitAll (s : State) (t f : Nat) : (s.exitAll t).computed f = s.computed f := by
  simp [State.computed]

namespace Quiet

theorem ctxResumeOne {s x : State} (h : Quiet s x) (c : Nat) : Quiet s (x.ctxResumeOne c) := by
  unfold State.ctxResumeOne
  simp only []
  split
  · split <;> quiet
  · quiet

theorem ctxPauseOne {s x : State} (h : Quiet s x) (c : Nat) : Quiet s (x.ctxPauseOne c) := by
  unfold State.ctxPauseOne
  simp only []
  split
  · split <;> quiet
  · quiet

theorem ctxExit {s x : State} (h : Quiet s x) (c : Nat) : Quiet s (x.ctxExit c) := by
  unfold State.ctxExit
  extract_lets owner s1 active s2
  clear_value owner
  have h1 : Quiet s s1 := by simp only [s1]; split <;> quiet
  have h2 : Quiet s s2 := by
    simp only [s2]; split
    · exact h1
    · exact h1.ctxPauseOne c
  quiet

theorem foldl_ctxExit {s : State} (l : List (Nat × Body)) {x : State} (h : Quiet s x) :
    Quiet s (l.foldl (fun s p => s.ctxExit p.1) x) := by
  induction l generalizing x with
  | nil => exact h
  | cons p l ih => exact ih (h.ctxExit p.1)

theorem exitAll {s x : State} (h : Quiet s x) (t : Nat) : Quiet s (x.exitAll t) := by
  unfold State.exitAll
  exact (foldl_ctxExit _ h).updTask _ _

theorem failSuspended {s x : State} (h : Quiet s x) (t : Nat) (e : Err) : Quiet s (x.failSuspended t e) := by
  unfold State.failSuspended
  split
  · exact h
  · next hc =>
    refine Quiet.complete ?_ _ _ (by simpa using hc)
    exact (h.exitAll t).updTask _ _

theorem foldl_resume {s : State} (l : List Nat) {x : State} (h : Quiet s x) :
    Quiet s (l.foldl (fun s c => if s.ctxIsNonAsync c then s else s.ctxResumeOne c) x) := by
  induction l generalizing x with
  | nil => exact h
  | cons c l ih =>
    refine ih ?_
    show Quiet s (if _ then _ else _)
    split
    · exact h
    · exact h.ctxResumeOne c

theorem foldl_pause {s : State} (l : List Nat) {x : State} (h : Quiet s x) :
    Quiet s (l.foldl (fun s c => if s.ctxIsNonAsync c then s else s.ctxPauseOne c) x) := by
  induction l generalizing x with
  | nil => exact h
  | cons c l ih =>
    refine ih ?_
    show Quiet s (if _ then _ else _)
    split
    · exact h
    · exact h.ctxPauseOne c

theorem resumeContexts {s x : State} (h : Quiet s x) (t : Nat) : Quiet s (x.resumeContexts t) := by
  unfold State.resumeContexts
  simp only []
  split
  · exact h
  · split
    · exact (foldl_resume _ (h.updTask _ _)).failSuspended _ _
    · exact foldl_resume _ (h.updTask _ _)

theorem pauseContexts {s x : State} (h : Quiet s x) (t : Nat) : Quiet s (x.pauseContexts t) := by
  unfold State.pauseContexts
  simp only []
  split
  · exact h
  · split
    · exact (foldl_pause _ (h.updTask _ _)).failSuspended _ _
    · exact foldl_pause _ (h.updTask _ _)

end Quiet

end AsynqModel.Core.P1
