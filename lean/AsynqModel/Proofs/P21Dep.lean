import AsynqModel.Proofs.P21Gen
/-
  P21, part 7 (towards a static bound of the scheduler stack): what one instruction does to `_dependencies` and to the
  structure yielded last, for the running task.
-/
namespace AsynqModel.Core.P21
open AsynqModel.Core

/-- not a yield: `prevY` stays, `deps` stay or are cleared -/
def DP (s r : State) (t : Nat) : Prop :=
  (r.task t).prevY = (s.task t).prevY ∧ ((r.task t).deps = (s.task t).deps ∨ (r.task t).deps = [])

/-- a yield: the futures of the yielded structure are appended to the (kept or cleared) dependencies -/
def YP (s r : State) (t : Nat) : Prop :=
  (s.task t).pending = false ∧ ∃ ry, (r.task t).prevY = ry ∧
    (r.task t).deps = (if s.cfg.keepDeps then (s.task t).deps else []) ++ extractFutures ry ∧
    ((∃ y k h, (s.task t).body = .yld y k h ∧ ry = y.mapLeaves (s.task t).resolve) ∨
     (∃ k h, (s.task t).body = .reyld k h ∧ ry = (s.task t).prevY))

theorem dp_refl (s : State) (t : Nat) : DP s s t := ⟨rfl, .inl rfl⟩

theorem dp_of_nz {s a : State} (nz : P10.NZ s a) (t : Nat) : DP s a t := ⟨(nz.ts t).prevY, (nz.ts t).deps⟩

theorem dp_of_task {s a r : State} {t : Nat} (h : DP s a t) (e : r.task t = a.task t) : DP s r t := by
  unfold DP at h ⊢; rw [e]; exact h

/-- then an update of the task that keeps `prevY` and keeps or clears `deps` -/
theorem dp_upd {s a : State} {t : Nat} (h : DP s a t) (ha : t < a.futs.length) {g : TaskSt → TaskSt}
    (hg1 : ∀ ts, (g ts).prevY = ts.prevY) (hg2 : ∀ ts, (g ts).deps = ts.deps ∨ (g ts).deps = []) :
    DP s (a.updTask t g) t := by
  unfold DP at h ⊢
  rw [task_upd_self a t g ha, hg1]
  refine ⟨h.1, ?_⟩
  rcases hg2 (a.task t) with e | e
  · rw [e]; exact h.2
  · exact .inr e

theorem dp_updE {s a : State} {t : Nat} (h : DP s a t) (ha : t < a.futs.length) {g : TaskSt → TaskSt} {e : Event}
    (hg1 : ∀ ts, (g ts).prevY = ts.prevY) (hg2 : ∀ ts, (g ts).deps = ts.deps ∨ (g ts).deps = []) :
    DP s ((a.updTask t g).emit e) t := dp_of_task (dp_upd h ha hg1 hg2) rfl

theorem dp_withCtl {s a : State} {t : Nat} (h : DP s a t) (c : List Ctl) : DP s { a with ctl := c } t :=
  dp_of_task h rfl

theorem dp_alloc {s : State} {t : Nat} (ht : t < s.futs.length) (x : Fut) (nk : NewKind) : DP s (s.alloc x nk).1 t := by
  refine dp_of_task (dp_refl s t) ?_
  rw [P10.task_alloc, if_neg (Nat.ne_of_lt ht)]

theorem dp_leaveGen {s a : State} {t : Nat} (h : DP s a t) (old : Option Nat) : DP s (a.leaveGen t old) t := by
  unfold DP at h ⊢
  have e : (a.leaveGen t old).task t = (a.updTask t fun ts => { ts with depsSched := false }).task t := rfl
  rw [e, P10.task_updTask]
  split <;> exact h

theorem dp_finishTask (s : State) (t : Nat) (old : Option Nat) (o : Outcome) : DP s (s.finishTask t old o) t := by
  unfold State.finishTask
  split
  · exact dp_refl s t
  · have nz : P10.NZ s (((s.exitAll t).updTask t fun ts => { ts with pending := false }).complete t o) :=
      ((P10.nz_exitAll s t).trans (P10.nz_updTask _ t _ P10.keep_pending_false)).trans (P10.nz_complete _ t o)
    exact dp_leaveGen (dp_of_nz nz t) old

theorem dp_item_key (s s1 : State) (t : Nat) (ht : t < s.futs.length) (e : s1.futs = s.futs) (fx : Fut) (nk : NewKind)
    (kind seq : Nat) (gb : Batch → Batch) (g : TaskSt → TaskSt)
    (hg1 : ∀ ts, (g ts).prevY = ts.prevY) (hg2 : ∀ ts, (g ts).deps = ts.deps ∨ (g ts).deps = []) :
    DP s (((s1.alloc fx nk).1.updBatch kind seq gb).updTask t g) t := by
  have h1 : DP s s1 t := dp_of_task (dp_refl s t) (by unfold State.task State.fut; rw [e])
  have ht1 : t < s1.futs.length := by rw [e]; exact ht
  have h2 : DP s ((s1.alloc fx nk).1.updBatch kind seq gb) t := by
    refine dp_of_task h1 ?_
    show ((s1.alloc fx nk).1.task t) = _
    rw [P10.task_alloc, if_neg (Nat.ne_of_lt ht1)]
  exact dp_upd h2 (by simp; omega) hg1 hg2

theorem task_leaveGen_eq (a : State) (t : Nat) (old : Option Nat) :
    ((a.leaveGen t old).task t).prevY = (a.task t).prevY ∧ ((a.leaveGen t old).task t).deps = (a.task t).deps := by
  have e : (a.leaveGen t old).task t = (a.updTask t fun ts => { ts with depsSched := false }).task t := rfl
  rw [e, P10.task_updTask]; split <;> exact ⟨rfl, rfl⟩

/-- the two forms of a yield (stay in the generator when there is nothing to wait for, else leave it) -/
theorem yp_yield (s : State) (t : Nat) (old : Option Nat) (ht : t < s.futs.length) (e : Event) (g : TaskSt → TaskSt)
    (deps : List Nat) (ry py : RY) (hg1 : ∀ ts, ts.prevY = py → (g ts).prevY = ry) (hg2 : ∀ ts, (g ts).deps = deps)
    (hpy : (s.task t).prevY = py := by rfl) :
    ((if deps.isEmpty then (s.emit e).updTask t g else ((s.emit e).updTask t g).leaveGen t old).task t).prevY = ry ∧
    ((if deps.isEmpty then (s.emit e).updTask t g else ((s.emit e).updTask t g).leaveGen t old).task t).deps = deps := by
  have h1 : (((s.emit e).updTask t g).task t) = g (s.task t) := task_upd_self _ _ _ (show t < (s.emit e).futs.length from ht)
  split
  · rw [h1]; exact ⟨hg1 _ hpy, hg2 _⟩
  · rw [(task_leaveGen_eq _ t old).1, (task_leaveGen_eq _ t old).2, h1]; exact ⟨hg1 _ hpy, hg2 _⟩

theorem genStep_dpy (s : State) (t : Nat) (old : Option Nat) (ht : t < s.futs.length) :
    DP s (s.genStep t old) t ∨ YP s (s.genStep t old) t := by
  unfold State.genStep
  dsimp only
  split
  · refine .inl ?_
    split
    · exact dp_updE (dp_refl s t) ht (fun _ => rfl) (fun _ => .inr rfl)
    · split
      · refine dp_updE (dp_refl s t) ht (fun _ => rfl) (fun ts => ?_)
        dsimp only; split
        · exact .inl rfl
        · exact .inr rfl
      · refine dp_updE (dp_refl s t) ht (fun _ => rfl) (fun ts => ?_)
        dsimp only; split
        · exact .inl rfl
        · exact .inr rfl
      · refine dp_updE (dp_refl s t) ht (fun _ => rfl) (fun ts => ?_)
        dsimp only; split
        · exact .inl rfl
        · exact .inr rfl
      · refine dp_updE (dp_refl s t) ht (fun _ => rfl) (fun ts => ?_)
        dsimp only; split
        · exact .inl rfl
        · exact .inr rfl
      · exact dp_refl s t
  · rename_i hpend
    have hpend : (s.task t).pending = false := by simpa using hpend
    split
    · exact .inl (dp_finishTask _ _ _ _)
    · exact .inl (dp_finishTask _ _ _ _)
    · exact .inl (dp_finishTask _ _ _ _)
    · exact .inl (dp_finishTask _ _ _ _)
    · -- spawn
      rename_i child pass k heq
      refine .inl (dp_upd ?_ (by simp [State.newTask]; omega) (fun _ => rfl) (fun _ => .inl rfl))
      unfold State.newTask
      exact dp_alloc ht _ _
    · -- item
      rename_i kind payload mode k heq
      refine .inl ?_
      cases hcb : s.curBatch? kind with
      | some b0 =>
        simp only [hcb]
        exact dp_item_key s s t ht rfl _ _ _ _ _ _ (fun _ => rfl) (fun _ => .inl rfl)
      | none =>
        simp only []
        split
        · exact dp_of_task (dp_refl s t) rfl
        · exact dp_item_key s { s with batches := s.batches ++ [({ kind := kind, seq := 0 } : Batch)] } t ht rfl _ _ _ _ _ _
            (fun _ => rfl) (fun _ => .inl rfl)
    · refine .inl (dp_upd (dp_alloc ht _ _) (by simp; omega) (fun _ => rfl) (fun _ => .inl rfl))
    · refine .inl (dp_upd (dp_alloc ht _ _) (by simp; omega) (fun _ => rfl) (fun _ => .inl rfl))
    · refine .inl (dp_upd (dp_alloc ht _ _) (by simp; omega) (fun _ => rfl) (fun _ => .inl rfl))
    · -- yld
      rename_i y k h heq
      have := yp_yield s t old ht (.yield t (s.task t).resumes (y.mapLeaves (s.task t).resolve))
        (fun ts => { ts with pending := true, lastY := y.mapLeaves (s.task t).resolve, prevY := y.mapLeaves (s.task t).resolve, prevYRef := y, deps := (if s.cfg.keepDeps then (s.task t).deps else []) ++ extractFutures (y.mapLeaves (s.task t).resolve) })
        ((if s.cfg.keepDeps then (s.task t).deps else []) ++ extractFutures (y.mapLeaves (s.task t).resolve))
        (y.mapLeaves (s.task t).resolve) (s.task t).prevY (fun _ _ => rfl) (fun _ => rfl)
      exact .inr ⟨hpend, y.mapLeaves (s.task t).resolve, this.1, this.2, .inl ⟨y, k, h, heq, rfl⟩⟩
    · -- reyld
      rename_i k h heq
      have := yp_yield s t old ht (.yield t (s.task t).resumes (s.task t).prevY)
        (fun ts => { ts with pending := true, lastY := (s.task t).prevY, deps := (if s.cfg.keepDeps then (s.task t).deps else []) ++ extractFutures (s.task t).prevY })
        ((if s.cfg.keepDeps then (s.task t).deps else []) ++ extractFutures (s.task t).prevY)
        (s.task t).prevY (s.task t).prevY (fun _ h => h) (fun _ => rfl)
      exact .inr ⟨hpend, (s.task t).prevY, this.1, this.2, .inr ⟨k, h, heq, rfl⟩⟩
    · -- sync
      rename_i child pass k h heq
      refine .inl ?_
      have hl : t < (s.newTask child (pass.map (s.task t).resolve)).1.futs.length := by
        simp [State.newTask]; omega
      refine dp_withCtl (dp_updE ?_ hl ?_ ?_) _
      · unfold State.newTask
        exact dp_alloc ht _ _
      · intro ts; rfl
      · intro ts; exact .inl rfl
    · -- syncfut
      rename_i r k h heq
      refine .inl ?_
      have d1 : DP s ((s.updTask t fun ts => { ts with body := .syncret ((s.task t).resolve r) k h }).emit
          (.syncE t ((s.task t).resolve r))) t :=
        dp_updE (dp_refl s t) ht (fun _ => rfl) (fun _ => .inl rfl)
      generalize ((s.updTask t fun ts => { ts with body := .syncret ((s.task t).resolve r) k h }).emit
          (.syncE t ((s.task t).resolve r))) = s1 at d1
      have tr : ∀ {a : State}, P10.NZ s1 a → DP s a t := fun nz => by
        unfold DP at d1 ⊢
        rw [(nz.ts t).prevY]
        refine ⟨d1.1, ?_⟩
        rcases (nz.ts t).deps with e | e
        · rw [e]; exact d1.2
        · exact .inr e
      split
      · exact d1
      · split
        · exact dp_withCtl d1 _
        · split
          · split
            · exact d1
            · rename_i b hb _
              exact tr (P10.nz_flushBatch s1 _ _ b hb)
          · exact d1
        · exact tr (P10.nz_complete s1 _ _)
        · exact d1
    · -- syncret
      rename_i f k h heq
      refine .inl ?_
      split
      · exact dp_refl s t
      · exact dp_updE (a := { s with raising := none }) (dp_of_task (dp_refl s t) rfl) ht (fun _ => rfl)
          (fun _ => .inl rfl)
      · exact dp_updE (a := { s with raising := none }) (dp_of_task (dp_refl s t) rfl) ht (fun _ => rfl)
          (fun _ => .inl rfl)
    · -- withCtx
      rename_i c b k heq
      have nz : P10.NZ s (P3.wc5 (P3.wc4 (P3.wc3 (P3.wc1 s c) s.ctxs.length t c) s.ctxs.length) c s.ctxs.length) := by
        have h1 : P10.NZ s (P3.wc1 s c) := by
          unfold P3.wc1; split
          · exact P10.nz_svTouch _ _
          · exact P10.NZ.refl _
        have h3 : ∀ s0 : State, P10.NZ s0 (P3.wc3 s0 s.ctxs.length t c) := fun s0 =>
          (P10.nz_emit s0 (.ctxN s.ctxs.length t c)).trans (P10.nz_of_futs rfl rfl rfl rfl rfl rfl rfl)
        have h4 : ∀ s0 : State, P10.NZ s0 (P3.wc4 s0 s.ctxs.length) := fun s0 => by
          unfold P3.wc4; split
          · exact P10.nz_updTask _ _ _ (fun ts => P10.keep_ctxs _ ts)
          · exact P10.NZ.refl _
        have h5 : ∀ s0 : State, P10.NZ s0 (P3.wc5 s0 c s.ctxs.length) := fun s0 => by
          unfold P3.wc5; split
          · exact P10.NZ.refl _
          · exact P10.nz_ctxResumeOne _ _
        exact ((h1.trans (h3 _)).trans (h4 _)).trans (h5 _)
      exact .inl (dp_upd (dp_of_nz nz t) (by rw [nz.len]; exact ht) (fun _ => rfl) (fun _ => .inl rfl))
    · -- endwith
      refine .inl ?_
      split
      · exact dp_finishTask _ _ _ _
      · rename_i cid k rest hc
        have nz := P10.nz_ctxExit s cid
        exact dp_upd (dp_of_nz nz t) (by rw [nz.len]; exact ht) (fun _ => rfl) (fun _ => .inl rfl)
    · -- read
      rename_i var k heq
      have nz : P10.NZ s ((s.svTouch var).emit (.read t var (.a ((s.svTouch var).svGet var)))) :=
        (P10.nz_svTouch _ _).trans (P10.nz_emit _ _)
      exact .inl (dp_upd (dp_of_nz nz t) (by rw [nz.len]; exact ht) (fun _ => rfl) (fun _ => .inl rfl))
    · -- active
      rename_i k heq
      have nz : P10.NZ s (s.emit (.active t s.active)) := P10.nz_emit _ _
      exact .inl (dp_upd (dp_of_nz nz t) (by rw [nz.len]; exact ht) (fun _ => rfl) (fun _ => .inl rfl))

end AsynqModel.Core.P21
