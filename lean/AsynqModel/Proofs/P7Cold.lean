import AsynqModel.Proofs.P7Bridge
import AsynqModel.Proofs.P10Flag
/-!
  P7: `Cold s` - hence `noRevisit` - on every reachable state of a WELL-SCOPED program (`P10.WSReach`) in which the
  stack guard has not fired and no NonAsyncContext exists.

  The invariant is `HotPos`: a task with resumed contexts is on the task stack and every entry above its first
  occurrence strictly precedes it in the creation order `P10.lt` (the analogue of `P10.CInv.pos` for hot instead of
  flagged tasks).  It is inductive from `P7.Cases` and three facts of P10: dependencies precede their task
  (`HInv.deps` + `named_lt`), the root of a `wait_for` precedes the generator it was called from (`BInv.chain`), a
  `wait_for` frame sits on a generator frame whose task is the top of the stack (`CInv.disc`).
-/
namespace AsynqModel.Core.P7
open AsynqModel.Core P5

/-- `o` occurs in `st` and everything above its first occurrence precedes it -/
def Pos (s : State) (st : List Nat) (o : Nat) : Prop :=
  ∃ pre post, st = pre ++ o :: post ∧ ∀ e, e ∈ pre → P10.lt s e o

def HotPos (s : State) : Prop := ∀ o, hot s o = true → Pos s s.stack o

theorem Pos.mono {s r : State} {st : List Nat} {o : Nat} (g : P10.Grow s r) (h : Pos s st o) : Pos r st o := by
  obtain ⟨pre, post, h1, h2⟩ := h
  exact ⟨pre, post, h1, fun e he => g.lt (h2 e he)⟩

theorem Pos.head (s : State) (o : Nat) (stk : List Nat) : Pos s (o :: stk) o :=
  ⟨[], stk, rfl, fun _ h => by cases h⟩

theorem Pos.pop {s : State} {top o : Nat} {stk : List Nat} (h : Pos s (top :: stk) o) (hne : o ≠ top) : Pos s stk o := by
  obtain ⟨pre, post, h1, h2⟩ := h
  cases pre with
  | nil => simp at h1; exact absurd h1.1.symm hne
  | cons a pre =>
    simp at h1
    exact ⟨pre, post, h1.2, fun e he => h2 e (List.mem_cons_of_mem _ he)⟩

theorem Pos.push {s : State} {st : List Nat} {o : Nat} (ds : List Nat) (h : Pos s st o)
    (hd : ∀ d, d ∈ ds → P10.lt s d o) : Pos s (ds ++ st) o := by
  obtain ⟨pre, post, h1, h2⟩ := h
  refine ⟨ds ++ pre, post, by rw [h1, List.append_assoc], ?_⟩
  intro e he
  rcases List.mem_append.1 he with he | he
  · exact hd e he
  · exact h2 e he

/-- the top of the stack precedes-or-equals every positioned entry -/
theorem Pos.head_le {s : State} {t o : Nat} {stk : List Nat} (h : Pos s (t :: stk) o) : P10.le s t o := by
  obtain ⟨pre, post, h1, h2⟩ := h
  cases pre with
  | nil => simp at h1; exact Or.inl h1.1
  | cons a pre => simp at h1; rw [h1.1]; exact (h2 a List.mem_cons_self).le

theorem Pos.not_nil {s : State} {o : Nat} (h : Pos s [] o) : False := by
  obtain ⟨pre, post, h1, _⟩ := h
  cases pre <;> simp at h1

/-! ### one step -/

theorem hotPos_step (s : State) (hs : P10.WSReach s) (g : Good s) (k : K s) (hp : HotPos s)
    (hg0 : s.guardFired = false) (hg : (step s).guardFired = false) (hna : NA (step s)) : HotPos (step s) := by
  have hi := (P10.ws_hinv hs).1
  have gr : P10.Grow s (step s) := ((P10.ws_step_sh hs).base (P10.ws_hinv hs).2).grow
  have hreg := g.i.j.reg
  intro o ho
  cases step_cases s g.pi.items g.co.raising with
  | neutral q hst hsf =>
    rw [hst]; exact (hp o (by rw [← hot_q q o]; exact ho)).mono gr
  | top f hctl e =>
    have q := q_finishTop s f
    have hst : (step s).stack = s.stack := by rw [e]; rfl
    rw [hst]
    exact (hp o (by rw [← hot_q q o, ← e]; exact ho)).mono gr
  | enterLoop root rest hctl hnc q hst hc =>
    have ho' : hot s o = true := by rw [← hot_q q o]; exact ho
    have hpo := hp o ho'
    rw [hst]
    refine Pos.mono gr ?_
    -- the root precedes the calling generator's task, which is the top of the stack
    have hd := (P10.ws_cinv hs hg0).disc
    rw [hctl] at hd
    rcases hd.1 with hnil | ⟨t, o', rest', hrest⟩
    · rw [hnil] at hd
      have : s.stack = [] := hd.2
      rw [this] at hpo
      exact absurd hpo Pos.not_nil
    · rw [hrest] at hd
      have hhead : s.stack.head? = some t := hd.2.1
      have hch := (P10.ws_binv hs).chain
      rw [hctl, hrest] at hch
      have hrt : P10.lt s root t := by
        have := (List.pairwise_cons.1 hch).1 _ List.mem_cons_self
        simpa only [P10.nest, P10.node] using this
      obtain ⟨stk, hstk⟩ : ∃ stk, s.stack = t :: stk := by
        cases hs' : s.stack with
        | nil => rw [hs'] at hhead; simp at hhead
        | cons a l => rw [hs'] at hhead; simp at hhead; exact ⟨l, by rw [hhead]⟩
      rw [hstk] at hpo
      have hro : P10.lt s root o := P10.lt_le_trans hrt hpo.head_le
      rw [hstk]
      have := Pos.push [root] hpo (fun d hd => by simp at hd; rw [hd]; exact hro)
      simpa using this
  | pop root base rest top stk hctl hst hlen hno q hst' hc =>
    have ho' : hot s o = true := by rw [← hot_q q o]; exact ho
    have hne : o ≠ top := by
      intro h
      subst h
      obtain ⟨h1, h2⟩ := k.live o (hot_ctxs ho').2
      rcases hno with h | h
      · rw [h2] at h; cases h
      · exact h h1
    rw [hst']
    have := hp o ho'
    rw [hst] at this
    exact (this.pop hne).mono gr
  | suspend root base rest t stk hctl hst hlen hk hnc hsched e =>
    have ht := lt_of_kind_task s t hk
    obtain ⟨fl, _⟩ := flip_pause s t (fun ts => { ts with depsSched := false }) (fun _ => rfl) (fun _ => rfl)
      (fun _ => rfl) g.na ht (g.i.d t hsched)
    generalize (s.updTask t fun ts => { ts with depsSched := false }).pauseContexts t = s2 at fl e
    have ho2 : hot s2 o = true := by rw [e] at ho; exact ho
    have hne : o ≠ t := by
      intro h; subst h
      simp [hot, fl.tact] at ho2
    have ho' : hot s o = true := by rw [← ho2]; simp [hot, fl.op.tne o hne]
    have hstk : (step s).stack = stk := by
      rw [e]
      show s2.stack.tail = stk
      rw [fl.op.stack, hst]; rfl
    rw [hstk]
    have := hp o ho'
    rw [hst] at this
    exact (this.pop hne).mono gr
  | visit root base rest t stk hctl hst hlen hk hnc hsched ds hds e =>
    have ht := lt_of_kind_task s t hk
    have hdl : ∀ d, d ∈ ds.reverse → P10.lt s d t := fun d hd =>
      hi.named_lt (hi.deps t d (hds d (List.mem_reverse.1 hd)).1)
    -- the new stack and the hot tasks other than `t`
    have key : (step s).stack = ds.reverse ++ s.stack ∧ ∀ u, u ≠ t → hot (step s) u = hot s u := by
      rw [e]
      by_cases hact : (s.task t).ctxActive = true
      · have hts : (s.updTask t fun ts => { ts with depsSched := true }).task t = { s.task t with depsSched := true } :=
          task_updTask_self _ _ _ ht
        rw [nf_resume_active _ t (by rw [hts]; exact hact)]
        refine ⟨rfl, fun u hu => ?_⟩
        show hot (s.updTask t fun ts => { ts with depsSched := true }) u = hot s u
        simp [hot, task_updTask_ne _ _ _ _ hu]
      · obtain ⟨fl, _⟩ := flip_resume s t (fun ts => { ts with depsSched := true }) (fun _ => rfl) (fun _ => rfl)
          (fun _ => rfl) g.na ht (by simpa using hact)
        refine ⟨?_, fun u hu => ?_⟩
        · show ds.reverse ++ ((s.updTask t fun ts => { ts with depsSched := true }).resumeContexts t).stack = _
          rw [fl.op.stack]
        · show hot ((s.updTask t fun ts => { ts with depsSched := true }).resumeContexts t) u = hot s u
          simp [hot, fl.op.tne u hu]
    rw [key.1, hst]
    by_cases hne : o = t
    · subst hne
      exact Pos.mono gr ((Pos.head s o stk).push ds.reverse hdl)
    · have ho' : hot s o = true := by rw [← key.2 o hne]; exact ho
      have hpo := hp o ho'
      rw [hst] at hpo
      have hto : P10.lt s t o := by
        rcases hpo.head_le with h | h
        · exact absurd h.symm hne
        · exact h
      exact Pos.mono gr (hpo.push ds.reverse (fun d hd => P10.lt_trans (hdl d hd) hto))
  | enterGen root base rest t stk hctl hst hlen hk hnc e =>
    have ht := lt_of_kind_task s t hk
    have key : (step s).stack = s.stack ∧ ∀ u, u ≠ t → hot (step s) u = hot s u := by
      rw [e]
      by_cases hact : (s.task t).ctxActive = true
      · rw [nf_resume_active _ t hact]
        exact ⟨rfl, fun u _ => rfl⟩
      · obtain ⟨fl, _⟩ := flip_resume s t (fun ts => ts) (fun _ => rfl) (fun _ => rfl) (fun _ => rfl) g.na ht
          (by simpa using hact)
        rw [updTask_id] at fl
        refine ⟨?_, fun u hu => ?_⟩
        · show (s.resumeContexts t).stack = _
          rw [fl.op.stack]
        · show hot (s.resumeContexts t) u = hot s u
          simp [hot, fl.op.tne u hu]
    rw [key.1, hst]
    by_cases hne : o = t
    · subst hne; exact Pos.head _ o stk
    · have ho' : hot s o = true := by rw [← key.2 o hne]; exact ho
      have := hp o ho'
      rw [hst] at this
      exact this.mono gr
  | gen t old rest hctl hst hsf gc =>
    have ru := g.running hctl
    obtain ⟨stk, hstk⟩ : ∃ stk, s.stack = t :: stk := by
      have := k.sf
      rw [hctl, SF_gen] at this
      cases hs' : s.stack with
      | nil => rw [hs'] at this; simp at this
      | cons a l => rw [hs'] at this; simp at this; exact ⟨l, by rw [this.1]⟩
    rw [hst, hstk]
    by_cases hne : o = t
    · subst hne; exact Pos.head _ o stk
    · have fin : hot s o = true → Pos (step s) (t :: stk) o := by
        intro ho'
        have := hp o ho'
        rw [hstk] at this
        exact this.mono gr
      have finOp : ∀ {cs : List Nat} {b : Bool} {ctxs' : List Nat} {conts' : List (Nat × Body)},
          GenOp s (step s) t cs b ctxs' conts' → hot s o = true := by
        intro cs b ctxs' conts' go
        rw [← ho]; simp [hot, go.op.tne o hne]
      cases gc with
      | neutral q => exact fin (by rw [← hot_q q o]; exact ho)
      | withCtx c b kk s0 h0 e =>
        have hc : c ≠ .nonasync := by
          intro hc
          subst hc
          have hent : (step s).ctxs[s.ctxs.length]? = some { kind := .nonasync, owner := s0.active } := by
            rw [e]
            simp only [beq_self_eq_true, if_true, updTask_ctxs]
            exact newCtx_entry s0 _ t _ (by rcases h0 with rfl | ⟨v, rfl⟩ <;> simp)
          exact hna _ _ hent rfl
        obtain ⟨go, _⟩ := enter_spec s s0 t c b kk g.na hc ru.lt ru.active h0
        have e' : step s = enterSt s s0 t c b kk := e
        rw [← e'] at go
        exact fin (finOp go)
      | endwith cid kk cs hconts e =>
        have hcid : cid ∈ (s.task t).ctxs := by
          have := k.k1 t
          rw [hconts] at this
          have h2 : cid ∈ (s.task t).ctxs.reverse := by rw [← this]; simp
          exact List.mem_reverse.1 h2
        obtain ⟨x, hx, hxo, _⟩ := hreg t cid hcid
        obtain ⟨go, _⟩ := endwith_spec s t cid kk cs g.na ru.lt ru.act hconts (k.k1 t) (g.i.j.nodup t) x hx hxo
        rw [← e] at go
        exact fin (finOp go)
      | finish o' hnc e =>
        obtain ⟨go, _⟩ := finish_spec s t old o' g.na ru.lt ru.act (k.k1 t) (g.i.j.nodup t)
          (fun c hc => by obtain ⟨x, hx, hxo, _⟩ := hreg t c hc; exact ⟨x, hx, hxo⟩)
        rw [← e] at go
        exact fin (finOp go)
  | guard h => rw [h] at hg; cases hg

theorem hotPos_init (cfg : Cfg) (tops : List (Conv × Body)) (choices : List (Nat × Nat)) :
    HotPos (initState cfg tops choices) := by
  intro o ho
  have ht : (initState cfg tops choices).task o = {} := task_default _ o (Nat.zero_le _)
  simp [hot, ht] at ho

theorem hotPos_reach {s : State} (h : P10.WSReach s) (hg : s.guardFired = false) (hna : NA s) : HotPos s := by
  induction h with
  | init cfg tops choices _ => exact hotPos_init cfg tops choices
  | @step s hs ih =>
    have hg0 := P3.guard_mono s hg
    have hna0 := na_back s hs.reach hna
    exact hotPos_step s hs (good_of_reach hs.reach hg0 hna0) (K_reach hs.reach hg0 hna0) (ih hg0 hna0) hg0 hg hna

/-! ### `Cold`, `noRevisit` -/

theorem cold_of_ws {s : State} (h : P10.WSReach s) (hg : s.guardFired = false) (hna : NA s) : Cold s := by
  have hi := (P10.ws_hinv h).1
  have hp := hotPos_reach h hg hna
  refine ⟨?_, ?_⟩
  · intro root rest hctl _
    cases hh : hot s root with
    | false => rfl
    | true =>
      exfalso
      have hpo := hp root hh
      have hd := (P10.ws_cinv h hg).disc
      rw [hctl] at hd
      rcases hd.1 with hnil | ⟨t, o', rest', hrest⟩
      · rw [hnil] at hd
        have : s.stack = [] := hd.2
        rw [this] at hpo
        exact hpo.not_nil
      · rw [hrest] at hd
        have hhead : s.stack.head? = some t := hd.2.1
        have hch := (P10.ws_binv h).chain
        rw [hctl, hrest] at hch
        have hrt : P10.lt s root t := by
          have := (List.pairwise_cons.1 hch).1 _ List.mem_cons_self
          simpa only [P10.nest, P10.node] using this
        obtain ⟨stk, hstk⟩ : ∃ stk, s.stack = t :: stk := by
          cases hs' : s.stack with
          | nil => rw [hs'] at hhead; simp at hhead
          | cons a l => rw [hs'] at hhead; simp at hhead; exact ⟨l, by rw [hhead]⟩
        rw [hstk] at hpo
        exact hi.irrefl root (P10.lt_le_trans hrt hpo.head_le)
  · intro root base rest t stk hctl hst _ _ _ _ d hd _
    have hdt : P10.lt s d t := hi.named_lt (hi.deps t d hd)
    refine ⟨fun h => hi.irrefl t (by rw [h] at hdt; exact hdt), ?_⟩
    cases hh : hot s d with
    | false => rfl
    | true =>
      exfalso
      have hpo := hp d hh
      rw [hst] at hpo
      exact hi.irrefl d (P10.lt_le_trans hdt hpo.head_le)

/-- every reachable state of a well-scoped program (guard not fired, no NonAsyncContext) is reachable by a
    `noRevisit` run -/
theorem reachNR_of_ws {s : State} (h : P10.WSReach s) (hg : s.guardFired = false) (hna : NA s) : ReachNR s := by
  induction h with
  | init cfg tops choices _ => exact ReachNR.init cfg tops choices
  | @step s hs ih =>
    have hg0 := P3.guard_mono s hg
    have hna0 := na_back s hs.reach hna
    exact ReachNR.step (ih hg0 hna0)
      (noRevisit_of_cold s (good_of_reach hs.reach hg0 hna0) hg (cold_of_ws hs hg0 hna0))

end AsynqModel.Core.P7
