import AsynqModel.Proofs.P4Instr1
/-! P4: instructions that only change the running task's own state: `read`, `active`, `syncret`, `withCtx`, `endwith` -/
namespace AsynqModel.Core.P4
open AsynqModel.Core

theorem good_still {s s' : State} (G : Good s) (q : Still s s') : Good s' :=
  ⟨G.fi.comp q.1.comp, G.ci.comp q.1.comp q.1.ctl (by rw [q.1.raising]; exact G.ci.raising) q.1.tasks,
   fun p hp => G.tops p (q.1.tops ▸ hp)⟩

theorem good_quiet {s s' : State} (G : Good s) (q : Quiet s s') : Good s' :=
  ⟨G.fi.comp q.comp, G.ci.comp q.comp q.ctl (by rw [q.raising]; exact G.ci.raising) q.tasks,
   fun p hp => G.tops p (q.tops ▸ hp)⟩

theorem Still.fut_core {s s' : State} (q : Still s s') (t : Nat) :
    (s'.fut t).ts.pending = (s.fut t).ts.pending ∧ (s'.fut t).ts.body = (s.fut t).ts.body := by
  obtain ⟨h1, _, _, _, _, _, h7, _⟩ := coreA_fields (q.core t)
  exact ⟨h7, h1⟩

/-- the running task changes its body / environment / caught exception / open with-blocks -/
theorem good_selfUpd {s : State} (G : Good s) {t : Nat} {old : Option Nat} {rest : List Ctl}
    (hctl : s.ctl = .gen t old :: rest) (g : TaskSt → TaskSt)
    (hg : (g (s.fut t).ts).own = (s.fut t).ts.own ∧ (g (s.fut t).ts).inh = (s.fut t).ts.inh ∧
      (g (s.fut t).ts).pending = false ∧ (g (s.fut t).ts).prevY = (s.fut t).ts.prevY ∧
      (g (s.fut t).ts).prevYRef = (s.fut t).ts.prevYRef)
    (hsync : wsTask (s.fut t).ts = true → ∀ f k b, (g (s.fut t).ts).body = .syncret f k b → f < s.futs.length)
    (hws : wsTask (s.fut t).ts = true → wsTask (g (s.fut t).ts) = true)
    (hden : wsTask (s.fut t).ts = true →
      tden s.cfg (g (s.fut t).ts) (Inv.dens s (s.fut t).ts.own) (Inv.dens s (s.fut t).ts.inh) (fun f => (s.fut f).den) =
      tden s.cfg (s.fut t).ts (Inv.dens s (s.fut t).ts.own) (Inv.dens s (s.fut t).ts.inh) (fun f => (s.fut f).den)) :
    Good (s.updTask t g) := by
  obtain ⟨hk, ho, hlt⟩ := G.top hctl
  obtain ⟨g1, g2, g3, g4, g5⟩ := hg
  have hw := G.fi.wsc t ho
  refine ⟨?_, ?_, ?_⟩
  · apply G.fi.updSelf t g hlt
    · rw [g1]; exact G.fi.ownLt t
    · rw [g2]; exact G.fi.inhLt t
    · intro f k b _ hb; exact hsync hw f k b hb
    · intro _; exact hws hw
    · intro _ _
      rw [g1, g2, hden hw, ← taskDen_eq]; exact G.fi.taskOK t hk ho
    · rw [g1, g2, g5]; exact G.fi.prevScoped t
    · rw [g4, g5, TaskSt.resolve_congr g1 g2]; exact G.fi.prevEq t
    · intro _ hp; rw [g3] at hp; cases hp
    · intro _ _ _ _ hp; rw [g3] at hp; cases hp
    · intro hp; rw [g3] at hp; cases hp
  · apply G.ci.selfRun (s' := s.updTask t g) hctl (.inl rfl) G.ci.raising (taskPres_updTask _ _ _ (fun _ => g3))
    rw [fut_updTask_self _ _ _ hlt]; exact g3
  · exact G.tops

/-- instructions `body := k` whose sequential reading is "continue with k" -/
theorem good_skip {s : State} (G : Good s) {t : Nat} {old : Option Nat} {rest : List Ctl}
    (hctl : s.ctl = .gen t old :: rest) (hnp : (s.fut t).ts.pending = false) (k : Body)
    (hev : ∀ κ, ws (s.fut t).ts.body (s.fut t).ts.own.length (s.fut t).ts.inh.length κ = true →
      ws k (s.fut t).ts.own.length (s.fut t).ts.inh.length κ = true ∧
      ∀ env own inh caught pv, evalBody s.cfg (s.fut t).ts.body env own inh caught pv =
        evalBody s.cfg k env own inh caught pv)
    (hns : ∀ g k b, (s.fut t).ts.body ≠ .syncret g k b) :
    Good (s.updTask t fun ts => { ts with body := k }) := by
  have key : wsTask (s.fut t).ts = true →
      ws k (s.fut t).ts.own.length (s.fut t).ts.inh.length (contsK (s.fut t).ts.inh.length (s.fut t).ts.conts) = true ∧
      ∀ env own inh caught pv, evalBody s.cfg (s.fut t).ts.body env own inh caught pv =
        evalBody s.cfg k env own inh caught pv := by
    intro hw; rw [wsTask_plain _ hns] at hw; exact hev _ hw
  apply good_selfUpd G hctl
  · exact ⟨rfl, rfl, hnp, rfl, rfl⟩
  · intro hw f k' b hb
    exact absurd hb (ws_not_syncret (key hw).1 f k' b)
  · intro hw
    rw [wsTask_plain _ (ws_not_syncret (key hw).1)]
    exact (key hw).1
  · intro hw
    rw [tden_plain _ _ _ _ _ (ws_not_syncret (key hw).1), tden_plain _ _ _ _ _ hns, (key hw).2]

theorem good_read {s : State} (G : Good s) {t : Nat} {old : Option Nat} {rest : List Ctl}
    (hctl : s.ctl = .gen t old :: rest) (hnp : (s.fut t).ts.pending = false) (var : Nat) (k : Body)
    (hb : (s.fut t).ts.body = .read var k) (e : Event) (he : ∀ s', okEv s' e) :
    Good (((s.svTouch var).emit e).updTask t fun ts => { ts with body := k }) := by
  have q : Still s ((s.svTouch var).emit e) := (still_svTouch s var).trans (still_emit _ e (he _))
  have G1 := good_still G q
  have hb1 := (q.fut_core t).2.trans hb
  apply good_skip G1 (q.1.ctl.trans hctl) ((q.fut_core t).1.trans hnp)
  · intro κ hw
    rw [hb1] at hw ⊢
    exact ⟨by simpa [ws] using hw, by intros; simp [evalBody]⟩
  · rw [hb1]; intro _ _ _; nofun

theorem good_active {s : State} (G : Good s) {t : Nat} {old : Option Nat} {rest : List Ctl}
    (hctl : s.ctl = .gen t old :: rest) (hnp : (s.fut t).ts.pending = false) (k : Body)
    (hb : (s.fut t).ts.body = .active k) (e : Event) (he : ∀ s', okEv s' e) :
    Good ((s.emit e).updTask t fun ts => { ts with body := k }) := by
  have q : Still s (s.emit e) := still_emit _ e (he _)
  have G1 := good_still G q
  have hb1 := (q.fut_core t).2.trans hb
  apply good_skip G1 (q.1.ctl.trans hctl) ((q.fut_core t).1.trans hnp)
  · intro κ hw
    rw [hb1] at hw ⊢
    exact ⟨by simpa [ws] using hw, by intros; simp [evalBody]⟩
  · rw [hb1]; intro _ _ _; nofun

theorem good_setRaising {s : State} (G : Good s) : Good { s with raising := none } :=
  ⟨⟨G.fi.agree, G.fi.taskOK, G.fi.ownLt, G.fi.inhLt, G.fi.syncLt, G.fi.wsc, G.fi.prevScoped, G.fi.prevEq, G.fi.lastEq,
    G.fi.yldEq, G.fi.depsOK, G.fi.itemDen, G.fi.lazyDen, G.fi.batchItems⟩,
   ⟨G.ci.distinct, G.ci.bnp, G.ci.ready, G.ci.genTask, G.ci.genOut, rfl⟩, G.tops⟩

theorem good_setCtxs {s : State} (G : Good s) (l : List CtxSt) : Good { s with ctxs := l } :=
  ⟨⟨G.fi.agree, G.fi.taskOK, G.fi.ownLt, G.fi.inhLt, G.fi.syncLt, G.fi.wsc, G.fi.prevScoped, G.fi.prevEq, G.fi.lastEq,
    G.fi.yldEq, G.fi.depsOK, G.fi.itemDen, G.fi.lazyDen, G.fi.batchItems⟩,
   ⟨G.ci.distinct, G.ci.bnp, G.ci.ready, G.ci.genTask, G.ci.genOut, G.ci.raising⟩, G.tops⟩

/-- `value()` of future `f` returns inside the running task -/
theorem good_syncret {s : State} (G : Good s) {t : Nat} {old : Option Nat} {rest : List Ctl}
    (hctl : s.ctl = .gen t old :: rest) (hnp : (s.fut t).ts.pending = false) (f : Nat) (k h : Body)
    (hb : (s.fut t).ts.body = .syncret f k h) (o : Outcome) (ho : (s.fut f).out = some o) (e : Event)
    (he : ∀ s', okEv s' e) :
    Good (match o with
      | .ok v => (s.updTask t fun ts => { ts with env := ts.env ++ [v], body := k }).emit e
      | .err x => (s.updTask t fun ts => { ts with caught := some x, body := h }).emit e) := by
  have hd : (s.fut f).den = o := (G.fi.agree f o ho).symm
  have G1 := G
  have hw : wsTask (s.fut t).ts = true →
      ws k (s.fut t).ts.own.length (s.fut t).ts.inh.length (contsK (s.fut t).ts.inh.length (s.fut t).ts.conts) = true ∧
      ws h (s.fut t).ts.own.length (s.fut t).ts.inh.length (contsK (s.fut t).ts.inh.length (s.fut t).ts.conts) = true := by
    intro hw; unfold wsTask at hw; rw [hb] at hw; simpa using hw
  cases o with
  | ok v =>
    refine good_still ?_ (still_emit _ e (he _))
    apply good_selfUpd G1 hctl
    · exact ⟨rfl, rfl, hnp, rfl, rfl⟩
    · intro hw' g k' b hb'; exact absurd hb' (ws_not_syncret (hw hw').1 g k' b)
    · intro hw'; rw [wsTask_plain _ (ws_not_syncret (hw hw').1)]; exact (hw hw').1
    · intro hw'
      rw [tden_plain _ _ _ _ _ (ws_not_syncret (hw hw').1)]
      show _ = tden s.cfg (s.fut t).ts _ _ (fun f => (s.fut f).den)
      unfold tden
      rw [hb]
      simp only [hd]
  | err x =>
    refine good_still ?_ (still_emit _ e (he _))
    apply good_selfUpd G1 hctl
    · exact ⟨rfl, rfl, hnp, rfl, rfl⟩
    · intro hw' g k' b hb'; exact absurd hb' (ws_not_syncret (hw hw').2 g k' b)
    · intro hw'; rw [wsTask_plain _ (ws_not_syncret (hw hw').2)]; exact (hw hw').2
    · intro hw'
      rw [tden_plain _ _ _ _ _ (ws_not_syncret (hw hw').2)]
      show _ = tden s.cfg (s.fut t).ts _ _ (fun f => (s.fut f).den)
      unfold tden
      rw [hb]
      simp only [hd]

/-- entering a with-block (after the context bookkeeping `s → s1`, a scheduler-only move) -/
theorem good_withCtx {s : State} (G : Good s) {t : Nat} {old : Option Nat} {rest : List Ctl}
    (hctl : s.ctl = .gen t old :: rest) (hnp : (s.fut t).ts.pending = false) (c : CtxKind) (b k : Body) (cid : Nat)
    (hb : (s.fut t).ts.body = .withCtx c b k) :
    Good (s.updTask t fun ts => { ts with conts := (cid, k) :: ts.conts, body := b }) := by
  have hns : ∀ g k' b', (s.fut t).ts.body ≠ .syncret g k' b' := by rw [hb]; intro _ _ _; nofun
  have hw : wsTask (s.fut t).ts = true →
      ws b (s.fut t).ts.own.length (s.fut t).ts.inh.length
        (contsK (s.fut t).ts.inh.length ((cid, k) :: (s.fut t).ts.conts)) = true := by
    intro hw; rw [wsTask_plain _ hns, hb] at hw; simpa [ws, contsK] using hw
  apply good_selfUpd G hctl
  · exact ⟨rfl, rfl, hnp, rfl, rfl⟩
  · intro hw' g k' b' hb'; exact absurd hb' (ws_not_syncret (hw hw') g k' b')
  · intro hw'; rw [wsTask_plain _ (ws_not_syncret (hw hw'))]; exact hw hw'
  · intro hw'
    rw [tden_plain _ _ _ _ _ (ws_not_syncret (hw hw')), tden_plain _ _ _ _ _ hns, hb]
    simp only [Inv.evalConts, evalBody]
    split <;> simp_all [evalConts_done]

/-- leaving the innermost with-block -/
theorem good_endwith {s : State} (G : Good s) {t : Nat} {old : Option Nat} {rest : List Ctl}
    (hctl : s.ctl = .gen t old :: rest) (hnp : (s.fut t).ts.pending = false) (cid : Nat) (k : Body)
    (rest' : List (Nat × Body))
    (hb : (s.fut t).ts.body = .endwith) (hc : (s.fut t).ts.conts = (cid, k) :: rest') :
    Good (s.updTask t fun ts => { ts with conts := rest', body := k }) := by
  have hns : ∀ g k' b', (s.fut t).ts.body ≠ .syncret g k' b' := by rw [hb]; intro _ _ _; nofun
  have hw : wsTask (s.fut t).ts = true →
      ws k (s.fut t).ts.own.length (s.fut t).ts.inh.length (contsK (s.fut t).ts.inh.length rest') = true := by
    intro hw; rw [wsTask_plain _ hns, hb, hc] at hw; simpa [ws, contsK] using hw
  apply good_selfUpd G hctl
  · exact ⟨rfl, rfl, hnp, rfl, rfl⟩
  · intro hw' g k' b' hb'; exact absurd hb' (ws_not_syncret (hw hw') g k' b')
  · intro hw'; rw [wsTask_plain _ (ws_not_syncret (hw hw'))]; exact hw hw'
  · intro hw'
    rw [tden_plain _ _ _ _ _ (ws_not_syncret (hw hw')), tden_plain _ _ _ _ _ hns, hb, hc]
    simp only [Inv.evalConts, evalBody]

end AsynqModel.Core.P4
