import AsynqModel.Proofs.P4GenStep
import AsynqModel.Proofs.P4Mono
/-! P4: the scheduler's own transitions, and `step` as a whole, preserve the invariant -/
namespace AsynqModel.Core.P4
open AsynqModel.Core

/-- a move that keeps heap, batches, control stack -/
theorem good_same {s s' : State} (G : Good s) (hc : s'.cfg = s.cfg) (hf : s'.futs = s.futs)
    (hb : s'.batches = s.batches) (hctl : s'.ctl = s.ctl) (hr : s'.raising = s.raising) (ht : s'.tops = s.tops) :
    Good s' :=
  ⟨G.fi.comp (Comp.ofEq hc hf hb),
   G.ci.comp (Comp.ofEq hc hf hb) hctl (by rw [hr]; exact G.ci.raising) (fun f _ => by simp [State.fut, hf]),
   fun p hp => G.tops p (ht ▸ hp)⟩

def Ctl.isGen : Ctl → Bool
  | .gen _ _ => true
  | _ => false

theorem gensOf_cons_nongen (c : Ctl) (rest : List Ctl) (h : Ctl.isGen c = false) :
    Inv.gensOf (c :: rest) = Inv.gensOf rest := by
  cases c <;> simp_all [Inv.gensOf, Ctl.isGen]

/-- the innermost frame (not a generator frame) is replaced by another non-generator frame -/
theorem CI.replaceTop {s s' : State} (h : CI s) {c c' : Ctl} {rest : List Ctl} (hctl : s.ctl = c :: rest)
    (hc : Ctl.isGen c = false) (hc' : Ctl.isGen c' = false) (hctl' : s'.ctl = c' :: rest)
    (hf : s'.futs = s.futs) (hr : s'.raising = none) : CI s' := by
  have hfut : ∀ f, s'.fut f = s.fut f := fun f => by simp [State.fut, hf]
  have hg : Inv.gensOf s'.ctl = Inv.gensOf s.ctl := by
    rw [hctl, hctl', gensOf_cons_nongen _ _ hc, gensOf_cons_nongen _ _ hc']
  constructor
  · rw [hg]; exact h.distinct
  · intro c0 rest' hcr p hp
    rw [hctl'] at hcr; cases hcr
    rw [hfut]; exact h.bnp c rest hctl p hp
  · intro t old rest' hcr
    rw [hctl'] at hcr; cases hcr
    simp [Ctl.isGen] at hc'
  · intro p hp; rw [hfut]; exact h.genTask p (hg ▸ hp)
  · intro p hp; rw [hfut]; exact h.genOut p (hg ▸ hp)
  · exact hr

theorem not_mem_gens_of_any {ctl : List Ctl} {t : Nat}
    (h : ∀ u o, Ctl.gen u o ∈ ctl → u ≠ t) : t ∉ (Inv.gensOf ctl).map (·.1) := by
  intro hm
  obtain ⟨p, hp, rfl⟩ := List.mem_map.1 hm
  simp only [Inv.gensOf, List.mem_filterMap] at hp
  obtain ⟨c, hc, hcp⟩ := hp
  cases c with
  | gen u o => simp only [Option.some.injEq] at hcp; subst hcp; exact h u o hc rfl
  | waitEnter r => simp at hcp
  | waitLoop r b => simp at hcp

/-- `_continue_with_task`: a generator frame for `t` is pushed over a non-generator frame -/
theorem CI.pushGen {s s' : State} (h : CI s) {c : Ctl} {rest : List Ctl} (hctl : s.ctl = c :: rest)
    (hc : Ctl.isGen c = false) {t : Nat} {a : Option Nat} (hctl' : s'.ctl = .gen t a :: s.ctl)
    (hf : s'.futs = s.futs) (hr : s'.raising = none) (hnin : t ∉ (Inv.gensOf s.ctl).map (·.1))
    (hk : (s.fut t).kind = .task) (ho : (s.fut t).out = none)
    (hready : ∀ d ∈ (s.fut t).ts.deps, (s.fut d).out ≠ none) : CI s' := by
  have hfut : ∀ f, s'.fut f = s.fut f := fun f => by simp [State.fut, hf]
  have hg : Inv.gensOf s'.ctl = (t, a) :: Inv.gensOf s.ctl := by rw [hctl']; simp [Inv.gensOf]
  constructor
  · rw [hg]; simp only [List.map_cons, List.nodup_cons]; exact ⟨hnin, h.distinct⟩
  · intro c0 rest' hcr p hp
    rw [hctl'] at hcr; cases hcr
    rw [hctl, gensOf_cons_nongen _ _ hc] at hp
    rw [hfut]; exact h.bnp c rest hctl p hp
  · intro t' old' rest' hcr _ _ d hd
    rw [hctl'] at hcr; cases hcr
    rw [hfut] at hd ⊢; exact hready d hd
  · intro p hp
    rw [hg] at hp
    rcases List.mem_cons.1 hp with rfl | hp
    · rw [hfut]; exact hk
    · rw [hfut]; exact h.genTask p hp
  · intro p hp
    rw [hg] at hp
    rcases List.mem_cons.1 hp with rfl | hp
    · rw [hfut]; exact ho
    · rw [hfut]; exact h.genOut p hp
  · exact hr

theorem good_handleTask {s : State} (G : Good s) {root base : Nat} {rest : List Ctl}
    (hctl : s.ctl = .waitLoop root base :: rest) (t : Nat) (hk : (s.fut t).kind = .task) (ho : (s.fut t).out = none)
    (hn : Inv.noNonAsync s = true) (hst : (s.handleTask t).stuck = none) : Good (s.handleTask t) := by
  unfold State.handleTask at hst ⊢
  simp only at hst ⊢
  split
  · -- blocked
    split
    · have q1 : Still s (s.updTask t fun ts => { ts with depsSched := false }) :=
        still_updTask _ _ _ (fun ts => coreA_depsSched ts _)
      have q2 := q1.trans (still_pauseContexts _ t (q1.1.nna hn))
      exact good_same (good_still G q2) rfl rfl rfl rfl rfl rfl
    · have q1 : Still s (s.updTask t fun ts => { ts with depsSched := true }) :=
        still_updTask _ _ _ (fun ts => coreA_depsSched ts _)
      have q2 := q1.trans (still_resumeContexts _ t (q1.1.nna hn))
      exact good_same (good_still G q2) rfl rfl rfl rfl rfl rfl
  · rename_i hblk
    split
    · rename_i hre
      rw [if_neg hblk, if_pos hre] at hst
      simp at hst
    · rename_i hre
      have q := still_resumeContexts s t hn
      have G1 := good_still G q
      refine ⟨G1.fi.comp (Comp.ofEq rfl rfl rfl), ?_, G1.tops⟩
      have hctl1 : (s.resumeContexts t).ctl = .waitLoop root base :: rest := q.1.ctl.trans hctl
      refine CI.pushGen G1.ci hctl1 rfl (t := t) (a := (s.resumeContexts t).active) ?_ ?_ ?_ ?_ ?_ ?_ ?_
      · rfl
      · rfl
      · exact G1.ci.raising
      · rw [q.1.ctl]
        apply not_mem_gens_of_any
        intro u o hm hu
        apply hre
        simp only [List.any_eq_true]
        exact ⟨_, hm, by simp [hu]⟩
      · rw [(q.1.comp.fut t).kind]; exact hk
      · rw [q.2 t]; exact ho
      · intro d hd
        rw [q.2 d]
        have hdeps := (coreA_fields (q.core t)).2.2.2.2.2.2.2.2.2.2.2.1
        rw [hdeps] at hd
        simp only [State.task, List.any_eq_true, Bool.not_eq_true', not_exists, not_and,
          Bool.not_eq_false] at hblk
        have := hblk d hd
        simp only [State.computed, State.out] at this
        intro hnone; rw [hnone] at this; simp at this

theorem good_executeIter {s : State} (G : Good s) {root base : Nat} {rest : List Ctl}
    (hctl : s.ctl = .waitLoop root base :: rest) (hn : Inv.noNonAsync s = true)
    (hst : s.executeIter.stuck = none) (hg : s.executeIter.guardFired = false) : Good s.executeIter := by
  unfold State.executeIter at hst hg ⊢
  cases hstack : s.stack with
  | nil => simp [hstack] at hst
  | cons top tl =>
    simp only [hstack] at hst hg ⊢
    split
    · rename_i hlen; rw [if_pos hlen] at hg; simp [State.raiseOutOfWait] at hg
    · rename_i hlen
      rw [if_neg hlen] at hst
      split
      · exact good_same G rfl rfl rfl rfl rfl rfl
      · rename_i hcomp
        rw [if_neg hcomp] at hst
        have ho : (s.fut top).out = none := by simpa [State.computed, State.out] using hcomp
        cases hk : (s.fut top).kind <;> simp only [hk] at hst ⊢
        case task => exact good_handleTask G hctl top hk ho hn hst
        case item kind seq payload mode =>
          exact good_same (s := s) G (by split <;> (try split) <;> rfl) (by split <;> (try split) <;> rfl)
            (by split <;> (try split) <;> rfl) (by split <;> (try split) <;> rfl)
            (by split <;> (try split) <;> rfl) (by split <;> (try split) <;> rfl)
        case «lazy» o =>
          have hlt : top < s.futs.length := lt_of_kind s top (by rw [hk]; nofun)
          exact good_same (good_quiet G (quiet_complete s top _ ho hlt (G.fi.lazyDen top o hk).symm
            (by rw [hk]; nofun))) rfl rfl rfl rfl rfl rfl
        all_goals simp at hst

def flushChosen (s : State) (c : Nat × Nat) (rest : List (Nat × Nat)) : State :=
  if !s.admissible c then s.fail s!"choice-not-allowed ({c.1} {c.2})" else
  match s.batch? c.1 c.2 with
  | none => s.fail "unknown batch"
  | some b =>
    let s := { s with choices := rest, sbatches := s.sbatches.erase c }
    let s := s.emit (.flushB c.1 c.2 b.items (s.batchPrio b) (s.pendingOf s.sbatches))
    let s := s.flushBatch c.1 c.2
    s.emit (.flushE c.1 c.2)

def flushPrep (s : State) (r : Nat) : State :=
  { s with sbatches := s.flushable, ctl := .waitEnter r :: s.ctl.tail }

def flushChoice (s : State) (r : Nat) : Option (Nat × Nat) × List (Nat × Nat) :=
  match s.choices with
  | c :: cs => (some c, cs)
  | [] => ((flushPrep s r).defaultChoice, [])

theorem schedulerFlush_eq (s : State) (r : Nat) :
    s.schedulerFlush r =
      if s.flushable.isEmpty then flushPrep s r else
      match (flushChoice s r).1 with
      | none => (flushPrep s r).fail "no admissible batch"
      | some c => flushChosen (flushPrep s r) c (flushChoice s r).2 := by
  unfold State.schedulerFlush
  simp only
  split
  · rfl
  · rfl

theorem good_flushChosen {s : State} (G : Good s) (c : Nat × Nat) (cs : List (Nat × Nat))
    (hst : (flushChosen s c cs).stuck = none) : Good (flushChosen s c cs) := by
  unfold flushChosen at hst ⊢
  split
  · rename_i hadm; rw [if_pos hadm] at hst; simp at hst
  · rename_i hadm
    rw [if_neg hadm] at hst
    split
    · rename_i hb; rw [hb] at hst; simp at hst
    · rename_i b hb
      have G1 : Good ({ s with choices := cs, sbatches := s.sbatches.erase c } : State) :=
        good_same G rfl rfl rfl rfl rfl rfl
      exact good_emit (good_quiet (good_emit G1 _) (quiet_flushBatch _ (good_emit G1 _).fi c.1 c.2 b hb)) _

theorem good_schedulerFlush {s : State} (G : Good s) {root base : Nat} {rest : List Ctl}
    (hctl : s.ctl = .waitLoop root base :: rest) (r : Nat) (hst : (s.schedulerFlush r).stuck = none) :
    Good (s.schedulerFlush r) := by
  have G0 : Good (flushPrep s r) := by
    refine ⟨G.fi.comp (Comp.ofEq rfl rfl rfl), ?_, G.tops⟩
    exact G.ci.replaceTop hctl rfl (c' := .waitEnter r) rfl (by simp [flushPrep, hctl]) rfl G.ci.raising
  rw [schedulerFlush_eq] at hst ⊢
  split
  · exact G0
  · rename_i hne
    rw [if_neg hne] at hst
    generalize flushChoice s r = cr at hst ⊢
    obtain ⟨c?, cs⟩ := cr
    cases c? with
    | none => simp at hst
    | some c => exact good_flushChosen G0 c cs hst

theorem good_finishTop {s : State} (G : Good s) (f : Nat) : Good (s.finishTop f) := by
  unfold State.finishTop
  exact good_emit (good_emit (good_emit (good_same (s' := { s with raising := none, curTop := none }) G rfl rfl rfl rfl
    G.ci.raising.symm rfl) _) _) _

theorem good_newTop {s : State} (G : Good s) (conv : Conv) (body : Body) (rest : List (Conv × Body))
    (htops : s.tops = (conv, body) :: rest) :
    Good { (({ s with tops := rest, topIdx := s.topIdx + 1 } : State).emit (.top s.topIdx conv)).newTask body [] |>.1 with
      curTop := some s.futs.length, ctl := [.waitEnter s.futs.length] } := by
  have hws : wsTop body = true := G.tops (conv, body) (by rw [htops]; exact List.mem_cons_self ..)
  have F0 : FI (({ s with tops := rest, topIdx := s.topIdx + 1 } : State).emit (.top s.topIdx conv)) :=
    G.fi.comp (Comp.ofEq rfl rfl rfl)
  have F1 := F0.allocTask body [] nofun hws
  refine ⟨F1.comp (Comp.ofEq rfl rfl rfl), ?_, ?_⟩
  · constructor
    · simp [Inv.gensOf]
    · intro c r hc p hp
      simp only [List.cons.injEq] at hc
      rw [← hc.2] at hp; simp [Inv.gensOf] at hp
    · intro t o r hc; simp at hc
    · intro p hp; simp [Inv.gensOf] at hp
    · intro p hp; simp [Inv.gensOf] at hp
    · exact G.ci.raising
  · intro p hp
    exact G.tops p (by rw [htops]; exact List.mem_cons_of_mem _ hp)

theorem good_returnFromWait {s : State} (G : Good s) : Good s.returnFromWait := by
  unfold State.returnFromWait
  exact ⟨G.fi.comp (Comp.ofEq rfl rfl rfl), G.ci.pop' rfl G.ci.raising (taskPres_of_futs rfl), G.tops⟩

theorem good_step {s : State} (G : Good s) (hn : Inv.noNonAsync s = true) (hst : (step s).stuck = none)
    (hg : (step s).guardFired = false) : Good (step s) := by
  have hr := G.ci.raising
  unfold step at hst hg ⊢
  split
  · exact G
  · rename_i hns
    rw [if_neg hns] at hst hg
    split
    · rename_i hctl
      rw [hctl] at hst hg
      simp only at hst hg
      split
      · exact good_finishTop G _
      · split
        · exact G
        · rename_i conv body rest htops
          exact good_newTop G conv body rest htops
    · rename_i root rest hctl
      simp only [hr, Option.isSome_none, Bool.false_eq_true, if_false]
      split
      · exact good_returnFromWait G
      · refine ⟨G.fi.comp (Comp.ofEq rfl rfl rfl), ?_, G.tops⟩
        exact G.ci.replaceTop hctl rfl (c' := .waitLoop root s.stack.length) rfl (by simp [hctl]) rfl rfl
    · rename_i root base rest hctl
      rw [hctl] at hst hg
      simp only [hr, Option.isSome_none, Bool.false_eq_true, if_false] at hst hg ⊢
      split
      · rename_i hlen
        rw [if_pos hlen] at hst hg
        exact good_executeIter G hctl hn hst hg
      · rename_i hlen
        rw [if_neg hlen] at hst hg
        split
        · exact good_returnFromWait G
        · rename_i hc
          rw [if_neg hc] at hst
          exact good_schedulerFlush G hctl root hst
    · rename_i t old rest hctl
      rw [hctl] at hst
      simp only [hr, Option.isSome_none, Bool.false_and, Bool.false_eq_true, if_false] at hst ⊢
      exact good_genStep G hctl hst

end AsynqModel.Core.P4
