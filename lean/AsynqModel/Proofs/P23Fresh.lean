import AsynqModel.Proofs.P23Main
import AsynqModel.Proofs.P7Final
import AsynqModel.Proofs.P7Cold
import AsynqModel.Proofs.P3Weak
/-
  P23 (property C08, "the next computation behaves as on a fresh scheduler"), part 4: what a state looks like at a
  top-level boundary (`ctl = []`) of a run of well-scoped programs without NonAsyncContext whose guard has not fired.

  * `UC`: every batch that is not flushed is the current batch of its kind (all states of the run);
  * `boundary`: task stack, active task, propagating exception, pending scheduled batches, resumed contexts and
    overridden scoped values are those of an initial state; every scheduled batch is flushed; every started task is
    computed;
  * `leftover_iff`: an unflushed batch with items exists exactly when an uncomputed batch item exists.
-/
namespace AsynqModel.Core.P23
open AsynqModel.Core AsynqModel.Core.P6 AsynqModel.Core.P6T AsynqModel.Core.P20

/-! ### unflushed batches are current -/

/-- every batch that is not flushed carries the sequence number of the current batch of its kind -/
def UC (l : List Batch) : Prop :=
  ∀ b ∈ l, b.flushed = false → ∃ cur, curBatchL l b.kind = some cur ∧ b.seq = cur.seq

theorem UC.nil : UC [] := by intro b hb; cases hb

theorem UC.map {l : List Batch} (h : UC l) (G : Batch → Batch)
    (hG : ∀ b, (G b).kind = b.kind ∧ (G b).seq = b.seq ∧ ((G b).flushed = false → b.flushed = false)) :
    UC (l.map G) := by
  intro b hb hfl
  obtain ⟨b0, hb0, rfl⟩ := List.mem_map.1 hb
  obtain ⟨cur, hc, hs⟩ := h b0 hb0 ((hG b0).2.2 hfl)
  refine ⟨G cur, ?_, ?_⟩
  · rw [curBatchL_map l G (fun b => (hG b).1), (hG b0).1, hc]; rfl
  · rw [(hG b0).2.1, (hG cur).2.1]; exact hs

theorem UC.append_first {l : List Batch} (h : UC l) (k : Nat) (hk : curBatchL l k = none) :
    UC (l ++ [({ kind := k, seq := 0 } : Batch)]) := by
  intro b hb hfl
  rcases List.mem_append.1 hb with h0 | h0
  · obtain ⟨cur, hc, hs⟩ := h b h0 hfl
    refine ⟨cur, ?_, hs⟩
    rw [curBatchL_append]
    have : ((({ kind := k, seq := 0 } : Batch).kind == b.kind) = false) := by
      have := curBatchL_none hk b h0
      simp only [beq_eq_false_iff_ne, ne_eq]
      exact fun e => this e.symm
    rw [this]
    exact hc
  · simp only [List.mem_singleton] at h0
    subst h0
    exact ⟨_, by rw [curBatchL_append]; simp, rfl⟩

theorem UC.item {old new : List Batch} {kind seq f : Nat} (h : UC old) (hb : ItemBatches old new kind seq f) :
    UC new := by
  obtain ⟨l1, cur, hl1, _, _, hnew⟩ := hb
  have h1 : UC l1 := by
    rcases hl1 with rfl | ⟨hnone, rfl⟩
    · exact h
    · exact h.append_first kind hnone
  rw [hnew]
  refine h1.map _ (fun b => ?_)
  split <;> exact ⟨rfl, rfl, id⟩

theorem UC.flush {old new : List Batch} {k q : Nat} (h : UC old) (hb : FlushBatches old new k q) : UC new := by
  obtain ⟨l1, g, hl1, hg, hnew⟩ := hb
  let F : Batch → Batch := fun b' => if b'.kind == k && b'.seq == q then g b' else b'
  have hFk : ∀ b, (F b).kind = b.kind ∧ (F b).seq = b.seq := by
    intro b
    show (if b.kind == k && b.seq == q then g b else b).kind = _ ∧ (if b.kind == k && b.seq == q then g b else b).seq = _
    split
    · exact ⟨(hg b).1, (hg b).2.1⟩
    · exact ⟨rfl, rfl⟩
  have hFf : ∀ b, (F b).flushed = false → b.flushed = false ∧ ¬ (b.kind = k ∧ b.seq = q) := by
    intro b
    show (if b.kind == k && b.seq == q then g b else b).flushed = false → _
    split
    · intro hh; rw [(hg b).2.2] at hh; cases hh
    · rename_i hne
      intro hh
      refine ⟨hh, fun e => hne ?_⟩
      simp [e.1, e.2]
  have hnew' : new = l1.map F := hnew
  rw [hnew']
  intro b hb hfl
  obtain ⟨b0, hb0, rfl⟩ := List.mem_map.1 hb
  obtain ⟨hfl0, hkey⟩ := hFf b0 hfl
  rw [(hFk b0).1, (hFk b0).2, curBatchL_map _ F (fun b => (hFk b).1)]
  rcases hl1 with ⟨⟨c, hc, hcq⟩, rfl⟩ | ⟨hne, rfl⟩
  · rcases List.mem_append.1 hb0 with h0 | h0
    · obtain ⟨cur, hcur, hs⟩ := h b0 h0 hfl0
      by_cases hk : b0.kind = k
      · exfalso
        rw [hk, hc] at hcur
        cases hcur
        exact hkey ⟨hk, hs.trans hcq⟩
      · rw [curBatchL_append]
        have : ((({ kind := k, seq := q + 1 } : Batch).kind == b0.kind) = false) := by
          simp only [beq_eq_false_iff_ne, ne_eq]
          exact fun e => hk e.symm
        rw [this, hcur]
        exact ⟨F cur, rfl, by rw [(hFk cur).2]; exact hs⟩
    · simp only [List.mem_singleton] at h0
      subst h0
      rw [curBatchL_append]
      simp only [beq_self_eq_true, if_true, Option.map_some]
      exact ⟨_, rfl, by rw [(hFk _).2]⟩
  · obtain ⟨cur, hcur, hs⟩ := h b0 hb0 hfl0
    rw [hcur]
    exact ⟨F cur, rfl, by rw [(hFk cur).2]; exact hs⟩

theorem UC_flushDesc {s r : State} (h : UC s.batches) (F : FlushDesc s r) : UC r.batches := by
  rcases F.batches with e | ⟨k, q, b, _, _, hfb⟩
  · rw [e]; exact h
  · exact h.flush hfb

theorem UC_step {s : State} (h : Good s) (hU : UC s.batches) (hst : (step s).stuck = none)
    (hg : (step s).guardFired = false) : UC (step s).batches := by
  by_cases hng : ∀ t old rest, s.ctl ≠ .gen t old :: rest
  · have d := step_desc s h.stuck h.raising h.o.noNA (fun t old rest hc => absurd hc (hng t old rest)) hst hg
    cases d with
    | quiet e _ _ => rw [e.batches]; exact hU
    | top conv body rest _ _ U _ _ => rw [U.batches]; exact hU
    | ret _ _ _ e _ _ => rw [e.batches]; exact hU
    | enterLoop _ _ _ _ e _ _ => rw [e.batches]; exact hU
    | pop _ _ _ _ _ e _ _ => rw [e.batches]; exact hU
    | popLazy _ top st _ lo hkl _ U _ _ => rw [U.batches]; exact hU
    | second _ top st _ _ _ _ _ U _ _ => rw [U.batches]; exact hU
    | first _ top st _ _ _ _ _ U _ _ => rw [U.batches]; exact hU
    | enterGen _ _ _ _ _ _ _ e _ _ _ => rw [e.batches]; exact hU
    | gen t old rest hctl0 _ => exact absurd hctl0 (hng t old rest)
    | flush root base rest hctl0 hlen hroot F _ => exact UC_flushDesc hU F
  · have : ∃ t old rest, s.ctl = .gen t old :: rest := by
      apply Classical.byContradiction
      intro hn
      exact hng (fun t old rest hc => hn ⟨t, old, rest, hc⟩)
    obtain ⟨t, old, rest, hctl⟩ := this
    have e := step_gen s h.stuck h.raising hctl
    rw [e] at hst ⊢
    have d := genStep_gd s t old (h.gen hctl).1 (h.o.nf t) (h.hinv.ws t) hst
    cases d with
    | start hp hs hu => rw [hu.batches]; exact hU
    | loc v' hu hkind hout hpend hstart hnf hbs hsame hdeps => rw [hu.batches]; exact hU
    | spawn child k pass hb hp hu hbat hnc hnk => rw [hbat]; exact hU
    | item kind payload mode k seq hb hp hu hbat hnk => exact hU.item hbat
    | other k kd out hb hp hu hbat hnk hkd => rw [hbat]; exact hU
    | yield npy nd leave hp hu => rw [hu.batches]; exact hU
    | finish o hp hu => rw [hu.batches]; exact hU
    | sync child k hh pass hb hp hu hbat hnc hnk hnh => rw [hbat]; exact hU
    | syncfut rf k hh s1 hb hp hu F hnk hnh hT =>
      refine UC_flushDesc ?_ F
      rw [hu.batches]; exact hU

/-! ### the run -/

structure GoodU (s : State) : Prop where
  gs : GoodS s
  uc : UC s.batches

theorem goodU_reach {s : State} (h : ReachWN s) (hg : s.guardFired = false) (hs : s.stuck = none) : GoodU s := by
  induction h with
  | init cfg tops choices h =>
    exact ⟨goodS_init cfg tops choices (fun p hp => (h p hp).2) (fun p hp => (h p hp).1), UC.nil⟩
  | @step s hr ih =>
    have hg0 := P3.guard_mono s hg
    have hs0 := P1.stuck_of_step s hs
    have hU := ih hg0 hs0
    exact ⟨goodS_step hU.gs hs hg, UC_step hU.gs.gl.good hU.uc hs hg⟩

theorem noNonAsync_of_good {s : State} (h : Good s) : Inv.noNonAsync s = true := by
  unfold Inv.noNonAsync
  rw [List.all_eq_true]
  intro x hx
  have := h.o.noNA x hx
  simpa using this

/-! ### the boundary -/

/-- every scheduled batch is flushed when no `wait_for` is in progress -/
theorem scheduled_flushed {s : State} (h : GoodS s) (hctl : s.ctl = []) :
    ∀ k q, (k, q) ∈ s.sbatches → ∃ b, s.batch? k q = some b ∧ b.flushed = true := by
  intro k q hsb
  obtain ⟨i, p, m, hk, hw⟩ := h.sb k q hsb
  rcases hw with hw | hw | ⟨u, hu⟩
  · exact P1.fl_pos (h.k i k q p m hk hw)
  · obtain ⟨x, hx, _⟩ := hw
    rw [hctl] at hx
    cases hx
  · exfalso
    have hsu : StartedU s u := by
      refine ⟨hu.1, h.gl.good.o.sOfD u ?_, hu.2.1⟩
      intro e
      have := hu.2.2
      rw [e] at this
      cases this
    exact no_started_left h.gl hctl u hsu

/-- an unflushed batch that has items exists exactly when an uncomputed batch item exists; all items of an
    unflushed batch are uncomputed -/
theorem leftover_iff {s : State} (h : GoodS s) :
    ((∃ b ∈ s.batches, b.flushed = false ∧ b.items ≠ []) ↔
      ∃ i k q p m, (view s i).kind = .item k q p m ∧ (view s i).out = none) ∧
    (∀ b ∈ s.batches, b.flushed = false → ∀ i ∈ b.items, s.computed i = false) := by
  have hR := h.gl.good.ws.reach
  have hit := items_reach hR
  have hkey : ∀ b ∈ s.batches, s.batch? b.kind b.seq = some b := fun b hb => P1.bseq_lookup (P1.bseq_reach s hR) b hb
  have hunc : ∀ b ∈ s.batches, b.flushed = false → ∀ i ∈ b.items, s.computed i = false := by
    intro b hb hfl i hi
    obtain ⟨p, m, hk⟩ := hit b hb i hi
    cases hc : s.computed i with
    | false => rfl
    | true =>
      exfalso
      have ho : (view s i).out ≠ none := by
        intro e
        rw [uncomputed_of_out_none e] at hc
        cases hc
      obtain ⟨b', hb', hf'⟩ := P1.fl_pos (h.k i b.kind b.seq p m hk ho)
      rw [hkey b hb] at hb'
      cases hb'
      rw [hfl] at hf'
      cases hf'
  refine ⟨⟨?_, ?_⟩, hunc⟩
  · rintro ⟨b, hb, hfl, hne⟩
    cases hi : b.items with
    | nil => exact absurd hi hne
    | cons i rest =>
      have him : i ∈ b.items := by rw [hi]; exact List.mem_cons_self
      obtain ⟨p, m, hk⟩ := hit b hb i him
      exact ⟨i, b.kind, b.seq, p, m, hk, out_none_of_uncomputed (hunc b hb hfl i him)⟩
  · rintro ⟨i, k, q, p, m, hk, ho⟩
    obtain ⟨b, hb, hfl, him⟩ := h.gl.good.o.b.item i k q p m hk ho
    exact ⟨b, P1.mem_of_batch? hb, hfl, fun e => by rw [e] at him; cases him⟩

/-- the scheduler part of a state: task stack, active task, Python stack, propagating exception, scheduled batches
    with pending items, resumed contexts, scoped values that differ from their default -/
structure SchedPart where
  stack : List Nat
  active : Option Nat
  ctl : List Ctl
  raising : Option Err
  pending : List (Nat × Nat)
  resumed : List CtxSt
  overridden : List (Nat × Nat)
  deriving DecidableEq, Repr

def schedPart (s : State) : SchedPart :=
  { stack := s.stack, active := s.active, ctl := s.ctl, raising := s.raising, pending := s.flushable,
    resumed := s.ctxs.filter (·.resumed), overridden := s.sv.filter (fun p => p.2 != 0) }

/-- the scheduler part of every initial state -/
def SchedPart.fresh : SchedPart :=
  { stack := [], active := none, ctl := [], raising := none, pending := [], resumed := [], overridden := [] }

theorem schedPart_init (cfg : Cfg) (tops : List (Conv × Body)) (choices : List (Nat × Nat)) :
    schedPart (initState cfg tops choices) = SchedPart.fresh := rfl

theorem boundary {s : State} (h : ReachWN s) (hg : s.guardFired = false) (hs : s.stuck = none) (hctl : s.ctl = []) :
    schedPart s = SchedPart.fresh ∧
    (∀ k q, (k, q) ∈ s.sbatches → ∃ b, s.batch? k q = some b ∧ b.flushed = true) ∧
    (∀ v, s.svGet v = 0) ∧
    (∀ t, (s.task t).started = true → s.computed t = true) := by
  have hU := goodU_reach h hg hs
  have hG := hU.gs.gl.good
  have hna := noNonAsync_of_good hG
  have hNA := P7.na_of_noNonAsync hna
  have hp := P7.all_paused h.reach hg hNA hctl
  have hr := P7.restored (P7.reachNR_of_ws hG.ws hg hNA) hg hNA hctl
  refine ⟨?_, scheduled_flushed hU.gs hctl, hr.1, ?_⟩
  · unfold schedPart
    have hw := (P3.reach_weak s h.reach).1
    have h1 : s.active = none := P3.weakChain_nil.1 (by simpa [hctl] using hw.bottom)
    have h5 : s.ctxs.filter (·.resumed) = [] := by
      rw [List.filter_eq_nil_iff]
      intro x hx
      obtain ⟨c, hc, rfl⟩ := List.getElem_of_mem hx
      have := hp.2 c _ (List.getElem?_eq_getElem hc)
      simp [this]
    have h6 : s.sv.filter (fun p => p.2 != 0) = [] := by
      rw [List.filter_eq_nil_iff]
      intro p hp'
      simp [hr.2 p hp']
    rw [hp.1, h1, hctl, hG.raising, no_stale hU.gs hctl, h5, h6]
    rfl
  · intro t hst
    have hk : (view s t).kind = .task := (P2.pinv_reach h.reach).startedTask t hst
    cases hc : s.computed t with
    | true => rfl
    | false => exact absurd ⟨hk, hst, out_none_of_uncomputed hc⟩ (no_started_left hU.gs.gl hctl t)

end AsynqModel.Core.P23
