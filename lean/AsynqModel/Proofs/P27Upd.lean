import AsynqModel.Proofs.P27Settled
/-
  P6 (property C04), part 3: descriptions of state updates on the level of views.
  `Upd1 s r t v'`: `r` is `s` except that the view of `t` is `v'`;
  `Upd2 s r t v' nv`: in addition one future with view `nv` has been allocated.
-/
namespace AsynqModel.Core.P27
open AsynqModel.Core.P6
open AsynqModel.Core

/-- P27: the hypothesis "no NonAsyncContext exists" of P6 is dropped; the predicate is kept (trivially true) so that the
    records below keep the shape of their P6 originals -/
def NoNA (_s : State) : Prop := True

theorem NoNA.of_eqv {s s' : State} (_h : Eqv s s') (_hn : NoNA s) : NoNA s' := trivial

/-! ### views after the elementary updates -/

@[simp] theorem view_emit (s : State) (e : Event) (f : Nat) : view (s.emit e) f = view s f := rfl

theorem view_ge (s : State) (f : Nat) (h : s.futs.length ≤ f) : view s f = dview := by
  unfold view; rw [fut_ge s f h]; rfl

theorem view_updTask (s : State) (t : Nat) (g : TaskSt → TaskSt) (f : Nat) :
    view (s.updTask t g) f =
      if f = t ∧ t < s.futs.length then fview { s.fut t with ts := g (s.fut t).ts } else view s f := by
  unfold view
  rw [fut_updTask]
  split <;> rfl

theorem view_alloc (s : State) (x : Fut) (nk : NewKind) (f : Nat) :
    view (s.alloc x nk).1 f = if f = s.futs.length then fview x else view s f := by
  unfold view
  rw [fut_alloc]
  split <;> rfl

theorem view_complete (s : State) (c : Nat) (o : Outcome) (f : Nat) :
    view (s.complete c o) f =
      if f = c ∧ c < s.futs.length then { view s c with out := some o, deps := [] } else view s f := by
  unfold view
  rw [fut_complete]
  split
  · cases s.cfg.keepDeps <;> rfl
  · rfl

theorem lt_of_view_task (s : State) (f : Nat) (h : (view s f).kind = .task) : f < s.futs.length :=
  lt_of_task s f h

/-! ### `Upd1` -/

structure Upd1 (s r : State) (t : Nat) (v' : FV) : Prop where
  len : r.futs.length = s.futs.length
  viewT : view r t = v'
  viewO : ∀ f, f ≠ t → view r f = view s f
  batches : r.batches = s.batches
  stack : r.stack = s.stack
  tops : r.tops = s.tops
  noNA : NoNA s → NoNA r

theorem Upd1.of_eqv {s s1 : State} (e : Eqv s s1) (t : Nat) : Upd1 s s1 t (view s t) :=
  ⟨e.len, e.view t, fun f _ => e.view f, e.batches, e.stack, e.tops, NoNA.of_eqv e⟩

/-- like `Eqv`, but contexts may have been created (none of them a NonAsyncContext) -/
structure EqvK (s s' : State) : Prop where
  len : s'.futs.length = s.futs.length
  view : ∀ f, view s' f = view s f
  batches : s'.batches = s.batches
  stack : s'.stack = s.stack
  ctl : s'.ctl = s.ctl
  stuck : s'.stuck = s.stuck
  tops : s'.tops = s.tops
  noNA : NoNA s → NoNA s'

theorem _root_.AsynqModel.Core.P6.Eqv.k27 {s s' : State} (e : Eqv s s') : EqvK s s' :=
  ⟨e.len, e.view, e.batches, e.stack, e.ctl, e.stuck, e.tops, NoNA.of_eqv e⟩

theorem EqvK.trans {s s1 s2 : State} (h1 : EqvK s s1) (h2 : EqvK s1 s2) : EqvK s s2 :=
  ⟨h2.len.trans h1.len, fun f => (h2.view f).trans (h1.view f), h2.batches.trans h1.batches,
   h2.stack.trans h1.stack, h2.ctl.trans h1.ctl, h2.stuck.trans h1.stuck, h2.tops.trans h1.tops,
   fun hn => h2.noNA (h1.noNA hn)⟩

theorem Upd1.of_eqvK {s s1 : State} (e : EqvK s s1) (t : Nat) : Upd1 s s1 t (view s t) :=
  ⟨e.len, e.view t, fun f _ => e.view f, e.batches, e.stack, e.tops, e.noNA⟩

theorem Upd1.eqv {s r r' : State} {t : Nat} {v' : FV} (h : Upd1 s r t v') (e : Eqv r r') : Upd1 s r' t v' :=
  ⟨e.len.trans h.len, (e.view t).trans h.viewT, fun f hf => (e.view f).trans (h.viewO f hf),
   e.batches.trans h.batches, e.stack.trans h.stack, e.tops.trans h.tops, fun hn => NoNA.of_eqv e (h.noNA hn)⟩

theorem Upd1.emit {s r : State} {t : Nat} {v' : FV} (h : Upd1 s r t v') (e : Event) : Upd1 s (r.emit e) t v' :=
  h.eqv (eqv_emit r e)

/-- a further update of the same task -/
theorem Upd1.updTask {s r : State} {t : Nat} {v' : FV} (h : Upd1 s r t v') (ht : t < s.futs.length)
    (g : TaskSt → TaskSt) (G : FV → FV) (hG : ∀ x : Fut, fview { x with ts := g x.ts } = G (fview x)) :
    Upd1 s (r.updTask t g) t (G v') := by
  refine ⟨by simp [h.len], ?_, ?_, h.batches, h.stack, h.tops, h.noNA⟩
  · rw [view_updTask, if_pos ⟨rfl, by rw [h.len]; exact ht⟩, hG, ← h.viewT]; rfl
  · intro f hf
    rw [view_updTask, if_neg (fun hh => hf hh.1)]
    exact h.viewO f hf

theorem Upd1.complete {s r : State} {t : Nat} {v' : FV} (h : Upd1 s r t v') (ht : t < s.futs.length)
    (o : Outcome) : Upd1 s (r.complete t o) t { v' with out := some o, deps := [] } := by
  refine ⟨by simp [h.len], ?_, ?_, h.batches, h.stack, h.tops, h.noNA⟩
  · rw [view_complete, if_pos ⟨rfl, by rw [h.len]; exact ht⟩, h.viewT]
  · intro f hf
    rw [view_complete, if_neg (fun hh => hf hh.1)]
    exact h.viewO f hf

/-- changing fields the description does not mention -/
theorem Upd1.withCtl {s r : State} {t : Nat} {v' : FV} (h : Upd1 s r t v') (c : List Ctl) (a : Option Nat) :
    Upd1 s { r with ctl := c, active := a } t v' :=
  ⟨h.len, h.viewT, h.viewO, h.batches, h.stack, h.tops, h.noNA⟩

theorem Upd1.leaveGen {s r : State} {t : Nat} {v' : FV} (h : Upd1 s r t v') (ht : t < s.futs.length)
    (old : Option Nat) : Upd1 s (r.leaveGen t old) t { v' with flag := false } := by
  unfold State.leaveGen
  exact (h.updTask ht _ (fun v => { v with flag := false }) (fun _ => rfl)).withCtl _ _

@[simp] theorem ctl_leaveGen (r : State) (t : Nat) (old : Option Nat) : (r.leaveGen t old).ctl = r.ctl.tail := rfl
@[simp] theorem ctl_updTask (r : State) (t : Nat) (g : TaskSt → TaskSt) : (r.updTask t g).ctl = r.ctl := rfl
@[simp] theorem ctl_emit (r : State) (e : Event) : (r.emit e).ctl = r.ctl := rfl
@[simp] theorem ctl_complete (r : State) (t : Nat) (o : Outcome) : (r.complete t o).ctl = r.ctl := rfl
@[simp] theorem ctl_alloc (r : State) (x : Fut) (nk : NewKind) : (r.alloc x nk).1.ctl = r.ctl := rfl
@[simp] theorem stuck_updTask (r : State) (t : Nat) (g : TaskSt → TaskSt) : (r.updTask t g).stuck = r.stuck := rfl
@[simp] theorem stuck_emit (r : State) (e : Event) : (r.emit e).stuck = r.stuck := rfl
@[simp] theorem stuck_fail (r : State) (m : String) : (r.fail m).stuck = some m := rfl
@[simp] theorem stuck_leaveGen (r : State) (t : Nat) (old : Option Nat) : (r.leaveGen t old).stuck = r.stuck := rfl

/-! ### `Upd2` -/

structure Upd2 (s r : State) (t : Nat) (v' nv : FV) : Prop where
  len : r.futs.length = s.futs.length + 1
  viewT : view r t = v'
  viewN : view r s.futs.length = nv
  viewO : ∀ f, f ≠ t → f ≠ s.futs.length → view r f = view s f
  stack : r.stack = s.stack
  tops : r.tops = s.tops
  noNA : NoNA s → NoNA r

/-- agreement on views, stack, tops (the batches may differ) -/
structure EqvNB (s s' : State) : Prop where
  len : s'.futs.length = s.futs.length
  view : ∀ f, view s' f = view s f
  stack : s'.stack = s.stack
  tops : s'.tops = s.tops
  noNA : NoNA s → NoNA s'

theorem _root_.AsynqModel.Core.P6.Eqv.nb27 {s s' : State} (e : Eqv s s') : EqvNB s s' :=
  ⟨e.len, e.view, e.stack, e.tops, NoNA.of_eqv e⟩

theorem EqvNB.refl (s : State) : EqvNB s s := ⟨rfl, fun _ => rfl, rfl, rfl, id⟩

theorem Upd2.alloc {s s1 : State} (e : EqvNB s s1) (t : Nat) (ht : t < s.futs.length) (x : Fut) (nk : NewKind) :
    Upd2 s (s1.alloc x nk).1 t (view s t) (fview x) := by
  have hne : t ≠ s1.futs.length := by rw [e.len]; exact Nat.ne_of_lt ht
  refine ⟨by simp [e.len], ?_, ?_, ?_, e.stack, e.tops, fun hn => (e.noNA hn : NoNA s1)⟩
  · rw [view_alloc, if_neg hne, e.view]
  · rw [view_alloc, if_pos e.len.symm]
  · intro f _ h2
    rw [view_alloc, if_neg (by rw [e.len]; exact h2), e.view]

theorem Upd2.eqvNB {s r r' : State} {t : Nat} {v' nv : FV} (h : Upd2 s r t v' nv) (e : EqvNB r r') :
    Upd2 s r' t v' nv :=
  ⟨e.len.trans h.len, (e.view t).trans h.viewT, (e.view _).trans h.viewN,
   fun f h1 h2 => (e.view f).trans (h.viewO f h1 h2), e.stack.trans h.stack, e.tops.trans h.tops,
   fun hn => e.noNA (h.noNA hn)⟩

theorem Upd2.updTask {s r : State} {t : Nat} {v' nv : FV} (h : Upd2 s r t v' nv) (ht : t < s.futs.length)
    (g : TaskSt → TaskSt) (G : FV → FV) (hG : ∀ x : Fut, fview { x with ts := g x.ts } = G (fview x)) :
    Upd2 s (r.updTask t g) t (G v') nv := by
  refine ⟨by simp [h.len], ?_, ?_, ?_, h.stack, h.tops, h.noNA⟩
  · rw [view_updTask, if_pos ⟨rfl, by rw [h.len]; omega⟩, hG, ← h.viewT]; rfl
  · rw [view_updTask, if_neg (fun hh => by omega)]
    exact h.viewN
  · intro f h1 h2
    rw [view_updTask, if_neg (fun hh => h1 hh.1)]
    exact h.viewO f h1 h2

end AsynqModel.Core.P27
