import AsynqModel.Proofs.P19GenC
/-
  P19, part 14: the prediction invariant and the steps of a task body, part D: `yield` and the final instruction.
-/
namespace AsynqModel.Core.P19
open AsynqModel.Core AsynqModel.Core.P6

theorem E_yield {k0 : Nat} {s r : State} {t root R : Nat} {old : Option Nat} {rest : List Ctl}
    (C : GenCtx k0 s r t root) (hsc : StepScoped s) (hctl : s.ctl = .gen t old :: rest)
    (ry npy : RY) (nd : List Nat) (leave : Bool) (hp : (view s t).pending = false)
    (hsrc : (∃ y k h, (view s t).body = .yld y k h ∧ ry = y.mapLeaves (s.task t).resolve ∧ npy = ry) ∨
            (∃ k h, (view s t).body = .reyld k h ∧ ry = (view s t).prevY ∧ npy = (view s t).prevY))
    (hu : Upd1 s r t (yieldView (view s t) nd npy leave)) (hE : E s root R) : E r root R := by
  have hvT : view r t = yieldView (view s t) nd npy leave := hu.viewT
  have hvo : ∀ x, x ≠ t → view r x = view s x := hu.viewO
  have hst : (view s t).started = true := C.hA.sOfR t hp
  have hl : Live s t := ⟨C.kind, C.out, hst⟩
  refine E_upd1 C hl hvo hu.len (by rw [hvT]; exact C.kind) (by rw [hvT]; exact C.out) (by rw [hvT]; exact hst)
    (by rw [hvT]; rfl) ?_ hE
  intro fin hloc htt pv q LL
  have hidle : ∀ d ∈ (view r t).own, ((view r t).pending = false ∨ d ∉ (view r t).deps) → Idle r d := by
    intro d hd _
    rw [hvT] at hd
    have hid := LL.hidle d hd (Or.inl hp)
    have hdt : d ≠ t := fun e => C.not_idle (e ▸ hid)
    exact hid.of_view ⟨(view s d).flag, by rw [hvo d hdt]; rfl⟩ (by rw [C.stack]; exact id)
  have hprc : ∀ pv', pr r.cfg (view r t).body (view r t).conts (fcount s.trace) ((view r t).own.map fin)
      (Inv.dens r (view r t).own) pv' =
      pr s.cfg (view s t).body (view s t).conts (fcount s.trace) ((view s t).own.map fin) (Inv.dens s (view s t).own) pv' := by
    intro pv'
    rw [hvT, C.hx.cfg]
    show pr s.cfg (view s t).body (view s t).conts _ ((view s t).own.map fin) (Inv.dens r (view s t).own) pv' = _
    rw [dens_congr (fun x hx => C.hx.den x (C.hV.ownLt t x hx))]
  rcases hsrc with ⟨y, k, h, hb, e1, e2⟩ | ⟨k, h, hb, e1, e2⟩
  · refine ⟨y, LL.hfin, ⟨?_, ?_⟩, ?_, hidle, ?_⟩
    · rw [hvT]
      show npy = y.mapLeaves (vres (yieldView (view s t) nd npy leave))
      rw [e2, e1, resolve_eq_vres]
      rfl
    · intro rf hrf
      have hok := (hsc t old rest hctl hp).1 y k h hb rf hrf
      rw [hvT]
      cases rf with
      | own i => exact ⟨i, rfl, hok⟩
      | inh j =>
        have hj : j < (view s t).inh.length := hok
        rw [C.hS.inh t] at hj
        cases hj
    · rw [hprc y, hb, pr_yld_pv s.cfg y k h _ _ _ _ y pv, ← hb]
      exact LL.hpr
    · intro y' k' h' _ hb'
      rw [hvT] at hb'
      have hb'' : (view s t).body = .yld y' k' h' := hb'
      rw [hb] at hb''
      cases hb''
      rfl
  · refine ⟨pv, LL.hfin, ?_, ?_, hidle, ?_⟩
    · refine LL.hpv.of_eq (by rw [hvT]; rfl) (by rw [hvT]; rfl) ?_
      rw [hvT]; exact e2
    · rw [hprc pv]; exact LL.hpr
    · intro y' k' h' _ hb'
      rw [hvT] at hb'
      have hb'' : (view s t).body = .yld y' k' h' := hb'
      rw [hb] at hb''
      cases hb''

theorem E_finish {k0 : Nat} {s r : State} {t root R : Nat} {old : Option Nat} (C : GenCtx k0 s r t root)
    (hr : r = s.genStep t old) (o : Outcome) (hp : (view s t).pending = false)
    (hu : Upd1 s r t (finishView (view s t) o)) (hE : E s root R) : E r root R := by
  have hvT : view r t = finishView (view s t) o := hu.viewT
  have hvo : ∀ x, x ≠ t → view r x = view s x := hu.viewO
  have hst : (view s t).started = true := C.hA.sOfR t hp
  have hl : Live s t := ⟨C.kind, C.out, hst⟩
  have hfc : fcount r.trace = fcount s.trace := C.hx.fcount
  have hrc : r.computed t = true := by rw [computed_eq_view, hvT]; rfl
  -- the instruction is a final one
  have hfinal : terminal (view s t).body ∨ ((view s t).body = .endwith ∧ (view s t).conts = []) := by
    refine Classical.byContradiction fun hn => ?_
    have h1 : ¬ terminal (s.task t).body := fun h => hn (Or.inl h)
    have h2 : (s.task t).body = .endwith → (s.task t).conts ≠ [] := fun hb hc => hn (Or.inr ⟨hb, hc⟩)
    have hok := (C.hA.ok t).1
    have := genStep_keeps_out s t old C.lt hp h1 h2 hok.1 hok.2
    rw [← hr] at this
    have h3 : (view r t).out = (view s t).out := this
    rw [hvT, C.out] at h3
    cases h3
  have hprn : ∀ (tbl : List FutR) (outs : List Outcome) (pv : Y),
      pr s.cfg (view s t).body (view s t).conts (fcount s.trace) tbl outs pv = fcount s.trace := by
    intro tbl outs pv
    rcases hfinal with h | ⟨h1, h2⟩
    · exact pr_terminal _ _ h _ _ _ _ _
    · rw [h1, h2]; rfl
  rcases hE with ⟨hc, hn⟩ | ⟨hc, fin, hfr, hloc⟩
  · left
    refine ⟨?_, hfc.trans hn⟩
    by_cases hrt : root = t
    · rw [hrt]; exact hrc
    · rw [computed_of_view (hvo root hrt)]; exact hc
  · have htrk : ∀ {f : Nat}, Trk r root f → Trk s root f := trk_upd1 hvo (fun f hl' _ => by
      rw [Live, hvT] at hl'; cases hl'.2.1)
    by_cases hrt : root = t
    · left
      subst hrt
      refine ⟨hrc, hfc.trans ?_⟩
      obtain ⟨pv, q, LL⟩ := (hloc root .root).live hl
      have hq : q = fcount s.trace := LL.hpr.trans (hprn _ _ _)
      rcases hfr with h | ⟨h, _⟩
      · rw [LL.hfin] at h
        injection h with h
        omega
      · rw [hst] at h; cases h
    · right
      refine ⟨by rw [computed_of_view (hvo root hrt)]; exact hc, fin, ?_, ?_⟩
      · rcases hfr with h | ⟨h1, h2, h3⟩
        · exact Or.inl h
        · right; rw [hvo root hrt, hfc, C.hx.cfg]; exact ⟨h1, h2, h3⟩
      · intro f hf
        rw [hfc]
        have hfs := htrk hf
        have L := hloc f hfs
        by_cases hft : f = t
        · subst hft
          obtain ⟨pv, q, LL⟩ := L.live hl
          refine Loc.of_done (by rw [hu.len]; exact C.lt) (by rw [hvT]; simp [finishView]) ⟨q, ?_, LL.hfin⟩
          rw [LL.hpr, hprn]
          exact Nat.le_refl _
        · refine L.other C (Nat.le_refl _) hft (fun e => ?_) (fun x hx _ => hvo x hx) (fun _ _ _ => rfl) (fun _ _ => rfl)
          have := L.lt; rw [e] at this; exact Nat.lt_irrefl _ this

end AsynqModel.Core.P19
