import AsynqModel.Proofs.P10Path
import AsynqModel.Proofs.P10Scope
import AsynqModel.Proofs.P2Inv
/-
  P10, part 3: the order `lt s` on future ids and the heap invariant `HInv`.

  The creation forest is read off the ghost lists `(s.task t).own` (the futures task `t` created, in creation order).
  `PathOK s p`: `p` assigns tree addresses consistently with the `own` lists (a child's address is its parent's
  address extended by its sibling index).  `lt s y x`: `y` comes before `x` in post-order, for every consistent
  addressing (on reachable states there is one, and it is unique up to the addresses of the roots).
-/
namespace AsynqModel.Core.P10
open AsynqModel.Core

def PathOK (s : State) (p : Nat → List Nat) : Prop :=
  ∀ t i y, (s.task t).own[i]? = some y → p y = p t ++ [i]

/-- `y` strictly precedes `x` in the post-order of the creation forest -/
def lt (s : State) (y x : Nat) : Prop := ∀ p, PathOK s p → plt (p y) (p x) = true

/-- `y` lies in the subtree of an older sibling of an ancestor-or-self of `x` -/
def leftOf (s : State) (y x : Nat) : Prop := ∀ p, PathOK s p → left (p y) (p x) = true

def le (s : State) (y x : Nat) : Prop := y = x ∨ lt s y x

/-- the futures task `x` can name: those it created and those its parent handed over -/
def Named (s : State) (x y : Nat) : Prop := y ∈ (s.task x).own ∨ y ∈ (s.task x).inh

theorem lt_trans {s : State} {a b c : Nat} (h1 : lt s a b) (h2 : lt s b c) : lt s a c :=
  fun p hp => plt_trans _ _ _ (h1 p hp) (h2 p hp)

theorem leftOf.lt {s : State} {a b : Nat} (h : leftOf s a b) : lt s a b :=
  fun p hp => left_plt _ _ (h p hp)

theorem lt_irrefl {s : State} (hp : ∃ p, PathOK s p) (x : Nat) : ¬ lt s x x := by
  obtain ⟨p, hp⟩ := hp
  intro h
  have := h p hp
  rw [plt_irrefl] at this
  cases this

theorem le_refl (s : State) (x : Nat) : le s x x := Or.inl rfl

theorem lt.le {s : State} {a b : Nat} (h : lt s a b) : le s a b := Or.inr h

theorem le_lt_trans {s : State} {a b c : Nat} (h1 : le s a b) (h2 : lt s b c) : lt s a c := by
  rcases h1 with rfl | h1
  · exact h2
  · exact lt_trans h1 h2

theorem lt_le_trans {s : State} {a b c : Nat} (h1 : lt s a b) (h2 : le s b c) : lt s a c := by
  rcases h2 with rfl | h2
  · exact h1
  · exact lt_trans h1 h2

theorem le_trans {s : State} {a b c : Nat} (h1 : le s a b) (h2 : le s b c) : le s a c := by
  rcases h1 with rfl | h1
  · exact h2
  · exact Or.inr (lt_le_trans h1 h2)

/-! ### the forest only grows -/

/-- every `own` list of `s` is a prefix of the one in `s'` -/
def Grow (s s' : State) : Prop := ∀ t, (s.task t).own <+: (s'.task t).own

theorem Grow.refl (s : State) : Grow s s := fun _ => List.prefix_refl _

theorem Grow.trans {a b c : State} (h1 : Grow a b) (h2 : Grow b c) : Grow a c :=
  fun t => List.IsPrefix.trans (h1 t) (h2 t)

theorem grow_of_own {s s' : State} (h : ∀ t, (s'.task t).own = (s.task t).own) : Grow s s' := by
  intro t; rw [h t]; exact List.prefix_refl _

theorem prefix_getElem? {α : Type} {l1 l2 : List α} (h : l1 <+: l2) {i : Nat} {y : α} (hy : l1[i]? = some y) :
    l2[i]? = some y := by
  obtain ⟨t, rfl⟩ := h
  have hi : i < l1.length := by
    rcases Nat.lt_or_ge i l1.length with h | h
    · exact h
    · rw [List.getElem?_eq_none h] at hy; cases hy
  rw [List.getElem?_append_left hi]; exact hy

theorem Grow.pathOK {s s' : State} (h : Grow s s') {p : Nat → List Nat} (hp : PathOK s' p) : PathOK s p :=
  fun t i y hy => hp t i y (prefix_getElem? (h t) hy)

theorem Grow.lt {s s' : State} (h : Grow s s') {a b : Nat} (hl : lt s a b) : lt s' a b :=
  fun p hp => hl p (h.pathOK hp)

theorem Grow.leftOf {s s' : State} (h : Grow s s') {a b : Nat} (hl : leftOf s a b) : leftOf s' a b :=
  fun p hp => hl p (h.pathOK hp)

theorem Grow.le {s s' : State} (h : Grow s s') {a b : Nat} (hl : le s a b) : le s' a b := by
  rcases hl with rfl | hl
  · exact Or.inl rfl
  · exact Or.inr (h.lt hl)

/-! ### the heap invariant -/

structure HInv (s : State) : Prop where
  /-- a consistent addressing exists -/
  path : ∃ p, PathOK s p
  /-- created futures exist -/
  bound : ∀ t y, y ∈ (s.task t).own → y < s.futs.length
  /-- inherited futures exist -/
  ibound : ∀ t y, y ∈ (s.task t).inh → y < s.futs.length
  /-- every inherited future lies to the left of the task -/
  inhL : ∀ x y, y ∈ (s.task x).inh → leftOf s y x
  /-- the rest of every task is well-scoped -/
  ws : ∀ t, wsTS (s.task t) = true
  deps : ∀ t d, d ∈ (s.task t).deps → Named s t d
  lastY : ∀ t d, d ∈ (s.task t).lastY.leaves → Named s t d
  prevY : ∀ t d, d ∈ (s.task t).prevY.leaves → Named s t d

theorem mem_getElem? {α : Type} {l : List α} {y : α} (h : y ∈ l) : ∃ i : Nat, l[i]? = some y := by
  obtain ⟨i, hi, rfl⟩ := List.getElem_of_mem h
  exact ⟨i, List.getElem?_eq_getElem hi⟩

/-- invariant 1: whatever a task can name precedes it -/
theorem HInv.named_lt {s : State} (h : HInv s) {x y : Nat} (hn : Named s x y) : lt s y x := by
  rcases hn with hn | hn
  · obtain ⟨i, hi⟩ := mem_getElem? hn
    intro p hp
    rw [hp x i y hi]
    exact plt_child _ _
  · exact (h.inhL x y hn).lt

theorem HInv.named_bound {s : State} (h : HInv s) {x y : Nat} (hn : Named s x y) : y < s.futs.length := by
  rcases hn with hn | hn
  · exact h.bound x y hn
  · exact h.ibound x y hn

theorem HInv.irrefl {s : State} (h : HInv s) (x : Nat) : ¬ lt s x x := lt_irrefl h.path x

theorem task_default (s : State) (f : Nat) (h : s.futs.length ≤ f) : s.task f = {} := by
  unfold State.task; rw [P2.fut_default_of_le s f h]

theorem wsTS_congr {a b : TaskSt} (h1 : b.body = a.body) (h2 : b.own = a.own) (h3 : b.inh = a.inh)
    (h4 : b.conts = a.conts) : wsTS b = wsTS a := by
  unfold wsTS; rw [h1, h2, h3, h4]

/-- how a task state may change under the heap-side helpers (`complete`, `exitAll`, contexts, flags ...) -/
structure TsKeep (a b : TaskSt) : Prop where
  own : b.own = a.own
  inh : b.inh = a.inh
  body : b.body = a.body
  conts : b.conts = a.conts ∨ b.conts = []
  deps : b.deps = a.deps ∨ b.deps = []
  lastY : b.lastY = a.lastY ∨ b.lastY = .none
  prevY : b.prevY = a.prevY
  sched : b.depsSched = true → a.depsSched = true
  pending : b.pending = true → a.pending = true
  started : b.started = a.started

theorem TsKeep.refl (a : TaskSt) : TsKeep a a := ⟨rfl, rfl, rfl, .inl rfl, .inl rfl, .inl rfl, rfl, id, id, rfl⟩

theorem TsKeep.trans {a b c : TaskSt} (h1 : TsKeep a b) (h2 : TsKeep b c) : TsKeep a c where
  own := h2.own.trans h1.own
  inh := h2.inh.trans h1.inh
  body := h2.body.trans h1.body
  conts := by
    rcases h2.conts with e | e
    · rw [e]; exact h1.conts
    · exact .inr e
  deps := by
    rcases h2.deps with e | e
    · rw [e]; exact h1.deps
    · exact .inr e
  lastY := by
    rcases h2.lastY with e | e
    · rw [e]; exact h1.lastY
    · exact .inr e
  prevY := h2.prevY.trans h1.prevY
  sched := fun h => h1.sched (h2.sched h)
  pending := fun h => h1.pending (h2.pending h)
  started := h2.started.trans h1.started

theorem wsTS_keep {a b : TaskSt} (k : TsKeep a b) (h : wsTS a = true) : wsTS b = true := by
  rcases k.conts with e | e
  · rw [wsTS_congr k.body k.own k.inh e]; exact h
  · have := wsTS_conts_nil a h
    rw [← this]
    exact wsTS_congr k.body k.own k.inh e

/-- the general preservation lemma when no future is created -/
theorem hinv_same_own {s s' : State} (h : HInv s) (hlen : s'.futs.length = s.futs.length)
    (hown : ∀ f, (s'.task f).own = (s.task f).own) (hinh : ∀ f, (s'.task f).inh = (s.task f).inh)
    (hws : ∀ f, wsTS (s'.task f) = true)
    (hdeps : ∀ f d, d ∈ (s'.task f).deps → Named s f d)
    (hlast : ∀ f d, d ∈ (s'.task f).lastY.leaves → Named s f d)
    (hprev : ∀ f d, d ∈ (s'.task f).prevY.leaves → Named s f d) : HInv s' := by
  have hg : Grow s s' := grow_of_own hown
  have hg' : Grow s' s := grow_of_own (fun f => (hown f).symm)
  have hn : ∀ f d, Named s f d → Named s' f d := fun f d h => by
    unfold Named at h ⊢; rw [hown, hinh]; exact h
  refine ⟨?_, ?_, ?_, ?_, hws, fun t d hd => hn _ _ (hdeps t d hd), fun t d hd => hn _ _ (hlast t d hd),
    fun t d hd => hn _ _ (hprev t d hd)⟩
  · obtain ⟨p, hp⟩ := h.path
    exact ⟨p, hg'.pathOK hp⟩
  · intro t y hy; rw [hown] at hy; rw [hlen]; exact h.bound t y hy
  · intro t y hy; rw [hinh] at hy; rw [hlen]; exact h.ibound t y hy
  · intro x y hy; rw [hinh] at hy; exact hg.leftOf (h.inhL x y hy)

theorem hinv_keep {s s' : State} (h : HInv s) (hlen : s'.futs.length = s.futs.length)
    (hk : ∀ f, TsKeep (s.task f) (s'.task f)) : HInv s' := by
  refine hinv_same_own h hlen (fun f => (hk f).own) (fun f => (hk f).inh) (fun f => wsTS_keep (hk f) (h.ws f)) ?_ ?_ ?_
  · intro f d hd
    rcases (hk f).deps with e | e
    · rw [e] at hd; exact h.deps f d hd
    · rw [e] at hd; cases hd
  · intro f d hd
    rcases (hk f).lastY with e | e
    · rw [e] at hd; exact h.lastY f d hd
    · rw [e] at hd; cases hd
  · intro f d hd
    rw [(hk f).prevY] at hd; exact h.prevY f d hd

/-- one task state is replaced; it creates no future -/
theorem hinv_set {s s' : State} (h : HInv s) (t : Nat) (hlen : s'.futs.length = s.futs.length)
    (hne : ∀ f, f ≠ t → s'.task f = s.task f)
    (hown : (s'.task t).own = (s.task t).own) (hinh : (s'.task t).inh = (s.task t).inh)
    (hws : wsTS (s'.task t) = true)
    (hdeps : ∀ d, d ∈ (s'.task t).deps → Named s t d)
    (hlast : ∀ d, d ∈ (s'.task t).lastY.leaves → Named s t d)
    (hprev : ∀ d, d ∈ (s'.task t).prevY.leaves → Named s t d) : HInv s' := by
  refine hinv_same_own h hlen ?_ ?_ ?_ ?_ ?_ ?_
  · intro f; by_cases e : f = t
    · subst e; exact hown
    · rw [hne f e]
  · intro f; by_cases e : f = t
    · subst e; exact hinh
    · rw [hne f e]
  · intro f; by_cases e : f = t
    · subst e; exact hws
    · rw [hne f e]; exact h.ws f
  · intro f d hd; by_cases e : f = t
    · subst e; exact hdeps d hd
    · rw [hne f e] at hd; exact h.deps f d hd
  · intro f d hd; by_cases e : f = t
    · subst e; exact hlast d hd
    · rw [hne f e] at hd; exact h.lastY f d hd
  · intro f d hd; by_cases e : f = t
    · subst e; exact hprev d hd
    · rw [hne f e] at hd; exact h.prevY f d hd

theorem own_default_nil (s : State) (f : Nat) (h : s.futs.length ≤ f) : (s.task f).own = [] := by
  rw [task_default s f h]

/-- task `t` creates the future `n = s.futs.length` (a child task or a leaf) and appends it to its `own` list -/
theorem hinv_alloc {s s' : State} (h : HInv s) (t : Nat) (ht : t < s.futs.length)
    (hlen : s'.futs.length = s.futs.length + 1)
    (hne : ∀ f, f ≠ t → f ≠ s.futs.length → s'.task f = s.task f)
    (nown : (s'.task s.futs.length).own = [])
    (ninh : ∀ y, y ∈ (s'.task s.futs.length).inh → Named s t y)
    (nws : wsTS (s'.task s.futs.length) = true)
    (ndeps : (s'.task s.futs.length).deps = [])
    (nlast : (s'.task s.futs.length).lastY = .none)
    (nprev : (s'.task s.futs.length).prevY = .none)
    (hown : (s'.task t).own = (s.task t).own ++ [s.futs.length])
    (hinh : (s'.task t).inh = (s.task t).inh)
    (hws : wsTS (s'.task t) = true)
    (hdeps : (s'.task t).deps = (s.task t).deps)
    (hlast : (s'.task t).lastY = (s.task t).lastY)
    (hprev : (s'.task t).prevY = (s.task t).prevY) : HInv s' ∧ Grow s s' := by
  have htn : t ≠ s.futs.length := Nat.ne_of_lt ht
  have hg : Grow s s' := by
    intro f
    by_cases e : f = t
    · subst e; rw [hown]; exact List.prefix_append _ _
    · by_cases e2 : f = s.futs.length
      · subst e2; rw [own_default_nil s _ (Nat.le_refl _)]; exact List.nil_prefix
      · rw [hne f e e2]; exact List.prefix_refl _
  have hn : ∀ f d, f ≠ s.futs.length → Named s f d → Named s' f d := by
    intro f d hf hnd
    by_cases e : f = t
    · subst e
      unfold Named at hnd ⊢
      rw [hown, hinh]
      rcases hnd with hnd | hnd
      · exact .inl (List.mem_append_left _ hnd)
      · exact .inr hnd
    · unfold Named; rw [hne f e hf]; exact hnd
  refine ⟨⟨?_, ?_, ?_, ?_, ?_, ?_, ?_, ?_⟩, hg⟩
  · -- a consistent addressing of the extended forest
    obtain ⟨p, hp⟩ := h.path
    refine ⟨fun z => if z = s.futs.length then p t ++ [(s.task t).own.length] else p z, ?_⟩
    intro f i y hy
    by_cases e : f = t
    · subst e
      rw [hown] at hy
      simp only [htn, if_false]
      rcases Nat.lt_or_ge i (s.task f).own.length with hi | hi
      · rw [List.getElem?_append_left hi] at hy
        have hy' : y < s.futs.length := h.bound f y (List.mem_of_getElem? hy)
        simp only [Nat.ne_of_lt hy', if_false]
        exact hp f i y hy
      · rw [List.getElem?_append_right hi] at hy
        have hi0 : i - (s.task f).own.length = 0 := by
          rcases Nat.eq_zero_or_pos (i - (s.task f).own.length) with h0 | h0
          · exact h0
          · rw [List.getElem?_eq_none (by simp; omega)] at hy; cases hy
        rw [hi0] at hy
        simp only [List.getElem?_cons_zero, Option.some.injEq] at hy
        subst hy
        simp only [if_true]
        have : i = (s.task f).own.length := by omega
        rw [this]
    · by_cases e2 : f = s.futs.length
      · subst e2; rw [nown] at hy; simp at hy
      · rw [hne f e e2] at hy
        have hy' : y < s.futs.length := h.bound f y (List.mem_of_getElem? hy)
        simp only [Nat.ne_of_lt hy', e2, if_false]
        exact hp f i y hy
  · intro f y hy
    rw [hlen]
    by_cases e : f = t
    · subst e
      rw [hown] at hy
      rcases List.mem_append.1 hy with hy | hy
      · exact Nat.lt_succ_of_lt (h.bound f y hy)
      · simp only [List.mem_singleton] at hy; omega
    · by_cases e2 : f = s.futs.length
      · subst e2; rw [nown] at hy; cases hy
      · rw [hne f e e2] at hy; exact Nat.lt_succ_of_lt (h.bound f y hy)
  · intro f y hy
    rw [hlen]
    by_cases e2 : f = s.futs.length
    · subst e2
      rcases ninh y hy with hy | hy
      · exact Nat.lt_succ_of_lt (h.bound t y hy)
      · exact Nat.lt_succ_of_lt (h.ibound t y hy)
    · by_cases e : f = t
      · subst e; rw [hinh] at hy; exact Nat.lt_succ_of_lt (h.ibound f y hy)
      · rw [hne f e e2] at hy; exact Nat.lt_succ_of_lt (h.ibound f y hy)
  · intro x y hy
    by_cases e2 : x = s.futs.length
    · subst e2
      -- what the new future inherits: an older sibling, or something its parent could name
      have hlast : (s'.task t).own[(s.task t).own.length]? = some s.futs.length := by
        rw [hown, List.getElem?_append_right (Nat.le_refl _)]; simp
      rcases ninh y hy with hy | hy
      · obtain ⟨i, hi⟩ := mem_getElem? hy
        have hil : i < (s.task t).own.length := by
          rcases Nat.lt_or_ge i (s.task t).own.length with h' | h'
          · exact h'
          · rw [List.getElem?_eq_none h'] at hi; cases hi
        intro p hp
        rw [hp t i y (prefix_getElem? (hg t) hi), hp t _ _ hlast]
        exact left_sibling _ _ _ hil
      · intro p hp
        rw [hp t _ _ hlast]
        exact left_append_right _ _ _ (h.inhL t y hy p (hg.pathOK hp))
    · by_cases e : x = t
      · subst e; rw [hinh] at hy; exact hg.leftOf (h.inhL x y hy)
      · rw [hne x e e2] at hy; exact hg.leftOf (h.inhL x y hy)
  · intro f
    by_cases e : f = t
    · subst e; exact hws
    · by_cases e2 : f = s.futs.length
      · subst e2; exact nws
      · rw [hne f e e2]; exact h.ws f
  · intro f d hd
    by_cases e2 : f = s.futs.length
    · subst e2; rw [ndeps] at hd; cases hd
    · by_cases e : f = t
      · subst e; rw [hdeps] at hd; exact hn f d e2 (h.deps f d hd)
      · rw [hne f e e2] at hd; exact hn f d e2 (h.deps f d hd)
  · intro f d hd
    by_cases e2 : f = s.futs.length
    · subst e2; rw [nlast] at hd; cases hd
    · by_cases e : f = t
      · subst e; rw [hlast] at hd; exact hn f d e2 (h.lastY f d hd)
      · rw [hne f e e2] at hd; exact hn f d e2 (h.lastY f d hd)
  · intro f d hd
    by_cases e2 : f = s.futs.length
    · subst e2; rw [nprev] at hd; cases hd
    · by_cases e : f = t
      · subst e; rw [hprev] at hd; exact hn f d e2 (h.prevY f d hd)
      · rw [hne f e e2] at hd; exact hn f d e2 (h.prevY f d hd)

/-- a new root (top-level computation) is created -/
theorem hinv_root {s s' : State} (h : HInv s)
    (hlen : s'.futs.length = s.futs.length + 1)
    (hne : ∀ f, f ≠ s.futs.length → s'.task f = s.task f)
    (nown : (s'.task s.futs.length).own = [])
    (ninh : (s'.task s.futs.length).inh = [])
    (nws : wsTS (s'.task s.futs.length) = true)
    (ndeps : (s'.task s.futs.length).deps = [])
    (nlast : (s'.task s.futs.length).lastY = .none)
    (nprev : (s'.task s.futs.length).prevY = .none) : HInv s' ∧ Grow s s' := by
  have hg : Grow s s' := by
    intro f
    by_cases e2 : f = s.futs.length
    · subst e2; rw [own_default_nil s _ (Nat.le_refl _)]; exact List.nil_prefix
    · rw [hne f e2]; exact List.prefix_refl _
  have hn : ∀ f d, f ≠ s.futs.length → Named s f d → Named s' f d := by
    intro f d hf hnd
    unfold Named; rw [hne f hf]; exact hnd
  refine ⟨⟨?_, ?_, ?_, ?_, ?_, ?_, ?_, ?_⟩, hg⟩
  · obtain ⟨p, hp⟩ := h.path
    refine ⟨p, ?_⟩
    intro f i y hy
    by_cases e2 : f = s.futs.length
    · subst e2; rw [nown] at hy; simp at hy
    · rw [hne f e2] at hy; exact hp f i y hy
  · intro f y hy
    rw [hlen]
    by_cases e2 : f = s.futs.length
    · subst e2; rw [nown] at hy; cases hy
    · rw [hne f e2] at hy; exact Nat.lt_succ_of_lt (h.bound f y hy)
  · intro f y hy
    rw [hlen]
    by_cases e2 : f = s.futs.length
    · subst e2; rw [ninh] at hy; cases hy
    · rw [hne f e2] at hy; exact Nat.lt_succ_of_lt (h.ibound f y hy)
  · intro x y hy
    by_cases e2 : x = s.futs.length
    · subst e2; rw [ninh] at hy; cases hy
    · rw [hne x e2] at hy; exact hg.leftOf (h.inhL x y hy)
  · intro f
    by_cases e2 : f = s.futs.length
    · subst e2; exact nws
    · rw [hne f e2]; exact h.ws f
  · intro f d hd
    by_cases e2 : f = s.futs.length
    · subst e2; rw [ndeps] at hd; cases hd
    · rw [hne f e2] at hd; exact hn f d e2 (h.deps f d hd)
  · intro f d hd
    by_cases e2 : f = s.futs.length
    · subst e2; rw [nlast] at hd; cases hd
    · rw [hne f e2] at hd; exact hn f d e2 (h.lastY f d hd)
  · intro f d hd
    by_cases e2 : f = s.futs.length
    · subst e2; rw [nprev] at hd; cases hd
    · rw [hne f e2] at hd; exact hn f d e2 (h.prevY f d hd)

theorem hinv_init (cfg : Cfg) (tops : List (Conv × Body)) (choices : List (Nat × Nat)) :
    HInv (initState cfg tops choices) := by
  have ht : ∀ t, (initState cfg tops choices).task t = {} := fun t => task_default _ t (Nat.zero_le _)
  refine ⟨⟨fun _ => [], ?_⟩, ?_, ?_, ?_, ?_, ?_, ?_, ?_⟩
  · intro t i y hy; rw [ht] at hy; simp at hy
  · intro t y hy; rw [ht] at hy; cases hy
  · intro t y hy; rw [ht] at hy; cases hy
  · intro t y hy; rw [ht] at hy; cases hy
  · intro t; rw [ht]; rfl
  · intro t d hd; rw [ht] at hd; cases hd
  · intro t d hd; rw [ht] at hd; cases hd
  · intro t d hd; rw [ht] at hd; cases hd

end AsynqModel.Core.P10
