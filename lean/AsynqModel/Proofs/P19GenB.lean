import AsynqModel.Proofs.P19GenA
/-
  P19, part 12: the prediction invariant and the steps of a task body, part B: the instructions that keep every
  description (`fin' = fin`) and do not finish the task: resuming at a `yield` (the branch the machine takes is the
  branch `roundsBody` takes, because computed futures hold their denotations), the context instructions, `read`,
  `active`, and `yield` itself.
-/
namespace AsynqModel.Core.P19
open AsynqModel.Core AsynqModel.Core.P6

/-- a step of the running task `t` that creates nothing and leaves `t` uncompleted: it suffices to re-establish the
    description of `t` -/
theorem E_upd1 {k0 : Nat} {s r : State} {t root R : Nat} (C : GenCtx k0 s r t root)
    (hl : Live s t) (hvo : ∀ x, x ≠ t → view r x = view s x) (hlen : r.futs.length = s.futs.length)
    (rk : (view r t).kind = .task) (ro : (view r t).out = none) (rs : (view r t).started = true)
    (rown : (view r t).own = (view s t).own)
    (hT : ∀ fin : Nat → FutR, (∀ f, Trk s root f → Loc s (fcount s.trace) fin f) → Trk s root t →
      ∀ pv q, LiveOK s (fcount s.trace) fin t pv q → ∃ pv', LiveOK r (fcount s.trace) fin t pv' q)
    (hE : E s root R) : E r root R := by
  have hfc : fcount r.trace = fcount s.trace := C.hx.fcount
  rcases hE with ⟨hc, hn⟩ | ⟨hc, fin, hfr, hloc⟩
  · left
    refine ⟨?_, hfc.trans hn⟩
    by_cases hrt : root = t
    · rw [hrt] at hc
      have := uncomputed_of_out_none hl.2.1
      rw [hc] at this; cases this
    · rw [computed_of_view (hvo root hrt)]; exact hc
  · have hcr : r.computed root = false := by
      by_cases hrt : root = t
      · rw [hrt, computed_eq_view, ro]; rfl
      · rw [computed_of_view (hvo root hrt)]; exact hc
    have htrk : ∀ {f : Nat}, Trk r root f → Trk s root f := trk_upd1 hvo (fun f _ hf => ⟨hl, rown ▸ hf⟩)
    refine Or.inr ⟨hcr, fin, ?_, ?_⟩
    · rcases hfr with h | ⟨h1, h2, h3⟩
      · exact Or.inl h
      · have hrt : root ≠ t := by
          intro e; rw [e, hl.2.2] at h1; cases h1
        right
        rw [hvo root hrt, hfc, C.hx.cfg]
        exact ⟨h1, h2, h3⟩
    · intro f hf
      rw [hfc]
      have hfs := htrk hf
      have L := hloc f hfs
      by_cases hft : f = t
      · subst hft
        obtain ⟨pv, q, LL⟩ := L.live hl
        obtain ⟨pv', LL'⟩ := hT fin hloc hfs pv q LL
        refine ⟨by rw [hlen]; exact C.lt, fun h => absurd ro h, ?_, ?_, ?_, ?_, fun _ => ⟨pv', q, LL'⟩⟩
        · intro k q' p m _ h; rw [rk] at h; cases h
        · intro lo _ h; rw [rk] at h; cases h
        · intro _; rw [rk]; exact ⟨by simp, by simp⟩
        · intro _ _ h; rw [rs] at h; cases h
      · refine L.other C (Nat.le_refl _) hft (fun e => ?_) (fun x hx _ => hvo x hx) (fun _ _ _ => rfl) (fun _ _ => rfl)
        have := L.lt; rw [e] at this; exact Nat.lt_irrefl _ this

/-! ### the outcome delivered at a resume -/

/-- computed futures hold their denotations, so unwrapping the run-time structure with the machine's outcomes is
    unwrapping the structure as written with the denotations of the task's own futures -/
theorem unwrap_agree {s : State} (hFI : P4.FI s) {t : Nat} {pv : Y} (hpv : PVok (view s t) pv)
    (hcomp : ∀ d ∈ (view s t).prevY.leaves, s.computed d = true) :
    unwrap s.out (view s t).prevY = unwrap (resolveO (Inv.dens s (view s t).own) []) pv := by
  rw [hpv.eq, P4.unwrap_mapLeaves]
  apply P4.unwrap_congr
  intro r hr
  obtain ⟨i, rfl, hi⟩ := hpv.sc r hr
  have hd : vres (view s t) (.own i) = (view s t).own[i] := by
    show (view s t).own.getD i 0 = _
    rw [List.getD_eq_getElem?_getD, List.getElem?_eq_getElem hi]; rfl
  have hmem : (view s t).own[i] ∈ (view s t).prevY.leaves := by
    rw [hpv.eq, P4.leaves_mapLeaves]
    exact List.mem_map.2 ⟨.own i, hr, hd⟩
  have hc := hcomp _ hmem
  rw [hd]
  show s.out _ = (Inv.dens s (view s t).own)[i]?
  unfold Inv.dens
  rw [List.getElem?_map, List.getElem?_eq_getElem hi]
  cases ho : s.out (view s t).own[i] with
  | none =>
    have : s.computed (view s t).own[i] = false := by unfold State.computed; rw [ho]; rfl
    rw [this] at hc; cases hc
  | some o =>
    have := hFI.agree _ o ho
    rw [this]; rfl

theorem branch_eq {s : State} (hFI : P4.FI s) {t : Nat} {pv : Y} (hpv : PVok (view s t) pv)
    (hl : Live s t) (hp : (view s t).pending = true)
    (hcomp : ∀ d ∈ (view s t).prevY.leaves, s.computed d = true) (k h : Body) :
    branch s t k h = match unwrap (resolveO (Inv.dens s (view s t).own) []) pv with
      | .ok _ => k
      | .error _ => h := by
  have hlast : (s.task t).lastY = (view s t).prevY := hFI.lastEq t hl.2.1 hp hl.2.2
  unfold branch
  rw [hlast, unwrap_agree hFI hpv hcomp]
  cases unwrap (resolveO (Inv.dens s (view s t).own) []) pv <;> rfl

/-! ### the cases -/

/-- what the case lemmas below need about the view of `t` after the step -/
structure LocStep (s r : State) (t : Nat) : Prop where
  kind : (view r t).kind = .task
  out : (view r t).out = none
  started : (view r t).started = true
  pending : (view r t).pending = false
  own : (view r t).own = (view s t).own
  inh : (view r t).inh = (view s t).inh
  prevY : (view r t).prevY = (view s t).prevY

theorem PVok.of_eq {v v' : FV} {pv : Y} (h : PVok v pv) (ho : v'.own = v.own) (hi : v'.inh = v.inh)
    (hp : v'.prevY = v.prevY) : PVok v' pv := by
  have : vres v' = vres v := by funext r; cases r <;> simp [vres, ho, hi]
  exact ⟨by rw [hp, this]; exact h.eq, by rw [ho]; exact h.sc⟩

/-- after an instruction that leaves `t` running every future of `t` is idle: what it awaited is complete -/
theorem idle_running {k0 : Nat} {s r : State} {t root : Nat} (C : GenCtx k0 s r t root)
    (hvo : ∀ x, x ≠ t → view r x = view s x)
    (hdeps : ∀ d ∈ (view s t).deps, s.computed d = true) {n : Nat} {fin : Nat → FutR} {pv : Y} {q : Nat}
    (LL : LiveOK s n fin t pv q) : ∀ d ∈ (view s t).own, Idle r d := by
  intro d hd
  have hdt : d ≠ t := by
    intro e
    subst e
    by_cases hm : d ∈ (view s d).deps
    · have := uncomputed_of_out_none C.out
      rw [hdeps d hm] at this; cases this
    · exact C.not_idle (LL.hidle d hd (Or.inr hm))
  by_cases hm : d ∈ (view s t).deps
  · refine Idle.of_done ?_
    rw [hvo d hdt]
    intro h
    have := uncomputed_of_out_none h
    rw [hdeps d hm] at this; cases this
  · exact (LL.hidle d hd (Or.inr hm)).of_view ⟨(view s d).flag, by rw [hvo d hdt]; rfl⟩ (by rw [C.stack]; exact id)

/-- an instruction that only changes the remaining program of `t`, keeping the prediction -/
theorem E_local {k0 : Nat} {s r : State} {t root R : Nat} (C : GenCtx k0 s r t root)
    (hl : Live s t) (hvo : ∀ x, x ≠ t → view r x = view s x) (hlen : r.futs.length = s.futs.length)
    (V : LocStep s r t) (hdeps : ∀ d ∈ (view s t).deps, s.computed d = true)
    (hpr : ∀ (n : Nat) (tbl : List FutR) (outs : List Outcome) (pv : Y),
      (∀ y k h, (view s t).pending = true → (view s t).body = .yld y k h → pv = y) →
      (∀ i ∈ idxOf pv, (view s t).pending = true → ∀ x, tbl[i]? = some x → ∃ q, q ≤ n ∧ x = .ready q) →
      outs = Inv.dens s (view s t).own → PVok (view s t) pv →
      pr s.cfg (view r t).body (view r t).conts n tbl outs pv = pr s.cfg (view s t).body (view s t).conts n tbl outs pv)
    (hE : E s root R) : E r root R := by
  refine E_upd1 C hl hvo hlen V.kind V.out V.started V.own ?_ hE
  intro fin hloc htt pv q LL
  refine ⟨pv, LL.hfin, LL.hpv.of_eq V.own V.inh V.prevY, ?_, ?_, ?_⟩
  · rw [V.own, C.hx.cfg, dens_congr (fun x hx => C.hx.den x (C.hV.ownLt t x hx))]
    rw [hpr _ _ _ pv LL.hyld ?_ rfl LL.hpv]
    · exact LL.hpr
    · intro i hi hp x hx
      obtain ⟨_, e, he, hel⟩ := index_leaf LL.hpv hi
      rw [tbl_get fin _ i e he] at hx
      cases hx
      have hed : e ∈ (view s t).deps := C.hV.lv t hl hp e hel
      have hce := hdeps e hed
      have hte : Trk s root e := .own htt hl (C.hV.depsOwn t e hed)
      refine (hloc e hte).done ?_
      intro h; have := uncomputed_of_out_none h; rw [hce] at this; cases this
  · intro d hd _
    rw [V.own] at hd
    exact idle_running C hvo hdeps LL d hd
  · intro y k h hp; rw [V.pending] at hp; cases hp

end AsynqModel.Core.P19
