import AsynqModel.Proofs.P4Base
import AsynqModel.Proofs.P4YS
/-!
  P4: the invariant.  `FI` = facts about every future (agreement with the sequential denotation, well-scopedness,
  the relation between the run-time yielded structure and the one written in the program), `CI` = facts about the
  control stack (which generator frames may be suspended, readiness of the task about to be resumed).
  `Comp s s'` = "completion move": `s'` differs from `s` only in scheduler-only fields and in futures that went from
  uncomputed to computed-with-their-denotation.
-/
namespace AsynqModel.Core.P4
open AsynqModel.Core

/-! ### `taskDen` through an auxiliary function of the task state -/

def tden (cfg : Cfg) (ts : TaskSt) (own inh : List Outcome) (df : Nat → Outcome) : Outcome :=
  Inv.evalConts cfg
    (match ts.body with
     | .syncret f k h =>
       match df f with
       | .ok v => evalBody cfg k (ts.env ++ [v]) own inh ts.caught ts.prevYRef
       | .err e => evalBody cfg h ts.env own inh (some e) ts.prevYRef
     | b => evalBody cfg b ts.env own inh ts.caught ts.prevYRef) inh ts.conts

theorem taskDen_eq (s : State) (t : Nat) :
    Inv.taskDen s t = tden s.cfg (s.fut t).ts (Inv.dens s (s.fut t).ts.own) (Inv.dens s (s.fut t).ts.inh)
      (fun f => (s.fut f).den) := by
  rfl

/-- everything of a task state except the scheduler-only fields -/
def coreA (ts : TaskSt) : TaskSt := { ts with ctxs := [], ctxActive := false, depsSched := false }

theorem coreA_fields {a b : TaskSt} (h : coreA a = coreA b) :
    a.body = b.body ∧ a.conts = b.conts ∧ a.env = b.env ∧ a.own = b.own ∧ a.inh = b.inh ∧ a.caught = b.caught ∧
    a.pending = b.pending ∧ a.started = b.started ∧ a.lastY = b.lastY ∧ a.prevY = b.prevY ∧
    a.prevYRef = b.prevYRef ∧ a.deps = b.deps ∧ a.resumes = b.resumes := by
  cases a; cases b; simp only [coreA, TaskSt.mk.injEq] at h; simp_all

theorem tden_congr (cfg : Cfg) (a b : TaskSt) (own inh : List Outcome) (df : Nat → Outcome)
    (h : coreA a = coreA b) : tden cfg a own inh df = tden cfg b own inh df := by
  obtain ⟨h1, h2, h3, _, _, h6, _, _, _, _, h11, _⟩ := coreA_fields h
  unfold tden
  rw [h1, h2, h3, h6, h11]

theorem TaskSt.resolve_congr {a b : TaskSt} (h1 : a.own = b.own) (h2 : a.inh = b.inh) : a.resolve = b.resolve := by
  funext r; cases r <;> simp [TaskSt.resolve, h1, h2]

/-! ### completion moves -/

structure CompF (x x' : Fut) : Prop where
  kind : x'.kind = x.kind
  den : x'.den = x.den
  body : x'.ts.body = x.ts.body
  own : x'.ts.own = x.ts.own
  inh : x'.ts.inh = x.ts.inh
  prevYRef : x'.ts.prevYRef = x.ts.prevYRef
  prevY : x'.ts.prevY = x.ts.prevY
  started : x'.ts.started = x.ts.started
  resumes : x'.ts.resumes = x.ts.resumes
  alt : (x'.out = x.out ∧ coreA x'.ts = coreA x.ts) ∨
        (x.out = none ∧ x'.out = some x.den ∧ x'.ts.lastY = .none ∧ x'.ts.deps = [] ∧
         (x'.ts.pending = false ∨ x'.ts.pending = x.ts.pending))

theorem CompF.refl (x : Fut) : CompF x x := ⟨rfl, rfl, rfl, rfl, rfl, rfl, rfl, rfl, rfl, .inl ⟨rfl, rfl⟩⟩

/-- a change of scheduler-only fields -/
theorem CompF.ofCore {x x' : Fut} (hk : x'.kind = x.kind) (hd : x'.den = x.den) (ho : x'.out = x.out)
    (h : coreA x'.ts = coreA x.ts) : CompF x x' := by
  obtain ⟨h1, _, _, h4, h5, _, _, h8, _, h10, h11, _, h13⟩ := coreA_fields h
  exact ⟨hk, hd, h1, h4, h5, h11, h10, h8, h13, .inl ⟨ho, h⟩⟩

theorem CompF.trans {x y z : Fut} (a : CompF x y) (b : CompF y z) : CompF x z := by
  refine ⟨b.kind.trans a.kind, b.den.trans a.den, b.body.trans a.body, b.own.trans a.own, b.inh.trans a.inh,
    b.prevYRef.trans a.prevYRef, b.prevY.trans a.prevY, b.started.trans a.started, b.resumes.trans a.resumes, ?_⟩
  rcases a.alt with ⟨ao, ac⟩ | ⟨a1, a2, a3, a4, a5⟩
  · rcases b.alt with ⟨bo, bc⟩ | ⟨b1, b2, b3, b4, b5⟩
    · exact .inl ⟨bo.trans ao, bc.trans ac⟩
    · refine .inr ⟨ao ▸ b1, by rw [b2, a.den], b3, b4, ?_⟩
      have := (coreA_fields ac).2.2.2.2.2.2.1
      rcases b5 with b5 | b5
      · exact .inl b5
      · exact .inr (b5.trans this)
  · rcases b.alt with ⟨bo, bc⟩ | ⟨b1, b2, b3, b4, b5⟩
    · obtain ⟨_, _, _, _, _, _, h7, _, h9, _, _, h12, _⟩ := coreA_fields bc
      refine .inr ⟨a1, bo.trans a2, h9.trans a3, h12.trans a4, ?_⟩
      rcases a5 with a5 | a5
      · exact .inl (h7.trans a5)
      · exact .inr (h7.trans a5)
    · rw [a2] at b1; cases b1

structure Comp (s s' : State) : Prop where
  cfg : s'.cfg = s.cfg
  len : s'.futs.length = s.futs.length
  fut : ∀ f, CompF (s.fut f) (s'.fut f)
  bat : ∀ b' ∈ s'.batches, ∀ i ∈ b'.items, ∃ b ∈ s.batches, b.kind = b'.kind ∧ i ∈ b.items

theorem Comp.refl (s : State) : Comp s s := ⟨rfl, rfl, fun _ => CompF.refl _, fun b hb _ hi => ⟨b, hb, rfl, hi⟩⟩

theorem Comp.trans {s t u : State} (a : Comp s t) (b : Comp t u) : Comp s u := by
  refine ⟨b.cfg.trans a.cfg, b.len.trans a.len, fun f => (a.fut f).trans (b.fut f), ?_⟩
  intro b' hb' i hi
  obtain ⟨b1, hb1, hk1, hi1⟩ := b.bat b' hb' i hi
  obtain ⟨b2, hb2, hk2, hi2⟩ := a.bat b1 hb1 i hi1
  exact ⟨b2, hb2, hk2.trans hk1, hi2⟩

/-- a move that leaves the heap and the batches alone -/
theorem Comp.ofEq {s s' : State} (hc : s'.cfg = s.cfg) (hf : s'.futs = s.futs) (hb : s'.batches = s.batches) :
    Comp s s' := by
  refine ⟨hc, by rw [hf], fun f => ?_, ?_⟩
  · have : s'.fut f = s.fut f := by simp [State.fut, hf]
    rw [this]; exact CompF.refl _
  · rw [hb]; exact fun b hb i hi => ⟨b, hb, rfl, hi⟩

theorem Comp.out_mono {s s' : State} (c : Comp s s') {f : Nat} {o : Outcome} (h : (s.fut f).out = some o) :
    (s'.fut f).out = some o := by
  rcases (c.fut f).alt with ⟨a, _⟩ | ⟨a, _⟩
  · rw [a, h]
  · rw [h] at a; cases a

theorem Comp.out_none {s s' : State} (c : Comp s s') {f : Nat} (h : (s'.fut f).out = none) :
    (s.fut f).out = none ∧ coreA (s'.fut f).ts = coreA (s.fut f).ts := by
  rcases (c.fut f).alt with ⟨a, b⟩ | ⟨_, a, _⟩
  · exact ⟨a ▸ h, b⟩
  · rw [h] at a; cases a

/-! ### the invariant on futures -/

structure FI (s : State) : Prop where
  agree : ∀ f o, (s.fut f).out = some o → o = (s.fut f).den
  taskOK : ∀ t, (s.fut t).kind = .task → (s.fut t).out = none → Inv.taskDen s t = (s.fut t).den
  ownLt : ∀ t, ∀ i ∈ (s.fut t).ts.own, i < s.futs.length
  inhLt : ∀ t, ∀ i ∈ (s.fut t).ts.inh, i < s.futs.length
  syncLt : ∀ t g k h, (s.fut t).out = none → (s.fut t).ts.body = .syncret g k h → g < s.futs.length
  wsc : ∀ t, (s.fut t).out = none → wsTask (s.fut t).ts = true
  prevScoped : ∀ t, ∀ r ∈ (s.fut t).ts.prevYRef.leaves,
    refOK (s.fut t).ts.own.length (s.fut t).ts.inh.length r = true
  prevEq : ∀ t, (s.fut t).ts.prevY = (s.fut t).ts.prevYRef.mapLeaves (s.fut t).ts.resolve
  lastEq : ∀ t, (s.fut t).out = none → (s.fut t).ts.pending = true → (s.fut t).ts.started = true →
    (s.fut t).ts.lastY = (s.fut t).ts.prevY
  yldEq : ∀ t y k h, (s.fut t).out = none → (s.fut t).ts.pending = true → (s.fut t).ts.started = true →
    (s.fut t).ts.body = .yld y k h → (s.fut t).ts.prevYRef = y
  depsOK : ∀ t, (s.fut t).ts.pending = true → (s.fut t).ts.started = true →
    ∀ g ∈ (s.fut t).ts.lastY.leaves, g ∈ (s.fut t).ts.deps
  itemDen : ∀ f k q p m, (s.fut f).kind = .item k q p m → (s.fut f).den = itemOutcome s.cfg k p m
  lazyDen : ∀ f o, (s.fut f).kind = .lazy o → (s.fut f).den = lazyOutcome o
  batchItems : ∀ b ∈ s.batches, ∀ i ∈ b.items, ∃ q p m, (s.fut i).kind = .item b.kind q p m

theorem dens_comp {s s' : State} (c : Comp s s') (l : List Nat) : Inv.dens s' l = Inv.dens s l := by
  simp only [Inv.dens]
  apply List.map_congr_left
  intro i _
  exact (c.fut i).den

theorem FI.comp {s s' : State} (h : FI s) (c : Comp s s') : FI s' := by
  constructor
  · intro f o ho
    rcases (c.fut f).alt with ⟨a, _⟩ | ⟨_, a, _⟩
    · rw [(c.fut f).den]; exact h.agree f o (a ▸ ho)
    · rw [(c.fut f).den]; rw [a] at ho; cases ho; rfl
  · intro t hk ho
    obtain ⟨ho', hc⟩ := c.out_none ho
    have := h.taskOK t ((c.fut t).kind ▸ hk) ho'
    rw [taskDen_eq] at this ⊢
    rw [(c.fut t).den, ← this, c.cfg, (c.fut t).own, (c.fut t).inh, dens_comp c, dens_comp c]
    have hd : (fun f => (s'.fut f).den) = (fun f => (s.fut f).den) := by funext f; exact (c.fut f).den
    rw [hd]
    exact tden_congr _ _ _ _ _ _ hc
  · intro t i hi; rw [c.len]; exact h.ownLt t i ((c.fut t).own ▸ hi)
  · intro t i hi; rw [c.len]; exact h.inhLt t i ((c.fut t).inh ▸ hi)
  · intro t g k hh ho hb; rw [c.len]; exact h.syncLt t g k hh (c.out_none ho).1 ((c.fut t).body ▸ hb)
  · intro t ho
    obtain ⟨ho', hc⟩ := c.out_none ho
    have := h.wsc t ho'
    obtain ⟨h1, h2, _, h4, h5, _⟩ := coreA_fields hc
    unfold wsTask at this ⊢
    rw [h1, h2, h4, h5]; exact this
  · intro t r hr
    rw [(c.fut t).own, (c.fut t).inh]
    exact h.prevScoped t r ((c.fut t).prevYRef ▸ hr)
  · intro t
    rw [(c.fut t).prevY, (c.fut t).prevYRef, TaskSt.resolve_congr (c.fut t).own (c.fut t).inh]
    exact h.prevEq t
  · intro t ho hp hs
    obtain ⟨ho', hc⟩ := c.out_none ho
    obtain ⟨_, _, _, _, _, _, h7, h8, h9, h10, _⟩ := coreA_fields hc
    rw [h9, h10]; exact h.lastEq t ho' (h7 ▸ hp) (h8 ▸ hs)
  · intro t y k hh ho hp hs hb
    obtain ⟨ho', hc⟩ := c.out_none ho
    obtain ⟨h1, _, _, _, _, _, h7, h8, _, _, h11, _⟩ := coreA_fields hc
    rw [h11]; exact h.yldEq t y k hh ho' (h7 ▸ hp) (h8 ▸ hs) (h1 ▸ hb)
  · intro t hp hs g hg
    rcases (c.fut t).alt with ⟨_, hc⟩ | ⟨_, _, a3, _⟩
    · obtain ⟨_, _, _, _, _, _, h7, h8, h9, _, _, h12, _⟩ := coreA_fields hc
      rw [h12]; exact h.depsOK t (h7 ▸ hp) (h8 ▸ hs) g (h9 ▸ hg)
    · rw [a3] at hg; simp [YS.leaves] at hg
  · intro f k q p m hk
    rw [(c.fut f).den, c.cfg]; exact h.itemDen f k q p m ((c.fut f).kind ▸ hk)
  · intro f o hk
    rw [(c.fut f).den]; exact h.lazyDen f o ((c.fut f).kind ▸ hk)
  · intro b' hb' i hi
    obtain ⟨b, hb, hk, hib⟩ := c.bat b' hb' i hi
    obtain ⟨q, p, m, hq⟩ := h.batchItems b hb i hib
    exact ⟨q, p, m, by rw [(c.fut i).kind, hq, hk]⟩

/-! ### the invariant on the control stack -/

structure CI (s : State) : Prop where
  distinct : ((Inv.gensOf s.ctl).map (·.1)).Nodup
  bnp : ∀ c rest, s.ctl = c :: rest → ∀ p ∈ Inv.gensOf rest, (s.fut p.1).ts.pending = false
  ready : ∀ t old rest, s.ctl = .gen t old :: rest → (s.fut t).ts.pending = true → (s.fut t).ts.started = true →
    ∀ d ∈ (s.fut t).ts.deps, (s.fut d).out ≠ none
  genTask : ∀ p ∈ Inv.gensOf s.ctl, (s.fut p.1).kind = .task
  genOut : ∀ p ∈ Inv.gensOf s.ctl, (s.fut p.1).out = none
  raising : s.raising = none

theorem Comp.pending_false {s s' : State} (c : Comp s s') {f : Nat} (h : (s.fut f).ts.pending = false) :
    (s'.fut f).ts.pending = false := by
  rcases (c.fut f).alt with ⟨_, hc⟩ | ⟨_, _, _, _, a | a⟩
  · rw [(coreA_fields hc).2.2.2.2.2.2.1]; exact h
  · exact a
  · rw [a]; exact h

theorem Comp.ready_of {s s' : State} (c : Comp s s') {t : Nat}
    (h : (s.fut t).ts.pending = true → (s.fut t).ts.started = true → ∀ d ∈ (s.fut t).ts.deps, (s.fut d).out ≠ none) :
    (s'.fut t).ts.pending = true → (s'.fut t).ts.started = true → ∀ d ∈ (s'.fut t).ts.deps, (s'.fut d).out ≠ none := by
  intro hp hs d hd
  rcases (c.fut t).alt with ⟨_, hc⟩ | ⟨_, _, _, a, _⟩
  · obtain ⟨_, _, _, _, _, _, h7, h8, _, _, _, h12, _⟩ := coreA_fields hc
    have := h (h7 ▸ hp) (h8 ▸ hs) d (h12 ▸ hd)
    intro hn
    exact this (c.out_none hn).1
  · rw [a] at hd; cases hd

/-- a completion move that keeps the control stack -/
theorem CI.comp {s s' : State} (h : CI s) (c : Comp s s') (hctl : s'.ctl = s.ctl) (hr : s'.raising = none)
    (hout : ∀ f, (s.fut f).kind = .task → (s'.fut f).out = (s.fut f).out) : CI s' := by
  constructor
  · rw [hctl]; exact h.distinct
  · intro c0 rest hc p hp
    exact c.pending_false (h.bnp c0 rest (hctl ▸ hc) p hp)
  · intro t old rest hc
    exact c.ready_of (h.ready t old rest (hctl ▸ hc))
  · intro p hp; rw [(c.fut p.1).kind]; exact h.genTask p (hctl ▸ hp)
  · intro p hp; rw [hout _ (h.genTask p (hctl ▸ hp))]; exact h.genOut p (hctl ▸ hp)
  · exact hr

end AsynqModel.Core.P4
