import AsynqModel.Proofs.P26Main
import AsynqModel.Proofs.P27Read
import AsynqModel.Proofs.P27CtxFinal
/-!
  P29: what a task reads from a scoped variable, for ANY well-scoped program (shared futures / DAGs included).

  * `live s t`        : `t` is an uncomputed task whose contexts are active (`_contexts_active`);
  * `spine s`         : the entries of the scheduler's task stack that are `live`, top first, each at its first occurrence
                        (executable, read off the state);
  * `openBlocks s t`  : the context ids of the open with-blocks of `t`, latest entered first;
  * `spineBlocks s`   : the open blocks of the tasks of the spine, nearest task first;
  * `spineOverride s var` : the value of the first override of `var` in `spineBlocks s`, else 0.

  `spineBlocks_eq_rstack`: `spineBlocks s` is the stack of resumed contexts `P7.rstack s` (so, by `P27.values'`,
  `s.svGet var = spineOverride s var`: `read_value`).
  `spine_eq_lspine`: while the code of `u` runs, for EVERY labelling `L` of the task stack (`P26.Spine s L`), the spine
  is `u`, the label of `u`'s entry, the label of that task's entry, ... (`u :: P17.lspine L`).
-/
namespace AsynqModel.Core.P29
open AsynqModel.Core P5 P7 P12 P17

/-! ### lists -/

theorem filter_bne_of_false {q : Nat → Bool} {t : Nat} (hq : q t = false) (l : List Nat) :
    (l.filter (· != t)).filter q = l.filter q := by
  rw [List.filter_filter]
  apply List.filter_congr
  intro x _
  by_cases hx : x = t
  · subst hx; simp [hq]
  · simp [hx]

/-- first occurrences of the entries satisfying `p` and `q` = those of `p`, filtered by `q` -/
theorem fo_and (p q : Nat → Bool) : ∀ l : List Nat, fo (fun t => p t && q t) l = (fo p l).filter q
  | [] => rfl
  | t :: r => by
    have ih := fo_and p q r
    cases hp : p t with
    | false =>
      rw [fo_cons_neg r (by simp [hp]), fo_cons_neg r hp]; exact ih
    | true =>
      cases hq : q t with
      | false =>
        rw [fo_cons_neg r (by simp [hq]), fo_cons_pos r hp, List.filter_cons_of_neg (by simp [hq]),
          filter_bne_of_false hq]
        exact ih
      | true =>
        rw [fo_cons_pos r (by simp [hp, hq]), fo_cons_pos r hp, List.filter_cons_of_pos hq, ih,
          List.filter_filter, List.filter_filter]
        congr 1
        apply List.filter_congr
        intro x _
        exact Bool.and_comm _ _

theorem flatMap_congr' {α β : Type} {f g : α → List β} : ∀ (l : List α), (∀ x ∈ l, f x = g x) →
    l.flatMap f = l.flatMap g
  | [], _ => rfl
  | a :: l, h => by
    rw [List.flatMap_cons, List.flatMap_cons, h a List.mem_cons_self,
      flatMap_congr' l (fun x hx => h x (List.mem_cons_of_mem _ hx))]

/-! ### the definitions -/

/-- `t` is an uncomputed task whose contexts are active -/
def live (s : State) (t : Nat) : Bool :=
  decide ((s.fut t).kind = .task) && !s.computed t && (s.task t).ctxActive

/-- the live entries of the task stack, top first, each at its first occurrence -/
def spine (s : State) : List Nat := fo (live s) s.stack

/-- the contexts of the open with-blocks of `t`, latest entered first -/
def openBlocks (s : State) (t : Nat) : List Nat := (s.task t).conts.map (·.1)

/-- the open blocks of the tasks of the spine: nearest task first, latest entered first within a task -/
def spineBlocks (s : State) : List Nat := (spine s).flatMap (openBlocks s)

/-- the value of the innermost open override of `var` along the spine, else 0 -/
def spineOverride (s : State) (var : Nat) : Nat := expect s (spineBlocks s) var

theorem live_iff {s : State} {t : Nat} :
    live s t = true ↔ (s.fut t).kind = .task ∧ s.computed t = false ∧ (s.task t).ctxActive = true := by
  simp [live, and_assoc]

/-! ### the open blocks of the spine are the resumed contexts -/

theorem hot_eq (s : State) (k : KH s) :
    hot s = fun o => live s o && !(s.task o).ctxs.isEmpty := by
  funext o
  cases he : (s.task o).ctxs.isEmpty with
  | true => simp [hot, he]
  | false =>
    have hne : (s.task o).ctxs ≠ [] := by
      intro e; rw [e] at he; cases he
    obtain ⟨h1, h2⟩ := k.live o hne
    simp [hot, live, he, h1, h2]

theorem spineBlocks_eq_rstack (s : State) (k : KH s) : spineBlocks s = rstack s := by
  unfold rstack hotTasks spineBlocks spine
  rw [hot_eq s k, fo_and]
  rw [filter_flatMap (fun o => !(s.task o).ctxs.isEmpty) (fun o => (s.task o).ctxs.reverse)]
  · apply flatMap_congr'
    intro x _
    exact k.k1 x
  · intro x _ hx
    have : (s.task x).ctxs = [] := by simpa using hx
    rw [this]; rfl

/-- **what a scoped variable reads**: in every state of a run of well-scoped programs (stack guard not fired) -/
theorem read_value {s : State} (h : P10.WSReach s) (hg : s.guardFired = false) (var : Nat) :
    s.svGet var = spineOverride s var := by
  unfold spineOverride
  rw [spineBlocks_eq_rstack s (P27.K_reach' h.reach hg).toKH]
  exact (P27.values' s h hg).1 var

/-! ### the spine is the chain of labels -/

/-- every task of `lspine L` occurs in the stack, below entries that precede it in the creation order -/
theorem lspine_pos {s : State} (hlt : ∀ p a, Link s p a → P10.lt s a p) :
    ∀ (L : List (Nat × Nat)), LabA s L → ∀ o ∈ lspine L,
      ∃ pre post, L.map Prod.fst = pre ++ o :: post ∧ ∀ e ∈ pre, P10.lt s e o
  | [], _, o, ho => by cases ho
  | [_], _, o, ho => by cases ho
  | (a, pa) :: (b, pb) :: rest, hl, o, ho => by
    have ih := lspine_pos hlt ((b, pb) :: rest) hl.2.2
    have tail : o ∈ lspine ((b, pb) :: rest) →
        ∃ pre post, ((a, pa) :: (b, pb) :: rest).map Prod.fst = pre ++ o :: post ∧ ∀ e ∈ pre, P10.lt s e o := by
      intro ho'
      obtain ⟨pre, post, e1, e2⟩ := ih o ho'
      refine ⟨a :: pre, post, by rw [List.map_cons, e1]; rfl, ?_⟩
      intro e he
      rcases List.mem_cons.1 he with rfl | he
      · have hm : o ∈ ((b, pb) :: rest).map Prod.snd := (lspine_sub _ hl.2.2 o ho').1
        exact Lab.top_lt hlt (LabA.toLab _ hl) (by rw [List.map_cons]; exact List.mem_cons_of_mem _ hm)
      · exact e2 e he
    simp only [lspine] at ho
    split at ho
    · next hpa =>
      rcases List.mem_cons.1 ho with e | ho
      · subst e
        refine ⟨[a], rest.map Prod.fst, rfl, ?_⟩
        intro e he
        simp only [List.mem_singleton] at he
        subst he
        have := hlt pa e hl.1.1
        rw [hpa] at this; exact this
      · exact tail ho
    · exact tail ho

/-- **the spine is the chain of labels**: while the code of `u` runs, for every labelling `L` of the task stack, the
    live stack entries in stack order are `u`, the label of `u`'s entry, the label of that task's entry, ... -/
theorem spine_eq_lspine {s : State} (h : P10.WSReach s) (hg : s.guardFired = false) {L : List (Nat × Nat)}
    (sp : P26.Spine s L)
    {u : Nat} {old : Option Nat} {rest : List Ctl} (hctl : s.ctl = .gen u old :: rest) :
    spine s = u :: lspine L := by
  have pi := P2.pinv_reach h.reach
  have hinv := sp.hinv
  have hlt : ∀ p a, Link s p a → P10.lt s a p := fun p a hl => hl.lt hinv (P10.ws_binv h).chain
  have hU : ∀ p a, Link s p a → s.computed p = false := by
    intro p a hl
    rcases hl.2 with h1 | h1
    · exact h1.1
    · have := pi.live p (edgeIn_gens h1.2.2)
      simp [State.computed, this]
  have hug : u ∈ P2.gens s.ctl := by rw [hctl]; simp [P2.gens]
  have hulive : live s u = true :=
    live_iff.2 ⟨pi.genKind u hug, by simp [State.computed, pi.live u hug], pi.rca u hug⟩
  -- the stack
  have hstk := sp.stk
  have hlab := sp.lab
  cases L with
  | nil =>
    exfalso
    have hd : s.stack = [] := by rw [← hstk]; rfl
    have := sp.heads u (pi.genKind u hug) (pi.rca u hug) (by simp [State.computed, pi.live u hug])
    rw [hd] at this
    rcases this with h1 | h1
    · cases h1
    · cases h1
  | cons x0 Lr =>
    obtain ⟨a0, p0⟩ := x0
    have hhead : s.stack.head? = some u ∨ u ∈ ((a0, p0) :: Lr).map Prod.snd :=
      sp.heads u (pi.genKind u hug) (pi.rca u hug) (by simp [State.computed, pi.live u hug])
    -- the running task is the top entry (the frame discipline of well-scoped runs)
    have hd : s.stack.head? = some u := by
      have hd := (P10.ws_cinv h hg).disc
      rw [hctl] at hd
      exact disc_gen_head hd
    have ha0 : a0 = u := by
      rw [← hstk] at hd
      simpa using hd
    subst ha0
    have hst : s.stack = a0 :: Lr.map Prod.fst := by rw [← hstk]; rfl
    have hsub : ∀ q ∈ lspine ((a0, p0) :: Lr), live s q = true ∧
        ∃ pre post, s.stack = pre ++ q :: post ∧ ∀ e ∈ pre, P10.lt s e q := by
      intro q hq
      obtain ⟨_, a, hl⟩ := lspine_sub _ hlab q hq
      refine ⟨live_iff.2 ⟨hl.1.1, hU q a hl.1, hl.2⟩, ?_⟩
      rw [← hstk]
      exact lspine_pos hlt _ hlab q hq
    have hin : ∀ o, o ∈ s.stack → live s o = true → o = a0 ∨ o ∈ lspine ((a0, p0) :: Lr) := by
      intro o _ ho
      obtain ⟨h1, h2, h3⟩ := live_iff.1 ho
      rcases sp.heads o h1 h3 h2 with h5 | h5
      · rw [hd] at h5
        simp only [Option.some.injEq] at h5
        exact .inl h5.symm
      · cases Lr with
        | nil =>
          have : p0 = a0 := hlab
          simp only [List.map_cons, List.map_nil, List.mem_singleton] at h5
          left; rw [h5, this]
        | cons y Lr' => exact .inr (labels_sub Lr' (a0, p0) y hlab o h5)
    have hsorted : (a0 :: lspine ((a0, p0) :: Lr)).Pairwise (P10.lt s) := by
      rw [List.pairwise_cons]
      refine ⟨?_, lspine_pairwise hlt (fun a b c => P10.lt_trans) _ hlab⟩
      intro q hq
      cases Lr with
      | nil => cases hq
      | cons y Lr' => exact Lab.top_lt hlt (LabA.toLab _ hlab) (lspine_sub _ hlab q hq).1
    unfold spine
    apply sorted_unique (P10.lt s) (fun a => hinv.irrefl a) (fun a b c => P10.lt_trans)
    · apply pairwise_fo
      intro o hos ho
      rcases hin o hos ho with e | e
      · exact ⟨[], Lr.map Prod.fst, by rw [e]; exact hst, fun _ he => by cases he⟩
      · exact (hsub o e).2
    · exact hsorted
    · intro x
      rw [mem_fo]
      constructor
      · rintro ⟨h1, h2⟩
        rcases hin x h1 h2 with e | e
        · rw [e]; exact List.mem_cons_self
        · exact List.mem_cons_of_mem _ e
      · intro hx
        rcases List.mem_cons.1 hx with e | e
        · rw [e]; exact ⟨by rw [hst]; exact List.mem_cons_self, hulive⟩
        · obtain ⟨h1, pre, post, h2, _⟩ := hsub x e
          exact ⟨by rw [h2]; simp, h1⟩

/-- every label is a stack entry -/
theorem label_mem_stack {s : State} : ∀ {L : List (Nat × Nat)}, LabA s L → ∀ {q : Nat}, q ∈ L.map Prod.snd →
    q ∈ L.map Prod.fst
  | [], _, q, hq => by cases hq
  | [(r, p)], hl, q, hq => by
    have hp : p = r := hl
    simp only [List.map_cons, List.map_nil, List.mem_singleton] at hq ⊢
    rw [hq, hp]
  | (a, pa) :: (b, pb) :: rest, hl, q, hq => by
    have ih := @label_mem_stack s ((b, pb) :: rest) hl.2.2
    rw [List.map_cons] at hq ⊢
    rcases List.mem_cons.1 hq with e | hq
    · refine List.mem_cons_of_mem _ ?_
      rcases hl.2.1 with e' | e'
      · rw [e]; simp only [e']; simp
      · rw [e]; simp only [e']; exact ih (by simp)
    · exact List.mem_cons_of_mem _ (ih hq)

end AsynqModel.Core.P29
