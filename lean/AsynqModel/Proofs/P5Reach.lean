import AsynqModel.Proofs.P5Step
/-!
  P5: the scheduler loop, `step`, and reachable states.
-/
namespace AsynqModel.Core.P5
open AsynqModel.Core

theorem lt_of_kind_task (s : State) (f : Nat) (h : (s.fut f).kind = .task) : f < s.futs.length := by
  rcases Nat.lt_or_ge f s.futs.length with h' | h'
  · exact h'
  · rw [fut_default s f h'] at h; cases h

theorem any_not_all {l : List Nat} {p : Nat → Bool} (h1 : l.any (fun d => !p d) = true) (h2 : l.all p = true) :
    False := by
  rw [List.any_eq_true] at h1
  rw [List.all_eq_true] at h2
  obtain ⟨x, hx, hp⟩ := h1
  have := h2 x hx
  simp [this] at hp

theorem all_of_not_any {l : List Nat} {p : Nat → Bool} (h1 : ¬ l.any (fun d => !p d) = true) : l.all p = true := by
  rw [List.all_eq_true]
  intro x hx
  cases hp : p x with
  | true => rfl
  | false => exact absurd (List.any_eq_true.2 ⟨x, hx, by simp [hp]⟩) h1

theorem mem_gens_any (ctl : List Ctl) (t : Nat) (h : t ∈ (Inv.gensOf ctl).map (·.1)) :
    ctl.any (fun c => match c with | .gen u _ => u == t | _ => false) = true := by
  induction ctl with
  | nil => simp [Inv.gensOf] at h
  | cons c ctl ih =>
    cases c with
    | gen u o =>
      rw [gensOf_cons_gen, List.map_cons, List.mem_cons] at h
      rcases h with h | h
      · simp [h]
      · simp [ih h]
    | waitEnter r => rw [gensOf_cons_waitEnter] at h; simp [ih h]
    | waitLoop r b => rw [gensOf_cons_waitLoop] at h; simp [ih h]

/-! ### `_handle_async_task` -/

theorem I_handleTask {s : State} (t : Nat) (i : I s) (hk : (s.fut t).kind = .task) : I (s.handleTask t) := by
  have ht := lt_of_kind_task s t hk
  unfold State.handleTask
  simp only []
  split
  · next hb =>
    have hnot : ∀ old, (t, old) ∉ Inv.gensOf s.ctl := fun old hm => any_not_all hb (i.g.gens t old hm).2.2
    split
    · -- second visit: the task is suspended
      have i1 : I (s.updTask t fun ts => { ts with depsSched := false }) := by p5_ext_close i
      have j2 := J_pauseContexts t i1.j (by simpa using ht)
      have c2 := same_pauseContexts (s.updTask t fun ts => { ts with depsSched := false }) t
      have g2 := G_stay t i1.g (monoX_pauseContexts _ t) (by rw [c2.ctl]) (.inl c2.active)
        (fun old h => absurd h (hnot old))
      have d2 : D ((s.updTask t fun ts => { ts with depsSched := false }).pauseContexts t) := by
        refine D_monoX t i1.d (monoX_pauseContexts _ t) ?_
        intro hd
        have := sched_pauseContexts _ t t hd
        rw [task_updTask_self _ _ _ ht] at this
        cases this
      exact ⟨j2.congr rfl rfl rfl, G_stay' g2 (Mono.of_eq rfl rfl) rfl (.inl rfl), D_mono d2 (Mono.of_eq rfl rfl)⟩
    · -- first visit: the dependencies are scheduled
      have j1 : J (s.updTask t fun ts => { ts with depsSched := true }) [] [] :=
        J_neutral (neutral_updTask _ _ _ (fun _ => rfl) (fun _ => rfl) (fun _ => rfl)) i.j
      have g1 : G (s.updTask t fun ts => { ts with depsSched := true }) :=
        G_stay t i.g (monoX_updTask s t _) rfl (.inl rfl) (fun old h => absurd h (hnot old))
      have j2 := J_resumeContexts t j1 (by simpa using ht)
      have c2 := same_resumeContexts (s.updTask t fun ts => { ts with depsSched := true }) t
      have g2 := G_stay t g1 (monoX_resumeContexts _ t) (by rw [c2.ctl]) (.inl c2.active)
        (fun old h => absurd h (hnot old))
      have d2 : D ((s.updTask t fun ts => { ts with depsSched := true }).resumeContexts t) :=
        D_monoX t i.d ((monoX_updTask s t _).trans (monoX_resumeContexts _ t))
          (fun _ => resumeContexts_active _ t (by simpa using ht))
      exact ⟨j2.congr rfl rfl rfl, G_stay' g2 (Mono.of_eq rfl rfl) rfl (.inl rfl), D_mono d2 (Mono.of_eq rfl rfl)⟩
  · next hb =>
    split
    · exact I_fail i _
    · next hre =>
      -- `_continue_with_task`
      have j2 := J_resumeContexts t i.j ht
      have c2 := same_resumeContexts s t
      have m2 := monoX_resumeContexts s t
      have hact := resumeContexts_active s t ht
      have hdeps : ((s.resumeContexts t).task t).deps.all (s.resumeContexts t).computed = true :=
        all_computed_mono _ _ m2.comp (deps_resumeContexts s t t) (all_of_not_any hb)
      have g2 := G_stay t i.g m2 (by rw [c2.ctl]) (.inl c2.active) (fun _ _ => ⟨hact, hdeps⟩)
      have d2 : D (s.resumeContexts t) := D_monoX t i.d m2 (fun _ => hact)
      refine ⟨j2.congr rfl rfl rfl, G_push t g2 (Mono.monoX t (Mono.of_eq rfl rfl)) rfl rfl ?_
        ⟨Nat.lt_of_lt_of_le ht m2.len, hact, hdeps⟩, D_mono d2 (Mono.of_eq rfl rfl)⟩
      intro hm
      rw [c2.ctl] at hm
      exact hre (mem_gens_any s.ctl t hm)

/-! ### one iteration of `_execute` -/

theorem I_executeIter {s : State} (root base : Nat) (rest : List Ctl) (i : I s)
    (hc : s.ctl = .waitLoop root base :: rest) : I s.executeIter := by
  unfold State.executeIter
  split
  · exact I_fail i _
  · split
    · refine I_ext i (Ext.of_eq rfl rfl rfl rfl rfl) ?_ (.inr rfl)
      show Inv.gensOf s.ctl.tail = Inv.gensOf s.ctl
      rw [hc, gensOf_cons_waitLoop]; rfl
    · split
      · p5_ext_close i
      · split
        · next hk => exact I_handleTask _ i hk
        · split
          · split <;> p5_ext_close i
          · p5_ext_close i
        · p5_ext_close i
        · exact I_fail i _

theorem same_schedulerFlush (s : State) (root : Nat) :
    Same { s with ctl := .waitEnter root :: s.ctl.tail } (s.schedulerFlush root) := by
  unfold State.schedulerFlush
  simp only
  repeat' split
  all_goals first | exact ⟨rfl, rfl, rfl, rfl, rfl⟩ | skip
  all_goals
    refine Same.trans ?_ (same_emit _ _)
    refine Same.trans ?_ (same_flushBatch _ _ _)
    exact ⟨rfl, rfl, rfl, rfl, rfl⟩

/-! ### the transition function -/

theorem I_step {s : State} (i : I s) : I (step s) := by
  unfold step
  split
  · exact i
  · split
    · next hctl =>
      split
      · -- finishTop
        unfold State.finishTop
        p5_ext_close i
      · split
        · exact i
        · -- the next top-level computation
          refine I_ext i ?_ ?_ (.inl rfl)
          · refine Ext.trans (s' := (({ s with tops := _, topIdx := s.topIdx + 1 } : State).emit (.top s.topIdx _)).newTask _ []
              |>.1) ?_ (Ext.of_eq rfl rfl rfl rfl rfl)
            refine Ext.trans ?_ (ext_newTask ..)
            refine Ext.trans ?_ (ext_emit _ _ (by rfl))
            exact Ext.of_eq rfl rfl rfl rfl rfl
          · rw [hctl]; rfl
    · next root rest hctl =>
      have hg : Inv.gensOf s.ctl.tail = Inv.gensOf s.ctl := by rw [hctl, gensOf_cons_waitEnter]; rfl
      split
      · exact I_ext i (Ext.of_eq rfl rfl rfl rfl rfl) hg (.inl rfl)
      · split
        · exact I_ext i (Ext.of_eq rfl rfl rfl rfl rfl) hg (.inl rfl)
        · refine I_ext i (Ext.of_eq rfl rfl rfl rfl rfl) ?_ (.inl rfl)
          show Inv.gensOf (.waitLoop root s.stack.length :: s.ctl.tail) = Inv.gensOf s.ctl
          rw [gensOf_cons_waitLoop, hg]
    · next root base rest hctl =>
      have hg : Inv.gensOf s.ctl.tail = Inv.gensOf s.ctl := by rw [hctl, gensOf_cons_waitLoop]; rfl
      split
      · exact I_ext i (Ext.of_eq rfl rfl rfl rfl rfl) hg (.inl rfl)
      · split
        · exact I_executeIter root base rest i hctl
        · split
          · exact I_ext i (Ext.of_eq rfl rfl rfl rfl rfl) hg (.inl rfl)
          · have c := same_schedulerFlush s root
            refine I_ext i (ext_schedulerFlush s root) ?_ (.inl c.active)
            rw [c.ctl]
            show Inv.gensOf (.waitEnter root :: s.ctl.tail) = Inv.gensOf s.ctl
            rw [gensOf_cons_waitEnter, hg]
    · next t old rest hctl =>
      repeat' split
      all_goals first | exact I_fail i _ | exact I_genStep t old rest i hctl

theorem I_init (cfg : Cfg) (tops : List (Conv × Body)) (choices : List (Nat × Nat)) : I (initState cfg tops choices) := by
  have ht : ∀ t, (initState cfg tops choices).task t = {} := fun t => task_default _ t (Nat.zero_le _)
  refine ⟨⟨?_, ?_, ?_, ?_, ?_, ?_, ?_, ?_, ?_, ?_, ?_, ?_⟩, ⟨?_, ?_, ?_⟩, fun t h => by rw [ht] at h; cases h⟩
  · intro t c h; rw [ht] at h; cases h
  · intro t; rw [ht]; exact List.nodup_nil
  · intro t; rw [ht]; exact List.nodup_nil
  · intro t u c h; rw [ht] at h; cases h
  · intro t c h; rw [ht] at h; cases h
  · intro t c h; rw [ht] at h; cases h
  · intro c x h; simp [initState] at h
  · intro c; rfl
  · intro c; rfl
  · intro c h; simp [initState] at h
  · intro c; trivial
  · intro c; trivial
  · intro t old h; simp [initState, Inv.gensOf] at h
  · exact List.nodup_nil
  · rfl

theorem I_reach {s : State} (h : Reach s) : I s := by
  induction h with
  | init cfg tops choices => exact I_init cfg tops choices
  | step _ ih => exact I_step ih

end AsynqModel.Core.P5
