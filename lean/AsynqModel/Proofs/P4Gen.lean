import AsynqModel.Proofs.P4Alloc
/-! P4: helper lemmas for the instructions of a running task -/
namespace AsynqModel.Core.P4
open AsynqModel.Core

theorem ws_not_syncret {b : Body} {no ni : Nat} {κ : Nat → Bool} (h : ws b no ni κ = true) (g : Nat) (k c : Body) :
    b ≠ .syncret g k c := by
  intro hb; subst hb; simp [ws] at h

theorem tden_plain (cfg : Cfg) (ts : TaskSt) (own inh : List Outcome) (df : Nat → Outcome)
    (h : ∀ g k b, ts.body ≠ .syncret g k b) :
    tden cfg ts own inh df =
      Inv.evalConts cfg (evalBody cfg ts.body ts.env own inh ts.caught ts.prevYRef) inh ts.conts := by
  unfold tden
  split
  · rename_i g k b hb; exact absurd hb (h g k b)
  · rfl

theorem wsTask_plain (ts : TaskSt) (h : ∀ g k b, ts.body ≠ .syncret g k b) :
    wsTask ts = ws ts.body ts.own.length ts.inh.length (contsK ts.inh.length ts.conts) := by
  unfold wsTask
  split
  · rename_i g k b hb; exact absurd hb (h g k b)
  · rfl

theorem evalConts_done (cfg : Cfg) (o : Outcome) (inh : List Outcome) (l : List (Nat × Body)) :
    Inv.evalConts cfg (.done o) inh l = o := by
  cases l with
  | nil => rfl
  | cons p l => obtain ⟨_, k⟩ := p; rfl

/-- what the control-stack invariant needs to know about a move: task futures stay tasks, stay uncomputed if they
    are not completed, and a task that is not suspended stays so -/
def TaskPres (s s' : State) : Prop :=
  ∀ f, (s.fut f).kind = .task → (s'.fut f).kind = .task ∧ ((s.fut f).out = none → (s'.fut f).out = none) ∧
    ((s.fut f).ts.pending = false → (s'.fut f).ts.pending = false)

theorem TaskPres.refl (s : State) : TaskPres s s := fun _ h => ⟨h, id, id⟩
theorem TaskPres.trans {s t u : State} (a : TaskPres s t) (b : TaskPres t u) : TaskPres s u := fun f h =>
  have h1 := a f h
  have h2 := b f h1.1
  ⟨h2.1, fun x => h2.2.1 (h1.2.1 x), fun x => h2.2.2 (h1.2.2 x)⟩

theorem Quiet.taskPres {s s' : State} (q : Quiet s s') : TaskPres s s' := fun f h =>
  ⟨by rw [(q.comp.fut f).kind]; exact h, fun x => by rw [q.tasks f h]; exact x, q.comp.pending_false⟩

theorem taskPres_alloc (s : State) (x : Fut) (nk : NewKind) : TaskPres s (s.alloc x nk).1 := fun f h => by
  have : f < s.futs.length := lt_of_kind s f (by rw [h]; nofun)
  rw [fut_alloc_lt s x nk f this]; exact ⟨h, id, id⟩

theorem taskPres_updTask (s : State) (t : Nat) (g : TaskSt → TaskSt)
    (hg : (s.fut t).ts.pending = false → (g (s.fut t).ts).pending = false) : TaskPres s (s.updTask t g) := fun f h => by
  refine ⟨by rw [kind_updTask]; exact h, fun x => by rw [out_updTask]; exact x, fun x => ?_⟩
  rw [fut_updTask]; split
  · rename_i h'; obtain ⟨rfl, _⟩ := h'; exact hg x
  · exact x

theorem taskPres_of_futs {s s' : State} (h : s'.futs = s.futs) : TaskPres s s' := fun f hk => by
  have : s'.fut f = s.fut f := by simp [State.fut, h]
  rw [this]; exact ⟨hk, id, id⟩

/-- the control-stack invariant when the running task executes an instruction that leaves it running -/
theorem CI.selfRun {s s' : State} (h : CI s) {t : Nat} {old : Option Nat} {rest : List Ctl}
    (hctl : s.ctl = .gen t old :: rest)
    (hctl' : s'.ctl = s.ctl ∨ ∃ r, s'.ctl = .waitEnter r :: s.ctl) (hr : s'.raising = none)
    (tp : TaskPres s s') (ht : (s'.fut t).ts.pending = false) : CI s' := by
  rcases hctl' with hc | ⟨r, hc⟩
  · constructor
    · rw [hc]; exact h.distinct
    · intro c rest' hcr p hp
      have hm : p ∈ Inv.gensOf s.ctl := by
        rw [← hc, hcr]; simp only [Inv.gensOf, List.filterMap_cons]
        split
        · exact hp
        · exact List.mem_cons_of_mem _ hp
      exact (tp _ (h.genTask p hm)).2.2 (h.bnp c rest' (hc ▸ hcr) p hp)
    · intro t' old' rest' hcr hp
      rw [hc, hctl] at hcr; cases hcr
      rw [ht] at hp; cases hp
    · intro p hp; exact (tp _ (h.genTask p (hc ▸ hp))).1
    · intro p hp; exact (tp _ (h.genTask p (hc ▸ hp))).2.1 (h.genOut p (hc ▸ hp))
    · exact hr
  · constructor
    · rw [hc]; simpa [Inv.gensOf] using h.distinct
    · intro c rest' hcr p hp
      rw [hc] at hcr; cases hcr
      have hm := hp
      rw [hctl] at hp
      simp only [Inv.gensOf, List.filterMap_cons, List.mem_cons] at hp
      rcases hp with rfl | hp
      · exact ht
      · exact (tp _ (h.genTask p hm)).2.2 (h.bnp _ _ hctl p hp)
    · intro t' old' rest' hcr; rw [hc] at hcr; cases hcr
    · intro p hp
      rw [hc] at hp
      simp only [Inv.gensOf, List.filterMap_cons] at hp
      exact (tp _ (h.genTask p hp)).1
    · intro p hp
      rw [hc] at hp
      simp only [Inv.gensOf, List.filterMap_cons] at hp
      exact (tp _ (h.genTask p hp)).2.1 (h.genOut p hp)
    · exact hr

theorem gensOf_tail_sub (c : Ctl) (rest : List Ctl) : ∀ p ∈ Inv.gensOf rest, p ∈ Inv.gensOf (c :: rest) := by
  intro p hp; simp only [Inv.gensOf, List.filterMap_cons]
  split
  · exact hp
  · exact List.mem_cons_of_mem _ hp

/-- popping the innermost frame; a task completed by the move must not be in a buried generator frame -/
theorem CI.pop {s s' : State} (h : CI s) (hctl : s'.ctl = s.ctl.tail) (hr : s'.raising = none)
    (tp : ∀ c rest, s.ctl = c :: rest → ∀ p ∈ Inv.gensOf rest,
      (s'.fut p.1).kind = .task ∧ (s'.fut p.1).out = none ∧ (s'.fut p.1).ts.pending = false) : CI s' := by
  cases hs : s.ctl with
  | nil =>
    rw [hs] at hctl
    simp only [List.tail_nil] at hctl
    constructor
    · rw [hctl]; simp [Inv.gensOf]
    · intro c r hc; rw [hctl] at hc; cases hc
    · intro t o r hc; rw [hctl] at hc; cases hc
    · intro p hp; rw [hctl] at hp; simp [Inv.gensOf] at hp
    · intro p hp; rw [hctl] at hp; simp [Inv.gensOf] at hp
    · exact hr
  | cons c rest =>
    rw [hs] at hctl
    simp only [List.tail_cons] at hctl
    constructor
    · rw [hctl]
      have := h.distinct
      rw [hs] at this
      simp only [Inv.gensOf, List.filterMap_cons] at this
      split at this
      · exact this
      · exact (List.nodup_cons.1 this).2
    · intro c' rest' hc p hp
      rw [hctl] at hc
      exact (tp c rest hs p (by rw [hc]; exact gensOf_tail_sub _ _ p hp)).2.2
    · intro t' old' rest' hc hp
      rw [hctl] at hc
      have := (tp c rest hs (t', old') (by rw [hc]; simp [Inv.gensOf])).2.2
      rw [this] at hp; cases hp
    · intro p hp; rw [hctl] at hp; exact (tp c rest hs p hp).1
    · intro p hp; rw [hctl] at hp; exact (tp c rest hs p hp).2.1
    · exact hr

/-- popping with a move that preserves tasks -/
theorem CI.pop' {s s' : State} (h : CI s) (hctl : s'.ctl = s.ctl.tail) (hr : s'.raising = none)
    (tp : TaskPres s s') : CI s' := by
  apply h.pop hctl hr
  intro c rest hc p hp
  have hm : p ∈ Inv.gensOf s.ctl := by rw [hc]; exact gensOf_tail_sub _ _ p hp
  have := tp _ (h.genTask p hm)
  exact ⟨this.1, this.2.1 (h.genOut p hm), this.2.2 (h.bnp c rest hc p hp)⟩

structure Good (s : State) : Prop where
  fi : FI s
  ci : CI s
  tops : ∀ p ∈ s.tops, wsTop p.2 = true

theorem Good.top {s : State} (G : Good s) {t : Nat} {old : Option Nat} {rest : List Ctl}
    (hctl : s.ctl = .gen t old :: rest) :
    (s.fut t).kind = .task ∧ (s.fut t).out = none ∧ t < s.futs.length := by
  have hm : (t, old) ∈ Inv.gensOf s.ctl := by rw [hctl]; simp [Inv.gensOf]
  have hk := G.ci.genTask _ hm
  exact ⟨hk, G.ci.genOut _ hm, lt_of_kind s t (by rw [hk]; nofun)⟩

end AsynqModel.Core.P4
