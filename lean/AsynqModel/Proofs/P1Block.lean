import AsynqModel.Proofs.P1Prio
/-!
  The scheduler-flush step as a whole: which batch, which events, when stuck.
-/
namespace AsynqModel.Core.P1
open AsynqModel.Core

theorem flushWith_stuck (s : State) (root : Nat) (c : Nat × Nat) (b : Batch) (hb : s.batch? c.1 c.2 = some b) :
    (flushWith s root c b).stuck = s.stuck := by
  unfold flushWith
  rw [stuck_emit, flushBatch_stuck _ c.1 c.2 b (by exact hb)]
  rfl

/-- the events of a scheduler flush, newest first -/
theorem flushWith_trace (s : State) (root : Nat) (c : Nat × Nat) (b : Batch) (hb : s.batch? c.1 c.2 = some b) :
    ∃ mid, (flushWith s root c b).trace =
        .flushE c.1 c.2 :: .bdone c.1 c.2 (!(s.cfg.kind c.1).raises) ::
          (mid ++ .flushI c.1 c.2 b.items ::
            .flushB c.1 c.2 b.items (s.batchPrio b) (s.pendingOf (s.flushable.erase c)) :: s.trace) ∧
      ∀ e ∈ mid, isDone e = true := by
  unfold flushWith
  obtain ⟨mid, ht, hd⟩ := flushBatch_trace
    (({ s with sbatches := s.flushable.erase c, ctl := .waitEnter root :: s.ctl.tail, choices := s.choices.tail } : State).emit
      (.flushB c.1 c.2 b.items (s.batchPrio b) (s.pendingOf (s.flushable.erase c)))) c.1 c.2 b hb
  refine ⟨mid, ?_, hd⟩
  rw [trace_emit, ht]
  rfl

/-- a step in the flush situation that does not get stuck flushes the picked, admissible batch -/
theorem flush_step (s : State) (root base : Nat) (h : FlushCond s root base) (hfl : s.flushable ≠ [])
    (hs' : (step s).stuck = none) :
    ∃ c b, pick s = some c ∧ s.admissible c = true ∧ s.batch? c.1 c.2 = some b ∧ step s = flushWith s root c b := by
  rw [step_flush s root base h] at hs' ⊢
  rcases schedulerFlush_cases s root hfl with ⟨m, hm, _⟩ | h2
  · rw [hm] at hs'
    cases hs'
  · exact h2

/-- an inadmissible oracle choice makes the step stuck -/
theorem flush_step_inadmissible (s : State) (root base : Nat) (h : FlushCond s root base) (hfl : s.flushable ≠ [])
    (c : Nat × Nat) (cs : List (Nat × Nat)) (hch : s.choices = c :: cs) (ha : s.admissible c = false) :
    (step s).stuck ≠ none := by
  rw [step_flush s root base h]
  rcases schedulerFlush_cases s root hfl with ⟨m, hm, _⟩ | ⟨c', b, hp, ha', _, _⟩
  · rw [hm]
    simp
  · have : pick s = some c := by simp [pick, hch]
    rw [this] at hp
    cases hp
    rw [ha] at ha'
    cases ha'

/-- an admissible pick never makes the step stuck -/
theorem flush_step_not_stuck (s : State) (root base : Nat) (h : FlushCond s root base) (hfl : s.flushable ≠ [])
    (c : Nat × Nat) (hp : pick s = some c) (ha : s.admissible c = true) : (step s).stuck = none := by
  rw [step_flush s root base h]
  rcases schedulerFlush_cases s root hfl with ⟨m, _, hm⟩ | ⟨c', b, _, _, hb, he⟩
  · rw [hm c hp] at ha
    cases ha
  · rw [he, flushWith_stuck s root c' b hb]
    exact h.2.1

theorem pick_nil (s : State) (h : s.choices = []) : pick s = s.defaultChoice := by simp [pick, h]
theorem pick_cons (s : State) (c : Nat × Nat) (cs : List (Nat × Nat)) (h : s.choices = c :: cs) : pick s = some c := by
  simp [pick, h]

theorem isAnyI_eq : (fun e : Event => match e with | .flushI .. => true | _ => false) = isAnyI := by
  funext e
  cases e <;> rfl

/-! ### a two-kind demo program for the non-vacuity examples of C05 -/

/-- one task: an item of kind 0 (answered), an item of kind 1 (skipped by a flush body that raises), both awaited -/
def demoBody : Body :=
  .item 0 1 .ok (.item 1 2 .unset (.yld (.tup [.f (.own 0), .f (.own 1)]) (.ret 7) (.raise 1)))
/-- kind 1 has the higher priority and a raising flush body -/
def demoCfg : Cfg := { kinds := [(1, { prio := .const 5, raises := true })] }
def demoInit : State := initState demoCfg [(.value, demoBody)] []
/-- the same with an oracle that insists on the low-priority batch -/
def demoInitBad : State := initState demoCfg [(.value, demoBody)] [(0, 0)]
/-- `item.value()` inside a task step: the batch is flushed directly, without the scheduler -/
def demoSync : State := initState {} [(.value, .item 0 1 .ok (.syncfut (.own 0) (.ret 1) (.raise 2)))] []

/-- the flush events of a trace as (0 = flushB | 1 = flushI | 2 = flushE, kind, seq) -/
def flushCode : Event → Option (Nat × Nat × Nat)
  | .flushB k q _ _ _ => some (0, k, q)
  | .flushI k q _ => some (1, k, q)
  | .flushE k q => some (2, k, q)
  | _ => none

end AsynqModel.Core.P1
