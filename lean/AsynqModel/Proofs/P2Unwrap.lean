import AsynqModel.Core.Base
/-!
  P2: pure lemmas about the yielded-structure functions of `Core/Base.lean`:
  `unwrap` (first failure in structure order, shape preservation) and `extractFutures` (same elements as `leaves`).
-/
namespace AsynqModel.Core

/-! ### definitions used by the statements of C01/C02 -/

mutual
/-- the leaf-or-junk positions of a yielded structure in written (structure) order: `some r` = a future, `none` = junk -/
def YS.slots {α : Type} : YS α → List (Option α)
  | .none => []
  | .junk => [Option.none]
  | .f r => [some r]
  | .tup l => YS.slotsList l
  | .lst l => YS.slotsList l
  | .dict _ vs => YS.slotsList vs
def YS.slotsList {α : Type} : List (YS α) → List (Option α)
  | [] => []
  | y :: ys => YS.slots y ++ YS.slotsList ys
end

/-- what goes wrong at one position: junk ↦ TypeError, a failed future ↦ its error, an uncomputed future ↦ `other` -/
def slotErr {α : Type} (look : α → Option Outcome) : Option α → Option Err
  | Option.none => some .typeerr
  | some r => match look r with
    | some (.ok _) => Option.none
    | some (.err e) => some e
    | Option.none => some .other

/-- the error of the first position (in structure order) whose lookup is not a value -/
def firstFailure {α : Type} (look : α → Option Outcome) (y : YS α) : Option Err :=
  y.slots.findSome? (slotErr look)

def outcomeOf : Except Err Val → Outcome
  | .ok v => .ok v
  | .error e => .err e

mutual
/-- `v` has the shape of `y`: same containers, same lengths, same dict keys; a leaf may hold anything -/
def sameShape {α : Type} : YS α → Val → Prop
  | .none, .none => True
  | .f _, _ => True
  | .tup l, .tup vs => sameShapeList l vs
  | .lst l, .lst vs => sameShapeList l vs
  | .dict ks l, .dict ks' vs => ks = ks' ∧ sameShapeList l vs
  | _, _ => False
def sameShapeList {α : Type} : List (YS α) → List Val → Prop
  | [], [] => True
  | y :: ys, v :: vs => sameShape y v ∧ sameShapeList ys vs
  | _, _ => False
end

mutual
/-- the leaves of `y` paired with the values found at the same positions of `v` (structure order) -/
def leafVals {α : Type} : YS α → Val → List (α × Val)
  | .f r, v => [(r, v)]
  | .tup l, .tup vs => leafValsList l vs
  | .lst l, .lst vs => leafValsList l vs
  | .dict _ l, .dict _ vs => leafValsList l vs
  | _, _ => []
def leafValsList {α : Type} : List (YS α) → List Val → List (α × Val)
  | y :: ys, v :: vs => leafVals y v ++ leafValsList ys vs
  | _, _ => []
end

namespace P2

/-! ### `unwrap` fails exactly with the first failure -/

theorem findSome?_append' {α β : Type} (f : α → Option β) (l1 l2 : List α) :
    (l1 ++ l2).findSome? f = (l1.findSome? f).or (l2.findSome? f) := by
  induction l1 with
  | nil => simp
  | cons a l ih =>
    simp only [List.cons_append, List.findSome?_cons]
    split <;> simp_all

mutual
theorem unwrap_error_iff {α : Type} (look : α → Option Outcome) :
    (y : YS α) → (e : Err) → (unwrap look y = .error e ↔ firstFailure look y = some e)
  | .none, e => by simp [unwrap, firstFailure, YS.slots]
  | .junk, e => by
      simp only [unwrap, firstFailure, YS.slots, List.findSome?_cons, slotErr]
      constructor <;> intro h <;> injection h with h <;> rw [h]
  | .f r, e => by
      simp only [unwrap, firstFailure, YS.slots, List.findSome?_cons, slotErr, List.findSome?_nil]
      cases look r with
      | none => simp; try (constructor <;> intro h <;> (try injection h with h) <;> simp_all)
      | some o => cases o <;> simp <;> try (constructor <;> intro h <;> (try injection h with h) <;> simp_all)
  | .tup l, e => by
      have := unwrapList_error_iff look l e
      simp only [unwrap, firstFailure, YS.slots] at this ⊢
      rw [← this]; cases unwrapList look l <;> simp
  | .lst l, e => by
      have := unwrapList_error_iff look l e
      simp only [unwrap, firstFailure, YS.slots] at this ⊢
      rw [← this]; cases unwrapList look l <;> simp
  | .dict ks l, e => by
      have := unwrapList_error_iff look l e
      simp only [unwrap, firstFailure, YS.slots] at this ⊢
      rw [← this]; cases unwrapList look l <;> simp
theorem unwrapList_error_iff {α : Type} (look : α → Option Outcome) :
    (l : List (YS α)) → (e : Err) →
      (unwrapList look l = .error e ↔ (YS.slotsList l).findSome? (slotErr look) = some e)
  | [], e => by simp [unwrapList, YS.slotsList]
  | y :: ys, e => by
      have h1 := unwrap_error_iff look y
      have h2 := unwrapList_error_iff look ys e
      simp only [firstFailure] at h1
      simp only [unwrapList, YS.slotsList, findSome?_append']
      cases hy : unwrap look y with
      | error e' =>
        have := (h1 e').1 hy
        simp [this]
      | ok v =>
        have hn : (YS.slots y).findSome? (slotErr look) = Option.none := by
          cases hf : (YS.slots y).findSome? (slotErr look) with
          | none => rfl
          | some e' => have := (h1 e').2 hf; rw [hy] at this; cases this
        rw [hn]; simp only [Option.none_or]; rw [← h2]
        cases unwrapList look ys <;> simp
end

theorem unwrap_ok_iff {α : Type} (look : α → Option Outcome) (y : YS α) :
    (∃ v, unwrap look y = .ok v) ↔ firstFailure look y = Option.none := by
  constructor
  · rintro ⟨v, hv⟩
    cases hf : firstFailure look y with
    | none => rfl
    | some e => have := (unwrap_error_iff look y e).2 hf; rw [hv] at this; cases this
  · intro h
    cases hu : unwrap look y with
    | ok v => exact ⟨v, rfl⟩
    | error e => have := (unwrap_error_iff look y e).1 hu; rw [h] at this; cases this

/-! ### a successful `unwrap` keeps the shape and fills every leaf with the looked-up value -/

mutual
theorem unwrap_shape {α : Type} (look : α → Option Outcome) :
    (y : YS α) → (v : Val) → unwrap look y = .ok v →
      sameShape y v ∧ (∀ p ∈ leafVals y v, look p.1 = some (.ok p.2)) ∧ (leafVals y v).map (·.1) = y.leaves
  | .none, v, h => by
      simp only [unwrap] at h; injection h with h; subst h
      simp [sameShape, leafVals, YS.leaves]
  | .junk, v, h => by simp [unwrap] at h
  | .f r, v, h => by
      simp only [unwrap] at h
      refine ⟨by simp [sameShape], ?_, by simp [leafVals, YS.leaves]⟩
      intro p hp
      simp only [leafVals, List.mem_singleton] at hp; subst hp
      cases hl : look r with
      | none => simp [hl] at h
      | some o => cases o <;> simp_all
  | .tup l, v, h => by
      simp only [unwrap] at h
      cases hu : unwrapList look l with
      | error e => simp [hu] at h
      | ok vs =>
        simp only [hu] at h; injection h with h; subst h
        simpa [sameShape, leafVals, YS.leaves] using unwrapList_shape look l vs hu
  | .lst l, v, h => by
      simp only [unwrap] at h
      cases hu : unwrapList look l with
      | error e => simp [hu] at h
      | ok vs =>
        simp only [hu] at h; injection h with h; subst h
        simpa [sameShape, leafVals, YS.leaves] using unwrapList_shape look l vs hu
  | .dict ks l, v, h => by
      simp only [unwrap] at h
      cases hu : unwrapList look l with
      | error e => simp [hu] at h
      | ok vs =>
        simp only [hu] at h; injection h with h; subst h
        simpa [sameShape, leafVals, YS.leaves] using unwrapList_shape look l vs hu
theorem unwrapList_shape {α : Type} (look : α → Option Outcome) :
    (l : List (YS α)) → (vs : List Val) → unwrapList look l = .ok vs →
      sameShapeList l vs ∧ (∀ p ∈ leafValsList l vs, look p.1 = some (.ok p.2)) ∧
        (leafValsList l vs).map (·.1) = YS.leavesList l
  | [], vs, h => by
      simp only [unwrapList] at h; injection h with h; subst h
      simp [sameShapeList, leafValsList, YS.leavesList]
  | y :: ys, vs, h => by
      simp only [unwrapList] at h
      cases hy : unwrap look y with
      | error e => simp [hy] at h
      | ok v =>
        cases hys : unwrapList look ys with
        | error e => simp [hy, hys] at h
        | ok ws =>
          simp only [hy, hys] at h; injection h with h; subst h
          obtain ⟨a1, a2, a3⟩ := unwrap_shape look y v hy
          obtain ⟨b1, b2, b3⟩ := unwrapList_shape look ys ws hys
          refine ⟨by simp [sameShapeList, a1, b1], ?_, by simp [leafValsList, YS.leavesList, a3, b3]⟩
          intro p hp
          simp only [leafValsList, List.mem_append] at hp
          cases hp with
          | inl hp => exact a2 p hp
          | inr hp => exact b2 p hp
end

/-! ### `unwrap` only looks at the leaves -/

mutual
theorem unwrap_congr {α : Type} (look look' : α → Option Outcome) :
    (y : YS α) → (∀ r ∈ y.leaves, look r = look' r) → unwrap look y = unwrap look' y
  | .none, _ => by simp [unwrap]
  | .junk, _ => by simp [unwrap]
  | .f r, h => by simp [unwrap, h r (by simp [YS.leaves])]
  | .tup l, h => by simp only [unwrap, unwrapList_congr look look' l (by simpa [YS.leaves] using h)]
  | .lst l, h => by simp only [unwrap, unwrapList_congr look look' l (by simpa [YS.leaves] using h)]
  | .dict ks l, h => by simp only [unwrap, unwrapList_congr look look' l (by simpa [YS.leaves] using h)]
theorem unwrapList_congr {α : Type} (look look' : α → Option Outcome) :
    (l : List (YS α)) → (∀ r ∈ YS.leavesList l, look r = look' r) → unwrapList look l = unwrapList look' l
  | [], _ => by simp [unwrapList]
  | y :: ys, h => by
      have h1 := unwrap_congr look look' y (fun r hr => h r (by simp [YS.leavesList, hr]))
      have h2 := unwrapList_congr look look' ys (fun r hr => h r (by simp [YS.leavesList, hr]))
      simp only [unwrapList, h1, h2]
end

/-! ### `extract_futures` and `leaves` have the same elements -/

mutual
theorem mem_extractFutures : (y : RY) → (f : Nat) → (f ∈ extractFutures y ↔ f ∈ y.leaves)
  | .none, f => by simp [extractFutures, YS.leaves]
  | .junk, f => by simp [extractFutures, YS.leaves]
  | .f r, f => by simp [extractFutures, YS.leaves]
  | .tup l, f => by simpa [extractFutures, YS.leaves] using mem_extractRev l f
  | .lst l, f => by simpa [extractFutures, YS.leaves] using mem_extractRev l f
  | .dict ks l, f => by simpa [extractFutures, YS.leaves] using mem_extractFwd l f
theorem mem_extractRev : (l : List RY) → (f : Nat) → (f ∈ extractRev l ↔ f ∈ YS.leavesList l)
  | [], f => by simp [extractRev, YS.leavesList]
  | y :: ys, f => by
      have h1 := mem_extractFutures y f
      have h2 := mem_extractRev ys f
      simp only [extractRev, YS.leavesList, List.mem_append, h1, h2]; exact Or.comm
theorem mem_extractFwd : (l : List RY) → (f : Nat) → (f ∈ extractFwd l ↔ f ∈ YS.leavesList l)
  | [], f => by simp [extractFwd, YS.leavesList]
  | y :: ys, f => by
      have h1 := mem_extractFutures y f
      have h2 := mem_extractFwd ys f
      simp only [extractFwd, YS.leavesList, List.mem_append, h1, h2]
end

/-- a yield with no futures has no dependencies, and conversely -/
theorem extractFutures_nil_iff (y : RY) : extractFutures y = [] ↔ y.leaves = [] := by
  simp only [List.eq_nil_iff_forall_not_mem, mem_extractFutures]

end P2
end AsynqModel.Core
