import AsynqModel.Proofs.P15Watch
import AsynqModel.Proofs.P14Inv
/-!
  P15, part 2: the simulation relation between the C03 observer's state `wOf s.trace` and the machine state `s`, and
  its preservation by the primitive operations of the machine.

  `R o r s` (`o`, `r`: is the start-order / the `.ret` clause checked):
  * `ok`   : the observer has accepted every event of the trace so far;
  * `ora`, `orc` : the observer's table of outcomes is exactly the machine's;
  * `runs` : the observer's `runs` entry of a task is its resume counter once it has started, and absent before;
  * `ly`   : for every started task that is suspended at a yield and not computed the observer's `lastYield` holds the
             resume counter and the structure yielded last;
  * `ns`   : a task that has not started is `pending` and has no context registered (so `_resume_contexts` cannot
             fail it).
  Only `futs` and `trace` of the state matter.
-/
namespace AsynqModel.Core.P15
open AsynqModel.Core AsynqModel.Core.Spec AsynqModel.Core.P2 AsynqModel.Core.P14

structure R (o r : Bool) (s : State) : Prop where
  ok : okTr3 o r s.trace
  ora : ∀ f out, s.out f = some out → (wOf s.trace).outs.lookup f = some out
  orc : ∀ f out, (wOf s.trace).outs.lookup f = some out → s.out f = some out
  runs : ∀ t, (wOf s.trace).runs.lookup t =
    if (s.task t).started = true then some (s.task t).resumes else none
  ly : ∀ t, (s.task t).pending = true → (s.task t).started = true → s.out t = none →
    (wOf s.trace).lastYield.lookup t = some ((s.task t).resumes, (s.task t).lastY)
  ns : ∀ t, (s.task t).started = false → (s.task t).pending = true ∧ (s.task t).ctxs = []

variable {o r : Bool}

theorem R.notDone {s : State} (h : R o r s) {f : Nat} (hf : s.out f = none) : (wOf s.trace).isDone f = false := by
  unfold Watch.isDone
  cases hl : (wOf s.trace).outs.lookup f with
  | none => rfl
  | some x => have := h.orc f x hl; rw [hf] at this; cases this

theorem R.isDone {s : State} (h : R o r s) {f : Nat} {x : Outcome} (hf : s.out f = some x) :
    (wOf s.trace).isDone f = true := by
  unfold Watch.isDone; rw [h.ora f x hf]; rfl

theorem R.started {s : State} (h : R o r s) (t : Nat) : (wOf s.trace).started t = (s.task t).started := by
  unfold Watch.started; rw [h.runs t]
  cases (s.task t).started <;> rfl

theorem task_default (s : State) (f : Nat) (h : s.futs.length ≤ f) : s.task f = {} := by
  unfold State.task; rw [fut_default_of_le s f h]

theorem task_updTask_ne (s : State) (t f : Nat) (g : TaskSt → TaskSt) (h : f ≠ t) :
    (s.updTask t g).task f = s.task f := by
  unfold State.task; rw [fut_updTask_ne s t f g h]

theorem task_init (cfg : Cfg) (tops : List (Conv × Body)) (choices : List (Nat × Nat)) (t : Nat) :
    (initState cfg tops choices).task t = {} := by
  simp [initState, State.task, State.fut]

theorem R_init (cfg : Cfg) (tops : List (Conv × Body)) (choices : List (Nat × Nat)) :
    R o r (initState cfg tops choices) := by
  refine ⟨trivial, fun f x h => ?_, fun f x h => ?_, fun t => ?_, fun t _ h _ => ?_, fun t _ => ?_⟩
  · simp [initState, State.out, State.fut] at h
  · simp [initState] at h
  · rw [task_init]; rfl
  · rw [task_init] at h; cases h
  · rw [task_init]; exact ⟨rfl, rfl⟩

/-- fields other than `futs` and `trace` do not matter -/
theorem R_of_eq {s s' : State} (hf : s'.futs = s.futs) (ht : s'.trace = s.trace) (h : R o r s) : R o r s' := by
  have e1 : ∀ f, s'.out f = s.out f := fun f => by simp [State.out, State.fut, hf]
  have e2 : ∀ f, s'.task f = s.task f := fun f => by simp [State.task, State.fut, hf]
  refine ⟨ht ▸ h.ok, fun f x ho => ?_, fun f x ho => ?_, fun t => ?_, fun t h1 h2 h3 => ?_, fun t hs => ?_⟩
  · rw [ht]; exact h.ora f x (e1 f ▸ ho)
  · rw [e1]; exact h.orc f x (ht ▸ ho)
  · rw [ht, e2]; exact h.runs t
  · rw [ht, e2]; rw [e2] at h1 h2; rw [e1] at h3; exact h.ly t h1 h2 h3
  · rw [e2] at hs ⊢; exact h.ns t hs

theorem R_fail {s : State} (m : String) (h : R o r s) : R o r (s.fail m) := R_of_eq (s := s) rfl rfl h

theorem plain_not_run {e : Event} (he : plainEv e = true) : ∀ t i dc r, e ≠ .run t i dc r := by
  intro t i dc r hh; subst hh; cases he

theorem plain_quiet {e : Event} (he : plainEv e = true) : quietEv e = true := by
  cases e <;> simp_all [plainEv, quietEv]

/-- an event the observer does not look at -/
theorem R_emit {s : State} (e : Event) (he : plainEv e = true) (h : R o r s) : R o r (s.emit e) := by
  refine ⟨⟨h.ok, chk3_quiet o r _ e (plain_quiet he)⟩, fun f x ho => ?_, fun f x ho => ?_, fun t => ?_,
    fun t h1 h2 h3 => ?_, fun t hs => h.ns t hs⟩
  · rw [emit_trace, wOf_cons, plain_outs _ _ he]; exact h.ora f x ho
  · rw [emit_trace, wOf_cons, plain_outs _ _ he] at ho; exact h.orc f x ho
  · rw [emit_trace, wOf_cons, runs_of_not_run _ _ (plain_not_run he)]; exact h.runs t
  · rw [emit_trace, wOf_cons, plain_lastYield _ _ he]; exact h.ly t h1 h2 h3

/-- a task update that keeps `pending`, `started`, `resumes`, `lastY` -/
theorem R_updTask {s : State} (t : Nat) (g : TaskSt → TaskSt)
    (h1 : ∀ ts, (g ts).pending = ts.pending) (h2 : ∀ ts, (g ts).started = ts.started)
    (h3 : ∀ ts, (g ts).resumes = ts.resumes) (h4 : ∀ ts, (g ts).lastY = ts.lastY)
    (h5 : ∀ ts, ts.ctxs = [] → (g ts).ctxs = []) (h : R o r s) :
    R o r (s.updTask t g) := by
  refine ⟨h.ok, fun f x ho => ?_, fun f x ho => ?_, fun u => ?_, fun u a1 a2 a3 => ?_, fun u hs => ?_⟩
  rotate_right
  · rw [task_updTask] at hs ⊢
    by_cases hc : u = t ∧ t < s.futs.length
    · simp only [if_pos hc] at hs ⊢
      rw [h2] at hs
      have := h.ns t hs
      exact ⟨by rw [h1]; exact this.1, h5 _ this.2⟩
    · simp only [if_neg hc] at hs ⊢; exact h.ns u hs
  · rw [out_updTask] at ho; exact h.ora f x ho
  · rw [out_updTask]; exact h.orc f x ho
  · rw [updTask_trace, task_updTask]
    by_cases hc : u = t ∧ t < s.futs.length
    · simp only [if_pos hc]; rw [h2, h3, ← hc.1]; exact h.runs u
    · simp only [if_neg hc]; exact h.runs u
  · rw [out_updTask] at a3
    rw [task_updTask] at a1 a2 ⊢
    by_cases hc : u = t ∧ t < s.futs.length
    · simp only [if_pos hc] at a1 a2 ⊢
      rw [h1] at a1; rw [h2] at a2; rw [h3, h4]
      rw [← hc.1]; rw [← hc.1] at a1 a2
      exact h.ly u a1 a2 a3
    · simp only [if_neg hc] at a1 a2 ⊢; exact h.ly u a1 a2 a3

/-- a task update that clears `pending` and keeps `started`, `resumes` -/
theorem R_updTask_np {s : State} (t : Nat) (g : TaskSt → TaskSt) (h1 : ∀ ts, (g ts).pending = false)
    (h2 : ∀ ts, (g ts).started = ts.started) (h3 : ∀ ts, (g ts).resumes = ts.resumes)
    (hst : (s.task t).started = true) (h : R o r s) :
    R o r (s.updTask t g) := by
  refine ⟨h.ok, fun f x ho => ?_, fun f x ho => ?_, fun u => ?_, fun u a1 a2 a3 => ?_, fun u hs => ?_⟩
  rotate_right
  · rw [task_updTask] at hs ⊢
    by_cases hc : u = t ∧ t < s.futs.length
    · simp only [if_pos hc] at hs
      rw [h2, hst] at hs; cases hs
    · simp only [if_neg hc] at hs ⊢; exact h.ns u hs
  · rw [out_updTask] at ho; exact h.ora f x ho
  · rw [out_updTask]; exact h.orc f x ho
  · rw [updTask_trace, task_updTask]
    by_cases hc : u = t ∧ t < s.futs.length
    · simp only [if_pos hc]; rw [h2, h3, ← hc.1]; exact h.runs u
    · simp only [if_neg hc]; exact h.runs u
  · rw [out_updTask] at a3
    rw [task_updTask] at a1 a2 ⊢
    by_cases hc : u = t ∧ t < s.futs.length
    · simp only [if_pos hc] at a1; rw [h1] at a1; cases a1
    · simp only [if_neg hc] at a1 a2 ⊢; exact h.ly u a1 a2 a3

/-- a context is registered with a task that has started -/
theorem R_updTask_reg {s : State} (t : Nat) (g : TaskSt → TaskSt)
    (h1 : ∀ ts, (g ts).pending = ts.pending) (h2 : ∀ ts, (g ts).started = ts.started)
    (h3 : ∀ ts, (g ts).resumes = ts.resumes) (h4 : ∀ ts, (g ts).lastY = ts.lastY)
    (hst : (s.task t).started = true) (h : R o r s) :
    R o r (s.updTask t g) := by
  refine ⟨h.ok, fun f x ho => ?_, fun f x ho => ?_, fun u => ?_, fun u a1 a2 a3 => ?_, fun u hs => ?_⟩
  rotate_right
  · rw [task_updTask] at hs ⊢
    by_cases hc : u = t ∧ t < s.futs.length
    · simp only [if_pos hc] at hs
      rw [h2, hst] at hs; cases hs
    · simp only [if_neg hc] at hs ⊢; exact h.ns u hs
  · rw [out_updTask] at ho; exact h.ora f x ho
  · rw [out_updTask]; exact h.orc f x ho
  · rw [updTask_trace, task_updTask]
    by_cases hc : u = t ∧ t < s.futs.length
    · simp only [if_pos hc]; rw [h2, h3, ← hc.1]; exact h.runs u
    · simp only [if_neg hc]; exact h.runs u
  · rw [out_updTask] at a3
    rw [task_updTask] at a1 a2 ⊢
    by_cases hc : u = t ∧ t < s.futs.length
    · simp only [if_pos hc] at a1 a2 ⊢
      rw [h1] at a1; rw [h2] at a2; rw [h3, h4]
      rw [← hc.1]; rw [← hc.1] at a1 a2
      exact h.ly u a1 a2 a3
    · simp only [if_neg hc] at a1 a2 ⊢; exact h.ly u a1 a2 a3

theorem task_complete_started (s : State) (f g : Nat) (x : Outcome) :
    ((s.complete f x).task g).started = (s.task g).started ∧ ((s.complete f x).task g).resumes = (s.task g).resumes ∧
    ((s.complete f x).task g).pending = (s.task g).pending ∧ ((s.complete f x).task g).ctxs = (s.task g).ctxs := by
  unfold State.task; rw [fut_complete]
  split
  · next hc => rw [hc.1]; split <;> exact ⟨rfl, rfl, rfl, rfl⟩
  · exact ⟨rfl, rfl, rfl, rfl⟩

/-- `set_value` / `set_error` of a future that exists and is not computed: the `done` event is accepted and enters the
    observer's table -/
theorem R_complete {s : State} (f : Nat) (x : Outcome) (hlt : f < s.futs.length) (hn : s.out f = none) (h : R o r s) :
    R o r (s.complete f x) := by
  have hchk : chk3 o r (wOf s.trace) (.done f x) = none := by
    simp only [chk3, h.notDone hn]; rfl
  refine ⟨⟨h.ok, hchk⟩, fun g x' ho => ?_, fun g x' hl => ?_, fun t => ?_, fun t a1 a2 a3 => ?_, fun t hs => ?_⟩
  rotate_right
  · obtain ⟨e1, _, e3, e4⟩ := task_complete_started s f t x
    rw [e1] at hs; rw [e3, e4]; exact h.ns t hs
  · rw [complete_trace, wOf_cons, done_outs]
    rw [out_complete] at ho
    split at ho
    · next hc => injection ho with ho; subst ho; rw [hc.1]; simp
    · next hc =>
      have hg : g ≠ f := fun e => hc ⟨e, hlt⟩
      have hb : (g == f) = false := by simp [hg]
      rw [List.lookup_cons, hb]; exact h.ora g x' ho
  · rw [complete_trace, wOf_cons, done_outs, List.lookup_cons] at hl
    rw [out_complete]
    by_cases hg : g = f
    · subst hg
      simp only [beq_self_eq_true] at hl
      simp [hlt]; injection hl
    · have hb : (g == f) = false := by simp [hg]
      rw [hb] at hl
      rw [if_neg (fun hc => hg hc.1)]
      exact h.orc g x' hl
  · rw [complete_trace, wOf_cons, runs_of_not_run _ _ (by intro _ _ _ _ hh; cases hh)]
    rw [(task_complete_started s f t x).1, (task_complete_started s f t x).2.1]; exact h.runs t
  · rw [complete_trace, wOf_cons, done_lastYield]
    rw [out_complete] at a3
    by_cases ht : t = f
    · subst ht
      rw [if_pos ⟨rfl, hlt⟩] at a3; cases a3
    · rw [if_neg (by intro hc; exact ht hc.1)] at a3
      rw [task_complete_ne _ _ _ _ ht] at a1 a2 ⊢
      rw [lookup_filter_ne _ _ _ ht]
      exact h.ly t a1 a2 a3

/-- a new future: the `new` event announces exactly the outcome it is created with -/
theorem R_alloc {s : State} (x : Fut) (nk : NewKind) (hx : x.ts.started = false) (hx2 : x.ts.pending = true)
    (hx3 : x.ts.ctxs = []) (ho : x.out = newOut nk) (h : R o r s) : R o r (s.alloc x nk).1 := by
  have hd : s.out s.futs.length = none := by
    unfold State.out; rw [fut_default_of_le s _ (Nat.le_refl _)]
  refine ⟨⟨h.ok, chk3_new ..⟩, fun g o' hg => ?_, fun g o' hl => ?_, fun t => ?_, fun t a1 a2 a3 => ?_, fun t hs => ?_⟩
  rotate_right
  · rw [task_alloc] at hs ⊢
    by_cases hc : t = s.futs.length
    · simp only [if_pos hc]; exact ⟨hx2, hx3⟩
    · simp only [if_neg hc] at hs ⊢; exact h.ns t hs
  · rw [alloc_trace, wOf_cons, new_outs]
    rw [out_alloc] at hg
    split at hg
    · next hc => rw [ho] at hg; rw [hg, hc]; simp
    · next hc =>
      have := h.ora g o' hg
      split
      · have hb : (g == s.futs.length) = false := by simp [hc]
        rw [List.lookup_cons, hb]; exact this
      · exact this
  · rw [alloc_trace, wOf_cons, new_outs] at hl
    rw [out_alloc]
    by_cases hg : g = s.futs.length
    · subst hg
      rw [if_pos rfl, ho]
      cases hk : newOut nk with
      | none => rw [hk] at hl; have := h.orc _ _ hl; rw [hd] at this; cases this
      | some o => rw [hk] at hl; simpa using hl
    · rw [if_neg hg]
      cases hk : newOut nk with
      | none => rw [hk] at hl; exact h.orc g o' hl
      | some o =>
        rw [hk] at hl
        have hb : (g == s.futs.length) = false := by simp [hg]
        simp only [List.lookup_cons, hb] at hl
        exact h.orc g o' hl
  · rw [alloc_trace, wOf_cons, runs_of_not_run _ _ (by intro _ _ _ _ hh; cases hh), task_alloc]
    by_cases hc : t = s.futs.length
    · simp only [if_pos hc, hx]
      have := h.runs t
      rw [hc, task_default s _ (Nat.le_refl _)] at this
      rw [hc]; exact this
    · simp only [if_neg hc]; exact h.runs t
  · rw [alloc_trace, wOf_cons, new_lastYield]
    rw [out_alloc] at a3
    rw [task_alloc] at a1 a2 ⊢
    by_cases hc : t = s.futs.length
    · simp only [if_pos hc] at a2; rw [hx] at a2; cases a2
    · simp only [if_neg hc] at a1 a2 a3 ⊢; exact h.ly t a1 a2 a3

/-- a task is (re)entered: its `pending` flag is cleared, the observer forgets its last yield and records the index -/
theorem R_run {s : State} (t i : Nat) (dc : Bool) (rv : Recv) (g : TaskSt → TaskSt) (hlt : t < s.futs.length)
    (h1 : (g (s.task t)).pending = false) (h2 : (g (s.task t)).started = true) (h3 : (g (s.task t)).resumes = i)
    (hchk : chk3 o r (wOf s.trace) (.run t i dc rv) = none) (h : R o r s) :
    R o r ((s.updTask t g).emit (.run t i dc rv)) := by
  refine ⟨⟨h.ok, hchk⟩, fun f x ho => ?_, fun f x hl => ?_, fun u => ?_, fun u a1 a2 a3 => ?_, fun u hs => ?_⟩
  rotate_right
  · rw [emit_task] at hs ⊢
    by_cases hu : u = t
    · subst hu
      rw [task_updTask_self _ _ _ hlt, h2] at hs; cases hs
    · rw [task_updTask_ne _ _ _ _ hu] at hs ⊢; exact h.ns u hs
  · rw [emit_trace, wOf_cons, run_outs]
    rw [emit_out, out_updTask] at ho; exact h.ora f x ho
  · rw [emit_trace, wOf_cons, run_outs] at hl
    rw [emit_out, out_updTask]; exact h.orc f x hl
  · rw [emit_trace, wOf_cons, run_runs, emit_task]
    by_cases hu : u = t
    · subst hu
      rw [task_updTask_self _ _ _ hlt, lookup_insertKV_self, h2, h3]; rfl
    · rw [task_updTask_ne _ _ _ _ hu, lookup_insertKV_ne _ _ _ _ hu]; exact h.runs u
  · rw [emit_trace, wOf_cons, run_lastYield]
    rw [emit_out, out_updTask] at a3
    rw [emit_task] at a1 a2 ⊢
    by_cases hu : u = t
    · subst hu
      rw [task_updTask_self _ _ _ hlt, h1] at a1; cases a1
    · rw [task_updTask_ne _ _ _ _ hu] at a1 a2 ⊢
      rw [lookup_filter_ne _ _ _ hu]; exact h.ly u a1 a2 a3

/-- a started task yields: the observer finds its `runs` entry equal to the index and records the structure -/
theorem R_yield {s : State} (t : Nat) (ry : RY) (g : TaskSt → TaskSt) (hst : (s.task t).started = true)
    (h2 : ∀ ts, (g ts).started = ts.started) (h3 : ∀ ts, (g ts).resumes = ts.resumes)
    (h4 : ∀ ts, (g ts).lastY = ry) (h : R o r s) :
    R o r ((s.emit (.yield t (s.task t).resumes ry)).updTask t g) := by
  have hchk : chk3 o r (wOf s.trace) (.yield t (s.task t).resumes ry) = none := by
    simp only [chk3, h.runs t, hst]; simp
  have hlt : t < s.futs.length := by
    rcases Nat.lt_or_ge t s.futs.length with hl | hl
    · exact hl
    · rw [task_default s t hl] at hst; cases hst
  refine ⟨⟨h.ok, hchk⟩, fun f x ho => ?_, fun f x hl => ?_, fun u => ?_, fun u a1 a2 a3 => ?_, fun u hs => ?_⟩
  rotate_right
  · by_cases hu : u = t
    · subst hu
      have e1 : ((s.emit (.yield u (s.task u).resumes ry)).updTask u g).task u = g (s.task u) :=
        task_updTask_self (s.emit _) u g hlt
      rw [e1, h2, hst] at hs; cases hs
    · have e1 : ((s.emit (.yield t (s.task t).resumes ry)).updTask t g).task u = s.task u :=
        task_updTask_ne (s.emit _) t u g hu
      rw [e1] at hs ⊢; exact h.ns u hs
  · rw [updTask_trace, emit_trace, wOf_cons, yield_outs]
    rw [out_updTask, emit_out] at ho; exact h.ora f x ho
  · rw [updTask_trace, emit_trace, wOf_cons, yield_outs] at hl
    rw [out_updTask, emit_out]; exact h.orc f x hl
  · rw [updTask_trace, emit_trace, wOf_cons, runs_of_not_run _ _ (by intro _ _ _ _ hh; cases hh)]
    by_cases hu : u = t
    · subst hu
      have e1 : ((s.emit (.yield u (s.task u).resumes ry)).updTask u g).task u = g (s.task u) :=
        task_updTask_self (s.emit _) u g hlt
      rw [e1, h2, h3]; exact h.runs u
    · have e1 : ((s.emit (.yield t (s.task t).resumes ry)).updTask t g).task u = s.task u :=
        task_updTask_ne (s.emit _) t u g hu
      rw [e1]; exact h.runs u
  · rw [updTask_trace, emit_trace, wOf_cons, yield_lastYield]
    rw [out_updTask, emit_out] at a3
    by_cases hu : u = t
    · subst hu
      have e1 : ((s.emit (.yield u (s.task u).resumes ry)).updTask u g).task u = g (s.task u) :=
        task_updTask_self (s.emit _) u g hlt
      rw [e1, lookup_insertKV_self, h3, h4]
    · have e1 : ((s.emit (.yield t (s.task t).resumes ry)).updTask t g).task u = s.task u :=
        task_updTask_ne (s.emit _) t u g hu
      rw [e1] at a1 a2 ⊢
      rw [lookup_insertKV_ne _ _ _ _ hu]; exact h.ly u a1 a2 a3

/-- the check of a first start -/
theorem chk_start_ok {s : State} (t : Nat) (h : R o r s) (hs : (s.task t).started = false) (ho : s.out t = none)
    (haw : t ∈ (wOf s.trace).awaited)
    (hord : o = true → elsewhere (wOf s.trace) t ∨ orderBad (wOf s.trace) t = false) :
    chk3 o r (wOf s.trace) (.run t 0 true .start) = none := by
  rw [chk3_run, h.notDone ho, h.runs t, hs]
  simp only [Bool.false_eq_true, if_false, Bool.not_true, startChk]
  have : (wOf s.trace).awaited.contains t = true := by simpa using haw
  simp only [bne_self_eq_false, Bool.false_eq_true, if_false, this, Bool.not_true]
  split
  · rfl
  · rename_i he
    cases o with
    | false => simp
    | true =>
      rcases hord rfl with h1 | h1
      · exact absurd h1 he
      · simp [h1]

/-- the check of a resume -/
theorem chk_resume_ok {s : State} (t : Nat) (x : Outcome) (h : R o r s) (hp : (s.task t).pending = true)
    (hs : (s.task t).started = true) (ho : s.out t = none)
    (hl : ∀ f ∈ (s.task t).lastY.leaves, s.computed f = true) :
    chk3 o r (wOf s.trace) (.run t ((s.task t).resumes + 1) ((s.task t).lastY.leaves.all s.computed) (.out x)) = none := by
  have hall : (s.task t).lastY.leaves.all s.computed = true := List.all_eq_true.2 hl
  rw [chk3_run, h.notDone ho, h.runs t, hs, hall]
  simp only [Bool.false_eq_true, if_false, Bool.not_true, if_true, resumeChk, h.ly t hp hs ho]
  simp

/-- the `.ret` event -/
theorem R_ret {s : State} (x : Outcome) (hchk : chk3 o r (wOf s.trace) (.ret x) = none) (h : R o r s) :
    R o r (s.emit (.ret x)) :=
  ⟨⟨h.ok, hchk⟩, fun f o' ho => h.ora f o' ho, fun f o' ho => h.orc f o' ho, fun t => h.runs t,
    fun t h1 h2 h3 => h.ly t h1 h2 h3, fun t hs => h.ns t hs⟩

/-- the `.ret` clause holds when every started task is computed -/
theorem chk_ret_ok {s : State} (x : Outcome) (h : R o r s)
    (hall : r = true → ∀ t, (s.task t).started = true → s.out t ≠ none) :
    chk3 o r (wOf s.trace) (.ret x) = none := by
  simp only [chk3]
  rw [if_neg]
  intro hc
  simp only [Bool.and_eq_true, List.any_eq_true] at hc
  obtain ⟨hr, ⟨t, j⟩, hm, hnd⟩ := hc
  have hl : ((wOf s.trace).runs.lookup t).isSome = true := by
    cases hq : (wOf s.trace).runs.lookup t with
    | some _ => rfl
    | none =>
      rw [List.lookup_eq_none_iff] at hq
      have := hq (t, j) hm
      simp at this
  rw [h.runs t] at hl
  have hst : (s.task t).started = true := by
    cases hq : (s.task t).started with
    | true => rfl
    | false => rw [hq] at hl; simp at hl
  have hne := hall hr t hst
  cases ho : s.out t with
  | none => exact hne ho
  | some v => rw [h.isDone ho] at hnd; simp at hnd

end AsynqModel.Core.P15
