import AsynqModel.Proofs.P26Lab
import AsynqModel.Proofs.P26TreeInv
/-!
  P26, part 5: in a tree-shaped program every task that waits for the entry on top of the task stack is ON THE SPINE
  of the labelled stack (it is that entry or the label of an entry), so its contexts are active.

  * `EN s`         : the caller of every synchronous call in progress can name (`P10.Named`) the root of that call;
  * `NStar s t a`  : `t` can reach `a` along `Named` edges (`t` names `v1`, `v1` names `v2`, ..., names `a`);
                     the machine's `P12.awaitsStar` is such a path (`nstar_of_awaitsStar`), and so is every path the
                     observer of C06 finds (Proofs/P26Obs.lean);
  * `nstar_spine`  : in a state with unique names (`TI.named_unique`) whose bottom stack entry nobody names, a task with
                     a `Named` path to a stack entry is that entry or a label;
  * `label_active` : the contexts of every label of a stack with at least two entries are active.
-/
namespace AsynqModel.Core.P26
open AsynqModel.Core P5 P7 P12 P16 P17
open AsynqModel.Core.P10 (Named)

/-! ### the caller of a synchronous call names its root -/

def EN (s : State) : Prop := ∀ t u, edgeIn s.ctl t u → Named s t u

theorem isWait_loop_of_enter {root b u : Nat} (h : isWait (.waitLoop root b) u) : isWait (.waitEnter root) u := by
  rcases h with h | ⟨b', h⟩
  · cases h
  · cases h; exact .inl rfl

theorem isWait_enter_of_loop {root b u : Nat} (h : isWait (.waitEnter root) u) : isWait (.waitLoop root b) u := by
  rcases h with h | ⟨b', h⟩
  · cases h; exact .inr ⟨b, rfl⟩
  · cases h

theorem edgeIn_tail {c : List Ctl} {p u : Nat} (h : edgeIn c.tail p u) : edgeIn c p u := by
  cases c with
  | nil => exact h
  | cons x c => exact edgeIn_cons x h

theorem EN_step {s r : State} (sh : P10.Sh s r) (h : EN s) (hi : P10.HInv s) (ht : P10.TopsWS s) : EN r := by
  have b := sh.base ht
  -- names are kept
  have nm : ∀ x y, Named s x y → Named r x y := by
    cases sh with
    | same h _ => exact h.named
    | top f _ h _ _ => exact (h ht).named
    | popRaise _ h _ => exact h.named
    | popEnter _ _ _ h _ => exact h.named
    | enterLoop _ _ _ _ h _ _ _ => exact h.named
    | guard _ _ _ _ e => subst e; exact fun _ _ h => h
    | popStack _ _ _ _ _ _ _ _ _ h _ _ _ _ => exact h.named
    | pushDeps _ _ _ _ _ _ _ _ _ _ h _ _ _ _ _ _ => exact h.named
    | enterGen _ _ _ _ _ _ _ _ _ _ h _ => exact h.named
    | reentrant _ _ _ _ _ _ _ _ _ _ e => subst e; exact fun _ _ h => h
    | popLoop _ _ _ _ _ _ h _ => exact h.named
    | flush _ _ _ _ _ _ h _ => exact h.named
    | genLeave _ _ _ _ h _ => exact h.named
    | genCall _ _ _ _ _ h _ _ => exact h.named
  have sub : (∀ p u, edgeIn r.ctl p u → edgeIn s.ctl p u) → EN r := fun hs t u he => nm t u (h t u (hs t u he))
  cases sh with
  | same hp c => exact sub (by rw [c]; exact fun _ _ h => h)
  | top f hc hp c hf =>
    intro t u he
    rw [c] at he
    rcases edgeIn_cons_inv he with he | ⟨_, _, _, he⟩
    · exact absurd he edgeIn_nil
    · cases he
  | popRaise _ hp c => exact sub (by rw [c]; exact fun _ _ h => edgeIn_tail h)
  | popEnter root rest hc hp c => exact sub (by rw [c, hc]; exact fun _ _ h => edgeIn_cons _ h)
  | enterLoop root rest hc _ hp _ c st =>
    refine sub ?_
    rw [c, hc]
    exact fun p u he => edgeIn_rehead he (fun r hr => isWait_loop_of_enter hr)
  | guard root base rest hc e =>
    subst e
    refine sub ?_
    intro p u he
    exact edgeIn_tail (c := s.ctl) he
  | popStack root base rest top st hc _ hlen hst hp _ c st' _ => exact sub (by rw [c]; exact fun _ _ h => h)
  | pushDeps root base rest top st ds hc _ hlen hst hp _ _ _ hds c st' => exact sub (by rw [c]; exact fun _ _ h => h)
  | enterGen root base rest top st old hc _ hlen hst hp c =>
    refine sub ?_
    rw [c]
    intro p u he
    rcases edgeIn_cons_inv he with he | ⟨hw, _⟩
    · exact he
    · exact absurd hw isWait_not_gen
  | reentrant _ _ _ _ _ _ _ _ _ _ e => subst e; exact h
  | popLoop root base rest hc _ _ hp c => exact sub (by rw [c, hc]; exact fun _ _ h => edgeIn_cons _ h)
  | flush root base rest hc _ _ hp c =>
    refine sub ?_
    rw [c, hc]
    exact fun p u he => edgeIn_rehead he (fun r hr => isWait_enter_of_loop hr)
  | genLeave t old rest hc hp c => exact sub (by rw [c, hc]; exact fun _ _ h => edgeIn_cons _ h)
  | genCall t old rest f hc hp c n =>
    intro p u he
    rw [c] at he
    rcases edgeIn_cons_inv he with he | ⟨hw, old', post, e⟩
    · exact nm p u (h p u he)
    · have hu : u = f := by
        rcases hw with hw | ⟨b', hw⟩
        · cases hw; rfl
        · cases hw
      rw [hc] at e
      cases e
      rw [hu]; exact n hi

theorem EN_init (cfg : Cfg) (tops : List (Conv × Body)) (choices : List (Nat × Nat)) :
    EN (initState cfg tops choices) := fun _ _ he => absurd he edgeIn_nil

theorem EN_reach {s : State} (h : P10.WSReach s) : EN s := by
  induction h with
  | init cfg tops choices _ => exact EN_init cfg tops choices
  | @step s hs ih => exact EN_step (P10.ws_step_sh hs) ih (P10.ws_hinv hs).1 (P10.ws_hinv hs).2

/-! ### paths of names -/

inductive NStar (s : State) : Nat → Nat → Prop
  | refl (t : Nat) : NStar s t t
  | tail {t v a : Nat} : NStar s t v → Named s v a → NStar s t a

theorem NStar.head {s : State} {t v a : Nat} (h1 : Named s t v) (h2 : NStar s v a) : NStar s t a := by
  induction h2 with
  | refl => exact .tail (.refl t) h1
  | tail _ hn ih => exact .tail ih hn

theorem NStar.trans {s : State} {a b c : Nat} (h1 : NStar s a b) (h2 : NStar s b c) : NStar s a c := by
  induction h2 with
  | refl => exact h1
  | tail _ hn ih => exact .tail ih hn

/-- a task that waits for a future can name it -/
theorem named_of_awaits {s : State} (hi : P10.HInv s) (en : EN s) {t u : Nat} (h : awaits s t u) : Named s t u := by
  rcases h with ⟨_, _, h | h⟩ | h
  · exact hi.lastY t u h
  · exact hi.deps t u h
  · exact en t u h.2.2

theorem nstar_of_awaitsStar {s : State} (hi : P10.HInv s) (en : EN s) {t u : Nat} (h : awaitsStar s t u) :
    NStar s t u := by
  induction h with
  | refl _ => exact .refl _
  | head ha _ ih => exact NStar.head (named_of_awaits hi en ha) ih

/-! ### the labelled stack -/

/-- every entry of the labelled stack is the bottom entry, labelled with itself, or has a parent (with active
    contexts) that is an entry further down -/
theorem laba_entry {s : State} : ∀ (L : List (Nat × Nat)), LabA s L → ∀ a pa, (a, pa) ∈ L →
    (L.getLast? = some (a, pa) ∧ pa = a) ∨ (LinkA s pa a ∧ ∃ pp, (pa, pp) ∈ L)
  | [], _, _, _, h => by cases h
  | [(r, p)], hl, a, pa, h => by
    simp only [List.mem_singleton, Prod.mk.injEq] at h
    obtain ⟨rfl, rfl⟩ := h
    exact .inl ⟨rfl, hl⟩
  | (a0, pa0) :: (b, pb) :: rest, hl, a, pa, h => by
    have ih := laba_entry ((b, pb) :: rest) hl.2.2
    rcases List.mem_cons.1 h with e | h
    · simp only [Prod.mk.injEq] at e
      obtain ⟨rfl, rfl⟩ := e
      refine .inr ⟨hl.1, ?_⟩
      rcases hl.2.1 with e | e
      · exact ⟨pb, by rw [e]; simp⟩
      · rcases ih b pb List.mem_cons_self with ⟨_, e2⟩ | ⟨_, pp, hpp⟩
        · exact ⟨pb, by rw [e, e2]; simp⟩
        · exact ⟨pp, by rw [e]; exact List.mem_cons_of_mem _ hpp⟩
    · rcases ih a pa h with ⟨h1, h2⟩ | ⟨h1, pp, hpp⟩
      · exact .inl ⟨by rw [List.getLast?_cons_cons]; exact h1, h2⟩
      · exact .inr ⟨h1, pp, List.mem_cons_of_mem _ hpp⟩

/-- a label is the parent of an entry - or the stack has a single entry -/
theorem label_link {s : State} : ∀ (L : List (Nat × Nat)), LabA s L → ∀ q ∈ L.map Prod.snd,
    (∃ a, LinkA s q a) ∨ L = [(q, q)]
  | [], _, _, h => by cases h
  | [(r, p)], hl, q, h => by
    simp only [List.map_cons, List.map_nil, List.mem_singleton] at h
    have hp : p = r := hl
    subst h; subst hp
    exact .inr rfl
  | (a0, pa0) :: (b, pb) :: rest, hl, q, h => by
    simp only [List.map_cons, List.mem_cons] at h
    rcases h with e | h
    · subst e; exact .inl ⟨a0, hl.1⟩
    · rcases label_link ((b, pb) :: rest) hl.2.2 q (by simpa using h) with h1 | h1
      · exact .inl h1
      · simp only [List.cons.injEq, Prod.mk.injEq] at h1
        obtain ⟨⟨hb, hpb⟩, _⟩ := h1
        refine .inl ⟨a0, ?_⟩
        have : pa0 = q := by
          rcases hl.2.1 with e | e
          · exact e.trans hb
          · exact e.trans hpb
        rw [← this]; exact hl.1

/-- **the spine**: with unique names, and nobody naming the bottom entry, a task with a path of names to a stack
    entry is that entry or a label -/
theorem nstar_spine {s : State} (uniq : ∀ p q a, Named s p a → Named s q a → p = q)
    (nm : ∀ p a, Link s p a → Named s p a) {L : List (Nat × Nat)} (hl : LabA s L)
    (hbot : ∀ x, L.getLast? = some x → ∀ p, ¬ Named s p x.1) {t a : Nat} (h : NStar s t a) :
    (∃ pa, (a, pa) ∈ L) → t = a ∨ t ∈ L.map Prod.snd := by
  induction h with
  | refl => exact fun _ => .inl rfl
  | @tail v a hst hn ih =>
    rintro ⟨pa, hm⟩
    right
    rcases laba_entry L hl a pa hm with ⟨h1, _⟩ | ⟨h1, pp, hpp⟩
    · exact absurd hn (hbot (a, pa) h1 v)
    · have hv : v = pa := uniq v pa a hn (nm pa a h1.1)
      subst hv
      rcases ih ⟨pp, hpp⟩ with e | e
      · rw [e]; exact List.mem_map.2 ⟨(a, v), hm, rfl⟩
      · exact e

/-- a link is a name -/
theorem named_of_link {s : State} (hi : P10.HInv s) (en : EN s) {p a : Nat} (h : Link s p a) : Named s p a :=
  named_of_awaits hi en h.awaits

end AsynqModel.Core.P26
