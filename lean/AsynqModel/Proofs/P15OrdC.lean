import AsynqModel.Proofs.P15OrdB
/-!
  P15, part 15 (start-order clause): what a step does to the task stack (`StackRel`), and the preservation of the stack
  invariant `OrdInv`.
-/
namespace AsynqModel.Core.P15
open AsynqModel.Core AsynqModel.Core.Spec AsynqModel.Core.P2 AsynqModel.Core.P14

/-- the four things a step can do to the task stack -/
inductive StackRel (s : State) : Prop
  | same (e : (step s).stack = s.stack)
  | root (root : Nat) (rest : List Ctl) (hc : s.ctl = .waitEnter root :: rest) (e : (step s).stack = root :: s.stack)
  | pop (root base : Nat) (rest : List Ctl) (top : Nat) (stk : List Nat) (hc : s.ctl = .waitLoop root base :: rest)
      (hst : s.stack = top :: stk) (e : (step s).stack = stk)
      (hstart : (s.fut top).kind = .task → ((step s).task top).started = true)
  | push (root base : Nat) (rest : List Ctl) (top : Nat) (stk : List Nat) (hc : s.ctl = .waitLoop root base :: rest)
      (hst : s.stack = top :: stk) (hk : (s.fut top).kind = .task) (hnc : s.computed top = false)
      (e : (step s).stack = ((s.task top).deps.filter fun d => !s.computed d).reverse ++ s.stack)

theorem length_ne_cons {α : Type} (x : α) (l : List α) : l ≠ x :: l := by
  intro h
  have := congrArg List.length h
  simp at this

theorem stackRel {s : State} (h : P10.WSReach s) (hs : s.stuck = none) (hg : (step s).guardFired = false)
    (hn : Inv.noNonAsync (step s) = true) : StackRel s := by
  have hg0 := P3.guard_mono s hg
  have hn0 := P4.step_noNonAsync s hn
  have hna := P7.na_of_noNonAsync hn0
  have hr := h.reach
  have pin := pinv_reach hr
  have lb := P12.lib_of_ws h hg0 hna
  have qs := Q_reach h hg0 hn0
  have w := stepW_reach hr
  have sc := P12.step_sc s hna pin.items lb.raising
    (fun t old rest hc => P5.lt_of_kind_task s t (pin.genKind t (by rw [hc]; simp [gens])))
  cases sc with
  | same hp c st => exact .same st
  | top f hc0 hp c st => exact .same st
  | popEnter root rest hc0 hp c st => exact .same st
  | popLoop root base rest hc0 hlen hp c st => exact .same st
  | enterLoop root rest hc0 hp c st => exact .root root rest hc0 st
  | flush root base rest hc0 hlen hp c st => exact .same st
  | pop root base rest top stk hc0 hst hlen hno hp c st =>
    refine .pop root base rest top stk hc0 hst st ?_
    intro hk
    rcases hno with h1 | h1
    · exact w.st top (qs.q2 top hk (by unfold State.computed at h1; intro ho; rw [ho] at h1; cases h1))
    · exact absurd hk h1
  | suspend root base rest top stk hc0 hst hlen hk hp hact hpend c st =>
    refine .pop root base rest top stk hc0 hst st ?_
    intro _
    cases hcomp : s.computed top with
    | true =>
      exact w.st top (qs.q2 top hk (by unfold State.computed at hcomp; intro ho; rw [ho] at hcomp; cases hcomp))
    | false =>
      have e := step_exec_task hs lb.raising hc0 hlen hst hg hg0 hk hcomp
      cases hb : ((s.task top).deps.any fun d => !s.computed d) with
      | false =>
        rw [e, handle_stack_nb s top hb, hst] at st
        exact absurd st.symm (length_ne_cons top stk)
      | true =>
        rw [List.any_eq_true] at hb
        obtain ⟨d, hd, _⟩ := hb
        cases hq : (s.task top).started with
        | true => exact w.st top hq
        | false => rw [qs.q1 top hq] at hd; cases hd
  | visit root base rest top stk hc0 hst hlen hk hnc ds hne hds hp hpend hdeps hcomp c st =>
    have e := step_exec_task hs lb.raising hc0 hlen hst hg hg0 hk hnc
    cases hb : ((s.task top).deps.any fun d => !s.computed d) with
    | false =>
      rw [e, handle_stack_nb s top hb] at st
      have : ds = [] := by
        have := congrArg List.length st
        simpa using this
      exact absurd this hne
    | true =>
      cases hf : (s.task top).depsSched with
      | true =>
        rw [e, handle_stack_sched s top hb hf, hst] at st
        have := congrArg List.length st
        simp at this
        omega
      | false =>
        refine .push root base rest top stk hc0 hst hk hnc ?_
        rw [e]
        exact P6T.handleTask_first_stack' s top (noNA_of_NA hna) hb hf
  | enterGen root base rest top stk old hc0 hst hlen hk hnc hp c st => exact .same st
  | gen t0 old rest hc0 g =>
    cases g with
    | stay hp c st => exact .same st
    | leave hp c st hx => exact .same st
    | call f hp c st hb hpnd => exact .same st
  | guard hgf => rw [hg] at hgf; cases hgf

theorem ord_step {s : State} (h : P10.WSReach s) (hg : (step s).guardFired = false)
    (hn : Inv.noNonAsync (step s) = true) (oi : OrdInv s) : OrdInv (step s) := by
  by_cases hs : s.stuck = none
  case neg => rw [P3.step_of_stuck s hs]; exact oi
  have hg0 := P3.guard_mono s hg
  have hn0 := P4.step_noNonAsync s hn
  have hr := h.reach
  have qs := Q_reach h hg0 hn0
  have w := stepW_reach hr
  have sr := stackRel h hs hg hn
  intro u l hm p' t hp' ht hts hse
  have hts0 := w.unst hts
  have hse0 : ¬ elsewhere (wOf s.trace) t := fun he => hse (w.el t he)
  -- an old obligation
  have old : (u, l) ∈ (wOf s.trace).orderObl →
      ∀ a ∈ l.takeWhile (· != t), ((step s).task a).started = true ∨ a ∈ (step s).stack.take p' := by
    intro hm0
    cases sr with
    | same e =>
      exact ord_pos oi w.st w.el hm0 ht hts hse (p := p') (by rw [← e]; exact hp')
        (fun a ha _ => Or.inl (by rw [e]; exact ha))
    | root root rest hc e =>
      rw [e] at hp'
      cases p' with
      | zero =>
        simp only [List.getElem?_cons_zero, Option.some.injEq] at hp'
        subst hp'
        exact (root_no_obl h hg0 hn0 hc hts0 hm0 ht hse0).elim
      | succ p =>
        simp only [List.getElem?_cons_succ] at hp'
        refine ord_pos oi w.st w.el hm0 ht hts hse (p := p) hp' (fun a ha _ => Or.inl ?_)
        rw [e, List.take_succ_cons]
        exact List.mem_cons_of_mem _ ha
    | pop root base rest top stk hc hst e hstart =>
      refine ord_pos oi w.st w.el hm0 ht hts hse (p := p' + 1) (by rw [hst]; simpa using (e ▸ hp')) ?_
      intro a ha hal
      rw [hst, List.take_succ_cons] at ha
      rcases List.mem_cons.1 ha with ha | ha
      · right; rw [ha]; exact hstart (ha ▸ qs.q4 u l hm0 a hal)
      · left; rw [e]; exact ha
    | push root base rest top stk hc hst hk hnc e =>
      rcases Nat.lt_or_ge p' ((s.task top).deps.filter fun d => !s.computed d).reverse.length with hlt | hge
      · -- a position among the pushed dependencies
        have htD : t ∈ ((s.task top).deps.filter fun d => !s.computed d).reverse := by
          rw [e, List.getElem?_append_left hlt] at hp'
          exact List.mem_of_getElem? hp'
        have htd : t ∈ (s.task top).deps := (List.mem_filter.1 (List.mem_reverse.1 htD)).1
        have hu : u = top :=
          single_unique hse0 (obl_mentions s.trace u l hm0 t ht) (qs.q5 top t htd)
        subst hu
        have hou : s.out u = none := computed_false (by rw [hnc]; simp)
        have hcur : Cur s u l := by
          rcases qs.q8 u l hm0 with c1 | c1 | c1
          · exact absurd hou c1
          · have := c1 t ht; rw [hts0] at this; cases this
          · exact c1
        obtain ⟨c1, c2, c3, ⟨P, c4⟩, c5⟩ := hcur
        obtain ⟨pre, hpre⟩ := qs.q7 u c1 c2 c3
        have hunc : ∀ x, x ∈ l → (s.task x).started = false → (!s.computed x) = true := by
          intro x hx hxs
          have hkx := qs.q4 u l hm0 x hx
          cases hcx : s.computed x with
          | false => rfl
          | true =>
            have := qs.q2 x hkx (by unfold State.computed at hcx; intro ho; rw [ho] at hcx; cases hcx)
            rw [hxs] at this; cases this
        intro a ha
        cases has : (s.task a).started with
        | true => exact Or.inl (w.st a has)
        | false =>
          right
          rw [e, hpre]
          rw [e, hpre] at hp'
          exact order_push (unc := fun d => !s.computed d) c4 c5 ht ha (hunc t ht hts0)
            (hunc a ((List.takeWhile_sublist _).subset ha) has) hp'
      · -- a position of the old stack
        have hp0 : s.stack[p' - ((s.task top).deps.filter fun d => !s.computed d).reverse.length]? = some t := by
          rw [e, List.getElem?_append_right hge] at hp'; exact hp'
        refine ord_pos oi w.st w.el hm0 ht hts hse hp0 (fun a ha _ => Or.inl ?_)
        rw [e, List.take_append]
        exact List.mem_append_right _ ha
  rcases w.obl with e | ⟨t0, old', rest, ry, hc0, hp0, e, hfm⟩
  · rw [e] at hm; exact old hm
  · rw [e] at hm
    rcases List.mem_cons.1 hm with hm | hm
    · -- the obligation created by this very yield: `t` would be awaited from two places
      injection hm with h1 h2
      subst h1; subst h2
      have hstk : (step s).stack = s.stack := by
        cases sr with
        | same e' => exact e'
        | root root rest' hc _ => rw [hc0] at hc; cases hc
        | pop root base rest' top stk hc _ _ _ => rw [hc0] at hc; cases hc
        | push root base rest' top stk hc _ _ _ _ => rw [hc0] at hc; cases hc
      rw [hstk] at hp'
      obtain ⟨pa, hne, hmen⟩ := stack_mention h hg0 hn0 hp' hts0 hc0 hp0
      exact absurd (elsewhere_of_two (w.men _ hmen) (hfm t ht) hne) hse
    · exact old hm

theorem ordInv_reach {s : State} (h : P10.WSReach s) (hg : s.guardFired = false) (hn : Inv.noNonAsync s = true) :
    OrdInv s := by
  induction h with
  | init cfg tops choices _ => exact ordInv_init cfg tops choices
  | @step s hs ih => exact ord_step hs hg hn (ih (P3.guard_mono s hg) (P4.step_noNonAsync s hn))

end AsynqModel.Core.P15
