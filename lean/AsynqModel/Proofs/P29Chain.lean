import AsynqModel.Proofs.P29Spine
/-!
  P29, part 2: the observer's awaiting chain (`Spec.Watch.chain`, defined when every task on it has exactly one awaiter)
  of the running task IS the executable spine `P29.spine s`; hence the expectation of the `.read` clause of
  `Spec.checkC07` is `P29.spineOverride`.
-/
namespace AsynqModel.Core.P29
open AsynqModel.Core AsynqModel.Core.Spec P5 P7 P12 P17
open AsynqModel.Core.P13 (obs W)

/-- a labelling with the properties of `P26.Spine` and the bottom clause in the form the observer lemmas use -/
theorem spine_bot {s : State} (hs : P10.WSReach s) (hg : s.guardFired = false) :
    ∃ L, P26.Spine s L ∧ BotOK s L := by
  obtain ⟨L, hL, hlab, hh, hbot⟩ := P26.LabIA_reach' hs hg
  have sr := (P13.inv13_of_reach hs.reach { (default : Spec.Ctx) with cfg := s.cfg } rfl).sr
  exact ⟨L, ⟨hL, hlab, hh, fun x hx => curTop_of_bottom s.ctl x.1 sr.bur (hbot x hx), (P10.ws_hinv hs).1,
    P26.EN_reach hs⟩, hbot⟩

/-- **the observer's chain of the running task is the spine** -/
theorem chain_eq_spine {s : State} (hs : P10.WSReach s) (hg : s.guardFired = false)
    {t : Nat} {old : Option Nat} {rest : List Ctl} (hctl : s.ctl = .gen t old :: rest) {fuel : Nat} {ch : List Nat}
    (hch : (W s).chain fuel t = some ch) : ch = spine s := by
  have ra := P27.RA_reach' hs hg (default : Ctx)
  have pi := P2.pinv_reach hs.reach
  have sr := (P13.inv13_of_reach hs.reach { (default : Ctx) with cfg := s.cfg } rfl).sr
  obtain ⟨L, sp, hbot⟩ := spine_bot hs hg
  have hsp := spine_eq_lspine hs hg sp hctl
  have hA : ∀ p a, LinkA s p a → s.computed a = false → p ∈ (W s).awaiters a :=
    fun p a hl hc => link_awaiter ra.g1 sr hl.1 hc
  have hU : ∀ p a, Link s p a → s.computed p = false := by
    intro p a hl
    rcases hl.2 with h1 | h1
    · exact h1.1
    · have := pi.live p (edgeIn_gens h1.2.2)
      simp [State.computed, this]
  have hbb : ∀ x, L.getLast? = some x → (W s).awaiters x.1 = [] :=
    fun x hx => awaiters_bottom ra.g1 sr (hbot x hx)
  have hd := (P10.ws_cinv hs hg).disc
  rw [hctl] at hd
  have hhead : s.stack.head? = some t := disc_gen_head hd
  have hug : t ∈ P2.gens s.ctl := by rw [hctl]; simp [P2.gens]
  have hnc : s.computed t = false := by simp [State.computed, pi.live t hug]
  have hL := sp.stk
  cases L with
  | nil => rw [← hL] at hhead; cases hhead
  | cons x0 Lr =>
    obtain ⟨a0, p0⟩ := x0
    have ha0 : a0 = t := by rw [← hL] at hhead; simpa using hhead
    subst ha0
    rw [hsp]
    exact chain_top hA hU a0 p0 Lr sp.lab hbb hnc _ ch hch

/-- the expectation of the `.read` clause of `Spec.checkC07`, when the observer makes a claim, is `spineOverride` -/
theorem expected_eq_spineOverride {s : State} (hs : P10.WSReach s) (hg : s.guardFired = false)
    {t : Nat} {old : Option Nat} {rest : List Ctl} (hctl : s.ctl = .gen t old :: rest) {ch : List Nat}
    (hch : (W s).chain (W s).fuel t = some ch) (var : Nat) :
    expectedOf (W s) var ch = spineOverride s var := by
  have h1 := P27.read_ok' hs hg (P27.RA_reach' hs hg (default : Ctx)) hctl var
  rw [checkRead_read, hch] at h1
  simp only at h1
  rw [← read_value hs hg var]
  by_cases e : s.svGet var = expectedOf (W s) var ch
  · exact e.symm
  · exfalso
    have : (Val.a (s.svGet var) != Val.a (expectedOf (W s) var ch)) = true := by
      simp [e]
    rw [this] at h1
    cases h1

end AsynqModel.Core.P29
