import AsynqModel.Lib.Asyncio
import AsynqModel.Proofs.Asyncio
/-! C15: the two engines run IN LOCKSTEP, task by task and yield by yield, until the asyncio run attempts a plain
    synchronous call (which is refused): the projections of their logs on start / run / fin events are equal as long as no
    synchronous call has been logged, and from the first refusal on the asyncio log up to that point stays a prefix of the
    asynq log. -/
namespace AsynqModel.Asyncio
open AsynqModel.Core (Val)

/-! ### logs only grow -/

/-- the log of `s2` extends the log of `s` -/
def LogExt (s s2 : St) : Prop := ∃ l, s2.log = l ++ s.log

theorem LogExt.refl (s : St) : LogExt s s := ⟨[], rfl⟩

theorem LogExt.trans {s s1 s2 : St} (h1 : LogExt s s1) (h2 : LogExt s1 s2) : LogExt s s2 := by
  obtain ⟨l1, e1⟩ := h1
  obtain ⟨l2, e2⟩ := h2
  exact ⟨l2 ++ l1, by simp [e2, e1]⟩

theorem LogExt.emit (s : St) (e : Ev) : LogExt s (s.emit e) := ⟨[e], rfl⟩

/-- only the logs matter -/
theorem LogExt.logs {s s2 t t2 : St} (h : LogExt s s2) (h1 : t.log = s.log) (h2 : t2.log = s2.log) : LogExt t t2 := by
  obtain ⟨l, e⟩ := h
  exact ⟨l, by rw [h1, h2, e]⟩

theorem Ext.logExt {ok : Ev → Bool} {labs : List Nat} {s s2 : St} (h : Ext ok labs s s2) : LogExt s s2 := by
  obtain ⟨l, e, _, _⟩ := h
  exact ⟨l, e⟩

/-! ### the part of a log before the first synchronous call -/

/-- has a synchronous call been logged? -/
def St.hasSync (s : St) : Bool := s.log.any isSyncX

/-- the log (oldest first) before the first synchronous call -/
def St.pre (s : St) : List Ev := cutSync s.log.reverse

theorem takeWhile_append_of_stop {α : Type} (p : α → Bool) :
    ∀ (a b : List α), a.any (fun x => !p x) = true → (a ++ b).takeWhile p = a.takeWhile p
  | [], _, h => by simp at h
  | x :: a, b, h => by
    cases hx : p x
    · simp [hx]
    · have ha : a.any (fun x => !p x) = true := by simpa [hx] using h
      simp [hx, takeWhile_append_of_stop p a b ha]

theorem takeWhile_all {α : Type} (p : α → Bool) : ∀ (a : List α), (∀ x ∈ a, p x = true) → a.takeWhile p = a
  | [], _ => rfl
  | x :: a, h => by
    have hx : p x = true := h x List.mem_cons_self
    simp [hx, takeWhile_all p a (fun y hy => h y (List.mem_cons_of_mem _ hy))]

theorem noSync_all {l : List Ev} (h : l.any isSyncX = false) : ∀ x ∈ l, (!isSyncX x) = true := by
  intro x hx
  cases hs : isSyncX x
  · rfl
  · have : l.any isSyncX = true := List.any_eq_true.mpr ⟨x, hx, hs⟩
    rw [h] at this; cases this

/-- once a synchronous call is in the log, what precedes the first one is fixed -/
theorem pre_ext {s s2 : St} (h : LogExt s s2) (hs : s.hasSync = true) : s2.pre = s.pre := by
  obtain ⟨l, e⟩ := h
  simp only [St.pre, cutSync, e, List.reverse_append]
  apply takeWhile_append_of_stop
  simpa [St.hasSync, List.any_reverse] using hs

theorem pre_noSync {s : St} (hs : s.hasSync = false) : s.pre = s.log.reverse := by
  simp only [St.pre, cutSync]
  apply takeWhile_all
  intro x hx
  exact noSync_all hs x (List.mem_reverse.mp hx)

/-- the first synchronous call: everything logged before it precedes it -/
theorem pre_emit_sync {s : St} {e : Ev} (hs : s.hasSync = false) (he : isSyncX e = true) :
    (s.emit e).pre = s.log.reverse := by
  simp only [St.pre, cutSync, emit_log, List.reverse_cons]
  rw [List.takeWhile_append_of_pos (fun x hx => noSync_all hs x (List.mem_reverse.mp hx))]
  simp [he]

theorem hasSync_ext {s s2 : St} (h : LogExt s s2) (hs : s.hasSync = true) : s2.hasSync = true := by
  obtain ⟨l, e⟩ := h
  simp only [St.hasSync, e, List.any_append] at hs ⊢
  simp [hs]

/-! ### lockstep / diverged -/

/-- no synchronous call so far, and the two logs agree on their projections -/
def Lock (s s' : St) : Prop := s.hasSync = false ∧ proj s.log = proj s'.log

/-- a synchronous call has been attempted by the asyncio run; what it logged before is the beginning of the asynq log -/
def Div (s s' : St) : Prop := s.hasSync = true ∧ proj s.pre <+: proj s'.log.reverse

theorem Lock.logs {s s' t t' : St} (h : Lock s s') (h1 : t.log = s.log) (h2 : t'.log = s'.log) : Lock t t' := by
  unfold Lock St.hasSync at *
  rw [h1, h2]; exact h

theorem Lock.emit {s s' : St} {e e' : Ev} (h : Lock s s') (hp : projEv e = projEv e') (hs : isSyncX e = false) :
    Lock (s.emit e) (s'.emit e') := by
  obtain ⟨h1, h2⟩ := h
  refine ⟨by simpa [St.hasSync, hs] using h1, ?_⟩
  simp only [proj, emit_log, List.filterMap_cons, hp] at h2 ⊢
  rw [h2]

/-- an event that is not projected (`afn`), logged by the asyncio side only -/
theorem Lock.emitA {s s' : St} {e : Ev} (h : Lock s s') (hp : projEv e = none) (hs : isSyncX e = false) :
    Lock (s.emit e) s' := by
  obtain ⟨h1, h2⟩ := h
  refine ⟨by simpa [St.hasSync, hs] using h1, ?_⟩
  simp only [proj, emit_log, List.filterMap_cons, hp] at h2 ⊢
  exact h2

theorem Div.logs {s s' t t' : St} (h : Div s s') (h1 : t.log = s.log) (h2 : t'.log = s'.log) : Div t t' := by
  unfold Div St.hasSync St.pre at *
  rw [h1, h2]; exact h

theorem Div.ext {s s' s2 s2' : St} (h : Div s s') (ha : LogExt s s2) (hr : LogExt s' s2') : Div s2 s2' := by
  obtain ⟨h1, h2⟩ := h
  refine ⟨hasSync_ext ha h1, ?_⟩
  rw [pre_ext ha h1]
  obtain ⟨l', e'⟩ := hr
  rw [e', List.reverse_append]
  simp only [proj, List.filterMap_append]
  exact h2.trans (List.prefix_append _ _)

/-- the first refusal: the asyncio log up to it is (the projection of) what the asynq run had logged at that point -/
theorem Div.ofSync {s s' : St} {e : Ev} (h : Lock s s') (he : isSyncX e = true) : Div (s.emit e) s' := by
  obtain ⟨h1, h2⟩ := h
  refine ⟨by simp [St.hasSync, he], ?_⟩
  rw [pre_emit_sync h1 he]
  simp only [proj, List.filterMap_reverse] at h2 ⊢
  rw [h2]
  exact List.prefix_refl _

/-- either still in lockstep with equal outcomes, or diverged after a refused synchronous call -/
def Res {α : Type} (oa or : α) (sa sr : St) : Prop := (oa = or ∧ Lock sa sr) ∨ Div sa sr

theorem Res.logs {α : Type} {oa or : α} {sa sr ta tr : St} (h : Res oa or sa sr) (h1 : ta.log = sa.log)
    (h2 : tr.log = sr.log) : Res oa or ta tr := by
  rcases h with ⟨e, l⟩ | d
  · exact .inl ⟨e, l.logs h1 h2⟩
  · exact .inr (d.logs h1 h2)

theorem Res.wrap {oa or : OutL} {sa sr : St} (f : List Val → Val) (h : Res oa or sa sr) :
    Res (oa.wrap f) (or.wrap f) sa sr := by
  rcases h with ⟨e, l⟩ | d
  · exact .inl ⟨by rw [e], l⟩
  · exact .inr d

/-! ### how far the log of a yield / a gather reaches -/

theorem bodyA_yld_ext (hb : Bool) (y : Ys) (k h : Prog) (t : Nat) (env : List Val) (caught : Option Err) (i : Nat) (s : St)
    (hm : s.mode = true) : LogExt (resolveA y s).2 (bodyA true t env caught i (.yld hb y k h) s).2 := by
  unfold bodyA
  have h2 := resolveA_mode y s
  rcases hR : resolveA y s with ⟨r, s1⟩
  rw [hR] at h2
  simp only at h2
  have hm1 : s1.mode = true := by rw [h2, hm]
  cases r with
  | ok v =>
    simp only [Bool.not_true, Bool.false_eq_true, if_false]
    exact (LogExt.emit s1 _).trans (bodyA_good k true t (env ++ [v]) caught (i + 1) _ (by simp [hm1])).2.logExt
  | err e =>
    simp only [Bool.not_true, Bool.false_eq_true, if_false]
    split
    · exact LogExt.emit s1 _
    · exact (LogExt.emit s1 _).trans (bodyA_good h true t env (some e) (i + 1) _ (by simp [hm1])).2.logExt
  | esc v => exact LogExt.refl s1

theorem bodyR_yld_ext (hb : Bool) (y : Ys) (k h : Prog) (t : Nat) (env : List Val) (caught : Option Err) (i : Nat) (s : St)
    (hm : s.mode = false) (hc : caught ≠ some .syncRefused) :
    LogExt (ysR y s).2 (bodyR true t env caught i (.yld hb y k h) s).2 := by
  unfold bodyR
  have h2 := ysR_mode y s
  have hf := (ysR_good y s hm).1
  rcases hR : ysR y s with ⟨r, s1⟩
  rw [hR] at h2 hf
  simp only at h2 hf
  have hm1 : s1.mode = false := by rw [h2, hm]
  cases r with
  | ok v =>
    simp only [Bool.not_true, Bool.false_eq_true, if_false]
    exact (LogExt.emit s1 _).trans (bodyR_good k true t (env ++ [v]) caught (i + 1) _ (by simp [hm1]) hc).2.logExt
  | err e =>
    simp only [Bool.not_true, Bool.false_eq_true, if_false]
    split
    · exact LogExt.emit s1 _
    · have he : some e ≠ some Err.syncRefused := by
        intro hh; injection hh with hh; subst hh; simp [Out.fine] at hf
      exact (LogExt.emit s1 _).trans (bodyR_good h true t env (some e) (i + 1) _ (by simp [hm1]) he).2.logExt
  | esc v => exact LogExt.refl s1

theorem callPre_log (c : Call) (s : St) : (callPre c s).log =
    (if c.afn then [Ev.start c.label true, Ev.afn c.label] else [Ev.start c.label true]) ++ s.log := by
  unfold callPre
  cases c.afn <;> cases (c.kind == Kind.proxy) <;> simp [enterMode, exitMode, St.emit]

theorem callPre_lock (c : Call) (s s' : St) (m : Bool) (h : Lock s s') :
    Lock (callPre c s) (s'.emit (.start c.label m)) := by
  have h0 : Lock (if c.afn then s.emit (.afn c.label) else s) s' := by
    cases c.afn
    · exact h
    · exact h.emitA rfl rfl
  have h1 := h0.emit (e := .start c.label true) (e' := .start c.label m) rfl rfl
  refine h1.logs ?_ rfl
  rw [callPre_log]
  cases c.afn <;> rfl

/-! ### the lockstep theorem -/

mutual
theorem bodyA_lock : ∀ (p : Prog) (gen : Bool) (t : Nat) (env : List Val) (caught : Option Err) (i : Nat) (s s' : St),
    s.mode = true → s'.mode = false → caught ≠ some .syncRefused → p.plainY = true → Safe p caught → Lock s s' →
    Res (bodyA gen t env caught i p s).1 (bodyR gen t env caught i p s').1
      (bodyA gen t env caught i p s).2 (bodyR gen t env caught i p s').2
  | .ret _, _, _, _, _, _, _, _, _, _, _, _, _, hl => by
    simp only [bodyA, bodyR]; exact .inl ⟨rfl, hl.emit rfl rfl⟩
  | .res _, _, _, _, _, _, _, _, _, _, _, _, _, hl => by
    simp only [bodyA, bodyR]; exact .inl ⟨rfl, hl.emit rfl rfl⟩
  | .raise _, _, _, _, _, _, _, _, _, _, _, _, _, hl => by
    simp only [bodyA, bodyR]; exact .inl ⟨rfl, hl.emit rfl rfl⟩
  | .raiseB _, _, _, _, _, _, _, _, _, _, _, _, _, hl => by
    simp only [bodyA, bodyR]; exact .inl ⟨rfl, hl.emit rfl rfl⟩
  | .reraise, _, _, _, _, _, _, _, _, _, _, _, _, hl => by
    simp only [bodyA, bodyR]; exact .inl ⟨rfl, hl.emit rfl rfl⟩
  | .sync c child k h, gen, t, env, caught, i, s, s', hm, hm', hc, _, _, hl => by
    -- refused on the asyncio side: from here on the asyncio log is frozen up to this point, both logs only grow
    have hA : bodyA gen t env caught i (.sync c child k h) s =
        bodyA gen t env (some (refusal c)) i h (s.emit (.syncX t (.err (refusal c)))) := by
      simp [bodyA, hm]
    rw [hA]
    exact .inr ((Div.ofSync hl rfl).ext
      (bodyA_good h gen t env (some (refusal c)) i _ (by simp [hm])).2.logExt
      (bodyR_good (.sync c child k h) gen t env caught i s' hm' hc).2.logExt)
  | .yld hb y k h, gen, t, env, caught, i, s, s', hm, hm', hc, hp, hx, hl => by
    simp only [Prog.plainY, Bool.and_eq_true] at hp
    obtain ⟨hxy, hxk, hxh⟩ := hx.yld
    cases gen
    · simp only [bodyA, bodyR, Bool.not_false, if_true]
      exact .inl ⟨rfl, hl.emit rfl rfl⟩
    · rcases resolveA_lock y s s' hm hm' hp.1.1 hxy hl with ⟨ho, hl1⟩ | hd
      · unfold bodyA bodyR
        have h1 := resolveA_mode y s
        have h2 := ysR_mode y s'
        have hfine := (ysR_good y s' hm').1
        have hnb := fun hn => resolveA_noB y s hn
        rcases hA : resolveA y s with ⟨r, s1⟩
        rcases hR : ysR y s' with ⟨r', s1'⟩
        rw [hA] at ho hl1 h1 hnb
        rw [hR] at ho hl1 h2 hfine
        simp only at ho hl1 h1 h2 hfine hnb
        subst ho
        have hm1 : s1.mode = true := by rw [h1, hm]
        have hm1' : s1'.mode = false := by rw [h2, hm']
        cases r with
        | ok v =>
          simp only [Bool.not_true, Bool.false_eq_true, if_false]
          exact bodyA_lock k _ _ _ _ _ _ _ (by simp [hm1]) (by simp [hm1']) hc hp.1.2 hxk (hl1.emit rfl rfl)
        | err e =>
          obtain ⟨hag, hsafe⟩ := hxh e (fun hn => by simpa [Out.noB] using hnb hn)
          simp only [Bool.not_true, Bool.false_eq_true, if_false, hag]
          split
          · exact .inl ⟨rfl, hl1.emit rfl rfl⟩
          · have he : some e ≠ some Err.syncRefused := by
              intro hh; injection hh with hh; subst hh; simp [Out.fine] at hfine
            exact bodyA_lock h _ _ _ _ _ _ _ (by simp [hm1]) (by simp [hm1']) he hp.2 hsafe (hl1.emit rfl rfl)
        | esc v => exact .inl ⟨rfl, hl1⟩
      · exact .inr (hd.ext (bodyA_yld_ext hb y k h t env caught i s hm) (bodyR_yld_ext hb y k h t env caught i s' hm' hc))
theorem resolveA_lock : ∀ (y : Ys) (s s' : St),
    s.mode = true → s'.mode = false → y.plainY = true → SafeY y → Lock s s' →
    Res (resolveA y s).1 (ysR y s').1 (resolveA y s).2 (ysR y s').2
  | .none, _, _, _, _, _, _, hl => by simp only [resolveA, ysR]; exact .inl ⟨rfl, hl⟩
  | .junk, _, _, _, _, _, _, hl => by simp only [resolveA, ysR]; exact .inl ⟨rfl, hl⟩
  | .const _, _, _, _, _, _, _, hl => by simp only [resolveA, ysR]; exact .inl ⟨rfl, hl⟩
  | .pconst _, s, _, hm, _, _, _, hl => by
    simp only [resolveA, ysR, hm, if_true]; exact .inl ⟨rfl, hl.logs rfl rfl⟩
  | .sub _, _, _, _, _, hp, _, _ => by simp [Ys.plainY] at hp
  | .pval _, _, _, _, _, hp, _, _ => by simp [Ys.plainY] at hp
  | .gco y, s, s', hm, hm', hp, hx, hl => by
    simp only [Ys.plainY] at hp
    simp only [resolveA, ysR]
    exact resolveA_lock y s s' hm hm' hp (by simpa [SafeY, Ys.excOnly, Ys.noRaiseB] using hx) hl
  | .ofut b _, _, _, _, _, _, _, hl => by cases b <;> (simp only [resolveA, ysR]; exact .inl ⟨rfl, hl⟩)
  | .task c p, s, s', hm, hm', hp, hx, hl => by
    simp only [Ys.plainY] at hp
    unfold resolveA ysR
    simp only [hm, hm', if_true, Bool.false_eq_true, if_false]
    rw [callA_eq]
    have hr := bodyA_lock p c.kind.isGen c.label [] none 0 (callPre c s) (s'.emit (.start c.label false))
      (by simp) (by simp [hm']) (by simp) hp hx.task (callPre_lock c s s' false hl)
    exact hr.logs rfl rfl
  | .tup l, s, s', hm, hm', hp, hx, hl => by
    simp only [Ys.plainY] at hp
    simp only [resolveA, ysR]
    exact (gatherA_lock l s s' hm hm' hp (by simpa [SafeY, SafeL, Ys.excOnly, Ys.noRaiseB] using hx) hl).wrap .tup
  | .lst l, s, s', hm, hm', hp, hx, hl => by
    simp only [Ys.plainY] at hp
    simp only [resolveA, ysR]
    exact (gatherA_lock l s s' hm hm' hp (by simpa [SafeY, SafeL, Ys.excOnly, Ys.noRaiseB] using hx) hl).wrap .lst
  | .dict ks l, s, s', hm, hm', hp, hx, hl => by
    simp only [Ys.plainY] at hp
    simp only [resolveA, ysR]
    exact (gatherA_lock l s s' hm hm' hp (by simpa [SafeY, SafeL, Ys.excOnly, Ys.noRaiseB] using hx) hl).wrap (.dict ks)
theorem gatherA_lock : ∀ (l : YsL) (s s' : St),
    s.mode = true → s'.mode = false → l.plainY = true → SafeL l → Lock s s' →
    Res (gatherA l s).1 (yslR l s').1 (gatherA l s).2 (yslR l s').2
  | .nil, _, _, _, _, _, _, hl => by simp only [gatherA, yslR]; exact .inl ⟨rfl, hl⟩
  | .cons y l, s, s', hm, hm', hp, hx, hl => by
    simp only [YsL.plainY, Bool.and_eq_true] at hp
    simp only [gatherA, yslR]
    have hmR : (ysR y s').2.mode = false := by rw [ysR_mode]; exact hm'
    rcases resolveA_lock y s s' hm hm' hp.1 hx.cons.1 hl with ⟨ho, hl1⟩ | hd
    · rcases gatherA_lock l { (resolveA y s).2 with mode := s.mode } (ysR y s').2 hm hmR hp.2 hx.cons.2
          (hl1.logs rfl rfl) with ⟨ho2, hl2⟩ | hd2
      · exact .inl ⟨by rw [ho, ho2], hl2⟩
      · exact .inr hd2
    · exact .inr (hd.ext
        ((gatherA_good l { (resolveA y s).2 with mode := s.mode } hm).2.logExt.logs rfl rfl)
        (yslR_good l (ysR y s').2 hmR).2.logExt)
end

/-! ### the two whole runs -/

/-- **lockstep, whole runs**: `await fn.asyncio(args)` and `fn(args)`, both started with an empty log -/
theorem top_lock (c : Call) (p : Prog) (hp : p.plainY = true) (hx : p.safe = true) :
    Res (topA c p {}).1 (topCall c p {}).1 (topA c p {}).2 (topCall c p {}).2 := by
  have h0 : Lock ({} : St) ({} : St) := ⟨rfl, rfl⟩
  have hr := bodyA_lock p c.kind.isGen c.label [] none 0 (callPre c {}) (({} : St).emit (.start c.label false))
    (by simp) rfl (by simp) hp (Safe.ofBool hx) (callPre_lock c {} {} false h0)
  have hA : topA c p {} = ((bodyA c.kind.isGen c.label [] none 0 p (callPre c {})).1,
      exitMode ({} : St).mode (bodyA c.kind.isGen c.label [] none 0 p (callPre c {})).2) := by
    simp [topA, callA_eq]
  have hR : topCall c p {} = bodyR c.kind.isGen c.label [] none 0 p (({} : St).emit (.start c.label false)) := rfl
  rw [hA, hR]
  exact hr.logs rfl rfl

end AsynqModel.Asyncio
