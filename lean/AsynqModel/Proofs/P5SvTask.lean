import AsynqModel.Proofs.P5NonAsync
import AsynqModel.Proofs.P5Sv
/-!
  P5 (C07): `resumeContexts t` followed by `pauseContexts t` restores every scoped value.
-/
namespace AsynqModel.Core.P5
open AsynqModel.Core

/-- two states agree on scoped values and context objects -/
def SvEq (s s' : State) : Prop := (∀ v, s.svGet v = s'.svGet v) ∧ (∀ c : Nat, s.ctxs[c]? = s'.ctxs[c]?)

theorem SvEq.refl (s : State) : SvEq s s := ⟨fun _ => rfl, fun _ => rfl⟩
theorem SvEq.trans {a b c : State} (h : SvEq a b) (h' : SvEq b c) : SvEq a c :=
  ⟨fun v => (h.1 v).trans (h'.1 v), fun x => (h.2 x).trans (h'.2 x)⟩
theorem SvEq.symm {a b : State} (h : SvEq a b) : SvEq b a := ⟨fun v => (h.1 v).symm, fun x => (h.2 x).symm⟩

theorem svEq_updTask (s : State) (t : Nat) (g : TaskSt → TaskSt) : SvEq (s.updTask t g) s := ⟨fun _ => rfl, fun _ => rfl⟩

theorem entry_pauseOne (s : State) (c : Nat) (x : CtxSt) (h : s.ctxs[c]? = some x) :
    (s.ctxPauseOne c).ctxs[c]? = some { x with resumed := false } := by
  have hc := lt_of_getElem?_some h
  unfold State.ctxPauseOne State.ctxSetResumed
  simp only [emit_ctxs, h, List.getElem?_set_self hc]
  cases hk : x.kind with
  | override var val => simp only; rw [svSet_ctxs]; exact List.getElem?_set_self hc
  | plain => simp only; rw [List.getElem?_set_self hc]
  | nonasync => simp only; rw [List.getElem?_set_self hc]

theorem entry_none_flag {s s' : State} {c : Nat} {b : Bool} (h : FlagOp s s' c b) (hx : s.ctxs[c]? = none) :
    s'.ctxs[c]? = none := by
  rw [List.getElem?_eq_none_iff] at hx ⊢
  rw [h.len]; exact hx

theorem svEq_resumeOne {s s' : State} (h : SvEq s s') (c : Nat) : SvEq (s.ctxResumeOne c) (s'.ctxResumeOne c) := by
  refine ⟨?_, ?_⟩
  · intro v
    rw [svGet_resumeOne, svGet_resumeOne, h.2 c, h.1 v]
  · intro c'
    by_cases hc : c' = c
    · subst hc
      cases hx : s.ctxs[c']? with
      | none =>
        rw [entry_none_flag (flagOp_resume s c') hx, entry_none_flag (flagOp_resume s' c') (by rw [← h.2]; exact hx)]
      | some x =>
        rw [entry_resumeOne s c' x hx, entry_resumeOne s' c' x (by rw [← h.2]; exact hx)]
        cases x.kind <;> simp [h.1]
    · rw [(flagOp_resume s c).ne c' hc, (flagOp_resume s' c).ne c' hc]; exact h.2 c'

theorem svEq_pauseOne {s s' : State} (h : SvEq s s') (c : Nat) : SvEq (s.ctxPauseOne c) (s'.ctxPauseOne c) := by
  refine ⟨?_, ?_⟩
  · intro v
    rw [svGet_pauseOne, svGet_pauseOne, h.2 c, h.1 v]
  · intro c'
    by_cases hc : c' = c
    · subst hc
      cases hx : s.ctxs[c']? with
      | none =>
        rw [entry_none_flag (flagOp_pause s c') hx, entry_none_flag (flagOp_pause s' c') (by rw [← h.2]; exact hx)]
      | some x =>
        rw [entry_pauseOne s c' x hx, entry_pauseOne s' c' x (by rw [← h.2]; exact hx)]
    · rw [(flagOp_pause s c).ne c' hc, (flagOp_pause s' c).ne c' hc]; exact h.2 c'

theorem isNonAsync_svEq {s s' : State} (h : SvEq s s') (c : Nat) : s.ctxIsNonAsync c = s'.ctxIsNonAsync c := by
  unfold State.ctxIsNonAsync; rw [h.2 c]

/-- without NonAsyncContexts the loop of `_resume_contexts` is the plain fold of `resume()` -/
theorem svEq_foldFlip_resume (l : List Nat) : ∀ (s s' : State), SvEq s s' → (∀ c ∈ l, s.ctxIsNonAsync c = false) →
    SvEq (l.foldl (flipOne true) s) (l.foldl State.ctxResumeOne s') := by
  induction l with
  | nil => intro s s' h _; exact h
  | cons c l ih =>
    intro s s' h hna
    rw [List.foldl_cons, List.foldl_cons]
    have h1 : flipOne true s c = s.ctxResumeOne c := by
      unfold flipOne; rw [hna c (by simp)]; rfl
    refine ih _ _ (by rw [h1]; exact svEq_resumeOne h c) ?_
    intro c' hc'
    rw [isNonAsync_flipOne]; exact hna c' (by simp [hc'])

theorem svEq_foldFlip_pause (l : List Nat) : ∀ (s s' : State), SvEq s s' → (∀ c ∈ l, s.ctxIsNonAsync c = false) →
    SvEq (l.foldl (flipOne false) s) (l.foldl State.ctxPauseOne s') := by
  induction l with
  | nil => intro s s' h _; exact h
  | cons c l ih =>
    intro s s' h hna
    rw [List.foldl_cons, List.foldl_cons]
    have h1 : flipOne false s c = s.ctxPauseOne c := by
      unfold flipOne; rw [hna c (by simp)]; rfl
    refine ih _ _ (by rw [h1]; exact svEq_pauseOne h c) ?_
    intro c' hc'
    rw [isNonAsync_flipOne]; exact hna c' (by simp [hc'])

theorem any_false_iff {l : List Nat} {p : Nat → Bool} : l.any p = false ↔ ∀ c ∈ l, p c = false := by
  simp [List.any_eq_false]

/-- `_resume_contexts` of a task without NonAsyncContexts, whose contexts are paused -/
theorem svEq_resumeContexts (s : State) (t : Nat) (hact : (s.task t).ctxActive = false)
    (hna : (s.task t).ctxs.any s.ctxIsNonAsync = false) :
    SvEq (s.resumeContexts t) ((s.task t).ctxs.foldl State.ctxResumeOne s) ∧
    ((s.resumeContexts t).task t).ctxs = (s.task t).ctxs ∧
    (t < s.futs.length → ((s.resumeContexts t).task t).ctxActive = true) := by
  have hna' := any_false_iff.1 hna
  rw [resumeContexts_eq]
  simp only [hact, Bool.false_eq_true, if_false]
  have hany : (s.task t).ctxs.any ((s.task t).ctxs.foldl (flipOne true)
      (s.updTask t fun ts => { ts with ctxActive := true })).ctxIsNonAsync = false := by
    rw [← hna]; congr 1; funext c; rw [isNonAsync_foldFlip]; rfl
  rw [hany]
  simp only [Bool.false_eq_true, if_false]
  refine ⟨svEq_foldFlip_resume _ _ _ (svEq_updTask ..) hna', ?_, ?_⟩
  · rw [task_foldFlip]; exact task_updTask_field s t t _ (·.ctxs) (fun _ => rfl)
  · intro ht; rw [task_foldFlip, task_updTask_self _ _ _ ht]

/-- `_pause_contexts` of a task without NonAsyncContexts, whose contexts are active -/
theorem svEq_pauseContexts (s : State) (t : Nat) (hact : (s.task t).ctxActive = true)
    (hna : (s.task t).ctxs.any s.ctxIsNonAsync = false) :
    SvEq (s.pauseContexts t) ((s.task t).ctxs.reverse.foldl State.ctxPauseOne s) := by
  have hna' := any_false_iff.1 hna
  rw [pauseContexts_eq]
  simp only [hact, Bool.not_true, Bool.false_eq_true, if_false]
  have hany : (s.task t).ctxs.any ((s.task t).ctxs.reverse.foldl (flipOne false)
      (s.updTask t fun ts => { ts with ctxActive := false })).ctxIsNonAsync = false := by
    rw [← hna]; congr 1; funext c; rw [isNonAsync_foldFlip]; rfl
  rw [hany]
  simp only [Bool.false_eq_true, if_false]
  exact svEq_foldFlip_pause _ _ _ (svEq_updTask ..) (fun c hc => hna' c (List.mem_reverse.1 hc))

theorem svEq_foldPause (l : List Nat) : ∀ (s s' : State), SvEq s s' →
    SvEq (l.foldl State.ctxPauseOne s) (l.foldl State.ctxPauseOne s') := by
  induction l with
  | nil => intro s s' h; exact h
  | cons c l ih => intro s s' h; exact ih _ _ (svEq_pauseOne h c)

end AsynqModel.Core.P5
