import AsynqModel.Lib.Tools
/-! helper lemmas for C14: the Python built-ins of the model against the core `List` functions -/
namespace AsynqModel.Tools

/-! ### compress / zip / sift loop -/

theorem compress_map (p : β → Bool) (xs : List β) : compress xs (xs.map p) = xs.filter p := by
  induction xs with
  | nil => rfl
  | cons x xs ih => cases h : p x <;> simp [compress, h, ih]

theorem compress_map_not (p : β → Bool) (xs : List β) :
    compress xs ((xs.map p).map fun r => !r) = xs.filter fun x => !p x := by
  rw [List.map_map]; exact compress_map _ xs

theorem siftLoop_zip_map (p : β → Bool) (xs : List β) :
    siftLoop (xs.zip (xs.map p)) = (xs.filter p, xs.filter fun x => !p x) := by
  induction xs with
  | nil => rfl
  | cons x xs ih => cases h : p x <;> simp [siftLoop, h, ih]

theorem siftLoop_zip_map_partition (p : β → Bool) (xs : List β) :
    siftLoop (xs.zip (xs.map p)) = xs.partition p := by
  rw [siftLoop_zip_map, List.partition_eq_filter_filter]; rfl

theorem zip_map_self (k : β → Int) (xs : List β) : (xs.map k).zip xs = xs.map fun x => (k x, x) := by
  induction xs with
  | nil => rfl
  | cons x xs ih => simp [ih]

/-! ### sorted -/

/-- the order `sorted` uses: ascending, or descending for `reverse=True` -/
def leBy (k : β → Int) (rev : Bool) (a b : β) : Bool := if rev then k b ≤ k a else k a ≤ k b

theorem leBy_trans (k : β → Int) (rev : Bool) (a b c : β) : leBy k rev a b → leBy k rev b c → leBy k rev a c := by
  cases rev <;> simp [leBy] <;> omega

theorem leBy_total (k : β → Int) (rev : Bool) (a b : β) : (leBy k rev a b || leBy k rev b a) = true := by
  cases rev <;> simp [leBy] <;> omega

theorem insertBy_eq (k : β → Int) (rev : Bool) (x y : β) (ys : List β) :
    insertBy k rev x (y :: ys) = if leBy k rev x y then x :: y :: ys else y :: insertBy k rev x ys := by
  cases rev <;> simp [insertBy, leBy]

/-- sorting decorated pairs on the decoration only, then dropping it = sorting by the key -/
theorem insertBy_decorate (k : β → Int) (rev : Bool) (x : β) (ys : List β) :
    insertBy Prod.fst rev (k x, x) (ys.map fun y => (k y, y)) = (insertBy k rev x ys).map fun y => (k y, y) := by
  induction ys with
  | nil => rfl
  | cons y ys ih =>
    rw [List.map_cons, insertBy_eq, insertBy_eq]
    have : leBy Prod.fst rev (k x, x) (k y, y) = leBy k rev x y := rfl
    rw [this]
    cases leBy k rev x y <;> simp [ih]

theorem pySorted_decorate (k : β → Int) (rev : Bool) (xs : List β) :
    pySorted Prod.fst rev (xs.map fun x => (k x, x)) = (pySorted k rev xs).map fun x => (k x, x) := by
  induction xs with
  | nil => rfl
  | cons x xs ih => simp only [List.map_cons, pySorted, ih, insertBy_decorate]

theorem asorted_pairs (k : β → Int) (rev : Bool) (xs : List β) :
    (pySorted Prod.fst rev ((xs.map k).zip xs)).map Prod.snd = pySorted k rev xs := by
  rw [zip_map_self, pySorted_decorate, List.map_map]
  simp [Function.comp_def]

/-- inserting where a stable sort puts a new head -/
theorem insertBy_append (k : β → Int) (rev : Bool) (a : β) (l₁ l₂ : List β)
    (h₁ : ∀ b ∈ l₁, leBy k rev a b = false) (h₂ : ∀ b ∈ l₂, leBy k rev a b = true) :
    insertBy k rev a (l₁ ++ l₂) = l₁ ++ a :: l₂ := by
  induction l₁ with
  | nil =>
    cases l₂ with
    | nil => rfl
    | cons c l₂ => simp [insertBy_eq, h₂ c (by simp)]
  | cons b l₁ ih =>
    rw [List.cons_append, insertBy_eq, h₁ b (by simp), ih (fun c hc => h₁ c (by simp [hc]))]
    simp

/-- Python's `sorted` (insertion formulation) is THE stable sort: it equals `List.mergeSort` -/
theorem pySorted_eq_mergeSort (k : β → Int) (rev : Bool) (xs : List β) :
    pySorted k rev xs = xs.mergeSort (leBy k rev) := by
  induction xs with
  | nil => simp [pySorted]
  | cons a xs ih =>
    obtain ⟨l₁, l₂, h, h', hl⟩ := List.mergeSort_cons (leBy_trans k rev) (leBy_total k rev) a xs
    have hp := List.pairwise_mergeSort (leBy_trans k rev) (leBy_total k rev) (a :: xs)
    rw [h] at hp
    have h₂ : ∀ b ∈ l₂, leBy k rev a b = true := by
      have := (List.pairwise_append.mp hp).2.1
      exact fun b hb => (List.pairwise_cons.mp this).1 b hb
    rw [pySorted, ih, h', h]
    exact insertBy_append k rev a l₁ l₂ (fun b hb => by simpa using hl b hb) h₂

theorem pySorted_eq_stableSort (k : β → Int) (rev : Bool) (xs : List β) :
    pySorted k rev xs = stableSort k rev xs := by
  rw [pySorted_eq_mergeSort]; rfl

/-- `[p[1] for p in sorted(zip(keys, values), key=lambda p: p[0], reverse=rev)]` = the stable sort by key -/
theorem sortedPairs_eq (k : β → Int) (rev : Bool) (xs : List β) :
    (pySorted Prod.fst rev ((xs.map k).zip xs)).map Prod.snd = stableSort k rev xs := by
  rw [asorted_pairs, pySorted_eq_stableSort]

theorem selfKeys_eq (env : Env α) (xs : List α) :
    selfKeys env xs = if unorderable env xs then none else some (xs.map (selfKey env)) := rfl

/-! ### max / min -/

theorem pyExtGo_min_neg (k : β → Int) (best : β) (l : List β) :
    pyExtGo true k best l = pyExtGo false (fun x => - k x) best l := by
  induction l generalizing best with
  | nil => rfl
  | cons y ys ih =>
    have : (k y < k best) ↔ (- k best < - k y) := by omega
    simp only [pyExtGo, if_true, Bool.false_eq_true, if_false, ih, this]

theorem pyExt_min_neg (k : β → Int) (l : List β) : pyExt true k l = pyExt false (fun x => - k x) l := by
  cases l <;> simp [pyExt, pyExtGo_min_neg]

theorem firstExt_min_neg (k : β → Int) (l : List β) : firstExt true k l = firstExt false (fun x => - k x) l := by
  unfold firstExt
  congr 1
  funext x
  congr 1
  funext y
  simp

/-- the `max` loop keeps the FIRST maximum: everything before the result is strictly smaller, everything after
    it is not larger -/
theorem pyExtGo_decomp (k : β → Int) : ∀ (l p : List β) (best : β) (q : List β),
    (∀ y ∈ p, k y < k best) → (∀ y ∈ q, k y ≤ k best) →
    ∃ p' q', p ++ best :: q ++ l = p' ++ pyExtGo false k best l :: q' ∧
      (∀ y ∈ p', k y < k (pyExtGo false k best l)) ∧ (∀ y ∈ q', k y ≤ k (pyExtGo false k best l))
  | [], p, best, q, hp, hq => ⟨p, q, by simp [pyExtGo], hp, hq⟩
  | y :: ys, p, best, q, hp, hq => by
    simp only [pyExtGo, Bool.false_eq_true, if_false]
    by_cases h : k best < k y
    · simp only [h, if_true]
      have := pyExtGo_decomp k ys (p ++ best :: q) y [] (by
        intro z hz
        simp only [List.mem_append, List.mem_cons] at hz
        rcases hz with hz | hz | hz
        · have := hp z hz; omega
        · subst hz; exact h
        · have := hq z hz; omega) (by simp)
      simpa using this
    · simp only [h, if_false]
      have := pyExtGo_decomp k ys p best (q ++ [y]) hp (by
        intro z hz
        simp only [List.mem_append, List.mem_singleton] at hz
        rcases hz with hz | hz
        · exact hq z hz
        · subst hz; omega)
      simpa using this

theorem pyExt_eq_firstExt_max (k : β → Int) (xs : List β) : pyExt false k xs = firstExt false k xs := by
  cases xs with
  | nil => rfl
  | cons x xs =>
    obtain ⟨p, q, heq, hp, hq⟩ := pyExtGo_decomp k xs [] x [] (by simp) (by simp)
    replace heq : x :: xs = p ++ pyExtGo false k x xs :: q := by simpa using heq
    simp only [pyExt, firstExt, Bool.false_eq_true, if_false]
    symm
    rw [List.find?_eq_some_iff_append]
    refine ⟨?_, p, q, heq, ?_⟩
    · rw [heq]
      simp only [List.all_eq_true, List.mem_append, List.mem_cons, decide_eq_true_eq]
      rintro y (hy | hy | hy)
      · have := hp y hy; omega
      · subst hy; omega
      · exact hq y hy
    · intro a ha
      rw [heq]
      simp only [Bool.not_eq_true', List.all_eq_false, List.mem_append, List.mem_cons]
      refine ⟨pyExtGo false k x xs, Or.inr (Or.inl rfl), ?_⟩
      have := hp a ha
      simp; omega

theorem pyExt_eq_firstExt (isMin : Bool) (k : β → Int) (xs : List β) : pyExt isMin k xs = firstExt isMin k xs := by
  cases isMin
  · exact pyExt_eq_firstExt_max k xs
  · rw [pyExt_min_neg, firstExt_min_neg]; exact pyExt_eq_firstExt_max _ xs

/-! `max(enumerate(iterable), key=lambda pair: keys[pair[0]])[1]` -/

theorem mem_enumFrom {n : Nat} {ys : List β} {p : Nat × β} (h : p ∈ enumFrom n ys) :
    ∃ i, p.1 = n + i ∧ ys[i]? = some p.2 := by
  induction ys generalizing n with
  | nil => simp [enumFrom] at h
  | cons y ys ih =>
    simp only [enumFrom, List.mem_cons] at h
    rcases h with h | h
    · subst h; exact ⟨0, by simp⟩
    · obtain ⟨i, h1, h2⟩ := ih h
      exact ⟨i + 1, by omega, by simpa using h2⟩

theorem enumFrom_map_snd (n : Nat) (ys : List β) : (enumFrom n ys).map Prod.snd = ys := by
  induction ys generalizing n with
  | nil => rfl
  | cons y ys ih => simp [enumFrom, ih]

theorem pyExtGo_congr (isMin : Bool) (kk : γ → Int) (k : β → Int) (f : γ → β) (b : γ) (l : List γ)
    (h : ∀ p ∈ b :: l, kk p = k (f p)) :
    f (pyExtGo isMin kk b l) = pyExtGo isMin k (f b) (l.map f) := by
  induction l generalizing b with
  | nil => rfl
  | cons y ys ih =>
    simp only [pyExtGo, List.map_cons]
    have hb := h b (by simp)
    have hy := h y (by simp)
    rw [hb, hy]
    have hy' : ∀ p ∈ y :: ys, kk p = k (f p) :=
      fun p hp => h p (by simp at hp ⊢; rcases hp with hp | hp <;> simp [hp])
    have hb' : ∀ p ∈ b :: ys, kk p = k (f p) :=
      fun p hp => h p (by simp at hp ⊢; rcases hp with hp | hp <;> simp [hp])
    by_cases hc : (if isMin then k (f y) < k (f b) else k (f b) < k (f y))
    · rw [if_pos hc, if_pos hc, ih y hy']
    · rw [if_neg hc, if_neg hc, ih b hb']

theorem pyExt_enumerate (isMin : Bool) (k : β → Int) (ys : List β) :
    (pyExt isMin (fun p => (ys.map k).getD p.1 0) (enumFrom 0 ys)).map Prod.snd = pyExt isMin k ys := by
  have key : ∀ p ∈ enumFrom 0 ys, (ys.map k).getD p.1 0 = k p.2 := by
    intro p hp
    obtain ⟨i, h1, h2⟩ := mem_enumFrom hp
    simp [List.getD_eq_getElem?_getD, h1, h2]
  cases ys with
  | nil => rfl
  | cons y ys =>
    simp only [enumFrom, pyExt, Option.map_some]
    have := pyExtGo_congr isMin (fun p => ((y :: ys).map k).getD p.1 0) k Prod.snd (0, y) (enumFrom 1 ys)
      (by simpa [enumFrom] using key)
    rw [this, enumFrom_map_snd]

/-- the enumerate-based extreme and the first extreme of the plain list, case by case -/
theorem pyExt_enumerate_cases (isMin : Bool) (k : β → Int) (ys : List β) :
    (pyExt isMin (fun p => (ys.map k).getD p.1 0) (enumFrom 0 ys) = none ∧ firstExt isMin k ys = none) ∨
    ∃ p, pyExt isMin (fun p => (ys.map k).getD p.1 0) (enumFrom 0 ys) = some p ∧ firstExt isMin k ys = some p.2 := by
  rw [← pyExt_eq_firstExt isMin k ys, ← pyExt_enumerate isMin k ys]
  cases pyExt isMin (fun p => (ys.map k).getD p.1 0) (enumFrom 0 ys) with
  | none => left; exact ⟨rfl, rfl⟩
  | some p => right; exact ⟨p, rfl, rfl⟩

/-! ### flushes -/

theorem countTrue_map (f : β → Bool) (xs : List β) : countTrue (xs.map f) = (xs.filter f).length := by
  induction xs with
  | nil => rfl
  | cons x xs ih =>
    unfold countTrue at ih ⊢
    cases h : f x <;> simp [h, ih]

theorem flushSizes_one (env : Env α) (xs : List α) : flushSizes [xs.map env.blocks] = oneFlush env xs := by
  simp only [flushSizes, List.map_cons, List.map_nil, countTrue_map, oneFlush]
  by_cases h : (xs.filter env.blocks).length = 0
  · simp [h]
  · simp [h]

theorem flushSizes_nil : flushSizes [] = [] := rfl

theorem totalRuns_nil : totalRuns [] = 0 := rfl

theorem totalRuns_one (f : β → Bool) (xs : List β) : totalRuns [xs.map f] = xs.length := by
  simp [totalRuns]

theorem flushSizes_replicate (n : Nat) (b : Bool) :
    flushSizes (List.replicate n [b]) = if b then List.replicate n 1 else [] := by
  induction n with
  | zero => cases b <;> rfl
  | succ n ih =>
    cases b <;> simp [List.replicate_succ, flushSizes, countTrue]

theorem totalRuns_replicate (n : Nat) (b : Bool) : totalRuns (List.replicate n [b]) = n := by
  induction n with
  | zero => rfl
  | succ n ih => simp [List.replicate_succ, totalRuns, ih]; omega

/-! ### aretry -/

/-- the rounds of `n` attempts of which all but the last raised -/
def retryRounds (kind : BodyKind) (blocking : Bool) (last : Attempt) (n : Nat) : List (List Bool) :=
  List.replicate (n - 1) [attemptBlocks kind blocking (.raise 0)] ++ [[attemptBlocks kind blocking last]]

theorem attemptBlocks_raise (kind : BodyKind) (blocking : Bool) (c d : Nat) :
    attemptBlocks kind blocking (.raise c) = attemptBlocks kind blocking (.raise d) := by
  cases kind <;> rfl

theorem retryLoop_spec (listed : List Nat) (script : Nat → Attempt) (maxTries : Nat) (blocking : Bool)
    (kind : BodyKind) :
    ∀ (todo i : Nat), 0 < todo → todo + i = maxTries →
      let n := min (leadingListed listed script todo i + 1) todo
      (retryLoop (α := α) listed script maxTries blocking kind todo i) =
        ⟨attemptRes script (i + n - 1), retryRounds kind blocking (script (i + n - 1)) n, n - 1⟩ := by
  intro todo
  induction todo with
  | zero => intro i h; omega
  | succ t ih =>
    intro i _ hsum
    simp only [retryLoop, leadingListed]
    cases hs : script i with
    | ret v =>
      simp [attemptRes, hs, retryRounds]
    | raise cls =>
      by_cases hl : isListed listed cls = true
      · simp only [hl, if_true]
        by_cases hlast : i + 1 = maxTries
        · have ht : t = 0 := by omega
          subst ht
          subst hlast
          simp [attemptRes, hs, leadingListed, retryRounds]
        · have ht : 0 < t := by omega
          have := ih (i + 1) ht (by omega)
          simp only at this
          have hne : (i + 1 == maxTries) = false := by simpa using hlast
          simp only [hne, Bool.false_eq_true, if_false, this]
          have hmin : min (1 + leadingListed listed script t (i + 1) + 1) (t + 1)
              = min (leadingListed listed script t (i + 1) + 1) t + 1 := by omega
          have hpos : 1 ≤ min (leadingListed listed script t (i + 1) + 1) t := by omega
          rw [hmin]
          have hidx : i + (min (leadingListed listed script t (i + 1) + 1) t + 1) - 1
              = i + 1 + min (leadingListed listed script t (i + 1) + 1) t - 1 := by omega
          rw [hidx]
          congr 1
          · simp only [retryRounds, attemptBlocks_raise kind blocking cls 0]
            obtain ⟨m, hm⟩ : ∃ m, min (leadingListed listed script t (i + 1) + 1) t = m + 1 :=
              ⟨min (leadingListed listed script t (i + 1) + 1) t - 1, by omega⟩
            rw [hm]
            simp [List.replicate_succ]
          · omega
      · simp only [hl, Bool.false_eq_true, if_false]
        simp [attemptRes, hs, retryRounds]

theorem flushSizes_append (a b : List (List Bool)) : flushSizes (a ++ b) = flushSizes a ++ flushSizes b := by
  simp [flushSizes]

theorem totalRuns_append (a b : List (List Bool)) : totalRuns (a ++ b) = totalRuns a + totalRuns b := by
  induction a with
  | nil => simp [totalRuns]
  | cons x a ih => simp [totalRuns, ih]; omega

theorem flushSizes_retryRounds (kind : BodyKind) (blocking : Bool) (last : Attempt) (n : Nat) :
    flushSizes (retryRounds kind blocking last n) = retryFlushes kind blocking last n := by
  simp only [retryRounds, retryFlushes, flushSizes_append, flushSizes_replicate]
  congr 1
  · cases attemptBlocks kind blocking (.raise 0) <;> simp
  · cases attemptBlocks kind blocking last <;> simp [flushSizes, countTrue]

theorem totalRuns_retryRounds (kind : BodyKind) (blocking : Bool) (last : Attempt) (n : Nat) (h : 0 < n) :
    totalRuns (retryRounds kind blocking last n) = n := by
  simp only [retryRounds, totalRuns_append, totalRuns_replicate]
  simp [totalRuns]; omega

theorem length_retryRounds (kind : BodyKind) (blocking : Bool) (last : Attempt) (n : Nat) (h : 0 < n) :
    (retryRounds kind blocking last n).length = n := by
  simp [retryRounds]; omega

/-- a lazy body (the `@asynq()` generator): every attempt blocks or none does -/
theorem retryFlushes_lazy (blocking : Bool) (last : Attempt) (n : Nat) (h : 0 < n) :
    retryFlushes .lazy blocking last n = if blocking then List.replicate n 1 else [] := by
  cases blocking <;> cases last <;> simp [retryFlushes, attemptBlocks]
  all_goals
    obtain ⟨m, rfl⟩ : ∃ m, n = m + 1 := ⟨n - 1, by omega⟩
    simp [List.replicate_succ']


/-! ### `leadingListed` in plain words (adopted from the independent audit, tests/C14_t2.lean) -/

/-- if the attempts `i .. i+k-1` raise listed exceptions and attempt `i+k` does not (it returns, or raises an
    exception that is not listed), the count is `k` - provided the bound lets it get that far -/
theorem leadingListed_eq (listed : List Nat) (script : Nat → Attempt) :
    ∀ (k b i : Nat), k < b →
      (∀ j, j < k → ∃ c, script (i + j) = .raise c ∧ isListed listed c = true) →
      (∀ c, script (i + k) = .raise c → isListed listed c = false) →
      leadingListed listed script b i = k := by
  intro k
  induction k with
  | zero =>
    intro b i hb _ hstop
    obtain ⟨b', rfl⟩ : ∃ b', b = b' + 1 := ⟨b - 1, by omega⟩
    simp only [leadingListed]
    cases hs : script i with
    | ret v => rfl
    | raise c => have := hstop c (by simpa using hs); simp [this]
  | succ k ih =>
    intro b i hb hl hstop
    obtain ⟨b', rfl⟩ : ∃ b', b = b' + 1 := ⟨b - 1, by omega⟩
    obtain ⟨c, hc, hcl⟩ := hl 0 (by omega)
    simp only [Nat.add_zero] at hc
    simp only [leadingListed, hc, hcl, if_true]
    have := ih b' (i + 1) (by omega)
      (fun j hj => by have := hl (j + 1) (by omega); simpa [Nat.add_assoc, Nat.add_comm 1 j] using this)
      (fun c h => hstop c (by simpa [Nat.add_assoc, Nat.add_comm 1 k] using h))
    omega

/-- if all the attempts the bound allows raise listed exceptions, the count is the bound -/
theorem leadingListed_all (listed : List Nat) (script : Nat → Attempt) :
    ∀ (b i : Nat), (∀ j, j < b → ∃ c, script (i + j) = .raise c ∧ isListed listed c = true) →
      leadingListed listed script b i = b := by
  intro b
  induction b with
  | zero => intro i _; rfl
  | succ b ih =>
    intro i hl
    obtain ⟨c, hc, hcl⟩ := hl 0 (by omega)
    simp only [Nat.add_zero] at hc
    simp only [leadingListed, hc, hcl, if_true]
    have := ih (i + 1)
      (fun j hj => by have := hl (j + 1) (by omega); simpa [Nat.add_assoc, Nat.add_comm 1 j] using this)
    omega

/-- one step of the loop: an attempt that raises an exception which is not listed ends the loop (a single
    unfolding of `retryLoop`; the statement about `aretry` as a whole is `C14_aretry_unlisted_immediately`) -/
theorem retryLoop_unlisted_step (listed : List Nat) (script : Nat → Attempt) (maxTries : Nat) (blocking : Bool)
    (kind : BodyKind) (todo i cls : Nat) (hs : script i = .raise cls) (hl : isListed listed cls = false) :
    retryLoop (α := α) listed script maxTries blocking kind (todo + 1) i =
      ⟨.raised (.user cls i), [[attemptBlocks kind blocking (.raise cls)]], 0⟩ := by
  simp [retryLoop, hs, hl]

/-! ### every helper's observation is the one the property demands -/

section obs
variable {α : Type} (env : Env α)

theorem amaxmin_varargs (isMin : Bool) (kw : ExtraKw) (keyNone : FnObj) (a b : α) (xs : List α) :
    amaxmin env isMin kw keyNone (.elems (a :: b :: xs)) =
      amaxmin env isMin kw keyNone (.one ⟨.tuple, a :: b :: xs⟩) := by
  simp [amaxmin, maxIterable]

theorem amap_obs (s : Src α) : observe (amap env s) = expected env (.amap s) := by
  obtain ⟨kind, items⟩ := s
  cases kind <;>
    simp [amap, amapCore, Src.iterate, expected, observe, perElem, noCalls, flushSizes_one, totalRuns_one, flushSizes_nil, totalRuns_nil]

theorem afilter_obs (n : FnObj) (s : Src α) : observe (afilter env n s) = expected env (.afilter n s) := by
  obtain ⟨kind, items⟩ := s
  cases kind <;> cases n <;>
    simp [afilter, Src.iterate, expected, observe, perElem, noCalls, flushSizes_one, totalRuns_one, flushSizes_nil, totalRuns_nil, compress_map]

theorem afilterfalse_obs (s : Src α) : observe (afilterfalse env s) = expected env (.afilterfalse s) := by
  obtain ⟨kind, items⟩ := s
  cases kind <;>
    simp only [afilterfalse, Src.iterate, expected, observe, perElem, noCalls, flushSizes_one, totalRuns_one, flushSizes_nil, totalRuns_nil, compress_map_not] <;> simp

theorem asorted_obs (kn : FnObj) (rev : Bool) (s : Src α) : observe (asorted env kn rev s) = expected env (.asorted kn rev s) := by
  obtain ⟨kind, items⟩ := s
  cases kind <;> cases kn <;>
    simp only [asorted, amapCore, Src.iterate, expected, observe, perElem, noCalls, flushSizes_one, totalRuns_one,
      selfKeys_eq, sortedPairs_eq, if_true, Bool.false_eq_true, if_false, reduceCtorEq, FnObj.isNone_none,
      FnObj.isNone_fn] <;>
    first
    | rfl
    | (cases unorderable env items <;> simp [sortedPairs_eq, flushSizes_nil, totalRuns_nil])

theorem asift_obs (s : Src α) : observe (asift env s) = expected env (.asift s) := by
  obtain ⟨kind, items⟩ := s
  cases kind <;>
    simp only [asift, Src.iterate, expected, observe, perElem, noCalls, flushSizes_one, totalRuns_one,
      siftLoop_zip_map_partition, reduceCtorEq, if_false, if_true] <;> rfl


theorem amaxmin_obs_src (isMin : Bool) (kn : FnObj) (kind : IterKind) (items : List α) (h : kind ≠ .nonIter) :
    observe (amaxmin env isMin .none kn (.one ⟨kind, items⟩)) =
      (if kn = .none then
        if unorderable env items then noCalls (.raised .typeError)
        else match firstExt isMin (selfKey env) items with
          | none => noCalls (.raised .valueError)
          | some m => noCalls (.ok (.elem m))
      else match firstExt isMin env.key items with
        | none => perElem env (.raised .valueError) items
        | some m => perElem env (.ok (.elem m)) items) := by
  cases kn
  · cases kind <;>
      simp only [amaxmin, maxIterable, Src.iterate, selfKeys_eq, if_true, Bool.false_eq_true, if_false,
        FnObj.isNone_none, ExtraKw.none_bne] <;>
      first
      | (simp at h; done)
      | (cases unorderable env items <;> simp only [Bool.false_eq_true, if_false, if_true] <;>
          first
          | rfl
          | (rw [pyExt_eq_firstExt]
             change _ = (match firstExt isMin (selfKey env) items with | none => _ | some m => _)
             cases firstExt isMin (selfKey env) items <;> rfl))
  · cases kind <;>
      simp only [amaxmin, maxIterable, amapCore, Src.iterate, Bool.false_eq_true, if_false, FnObj.isNone_fn,
        reduceCtorEq, ExtraKw.none_bne] <;>
      first
      | (simp at h; done)
      | (rcases pyExt_enumerate_cases isMin env.key items with ⟨h1, h2⟩ | ⟨p, h1, h2⟩ <;>
          simp only [h1, h2, observe, perElem, flushSizes_one, totalRuns_one])

/-- for every call inside the statement (`kw ≠ .dflt`) -/
theorem amaxmin_obs (isMin : Bool) (kw : ExtraKw) (kn : FnObj) (args : MaxArgs α) (hkw : kw ≠ .dflt) :
    observe (amaxmin env isMin kw kn args) = expected env (.amaxmin isMin kw kn args) := by
  cases kw with
  | dflt => exact absurd rfl hkw
  | unknown => simp [amaxmin, expected, observe, noCalls, flushSizes_nil, totalRuns_nil]
  | none =>
    cases args with
    | one s =>
      obtain ⟨kind, items⟩ := s
      by_cases h : kind = .nonIter
      · subst h
        cases kn <;> simp [amaxmin, maxIterable, Src.iterate, expected, argItems, observe, noCalls, flushSizes_nil, totalRuns_nil]
      · rw [amaxmin_obs_src env isMin kn kind items h]
        simp only [expected, argItems, h, reduceCtorEq, if_false, Bool.false_and, Bool.false_eq_true, decide_false]
        rfl
    | elems xs =>
      match xs with
      | [] => simp [amaxmin, maxIterable, expected, argItems, observe, noCalls, flushSizes_nil, totalRuns_nil]
      | [x] =>
        cases kn <;> simp [amaxmin, maxIterable, Src.iterate, expected, argItems, observe, noCalls, flushSizes_nil, totalRuns_nil]
      | a :: b :: xs =>
        rw [amaxmin_varargs, amaxmin_obs_src env isMin kn .tuple (a :: b :: xs) (by simp)]
        simp only [expected, argItems, reduceCtorEq, if_false, Bool.false_and, Bool.false_eq_true, decide_false]
        rfl

theorem aretry_obs (m : Nat) (l : List Nat) (sc : List Attempt) (b : Bool) (k : BodyKind) :
    observe (aretry (α := α) m l sc b k) = expected env (.aretry m l sc b k) := by
  by_cases hm : m = 0
  · subst hm; simp [aretry, expected, observe, noCalls, flushSizes_nil, totalRuns_nil]
  · have := retryLoop_spec (α := α) l (scriptAt sc) m b k m 0 (by omega) (by omega)
    have hn : 0 < min (leadingListed l (scriptAt sc) m 0 + 1) m := by omega
    simp only [aretry, expected, hm, if_false, this, observe, flushSizes_retryRounds,
      totalRuns_retryRounds _ _ _ _ hn]
    simp

end obs

end AsynqModel.Tools
