import AsynqModel.Proofs.CtxClauses
/-! what acceptance by the observer means for the calls on ONE plain context: strict alternation (helper lemmas for
    Theorems/C06c.lean; about the observer alone, no model involved) -/
namespace AsynqModel.Contexts

/-- consume a sequence of calls (true = resume) that must alternate; `last` = was the last call so far a resume -/
def altRun (last : Bool) : List Bool → Option Bool
  | [] => some last
  | x :: xs => if x != last then altRun x xs else none

theorem altRun_append (last : Bool) (a b : List Bool) :
    altRun last (a ++ b) = (altRun last a).bind fun l => altRun l b := by
  induction a generalizing last with
  | nil => rfl
  | cons x xs ih =>
    simp only [List.cons_append, altRun]
    split
    · exact ih x
    · rfl

/-- the block is open and its hooks are in the resumed state -/
def resumedNow (w : W) (c : Nat) : Bool := isOpen w c && (!ownedOpen w c || w.act)

/-- the calls of one observation on context c, as resume/pause flags -/
def onCtx (c : Nat) (calls : List Call) : List Bool := (calls.filter (·.c == c)).map (·.isR)

structure WF (w : W) : Prop where
  nodup : (w.opened.map (·.1)).Nodup
  runAct : w.phase = .running → w.act = true
  susAct : w.phase = .suspended → w.act = false

theorem common_inv (defs : List Kind) (nvars : Nat) (w w' : W) (ob : Obs) (h : common defs nvars w ob = .ok w') : w' = w := by
  unfold common at h
  split at h
  · simp at h
  · split at h
    · simp at h
    · simp at h; exact h.symm

theorem watchSkip_inv (defs : List Kind) (nvars : Nat) (w w' : W) (ob : Obs) (h : watchSkip defs nvars w ob = .ok w') :
    w' = w ∧ ob.calls = [] := by
  unfold watchSkip at h
  split at h
  · rename_i hc
    simp only [Bool.and_eq_true, List.isEmpty_iff] at hc
    exact ⟨common_inv defs nvars w w' ob h, hc.2⟩
  · simp at h

/-- one call per plain context of a duplicate-free list, in the walk's direction -/
theorem walk_onCtx (defs : List Kind) (isR : Bool) (c : Nat) (hp : isPlain defs c = true) :
    ∀ (l : List Nat) (cs : List Call) (errs : List (Option Exc)), walk defs isR l cs = some errs → l.Nodup →
      onCtx c cs = if c ∈ l then [isR] else [] := by
  intro l
  induction l with
  | nil =>
    intro cs errs h _
    cases cs with
    | nil => simp [onCtx]
    | cons x xs => simp [walk] at h
  | cons d rest ih =>
    intro cs errs h hnd
    have hnd' := List.nodup_cons.mp hnd
    unfold walk at h
    cases hk : kindOf defs d with
    | plain rr pr =>
      rw [hk] at h
      cases cs with
      | nil => simp at h
      | cons cl r =>
        simp only at h
        split at h
        · rename_i hc
          simp only [Bool.and_eq_true, beq_iff_eq] at hc
          cases hw : walk defs isR rest r with
          | none => simp [hw] at h
          | some es =>
            have := ih r es hw hnd'.2
            by_cases hcd : c = d
            · subst hcd
              have hnr : c ∉ rest := hnd'.1
              simp only [hnr, if_false] at this
              simp only [onCtx] at this ⊢
              simp [List.filter_cons, hc.2, hc.1, this]
            · have hne : (cl.c == c) = false := by simp [hc.2]; exact fun e => hcd e.symm
              simp only [onCtx] at this ⊢
              simp [List.filter_cons, hne, this, hcd]
        · simp at h
    | ov x v =>
      rw [hk] at h
      cases hw : walk defs isR rest cs with
      | none => simp [hw] at h
      | some es =>
        have := ih cs es hw hnd'.2
        have hcd : c ≠ d := fun e => by subst e; simp [isPlain, hk] at hp
        simp [this, hcd]
    | na =>
      rw [hk] at h
      cases hw : walk defs isR rest cs with
      | none => simp [hw] at h
      | some es =>
        have := ih cs es hw hnd'.2
        have hcd : c ≠ d := fun e => by subst e; simp [isPlain, hk] at hp
        simp [this, hcd]

theorem isOpen_openCtx (w : W) (c d : Nat) : isOpen (openCtx w c) d = true ↔ isOpen w d = true ∨ d = c := by
  rw [isOpen_iff, isOpen_iff]
  constructor
  · rintro ⟨o, ho⟩
    rcases (openCtx_mem w c d o).mp ho with h | ⟨h, _⟩
    · exact Or.inl ⟨o, h⟩
    · exact Or.inr h
  · rintro (⟨o, ho⟩ | h)
    · exact ⟨o, (openCtx_mem w c d o).mpr (Or.inl ho)⟩
    · exact ⟨_, (openCtx_mem w c d _).mpr (Or.inr ⟨h, rfl⟩)⟩

theorem ownedOpen_openCtx (w : W) (c d : Nat) :
    ownedOpen (openCtx w c) d = true ↔ ownedOpen w d = true ∨ (d = c ∧ w.phase = .running) := by
  rw [ownedOpen_iff, ownedOpen_iff, openCtx_mem]
  constructor
  · rintro (h | ⟨h1, h2⟩)
    · exact Or.inl h
    · exact Or.inr ⟨h1, by simpa using h2.symm⟩
  · rintro (h | ⟨h1, h2⟩)
    · exact Or.inl h
    · exact Or.inr ⟨h1, by simp [h2]⟩

theorem isOpen_closeCtx (w : W) (c d : Nat) : isOpen (closeCtx w c) d = true ↔ isOpen w d = true ∧ d ≠ c := by
  rw [isOpen_iff, isOpen_iff]
  constructor
  · rintro ⟨o, ho⟩
    have := (closeCtx_mem w c d o).mp ho
    exact ⟨⟨o, this.1⟩, this.2⟩
  · rintro ⟨⟨o, ho⟩, h⟩
    exact ⟨o, (closeCtx_mem w c d o).mpr ⟨ho, h⟩⟩

theorem ownedOpen_closeCtx (w : W) (c d : Nat) : ownedOpen (closeCtx w c) d = true ↔ ownedOpen w d = true ∧ d ≠ c := by
  rw [ownedOpen_iff, ownedOpen_iff, closeCtx_mem]

theorem resumedNow_iff (w : W) (c : Nat) :
    resumedNow w c = true ↔ isOpen w c = true ∧ (ownedOpen w c = true → w.act = true) := by
  unfold resumedNow
  cases isOpen w c <;> cases ownedOpen w c <;> cases w.act <;> simp

theorem resumedNow_congr (w w' : W) (c : Nat) (h1 : w'.opened = w.opened) (h2 : w'.act = w.act) :
    resumedNow w' c = resumedNow w c := by
  simp [resumedNow, isOpen, ownedOpen, h1, h2]

theorem WF_congr (w w' : W) (h : WF w) (h1 : w'.opened = w.opened) (h2 : w'.act = w.act) (h3 : w'.phase = w.phase) : WF w' :=
  { nodup := by rw [h1]; exact h.nodup, runAct := by rw [h2, h3]; exact h.runAct, susAct := by rw [h2, h3]; exact h.susAct }

theorem failWith_fields (w : W) (e : Option Exc) (p : Phase) :
    (failWith w e p).opened = w.opened ∧ (failWith w e p).act = w.act ∧ (failWith w e p).stopped = w.stopped ∧
    ((failWith w e p).phase = p ∨ (failWith w e p).phase = .done) := by
  cases e <;> simp [failWith]

end AsynqModel.Contexts
