import AsynqModel.Core.Reach
/-!
  P7 (C07 / C06, "every overridden value is back to what it was before"): the vocabulary.

  * `NA s`            : no NonAsyncContext object exists (logical form of `Inv.noNonAsync`)
  * `hot s o`         : task `o` has resumed contexts (its contexts are active and at least one is registered)
  * `hotTasks s`      : the hot tasks in the order of their FIRST occurrence on the task stack, top first
  * `rstack s`        : the resumed contexts of the whole machine as ONE stack, most recently resumed first
  * `lifo tr`         : reads a trace (newest first) as a word of resume/pause events and checks that it is
                        well bracketed; returns the stack of contexts that are resumed at the end
  * `expect`/`svChain`: what the scoped values and the saved `_old_value`s must be, given the resumed stack
  * `SF`              : frame discipline - a running generator is the task on top of the stack of its `_execute`
  * `noRevisit s`     : the step out of `s` pushes no task with resumed contexts onto the task stack
-/
namespace AsynqModel.Core.P7
open AsynqModel.Core

/-- no NonAsyncContext object exists -/
def NA (s : State) : Prop := ∀ (c : Nat) (x : CtxSt), s.ctxs[c]? = some x → x.kind ≠ .nonasync

/-- task `o` has resumed contexts -/
def hot (s : State) (o : Nat) : Bool := (s.task o).ctxActive && !(s.task o).ctxs.isEmpty

/-- the entries satisfying `p`, each at its first occurrence only -/
def fo (p : Nat → Bool) : List Nat → List Nat
  | [] => []
  | t :: r => if p t then t :: (fo p r).filter (· != t) else fo p r

def hotTasks (s : State) : List Nat := fo (hot s) s.stack

/-- all resumed contexts, most recently resumed first (a theorem, `P7.M`, not a definition, says that it is) -/
def rstack (s : State) : List Nat := (hotTasks s).flatMap fun o => (s.task o).ctxs.reverse

/-- the stack of resumed contexts after the events of `tr` (NEWEST first); `none` if a context is resumed twice or
    a pause is not the pause of the most recently resumed, still resumed context -/
def lifo : List Event → Option (List Nat)
  | [] => some []
  | e :: tr =>
    match lifo tr with
    | none => none
    | some R =>
      match e with
      | .ctx true c => if c ∈ R then none else some (c :: R)
      | .ctx false c =>
        match R with
        | c' :: R' => if c' = c then some R' else none
        | [] => none
      | _ => some R

def kindOf (s : State) (c : Nat) : CtxKind :=
  match s.ctxs[c]? with
  | some x => x.kind
  | none => .plain

def oldOf (s : State) (c : Nat) : Nat :=
  match s.ctxs[c]? with
  | some x => x.old
  | none => 0

/-- the value of variable `v` when the contexts `R` (most recent first) are resumed: the innermost override wins -/
def expect (s : State) : List Nat → Nat → Nat
  | [], _ => 0
  | c :: R, v =>
    match kindOf s c with
    | .override var val => if v = var then val else expect s R v
    | _ => expect s R v

/-- every resumed override context has saved the value that the contexts resumed before it give -/
def svChain (s : State) : List Nat → Prop
  | [] => True
  | c :: R => (∀ var val, kindOf s c = .override var val → oldOf s c = expect s R var) ∧ svChain s R

/-- frame discipline of the task stack w.r.t. the control stack -/
def SF : List Nat → List Ctl → Prop
  | st, [] => st = []
  | st, .waitEnter _ :: r => SF st r
  | st, .waitLoop _ b :: r => b ≤ st.length ∧ SF (st.drop (st.length - b)) r
  | st, .gen t _ :: r => st.head? = some t ∧ SF st r

/-- the futures the step out of `s` pushes onto the task stack -/
def pushed (s : State) : List Nat := (step s).stack.take ((step s).stack.length - s.stack.length)

/-- **NoRevisit** (one step): no future pushed by the step out of `s` is a task with resumed contexts.
    A task has resumed contexts only between the two visits of `_handle_async_task` (or while its generator runs);
    pushing it again means that it (transitively) awaits itself. -/
def noRevisit (s : State) : Bool := (pushed s).all fun d => !hot (step s) d

/-- reachable by a run all of whose steps satisfy `noRevisit` -/
inductive ReachNR : State → Prop
  | init (cfg : Cfg) (tops : List (Conv × Body)) (choices : List (Nat × Nat)) : ReachNR (initState cfg tops choices)
  | step {s : State} : ReachNR s → noRevisit s = true → ReachNR (step s)

theorem ReachNR.reach {s : State} (h : ReachNR s) : Reach s := by
  induction h with
  | init cfg tops choices => exact Reach.init cfg tops choices
  | step _ _ ih => exact Reach.step ih

/-- run with fuel, checking `noRevisit` before every step -/
def runFuelNR : Nat → State → Option State
  | 0, s => some s
  | n + 1, s => if s.isDone then some s else if noRevisit s then runFuelNR n (step s) else none

theorem reachNR_runFuelNR (n : Nat) : ∀ (s s' : State), ReachNR s → runFuelNR n s = some s' → ReachNR s' := by
  induction n with
  | zero => intro s s' h e; simp [runFuelNR] at e; exact e ▸ h
  | succ n ih =>
    intro s s' h e
    unfold runFuelNR at e
    split at e
    · simp at e; exact e ▸ h
    · split at e
      · next hn => exact ih _ _ (ReachNR.step h hn) e
      · cases e

theorem runFuelNR_eq (n : Nat) : ∀ (s s' : State), runFuelNR n s = some s' → s' = runFuel n s := by
  induction n with
  | zero => intro s s' e; simp [runFuelNR] at e; simp [runFuel, e]
  | succ n ih =>
    intro s s' e
    unfold runFuelNR at e
    unfold runFuel
    split at e
    · next hd => simp at e; subst e; simp [hd]
    · next hd =>
      split at e
      · simp only [hd, Bool.false_eq_true, if_false]; exact ih _ _ e
      · cases e

/-- a checked run reaches a `ReachNR` state -/
theorem reachNR_of_checked (n : Nat) (s : State) (h : ReachNR s) (hc : (runFuelNR n s).isSome = true) :
    ReachNR (runFuel n s) := by
  cases hr : runFuelNR n s with
  | none => rw [hr] at hc; cases hc
  | some s' =>
    have := runFuelNR_eq n s s' hr
    rw [← this]
    exact reachNR_runFuelNR n s s' h hr

end AsynqModel.Core.P7
