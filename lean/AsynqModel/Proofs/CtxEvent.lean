import AsynqModel.Proofs.CtxBase
/-! single hook calls of the model against the observer's picture (helper lemmas for Theorems/C06c.lean) -/
namespace AsynqModel.Contexts

/-- the part of the simulation relation that every single pause()/resume() call preserves -/
structure CoreA (defs : List Kind) (nvars : Nat) (s : St) (w : W) : Prop where
  reg : s.reg = ownedIds w
  attr : ∀ c o, (c, o) ∈ w.opened → (getC s.cs c).attr = if o then Attr.task else Attr.noTask
  lt : ∀ c o, (c, o) ∈ w.opened → c < defs.length
  nodup : (w.opened.map (·.1)).Nodup
  cslen : s.cs.length = defs.length
  vlen : s.vals.length = nvars
  stkNodup : w.stk.Nodup
  stkOv : ∀ c ∈ w.stk, ∃ x, varOf defs c = some x
  chain : w.valsOff = false → ∀ x, x < nvars → Chain defs s.cs x (getV s.vals x) (stackOf defs w.stk x)

/-- what one hook call on context c produces: the observed call (plain contexts) and the exception -/
def evOut (defs : List Kind) (isR : Bool) (c : Nat) (cl : List Call) (e : Option Exc) : Prop :=
  match kindOf defs c with
  | .plain _ _ => ∃ b, cl = [⟨isR, c, b⟩] ∧ e = if b then some (hookExc isR c) else none
  | .ov _ _ => cl = [] ∧ e = none
  | .na => cl = [] ∧ e = some .assertion

theorem walk_cons (defs : List Kind) (isR : Bool) (c : Nat) (cl : List Call) (e : Option Exc) (ts : List Nat)
    (rest : List Call) (es : List (Option Exc)) (h : evOut defs isR c cl e) (hw : walk defs isR ts rest = some es) :
    walk defs isR (c :: ts) (cl ++ rest) = some (e :: es) := by
  unfold evOut at h
  cases hk : kindOf defs c with
  | plain rr pr =>
    rw [hk] at h
    obtain ⟨b, rfl, rfl⟩ := h
    cases b <;> simp [walk, hk, hw]
  | ov x v =>
    rw [hk] at h
    obtain ⟨rfl, rfl⟩ := h
    simp [walk, hk, hw]
  | na =>
    rw [hk] at h
    obtain ⟨rfl, rfl⟩ := h
    simp [walk, hk, hw]

theorem varOf_plain (defs : List Kind) (c : Nat) (rr pr : List Nat) (h : kindOf defs c = .plain rr pr) : varOf defs c = none := by
  simp [varOf, h]
theorem varOf_na (defs : List Kind) (c : Nat) (h : kindOf defs c = .na) : varOf defs c = none := by
  simp [varOf, h]
theorem varOf_ov (defs : List Kind) (c x v : Nat) (h : kindOf defs c = .ov x v) : varOf defs c = some x := by
  simp [varOf, h]
theorem valOf_ov (defs : List Kind) (c x v : Nat) (h : kindOf defs c = .ov x v) : valOf defs c = v := by
  simp [valOf, h]

theorem popOv_none (defs : List Kind) (w : W) (c : Nat) (h : varOf defs c = none) : popOv defs w c = w := by
  simp [popOv, h]
theorem pushOv_none (defs : List Kind) (w : W) (c : Nat) (h : varOf defs c = none) : pushOv defs w c = w := by
  simp [pushOv, h]

theorem popOv_opened (defs : List Kind) (w : W) (c : Nat) : (popOv defs w c).opened = w.opened := by
  unfold popOv; split
  · split <;> rfl
  · rfl
theorem pushOv_opened (defs : List Kind) (w : W) (c : Nat) : (pushOv defs w c).opened = w.opened := by
  unfold pushOv; split <;> rfl

theorem ownedIds_congr (w w' : W) (h : w'.opened = w.opened) : ownedIds w' = ownedIds w := by
  simp [ownedIds, h]

/-- counters of a plain context change: nothing the relation speaks about is touched -/
theorem CoreA_counters (defs : List Kind) (nvars : Nat) (s : St) (w : W) (c : Nat) (f : CtxSt → CtxSt)
    (hf : ∀ k, (f k).attr = k.attr ∧ (f k).old = k.old) (h : CoreA defs nvars s w) :
    CoreA defs nvars { s with cs := upd s.cs c f } w := by
  have key : ∀ d, (getC (upd s.cs c f) d).attr = (getC s.cs d).attr ∧ (getC (upd s.cs c f) d).old = (getC s.cs d).old := by
    intro d
    by_cases hd : d = c
    · subst hd
      by_cases hl : d < s.cs.length
      · rw [getC_upd_same _ _ _ hl]; exact hf _
      · have : upd s.cs d f = s.cs := by
          have : ∀ (l : List CtxSt) (n : Nat), l.length ≤ n → upd l n f = l := by
            intro l
            induction l with
            | nil => intros; rfl
            | cons x xs ih =>
              intro n hn
              cases n with
              | zero => simp at hn
              | succ m => simp [upd, ih m (by simpa using hn)]
          exact this _ _ (by omega)
        rw [this]; exact ⟨rfl, rfl⟩
    · rw [getC_upd_ne _ _ _ _ hd]; exact ⟨rfl, rfl⟩
  exact { reg := h.reg, attr := fun d o hm => by rw [(key d).1]; exact h.attr d o hm, lt := h.lt, nodup := h.nodup,
          cslen := by simp [upd_length, h.cslen], vlen := h.vlen, stkNodup := h.stkNodup, stkOv := h.stkOv,
          chain := fun hv x hx => Chain_congr defs s.cs _ x _ _ (fun d _ => (key d).2) (h.chain hv x hx) }

/-- one pause() call: the override leaves the active stack (fine if it was the innermost one of its variable) -/
theorem pause_event (defs : List Kind) (nvars : Nat) (s : St) (w : W) (c : Nat) (h : CoreA defs nvars s w) :
    CoreA defs nvars (pauseCtx defs s c).1 (popOv defs w c) ∧
      evOut defs false c (pauseCtx defs s c).2.1 (pauseCtx defs s c).2.2 ∧
      (pauseCtx defs s c).1.reg = s.reg ∧ (pauseCtx defs s c).1.active = s.active ∧
      (pauseCtx defs s c).1.phase = s.phase ∧ (pauseCtx defs s c).1.status = s.status := by
  cases hk : kindOf defs c with
  | plain rr pr =>
    simp only [pauseCtx, hk]
    refine ⟨?_, ?_, by trivial, by trivial, by trivial, by trivial⟩
    · rw [popOv_none defs w c (varOf_plain defs c rr pr hk)]
      exact CoreA_counters defs nvars s w c _ (fun k => ⟨rfl, rfl⟩) h
    · simp only [evOut, hk]; exact ⟨_, rfl, by simp [hookExc]⟩
  | na =>
    simp only [pauseCtx, hk]
    refine ⟨?_, ?_, by trivial, by trivial, by trivial, by trivial⟩
    · rw [popOv_none defs w c (varOf_na defs c hk)]; exact h
    · simp [evOut, hk]
  | ov x v =>
    simp only [pauseCtx, hk]
    refine ⟨?_, ?_, by trivial, by trivial, by trivial, by trivial⟩
    · have hvar := varOf_ov defs c x v hk
      have hop := popOv_opened defs w c
      refine { reg := by rw [ownedIds_congr _ _ hop]; exact h.reg, attr := by rw [hop]; exact h.attr,
               lt := by rw [hop]; exact h.lt, nodup := by rw [hop]; exact h.nodup, cslen := h.cslen,
               vlen := by simp [upd_length, h.vlen], stkNodup := ?_, stkOv := ?_, chain := ?_ }
      · have : (popOv defs w c).stk = w.stk.filter (· != c) := by
          simp only [popOv, hvar]; split <;> rfl
        rw [this]; exact h.stkNodup.sublist List.filter_sublist
      · have : (popOv defs w c).stk = w.stk.filter (· != c) := by
          simp only [popOv, hvar]; split <;> rfl
        rw [this]; intro d hd; exact h.stkOv d (List.mem_filter.mp hd).1
      · intro hv y hy
        by_cases hhead : (stackOf defs w.stk x).head? == some c
        · have hw' : popOv defs w c = { w with stk := w.stk.filter (· != c) } := by simp only [popOv, hvar, hhead]; rfl
          rw [hw'] at hv ⊢
          have hv0 : w.valsOff = false := hv
          show Chain defs s.cs y (getV (upd s.vals x fun _ => (getC s.cs c).old) y) (stackOf defs (w.stk.filter (· != c)) y)
          rw [stackOf_filter]
          by_cases hyx : y = x
          · subst hyx
            cases hst : stackOf defs w.stk y with
            | nil => simp [hst] at hhead
            | cons c' r =>
              have hcc : c' = c := by simpa [hst] using hhead
              subst hcc
              have hnd : (stackOf defs w.stk y).Nodup := h.stkNodup.sublist List.filter_sublist
              rw [hst] at hnd
              have hcr : c' ∉ r := (List.nodup_cons.mp hnd).1
              have hch := h.chain hv0 y hy
              rw [hst] at hch
              rw [getV_upd_same _ _ _ (by rw [h.vlen]; exact hy)]
              have : (c' :: r).filter (· != c') = r := by
                rw [List.filter_cons]; simp [filter_ne_of_not_mem r c' hcr]
              rw [this]; exact hch.2
          · rw [getV_upd_ne _ _ _ _ hyx]
            have hcn : c ∉ stackOf defs w.stk y := by
              intro hm
              have := ((mem_stackOf defs w.stk y c).mp hm).2
              rw [hvar] at this
              exact hyx (Option.some.inj this).symm
            rw [filter_ne_of_not_mem _ _ hcn]
            exact h.chain hv0 y hy
        · have hw' : popOv defs w c = { w with stk := w.stk.filter (· != c), valsOff := true } := by
            simp only [popOv, hvar, hhead]; rfl
          rw [hw'] at hv
          exact absurd hv (by simp)
    · simp [evOut, hk]

/-- one resume() call on a context that is not active: the override becomes the innermost one of its variable -/
theorem resume_event (defs : List Kind) (nvars : Nat) (s : St) (w : W) (c : Nat) (h : CoreA defs nvars s w)
    (hlt : c < defs.length) (hns : c ∉ w.stk) :
    CoreA defs nvars (resumeCtx defs s c).1 (pushOv defs w c) ∧
      evOut defs true c (resumeCtx defs s c).2.1 (resumeCtx defs s c).2.2 ∧
      (resumeCtx defs s c).1.reg = s.reg ∧ (resumeCtx defs s c).1.active = s.active ∧
      (resumeCtx defs s c).1.phase = s.phase ∧ (resumeCtx defs s c).1.status = s.status := by
  cases hk : kindOf defs c with
  | plain rr pr =>
    simp only [resumeCtx, hk]
    refine ⟨?_, ?_, by trivial, by trivial, by trivial, by trivial⟩
    · rw [pushOv_none defs w c (varOf_plain defs c rr pr hk)]
      exact CoreA_counters defs nvars s w c _ (fun k => ⟨rfl, rfl⟩) h
    · simp only [evOut, hk]; exact ⟨_, rfl, by simp [hookExc]⟩
  | na =>
    simp only [resumeCtx, hk]
    refine ⟨?_, ?_, by trivial, by trivial, by trivial, by trivial⟩
    · rw [pushOv_none defs w c (varOf_na defs c hk)]; exact h
    · simp [evOut, hk]
  | ov x v =>
    simp only [resumeCtx, hk]
    refine ⟨?_, ?_, by trivial, by trivial, by trivial, by trivial⟩
    · have hvar := varOf_ov defs c x v hk
      have hop := pushOv_opened defs w c
      have hw' : pushOv defs w c = { w with stk := c :: w.stk } := by simp only [pushOv, hvar]
      have hold : ∀ d, d ≠ c → (getC (upd s.cs c fun k => { k with old := getV s.vals x }) d) = getC s.cs d :=
        fun d hd => getC_upd_ne _ _ _ _ hd
      have hattr : ∀ d, (getC (upd s.cs c fun k => { k with old := getV s.vals x }) d).attr = (getC s.cs d).attr := by
        intro d
        by_cases hd : d = c
        · subst hd; rw [getC_upd_same _ _ _ (by rw [h.cslen]; exact hlt)]
        · rw [hold d hd]
      refine { reg := by rw [ownedIds_congr _ _ hop]; exact h.reg,
               attr := by rw [hop]; intro d o hm; rw [hattr]; exact h.attr d o hm,
               lt := by rw [hop]; exact h.lt, nodup := by rw [hop]; exact h.nodup,
               cslen := by simp [upd_length, h.cslen], vlen := by simp [upd_length, h.vlen],
               stkNodup := ?_, stkOv := ?_, chain := ?_ }
      · rw [hw']; exact List.nodup_cons.mpr ⟨hns, h.stkNodup⟩
      · rw [hw']; intro d hd
        rcases List.mem_cons.mp hd with rfl | hd
        · exact ⟨x, hvar⟩
        · exact h.stkOv d hd
      · intro hv y hy
        rw [hw'] at hv ⊢
        have hv0 : w.valsOff = false := hv
        show Chain defs (upd s.cs c fun k => { k with old := getV s.vals x }) y (getV (upd s.vals x fun _ => v) y)
          (stackOf defs (c :: w.stk) y)
        rw [stackOf_cons]
        have hcong : ∀ l : List Nat, c ∉ l → ∀ cur, Chain defs s.cs y cur l →
            Chain defs (upd s.cs c fun k => { k with old := getV s.vals x }) y cur l := by
          intro l hl cur hc
          refine Chain_congr defs s.cs _ y l cur (fun d hd => ?_) hc
          have : d ≠ c := fun e => hl (e ▸ hd)
          rw [hold d this]
        have hcs : c ∉ stackOf defs w.stk y := fun hm => hns ((mem_stackOf defs w.stk y c).mp hm).1
        by_cases hyx : y = x
        · subst hyx
          simp only [hvar, beq_self_eq_true, if_true]
          refine ⟨?_, ?_⟩
          · rw [getV_upd_same _ _ _ (by rw [h.vlen]; exact hy), valOf_ov defs c y v hk]
          · rw [getC_upd_same _ _ _ (by rw [h.cslen]; exact hlt)]
            exact hcong _ hcs _ (h.chain hv0 y hy)
        · have : (varOf defs c == some y) = false := by
            rw [hvar]; simp; exact fun e => hyx e.symm
          simp only [this, Bool.false_eq_true, if_false]
          rw [getV_upd_ne _ _ _ _ hyx]
          exact hcong _ hcs _ (h.chain hv0 y hy)
    · simp [evOut, hk]

end AsynqModel.Contexts
