import AsynqModel.Proofs.P17G2
import AsynqModel.Proofs.P2Helpers
import AsynqModel.Proofs.P10Gen
import AsynqModel.Proofs.P7Rel
import AsynqModel.Proofs.P3Gen
/-!
  P17, part 5: the relation `RA c s = G1 c s ∧ G2 s` is preserved by every helper of the machine and by `step`
  (the structure of the proof is that of `Proofs/P14Step.lean`).

  Side conditions of `R_step` (all of them facts about reachable states of a well-scoped program whose stack guard
  has not fired): the running task exists and is the active task; a task that is resumed has all its dependencies
  computed; the rest of the running task is well-scoped and what it yielded last is nameable; everything nameable
  exists; and the `.read` clause of the observer holds for the value the running task reads (`hread`).
-/
namespace AsynqModel.Core.P17
open AsynqModel.Core AsynqModel.Core.Spec
open AsynqModel.Core.P13 (obs W)
open AsynqModel.Core.P10 (Named)

structure RA (c : Ctx) (s : State) : Prop where
  g1 : G1 c s
  g2 : G2 s

variable {c : Ctx}

theorem R_of_eq {s s' : State} (hf : s'.futs = s.futs) (ht : s'.trace = s.trace) (hx : s'.ctxs = s.ctxs)
    (h : RA c s) : RA c s' :=
  ⟨h.g1.of_eq hf ht, h.g2.of_eq hf ht hx⟩

/-- any change of the fields other than `futs`, `trace` and `ctxs` -/
theorem R_mk (s : State) (cfg batches stack sbatches active ctl sv tops topIdx curTop raising choices stuck guardFired)
    (h : RA c s) :
    RA c { cfg := cfg, futs := s.futs, batches := batches, stack := stack, sbatches := sbatches, active := active,
           ctl := ctl, ctxs := s.ctxs, sv := sv, trace := s.trace, tops := tops, topIdx := topIdx, curTop := curTop,
           raising := raising, choices := choices, stuck := stuck, guardFired := guardFired } :=
  R_of_eq (s := s) rfl rfl rfl h

theorem R_ite {s1 s2 : State} {p : Prop} [Decidable p] (h1 : RA c s1) (h2 : RA c s2) : RA c (if p then s1 else s2) := by
  split <;> assumption

theorem R_fail {s : State} (m : String) (h : RA c s) : RA c (s.fail m) := R_of_eq (s := s) rfl rfl rfl h

theorem R_emit {s : State} (e : Event) (h1 : plain1 e = true) (h2 : plain2 e = true) (h : RA c s) : RA c (s.emit e) :=
  ⟨h.g1.emit_plain e h1, h.g2.emit_plain e h2⟩

/-- a task update that keeps `pending`, `deps`, `own`, `inh`, `ctxs` -/
theorem R_updTask {s : State} (t : Nat) (g : TaskSt → TaskSt) (hg : ∀ ts, TK ts (g ts))
    (hc : ∀ ts, (g ts).ctxs = ts.ctxs) (h : RA c s) : RA c (s.updTask t g) :=
  ⟨h.g1.updTask_keep t g hg, h.g2.updTask_keep t g hc⟩

theorem R_complete {s : State} (f : Nat) (o : Outcome) (h : RA c s) : RA c (s.complete f o) :=
  ⟨h.g1.complete f o, h.g2.complete f o⟩

/-- the task update `g` followed by the completion of the task -/
theorem R_finish {s : State} (t : Nat) (o : Outcome) (g : TaskSt → TaskSt) (ho : ∀ ts, (g ts).own = ts.own)
    (hi : ∀ ts, (g ts).inh = ts.inh) (hc : ∀ ts, (g ts).ctxs = ts.ctxs) (h : RA c s) :
    RA c ((s.updTask t g).complete t o) :=
  ⟨h.g1.finish t o g ho hi, (h.g2.updTask_keep t g hc).complete t o⟩

/-! ### contexts -/

theorem R_svTouch {s : State} (var : Nat) (h : RA c s) : RA c (s.svTouch var) :=
  R_of_eq (by simp) (by simp) (by simp) h

theorem R_ctxResumeOne {s : State} (cid : Nat) (h : RA c s) : RA c (s.ctxResumeOne cid) := by
  have op := P5.flagOp_resume s cid
  exact ⟨G1.of_eq (s := s.emit (.ctx true cid)) op.futs op.trace (h.g1.emit_plain (.ctx true cid) rfl), h.g2.ctxResumeOne cid⟩

theorem R_ctxPauseOne {s : State} (cid : Nat) (h : RA c s) : RA c (s.ctxPauseOne cid) := by
  have op := P5.flagOp_pause s cid
  exact ⟨G1.of_eq (s := s.emit (.ctx false cid)) op.futs op.trace (h.g1.emit_plain (.ctx false cid) rfl), h.g2.ctxPauseOne cid⟩

theorem G1_ite {s1 s2 : State} {p : Prop} [Decidable p] (h1 : G1 c s1) (h2 : G1 c s2) : G1 c (if p then s1 else s2) := by
  split <;> assumption

theorem G1_ctxPauseOne {s : State} (cid : Nat) (h : G1 c s) : G1 c (s.ctxPauseOne cid) := by
  have op := P5.flagOp_pause s cid
  exact G1.of_eq (s := s.emit (.ctx false cid)) op.futs op.trace (h.emit_plain (.ctx false cid) rfl)

theorem R_ctxExit {s : State} (cid : Nat) (h : RA c s) : RA c (s.ctxExit cid) := by
  refine ⟨?_, h.g2.ctxExit cid⟩
  rcases P2.ctxExit_cases s cid with e | ⟨o, e⟩
  · rw [e]
    exact G1.emit_plain _ rfl (G1_ite h.g1 (G1_ctxPauseOne _ h.g1))
  · rw [e]
    have h1 : G1 c (s.updTask o fun ts => { ts with ctxs := ts.ctxs.erase cid }) :=
      h.g1.updTask_keep _ _ (fun _ => ⟨rfl, rfl, rfl, rfl⟩)
    exact G1.emit_plain _ rfl (G1_ite h1 (G1_ctxPauseOne _ h1))

theorem R_foldl {α : Type} (g : State → α → State) (hg : ∀ s a, RA c s → RA c (g s a)) (l : List α) {s : State}
    (h : RA c s) : RA c (l.foldl g s) := by
  induction l generalizing s with
  | nil => exact h
  | cons a l ih => exact ih (hg s a h)

theorem R_exitAll {s : State} (t : Nat) (h : RA c s) : RA c (s.exitAll t) := by
  unfold State.exitAll
  refine R_updTask _ _ (fun _ => ⟨rfl, rfl, rfl, rfl⟩) (fun _ => rfl) ?_
  exact R_foldl (fun (s : State) (p : Nat × Body) => s.ctxExit p.1) (fun s p hs => R_ctxExit p.1 hs) _ h

theorem R_failSuspended {s : State} (t : Nat) (e : Err) (h : RA c s) : RA c (s.failSuspended t e) := by
  unfold State.failSuspended
  split
  · exact h
  · exact R_finish _ _ _ (fun _ => rfl) (fun _ => rfl) (fun _ => rfl) (R_exitAll t h)

theorem R_resumeContexts {s : State} (t : Nat) (h : RA c s) : RA c (s.resumeContexts t) := by
  unfold State.resumeContexts
  simp only []
  split
  · exact h
  · have h1 : RA c ((s.task t).ctxs.foldl (fun s c => if s.ctxIsNonAsync c then s else s.ctxResumeOne c)
        (s.updTask t fun ts => { ts with ctxActive := true })) :=
      R_foldl _ (fun s a hs => R_ite hs (R_ctxResumeOne a hs)) _
        (R_updTask _ _ (fun _ => ⟨rfl, rfl, rfl, rfl⟩) (fun _ => rfl) h)
    split
    · exact R_failSuspended _ _ h1
    · exact h1

theorem R_pauseContexts {s : State} (t : Nat) (h : RA c s) : RA c (s.pauseContexts t) := by
  unfold State.pauseContexts
  simp only []
  split
  · exact h
  · have h1 : RA c ((s.task t).ctxs.reverse.foldl (fun s c => if s.ctxIsNonAsync c then s else s.ctxPauseOne c)
        (s.updTask t fun ts => { ts with ctxActive := false })) :=
      R_foldl _ (fun s a hs => R_ite hs (R_ctxPauseOne a hs)) _
        (R_updTask _ _ (fun _ => ⟨rfl, rfl, rfl, rfl⟩) (fun _ => rfl) h)
    split
    · exact R_failSuspended _ _ h1
    · exact h1

/-! ### batches -/

theorem R_switchActive {s : State} (kind seq : Nat) (h : RA c s) : RA c (s.switchActive kind seq) := by
  unfold State.switchActive
  split
  · split
    · exact R_of_eq (s := s) rfl rfl rfl h
    · exact h
  · exact h

theorem R_updBatch {s : State} (kind seq : Nat) (g : Batch → Batch) (h : RA c s) : RA c (s.updBatch kind seq g) :=
  R_of_eq (s := s) rfl rfl rfl h

theorem R_flushItems (kind : Nat) (l : List Nat) {s : State} (h : RA c s) : RA c (s.flushItems kind l) := by
  induction l generalizing s with
  | nil => exact h
  | cons i l ih =>
    unfold State.flushItems
    simp only []
    apply ih
    split
    · exact h
    · split
      · exact R_complete _ _ h
      · exact R_complete _ _ h
      · exact h

theorem R_finishItems (e : Err) (l : List Nat) {s : State} (h : RA c s) : RA c (s.finishItems e l) := by
  induction l generalizing s with
  | nil => exact h
  | cons i l ih =>
    unfold State.finishItems
    apply ih
    split
    · exact h
    · exact R_complete _ _ h

theorem R_flushBatch {s : State} (kind seq : Nat) (h : RA c s) : RA c (s.flushBatch kind seq) := by
  unfold State.flushBatch
  split
  · exact R_fail _ h
  · simp only []
    refine R_updBatch _ _ _ ?_
    refine R_emit _ rfl rfl ?_
    refine R_finishItems _ _ ?_
    refine R_flushItems _ _ ?_
    refine R_emit _ rfl rfl ?_
    exact R_switchActive _ _ h

theorem R_schedulerFlush {s : State} (root : Nat) (h : RA c s) : RA c (s.schedulerFlush root) := by
  unfold State.schedulerFlush
  simp only []
  have h0 : RA c { s with sbatches := s.flushable, ctl := .waitEnter root :: s.ctl.tail } :=
    R_of_eq (s := s) rfl rfl rfl h
  split
  · exact h0
  · split
    · exact R_fail _ h0
    · split
      · exact R_fail _ h0
      · split
        · exact R_fail _ h0
        · refine R_emit _ rfl rfl ?_
          refine R_flushBatch _ _ ?_
          refine R_emit _ rfl rfl ?_
          exact R_of_eq (s := s) rfl rfl rfl h

/-! ### the scheduler loop -/

theorem R_popStack {s : State} (h : RA c s) : RA c s.popStack := R_of_eq (s := s) rfl rfl rfl h

theorem R_handleTask {s : State} (t : Nat) (h : RA c s) : RA c (s.handleTask t) := by
  unfold State.handleTask
  simp only []
  split
  · split
    · refine R_popStack ?_
      refine R_pauseContexts _ ?_
      exact R_updTask _ _ (fun _ => ⟨rfl, rfl, rfl, rfl⟩) (fun _ => rfl) h
    · refine R_of_eq (s := State.resumeContexts _ t) rfl rfl rfl ?_
      refine R_resumeContexts _ ?_
      exact R_updTask _ _ (fun _ => ⟨rfl, rfl, rfl, rfl⟩) (fun _ => rfl) h
  · split
    · exact R_fail _ h
    · refine R_of_eq (s := s.resumeContexts t) rfl rfl rfl ?_
      exact R_resumeContexts _ h

theorem R_executeIter {s : State} (h : RA c s) : RA c s.executeIter := by
  unfold State.executeIter
  split
  · exact R_fail _ h
  · split
    · exact R_of_eq (s := s) rfl rfl rfl h
    · split
      · exact R_popStack h
      · split
        · exact R_handleTask _ h
        · refine R_popStack ?_
          split
          · split
            · exact h
            · exact R_of_eq (s := s) rfl rfl rfl h
          · exact h
        · exact R_popStack (R_complete _ _ h)
        · exact R_fail _ h

/-! ### one instruction of a task body -/

theorem R_leaveGen {s : State} (t : Nat) (old : Option Nat) (h : RA c s) : RA c (s.leaveGen t old) := by
  unfold State.leaveGen
  refine R_of_eq (s := s.updTask t fun ts => { ts with depsSched := false }) rfl rfl rfl ?_
  exact R_updTask _ _ (fun _ => ⟨rfl, rfl, rfl, rfl⟩) (fun _ => rfl) h

theorem R_finishTask {s : State} (t : Nat) (old : Option Nat) (o : Outcome) (h : RA c s) :
    RA c (s.finishTask t old o) := by
  unfold State.finishTask
  split
  · exact R_fail _ h
  · exact R_leaveGen _ _ (R_finish _ _ _ (fun _ => rfl) (fun _ => rfl) (fun _ => rfl) (R_exitAll t h))

theorem R_alloc {s : State} (x : Fut) (nk : NewKind) (hd : x.ts.deps = []) (ho : x.ts.own = [])
    (hi : ∀ y ∈ x.ts.inh, ∃ u, Named s u y) (hx : x.ts.ctxs = []) (h : RA c s) : RA c (s.alloc x nk).1 :=
  ⟨h.g1.alloc x nk hd ho hi, h.g2.alloc x nk hx⟩

theorem R_newTask {s : State} (child : Body) (inh : List Nat) (hi : ∀ y ∈ inh, ∃ u, Named s u y) (h : RA c s) :
    RA c (s.newTask child inh).1 := by
  unfold State.newTask
  exact R_alloc _ _ rfl rfl hi rfl h

/-- the future allocated last is not the root of the current top-level computation -/
theorem fresh_alloc {s : State} (h : G1 c s) (x : Fut) (nk : NewKind) :
    ∀ r, (W (s.alloc x nk).1).topRoot = some r → s.futs.length ≠ r := by
  intro r hr
  have hv : g1view (W (s.alloc x nk).1) = g1view (W s) := view_new _ _ _ h.xr
  simp only [g1view, Prod.mk.injEq] at hv
  rw [hv.2.2.1] at hr
  exact Nat.ne_of_gt (h.rn r hr).1

/-- the task appends the future it has just created to its `own` list -/
theorem R_updTask_own {s : State} (t : Nat) (g : TaskSt → TaskSt) (f : Nat)
    (hp : ∀ ts, (g ts).pending = ts.pending) (hd : ∀ ts, (g ts).deps = ts.deps) (hi : ∀ ts, (g ts).inh = ts.inh)
    (ho : ∀ ts, (g ts).own = ts.own ++ [f]) (hc : ∀ ts, (g ts).ctxs = ts.ctxs)
    (hf : ∀ r, (W s).topRoot = some r → f ≠ r) (h : RA c s) : RA c (s.updTask t g) :=
  ⟨h.g1.updTask_own t g f hp hd hi ho hf, h.g2.updTask_keep t g hc⟩

/-- `with c:` - the context object is created, registered with the active task and (unless it is a NonAsyncContext)
    resumed -/
theorem R_withCtxTail {s0 : State} (t : Nat) (cx : CtxKind) (ha : s0.active = some t) (ht : t < s0.futs.length)
    (h : RA c s0) :
    RA c (
      let s := s0.emit (.ctxN s0.ctxs.length t cx)
      let s := { s with ctxs := s.ctxs ++ [({ kind := cx, owner := s.active } : CtxSt)] }
      let s := match s.active with
        | some a => s.updTask a fun ts => { ts with ctxs := ts.ctxs ++ [s0.ctxs.length] }
        | none => s
      if cx == .nonasync then s else s.ctxResumeOne s0.ctxs.length) := by
  have h3 : RA c (enterSt s0 t cx) := by
    refine ⟨?_, h.g2.enter t cx ha ht⟩
    unfold enterSt
    refine G1.updTask_keep _ _ (fun _ => ⟨rfl, rfl, rfl, rfl⟩) ?_
    exact G1.of_eq (s := s0.emit (.ctxN s0.ctxs.length t cx)) rfl rfl (h.g1.emit_plain (.ctxN s0.ctxs.length t cx) rfl)
  have e : (match (s0.emit (.ctxN s0.ctxs.length t cx)).active with
      | some a => State.updTask ({ (s0.emit (.ctxN s0.ctxs.length t cx)) with
          ctxs := (s0.emit (.ctxN s0.ctxs.length t cx)).ctxs ++
            [({ kind := cx, owner := (s0.emit (.ctxN s0.ctxs.length t cx)).active } : CtxSt)] } : State) a
          fun ts => { ts with ctxs := ts.ctxs ++ [s0.ctxs.length] }
      | none => ({ (s0.emit (.ctxN s0.ctxs.length t cx)) with
          ctxs := (s0.emit (.ctxN s0.ctxs.length t cx)).ctxs ++
            [({ kind := cx, owner := (s0.emit (.ctxN s0.ctxs.length t cx)).active } : CtxSt)] } : State)) =
      enterSt s0 t cx := by
    show (match s0.active with | some a => _ | none => _) = _
    rw [ha]
    rfl
  simp only []
  rw [e]
  exact R_ite h3 (R_ctxResumeOne _ h3)


theorem named_updTask_keep (s : State) (t : Nat) (g : TaskSt → TaskSt) (ho : ∀ ts, (g ts).own = ts.own)
    (hi : ∀ ts, (g ts).inh = ts.inh) (x y : Nat) : Named (s.updTask t g) x y ↔ Named s x y := by
  unfold Named
  rw [task_updTask]
  split
  · next hc => rw [ho, hi, hc.1]
  · rfl

theorem named_updTask_own (s : State) (t : Nat) (g : TaskSt → TaskSt) (f : Nat) (ht : t < s.futs.length)
    (ho : ∀ ts, (g ts).own = ts.own ++ [f]) : Named (s.updTask t g) t f := by
  unfold Named
  rw [P2.task_updTask_self s t g ht, ho]
  exact .inl (by simp)

theorem R_wc1 {s : State} (cx : CtxKind) (h : RA c s) : RA c (P3.wc1 s cx) := by
  unfold P3.wc1
  split
  · exact R_svTouch _ h
  · exact h

theorem wc1_active (s : State) (cx : CtxKind) : (P3.wc1 s cx).active = s.active := by
  unfold P3.wc1; split
  · exact P5.svTouch_active _ _
  · rfl

theorem wc1_futs (s : State) (cx : CtxKind) : (P3.wc1 s cx).futs = s.futs := by
  unfold P3.wc1; split
  · exact P5.svTouch_futs _ _
  · rfl

theorem wc1_ctxs (s : State) (cx : CtxKind) : (P3.wc1 s cx).ctxs = s.ctxs := by
  unfold P3.wc1; split
  · exact P5.svTouch_ctxs _ _
  · rfl

theorem R_genStep {s : State} (t : Nat) (old : Option Nat) (h : RA c s) (ht : t < s.futs.length)
    (ha : s.active = some t)
    (hready : (s.task t).pending = true → (s.task t).started = true → ∀ d ∈ (s.task t).deps, s.computed d = true)
    (hws : P10.wsTS (s.task t) = true) (hprev : ∀ d ∈ (s.task t).prevY.leaves, Named s t d)
    (hread : ∀ var k, (s.task t).pending = false → (s.task t).body = .read var k →
      checkRead c (W s) (.read t var (.a (s.svGet var))) = none) :
    RA c (s.genStep t old) := by
  have hnamed : ∀ y, (y ∈ (s.task t).own ∨ y ∈ (s.task t).inh) → ∃ u, Named s u y := fun y hy => ⟨t, hy⟩
  have hkeepDeps : ∀ d ∈ (if s.cfg.keepDeps then (s.task t).deps else []), d ∈ (s.task t).deps := by
    intro d hd; split at hd
    · exact hd
    · cases hd
  unfold State.genStep
  simp only []
  split
  · rename_i hp
    split
    · -- start
      refine ⟨G1.run _ _ _ _ _ (fun _ => rfl) (fun _ => rfl) (fun _ => rfl) (by intro d hd; cases hd) h.g1, ?_⟩
      exact G2.emit_plain _ rfl (h.g2.updTask_keep _ _ (fun _ => rfl))
    · rename_i hs
      have hs' : (s.task t).started = true := by simpa using hs
      have hrd := hready hp hs'
      have key : ∀ (g : TaskSt → TaskSt) (i : Nat) (dc : Bool) (r : Recv), (∀ ts, (g ts).pending = false) →
          (∀ ts, (g ts).own = ts.own) → (∀ ts, (g ts).inh = ts.inh) → (∀ ts, (g ts).ctxs = ts.ctxs) →
          (∀ d ∈ (g (s.task t)).deps, d ∈ (s.task t).deps) → RA c ((s.updTask t g).emit (.run t i dc r)) := by
        intro g i dc r h1 h2 h3 h4 h5
        exact ⟨G1.run _ _ _ _ g h1 h2 h3 (fun d hd => hrd d (h5 d hd)) h.g1,
          G2.emit_plain _ rfl (h.g2.updTask_keep _ _ h4)⟩
      split
      · exact key _ _ _ _ (fun _ => rfl) (fun _ => rfl) (fun _ => rfl) (fun _ => rfl) hkeepDeps
      · exact key _ _ _ _ (fun _ => rfl) (fun _ => rfl) (fun _ => rfl) (fun _ => rfl) hkeepDeps
      · exact key _ _ _ _ (fun _ => rfl) (fun _ => rfl) (fun _ => rfl) (fun _ => rfl) hkeepDeps
      · exact key _ _ _ _ (fun _ => rfl) (fun _ => rfl) (fun _ => rfl) (fun _ => rfl) hkeepDeps
      · exact R_fail _ h
  · rename_i hp
    have hnp : (s.task t).pending = false := by simpa using hp
    split
    · exact R_finishTask _ _ _ h
    · exact R_finishTask _ _ _ h
    · exact R_finishTask _ _ _ h
    · exact R_finishTask _ _ _ h
    · -- spawn
      rename_i child pass k hb
      have hw := P10.ws_body _ hws hb (by intro _ _ _ h; cases h)
      simp only [P10.wsB, Bool.and_eq_true] at hw
      have h1 : RA c (s.newTask child (pass.map (s.task t).resolve)).1 :=
        R_newTask _ _ (fun y hy => hnamed y (P10.mem_map_resolve _ _ hw.1.1 y hy)) h
      exact R_updTask_own _ _ _ (fun _ => rfl) (fun _ => rfl) (fun _ => rfl) (fun _ => rfl) (fun _ => rfl)
        (fresh_alloc h.g1 _ _) h1
    · -- item
      rename_i kind payload mode k heq
      have h0 : RA c (match s.curBatch? kind with
          | some _ => s
          | none => { s with batches := s.batches ++ [({ kind := kind, seq := 0 } : Batch)] }) := by
        split
        · exact h
        · exact R_of_eq (s := s) rfl rfl rfl h
      have hl0 : (match s.curBatch? kind with
          | some _ => s
          | none => { s with batches := s.batches ++ [({ kind := kind, seq := 0 } : Batch)] }).futs.length =
          s.futs.length := by split <;> rfl
      split
      · exact R_fail _ h0
      · refine R_updTask_own _ _ _ (fun _ => rfl) (fun _ => rfl) (fun _ => rfl) (fun _ => rfl) (fun _ => rfl) ?_ ?_
        · exact fresh_alloc h0.g1 _ _
        · refine R_updBatch _ _ _ ?_
          exact R_alloc _ _ rfl rfl (fun _ hy => by cases hy) rfl h0
    · -- const
      refine R_updTask_own _ _ _ (fun _ => rfl) (fun _ => rfl) (fun _ => rfl) (fun _ => rfl) (fun _ => rfl)
        (fresh_alloc h.g1 _ _) ?_
      exact R_alloc _ _ rfl rfl (fun _ hy => by cases hy) rfl h
    · -- errfut
      refine R_updTask_own _ _ _ (fun _ => rfl) (fun _ => rfl) (fun _ => rfl) (fun _ => rfl) (fun _ => rfl)
        (fresh_alloc h.g1 _ _) ?_
      exact R_alloc _ _ rfl rfl (fun _ hy => by cases hy) rfl h
    · -- lazy
      refine R_updTask_own _ _ _ (fun _ => rfl) (fun _ => rfl) (fun _ => rfl) (fun _ => rfl) (fun _ => rfl)
        (fresh_alloc h.g1 _ _) ?_
      exact R_alloc _ _ rfl rfl (fun _ hy => by cases hy) rfl h
    · -- yld
      rename_i y k hh hb
      have hw := P10.ws_body _ hws hb (by intro _ _ _ h; cases h)
      simp only [P10.wsB, Bool.and_eq_true] at hw
      have hleaf : ∀ d ∈ (y.mapLeaves (s.task t).resolve).leaves, Named s t d := by
        intro d hd
        rw [P10.leaves_mapLeaves] at hd
        exact P10.mem_map_resolve _ _ hw.1.1 d hd
      have key : RA c ((s.emit (.yield t (s.task t).resumes (y.mapLeaves (s.task t).resolve))).updTask t fun ts =>
          { ts with pending := true, lastY := y.mapLeaves (s.task t).resolve,
                    prevY := y.mapLeaves (s.task t).resolve, prevYRef := y,
                    deps := (if s.cfg.keepDeps then (s.task t).deps else []) ++
                      extractFutures (y.mapLeaves (s.task t).resolve) }) := by
        refine ⟨G1.yield _ _ _ _ (fun _ => rfl) (fun _ => rfl) (fun _ => rfl) ?_ hnp hleaf h.g1, ?_⟩
        · intro d hd
          rcases List.mem_append.1 hd with hd | hd
          · exact .inl (hkeepDeps d hd)
          · exact .inr ((P2.mem_extractFutures _ _).1 hd)
        · exact G2.updTask_keep _ _ (fun _ => rfl) (h.g2.emit_plain _ rfl)
      exact R_ite key (R_leaveGen _ _ key)
    · -- reyld
      rename_i k hh hb
      have key : RA c ((s.emit (.yield t (s.task t).resumes (s.task t).prevY)).updTask t fun ts =>
          { ts with pending := true, lastY := (s.task t).prevY,
                    deps := (if s.cfg.keepDeps then (s.task t).deps else []) ++ extractFutures (s.task t).prevY }) := by
        refine ⟨G1.yield _ _ _ _ (fun _ => rfl) (fun _ => rfl) (fun _ => rfl) ?_ hnp hprev h.g1, ?_⟩
        · intro d hd
          rcases List.mem_append.1 hd with hd | hd
          · exact .inl (hkeepDeps d hd)
          · exact .inr ((P2.mem_extractFutures _ _).1 hd)
        · exact G2.updTask_keep _ _ (fun _ => rfl) (h.g2.emit_plain _ rfl)
      exact R_ite key (R_leaveGen _ _ key)
    · -- sync
      rename_i child pass k hh hb
      have hw := P10.ws_body _ hws hb (by intro _ _ _ h; cases h)
      simp only [P10.wsB, Bool.and_eq_true] at hw
      have h1 : RA c (s.newTask child (pass.map (s.task t).resolve)).1 :=
        R_newTask _ _ (fun y hy => hnamed y (P10.mem_map_resolve _ _ hw.1.1.1 y hy)) h
      have h2 : RA c ((s.newTask child (pass.map (s.task t).resolve)).1.updTask t fun ts =>
          { ts with own := ts.own ++ [(s.newTask child (pass.map (s.task t).resolve)).2],
                    body := .syncret (s.newTask child (pass.map (s.task t).resolve)).2 k hh }) :=
        R_updTask_own _ _ _ (fun _ => rfl) (fun _ => rfl) (fun _ => rfl) (fun _ => rfl) (fun _ => rfl)
          (fresh_alloc h.g1 _ _) h1
      apply R_mk
      refine ⟨G1.emit_syncE _ _ ?_ h2.g1, h2.g2.emit_plain _ rfl⟩
      exact named_updTask_own _ _ _ _ (by simp [State.newTask]; omega) (fun _ => rfl)
    · -- syncfut
      rename_i r k hh heq
      have hw := P10.ws_body _ hws heq (by intro _ _ _ h; cases h)
      simp only [P10.wsB, Bool.and_eq_true] at hw
      have hn : Named s t ((s.task t).resolve r) := P10.resolve_mem _ _ hw.1.1
      have h1 : RA c ((s.updTask t fun ts => { ts with body := .syncret ((s.task t).resolve r) k hh }).emit
          (.syncE t ((s.task t).resolve r))) := by
        have h0 : RA c (s.updTask t fun ts => { ts with body := .syncret ((s.task t).resolve r) k hh }) :=
          R_updTask _ _ (fun _ => ⟨rfl, rfl, rfl, rfl⟩) (fun _ => rfl) h
        refine ⟨G1.emit_syncE _ _ ?_ h0.g1, h0.g2.emit_plain _ rfl⟩
        exact (named_updTask_keep s t (fun ts => { ts with body := .syncret ((s.task t).resolve r) k hh })
          (fun _ => rfl) (fun _ => rfl) _ _).2 hn
      split
      · exact h1
      · split
        · apply R_mk; exact h1
        · split
          · split
            · exact h1
            · exact R_flushBatch _ _ h1
          · exact h1
        · exact R_complete _ _ h1
        · exact h1
    · -- syncret
      split
      · exact R_fail _ h
      · refine ⟨G1.emit_syncX _ _ _ ?_, G2.emit_plain _ rfl ?_⟩
        · refine G1.updTask_keep _ _ (fun _ => ⟨rfl, rfl, rfl, rfl⟩) ?_
          exact G1.of_eq (s := s) rfl rfl h.g1
        · refine G2.updTask_keep _ _ (fun _ => rfl) ?_
          exact G2.of_eq (s := s) rfl rfl rfl h.g2
      · refine ⟨G1.emit_syncX _ _ _ ?_, G2.emit_plain _ rfl ?_⟩
        · refine G1.updTask_keep _ _ (fun _ => ⟨rfl, rfl, rfl, rfl⟩) ?_
          exact G1.of_eq (s := s) rfl rfl h.g1
        · refine G2.updTask_keep _ _ (fun _ => rfl) ?_
          exact G2.of_eq (s := s) rfl rfl rfl h.g2
    · -- withCtx
      rename_i cx bd k heq
      refine R_updTask _ _ (fun _ => ⟨rfl, rfl, rfl, rfl⟩) (fun _ => rfl) ?_
      have := R_withCtxTail (c := c) (s0 := P3.wc1 s cx) t cx (by rw [wc1_active]; exact ha)
        (by rw [wc1_futs]; exact ht) (R_wc1 cx h)
      rw [wc1_ctxs] at this
      exact this
    · -- endwith
      split
      · exact R_finishTask _ _ _ h
      · exact R_updTask _ _ (fun _ => ⟨rfl, rfl, rfl, rfl⟩) (fun _ => rfl) (R_ctxExit _ h)
    · -- read
      rename_i var k heq
      refine R_updTask _ _ (fun _ => ⟨rfl, rfl, rfl, rfl⟩) (fun _ => rfl) ?_
      have h0 := R_svTouch (c := c) var h
      refine ⟨G1.emit_read _ _ _ ?_ h0.g1, h0.g2.emit_plain _ rfl⟩
      have e1 : W (s.svTouch var) = W s := by simp only [W, P5.svTouch_trace]
      rw [e1, P7.svGet_svTouch]
      exact hread var k hnp heq
    · -- active
      exact R_updTask _ _ (fun _ => ⟨rfl, rfl, rfl, rfl⟩) (fun _ => rfl) (R_emit _ rfl rfl h)

/-! ### the transition function -/

theorem R_finishTop {s : State} (f : Nat) (h : RA c s) : RA c (s.finishTop f) := by
  unfold State.finishTop
  simp only []
  refine R_emit _ rfl rfl ?_
  refine R_emit _ rfl rfl ?_
  refine R_emit _ rfl rfl ?_
  exact R_of_eq (s := s) rfl rfl rfl h

theorem R_step {s : State} (h : RA c s) (hb : ∀ u y, Named s u y → y < s.futs.length)
    (hgen : ∀ t old rest, s.ctl = .gen t old :: rest →
      t < s.futs.length ∧ s.active = some t ∧
      ((s.task t).pending = true → (s.task t).started = true → ∀ d ∈ (s.task t).deps, s.computed d = true) ∧
      P10.wsTS (s.task t) = true ∧ (∀ d ∈ (s.task t).prevY.leaves, Named s t d) ∧
      (∀ var k, (s.task t).pending = false → (s.task t).body = .read var k →
        checkRead c (W s) (.read t var (.a (s.svGet var))) = none)) : RA c (step s) := by
  unfold step
  split
  · exact h
  · split
    · split
      · exact R_finishTop _ h
      · split
        · exact h
        · simp only []
          apply R_mk
          unfold State.newTask
          refine ⟨?_, ?_⟩
          · exact G1.root _ _ _ _ rfl rfl rfl hb (G1.of_eq (s := s) rfl rfl h.g1)
          · refine G2.alloc _ _ rfl ?_
            exact G2.emit_plain _ rfl (G2.of_eq (s := s) rfl rfl rfl h.g2)
    · split
      · exact R_of_eq (s := s) rfl rfl rfl h
      · split
        · exact R_of_eq (s := s) rfl rfl rfl h
        · exact R_of_eq (s := s) rfl rfl rfl h
    · split
      · exact R_of_eq (s := s) rfl rfl rfl h
      · split
        · exact R_executeIter h
        · split
          · exact R_of_eq (s := s) rfl rfl rfl h
          · exact R_schedulerFlush _ h
    · rename_i t old rest hctl
      obtain ⟨h1, h2, h3, h4, h5, h6⟩ := hgen t old rest hctl
      exact R_ite (R_fail _ h) (R_genStep t old h h1 h2 h3 h4 h5 h6)

end AsynqModel.Core.P17
