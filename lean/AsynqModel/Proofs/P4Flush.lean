import AsynqModel.Proofs.P4Quiet
/-!
  P4: completing a future with its denotation, and the flush of a batch, are `Quiet` completion moves.
-/
namespace AsynqModel.Core.P4
open AsynqModel.Core

theorem lt_of_kind (s : State) (f : Nat) (h : (s.fut f).kind ≠ .const) : f < s.futs.length := by
  rcases Nat.lt_or_ge f s.futs.length with h' | h'
  · exact h'
  · rw [fut_default s f h'] at h; exact absurd rfl h

theorem quiet_complete (s : State) (f : Nat) (o : Outcome) (hn : (s.fut f).out = none) (hlt : f < s.futs.length)
    (ho : o = (s.fut f).den) (hnt : (s.fut f).kind ≠ .task) : Quiet s (s.complete f o) := by
  refine ⟨⟨rfl, by simp, fun g => ?_, fun b hb i hi => ⟨b, hb, rfl, hi⟩⟩, rfl, rfl, rfl, rfl, rfl, rfl, rfl, rfl,
    ⟨[.done f o], rfl, ?_⟩, ?_⟩
  · rw [fut_complete]; split
    · rename_i h; obtain ⟨rfl, _⟩ := h
      cases hk : s.cfg.keepDeps <;>
        exact ⟨rfl, rfl, rfl, rfl, rfl, rfl, rfl, rfl, rfl, .inr ⟨hn, by rw [ho], rfl, rfl, .inr rfl⟩⟩
    · exact CompF.refl _
  · intro e he
    simp only [List.mem_singleton] at he
    subst he
    exact ⟨hlt, ho.symm⟩
  · intro g hk
    rw [fut_complete]; split
    · rename_i h; obtain ⟨rfl, _⟩ := h; exact absurd hk hnt
    · rfl

theorem quiet_switchActive (s : State) (kind seq : Nat) : Quiet s (s.switchActive kind seq) := by
  unfold State.switchActive
  split
  · split
    · refine ⟨⟨rfl, rfl, fun _ => CompF.refl _, ?_⟩, rfl, rfl, rfl, rfl, rfl, rfl, rfl, rfl, ⟨[], rfl, nofun⟩, fun _ _ => rfl⟩
      intro b' hb' i hi
      simp only [List.mem_append, List.mem_singleton] at hb'
      rcases hb' with hb' | hb'
      · exact ⟨b', hb', rfl, hi⟩
      · subst hb'; simp at hi
    · exact Quiet.refl s
  · exact Quiet.refl s

theorem quiet_updBatch (s : State) (kind seq : Nat) (g : Batch → Batch) (hk : ∀ b, (g b).kind = b.kind)
    (hi : ∀ b, ∀ i ∈ (g b).items, i ∈ b.items) : Quiet s (s.updBatch kind seq g) := by
  refine ⟨⟨rfl, rfl, fun _ => CompF.refl _, ?_⟩, rfl, rfl, rfl, rfl, rfl, rfl, rfl, rfl, ⟨[], rfl, nofun⟩, fun _ _ => rfl⟩
  intro b' hb' i hi'
  simp only [State.updBatch, List.mem_map] at hb'
  obtain ⟨b, hb, rfl⟩ := hb'
  split at hi'
  · exact ⟨b, hb, by rw [if_pos ‹_›, hk], hi b i hi'⟩
  · exact ⟨b, hb, by rw [if_neg ‹_›], hi'⟩

/-- one item of the flush body -/
theorem quiet_flushOne (s : State) (h : FI s) (kind i : Nat) (hi : ∃ q p m, (s.fut i).kind = .item kind q p m) :
    Quiet s (if s.computed i then s else
      match (s.fut i).kind with
      | .item _ _ payload .ok => s.complete i (.ok (itemVal kind payload))
      | .item _ _ _ (.err e) => s.complete i (.err (.u e))
      | _ => s) := by
  obtain ⟨q, p, m, hk⟩ := hi
  have hlt : i < s.futs.length := lt_of_kind s i (by rw [hk]; nofun)
  have hd := h.itemDen i kind q p m hk
  split
  · exact Quiet.refl s
  · rename_i hc
    have hn : (s.fut i).out = none := by
      simpa [State.computed, State.out] using hc
    rw [hk]
    cases m with
    | ok => exact quiet_complete s i _ hn hlt (by rw [hd]; rfl) (by rw [hk]; nofun)
    | err e => exact quiet_complete s i _ hn hlt (by rw [hd]; rfl) (by rw [hk]; nofun)
    | unset => exact Quiet.refl s

theorem quiet_flushItems (s : State) (h : FI s) (kind : Nat) (l : List Nat)
    (hl : ∀ i ∈ l, ∃ q p m, (s.fut i).kind = .item kind q p m) :
    Quiet s (s.flushItems kind l) ∧
    ∀ i ∈ l, ((s.flushItems kind l).fut i).out = none → ∃ q p, (s.fut i).kind = .item kind q p .unset := by
  induction l generalizing s with
  | nil => exact ⟨Quiet.refl s, nofun⟩
  | cons i is ih =>
    unfold State.flushItems
    simp only
    have q1 := quiet_flushOne s h kind i (hl i (List.mem_cons_self ..))
    generalize hs1 : (if s.computed i then s else
      match (s.fut i).kind with
      | .item _ _ payload .ok => s.complete i (.ok (itemVal kind payload))
      | .item _ _ _ (.err e) => s.complete i (.err (.u e))
      | _ => s) = s1 at q1
    have hl1 : ∀ j ∈ is, ∃ q p m, (s1.fut j).kind = .item kind q p m := by
      intro j hj
      obtain ⟨q, p, m, hq⟩ := hl j (List.mem_cons_of_mem _ hj)
      exact ⟨q, p, m, by rw [(q1.comp.fut j).kind, hq]⟩
    obtain ⟨q2, post⟩ := ih s1 (h.comp q1.comp) hl1
    refine ⟨q1.trans q2, ?_⟩
    intro j hj hnone
    rcases List.mem_cons.1 hj with rfl | hj
    · -- the head item: if it is still uncomputed at the end it was uncomputed after its own step
      have hn1 : (s1.fut j).out = none := (q2.comp.out_none hnone).1
      obtain ⟨q, p, m, hk⟩ := hl j (List.mem_cons_self ..)
      cases m with
      | unset => exact ⟨q, p, hk⟩
      | ok =>
        exfalso
        have hlt : j < s.futs.length := lt_of_kind s j (by rw [hk]; nofun)
        subst hs1
        split at hn1
        · rename_i hc; simp [State.computed, State.out, hn1] at hc
        · rw [hk] at hn1; simp [fut_complete, hlt] at hn1
      | err e =>
        exfalso
        have hlt : j < s.futs.length := lt_of_kind s j (by rw [hk]; nofun)
        subst hs1
        split at hn1
        · rename_i hc; simp [State.computed, State.out, hn1] at hc
        · rw [hk] at hn1; simp [fut_complete, hlt] at hn1
    · obtain ⟨q, p, hq⟩ := post j hj hnone
      exact ⟨q, p, by rw [← (q1.comp.fut j).kind, hq]⟩

theorem quiet_finishItems (s : State) (h : FI s) (kind : Nat) (l : List Nat)
    (hl : ∀ i ∈ l, (s.fut i).out = none → ∃ q p, (s.fut i).kind = .item kind q p .unset) :
    Quiet s (s.finishItems (if (s.cfg.kind kind).raises then .flushraise kind else .notset) l) := by
  induction l generalizing s with
  | nil => exact Quiet.refl s
  | cons i is ih =>
    unfold State.finishItems
    have q1 : Quiet s (if s.computed i then s else
        s.complete i (.err (if (s.cfg.kind kind).raises then .flushraise kind else .notset))) := by
      split
      · exact Quiet.refl s
      · rename_i hc
        have hn : (s.fut i).out = none := by simpa [State.computed, State.out] using hc
        obtain ⟨q, p, hk⟩ := hl i (List.mem_cons_self ..) hn
        have hlt : i < s.futs.length := lt_of_kind s i (by rw [hk]; nofun)
        refine quiet_complete s i _ hn hlt ?_ (by rw [hk]; nofun)
        rw [h.itemDen i kind q p .unset hk]
        simp only [itemOutcome]
        split <;> rfl
    generalize (if s.computed i then s else
        s.complete i (.err (if (s.cfg.kind kind).raises then .flushraise kind else .notset))) = s1 at q1
    have hl1 : ∀ j ∈ is, (s1.fut j).out = none → ∃ q p, (s1.fut j).kind = .item kind q p .unset := by
      intro j hj hn
      obtain ⟨q, p, hq⟩ := hl j (List.mem_cons_of_mem _ hj) (q1.comp.out_none hn).1
      exact ⟨q, p, by rw [(q1.comp.fut j).kind, hq]⟩
    have := ih s1 (h.comp q1.comp) hl1
    rw [q1.comp.cfg] at this
    exact q1.trans this

theorem batch?_some {s : State} {kind seq : Nat} {b : Batch} (h : s.batch? kind seq = some b) :
    b ∈ s.batches ∧ b.kind = kind ∧ b.seq = seq := by
  unfold State.batch? at h
  have h1 := List.mem_of_find?_eq_some h
  have h2 := List.find?_some h
  simp only [Bool.and_eq_true, beq_iff_eq] at h2
  exact ⟨h1, h2.1, h2.2⟩

theorem quiet_flushBatch (s : State) (h : FI s) (kind seq : Nat) (b : Batch) (hb : s.batch? kind seq = some b) :
    Quiet s (s.flushBatch kind seq) := by
  unfold State.flushBatch
  rw [hb]
  simp only
  obtain ⟨hmem, hkind, _⟩ := batch?_some hb
  have q1 : Quiet s ((s.switchActive kind seq).emit (.flushI kind seq b.items)) :=
    (quiet_switchActive s kind seq).trans (still_emit _ (.flushI kind seq b.items) trivial).1
  generalize (s.switchActive kind seq).emit (.flushI kind seq b.items) = s1 at q1
  have h1 := h.comp q1.comp
  have hl1 : ∀ i ∈ b.items, ∃ q p m, (s1.fut i).kind = .item kind q p m := by
    intro i hi
    obtain ⟨q, p, m, hq⟩ := h.batchItems b hmem i hi
    exact ⟨q, p, m, by rw [(q1.comp.fut i).kind, hq, hkind]⟩
  obtain ⟨q2, post⟩ := quiet_flushItems s1 h1 kind b.items hl1
  generalize s1.flushItems kind b.items = s2 at q2 post
  have h2 := h1.comp q2.comp
  have hl2 : ∀ i ∈ b.items, (s2.fut i).out = none → ∃ q p, (s2.fut i).kind = .item kind q p .unset := by
    intro i hi hn
    obtain ⟨q, p, hq⟩ := post i hi hn
    exact ⟨q, p, by rw [(q2.comp.fut i).kind, hq]⟩
  have q3 := quiet_finishItems s2 h2 kind b.items hl2
  generalize s2.finishItems (if (s2.cfg.kind kind).raises then .flushraise kind else .notset) b.items = s3 at q3
  refine q1.trans (q2.trans (q3.trans ?_))
  refine (still_emit s3 (.bdone kind seq (!(s2.cfg.kind kind).raises)) trivial).1.trans ?_
  apply quiet_updBatch
  · intro b; rfl
  · intro b i hi
    simp only at hi
    split at hi
    · exact hi
    · simp at hi

end AsynqModel.Core.P4
