import AsynqModel.Proofs.P22GenF
/-!
# P22, part 13: `endwith` and the end of a task
-/
namespace AsynqModel.Core.P22
open AsynqModel.Core AsynqModel.Core.P22.SeqSV

variable {cfg : Cfg} {tops : List (Conv × Body)} {s : State} {g : Ghost} {t : Nat} {old : Option Nat} {rest' : List Ctl}

/-- the end of a with-block -/
theorem sim_endwith (C : GC cfg tops s g t old rest') (hst : (s.genStep t old).stuck = none)
    (hp : (s.task t).pending = false) (hb : (s.task t).body = .endwith) (cid : Nat) (k : Body) (cs : List (Nat × Body))
    (hcs : (s.task t).conts = (cid, k) :: cs) : Sim cfg tops (s.genStep t old) g := by
  have e : s.genStep t old = (s.ctxExit cid).updTask t fun ts => { ts with conts := cs, body := k } := by
    rw [P4.genStep_endwith s t old hp hb, hcs]
  rw [e]
  have hsm := sm_ctxExit s cid
  have hstd := C.started_of_running hp
  have hnb := C.sim.nsB t C.kt
  have hk : ns k = true := hnb.2 (cid, k) (by rw [hcs]; exact List.mem_cons_self)
  have hksy : ∀ f k' c, k ≠ .syncret f k' c := by
    have hws := C.ws (by rw [hb]; intro _ _ _; nofun)
    rw [hb, hcs] at hws
    simp only [P4.ws, P4.contsK] at hws
    exact P4.ws_not_syncret hws
  have hcore : P4.coreA ((s.ctxExit cid).task t) = P4.coreA (s.task t) := (hsm.task t C.kt).2
  obtain ⟨h1, h2, h3, h4, h5, h6, h7, h8, h9, h10, h11, h12, _⟩ := P4.coreA_fields hcore
  have hlt : t < (s.ctxExit cid).futs.length := by rw [hsm.len]; exact C.lt
  obtain ⟨r, hr⟩ : ∃ r : State, r = (s.ctxExit cid).updTask t fun ts => { ts with conts := cs, body := k } := ⟨_, rfl⟩
  rw [← hr]
  have ht : r.task t = { (s.ctxExit cid).task t with conts := cs, body := k } := by
    rw [hr]; exact task_updTask_self' _ t _ hlt
  have tb : (r.task t).body = k := by rw [ht]
  have tc : (r.task t).conts = cs := by rw [ht]
  have te : (r.task t).env = (s.task t).env := by rw [ht]; exact h3
  have to' : (r.task t).own = (s.task t).own := by rw [ht]; exact h4
  have ti : (r.task t).inh = (s.task t).inh := by rw [ht]; exact h5
  have tca : (r.task t).caught = (s.task t).caught := by rw [ht]; exact h6
  have tp : (r.task t).pending = false := by rw [ht]; exact h7.trans hp
  have tst : (r.task t).started = true := by rw [ht]; exact h8.trans hstd
  have tpr : (r.task t).prevYRef = (s.task t).prevYRef := by rw [ht]; exact h11
  have tpy : (r.task t).prevY = (s.task t).prevY := by rw [ht]; exact h10
  have td : (r.task t).deps = (s.task t).deps := by rw [ht]; exact h12
  have L : Lm s r t := by rw [hr]; exact (Lm.of_sm hsm t).trans (lm_updTask _ t _)
  have hlen : r.futs.length = s.futs.length := by rw [hr]; simp [hsm.len]
  have hcr : r.computed t = false := by
    rw [hr, P2.computed_updTask, computed_of_out (hsm.task t C.kt).1]; exact C.nct
  have hmr : mreads t r.trace = mreads t s.trace := by
    have : r.trace = (s.ctxExit cid).trace := by rw [hr]; rfl
    rw [this]; exact sm_mreads hsm t
  have hcb : ∀ x ∈ cs.map (·.1), x < s.ctxs.length := by
    intro x hx
    apply C.bnd.conts t x
    unfold cids; rw [hcs]; simp only [List.map_cons]; exact List.mem_cons_of_mem _ hx
  refine sim_frames C hst L hlen to' ti tst hmr ?_ ?_ ?_ tpy ?_
  · rw [tb, tc]
    refine nsBC_plain hk hksy ?_
    intro x hx
    exact hnb.2 x (by rw [hcs]; exact List.mem_cons_of_mem _ hx)
  · intro f k' h' hb' _; rw [tb] at hb'; exact hksy f k' h' hb'
  · intro d hd; rw [td] at hd; exact hd
  · intro E
    rw [rest_before C.sim C.kt C.nct, rest_after C.sim C.bnd L hlen C.called C.kt to' ti hcr]
    have hcid : cids (r.task t) = cs.map (·.1) := by unfold cids; rw [tc]
    rw [hcid, tb, tc, te, tca, tpr, tp, envOf_lm L E hcb]
    simp only [hp, Bool.false_and]
    rw [headD_plain _ _ _ _ _ _ hksy, hb, headD_plain _ _ _ _ _ _ (by intro _ _ _; nofun), hcs]
    simp only [runBody, runFrames, List.nil_append]
    congr 1
    exact (runFrames_congr cfg E [] _ _ (fun x hx => ovOf_of_kindOf (L.kinds x (hcb x hx)))).symm

/-! ### the end of the task -/

theorem sm_exitFold' (x : State) (t : Nat) : Lm x (x.exitAll t) t := by
  unfold State.exitAll
  exact (Lm.of_sm (sm_exitFold x _) t).trans (lm_updTask _ t _)

/-- return / `result()` / an uncaught exception / falling off the end: the open with-blocks are left, the outcome is
    stored -/
theorem sim_finish (C : GC cfg tops s g t old rest') (hst : (s.genStep t old).stuck = none)
    (hp : (s.task t).pending = false) (o : Outcome)
    (hrest : ∀ E, rest cfg s g t E = []) (hnsy : ∀ f k h, (s.task t).body ≠ .syncret f k h) :
    Sim cfg tops (s.finishTask t old o) g := by
  have hstd := C.started_of_running hp
  have hnb := C.sim.nsB t C.kt
  have e : s.finishTask t old o =
      (((s.exitAll t).updTask t fun ts => { ts with pending := false }).complete t o).leaveGen t old := by
    unfold State.finishTask
    simp only [C.nct, Bool.false_eq_true, if_false]
  rw [e]
  -- the fold over the open with-blocks
  obtain ⟨s1, hs1⟩ : ∃ s1 : State, s1 = (s.task t).conts.foldl (fun s p => s.ctxExit p.1) s := ⟨_, rfl⟩
  have hsm : Sm s s1 := by rw [hs1]; exact sm_exitFold s _
  have hcore : P4.coreA (s1.task t) = P4.coreA (s.task t) := (hsm.task t C.kt).2
  obtain ⟨h1, h2, h3, h4, h5, h6, h7, h8, h9, h10, h11, h12, _⟩ := P4.coreA_fields hcore
  have hlt1 : t < s1.futs.length := by rw [hsm.len]; exact C.lt
  obtain ⟨s2, hs2⟩ : ∃ s2 : State, s2 = ((s1.updTask t fun ts => { ts with conts := [] }).updTask t
      fun ts => { ts with pending := false }) := ⟨_, rfl⟩
  have ht2 : s2.task t = { s1.task t with conts := [], pending := false } := by
    rw [hs2, task_updTask_self' _ t _ (by simp; exact hlt1), task_updTask_self' _ t _ hlt1]
  have hlt2 : t < s2.futs.length := by rw [hs2]; simp; exact hlt1
  obtain ⟨s3, hs3⟩ : ∃ s3 : State, s3 = s2.complete t o := ⟨_, rfl⟩
  obtain ⟨r, hr⟩ : ∃ r : State, r = s3.leaveGen t old := ⟨_, rfl⟩
  have hexit : s.exitAll t = s1.updTask t fun ts => { ts with conts := [] } := by rw [hs1]; rfl
  have hre : (((s.exitAll t).updTask t fun ts => { ts with pending := false }).complete t o).leaveGen t old = r := by
    rw [hr, hs3, hs2, hexit]
  rw [hre]
  have L : Lm s r t := by
    rw [hr, hs3, hs2]
    exact (((((Lm.of_sm hsm t).trans (lm_updTask _ t _)).trans (lm_updTask _ t _)).trans (lm_complete _ t o)).trans
      (lm_leaveGen _ t old))
  have hcoreR : P4.coreA (r.task t) = P4.coreA (s3.task t) := by rw [hr]; exact task_leaveGen s3 t old t
  obtain ⟨r1, r2, r3, r4, r5, r6, r7, r8, r9, r10, r11, r12, _⟩ := P4.coreA_fields hcoreR
  have hk3 : (s3.task t).body = (s.task t).body ∧ (s3.task t).conts = [] ∧ (s3.task t).own = (s.task t).own ∧
      (s3.task t).inh = (s.task t).inh ∧ (s3.task t).started = (s.task t).started ∧ (s3.task t).deps = [] ∧
      (s3.task t).prevY = (s.task t).prevY := by
    have hts : (s2.fut t).ts = s2.task t := rfl
    unfold State.task
    rw [hs3, P4.fut_complete]
    simp only [hlt2, and_self, if_true, hts, ht2]
    refine ⟨?_, ?_, ?_, ?_, ?_, trivial, ?_⟩ <;> split <;> first | exact h1 | exact h4 | exact h5 | exact h8 | exact h10 | rfl
  obtain ⟨k1, k2, k3, k4, k5, k6, k7⟩ := hk3
  have hcr : r.computed t = true := by
    rw [hr, computed_of_out (P4.core_leaveGen s3 t old t).2.1, hs3]
    simp [State.computed, State.out, P4.fut_complete, hlt2]
  have hlen : r.futs.length = s.futs.length := by
    rw [hr]; unfold State.leaveGen; simp [hs3, hs2, hsm.len]
  have hmr : mreads t r.trace = mreads t s.trace := by
    have h1' : r.trace = .done t o :: s1.trace := by rw [hr, hs3, hs2]; rfl
    rw [h1', mreads_cons_none rfl, sm_mreads hsm]
  refine sim_frames C hst L hlen (by rw [r4, k3]) (by rw [r5, k4]) (by rw [r8, k5]; exact hstd) hmr ?_ ?_ ?_
    (by rw [r10, k7]) ?_
  · rw [r1, r2, k1, k2]
    exact nsBC_plain (nsBC_body hnb hnsy) hnsy (by intro x hx; cases hx)
  · intro f k h _ hc; rw [hcr] at hc; cases hc
  · intro d hd; rw [r12, k6] at hd; cases hd
  · intro E
    rw [hrest E]
    unfold rest
    rw [hcr]; rfl

end AsynqModel.Core.P22
