import AsynqModel.Proofs.P23Stale
/-
  P23 (property C08), part 3: the runs of well-scoped programs without NonAsyncContext (`ReachWN`), the invariant
  `GoodS` on their non-stuck states, and `liveOK` of their traces (stuck states included: a stuck state keeps the trace
  of the last step).
-/
namespace AsynqModel.Core.P23
open AsynqModel.Core AsynqModel.Core.P6 AsynqModel.Core.P6T AsynqModel.Core.P20

/-- the states of runs whose top-level computations are well-scoped (`P10.WellScoped`, harness/coregen.py
    `well_scoped`) and create no NonAsyncContext (static check `Spec.bodyHasNonAsync`) -/
inductive ReachWN : State → Prop
  | init (cfg : Cfg) (tops : List (Conv × Body)) (choices : List (Nat × Nat))
      (h : ∀ p ∈ tops, Spec.bodyHasNonAsync p.2 = false ∧ P10.WellScoped p.2 0 0 = true) :
      ReachWN (initState cfg tops choices)
  | step {s : State} : ReachWN s → ReachWN (step s)

theorem ReachWN.reach {s : State} (h : ReachWN s) : Reach s := by
  induction h with
  | init cfg tops choices _ => exact Reach.init cfg tops choices
  | step _ ih => exact Reach.step ih

theorem reachWN_runFuel (cfg : Cfg) (tops : List (Conv × Body)) (choices : List (Nat × Nat))
    (h : ∀ p ∈ tops, Spec.bodyHasNonAsync p.2 = false ∧ P10.WellScoped p.2 0 0 = true) (n : Nat) :
    ReachWN (runFuel n (initState cfg tops choices)) := by
  suffices hh : ∀ s, ReachWN s → ReachWN (runFuel n s) from hh _ (ReachWN.init cfg tops choices h)
  induction n with
  | zero => intro s h; exact h
  | succ n ih =>
    intro s h
    unfold runFuel
    split
    · exact h
    · exact ih _ (ReachWN.step h)

/-- the invariant of the run, and the property of its trace -/
theorem goodS_reach {s : State} (h : ReachWN s) (hg : s.guardFired = false) :
    (s.stuck = none → GoodS s) ∧ P13.liveOK s.trace = true := by
  induction h with
  | init cfg tops choices h =>
    exact ⟨fun _ => goodS_init cfg tops choices (fun p hp => (h p hp).2) (fun p hp => (h p hp).1), rfl⟩
  | @step s hr ih =>
    have hg0 := P3.guard_mono s hg
    obtain ⟨ih1, ih2⟩ := ih hg0
    cases hs : s.stuck with
    | some m =>
      rw [P1.step_stuck s m hs]
      exact ⟨fun h' => (by rw [hs] at h'; cases h'), ih2⟩
    | none =>
      have hG := ih1 hs
      refine ⟨fun hst => goodS_step hG hst hg, ?_⟩
      rw [P13.liveOK_iff] at ih2 ⊢
      intro same n nb live a hm
      rcases P13.sched_of_step s hm with h1 | ⟨hctl, _, hl⟩
      · exact ih2 same n nb live a h1
      · rw [hl, no_stale hG hctl]
        rfl

end AsynqModel.Core.P23
