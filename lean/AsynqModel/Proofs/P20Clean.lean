import AsynqModel.Proofs.P20SS
/-
  P20 (termination with synchronous re-entry), part 5: every scheduler-side step that is not a scheduler flush
  preserves `Clean` (`clean_step`).
-/
namespace AsynqModel.Core.P20
open AsynqModel.Core AsynqModel.Core.P6 AsynqModel.Core.P6T

theorem ss_views {s r : State} (hv : ∀ f, view r f = view s f) (hb : r.batches = s.batches)
    (hsb : ∀ c ∈ s.sbatches, c ∈ r.sbatches) {f : Nat} (h : SS s f) : SS r f :=
  SS.mono (fun _ => False) (fun g hg => by rw [computed_of_view (hv g)]; exact hg) hb hsb (fun _ hf => hf.elim)
    (fun g _ => by rw [hv g]; exact ⟨rfl, rfl, rfl⟩) h

theorem flagged_of_view {s r : State} {x : Nat} (e : view r x = view s x) (h : Flagged r x) : Flagged s x := by
  unfold Flagged at h ⊢; rw [e] at h; exact h

/-- nothing the pass looks at changes -/
theorem cleanL_same {s r : State} {root base : Nat} (h : CleanL s root base) (hst : r.stack = s.stack)
    (hv : ∀ f, view r f = view s f) (hset : ∀ f, SS s f → SS r f) : CleanL r root base := by
  refine ⟨?_, ?_⟩
  · intro above x below hs hb hx d hd hcd
    rw [hst] at hs
    rw [hv x] at hd
    rw [computed_of_view (hv d)] at hcd
    rcases h.dfs above x below hs hb (flagged_of_view (hv x) hx) d hd hcd with h1 | h1
    · exact Or.inl (hset d h1)
    · exact Or.inr h1
  · rcases h.root with ⟨pre, post, h1, h2⟩ | h1
    · exact Or.inl ⟨pre, post, by rw [hst]; exact h1, h2⟩
    · exact Or.inr (hset root h1)

theorem clean_of_noLoop {r : State} (h : ∀ root base rest, r.ctl ≠ .waitLoop root base :: rest) : Clean r :=
  fun root base rest hc => absurd hc (h root base rest)

theorem noLoop_of_onGen {l : List Ctl} (h : P10.onGen l) : ∀ root base rest, l ≠ .waitLoop root base :: rest := by
  intro root base rest e
  rcases h with rfl | ⟨t, o, r', rfl⟩ <;> cases e

/-- `_execute(root)` starts: the pass is clean (the root is not a flagged task) -/
theorem cleanL_enter {s r : State} (hC : P10.CInv s) (hH : P10.HInv s) {root : Nat} {rest : List Ctl}
    (hctl : s.ctl = .waitEnter root :: rest) (hst : r.stack = root :: s.stack) (hv : ∀ f, view r f = view s f) :
    CleanL r root s.stack.length := by
  refine ⟨?_, Or.inl ⟨[], s.stack, hst, rfl⟩⟩
  intro above x below hs hb hx
  exfalso
  rw [hst] at hs
  have hl := congrArg List.length hs
  simp at hl
  have ha : above = [] := by
    cases above with
    | nil => rfl
    | cons a as => simp at hl; omega
  subst ha
  simp at hs
  have hxs : Flagged s x := flagged_of_view (hv x) hx
  have := hC.enter root rest hctl x (flagged_p10 hxs)
  rw [hs.1] at this
  exact hH.irrefl x this

/-- one iteration of `_execute` (above the base) preserves `Clean` -/
theorem clean_iter (s : State) (hs : s.stuck = none) (hr : s.raising = none) (hO : InvO s) (hC : P10.CInv s)
    (hH : P10.HInv s) {root base : Nat} {rest : List Ctl} (hctl : s.ctl = .waitLoop root base :: rest)
    (hlen : s.stack.length > base) (hst : (step s).stuck = none) (hg : (step s).guardFired = false)
    (hc : Clean s) : Clean (step s) := by
  have hnf : ¬ IsFlush s := by
    rintro ⟨root', base', rest', h1, h2, _⟩
    rw [hctl] at h1
    injection h1 with h1 _
    injection h1 with _ h1
    omega
  have hsb := sb_step_mono s hnf hg
  have hL := hc root base rest hctl
  have e := step_waitLoop_iter s hs hr hctl hlen
  have d := executeIter_desc s ⟨root, base, rest, hctl⟩ hO.noNA (e ▸ hst) (e ▸ hg)
  have hrest : P10.onGen rest := by
    have := hC.disc
    rw [hctl] at this
    exact this.2.1
  have fin : ∀ {r : State}, r.ctl = s.ctl → CleanL r root base → Clean r := by
    intro r hcr hL' root' base' rest' hc'
    rw [hcr, hctl] at hc'
    injection hc' with h1 _
    injection h1 with h1 h2
    subst h1; subst h2
    exact hL'
  rw [e] at hsb ⊢
  cases d with
  | quiet e' hst' hctl' =>
    exact fin hctl' (cleanL_same hL hst' e'.view (fun f => ss_views e'.view e'.batches hsb))
  | top conv body rest' htops hctl0 U htops' hctl' => rw [hctl] at hctl0; cases hctl0
  | ret root' hw hroot e' hst' hctl' =>
    refine clean_of_noLoop ?_
    rw [hctl', hctl]
    exact noLoop_of_onGen hrest
  | enterLoop root' rest' hctl0 _ _ _ _ => rw [hctl] at hctl0; cases hctl0
  | pop hw top st hstk hcase e' hst' hctl' =>
    have hset : ∀ f, SS s f → SS s.executeIter f := fun f => ss_views e'.view e'.batches hsb
    refine fin hctl' (cleanL_pop hL hstk hst' (fun f hf => by rw [e'.computed]; exact hf)
      (fun x hx => ⟨flagged_of_view (e'.view x) hx, by rw [e'.view x]⟩) hset ?_)
    rcases hcase with hct | ⟨hcf, k, q, p, m, hk⟩
    · exact .computed (by rw [e'.computed]; exact hct)
    · obtain ⟨b, hb1, hb2, hb3⟩ := hO.b.item top k q p m hk (out_none_of_uncomputed hcf)
      have hsbi : (k, q) ∈ (step s).sbatches :=
        sb_step_item s root base rest hctl hs hr top st hstk hlen hg hcf hk hb1 hb2
      rw [step_waitLoop_iter s hs hr hctl hlen] at hsbi
      refine .item (k := k) (q := q) (p := p) (m := m) (by rw [e'.view]; exact hk) (by rw [e'.computed]; exact hcf)
        ⟨b, ?_, hb2, hb3⟩ hsbi
      unfold State.batch?
      rw [e'.batches]
      exact hb1
  | popLazy hw top st hstk lo hk hcf U hst' hctl' =>
    have hcomp : ∀ f, s.computed f = true → s.executeIter.computed f = true := by
      intro f hf
      rcases U.view_cases f with ⟨rfl, e1⟩ | ⟨_, e1⟩
      · rw [hcf] at hf; cases hf
      · rw [computed_of_view e1]; exact hf
    have hset : ∀ f, SS s f → SS s.executeIter f := by
      intro f
      refine SS.mono (fun g => g = top) hcomp U.batches hsb ?_ ?_
      · intro g hg hss
        subst hg
        exfalso
        rcases hss.kind_of_uncomputed hcf with ⟨k, q, p, m, hk'⟩ | hk' <;> rw [hk] at hk' <;> cases hk'
      · intro g hg
        rw [U.viewO g hg]
        exact ⟨rfl, rfl, rfl⟩
    refine fin hctl' (cleanL_pop hL hstk hst' hcomp ?_ hset ?_)
    · intro x hx
      rcases U.view_cases x with ⟨rfl, e1⟩ | ⟨_, e1⟩
      · exfalso
        have := hx.1
        rw [e1] at this
        have h2 : (view s x).kind = .task := this
        rw [hk] at h2; cases h2
      · exact ⟨flagged_of_view e1 hx, by rw [e1]⟩
    · refine .computed ?_
      rw [computed_eq_view, U.viewT]; rfl
  | second hw top st hstk hk hcf hbl hfl U hst' hctl' =>
    have hview : ∀ f, SEq3 (view s f) (view s.executeIter f) := by
      intro f
      rcases U.view_cases f with ⟨rfl, e1⟩ | ⟨_, e1⟩
      · rw [e1]; exact ⟨rfl, rfl, rfl⟩
      · rw [e1]; exact ⟨rfl, rfl, rfl⟩
    have hcomp : ∀ f, s.executeIter.computed f = s.computed f := fun f => (hview f).computed
    have hset : ∀ f, SS s f → SS s.executeIter f := by
      intro f
      exact SS.mono (fun _ => False) (fun g hg => by rw [hcomp]; exact hg) U.batches hsb (fun _ hf => hf.elim)
        (fun g _ => hview g)
    refine fin hctl' (cleanL_pop hL hstk hst' (fun f hf => by rw [hcomp]; exact hf) ?_ hset ?_)
    · intro x hx
      rcases U.view_cases x with ⟨rfl, e1⟩ | ⟨_, e1⟩
      · exfalso
        have := hx.2.1
        rw [e1] at this
        cases this
      · exact ⟨flagged_of_view e1 hx, by rw [e1]⟩
    · have hbst : base ≤ st.length := by rw [hstk] at hlen; simp at hlen; omega
      refine .task ((hview top).1.trans hk) (by rw [hcomp]; exact hcf) ?_ ?_
      · intro d hd
        rw [(hview top).2.2] at hd
        cases hcd : s.computed d
        · rcases hL.dfs [] top st (by rw [hstk]; rfl) hbst ⟨hk, hfl, out_none_of_uncomputed hcf⟩ d hd hcd with h1 | h1
          · exact hset d h1
          · cases h1
        · exact .computed (by rw [hcomp]; exact hcd)
      · obtain ⟨d, hd, hcd⟩ := hbl
        exact ⟨d, by rw [(hview top).2.2]; exact hd, by rw [hcomp]; exact hcd⟩
  | first hw top st hstk hk hcf hbl hfl U hst' hctl' =>
    have hview : ∀ f, SEq3 (view s f) (view s.executeIter f) := by
      intro f
      rcases U.view_cases f with ⟨rfl, e1⟩ | ⟨_, e1⟩
      · rw [e1]; exact ⟨rfl, rfl, rfl⟩
      · rw [e1]; exact ⟨rfl, rfl, rfl⟩
    have hset : ∀ f, SS s f → SS s.executeIter f := by
      intro f
      exact SS.mono (fun _ => False) (fun g hg => by rw [(hview g).computed]; exact hg) U.batches hsb
        (fun _ hf => hf.elim) (fun g _ => hview g)
    exact fin hctl' (cleanL_first hL hC hH hstk hst' U.viewT U.viewO hset)
  | enterGen hw top st hstk hk hcf hnb e' hst' a hctl' =>
    refine clean_of_noLoop ?_
    intro r0 b0 rest0 h0
    rw [hctl'] at h0
    cases h0
  | gen t old rest' hctl0 _ => rw [hctl] at hctl0; cases hctl0
  | flush root' base' rest' hctl0 hlen' _ _ _ =>
    rw [hctl] at hctl0
    injection hctl0 with h1 _
    injection h1 with _ h2
    subst h2
    omega

/-- every scheduler-side step that is not a scheduler flush preserves `Clean` -/
theorem clean_step (s : State) (hs : s.stuck = none) (hr : s.raising = none) (hO : InvO s) (hC : P10.CInv s)
    (hH : P10.HInv s) (hng : ∀ t old rest, s.ctl ≠ .gen t old :: rest) (hnf : ¬ IsFlush s)
    (hst : (step s).stuck = none) (hg : (step s).guardFired = false) (hc : Clean s) : Clean (step s) := by
  cases hctl : s.ctl with
  | nil =>
    have d := step_desc s hs hr hO.noNA (fun t old rest h => absurd h (hng t old rest)) hst hg
    refine clean_of_noLoop ?_
    intro r0 b0 rest0 h0
    cases d with
    | quiet _ _ hctl' => rw [hctl', hctl] at h0; cases h0
    | top _ _ _ _ _ _ _ hctl' => rw [hctl'] at h0; cases h0
    | ret _ _ _ _ _ hctl' => rw [hctl', hctl] at h0; cases h0
    | enterLoop _ _ hctl0 _ _ _ _ => rw [hctl] at hctl0; cases hctl0
    | pop hw _ _ _ _ _ _ _ => obtain ⟨_, _, _, hw⟩ := hw; rw [hctl] at hw; cases hw
    | popLazy hw _ _ _ _ _ _ _ _ _ => obtain ⟨_, _, _, hw⟩ := hw; rw [hctl] at hw; cases hw
    | second hw _ _ _ _ _ _ _ _ _ _ => obtain ⟨_, _, _, hw⟩ := hw; rw [hctl] at hw; cases hw
    | first hw _ _ _ _ _ _ _ _ _ _ => obtain ⟨_, _, _, hw⟩ := hw; rw [hctl] at hw; cases hw
    | enterGen hw _ _ _ _ _ _ _ _ _ _ => obtain ⟨_, _, _, hw⟩ := hw; rw [hctl] at hw; cases hw
    | gen _ _ _ hctl0 _ => rw [hctl] at hctl0; cases hctl0
    | flush _ _ _ hctl0 _ _ _ _ => rw [hctl] at hctl0; cases hctl0
  | cons c rest =>
    cases c with
    | gen t old => exact absurd hctl (hng t old rest)
    | waitEnter root =>
      have hrest : P10.onGen rest := by
        have := hC.disc
        rw [hctl] at this
        exact this.1
      cases hcr : s.computed root with
      | true =>
        rw [step_waitEnter_ret s hs hr hctl hcr]
        refine clean_of_noLoop ?_
        show ∀ root base rest', s.ctl.tail ≠ _
        rw [hctl]
        exact noLoop_of_onGen hrest
      | false =>
        rw [step_waitEnter_loop s hs hr hctl hcr]
        intro root' base' rest' hc'
        simp only [hctl, List.tail_cons] at hc'
        injection hc' with h1 _
        injection h1 with h1 h2
        subst h1; subst h2
        exact cleanL_enter hC hH hctl rfl (fun _ => rfl)
    | waitLoop root base =>
      by_cases hlen : s.stack.length > base
      · exact clean_iter s hs hr hO hC hH hctl hlen hst hg hc
      · have hle : s.stack.length ≤ base := by omega
        have hrest : P10.onGen rest := by
          have := hC.disc
          rw [hctl] at this
          exact this.2.1
        cases hcr : s.computed root with
        | true =>
          rw [step_waitLoop_ret s hs hr hctl hle hcr]
          refine clean_of_noLoop ?_
          show ∀ root base rest', s.ctl.tail ≠ _
          rw [hctl]
          exact noLoop_of_onGen hrest
        | false => exact absurd ⟨root, base, rest, hctl, hle, hcr⟩ hnf

end AsynqModel.Core.P20
