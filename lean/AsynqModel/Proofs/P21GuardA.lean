import AsynqModel.Proofs.P21Dep
import AsynqModel.Proofs.P20Term
/-
  P21, part 8 (static bound of the scheduler stack, 1): the static predicate `ybB L` ("no `yield` of the program names
  more than `L` futures"), and three invariants of the runs `P20.Good` speaks about (well-scoped, no NonAsyncContext,
  guard not fired, not stuck):
  * `YInv L`: the rest of every task satisfies `ybB L`, and the structure it yielded last has at most `L` leaves;
  * `UInv L`: at most `L` of the `_dependencies` of a task are uncomputed;
  * `CInvN M0`: `futs.length + M1 ≤ M0` (`P20.M1`, the remaining program weight: every instruction decreases it).
-/
namespace AsynqModel.Core.P21
open AsynqModel.Core AsynqModel.Core.P6 AsynqModel.Core.P20

/-- every `yield` in the body (children included) names at most `L` futures (leaves of the yielded structure) -/
def ybB (L : Nat) : Body → Bool
  | .ret _ => true
  | .res _ => true
  | .raise _ => true
  | .reraise => true
  | .endwith => true
  | .spawn c _ k => ybB L c && ybB L k
  | .item _ _ _ k => ybB L k
  | .const _ k => ybB L k
  | .errfut _ k => ybB L k
  | .lazy _ k => ybB L k
  | .read _ k => ybB L k
  | .active k => ybB L k
  | .yld y k h => decide (y.leaves.length ≤ L) && ybB L k && ybB L h
  | .reyld k h => ybB L k && ybB L h
  | .sync c _ k h => ybB L c && ybB L k && ybB L h
  | .syncfut _ k h => ybB L k && ybB L h
  | .syncret _ k h => ybB L k && ybB L h
  | .withCtx _ b k => ybB L b && ybB L k

mutual
theorem length_extractFutures : (y : RY) → (extractFutures y).length = y.leaves.length
  | .none => rfl
  | .junk => rfl
  | .f _ => rfl
  | .tup l => by simpa [extractFutures, YS.leaves] using length_extractRev l
  | .lst l => by simpa [extractFutures, YS.leaves] using length_extractRev l
  | .dict _ l => by simpa [extractFutures, YS.leaves] using length_extractFwd l
theorem length_extractRev : (l : List RY) → (extractRev l).length = (YS.leavesList l).length
  | [] => rfl
  | y :: ys => by
    simp only [extractRev, YS.leavesList, List.length_append, length_extractFutures y, length_extractRev ys]
    omega
theorem length_extractFwd : (l : List RY) → (extractFwd l).length = (YS.leavesList l).length
  | [] => rfl
  | y :: ys => by
    simp only [extractFwd, YS.leavesList, List.length_append, length_extractFutures y, length_extractFwd ys]
end

/-- the part of `YInv` about one future -/
structure YV (L : Nat) (v : FV) : Prop where
  body : ybB L v.body = true
  conts : ∀ p ∈ v.conts, ybB L p.2 = true
  prevY : v.prevY.leaves.length ≤ L

structure YInv (L : Nat) (s : State) : Prop where
  v : ∀ f, YV L (view s f)
  tops : ∀ p ∈ s.tops, ybB L p.2 = true

theorem yv_dview (L : Nat) : YV L dview := ⟨rfl, (by intro p hp; cases hp), Nat.zero_le _⟩

theorem yv_plain (L : Nat) (kd : FKind) (out : Option Outcome) : YV L (plainView kd out) :=
  ⟨rfl, (by intro p hp; cases hp), Nat.zero_le _⟩

theorem yv_task (L : Nat) {child : Body} (h : ybB L child = true) (inh : List Nat) : YV L (taskView child inh) :=
  ⟨h, (by intro p hp; cases hp), Nat.zero_le _⟩

/-- a view with the same body, continuations (or none) and `prevY` -/
theorem YV.of_eq {L : Nat} {v v' : FV} (h : YV L v) (hb : v'.body = v.body) (hc : v'.conts = v.conts ∨ v'.conts = [])
    (hp : v'.prevY = v.prevY) : YV L v' := by
  refine ⟨by rw [hb]; exact h.body, ?_, by rw [hp]; exact h.prevY⟩
  intro p hp'
  rcases hc with e | e
  · rw [e] at hp'; exact h.conts p hp'
  · rw [e] at hp'; cases hp'

theorem yinv_init (L : Nat) (cfg : Cfg) (tops : List (Conv × Body)) (choices : List (Nat × Nat))
    (h : ∀ p ∈ tops, ybB L p.2 = true) : YInv L (initState cfg tops choices) :=
  ⟨fun f => by rw [view_ge _ f (Nat.zero_le _)]; exact yv_dview L, h⟩

/-! ### scheduler-side steps -/

theorem yinv_desc {L : Nat} {s r : State} (h : YInv L s) (d : Desc s r)
    (hng : ∀ t old rest, s.ctl ≠ .gen t old :: rest) : YInv L r := by
  have same : ∀ f, view r f = view s f → YV L (view r f) := fun f e => by rw [e]; exact h.v f
  cases d with
  | quiet e _ _ => exact ⟨fun f => same f (e.view f), by rw [e.tops]; exact h.tops⟩
  | top conv body rest htops hctl0 U htops' hctl =>
    refine ⟨fun f => ?_, ?_⟩
    · by_cases hf : f = s.futs.length
      · subst hf; rw [U.viewN]
        exact yv_task L (h.tops (conv, body) (by rw [htops]; exact List.mem_cons_self)) []
      · exact same f (U.viewO f hf)
    · intro p hp
      rw [htops'] at hp
      exact h.tops p (by rw [htops]; exact List.mem_cons_of_mem _ hp)
  | ret _ _ _ e _ _ => exact ⟨fun f => same f (e.view f), by rw [e.tops]; exact h.tops⟩
  | enterLoop _ _ _ _ e _ _ => exact ⟨fun f => same f (e.view f), by rw [e.tops]; exact h.tops⟩
  | pop _ _ _ _ _ e _ _ => exact ⟨fun f => same f (e.view f), by rw [e.tops]; exact h.tops⟩
  | popLazy _ top st _ lo _ _ U _ _ =>
    refine ⟨fun f => ?_, by rw [U.tops]; exact h.tops⟩
    rcases U.view_cases f with ⟨rfl, e⟩ | ⟨_, e⟩
    · rw [e]; exact (h.v f).of_eq rfl (.inl rfl) rfl
    · exact same f e
  | second _ top st _ _ _ _ _ U _ _ =>
    refine ⟨fun f => ?_, by rw [U.tops]; exact h.tops⟩
    rcases U.view_cases f with ⟨rfl, e⟩ | ⟨_, e⟩
    · rw [e]; exact (h.v f).of_eq rfl (.inl rfl) rfl
    · exact same f e
  | first _ top st _ _ _ _ _ U _ _ =>
    refine ⟨fun f => ?_, by rw [U.tops]; exact h.tops⟩
    rcases U.view_cases f with ⟨rfl, e⟩ | ⟨_, e⟩
    · rw [e]; exact (h.v f).of_eq rfl (.inl rfl) rfl
    · exact same f e
  | enterGen _ _ _ _ _ _ _ e _ _ _ => exact ⟨fun f => same f (e.view f), by rw [e.tops]; exact h.tops⟩
  | gen t old rest hctl0 _ => exact absurd hctl0 (hng t old rest)
  | flush _ _ _ _ _ _ F _ =>
    refine ⟨fun f => ?_, by rw [F.tops]; exact h.tops⟩
    rcases F.view f with e | ⟨_, o, e⟩
    · exact same f e
    · rw [e]; exact (h.v f).of_eq rfl (.inl rfl) rfl

theorem yv_flushDesc {L : Nat} {s r : State} (h : ∀ f, YV L (view s f)) (F : FlushDesc s r) : ∀ f, YV L (view r f) := by
  intro f
  rcases F.view f with e | ⟨_, o, e⟩
  · rw [e]; exact h f
  · rw [e]; exact (h f).of_eq rfl (.inl rfl) rfl

/-! ### one instruction of a task body -/

theorem prevY_bound {L : Nat} {s : State} {t : Nat} (old : Option Nat) (h : YV L (view s t)) (ht : t < s.futs.length) :
    (view (s.genStep t old) t).prevY.leaves.length ≤ L := by
  show ((s.genStep t old).task t).prevY.leaves.length ≤ L
  rcases genStep_dpy s t old ht with ⟨e, _⟩ | ⟨_, ry, e, _, hsrc⟩
  · rw [e]; exact h.prevY
  · rw [e]
    rcases hsrc with ⟨y, k, hh, hb, rfl⟩ | ⟨k, hh, hb, rfl⟩
    · have hb' : ybB L (.yld y k hh) = true := by
        have := h.body
        have e2 : (view s t).body = .yld y k hh := hb
        rw [e2] at this; exact this
      simp only [ybB, Bool.and_eq_true, decide_eq_true_eq] at hb'
      rw [P10.leaves_mapLeaves, List.length_map]
      exact hb'.1.1
    · exact h.prevY

theorem yinv_gd {L : Nat} {s : State} {t : Nat} {old : Option Nat} (h : YInv L s) (ht : t < s.futs.length)
    (d : GD s (s.genStep t old) t) : YInv L (s.genStep t old) := by
  have hpy := prevY_bound old (h.v t) ht
  have hbody := (h.v t).body
  have hconts := (h.v t).conts
  generalize s.genStep t old = r at d hpy
  have upd1 : ∀ {v' : FV}, Upd1 s r t v' → ybB L v'.body = true → (∀ p ∈ v'.conts, ybB L p.2 = true) → YInv L r := by
    intro v' U hb hc
    refine ⟨fun f => ?_, by rw [U.tops]; exact h.tops⟩
    rcases U.toS.view_cases f with ⟨rfl, e⟩ | ⟨_, e⟩
    · rw [e]; rw [e] at hpy; exact ⟨hb, hc, hpy⟩
    · rw [e]; exact h.v f
  have upd2 : ∀ {v' nv : FV}, Upd2 s r t v' nv → ybB L v'.body = true → (∀ p ∈ v'.conts, ybB L p.2 = true) →
      YV L nv → YInv L r := by
    intro v' nv U hb hc hnv
    refine ⟨fun f => ?_, by rw [U.tops]; exact h.tops⟩
    rcases U.view_cases f with ⟨rfl, e⟩ | ⟨rfl, e⟩ | ⟨_, _, e⟩
    · rw [e]; rw [e] at hpy; exact ⟨hb, hc, hpy⟩
    · rw [e]; exact hnv
    · rw [e]; exact h.v f
  cases d with
  | start hp hs hu => exact upd1 hu hbody hconts
  | loc v' hu hkind hout hpend hstart hnf hbs hsame hdeps =>
    cases hbs with
    | yld y k hh hb hb' hc =>
      rw [hb] at hbody
      simp only [ybB, Bool.and_eq_true] at hbody
      refine upd1 hu ?_ (by rw [hc]; exact hconts)
      rcases hb' with e | e <;> rw [e]
      · exact hbody.1.2
      · exact hbody.2
    | reyld k hh hb hb' hc =>
      rw [hb] at hbody
      simp only [ybB, Bool.and_eq_true] at hbody
      refine upd1 hu ?_ (by rw [hc]; exact hconts)
      rcases hb' with e | e <;> rw [e]
      · exact hbody.1
      · exact hbody.2
    | syncret f k hh hb hb' hc =>
      rw [hb] at hbody
      simp only [ybB, Bool.and_eq_true] at hbody
      refine upd1 hu ?_ (by rw [hc]; exact hconts)
      rcases hb' with e | e <;> rw [e]
      · exact hbody.1
      · exact hbody.2
    | withCtx c b k cid hb hb' hc =>
      rw [hb] at hbody
      simp only [ybB, Bool.and_eq_true] at hbody
      refine upd1 hu (by rw [hb']; exact hbody.1) ?_
      intro p hp
      rw [hc] at hp
      rcases List.mem_cons.1 hp with rfl | hp
      · exact hbody.2
      · exact hconts p hp
    | endwith cid k rest hb hc0 hb' hc =>
      refine upd1 hu (by rw [hb']; exact hconts (cid, k) (by rw [hc0]; exact List.mem_cons_self)) ?_
      intro p hp
      rw [hc] at hp
      exact hconts p (by rw [hc0]; exact List.mem_cons_of_mem _ hp)
    | read var k hb hb' hc =>
      rw [hb] at hbody
      exact upd1 hu (by rw [hb']; simpa only [ybB] using hbody) (by rw [hc]; exact hconts)
    | active k hb hb' hc =>
      rw [hb] at hbody
      exact upd1 hu (by rw [hb']; simpa only [ybB] using hbody) (by rw [hc]; exact hconts)
  | spawn child k pass hb hp hu hbat hnc hnk =>
    rw [hb] at hbody
    simp only [ybB, Bool.and_eq_true] at hbody
    exact upd2 hu hbody.2 hconts (yv_task L hbody.1 _)
  | item kind payload mode k seq hb hp hu hbat hnk =>
    rw [hb] at hbody
    simp only [ybB] at hbody
    exact upd2 hu hbody hconts (yv_plain L _ _)
  | other k kd out hb hp hu hbat hnk hkd =>
    refine upd2 hu ?_ hconts (yv_plain L _ _)
    rcases hb with ⟨a, hb⟩ | ⟨a, hb⟩ | ⟨a, hb⟩ <;> (rw [hb] at hbody; simp only [ybB] at hbody; exact hbody)
  | yield npy nd leave hp hu => exact upd1 hu hbody hconts
  | finish o hp hu => exact upd1 hu hbody (by intro p hp'; cases hp')
  | sync child k hh pass hb hp hu hbat hnc hnk hnh =>
    rw [hb] at hbody
    simp only [ybB, Bool.and_eq_true] at hbody
    exact upd2 hu (by simp only [ownView, ybB, Bool.and_eq_true]; exact ⟨hbody.1.2, hbody.2⟩) hconts
      (yv_task L hbody.1.1 _)
  | syncfut rf k hh s1 hb hp hu F hnk hnh hT =>
    rw [hb] at hbody
    simp only [ybB, Bool.and_eq_true] at hbody
    have h1 : ∀ f, YV L (view s1 f) := by
      intro f
      rcases hu.toS.view_cases f with ⟨rfl, e⟩ | ⟨_, e⟩
      · rw [e]
        exact ⟨by simp only [bodyView, ybB, Bool.and_eq_true]; exact hbody, hconts, (h.v f).prevY⟩
      · rw [e]; exact h.v f
    exact ⟨yv_flushDesc h1 F, by rw [F.tops, hu.tops]; exact h.tops⟩

/-! ### at most `L` uncomputed dependencies -/

def unc (s : State) (l : List Nat) : List Nat := l.filter fun d => !s.computed d

def UInv (L : Nat) (s : State) : Prop := ∀ f, (unc s (view s f).deps).length ≤ L

theorem unc_mono {s r : State} (cm : ∀ d, s.computed d = true → r.computed d = true) (l : List Nat) :
    (unc r l).length ≤ (unc s l).length := by
  unfold unc
  rw [← List.countP_eq_length_filter, ← List.countP_eq_length_filter]
  refine P10.countP_le_of_imp _ _ l ?_
  intro z _ hz
  cases hc : s.computed z with
  | false => rfl
  | true => rw [cm z hc] at hz; cases hz

theorem unc_nil_of_computed {r : State} {l : List Nat} (h : ∀ d ∈ l, r.computed d = true) : unc r l = [] := by
  unfold unc
  rw [List.filter_eq_nil_iff]
  intro d hd
  rw [h d hd]; simp

theorem u_keep {L : Nat} {s r : State} (cm : ∀ d, s.computed d = true → r.computed d = true) {l l' : List Nat}
    (h : l' = l ∨ l' = []) (hs : (unc s l).length ≤ L) : (unc r l').length ≤ L := by
  rcases h with rfl | rfl
  · exact Nat.le_trans (unc_mono cm _) hs
  · exact Nat.zero_le _

theorem uinv_init (L : Nat) (cfg : Cfg) (tops : List (Conv × Body)) (choices : List (Nat × Nat)) :
    UInv L (initState cfg tops choices) := by
  intro f
  rw [view_ge _ f (Nat.zero_le _)]
  exact Nat.zero_le _

theorem uinv_desc {L : Nat} {s r : State} (h : UInv L s) (cm : ∀ d, s.computed d = true → r.computed d = true)
    (d : Desc s r) (hng : ∀ t old rest, s.ctl ≠ .gen t old :: rest) : UInv L r := by
  have same : ∀ f, view r f = view s f → (unc r (view r f).deps).length ≤ L :=
    fun f e => by rw [e]; exact u_keep cm (.inl rfl) (h f)
  have done : ∀ f o, view r f = doneView o (view s f) → (unc r (view r f).deps).length ≤ L :=
    fun f o e => by rw [e]; exact Nat.zero_le _
  have flag : ∀ f b, view r f = flagView b (view s f) → (unc r (view r f).deps).length ≤ L :=
    fun f b e => by rw [e]; exact u_keep cm (.inl rfl) (h f)
  intro f
  cases d with
  | quiet e _ _ => exact same f (e.view f)
  | top conv body rest htops hctl0 U htops' hctl =>
    by_cases hf : f = s.futs.length
    · subst hf; rw [U.viewN]; exact Nat.zero_le _
    · exact same f (U.viewO f hf)
  | ret _ _ _ e _ _ => exact same f (e.view f)
  | enterLoop _ _ _ _ e _ _ => exact same f (e.view f)
  | pop _ _ _ _ _ e _ _ => exact same f (e.view f)
  | popLazy _ top st _ lo _ _ U _ _ =>
    rcases U.view_cases f with ⟨rfl, e⟩ | ⟨_, e⟩
    · exact done f _ e
    · exact same f e
  | second _ top st _ _ _ _ _ U _ _ =>
    rcases U.view_cases f with ⟨rfl, e⟩ | ⟨_, e⟩
    · exact flag f _ e
    · exact same f e
  | first _ top st _ _ _ _ _ U _ _ =>
    rcases U.view_cases f with ⟨rfl, e⟩ | ⟨_, e⟩
    · exact flag f _ e
    · exact same f e
  | enterGen _ _ _ _ _ _ _ e _ _ _ => exact same f (e.view f)
  | gen t old rest hctl0 _ => exact absurd hctl0 (hng t old rest)
  | flush _ _ _ _ _ _ F _ =>
    rcases F.view f with e | ⟨_, o, e⟩
    · exact same f e
    · exact done f o e

/-- the running task: from `genStep_dpy` -/
theorem unc_running {L : Nat} {s : State} {t : Nat} (old : Option Nat) (hY : YV L (view s t)) (hU : UInv L s)
    (ht : t < s.futs.length) (hdc : ∀ d ∈ (s.task t).deps, s.computed d = true)
    (cm : ∀ d, s.computed d = true → (s.genStep t old).computed d = true) :
    (unc (s.genStep t old) (view (s.genStep t old) t).deps).length ≤ L := by
  show (unc (s.genStep t old) ((s.genStep t old).task t).deps).length ≤ L
  rcases genStep_dpy s t old ht with ⟨_, e⟩ | ⟨_, ry, hpy, e, hsrc⟩
  · exact u_keep cm e (hU t)
  · rw [e]
    unfold unc
    rw [List.filter_append, List.length_append]
    have h1 : ((if s.cfg.keepDeps = true then (s.task t).deps else []).filter
        fun d => !(s.genStep t old).computed d) = [] := by
      apply unc_nil_of_computed
      intro d hd
      split at hd
      · exact cm d (hdc d hd)
      · cases hd
    rw [h1]
    simp only [List.length_nil, Nat.zero_add]
    refine Nat.le_trans (List.length_filter_le _ _) ?_
    rw [length_extractFutures]
    rcases hsrc with ⟨y, k, hh, hb, rfl⟩ | ⟨k, hh, hb, rfl⟩
    · have hb' : ybB L (.yld y k hh) = true := by
        have := hY.body
        have e2 : (view s t).body = .yld y k hh := hb
        rw [e2] at this; exact this
      simp only [ybB, Bool.and_eq_true, decide_eq_true_eq] at hb'
      rw [P10.leaves_mapLeaves, List.length_map]
      exact hb'.1.1
    · exact hY.prevY

theorem uinv_flushDesc {L : Nat} {s r : State} (h : ∀ f, (unc s (view s f).deps).length ≤ L)
    (cm : ∀ d, s.computed d = true → r.computed d = true) (F : FlushDesc s r) :
    ∀ f, (unc r (view r f).deps).length ≤ L := by
  intro f
  rcases F.view f with e | ⟨_, o, e⟩
  · rw [e]; exact u_keep cm (.inl rfl) (h f)
  · rw [e]; exact Nat.zero_le _

theorem uinv_gd {L : Nat} {s : State} {t : Nat} {old : Option Nat} (hY : YInv L s) (h : UInv L s)
    (ht : t < s.futs.length) (hdc : ∀ d ∈ (s.task t).deps, s.computed d = true)
    (cm : ∀ d, s.computed d = true → (s.genStep t old).computed d = true)
    (d : GD s (s.genStep t old) t) : UInv L (s.genStep t old) := by
  have hrun := unc_running old (hY.v t) h ht hdc cm
  generalize s.genStep t old = r at d hrun cm
  have upd1 : ∀ {v' : FV}, Upd1 s r t v' → UInv L r := by
    intro v' U f
    rcases U.toS.view_cases f with ⟨rfl, _⟩ | ⟨_, e⟩
    · exact hrun
    · rw [e]; exact u_keep cm (.inl rfl) (h f)
  have upd2 : ∀ {v' nv : FV}, Upd2 s r t v' nv → nv.deps = [] → UInv L r := by
    intro v' nv U hnv f
    rcases U.view_cases f with ⟨rfl, _⟩ | ⟨rfl, e⟩ | ⟨_, _, e⟩
    · exact hrun
    · rw [e, hnv]; exact Nat.zero_le _
    · rw [e]; exact u_keep cm (.inl rfl) (h f)
  cases d with
  | start hp hs hu => exact upd1 hu
  | loc v' hu _ _ _ _ _ _ _ _ => exact upd1 hu
  | spawn child k pass hb hp hu hbat hnc hnk => exact upd2 hu rfl
  | item kind payload mode k seq hb hp hu hbat hnk => exact upd2 hu rfl
  | other k kd out hb hp hu hbat hnk hkd => exact upd2 hu rfl
  | yield npy nd leave hp hu => exact upd1 hu
  | finish o hp hu => exact upd1 hu
  | sync child k hh pass hb hp hu hbat hnc hnk hnh => exact upd2 hu rfl
  | syncfut rf k hh s1 hb hp hu F hnk hnh hT =>
    -- other tasks: their view in `s1` is that in `s`; then completions only
    intro f
    by_cases hft : f = t
    · subst hft; exact hrun
    · rcases F.view f with e | ⟨_, o, e⟩
      · rw [e, hu.viewO f hft]; exact u_keep cm (.inl rfl) (h f)
      · rw [e]; exact Nat.zero_le _

/-! ### the number of futures is bounded by the program weight -/

theorem cnt_desc {s r : State} (d : Desc s r) (hng : ∀ t old rest, s.ctl ≠ .gen t old :: rest) :
    r.futs.length + M1 r ≤ s.futs.length + M1 s := by
  have hle := M1_desc_le d hng
  cases d with
  | quiet e _ _ => rw [e.len]; omega
  | top conv body rest htops hctl0 U htops' hctl =>
    have := M1_top htops U htops'
    rw [U.len]; omega
  | ret _ _ _ e _ _ => rw [e.len]; omega
  | enterLoop _ _ _ _ e _ _ => rw [e.len]; omega
  | pop _ _ _ _ _ e _ _ => rw [e.len]; omega
  | popLazy _ top st _ lo _ _ U _ _ => rw [U.len]; omega
  | second _ top st _ _ _ _ _ U _ _ => rw [U.len]; omega
  | first _ top st _ _ _ _ _ U _ _ => rw [U.len]; omega
  | enterGen _ _ _ _ _ _ _ e _ _ _ => rw [e.len]; omega
  | gen t old rest hctl0 _ => exact absurd hctl0 (hng t old rest)
  | flush _ _ _ _ _ _ F _ => rw [F.len]; omega

theorem cnt_gd {s r : State} {t : Nat} (hO : InvO s) (hgk : (view s t).kind = .task) (hgo : (view s t).out = none)
    (d : GD s r t) : r.futs.length + M1 r ≤ s.futs.length + M1 s := by
  have hlt := M1_gd hO hgk hgo d
  cases d with
  | start hp hs hu => rw [hu.len]; omega
  | loc v' hu _ _ _ _ _ _ _ _ => rw [hu.len]; omega
  | spawn child k pass hb hp hu hbat hnc hnk => rw [hu.len]; omega
  | item kind payload mode k seq hb hp hu hbat hnk => rw [hu.len]; omega
  | other k kd out hb hp hu hbat hnk hkd => rw [hu.len]; omega
  | yield npy nd leave hp hu => rw [hu.len]; omega
  | finish o hp hu => rw [hu.len]; omega
  | sync child k hh pass hb hp hu hbat hnc hnk hnh => rw [hu.len]; omega
  | syncfut rf k hh s1 hb hp hu F hnk hnh hT => rw [F.len, hu.len]; omega

end AsynqModel.Core.P21
