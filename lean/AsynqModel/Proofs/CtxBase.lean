import AsynqModel.Lib.Contexts
/-! helper lemmas for Theorems/C06c.lean: lists, the save/restore chain, single hook calls -/
namespace AsynqModel.Contexts

theorem upd_length {α : Type} (l : List α) (n : Nat) (f : α → α) : (upd l n f).length = l.length := by
  induction l generalizing n with
  | nil => rfl
  | cons x xs ih => cases n <;> simp [upd, ih]

theorem upd_getD_same {α : Type} (l : List α) (n : Nat) (f : α → α) (d : α) (h : n < l.length) :
    (upd l n f).getD n d = f (l.getD n d) := by
  induction l generalizing n with
  | nil => simp at h
  | cons x xs ih =>
    cases n with
    | zero => simp [upd]
    | succ m =>
      have : m < xs.length := by simpa using h
      simpa [upd] using ih m this

theorem upd_getD_ne {α : Type} (l : List α) (n m : Nat) (f : α → α) (d : α) (h : m ≠ n) :
    (upd l n f).getD m d = l.getD m d := by
  induction l generalizing n m with
  | nil => simp [upd]
  | cons x xs ih =>
    cases n with
    | zero =>
      cases m with
      | zero => exact absurd rfl h
      | succ k => simp [upd]
    | succ n' =>
      cases m with
      | zero => simp [upd]
      | succ k =>
        have : k ≠ n' := fun e => h (by rw [e])
        simpa [upd] using ih n' k this

theorem getC_upd_same (cs : List CtxSt) (c : Nat) (f : CtxSt → CtxSt) (h : c < cs.length) :
    getC (upd cs c f) c = f (getC cs c) := upd_getD_same cs c f {} h

theorem getC_upd_ne (cs : List CtxSt) (c d : Nat) (f : CtxSt → CtxSt) (h : d ≠ c) :
    getC (upd cs c f) d = getC cs d := upd_getD_ne cs c d f {} h

theorem getV_upd_same (vs : List Nat) (x v : Nat) (h : x < vs.length) : getV (upd vs x fun _ => v) x = v :=
  upd_getD_same vs x _ 0 h

theorem getV_upd_ne (vs : List Nat) (x y v : Nat) (h : y ≠ x) : getV (upd vs x fun _ => v) y = getV vs y :=
  upd_getD_ne vs x y _ 0 h

theorem filter_ne_of_not_mem (l : List Nat) (c : Nat) (h : c ∉ l) : l.filter (· != c) = l := by
  induction l with
  | nil => rfl
  | cons x xs ih =>
    have hx : x ≠ c := fun e => h (by simp [e])
    have hxs : c ∉ xs := fun m => h (by simp [m])
    rw [List.filter_cons]
    simp [hx, ih hxs]

theorem append_erase_self (l : List Nat) (c : Nat) (h : c ∉ l) : (l ++ [c]).erase c = l := by
  induction l with
  | nil => simp
  | cons x xs ih =>
    have hx : x ≠ c := fun e => h (by simp [e])
    have hxs : c ∉ xs := fun m => h (by simp [m])
    simp [hx, ih hxs]

/-- the save/restore chain of variable x: the current value is the value of the innermost active override, whose
    saved value is the value of the next one ..., and the outermost one saved the outer value -/
def Chain (defs : List Kind) (cs : List CtxSt) (x : Nat) : Nat → List Nat → Prop
  | cur, [] => cur = outer x
  | cur, c :: r => cur = valOf defs c ∧ Chain defs cs x (getC cs c).old r

theorem Chain_congr (defs : List Kind) (cs cs' : List CtxSt) (x : Nat) (l : List Nat) (cur : Nat)
    (h : ∀ d ∈ l, (getC cs' d).old = (getC cs d).old) (hc : Chain defs cs x cur l) : Chain defs cs' x cur l := by
  induction l generalizing cur with
  | nil => exact hc
  | cons c r ih =>
    refine ⟨hc.1, ?_⟩
    rw [h c (by simp)]
    exact ih _ (fun d hd => h d (by simp [hd])) hc.2

theorem Chain_head (defs : List Kind) (cs : List CtxSt) (x cur : Nat) (l : List Nat) (h : Chain defs cs x cur l) :
    cur = match l with | c :: _ => valOf defs c | [] => outer x := by
  cases l with
  | nil => exact h
  | cons c r => exact h.1

theorem stackOf_cons (defs : List Kind) (stk : List Nat) (c x : Nat) :
    stackOf defs (c :: stk) x = if varOf defs c == some x then c :: stackOf defs stk x else stackOf defs stk x := by
  simp [stackOf, List.filter_cons]

theorem stackOf_filter (defs : List Kind) (stk : List Nat) (c x : Nat) :
    stackOf defs (stk.filter (· != c)) x = (stackOf defs stk x).filter (· != c) := by
  simp [stackOf, List.filter_filter, Bool.and_comm]

theorem mem_stackOf (defs : List Kind) (stk : List Nat) (x d : Nat) :
    d ∈ stackOf defs stk x ↔ d ∈ stk ∧ varOf defs d = some x := by
  simp [stackOf, List.mem_filter]

end AsynqModel.Contexts
