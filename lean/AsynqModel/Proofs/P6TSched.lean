import AsynqModel.Proofs.P6TSb
import AsynqModel.Proofs.P1Step
/-
  P6T (termination, property C03), part 3: `SettledS` - settled, and every batch the future waits for has been
  SCHEDULED (is in `sbatches`) - its stability, and the part `InvS` of the DFS invariant that speaks about it.
  Consequence: when the scheduler is about to flush (stack at base, root uncomputed) there is a flushable batch,
  so `_select_batch_to_flush` never finds nothing (the scheduler does not spin).
-/
namespace AsynqModel.Core.P6T
open AsynqModel.Core AsynqModel.Core.P6

inductive SettledS (s : State) : Nat → Prop
  | computed {f : Nat} : s.computed f = true → SettledS s f
  | item {f k q p : Nat} {m : ItemMode} : (s.fut f).kind = .item k q p m → s.computed f = false →
      (∃ b, s.batch? k q = some b ∧ b.flushed = false) → (k, q) ∈ s.sbatches → SettledS s f
  | task {t : Nat} : (s.fut t).kind = .task → s.computed t = false →
      (s.task t).started = true → (s.task t).pending = true →
      (∀ d ∈ (s.task t).deps, SettledS s d) → (∃ d ∈ (s.task t).deps, s.computed d = false) → SettledS s t

theorem SettledS.settled {s : State} {f : Nat} (h : SettledS s f) : Settled s f := by
  induction h with
  | computed h => exact .computed h
  | item hk hc hb _ => exact .item hk hc hb
  | task hk hc hs hp _ hbl ih => exact .task hk hc hs hp ih hbl

/-- an uncomputed settled-and-scheduled future waits (transitively) for an uncomputed item of a scheduled,
    unflushed batch -/
theorem SettledS.witness {s : State} {f : Nat} (h : SettledS s f) (hc : s.computed f = false) :
    ∃ i k q p m b, (s.fut i).kind = .item k q p m ∧ s.computed i = false ∧ s.batch? k q = some b ∧
      b.flushed = false ∧ (k, q) ∈ s.sbatches := by
  induction h with
  | computed h => rw [h] at hc; cases hc
  | @item f k q p m hk hu hb hsb =>
    obtain ⟨b, hb1, hb2⟩ := hb
    exact ⟨f, k, q, p, m, b, hk, hu, hb1, hb2, hsb⟩
  | task _ _ _ _ _ hbl ih =>
    obtain ⟨d, hd, hcd⟩ := hbl
    exact ih d hd hcd

theorem SettledS.mono {s s' : State} (T : Nat → Prop)
    (hc : ∀ f, s.computed f = true → s'.computed f = true)
    (hb : ∀ k q b, s.batch? k q = some b → b.flushed = false → ∃ b', s'.batch? k q = some b' ∧ b'.flushed = false)
    (hsb : ∀ c ∈ s.sbatches, c ∈ s'.sbatches)
    (hT : ∀ f, T f → Settled s f → s.computed f = true)
    (hv : ∀ f, ¬ T f → SEq (view s f) (view s' f))
    {f : Nat} (h : SettledS s f) : SettledS s' f := by
  induction h with
  | computed h => exact .computed (hc _ h)
  | @item f k q p m hk hu hbat hs =>
    have hnT : ¬ T f := fun hT' => by
      have := hT f hT' (.item hk hu hbat)
      rw [this] at hu; cases hu
    have e := hv f hnT
    obtain ⟨b, hb1, hb2⟩ := hbat
    refine .item (k := k) (q := q) (p := p) (m := m) ?_ ?_ (hb k q b hb1 hb2) (hsb _ hs)
    · exact e.1.trans hk
    · rw [e.computed]; exact hu
  | @task t hk hu hs hp hd hbl ih =>
    have hst : Settled s t := (SettledS.task hk hu hs hp hd hbl).settled
    have hnT : ¬ T t := fun hT' => by
      have := hT t hT' hst
      rw [this] at hu; cases hu
    have e := hv t hnT
    have ed : (s'.task t).deps = (s.task t).deps := e.2.2.2.2
    refine .task (e.1.trans hk) (by rw [e.computed]; exact hu)
      (e.2.2.1.trans hs) (e.2.2.2.1.trans hp) ?_ ?_
    · intro d hd'
      rw [ed] at hd'
      exact ih d hd'
    · obtain ⟨d, hd1, hd2⟩ := hbl
      refine ⟨d, by rw [ed]; exact hd1, ?_⟩
      have hnTd : ¬ T d := fun hT' => by
        have := hT d hT' (hd d hd1).settled
        rw [this] at hd2; cases hd2
      rw [(hv d hnTd).computed]; exact hd2

theorem upd1_settledS {s r : State} {t : Nat} {v' : FV} (U : Upd1S s r t v')
    (hc : ∀ f, s.computed f = true → r.computed f = true) (hsb : ∀ c ∈ s.sbatches, c ∈ r.sbatches)
    (ht : SEq (view s t) v' ∨ (Settled s t → s.computed t = true)) {f : Nat} (h : SettledS s f) : SettledS r f := by
  rcases ht with ht | ht
  · refine SettledS.mono (fun _ => False) hc (batch_same U.batches) hsb (fun _ hf => hf.elim) ?_ h
    intro g _
    rcases U.view_cases g with ⟨rfl, e⟩ | ⟨_, e⟩
    · rw [e]; exact ht
    · exact SEq.of_eq e
  · refine SettledS.mono (fun g => g = t) hc (batch_same U.batches) hsb (fun g hg => by subst hg; exact ht) ?_ h
    intro g hg
    exact SEq.of_eq (U.viewO g hg)

theorem upd2_settledS {s r : State} {t : Nat} {v' nv : FV} (U : Upd2 s r t v' nv)
    (hc : ∀ f, s.computed f = true → r.computed f = true)
    (hb : ∀ k q b, s.batch? k q = some b → b.flushed = false → ∃ b', r.batch? k q = some b' ∧ b'.flushed = false)
    (hsb : ∀ c ∈ s.sbatches, c ∈ r.sbatches)
    (ht : Settled s t → s.computed t = true) {f : Nat} (h : SettledS s f) : SettledS r f := by
  refine SettledS.mono (fun g => g = t ∨ g = s.futs.length) hc hb hsb ?_ ?_ h
  · intro g hg hs
    rcases hg with rfl | rfl
    · exact ht hs
    · exact absurd hs (not_settled_of_ge (Nat.le_refl _))
  · intro g hg
    exact SEq.of_eq (U.viewO g (fun e => hg (Or.inl e)) (fun e => hg (Or.inr e)))

/-- `SettledS` is stable until the next flush -/
theorem settledS_step {s r : State} (hA : InvA s) (d : Desc s r) (hnf : ¬ IsFlush s)
    (hsb : ∀ c ∈ s.sbatches, c ∈ r.sbatches) {f : Nat} (h : SettledS s f) : SettledS r f := by
  have hc : ∀ f, s.computed f = true → r.computed f = true := fun f hf => d.computed_mono hf
  have same : ∀ {r' : State}, Same s r' → (∀ c ∈ s.sbatches, c ∈ r'.sbatches) → SettledS r' f := fun e hsb' =>
    SettledS.mono (fun _ => False) (fun g hg => by rw [e.computed]; exact hg) (batch_same e.batches) hsb'
      (fun _ hf => hf.elim) (fun g _ => SEq.of_eq (e.view g)) h
  cases d with
  | quiet e _ _ => exact same e hsb
  | top conv body rest _ _ U _ _ =>
    refine SettledS.mono (fun g => g = s.futs.length) hc (batch_same U.batches) hsb ?_ ?_ h
    · intro g hg hs; subst hg; exact absurd hs (not_settled_of_ge (Nat.le_refl _))
    · intro g hg; exact SEq.of_eq (U.viewO g hg)
  | ret _ _ _ e _ _ => exact same e hsb
  | enterLoop _ _ _ _ e _ _ => exact same e hsb
  | pop _ _ _ _ _ e _ _ => exact same e hsb
  | popLazy _ top st _ lo hk hcu U _ _ =>
    refine upd1_settledS U hc hsb (Or.inr ?_) h
    intro hs
    rcases hs.kind_of_uncomputed hcu with ⟨k, q, p, m, hk'⟩ | hk'
    · have : (view s top).kind = _ := hk'
      rw [hk] at this; cases this
    · have : (view s top).kind = _ := hk'
      rw [hk] at this; cases this
  | second _ top st _ _ _ _ _ U _ _ => exact upd1_settledS U hc hsb (Or.inl ⟨rfl, rfl, rfl, rfl, rfl⟩) h
  | first _ top st _ _ _ _ _ U _ _ => exact upd1_settledS U hc hsb (Or.inl ⟨rfl, rfl, rfl, rfl, rfl⟩) h
  | enterGen _ _ _ _ _ _ _ e _ _ _ => exact same e hsb
  | gen t old rest hctl0 d =>
    obtain ⟨hgk, hgo, hgd⟩ := hA.gen t old rest hctl0
    have ht : Settled s t → s.computed t = true := computed_of_settled_unblocked hgk hgd
    cases d with
    | loc v' hu _ _ _ _ _ _ _ _ _ _ _ _ => exact upd1_settledS hu.toS hc hsb (Or.inr ht) h
    | spawn child k pass _ _ hu _ hbat _ _ => exact upd2_settledS hu hc (batch_same hbat) hsb ht h
    | item kind payload mode k seq _ _ hu _ hbat _ => exact upd2_settledS hu hc hbat.unflushed_mono hsb ht h
    | other k kd out _ _ hu _ hbat _ _ => exact upd2_settledS hu hc (batch_same hbat) hsb ht h
    | yield ry npy nd leave _ _ _ _ hu _ => exact upd1_settledS hu.toS hc hsb (Or.inr ht) h
    | finish o _ hu _ => exact upd1_settledS hu.toS hc hsb (Or.inr ht) h
  | flush root base rest hctl0 hlen hroot F hctl => exact absurd ⟨root, base, rest, hctl0, hlen, hroot⟩ hnf

/-- the `SettledS` part of the DFS invariant -/
structure InvS (s : State) : Prop where
  dfs : ∀ above x below, s.stack = above ++ x :: below → Flagged s x →
    ∀ d ∈ (view s x).deps, s.computed d = false → SettledS s d ∨ d ∈ above
  root : ∀ root base rest,
    (s.ctl = .waitLoop root base :: rest ∨ ∃ t old, s.ctl = .gen t old :: .waitLoop root base :: rest) →
    (∃ pre, s.stack = pre ++ [root]) ∨ SettledS s root

theorem invS_init (cfg : Cfg) (tops : List (Conv × Body)) (choices : List (Nat × Nat)) :
    InvS (initState cfg tops choices) := by
  refine ⟨?_, ?_⟩
  · intro above x below h; cases above <;> cases h
  · intro root base rest h
    rcases h with h | ⟨t, old, h⟩ <;> cases h

theorem InvS.transfer {s r : State} (h : InvS s) (hst : r.stack = s.stack)
    (hc : ∀ f, s.computed f = true → r.computed f = true)
    (hfl : ∀ x, FlKeep s r x)
    (hset : ∀ f, SettledS s f → SettledS r f)
    (hroot : ∀ root base rest,
      (r.ctl = .waitLoop root base :: rest ∨ ∃ t old, r.ctl = .gen t old :: .waitLoop root base :: rest) →
      ∃ base' rest', (s.ctl = .waitLoop root base' :: rest' ∨
        ∃ t old, s.ctl = .gen t old :: .waitLoop root base' :: rest')) : InvS r := by
  refine ⟨?_, ?_⟩
  · intro above x below hstk hx d hd hcd
    rw [hst] at hstk
    obtain ⟨hx', hdeps⟩ := hfl x hx
    have hcd' : s.computed d = false := by
      cases hh : s.computed d
      · rfl
      · rw [hc d hh] at hcd; cases hcd
    rcases h.dfs above x below hstk hx' d (hdeps d hd hcd) hcd' with h1 | h1
    · exact Or.inl (hset d h1)
    · exact Or.inr h1
  · intro root base rest hctl
    obtain ⟨base', rest', hs⟩ := hroot root base rest hctl
    rcases h.root root base' rest' hs with ⟨pre, h1⟩ | h1
    · exact Or.inl ⟨pre, by rw [hst]; exact h1⟩
    · exact Or.inr (hset root h1)

theorem InvS.pop {s r : State} (h : InvS s) {top : Nat} {st : List Nat} (hstk : s.stack = top :: st)
    (hst : r.stack = st) (hc : ∀ f, s.computed f = true → r.computed f = true)
    (hfl : ∀ x, FlKeep s r x) (hset : ∀ f, SettledS s f → SettledS r f)
    (hts : SettledS r top) (hctl : r.ctl = s.ctl) : InvS r := by
  refine ⟨?_, ?_⟩
  · intro above x below hs hx d hd hcd
    rw [hst] at hs
    obtain ⟨hx', hdeps⟩ := hfl x hx
    have hcd' : s.computed d = false := by
      cases hh : s.computed d
      · rfl
      · rw [hc d hh] at hcd; cases hcd
    have hs' : s.stack = (top :: above) ++ x :: below := by rw [hstk, hs]; rfl
    rcases h.dfs (top :: above) x below hs' hx' d (hdeps d hd hcd) hcd' with h1 | h1
    · exact Or.inl (hset d h1)
    · rcases List.mem_cons.1 h1 with e | e
      · exact Or.inl (e ▸ hts)
      · exact Or.inr e
  · intro root base rest hc'
    rw [hctl] at hc'
    rcases h.root root base rest hc' with ⟨pre, h1⟩ | h1
    · rw [hstk] at h1
      rcases ends_cons h1 with ⟨_, e⟩ | ⟨pre', e⟩
      · exact Or.inr (e ▸ hts)
      · exact Or.inl ⟨pre', by rw [hst]; exact e⟩
    · exact Or.inr (hset root h1)

/-- a blocked flagged task on top of the stack is settled and scheduled -/
theorem settledS_second {s : State} (hA : InvA s) (hS : InvS s) {top : Nat} {st : List Nat}
    (hstk : s.stack = top :: st) (hk : (view s top).kind = .task) (hc : s.computed top = false)
    (hbl : ∃ d ∈ (view s top).deps, s.computed d = false) (hfl : (view s top).flag = true)
    (hw : ∃ root base rest, s.ctl = .waitLoop root base :: rest) : SettledS s top := by
  obtain ⟨root, base, rest, hw⟩ := hw
  have ho := out_none_of_uncomputed hc
  obtain ⟨d0, hd0, hcd0⟩ := hbl
  have hne : (view s top).deps ≠ [] := by
    intro e; rw [e] at hd0; cases hd0
  refine .task hk hc (hA.sOfD top hne) (hA.pOfI top hk ho (fun old rest' h => by rw [hw] at h; cases h)) ?_
    ⟨d0, hd0, hcd0⟩
  intro d hd
  cases hcd : s.computed d
  · rcases hS.dfs [] top st (by rw [hstk]; rfl) ⟨hk, hfl, ho⟩ d hd hcd with h1 | h1
    · exact h1
    · cases h1
  · exact .computed hcd

/-- when the scheduler is about to flush, a flushable batch exists -/
theorem flushable_ne_nil {s : State} (hB : InvB s) (hS : InvS s) (root base : Nat) (rest : List Ctl)
    (hctl : s.ctl = .waitLoop root base :: rest) (hs0 : s.stack = []) (hroot : s.computed root = false) :
    s.flushable ≠ [] := by
  have hr : SettledS s root := by
    rcases hS.root root base rest (Or.inl hctl) with ⟨pre, h1⟩ | h1
    · rw [hs0] at h1; cases pre <;> cases h1
    · exact h1
  obtain ⟨i, k, q, p, m, b, hk, hci, hb, hbf, hsb⟩ := hr.witness hroot
  obtain ⟨b', hb', _, hmem⟩ := hB.item i k q p m hk (out_none_of_uncomputed hci)
  rw [hb] at hb'
  cases hb'
  have : (k, q) ∈ s.flushable := (P1.mem_flushable s k q).2 ⟨hsb, b, hb, (fun e => by rw [e] at hmem; cases hmem), hbf⟩
  intro e
  rw [e] at this; cases this

end AsynqModel.Core.P6T
