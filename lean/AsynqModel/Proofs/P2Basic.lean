import AsynqModel.Core.Reach
import AsynqModel.Proofs.P2Unwrap
/-!
  P2: projection lemmas for the state primitives and the relation `Quiet s s'`:
  "`s'` is obtained from `s` by operations that do not resume a task and do not suspend one":
  futures only gain outcomes (write once), `started` / `resumes` do not change, `pending` is only reset,
  `lastY` / `deps` only change by being cleared at a completion, the trace only grows, by events that are neither
  `run` nor `yield`, and every new `done f o` event leaves `out f = some o`.
  Everything the machine does except the resume (`run`) and the `yield` instruction is `Quiet`.
-/
namespace AsynqModel.Core.P2
open AsynqModel.Core

/-! ### projections -/

theorem fut_setFut (s : State) (t f : Nat) (x : Fut) :
    (s.setFut t x).fut f = if f = t ∧ t < s.futs.length then x else s.fut f := by
  unfold State.fut State.setFut
  simp only [List.getD_eq_getElem?_getD, List.getElem?_set]
  by_cases h : t = f
  · subst h; by_cases h2 : t < s.futs.length <;> simp [h2]
  · have : ¬ f = t := fun h' => h h'.symm
    simp [h, this]

theorem fut_alloc (s : State) (x : Fut) (nk : NewKind) (f : Nat) :
    (s.alloc x nk).1.fut f = if f = s.futs.length then x else s.fut f := by
  unfold State.fut State.alloc State.emit
  simp only [List.getD_eq_getElem?_getD]
  by_cases h : f = s.futs.length
  · subst h; simp
  · simp only [h, if_false]
    by_cases h2 : f < s.futs.length
    · simp [List.getElem?_append_left h2]
    · have h3 : s.futs.length < f := by omega
      rw [List.getElem?_eq_none (by simp; omega), List.getElem?_eq_none (by omega)]

theorem fut_default_of_le (s : State) (f : Nat) (h : s.futs.length ≤ f) : s.fut f = {} := by
  unfold State.fut
  simp [List.getD_eq_getElem?_getD, List.getElem?_eq_none h]

/-- a future whose kind is not the default one exists -/
theorem lt_of_kind (s : State) (f : Nat) (h : (s.fut f).kind ≠ .const) : f < s.futs.length := by
  apply Classical.byContradiction; intro hn
  rw [fut_default_of_le s f (by omega)] at h
  exact h rfl

@[simp] theorem alloc_snd (s : State) (x : Fut) (nk : NewKind) : (s.alloc x nk).2 = s.futs.length := rfl
@[simp] theorem alloc_trace (s : State) (x : Fut) (nk : NewKind) :
    (s.alloc x nk).1.trace = .new s.futs.length nk :: s.trace := rfl
@[simp] theorem alloc_ctl (s : State) (x : Fut) (nk : NewKind) : (s.alloc x nk).1.ctl = s.ctl := rfl
@[simp] theorem alloc_batches (s : State) (x : Fut) (nk : NewKind) : (s.alloc x nk).1.batches = s.batches := rfl
@[simp] theorem alloc_len (s : State) (x : Fut) (nk : NewKind) :
    (s.alloc x nk).1.futs.length = s.futs.length + 1 := by simp [State.alloc, State.emit]

@[simp] theorem emit_fut (s : State) (e : Event) (f : Nat) : (s.emit e).fut f = s.fut f := rfl
@[simp] theorem emit_task (s : State) (e : Event) (f : Nat) : (s.emit e).task f = s.task f := rfl
@[simp] theorem emit_out (s : State) (e : Event) (f : Nat) : (s.emit e).out f = s.out f := rfl
@[simp] theorem emit_computed (s : State) (e : Event) (f : Nat) : (s.emit e).computed f = s.computed f := rfl
@[simp] theorem emit_futs (s : State) (e : Event) : (s.emit e).futs = s.futs := rfl
@[simp] theorem emit_trace (s : State) (e : Event) : (s.emit e).trace = e :: s.trace := rfl
@[simp] theorem emit_ctl (s : State) (e : Event) : (s.emit e).ctl = s.ctl := rfl
@[simp] theorem emit_batches (s : State) (e : Event) : (s.emit e).batches = s.batches := rfl
@[simp] theorem emit_cfg (s : State) (e : Event) : (s.emit e).cfg = s.cfg := rfl

@[simp] theorem fail_fut (s : State) (m : String) (f : Nat) : (s.fail m).fut f = s.fut f := rfl
@[simp] theorem fail_futs (s : State) (m : String) : (s.fail m).futs = s.futs := rfl
@[simp] theorem fail_trace (s : State) (m : String) : (s.fail m).trace = s.trace := rfl
@[simp] theorem fail_ctl (s : State) (m : String) : (s.fail m).ctl = s.ctl := rfl
@[simp] theorem fail_batches (s : State) (m : String) : (s.fail m).batches = s.batches := rfl

@[simp] theorem setFut_trace (s : State) (t : Nat) (x : Fut) : (s.setFut t x).trace = s.trace := rfl
@[simp] theorem setFut_ctl (s : State) (t : Nat) (x : Fut) : (s.setFut t x).ctl = s.ctl := rfl
@[simp] theorem setFut_batches (s : State) (t : Nat) (x : Fut) : (s.setFut t x).batches = s.batches := rfl
@[simp] theorem setFut_len (s : State) (t : Nat) (x : Fut) : (s.setFut t x).futs.length = s.futs.length := by
  simp [State.setFut]

@[simp] theorem updTask_trace (s : State) (t : Nat) (g : TaskSt → TaskSt) : (s.updTask t g).trace = s.trace := rfl
@[simp] theorem updTask_ctl (s : State) (t : Nat) (g : TaskSt → TaskSt) : (s.updTask t g).ctl = s.ctl := rfl
@[simp] theorem updTask_batches (s : State) (t : Nat) (g : TaskSt → TaskSt) : (s.updTask t g).batches = s.batches := rfl
@[simp] theorem updTask_len (s : State) (t : Nat) (g : TaskSt → TaskSt) :
    (s.updTask t g).futs.length = s.futs.length := by simp [State.updTask]

theorem fut_updTask (s : State) (t f : Nat) (g : TaskSt → TaskSt) :
    (s.updTask t g).fut f = if f = t ∧ t < s.futs.length then { s.fut t with ts := g (s.fut t).ts } else s.fut f := by
  unfold State.updTask; simp only [fut_setFut]

theorem fut_updTask_self (s : State) (t : Nat) (g : TaskSt → TaskSt) (h : t < s.futs.length) :
    (s.updTask t g).fut t = { s.fut t with ts := g (s.fut t).ts } := by
  simp [fut_updTask, h]

theorem fut_updTask_ne (s : State) (t f : Nat) (g : TaskSt → TaskSt) (h : f ≠ t) :
    (s.updTask t g).fut f = s.fut f := by
  simp [fut_updTask, h]

theorem task_updTask_self (s : State) (t : Nat) (g : TaskSt → TaskSt) (h : t < s.futs.length) :
    (s.updTask t g).task t = g (s.task t) := by
  simp [State.task, fut_updTask_self s t g h]

@[simp] theorem out_updTask (s : State) (t f : Nat) (g : TaskSt → TaskSt) : (s.updTask t g).out f = s.out f := by
  unfold State.out; rw [fut_updTask]; split
  · rename_i h; rw [h.1]
  · rfl

@[simp] theorem computed_updTask (s : State) (t f : Nat) (g : TaskSt → TaskSt) :
    (s.updTask t g).computed f = s.computed f := by
  simp [State.computed]

@[simp] theorem kind_updTask (s : State) (t f : Nat) (g : TaskSt → TaskSt) :
    ((s.updTask t g).fut f).kind = (s.fut f).kind := by
  rw [fut_updTask]; split
  · rename_i h; rw [h.1]
  · rfl

@[simp] theorem complete_trace (s : State) (f : Nat) (o : Outcome) : (s.complete f o).trace = .done f o :: s.trace := rfl
@[simp] theorem complete_ctl (s : State) (f : Nat) (o : Outcome) : (s.complete f o).ctl = s.ctl := rfl
@[simp] theorem complete_batches (s : State) (f : Nat) (o : Outcome) : (s.complete f o).batches = s.batches := rfl

theorem fut_complete (s : State) (f g : Nat) (o : Outcome) :
    (s.complete f o).fut g =
      if g = f ∧ f < s.futs.length then
        { s.fut f with out := some o,
                       ts := { (if s.cfg.keepDeps then (s.fut f).ts else { (s.fut f).ts with deps := [] }) with
                               lastY := .none, deps := [] } }
      else s.fut g := by
  unfold State.complete
  simp only [emit_fut, fut_setFut]

/-! ### the relation -/

def isRunYield : Event → Bool
  | .run _ _ _ _ => true
  | .yield _ _ _ => true
  | _ => false

def isItemKind : FKind → Bool
  | .item _ _ _ _ => true
  | _ => false

/-- how one future may change under a quiet operation (`x` before, `y` after).  The clause `kind` lets the default
    future (kind `const`, beyond the end of the heap) be replaced by a freshly allocated one. -/
structure FutLe (x y : Fut) : Prop where
  out : ∀ o, x.out = some o → y.out = some o
  kind : y.kind = x.kind ∨ x.kind = .const
  started : y.ts.started = x.ts.started
  resumes : y.ts.resumes = x.ts.resumes
  pending : y.ts.pending = true → x.ts.pending = true
  ly : (y.ts.lastY = x.ts.lastY ∧ y.ts.deps = x.ts.deps) ∨
       (y.ts.lastY = .none ∧ y.ts.deps = [] ∧ (y.ts.pending = false ∨ x.kind ≠ .task))
  /-- a task is completed only when it is not suspended -/
  fin : x.out = none → y.out ≠ none → (y.ts.pending = false ∨ x.kind ≠ .task)

theorem FutLe.refl (x : Fut) : FutLe x x :=
  ⟨fun _ h => h, Or.inl rfl, rfl, rfl, fun h => h, Or.inl ⟨rfl, rfl⟩, fun h1 h2 => absurd h1 h2⟩

theorem FutLe.pending_false {x y : Fut} (h : FutLe x y) (hx : x.ts.pending = false) : y.ts.pending = false := by
  cases hy : y.ts.pending with
  | false => rfl
  | true => have := h.pending hy; rw [hx] at this; cases this

theorem FutLe.kind_ne_task {x y : Fut} (h : FutLe x y) (hy : y.kind ≠ .task) : x.kind ≠ .task := by
  cases h.kind with
  | inl hk => rw [← hk]; exact hy
  | inr hk => rw [hk]; intro h'; cases h'

theorem FutLe.kind_task {x y : Fut} (h : FutLe x y) (hx : x.kind = .task) : y.kind = .task := by
  cases h.kind with
  | inl hk => rw [hk]; exact hx
  | inr hk => rw [hk] at hx; cases hx

theorem FutLe.kind_item {x y : Fut} (h : FutLe x y) (hx : isItemKind x.kind = true) : isItemKind y.kind = true := by
  cases h.kind with
  | inl hk => rw [hk]; exact hx
  | inr hk => rw [hk] at hx; cases hx

theorem FutLe.trans {x y z : Fut} (h1 : FutLe x y) (h2 : FutLe y z) : FutLe x z where
  out := fun o h => h2.out o (h1.out o h)
  kind := by
    cases h1.kind with
    | inl a => cases h2.kind with
      | inl b => exact Or.inl (b.trans a)
      | inr b => exact Or.inr (a ▸ b)
    | inr a => exact Or.inr a
  started := h2.started.trans h1.started
  resumes := h2.resumes.trans h1.resumes
  pending := fun h => h1.pending (h2.pending h)
  ly := by
    cases h2.ly with
    | inl b =>
      cases h1.ly with
      | inl a => exact Or.inl ⟨b.1.trans a.1, b.2.trans a.2⟩
      | inr a =>
        refine Or.inr ⟨b.1.trans a.1, b.2.trans a.2.1, ?_⟩
        cases a.2.2 with
        | inl p => exact Or.inl (h2.pending_false p)
        | inr k => exact Or.inr k
    | inr b =>
      refine Or.inr ⟨b.1, b.2.1, ?_⟩
      cases b.2.2 with
      | inl p => exact Or.inl p
      | inr k => exact Or.inr (h1.kind_ne_task k)
  fin := by
    intro hx hz
    cases hy : y.out with
    | none =>
      cases h2.fin hy hz with
      | inl p => exact Or.inl p
      | inr k => exact Or.inr (h1.kind_ne_task k)
    | some o =>
      cases h1.fin hx (by rw [hy]; intro h; cases h) with
      | inl p => exact Or.inl (h2.pending_false p)
      | inr k => exact Or.inr k

/-- the part of `Quiet` that does not mention the control stack -/
structure QuietF (s s' : State) : Prop where
  fut : ∀ f, FutLe (s.fut f) (s'.fut f)
  trace : ∃ new, s'.trace = new ++ s.trace ∧
    ∀ e ∈ new, isRunYield e = false ∧ ∀ f o, e = .done f o → s'.out f = some o
  batches : ∀ b' ∈ s'.batches, ∀ i ∈ b'.items,
    (∃ b ∈ s.batches, i ∈ b.items) ∨ isItemKind (s'.fut i).kind = true

/-- task `f` has an uncomputed dependency (`_handle_async_task` will not continue it) -/
def Blocked (s : State) (f : Nat) : Prop := ∃ d ∈ (s.task f).deps, s.computed d = false

/-- the context bookkeeping is not disturbed: same active task, `_contexts_active` is not reset, no context is
    registered with a task, the kinds of the existing context objects do not change and none is created -/
structure CtxSame (s s' : State) : Prop where
  active : s'.active = s.active
  ca : ∀ f, (s.task f).ctxActive = true → (s'.task f).ctxActive = true
  cxs : ∀ f, ∀ c ∈ (s'.task f).ctxs, c ∈ (s.task f).ctxs
  na : ∀ c, s'.ctxIsNonAsync c = s.ctxIsNonAsync c
  clen : s'.ctxs.length = s.ctxs.length

theorem CtxSame.refl (s : State) : CtxSame s s := ⟨rfl, fun _ h => h, fun _ _ h => h, fun _ => rfl, rfl⟩

theorem CtxSame.trans {s s' s'' : State} (h1 : CtxSame s s') (h2 : CtxSame s' s'') : CtxSame s s'' :=
  ⟨h2.active.trans h1.active, fun f h => h2.ca f (h1.ca f h), fun f c h => h1.cxs f c (h2.cxs f c h),
   fun c => (h2.na c).trans (h1.na c), h2.clen.trans h1.clen⟩

theorem nonasync_congr {s s' : State} (h : s'.ctxs = s.ctxs) (c : Nat) : s'.ctxIsNonAsync c = s.ctxIsNonAsync c := by
  unfold State.ctxIsNonAsync; rw [h]

theorem ctxSame_of_eq {s s' : State} (hf : s'.futs = s.futs) (ha : s'.active = s.active) (hx : s'.ctxs = s.ctxs) :
    CtxSame s s' where
  active := ha
  ca := fun f h => by unfold State.task State.fut at h ⊢; rw [hf]; exact h
  cxs := fun f c h => by unfold State.task State.fut at h ⊢; rw [← hf]; exact h
  na := nonasync_congr hx
  clen := by rw [hx]

/-- quiet, the control stack and the context bookkeeping do not change, and a task is completed only by failing it
    while it is blocked (`_accept_error` on a suspended task, from `_pause_contexts` / `_resume_contexts`); the regular
    completion of the running task (`finishTask`) is the one quiet operation that is not `Quiet` but only `QuietF` -/
structure Quiet (s s' : State) : Prop extends QuietF s s', CtxSame s s' where
  ctl : s'.ctl = s.ctl
  tf : ∀ f o, (s.fut f).kind = .task → s.out f = none → s'.out f = some o → Blocked s f

theorem QuietF.refl (s : State) : QuietF s s :=
  ⟨fun _ => FutLe.refl _, ⟨[], rfl, by simp⟩, fun b hb i hi => Or.inl ⟨b, hb, hi⟩⟩

theorem Quiet.refl (s : State) : Quiet s s :=
  ⟨QuietF.refl s, CtxSame.refl s, rfl, fun _ _ _ h1 h2 => by rw [h1] at h2; cases h2⟩

theorem QuietF.trans {s s' s'' : State} (h1 : QuietF s s') (h2 : QuietF s' s'') : QuietF s s'' where
  fut := fun f => (h1.fut f).trans (h2.fut f)
  trace := by
    obtain ⟨n1, e1, p1⟩ := h1.trace
    obtain ⟨n2, e2, p2⟩ := h2.trace
    refine ⟨n2 ++ n1, by rw [e2, e1, List.append_assoc], ?_⟩
    intro e he
    rcases List.mem_append.1 he with he | he
    · exact p2 e he
    · refine ⟨(p1 e he).1, fun f o hd => ?_⟩
      exact (h2.fut f).out o ((p1 e he).2 f o hd)
  batches := by
    intro b'' hb'' i hi
    rcases h2.batches b'' hb'' i hi with ⟨b', hb', hi'⟩ | hk
    · rcases h1.batches b' hb' i hi' with hb | hk
      · exact Or.inl hb
      · exact Or.inr ((h2.fut i).kind_item hk)
    · exact Or.inr hk

theorem QuietF.out {s s' : State} (h : QuietF s s') {f : Nat} {o : Outcome} (ho : s.out f = some o) :
    s'.out f = some o := (h.fut f).out o ho

theorem QuietF.computed {s s' : State} (h : QuietF s s') {f : Nat} (ho : s.computed f = true) :
    s'.computed f = true := by
  unfold State.computed at *
  cases hf : s.out f with
  | none => simp [hf] at ho
  | some o => simp [h.out hf]

theorem QuietF.kind_task {s s' : State} (h : QuietF s s') {f : Nat} (hk : (s.fut f).kind = .task) :
    (s'.fut f).kind = .task := (h.fut f).kind_task hk

theorem QuietF.kind_item {s s' : State} (h : QuietF s s') {f : Nat} (hk : isItemKind (s.fut f).kind = true) :
    isItemKind (s'.fut f).kind = true := (h.fut f).kind_item hk

/-- being blocked is inherited backwards along quiet operations: dependencies are only cleared, outcomes only added -/
theorem QuietF.blocked {s s' : State} (h : QuietF s s') {f : Nat} (hb : Blocked s' f) : Blocked s f := by
  obtain ⟨d, hd, hc⟩ := hb
  have hly := (h.fut f).ly
  rcases hly with ⟨_, e2⟩ | ⟨_, e2, _⟩
  · refine ⟨d, ?_, ?_⟩
    · have : (s'.task f).deps = (s.task f).deps := e2
      rw [← this]; exact hd
    · cases hcs : s.computed d with
      | false => rfl
      | true => rw [h.computed hcs] at hc; cases hc
  · have : (s'.task f).deps = [] := e2
    rw [this] at hd; cases hd

theorem Quiet.trans {s s' s'' : State} (h1 : Quiet s s') (h2 : Quiet s' s'') : Quiet s s'' := by
  refine ⟨h1.toQuietF.trans h2.toQuietF, h1.toCtxSame.trans h2.toCtxSame, h2.ctl.trans h1.ctl, ?_⟩
  intro f o hk h0 ho
  cases hm : s'.out f with
  | none => exact h1.toQuietF.blocked (h2.tf f o ((h1.fut f).kind_task hk) hm ho)
  | some o' =>
    have := (h2.fut f).out o' hm
    unfold State.out at ho; rw [ho] at this; injection this with this; subst this
    exact h1.tf f o hk h0 hm

/-! ### primitive quiet operations -/

theorem tf_of_eq {s s' : State} (hf : s'.futs = s.futs) :
    ∀ f o, (s.fut f).kind = .task → s.out f = none → s'.out f = some o → Blocked s f :=
  fun f o _ h1 h2 => by unfold State.out State.fut at h1 h2; rw [hf, h1] at h2; cases h2

/-- a change of fields other than `futs`, `trace`, `batches`, `ctl`, `active`, `ctxs` -/
theorem quiet_of_eq {s s' : State} (hf : s'.futs = s.futs) (ht : s'.trace = s.trace) (hb : s'.batches = s.batches)
    (hc : s'.ctl = s.ctl) (ha : s'.active = s.active) (hx : s'.ctxs = s.ctxs) : Quiet s s' where
  fut := fun f => by unfold State.fut; rw [hf]; exact FutLe.refl _
  trace := ⟨[], by simp [ht], by simp⟩
  batches := fun b h i hi => Or.inl ⟨b, hb ▸ h, hi⟩
  toCtxSame := ctxSame_of_eq hf ha hx
  ctl := hc
  tf := tf_of_eq hf

theorem quietF_of_eq {s s' : State} (hf : s'.futs = s.futs) (ht : s'.trace = s.trace) (hb : s'.batches = s.batches) :
    QuietF s s' where
  fut := fun f => by unfold State.fut; rw [hf]; exact FutLe.refl _
  trace := ⟨[], by simp [ht], by simp⟩
  batches := fun b h i hi => Or.inl ⟨b, hb ▸ h, hi⟩

/-- events that are neither `run`, `yield` nor `done` -/
def isPlain : Event → Bool
  | .run _ _ _ _ => false
  | .yield _ _ _ => false
  | .done _ _ => false
  | _ => true

theorem isPlain_spec {e : Event} (h : isPlain e = true) :
    isRunYield e = false ∧ ∀ f o, e ≠ .done f o := by
  cases e <;> simp_all [isPlain, isRunYield]

/-- a change of `trace` by plain events and of fields other than `futs`, `batches`, `ctl`, `active`, `ctxs` -/
theorem quiet_of_trace {s s' : State} (new : List Event) (hf : s'.futs = s.futs) (ht : s'.trace = new ++ s.trace)
    (hn : ∀ e ∈ new, isPlain e = true) (hb : s'.batches = s.batches) (hc : s'.ctl = s.ctl)
    (ha : s'.active = s.active) (hx : s'.ctxs = s.ctxs) : Quiet s s' where
  fut := fun f => by unfold State.fut; rw [hf]; exact FutLe.refl _
  trace := ⟨new, ht, fun e he => ⟨(isPlain_spec (hn e he)).1, fun f o h => absurd h ((isPlain_spec (hn e he)).2 f o)⟩⟩
  batches := fun b h i hi => Or.inl ⟨b, hb ▸ h, hi⟩
  toCtxSame := ctxSame_of_eq hf ha hx
  ctl := hc
  tf := tf_of_eq hf

theorem quiet_emit (s : State) (e : Event) (h : isPlain e = true) : Quiet s (s.emit e) :=
  quiet_of_trace [e] rfl rfl (by simpa using h) rfl rfl rfl rfl

theorem quiet_fail (s : State) (m : String) : Quiet s (s.fail m) := quiet_of_eq rfl rfl rfl rfl rfl rfl

/-- the task updates that keep the five tracked fields: everything but `started`, `resumes`, `lastY`, `deps`;
    `pending` may be reset -/
def TaskOkF (g : TaskSt → TaskSt) : Prop :=
  ∀ ts, (g ts).started = ts.started ∧ (g ts).resumes = ts.resumes ∧ ((g ts).pending = true → ts.pending = true) ∧
    (g ts).lastY = ts.lastY ∧ (g ts).deps = ts.deps

/-- ... and that neither reset `ctxActive` nor register a context -/
def TaskOk (g : TaskSt → TaskSt) : Prop :=
  TaskOkF g ∧ ∀ ts, (ts.ctxActive = true → (g ts).ctxActive = true) ∧ ∀ c ∈ (g ts).ctxs, c ∈ ts.ctxs

theorem quietF_updTask (s : State) (t : Nat) (g : TaskSt → TaskSt) (hg : TaskOkF g) : QuietF s (s.updTask t g) where
  fut := fun f => by
    rw [fut_updTask]; split
    · rename_i h; rw [h.1]
      obtain ⟨a, b, c, d, e⟩ := hg (s.fut t).ts
      exact ⟨fun _ h => h, Or.inl rfl, a, b, c, Or.inl ⟨d, e⟩, fun h1 h2 => absurd h1 h2⟩
    · exact FutLe.refl _
  trace := ⟨[], rfl, by simp⟩
  batches := fun b h i hi => Or.inl ⟨b, h, hi⟩

@[simp] theorem updTask_active (s : State) (t : Nat) (g : TaskSt → TaskSt) : (s.updTask t g).active = s.active := rfl
@[simp] theorem updTask_ctxs (s : State) (t : Nat) (g : TaskSt → TaskSt) : (s.updTask t g).ctxs = s.ctxs := rfl
@[simp] theorem emit_active (s : State) (e : Event) : (s.emit e).active = s.active := rfl
@[simp] theorem emit_ctxs (s : State) (e : Event) : (s.emit e).ctxs = s.ctxs := rfl
@[simp] theorem complete_active (s : State) (f : Nat) (o : Outcome) : (s.complete f o).active = s.active := rfl
@[simp] theorem complete_ctxs (s : State) (f : Nat) (o : Outcome) : (s.complete f o).ctxs = s.ctxs := rfl
@[simp] theorem alloc_active (s : State) (x : Fut) (nk : NewKind) : (s.alloc x nk).1.active = s.active := rfl
@[simp] theorem alloc_ctxs (s : State) (x : Fut) (nk : NewKind) : (s.alloc x nk).1.ctxs = s.ctxs := rfl

theorem ctxSame_updTask (s : State) (t : Nat) (g : TaskSt → TaskSt)
    (hg : ∀ ts, (ts.ctxActive = true → (g ts).ctxActive = true) ∧ ∀ c ∈ (g ts).ctxs, c ∈ ts.ctxs) :
    CtxSame s (s.updTask t g) where
  active := rfl
  ca := fun f h => by
    unfold State.task at h ⊢; rw [fut_updTask]; split
    · rename_i hh; rw [hh.1] at h; exact (hg _).1 h
    · exact h
  cxs := fun f c h => by
    unfold State.task at h ⊢; rw [fut_updTask] at h; split at h
    · rename_i hh; rw [hh.1]; exact (hg _).2 c h
    · exact h
  na := fun _ => rfl
  clen := rfl

theorem quiet_updTask (s : State) (t : Nat) (g : TaskSt → TaskSt) (hg : TaskOk g) : Quiet s (s.updTask t g) :=
  ⟨quietF_updTask s t g hg.1, ctxSame_updTask s t g hg.2, rfl,
    fun f o _ h1 h2 => by rw [out_updTask, h1] at h2; cases h2⟩

/-- completing an existing, uncomputed future that is not a suspended task -/
theorem quietF_complete (s : State) (f : Nat) (o : Outcome) (h0 : (s.fut f).kind ≠ .const) (h1 : s.out f = none)
    (h2 : (s.task f).pending = false ∨ (s.fut f).kind ≠ .task) : QuietF s (s.complete f o) where
  fut := fun g => by
    rw [fut_complete]; split
    · rename_i h; rw [h.1]
      have h2' : ({ (if s.cfg.keepDeps then (s.fut f).ts else { (s.fut f).ts with deps := [] }) with
                     lastY := .none, deps := [] } : TaskSt).pending = false ∨ (s.fut f).kind ≠ .task := by
        cases h2 with
        | inl p => left; split <;> exact p
        | inr k => exact Or.inr k
      refine ⟨fun o' h => ?_, Or.inl rfl, ?_, ?_, ?_, Or.inr ⟨rfl, rfl, h2'⟩, fun _ _ => h2'⟩
      · unfold State.out at h1; rw [h1] at h; cases h
      · split <;> rfl
      · split <;> rfl
      · split <;> exact fun h => h
    · exact FutLe.refl _
  trace := ⟨[.done f o], rfl, by
    intro e he
    simp only [List.mem_singleton] at he; subst he
    refine ⟨rfl, fun f' o' h => ?_⟩
    injection h with hf ho; subst hf; subst ho
    unfold State.out; rw [fut_complete]; simp [lt_of_kind s f h0]⟩
  batches := fun b h i hi => Or.inl ⟨b, h, hi⟩

theorem out_complete (s : State) (f g : Nat) (o : Outcome) :
    (s.complete f o).out g = if g = f ∧ f < s.futs.length then some o else s.out g := by
  unfold State.out; rw [fut_complete]; split <;> rfl

theorem ctxSame_complete (s : State) (f : Nat) (o : Outcome) : CtxSame s (s.complete f o) where
  active := rfl
  ca := fun g h => by
    unfold State.task at h ⊢; rw [fut_complete]; split
    · rename_i hh; rw [hh.1] at h; simp only []; split <;> exact h
    · exact h
  cxs := fun g c h => by
    unfold State.task at h ⊢; rw [fut_complete] at h; split at h
    · rename_i hh; rw [hh.1]; simp only [] at h; split at h <;> exact h
    · exact h
  na := fun _ => rfl
  clen := rfl

theorem quiet_complete (s : State) (f : Nat) (o : Outcome) (h0 : (s.fut f).kind ≠ .const) (h1 : s.out f = none)
    (h2 : (s.task f).pending = false ∨ (s.fut f).kind ≠ .task)
    (h3 : (s.fut f).kind ≠ .task ∨ Blocked s f) : Quiet s (s.complete f o) := by
  refine ⟨quietF_complete s f o h0 h1 h2, ctxSame_complete s f o, rfl, ?_⟩
  intro g o' hk hn ho
  rw [out_complete] at ho
  split at ho
  · rename_i h
    cases h3 with
    | inl h3 => rw [h.1] at hk; exact absurd hk h3
    | inr h3 => rw [h.1]; exact h3
  · rw [hn] at ho; cases ho

/-- allocating a fresh future -/
theorem quiet_alloc (s : State) (x : Fut) (nk : NewKind) (h1 : x.ts.started = false) (h2 : x.ts.resumes = 0)
    (h3 : x.ts.lastY = .none) (h4 : x.ts.deps = []) (h5 : x.ts.ctxs = []) : Quiet s (s.alloc x nk).1 where
  fut := fun f => by
    rw [fut_alloc]; split
    · rename_i h; rw [h, fut_default_of_le s _ (Nat.le_refl _)]
      exact ⟨fun _ h => (by cases h), Or.inr rfl, h1, h2, fun _ => rfl, Or.inl ⟨h3, h4⟩,
        fun _ _ => Or.inr (by intro h; cases h)⟩
    · exact FutLe.refl _
  trace := ⟨[.new s.futs.length nk], rfl, by simp [isRunYield]⟩
  batches := fun b h i hi => Or.inl ⟨b, h, hi⟩
  active := rfl
  ca := fun f h => by
    unfold State.task at h ⊢; rw [fut_alloc]; split
    · rename_i hh; rw [hh, fut_default_of_le s _ (Nat.le_refl _)] at h; cases h
    · exact h
  cxs := fun f c h => by
    unfold State.task at h ⊢; rw [fut_alloc] at h; split at h
    · rw [h5] at h; cases h
    · exact h
  na := fun _ => rfl
  clen := rfl
  ctl := rfl
  tf := fun f o hk h1 h2 => by
    unfold State.out at h1 h2
    rw [fut_alloc] at h2
    split at h2
    · rename_i h; rw [h, fut_default_of_le s _ (Nat.le_refl _)] at hk; cases hk
    · rw [h1] at h2; cases h2

end AsynqModel.Core.P2
