import AsynqModel.Proofs.P22GenG
/-!
# P22, part 14: every instruction of a task body preserves the simulation invariant (`sim_genStep`)
-/
namespace AsynqModel.Core.P22
open AsynqModel.Core AsynqModel.Core.P22.SeqSV

variable {cfg : Cfg} {tops : List (Conv × Body)} {s : State} {g : Ghost} {t : Nat} {old : Option Nat} {rest' : List Ctl}

theorem rest_nil_of_done (C : GC cfg tops s g t old rest') (hp : (s.task t).pending = false)
    (hnsy : ∀ f k h, (s.task t).body ≠ .syncret f k h)
    (hd : ∀ Ec l, (runBody cfg (s.task t).body Ec [] l).1 = [] ∧
      ((∃ o, (runBody cfg (s.task t).body Ec [] l).2 = .done o) ∨ (s.task t).conts = [])) :
    ∀ E, rest cfg s g t E = [] := by
  intro E
  rw [rest_before C.sim C.kt C.nct]
  simp only [hp, Bool.false_and]
  rw [headD_plain _ _ _ _ _ _ hnsy]
  obtain ⟨h1, h2⟩ := hd (envOf s E (cids (s.task t))) (locOf s g (s.task t))
  rw [h1]
  rcases h2 with ⟨o, ho⟩ | hc
  · rw [ho, runFrames_done]; rfl
  · rw [hc]
    cases (runBody cfg (s.task t).body (envOf s E (cids (s.task t))) [] (locOf s g (s.task t))).2 <;> rfl

/-- **one instruction of the body of the running task preserves the simulation invariant** (with a new ghost: the
    tasks called by the instruction are recorded) -/
theorem sim_genStep (C : GC cfg tops s g t old rest') (hst : (s.genStep t old).stuck = none)
    (henv : ∀ var k ip, (s.task t).pending = false → (s.task t).body = .read var k → g t = some ip →
      s.svGet var = get (envOf s ip.E (cids (s.task t))) var) :
    ∃ g', Sim cfg tops (s.genStep t old) g' ∧ GExt g g' := by
  cases hp : (s.task t).pending with
  | true =>
    cases hs : (s.task t).started with
    | false => exact ⟨g, sim_start C hst hp hs, GExt.refl g⟩
    | true =>
      refine ⟨g, ?_, GExt.refl g⟩
      have hst' := hst
      unfold State.genStep at hst' ⊢
      simp only [hp, hs, Bool.not_true, Bool.false_eq_true, if_false, if_true] at hst' ⊢
      cases hb : (s.task t).body <;> simp only [hb] at hst' ⊢ <;> try (simp at hst'; done)
      case yld y k h =>
        have := sim_resume C hst hp hs k h (.inl ⟨y, hb⟩) ((s.task t).resumes + 1)
          (.run t ((s.task t).resumes + 1) ((s.task t).lastY.leaves.all s.computed)
            (.out (match unwrap s.out (s.task t).lastY with | .ok v => .ok v | .error e => .err e)))
          ⟨rfl, rfl⟩ (fun ts => if s.cfg.keepDeps then ts.deps else []) (by intro x hx; split at hx; exact hx; cases hx)
        cases hr : unwrap s.out (s.task t).lastY with
        | ok v => simp only [hr] at this ⊢; exact this
        | error x => simp only [hr] at this ⊢; exact this
      case reyld k h =>
        have := sim_resume C hst hp hs k h (.inr hb) ((s.task t).resumes + 1)
          (.run t ((s.task t).resumes + 1) ((s.task t).lastY.leaves.all s.computed)
            (.out (match unwrap s.out (s.task t).lastY with | .ok v => .ok v | .error e => .err e)))
          ⟨rfl, rfl⟩ (fun ts => if s.cfg.keepDeps then ts.deps else []) (by intro x hx; split at hx; exact hx; cases hx)
        cases hr : unwrap s.out (s.task t).lastY with
        | ok v => simp only [hr] at this ⊢; exact this
        | error x => simp only [hr] at this ⊢; exact this
  | false =>
    cases hb : (s.task t).body
    case ret tag =>
      refine ⟨g, ?_, GExt.refl g⟩
      have e : s.genStep t old = s.finishTask t old (.ok (.node tag (s.task t).env)) := by
        unfold State.genStep; simp only [hp, hb, Bool.false_eq_true, if_false]
      rw [e]
      exact sim_finish C hst hp _ (rest_nil_of_done C hp (by rw [hb]; intro _ _ _; nofun)
        (by intro Ec l; rw [hb]; exact ⟨rfl, .inl ⟨_, rfl⟩⟩)) (by rw [hb]; intro _ _ _; nofun)
    case res tag =>
      refine ⟨g, ?_, GExt.refl g⟩
      have e : s.genStep t old = s.finishTask t old (.ok (.node tag (s.task t).env)) := by
        unfold State.genStep; simp only [hp, hb, Bool.false_eq_true, if_false]
      rw [e]
      exact sim_finish C hst hp _ (rest_nil_of_done C hp (by rw [hb]; intro _ _ _; nofun)
        (by intro Ec l; rw [hb]; exact ⟨rfl, .inl ⟨_, rfl⟩⟩)) (by rw [hb]; intro _ _ _; nofun)
    case raise x =>
      refine ⟨g, ?_, GExt.refl g⟩
      have e : s.genStep t old = s.finishTask t old (.err (.u x)) := by
        unfold State.genStep; simp only [hp, hb, Bool.false_eq_true, if_false]
      rw [e]
      exact sim_finish C hst hp _ (rest_nil_of_done C hp (by rw [hb]; intro _ _ _; nofun)
        (by intro Ec l; rw [hb]; exact ⟨rfl, .inl ⟨_, rfl⟩⟩)) (by rw [hb]; intro _ _ _; nofun)
    case reraise =>
      refine ⟨g, ?_, GExt.refl g⟩
      have e : s.genStep t old = s.finishTask t old (.err ((s.task t).caught.getD (.u 0))) := by
        unfold State.genStep; simp only [hp, hb, Bool.false_eq_true, if_false]
      rw [e]
      exact sim_finish C hst hp _ (rest_nil_of_done C hp (by rw [hb]; intro _ _ _; nofun)
        (by intro Ec l; rw [hb]; exact ⟨rfl, .inl ⟨_, rfl⟩⟩)) (by rw [hb]; intro _ _ _; nofun)
    case spawn child pass k => exact ⟨g, sim_spawn C hst hp child pass k hb, GExt.refl g⟩
    case item kind payload mode k => exact ⟨g, sim_item C hst hp kind payload mode k hb, GExt.refl g⟩
    case const v k => exact ⟨g, sim_const C hst hp v k hb, GExt.refl g⟩
    case errfut x k => exact ⟨g, sim_errfut C hst hp x k hb, GExt.refl g⟩
    case «lazy» o k => exact ⟨g, sim_lazy C hst hp o k hb, GExt.refl g⟩
    case yld y k h => exact sim_yld C hst hp y k h hb
    case reyld k h => exact ⟨g, sim_reyld C hst hp k h hb, GExt.refl g⟩
    case sync child pass k h => exact sim_sync C hst hp child pass k h hb
    case syncfut r k h => exact sim_syncfut C hst hp r k h hb
    case syncret f k h => exact ⟨g, sim_syncret C hst hp f k h hb, GExt.refl g⟩
    case withCtx c b k => exact ⟨g, sim_withCtx C hst hp c b k hb, GExt.refl g⟩
    case endwith =>
      refine ⟨g, ?_, GExt.refl g⟩
      cases hcs : (s.task t).conts with
      | nil =>
        have e : s.genStep t old = s.finishTask t old (.ok .none) := by
          rw [P4.genStep_endwith s t old hp hb, hcs]
        rw [e]
        exact sim_finish C hst hp _ (rest_nil_of_done C hp (by rw [hb]; intro _ _ _; nofun)
          (by intro Ec l; rw [hb]; exact ⟨rfl, .inr hcs⟩)) (by rw [hb]; intro _ _ _; nofun)
      | cons p cs =>
        obtain ⟨cid, k⟩ := p
        exact sim_endwith C hst hp hb cid k cs hcs
    case read var k => exact ⟨g, sim_read C hst hp var k hb (fun ip hip => henv var k ip hp hb hip), GExt.refl g⟩
    case active k => exact ⟨g, sim_active C hst hp k hb, GExt.refl g⟩

end AsynqModel.Core.P22
