import AsynqModel.Proofs.P25LiveGen
/-
  P25, part 11: `InvL'` along a run in which the MAX_TASK_STACK_SIZE guard does not fire, and what it says about
  the final state: every task that has started is computed or `Orphaned` - reachable, through "awaited by an uncomputed
  task", from a task that a NonAsyncContext failed while it was suspended.
-/
namespace AsynqModel.Core.P25
open AsynqModel.Core AsynqModel.Core.P6 AsynqModel.Core.P6T AsynqModel.Core.P20 AsynqModel.Core.P21

/-- a started task that is left uncomputed at the end because the only tasks that awaited it were failed by a
    NonAsyncContext while they were suspended (or are themselves orphaned) -/
inductive Orphaned (s : State) : Nat → Prop
  | direct {u t : Nat} : (view s u).out = some (.err .nonasync) → t ∈ extractFutures (view s u).prevY → Orphaned s t
  | via {u t : Nat} : (view s u).kind = .task → (view s u).out = none → t ∈ (view s u).deps → Orphaned s u →
      Orphaned s t

/-- an orphan bears witness to a NonAsync failure -/
theorem Orphaned.witness {s : State} {t : Nat} (h : Orphaned s t) : ∃ u, s.out u = some (.err .nonasync) := by
  induction h with
  | direct h1 _ => exact ⟨_, h1⟩
  | via _ _ _ _ ih => exact ih

/-- every scheduler-side and every generator step of a run in which the guard does not fire preserves `InvL'` -/
theorem invL'_step {s : State} (h : Good' s) (hL : InvL' s) (hnd : s.isDone = false)
    (hst : (step s).stuck = none) (hg : (step s).guardFired = false) : InvL' (step s) := by
  have hs := h.stuck
  have hg0 : s.guardFired = false := P3.guard_mono s hg
  have hr : s.raising = none := (P3.reach_core s h.ws.reach hg0).1.raising
  have hC : P10.CInv s := P10.ws_cinv h.ws hg0
  have pin := P2.pinv_reach h.ws.reach
  refine invL'_of hL ?_
  cases hctl : s.ctl with
  | nil =>
    have noroot : ∀ x, RootIn s x → (view (step s) x).out = none → RootIn (step s) x := by
      intro x ⟨c, hc, _⟩; rw [hctl] at hc; cases hc
    cases hcur : s.curTop with
    | some f =>
      have e := step_nil_some s hs hctl f hcur
      rw [e]
      rw [e] at noroot
      refine lstep_views hL (fun _ => rfl) noroot ?_
      intro x hx _
      exact Or.inl hx
    | none =>
      cases htops : s.tops with
      | nil => simp [State.isDone, hs, hctl, hcur, htops] at hnd
      | cons q rest =>
        obtain ⟨conv, body⟩ := q
        have e : step s = { ((({ s with tops := rest, topIdx := s.topIdx + 1 } : State).emit (.top s.topIdx conv)).newTask body []).1 with
            curTop := some ((({ s with tops := rest, topIdx := s.topIdx + 1 } : State).emit (.top s.topIdx conv)).newTask body []).2,
            ctl := [.waitEnter ((({ s with tops := rest, topIdx := s.topIdx + 1 } : State).emit (.top s.topIdx conv)).newTask body []).2] } := by
          unfold step; simp [hs, hctl, hcur, htops]
        have U := updN_newTask s (({ s with tops := rest, topIdx := s.topIdx + 1 } : State).emit (.top s.topIdx conv))
          rfl rfl rfl rfl body []
        rw [e] at noroot ⊢
        generalize hrd : ({ ((({ s with tops := rest, topIdx := s.topIdx + 1 } : State).emit (.top s.topIdx conv)).newTask body []).1 with
            curTop := some ((({ s with tops := rest, topIdx := s.topIdx + 1 } : State).emit (.top s.topIdx conv)).newTask body []).2,
            ctl := [.waitEnter ((({ s with tops := rest, topIdx := s.topIdx + 1 } : State).emit (.top s.topIdx conv)).newTask body []).2] } : State) = r at noroot
        have hvN : view r s.futs.length = taskView body [] := by subst hrd; exact U.viewN
        have hvO : ∀ f, f ≠ s.futs.length → view r f = view s f := by subst hrd; exact U.viewO
        have hstk : r.stack = s.stack := by subst hrd; exact U.stack
        have hlt : ∀ f, (view s f).out ≠ none ∨ (view s f).kind = .task → f ≠ s.futs.length := by
          intro f hf e1
          rw [e1, view_ge s _ (Nat.le_refl _)] at hf
          rcases hf with hf | hf
          · exact hf rfl
          · cases hf
        have hc : ∀ f, s.computed f = true → r.computed f = true := by
          intro f hf
          have : (view s f).out ≠ none := by intro e1; rw [computed_eq_view, e1] at hf; cases hf
          rw [computed_of_view (hvO f (hlt f (Or.inl this)))]; exact hf
        refine ⟨hc, ?_, noroot, ?_, ?_, ?_, ?_⟩
        · intro u x hux _
          exact Or.inl (aw_of_view (hvO u (hlt u (Or.inr hux.1))) hux)
        · exact orph_of_views (fun u hu => hvO u (hlt u (Or.inl (by rw [hu]; simp))))
        · intro t ht
          left
          by_cases e1 : t = s.futs.length
          · subst e1
            have := ht.2.1
            rw [hvN] at this
            cases this
          · unfold StartedU at ht ⊢; rw [hvO t e1] at ht; exact ht
        · intro x hx _
          rw [hstk] at hx
          exact Or.inl hx
        · intro u
          by_cases e1 : u = s.futs.length
          · subst e1
            exact pvu_fresh (by rw [hvN]; rfl) (by rw [hvN]; rfl)
          · exact pvu_of_view hc (hL.pv u) (hvO u e1)
  | cons c rest =>
    cases c with
    | gen t old =>
      have e := step_gen' s hs hctl hst
      rw [e] at hst ⊢
      exact lstep_gen h hL hC hctl (genStep_gd' s t old (h.gen hctl).1 hst)
    | waitEnter root =>
      cases hcr : s.computed root with
      | true =>
        rw [step_waitEnter_ret s hs hr hctl hcr]
        refine lstep_views hL (fun _ => rfl) ?_ (fun x hx _ => Or.inl hx)
        refine root_tail hctl (by simp [State.returnFromWait, hctl]) ?_
        intro root' hr'
        injection hr' with hr'
        subst hr'
        exact hcr
      | false =>
        rw [step_waitEnter_loop s hs hr hctl hcr]
        refine lstep_views hL (fun _ => rfl) (fun x hx _ => root_swap (c1 := .waitLoop root s.stack.length) hctl
          (by simp [hctl]) rfl x hx) ?_
        intro x hx _
        rcases List.mem_cons.1 hx with e1 | e1
        · subst e1
          exact Or.inr (Or.inl ⟨.waitLoop x s.stack.length, List.mem_cons_self, rfl⟩)
        · exact Or.inl e1
    | waitLoop root base =>
      by_cases hlen : s.stack.length > base
      · have e := step_waitLoop_iter s hs hr hctl hlen
        rw [e] at hst hg ⊢
        cases hstk : s.stack with
        | nil => rw [hstk] at hlen; simp at hlen
        | cons top st =>
          exact lstep_iter hL hstk (fun t ht => pin.startedTask t ht) (executeIter_id s top st hstk hst) hg
      · have hle : s.stack.length ≤ base := by omega
        cases hcr : s.computed root with
        | true =>
          rw [step_waitLoop_ret s hs hr hctl hle hcr]
          refine lstep_views hL (fun _ => rfl) ?_ (fun x hx _ => Or.inl hx)
          refine root_tail hctl (by simp [State.returnFromWait, hctl]) ?_
          intro root' hr'
          injection hr' with hr'
          subst hr'
          exact hcr
        | false =>
          have e := step_waitLoop_flush s hs hr hctl hle hcr
          rw [e] at hst ⊢
          obtain ⟨F, hctl'⟩ := schedulerFlush_desc s root hst
          have hc : ∀ f, s.computed f = true → (s.schedulerFlush root).computed f = true :=
            fun f hf => F.computed_mono hf
          have keep : ∀ u, (view s u).kind = .task ∨ (view s u).out ≠ none → view (s.schedulerFlush root) u = view s u := by
            intro u hu
            rcases hu with hk | ho
            · exact (schedulerFlush_only s root).1 u (itemsOk_not_task pin.items hk)
            · rcases F.view u with e1 | ⟨e1, _⟩
              · exact e1
              · exact absurd e1 ho
          refine ⟨hc, ?_, ?_, ?_, ?_, ?_, ?_⟩
          · intro u x hux _
            exact Or.inl (aw_of_view (keep u (Or.inl hux.1)) hux)
          · intro x hx _
            exact root_swap (c1 := .waitEnter root) hctl (by rw [hctl', hctl]; rfl) rfl x hx
          · exact orph_of_views (fun u hu => keep u (Or.inr (by rw [hu]; simp)))
          · intro t ht
            left
            rcases F.view t with e1 | ⟨_, o, e1⟩
            · unfold StartedU at ht ⊢; rw [e1] at ht; exact ht
            · exfalso
              have := ht.2.2
              rw [e1] at this
              simp [doneView] at this
          · intro x hx _
            rw [F.stack] at hx
            exact Or.inl hx
          · intro u
            rcases F.view u with e1 | ⟨_, o, e1⟩
            · exact pvu_of_view hc (hL.pv u) e1
            · exact pvu_done (by rw [e1]; simp [doneView]) (by rw [e1]; rfl)

/-- when no `wait_for` is in progress, every started uncomputed task is orphaned -/
theorem started_orphaned {s : State} (h : Good' s) (hL : InvL' s) (hctl : s.ctl = []) :
    ∀ t, StartedU s t → Orphaned s t := by
  have hH := h.hinv
  obtain ⟨p, hp⟩ := hH.path
  have key : ∀ k t, s.futs.length - P10.rankOf s p t ≤ k → StartedU s t → Orphaned s t := by
    intro k
    induction k with
    | zero =>
      intro t hk ht
      rcases hL.aw t ht with ⟨c, hc, _⟩ | ⟨u, hu⟩ | ⟨u, h1, h2⟩
      · rw [hctl] at hc; cases hc
      · have hn := hH.deps u t hu.2.2
        have hlt := P10.rankOf_lt hp (hH.named_lt hn) (hH.named_bound hn)
        have := rankOf_le s p u
        omega
      · exact .direct h1 h2
    | succ k ih =>
      intro t hk ht
      rcases hL.aw t ht with ⟨c, hc, _⟩ | ⟨u, hu⟩ | ⟨u, h1, h2⟩
      · rw [hctl] at hc; cases hc
      · have hn := hH.deps u t hu.2.2
        have hlt := P10.rankOf_lt hp (hH.named_lt hn) (hH.named_bound hn)
        have hsu : StartedU s u := by
          refine ⟨hu.1, (hL.pv u).2.2 hu.2.1 ?_, hu.2.1⟩
          intro e
          have := hu.2.2
          rw [e] at this; cases this
        exact .via hu.1 hu.2.1 hu.2.2 (ih u (by have := rankOf_le s p u; omega) hsu)
      · exact .direct h1 h2
  intro t
  exact key _ t (Nat.le_refl _)

/-- `InvL'` along a run in which the guard does not fire -/
theorem invL'_runFuel {n0 : Nat} {s : State} (ri : RunInv n0 s) (hL : InvL' s)
    (hg : ∀ n, (runFuel n s).guardFired = false) (hor : ∀ n, oracleOK (runFuel n s) = true) :
    ∀ n, RunInv n0 (runFuel n s) ∧ InvL' (runFuel n s) := by
  intro n
  induction n with
  | zero => exact ⟨ri, hL⟩
  | succ n ih =>
    rw [P21.runFuel_succ]
    split
    · exact ih
    · rename_i hd
      have hd' : (runFuel n s).isDone = false := by simpa using hd
      have ri' := runInv_step ih.1 (hor n)
      have hg' : (step (runFuel n s)).guardFired = false := by
        have := hg (n + 1)
        rw [P21.runFuel_succ, if_neg hd] at this
        exact this
      exact ⟨ri', invL'_step (good'_of ih.1) ih.2 hd' ri'.stuck hg'⟩

end AsynqModel.Core.P25
